(* MatcherText.v — C02: character-level models (str = list of code points) of the repository's OWN
   textual matcher pipeline, the two reference lexers, the renderer, a small parser for the
   Python-side token language, the model of enforce_ex's per-rule evaluation, and oracle_C02.
   No proofs here (MatcherTextProofs.v).  ASCII-exact: \b \w \d and str.strip() are modelled on
   code points < 128 (Python's are Unicode-aware); the theorems require ASCII token texts. *)
From Coq Require Import List NArith Bool.
From PyCasbin Require Import Base Effect Expr.
Import ListNotations.
Local Open Scope N_scope.

(* ====================================================================== characters, strings *)
Definition is_blank (c : N) : bool := (c =? 32) || (c =? 9).
(* str.strip() with no argument, ASCII whitespace: \t \n \v \f \r space *)
Definition is_space (c : N) : bool := ((9 <=? c) && (c <=? 13)) || (c =? 32).
Definition is_word_opt (p : option N) : bool := match p with Some c => is_word c | None => false end.
Definition is_quote (c : N) : bool := (c =? 34) || (c =? 39).

Fixpoint span (p : N -> bool) (s : str) : str * str :=
  match s with
  | [] => ([], [])
  | c :: r => if p c then let (a, b) := span p r in (c :: a, b) else ([], s)
  end.

Fixpoint drop_while (p : N -> bool) (s : str) : str :=
  match s with [] => [] | c :: r => if p c then drop_while p r else s end.

Definition strip (s : str) : str := rev (drop_while is_space (rev (drop_while is_space s))).

Definition lastc (a : str) (prev : option N) : option N :=
  match rev a with [] => prev | c :: _ => Some c end.

Definition nonempty {A} (l : list A) : bool := match l with [] => false | _ => true end.
Definition hd_is (p : N -> bool) (s : str) : bool := match s with c :: _ => p c | [] => false end.

(* ====================================================================== re.sub / str.replace
   A matcher looks at the previous character of the ORIGINAL string (lookbehind of \b) and at the
   text from the current position; on success it returns the replacement and how many FURTHER
   characters the match consumes.  [rsub] is leftmost, non-overlapping substitution (re.sub,
   str.replace); structural in the string thanks to the skip counter. *)
Definition matcher := option N -> str -> option (str * nat).

Fixpoint rsub (m : matcher) (prev : option N) (skip : nat) (s : str) : str :=
  match s with
  | [] => []
  | c :: s' =>
      match skip with
      | S k => rsub m (Some c) k s'
      | O => match m prev s with
             | Some (rep, n) => rep ++ rsub m (Some c) n s'
             | None => c :: rsub m (Some c) O s'
             end
      end
  end.

(* ---------------------------------------------------------------- util.escape_assertion (21-37)
   re.search of  \b LETTER ( \d* ) \.  : at a position holding LETTER on a word boundary, the
   greedy digit run must be followed by a dot; group(1) is that digit run. *)
Definition match_any (letter : N) (prev : option N) (s : str) : option str :=
  match s with
  | c :: s' =>
      if (c =? letter) && negb (is_word_opt prev) then
        let (ds, rest) := span is_digit s' in
        match rest with
        | d :: _ => if d =? 46 then Some ds else None
        | [] => None
        end
      else None
  | [] => None
  end.

Fixpoint find_sfx (letter : N) (prev : option N) (s : str) : option str :=
  match s with
  | [] => None
  | c :: s' => match match_any letter prev s with
               | Some ds => Some ds
               | None => find_sfx letter (Some c) s'
               end
  end.

(* re.sub of  \b LETTER SFX \.  by  LETTER SFX _ *)
Definition esc_m (letter : N) (sfx : str) : matcher := fun prev s =>
  match match_any letter prev s with
  | Some ds => if str_eqb ds sfx then Some (letter :: sfx ++ [95], S (length sfx)) else None
  | None => None
  end.

Definition escape_letter (letter : N) (s : str) : str :=
  match find_sfx letter None s with
  | Some sfx => rsub (esc_m letter sfx) None 0 s
  | None => s
  end.

(* only the suffix of the FIRST p-match (then of the first r-match) is escaped: lines 23-35 *)
Definition escape_assertion (s : str) : str := escape_letter 114 (escape_letter 112 s).

(* ---------------------------------------------------------------- util.remove_comments (40-47) *)
Definition remove_comments (s : str) : str :=
  match find_char 35 s with
  | None => s                                   (* no strip on this branch *)
  | Some i => strip (firstn i s)
  end.

(* ---------------------------------------------------------------- _get_expression (540-545),
   with the repair fixes/C02-operator-spacing.diff: " and ", " or ", " not " *)
Definition s_and_pad : str := [32; 97; 110; 100; 32].
Definition s_or_pad : str := [32; 111; 114; 32].
Definition s_not_pad : str := [32; 110; 111; 116; 32].

Definition m_op (x : N) (rep : str) : matcher := fun _ s =>
  match s with
  | c1 :: c2 :: _ => if (c1 =? x) && (c2 =? x) then Some (rep, 1%nat) else None
  | _ => None
  end.
Definition m_and : matcher := m_op 38 s_and_pad.          (* expr.replace("&&", " and ") *)
Definition m_or : matcher := m_op 124 s_or_pad.           (* expr.replace("||", " or ") *)
(* re.sub of  ! not followed by =  (negative lookahead)  by " not " *)
Definition m_not : matcher := fun _ s =>
  match s with
  | c :: r => if c =? 33 then (if hd_is (N.eqb 61) r then None else Some (s_not_pad, 0%nat)) else None
  | [] => None
  end.

Definition get_expression (s : str) : str :=
  rsub m_not None 0 (rsub m_or None 0 (rsub m_and None 0 s)).

(* ---------------------------------------------------------------- eval_reg (util.py:18):
   \b eval \( , then the group "rule" = any run of characters other than ')' , then \)  *)
Definition s_eval_lp : str := [101; 118; 97; 108; 40].

Definition eval_match (prev : option N) (s : str) : option (str * nat) :=
  if negb (is_word_opt prev) && is_prefix s_eval_lp s then
    let (name, rest) := span (fun c => negb (c =? 41)) (skipn 5 s) in
    match rest with
    | _ :: _ => Some (name, (5 + length name)%nat)       (* further chars after the 'e' *)
    | [] => None
    end
  else None.

(* util.has_eval *)
Fixpoint has_eval (prev : option N) (s : str) : bool :=
  match s with
  | [] => false
  | c :: s' => match eval_match prev s with Some _ => true | None => has_eval (Some c) s' end
  end.

(* util.get_eval_value: eval_reg.findall *)
Fixpoint get_eval_value (prev : option N) (skip : nat) (s : str) : list str :=
  match s with
  | [] => []
  | c :: s' =>
      match skip with
      | S k => get_eval_value (Some c) k s'
      | O => match eval_match prev s with
             | Some (name, n) => name :: get_eval_value (Some c) n s'
             | None => get_eval_value (Some c) O s'
             end
      end
  end.

(* util.replace_eval (86-96).  Python searches the MODIFIED string from just after the inserted
   rule; the inserted text ends with ')' exactly like the replaced match, so the lookbehind of \b
   sees the same character and scanning the remainder of the original is equivalent.  [None] =
   rules.pop(0) on an empty list (IndexError; unreachable when rules come from get_eval_value). *)
Fixpoint replace_eval (rules : list str) (prev : option N) (skip : nat) (s : str) : option str :=
  match s with
  | [] => Some []
  | c :: s' =>
      match skip with
      | S k => replace_eval rules (Some c) k s'
      | O => match eval_match prev s with
             | Some (_, n) =>
                 match rules with
                 | r :: rs => option_map (fun t => 40 :: r ++ 41 :: t) (replace_eval rs (Some c) n s')
                 | [] => None
                 end
             | None => option_map (cons c) (replace_eval rules (Some c) O s')
             end
      end
  end.

(* ====================================================================== Config (config.py) *)
Fixpoint split_on (c : N) (s : str) : list str :=
  match s with
  | [] => [[]]
  | x :: r => if x =? c then [] :: split_on c r
              else match split_on c r with
                   | [] => [[x]]
                   | h :: t => (x :: h) :: t
                   end
  end.

Fixpoint split_first (c : N) (s : str) : option (str * str) :=
  match s with
  | [] => None
  | x :: r => if x =? c then Some ([], r)
              else match split_first c r with
                   | Some (a, b) => Some (x :: a, b)
                   | None => None
                   end
  end.

Definition cfgdata := list ((str * str) * str).       (* (section, option) -> value; later wins *)

Record cfgst := { c_sec : str; c_buf : list str; c_can : bool; c_data : cfgdata }.

(* Config._write (98-112) *)
Definition cfg_write (st : cfgst) : result cfgst :=
  let b := concat (c_buf st) in
  match b with
  | [] => Ok st
  | _ => match split_first 61 b with
         | None => Err ERuntime                                   (* "parse the content error" *)
         | Some (o, v) =>
             Ok {| c_sec := c_sec st; c_buf := []; c_can := c_can st;
                   c_data := ((c_sec st, strip o), strip v) :: c_data st |}
         end
  end.

(* one iteration of the while loop of _parse_buffer (66-96) for a line that was read *)
Definition cfg_line (st : cfgst) (raw : str) : result cfgst :=
  rbind (if c_can st then rbind (cfg_write st) (fun s => Ok {| c_sec := c_sec s; c_buf := c_buf s;
                                                               c_can := false; c_data := c_data s |})
         else Ok st) (fun st =>
  let line := strip raw in
  match line with
  | [] => Ok {| c_sec := c_sec st; c_buf := c_buf st; c_can := true; c_data := c_data st |}
  | h :: _ =>
      if (h =? 35) || (h =? 59) then
        Ok {| c_sec := c_sec st; c_buf := c_buf st; c_can := true; c_data := c_data st |}
      else if (h =? 91) && (match rev line with l :: _ => l =? 93 | [] => false end) then
        rbind (match c_buf st with
               | [] => Ok st
               | _ => rbind (cfg_write st) (fun s => Ok {| c_sec := c_sec s; c_buf := c_buf s;
                                                           c_can := false; c_data := c_data s |})
               end) (fun st =>
        Ok {| c_sec := removelast (tl line); c_buf := c_buf st; c_can := c_can st; c_data := c_data st |})
      else if (match rev line with l :: _ => l =? 92 | [] => false end) then
        Ok {| c_sec := c_sec st; c_buf := c_buf st ++ [strip (removelast line) ++ [32]];
              c_can := c_can st; c_data := c_data st |}
      else
        Ok {| c_sec := c_sec st; c_buf := c_buf st ++ [line]; c_can := true; c_data := c_data st |}
  end).

Fixpoint cfg_lines (st : cfgst) (lines : list str) : result cfgst :=
  match lines with
  | [] => Ok st
  | l :: r => rbind (cfg_line st l) (fun st' => cfg_lines st' r)
  end.

(* readline() until EOF: the segment after the last '\n' is a line only if it is non-empty *)
Definition text_lines (text : str) : list str :=
  let ls := split_on 10 text in
  match rev ls with
  | [] :: r => rev r
  | _ => ls
  end.

Definition cfg_parse (text : str) : result cfgdata :=
  rbind (cfg_lines {| c_sec := []; c_buf := []; c_can := false; c_data := [] |} (text_lines text))
        (fun st =>
  rbind (if c_can st then cfg_write st else Ok st) (fun st =>            (* loop top before EOF *)
  rbind (match c_buf st with [] => Ok st | _ => cfg_write st end) (fun st =>
  Ok (c_data st)))).

Fixpoint cfg_get (d : cfgdata) (sec opt : str) : str :=
  match d with
  | [] => []
  | ((s, o), v) :: r => if str_eqb s sec && str_eqb o opt then v else cfg_get r sec opt
  end.

(* ====================================================================== Model.add_def / _load_section *)
Definition digit_str (i : nat) : str := [N.of_nat i + 48].       (* i < 10 *)
Definition key_of (sec : N) (i : nat) : str :=
  match i with 1%nat => [sec] | _ => sec :: digit_str i end.

(* tokens of an r/p definition: key + "_" + token.strip()  (model.py:59-62) *)
Definition def_tokens (key value : str) : list str :=
  map (fun t => key ++ 95 :: strip t) (split_on 44 value).

(* _load_section: keys sec, sec2, sec3, ... while the value is non-empty (modelled up to 9) *)
Fixpoint load_section (d : cfgdata) (secname : str) (sec : N) (i n : nat) : list (str * str) :=
  match n with
  | O => []
  | S n' => match cfg_get d secname (key_of sec i) with
            | [] => []
            | v => (key_of sec i, v) :: load_section d secname sec (S i) n'
            end
  end.

Definition sn_r : str := [114; 101; 113; 117; 101; 115; 116; 95; 100; 101; 102; 105; 110; 105; 116; 105; 111; 110].
Definition sn_p : str := [112; 111; 108; 105; 99; 121; 95; 100; 101; 102; 105; 110; 105; 116; 105; 111; 110].
Definition sn_e : str := [112; 111; 108; 105; 99; 121; 95; 101; 102; 102; 101; 99; 116].
Definition sn_m : str := [109; 97; 116; 99; 104; 101; 114; 115].

Record model := { m_r : list (str * list str); m_p : list (str * list str);
                  m_e : list (str * str); m_m : list (str * str) }.

(* value stored for e / m definitions: remove_comments(escape_assertion(value))  (model.py:68) *)
Definition stored_value (v : str) : str := remove_comments (escape_assertion v).

Definition load_model (text : str) : result model :=
  rbind (cfg_parse text) (fun d =>
  Ok {| m_r := map (fun kv => (fst kv, def_tokens (fst kv) (snd kv))) (load_section d sn_r 114 1 9);
        m_p := map (fun kv => (fst kv, def_tokens (fst kv) (snd kv))) (load_section d sn_p 112 1 9);
        m_e := map (fun kv => (fst kv, stored_value (snd kv))) (load_section d sn_e 101 1 9);
        m_m := map (fun kv => (fst kv, stored_value (snd kv))) (load_section d sn_m 109 1 9) |}).

(* ====================================================================== token texts, rendering *)
Definition dots (attrs : list str) : str := flat_map (fun a => 46 :: a) attrs.
Definition quote_of (dq : bool) : N := if dq then 34 else 39.

Definition text (t : tok) : str :=
  match t with
  | TAnd => [38; 38] | TOr => [124; 124] | TNot => [33]
  | TCmp CEq => [61; 61] | TCmp CNe => [33; 61] | TCmp CLt => [60] | TCmp CLe => [60; 61]
  | TCmp CGt => [62] | TCmp CGe => [62; 61]
  | TIn => [105; 110] | TLP => [40] | TRP => [41] | TLB => [91] | TRB => [93] | TComma => [44]
  | TReq sfx f attrs => 114 :: sfx ++ 46 :: f ++ dots attrs
  | TPol sfx f => 112 :: sfx ++ 46 :: f
  | TEval sfx f => s_eval_lp ++ 112 :: sfx ++ 46 :: f ++ [41]
  | TStr dq s => quote_of dq :: s ++ [quote_of dq]
  | TInt ds => ds
  | TId s => s
  | TDotted x attrs => x ++ dots attrs
  | TEvalE x => s_eval_lp ++ x ++ [41]
  | TKAnd => [97; 110; 100] | TKOr => [111; 114] | TKNot => [110; 111; 116] | TDot => [46]
  end.

(* a piece = blanks before, token, blanks after; the run between two tokens is post ++ pre *)
Definition piece := (str * tok * str)%type.
Definition piece_text (p : piece) : str :=
  match p with (a, t, b) => a ++ text t ++ b end.
Definition render_pieces (ps : list piece) : str := flat_map piece_text ps.

Definition layout := list (str * str).
Definition mk_pieces (ts : list tok) (ws : layout) : list piece :=
  map (fun tw => (fst (snd tw), fst tw, snd (snd tw))) (combine ts ws).
Definition render (ts : list tok) (ws : layout) : str := render_pieces (mk_pieces ts ws).

(* ====================================================================== the two lexers *)
Definition s_in : str := [105; 110].
Definition s_and : str := [97; 110; 100].
Definition s_or : str := [111; 114].
Definition s_not : str := [110; 111; 116].
Definition s_eval : str := [101; 118; 97; 108].


(* string literal body: up to the closing quote; no backslash, no newline inside *)
Definition lex_string (q : N) (s : str) : option (str * str) :=
  let (body, rest) := span (fun c => negb (c =? q)) s in
  match rest with
  | _ :: rest' => if forallb (fun c => negb ((c =? 92) || (c =? 10))) body then Some (body, rest') else None
  | [] => None
  end.

Definition leading_zero (ds : str) : bool :=
  match ds with d :: _ :: _ => d =? 48 | _ => false end.

Definition lex_int (s : str) : option (tok * str) :=
  let (ds, rest) := span is_digit s in
  if hd_is is_word rest || hd_is (N.eqb 46) rest then None            (* 1x, 1.5: not in the language *)
  else if leading_zero ds then None
  else Some (TInt ds, rest).

Definition lex_op (c : N) (s' : str) : option (tok * str) :=
  let eq_next := hd_is (N.eqb 61) s' in
  let bad_next := hd_is (fun d => (d =? 60) || (d =? 62)) s' in
  if c =? 40 then Some (TLP, s') else if c =? 41 then Some (TRP, s')
  else if c =? 91 then Some (TLB, s') else if c =? 93 then Some (TRB, s')
  else if c =? 44 then Some (TComma, s')
  else if c =? 61 then (if eq_next then Some (TCmp CEq, tl s') else None)
  else if c =? 60 then (if eq_next then Some (TCmp CLe, tl s') else if bad_next then None else Some (TCmp CLt, s'))
  else if c =? 62 then (if eq_next then Some (TCmp CGe, tl s') else if bad_next then None else Some (TCmp CGt, s'))
  else None.

(* ---- Python-side token language: names, keywords and/or/not/in, '.', ints, strings, operators.
   Conservative: a name directly followed by a quote (possible string prefix), a number directly
   followed by a word character or '.', '<<' '>>' '<>' and every other character yield None. *)
Definition py_lex_one (s : str) : option (tok * str) :=
  match s with
  | [] => None
  | c :: s' =>
      if is_alpha c then
        let (w, rest) := span is_word s in
        if hd_is is_quote rest then None
        else Some (if str_eqb w s_and then TKAnd else if str_eqb w s_or then TKOr
                   else if str_eqb w s_not then TKNot else if str_eqb w s_in then TIn else TId w, rest)
      else if is_digit c then lex_int s
      else if is_quote c then
        match lex_string c s' with Some (body, rest) => Some (TStr (c =? 34) body, rest) | None => None end
      else if c =? 46 then Some (TDot, s')
      else if c =? 33 then (if hd_is (N.eqb 61) s' then Some (TCmp CNe, tl s') else None)
      else lex_op c s'
  end.

Section Lex.
  Variable one : str -> option (tok * str).
  Fixpoint lex_fuel (fuel : nat) (s : str) : option (list tok) :=
    match s with
    | [] => Some []
    | c :: s' =>
        match fuel with
        | O => None
        | S k => if is_blank c then lex_fuel k s'
                 else match one s with
                      | Some (t, rest) => option_map (cons t) (lex_fuel k rest)
                      | None => None
                      end
        end
    end.
  Definition lex (s : str) : option (list tok) := lex_fuel (length s) s.
End Lex.

Definition py_lex : str -> option (list tok) := lex py_lex_one.

(* what ast.parse sees: SimpleEval strips the text first (expression.py:34); a remaining leading
   blank would be an IndentationError, an empty text is never parsed *)
Definition py_tokens (s : str) : option (list tok) :=
  match strip s with
  | [] => None
  | s' => py_lex s'
  end.

(* ---- Casbin-side token language *)
Fixpoint take_dotted (fuel : nat) (s : str) : list str * str :=
  match fuel, s with
  | S k, 46 :: s' =>
      let (w, r) := span is_word s' in
      if hd_is is_alpha w then let (ws, r') := take_dotted k r in (w :: ws, r') else ([], s)
  | _, _ => ([], s)
  end.

Definition rp_form (letter : N) (w : str) : bool :=
  match w with c :: ds => (c =? letter) && forallb is_digit ds | [] => false end.

Definition cb_lex_one (s : str) : option (tok * str) :=
  match s with
  | [] => None
  | c :: s' =>
      if is_alpha c then
        let (w, rest) := span is_word s in
        if str_eqb w s_eval && hd_is (N.eqb 40) rest then
          (* eval(p<sfx>.f) is one lexical unit: no blanks inside (eval_reg) *)
          let (w2, rest2) := span is_word (tl rest) in
          match take_dotted (length rest2) rest2 with
          | ([f], 41 :: rest3) => if rp_form 112 w2 then Some (TEval (tl w2) f, rest3) else None
          | _ => None
          end
        else if hd_is (N.eqb 46) rest then
          match take_dotted (length rest) rest with
          | (f :: attrs, rest2) =>
              if hd_is (N.eqb 46) rest2 then None
              else if rp_form 114 w then Some (TReq (tl w) f attrs, rest2)
              else if rp_form 112 w then match attrs with [] => Some (TPol (tl w) f, rest2) | _ => None end
              else None
          | _ => None
          end
        else if hd_is is_quote rest then None
        else Some (if str_eqb w s_in then TIn else TId w, rest)
      else if is_digit c then lex_int s
      else if is_quote c then
        match lex_string c s' with Some (body, rest) => Some (TStr (c =? 34) body, rest) | None => None end
      else if c =? 38 then (if hd_is (N.eqb 38) s' then Some (TAnd, tl s') else None)
      else if c =? 124 then (if hd_is (N.eqb 124) s' then Some (TOr, tl s') else None)
      else if c =? 33 then (if hd_is (N.eqb 61) s' then Some (TCmp CNe, tl s') else Some (TNot, s'))
      else lex_op c s'
  end.

Definition cb_lex : str -> option (list tok) := lex cb_lex_one.

(* ====================================================================== tr: Casbin token -> Python tokens *)
Definition dotted_toks (x : str) (attrs : list str) : list tok :=
  TId x :: flat_map (fun a => [TDot; TId a]) attrs.

Definition esc_name (letter : N) (sfx f : str) : str := letter :: sfx ++ 95 :: f.

Definition tr (t : tok) : list tok :=
  match t with
  | TAnd => [TKAnd] | TOr => [TKOr] | TNot => [TKNot]
  | TReq sfx f attrs => dotted_toks (esc_name 114 sfx f) attrs
  | TPol sfx f => [TId (esc_name 112 sfx f)]
  | TDotted x attrs => dotted_toks x attrs
  | TEval sfx f => [TId s_eval; TLP; TId (esc_name 112 sfx f); TRP]
  | TEvalE x => [TId s_eval; TLP; TId x; TRP]
  | t => [t]
  end.

(* the whole textual pipeline applied to the value of an m definition without eval():
   add_def (load time) then _get_expression (enforce time) *)
Definition pipeline (v : str) : str := get_expression (stored_value v).


(* ====================================================================== well-formedness, admissible layouts
   (the hypotheses of the theorems in Props/C02.v; boolean, so the harness can evaluate them) *)
Definition ident (s : str) : bool :=
  match s with c :: r => is_alpha c && forallb is_word r | [] => false end.
Definition rp_any (w : str) : bool := rp_form 112 w || rp_form 114 w.
(* reserved names: eval (eval_reg would take  eval(  for an eval call) and the Python keywords other
   than True / False: None and as assert async await break class continue def del elif else except finally for from global if import in is lambda nonlocal not or pass raise return try while with yield *)
Definition py_keywords : list str :=
  [[78; 111; 110; 101]; [97; 110; 100]; [97; 115]; [97; 115; 115; 101; 114; 116]; [97; 115; 121; 110; 99]; [97; 119; 97; 105; 116]; [98; 114; 101; 97; 107]; [99; 108; 97; 115; 115]; [99; 111; 110; 116; 105; 110; 117; 101]; [100; 101; 102]; [100; 101; 108]; [101; 108; 105; 102]; [101; 108; 115; 101]; [101; 120; 99; 101; 112; 116]; [102; 105; 110; 97; 108; 108; 121]; [102; 111; 114]; [102; 114; 111; 109]; [103; 108; 111; 98; 97; 108]; [105; 102]; [105; 109; 112; 111; 114; 116]; [105; 110]; [105; 115]; [108; 97; 109; 98; 100; 97]; [110; 111; 110; 108; 111; 99; 97; 108]; [110; 111; 116]; [111; 114]; [112; 97; 115; 115]; [114; 97; 105; 115; 101]; [114; 101; 116; 117; 114; 110]; [116; 114; 121]; [119; 104; 105; 108; 101]; [119; 105; 116; 104]; [121; 105; 101; 108; 100]; [101; 118; 97; 108]].
(* identifiers, field names, attribute names: ASCII identifier, not r<digits> / p<digits>, not a keyword *)
Definition good_name (s : str) : bool :=
  ident s && negb (rp_any s) && negb (mem str_eqb s py_keywords).
Definition digits_ok (ds : str) : bool :=
  nonempty ds && forallb is_digit ds && negb (leading_zero ds).
(* characters allowed inside a string literal: printable ASCII except & | ! # double-quote quote
   backslash ( ) *)
Definition lit_char (c : N) : bool :=
  (32 <=? c) && (c <=? 126) && negb (mem N.eqb c [38; 124; 33; 35; 34; 39; 92; 40; 41]).
(* no position where escape_assertion's search  \b LETTER \d* \.  matches *)
Fixpoint no_match_in (letter : N) (prev : option N) (s : str) : bool :=
  match s with
  | [] => true
  | c :: s' => match match_any letter prev s with
               | Some _ => false
               | None => no_match_in letter (Some c) s'
               end
  end.
Definition lit_ok (dq : bool) (s : str) : bool :=
  let q := quote_of dq in
  forallb lit_char s && no_match_in 112 (Some q) (s ++ [q]) && no_match_in 114 (Some q) (s ++ [q]).

(* rs / ps: the one request suffix and the one policy suffix the definition uses (escape_assertion
   escapes only the suffix of its first match) *)
Definition wf_tok (rs ps : str) (t : tok) : bool :=
  match t with
  | TReq sfx f attrs => str_eqb sfx rs && good_name f && forallb good_name attrs
  | TPol sfx f => str_eqb sfx ps && good_name f
  | TEval sfx f => str_eqb sfx ps && good_name f
  | TStr dq s => lit_ok dq s
  | TInt ds => digits_ok ds
  | TId s => good_name s
  | TDotted x attrs => good_name x && forallb good_name attrs
  | TEvalE x => good_name x
  | TDot => false
  | _ => true
  end.

Definition casbin_tok (t : tok) : bool :=
  match t with TDotted _ _ | TEvalE _ | TKAnd | TKOr | TKNot | TDot => false | _ => true end.
Definition eval_tok (t : tok) : bool := match t with TEval _ _ | TEvalE _ => true | _ => false end.

(* well-formed Casbin token list *)
Definition wf_tokens (rs ps : str) (ts : list tok) : bool :=
  forallb is_digit rs && forallb is_digit ps && forallb (fun t => wf_tok rs ps t && casbin_tok t) ts.

Definition starts_word (t : tok) : bool :=
  match t with
  | TIn | TReq _ _ _ | TPol _ _ | TEval _ _ | TInt _ | TId _ | TDotted _ _ | TEvalE _
  | TKAnd | TKOr | TKNot => true
  | _ => false
  end.
Definition ends_word (t : tok) : bool :=
  match t with
  | TIn | TReq _ _ _ | TPol _ _ | TInt _ | TId _ | TDotted _ _ | TKAnd | TKOr | TKNot => true
  | _ => false
  end.
Definition starts_quote (t : tok) : bool := match t with TStr _ _ => true | _ => false end.
Definition is_cmp (t : tok) : bool := match t with TCmp _ => true | _ => false end.
Definition opish (t : tok) : bool := match t with TCmp _ | TNot => true | _ => false end.

(* the run of blanks g between tokens t and t' : may be EMPTY unless the two would glue (word
   character against word character or quote); an operator is never followed by a comparison *)
Definition gap_ok (t : tok) (g : str) (t' : tok) : bool :=
  (nonempty g || negb (ends_word t && (starts_word t' || starts_quote t')))
  && negb (opish t && is_cmp t').

Fixpoint adm (ps : list piece) : bool :=
  match ps with
  | [] => true
  | (a, t, b) :: rest =>
      forallb is_blank a && forallb is_blank b
      && match rest with
         | [] => true
         | (a', t', _) :: _ => gap_ok t (b ++ a') t'
         end
      && adm rest
  end.

Definition admissible (ts : list tok) (ws : layout) : bool :=
  Nat.eqb (length ws) (length ts) && adm (mk_pieces ts ws).

(* the token maps of the stages *)
Definition esc_p (t : tok) : tok :=
  match t with
  | TPol sfx f => TId (esc_name 112 sfx f)
  | TEval sfx f => TEvalE (esc_name 112 sfx f)
  | t => t
  end.
Definition esc_r (t : tok) : tok :=
  match t with TReq sfx f attrs => TDotted (esc_name 114 sfx f) attrs | t => t end.
Definition esc_tok (t : tok) : tok := esc_r (esc_p t).
Definition kw_tok (t : tok) : tok :=
  match t with TAnd => TKAnd | TOr => TKOr | TNot => TKNot | t => t end.

(* the same conditions stated on the AST: every name / literal of the expression is well-formed *)
Fixpoint names_ok (rs ps : str) (e : expr) : bool :=
  match e with
  | EOr a b | EAnd a b | ECmp _ a b => names_ok rs ps a && names_ok rs ps b
  | ENot a | EPar a => names_ok rs ps a
  | EIn a items _ => names_ok rs ps a && forallb (names_ok rs ps) items
  | ECall f args => good_name f && forallb (names_ok rs ps) args
  | EEval sfx f => str_eqb sfx ps && good_name f
  | EReq sfx f attrs => str_eqb sfx rs && good_name f && forallb good_name attrs
  | EPol sfx f => str_eqb sfx ps && good_name f
  | EVar _ _ => false
  | EStr dq s => lit_ok dq s
  | EInt ds => digits_ok ds
  end.

(* ====================================================================== parser for the Python-side tokens
   or < and < not < comparison (single, not chained) < atom with trailers.  Err ESyntax where
   Python's grammar rejects, Err ELimit for valid Python outside the fragment, Err EFuel never
   (fuel = 8 * (number of tokens + 1)). *)
Definition pres := result (expr * list tok).

Fixpoint take_attrs (ts : list tok) : option (list str * list tok) :=
  match ts with
  | TDot :: TId a :: r => match take_attrs r with
                          | Some (l, r') => Some (a :: l, r')
                          | None => None
                          end
  | TDot :: _ => None
  | _ => Some ([], ts)
  end.

Fixpoint p_or (k : nat) (ts : list tok) {struct k} : pres :=
  match k with
  | O => Err EFuel
  | S k =>
      rbind (p_and k ts) (fun ar =>
      match snd ar with
      | TKOr :: r => rbind (p_or k r) (fun br => Ok (EOr (fst ar) (fst br), snd br))
      | _ => Ok ar
      end)
  end
with p_and (k : nat) (ts : list tok) {struct k} : pres :=
  match k with
  | O => Err EFuel
  | S k =>
      rbind (p_not k ts) (fun ar =>
      match snd ar with
      | TKAnd :: r => rbind (p_and k r) (fun br => Ok (EAnd (fst ar) (fst br), snd br))
      | _ => Ok ar
      end)
  end
with p_not (k : nat) (ts : list tok) {struct k} : pres :=
  match k with
  | O => Err EFuel
  | S k =>
      match ts with
      | TKNot :: r => rbind (p_not k r) (fun ar => Ok (ENot (fst ar), snd ar))
      | _ => p_cmp k ts
      end
  end
with p_cmp (k : nat) (ts : list tok) {struct k} : pres :=
  match k with
  | O => Err EFuel
  | S k =>
      rbind (p_atom k ts) (fun ar =>
      let chained (r : list tok) : bool :=
          match r with TCmp _ :: _ | TIn :: _ | TKNot :: TIn :: _ => true | _ => false end in
      match snd ar with
      | TCmp op :: r =>
          rbind (p_atom k r) (fun br =>
          if chained (snd br) then Err ELimit else Ok (ECmp op (fst ar) (fst br), snd br))
      | TIn :: TLB :: r =>
          rbind (p_list k r TRB) (fun ir =>
          if chained (snd ir) then Err ELimit else Ok (EIn (fst ar) (fst (fst ir)) true, snd ir))
      | TIn :: TLP :: r =>
          rbind (p_list k r TRP) (fun ir =>
          if chained (snd ir) then Err ELimit
          else match fst (fst ir), snd (fst ir) with
               | [_], false => Err ELimit                     (* x in (y): not a tuple *)
               | items, _ => Ok (EIn (fst ar) items false, snd ir)
               end)
      | [TIn] => Err ESyntax
      | TIn :: _ => Err ELimit
      | TKNot :: TIn :: _ => Err ELimit
      | _ => Ok ar
      end)
  end
with p_atom (k : nat) (ts : list tok) {struct k} : pres :=
  match k with
  | O => Err EFuel
  | S k =>
      match ts with
      | TLP :: r =>
          rbind (p_or k r) (fun er =>
          match snd er with
          | TRP :: r' => Ok (EPar (fst er), r')
          | TComma :: _ => Err ELimit                          (* a tuple display outside `in` *)
          | _ => Err ESyntax
          end)
      | TId f :: TLP :: r =>
          rbind (p_list k r TRP) (fun ir => Ok (ECall f (fst (fst ir)), snd ir))
      | TId x :: r =>
          match take_attrs r with
          | Some (attrs, r') => Ok (EVar x attrs, r')
          | None => Err ESyntax
          end
      | TStr dq s :: r => Ok (EStr dq s, r)
      | TInt ds :: r => Ok (EInt ds, r)
      | _ => Err ESyntax
      end
  end
(* comma-separated expressions up to [close]; returns the items and whether a trailing comma was seen *)
with p_list (k : nat) (ts : list tok) (close : tok) {struct k}
  : result ((list expr * bool) * list tok) :=
  match k with
  | O => Err EFuel
  | S k =>
      let is_close (t : tok) : bool :=
          match close, t with TRP, TRP => true | TRB, TRB => true | _, _ => false end in
      match ts with
      | [] => Err ESyntax
      | t :: r =>
          if is_close t then Ok (([], false), r)
          else
            rbind (p_or k ts) (fun er =>
            match snd er with
            | TComma :: r' =>
                rbind (p_list k r' close) (fun ir =>
                Ok ((fst er :: fst (fst ir),
                     match fst (fst ir) with [] => true | _ => snd (fst ir) end), snd ir))
            | t' :: r' => if is_close t' then Ok (([fst er], false), r') else Err ESyntax
            | [] => Err ESyntax
            end)
      end
  end.

Definition parse_tokens (ts : list tok) : result expr :=
  rbind (p_or (8 * S (length ts)) ts) (fun er =>
  match snd er with [] => Ok (fst er) | _ => Err ESyntax end).

(* SimpleEval(expr).ast_parsed_value for the text handed to it *)
Definition parse_text (s : str) : result expr :=
  match py_tokens s with
  | Some ts => parse_tokens ts
  | None => Err ESyntax
  end.

(* ====================================================================== enforce_ex, matcher side *)
Definition err_name (_ _ : str) : result value := Err EName.

Definition names_lookup (params : list (str * value)) (x : str) : result value :=
  match assoc x params with Some v => Ok v | None => Err EName end.

(* expression.eval(parameters) on the parsed Python-side AST *)
Definition eval_py (fns : str -> option (list value -> result value))
           (params : list (str * value)) (e : expr) : result value :=
  eval_expr err_name err_name (names_lookup params) err_name fns e.

Fixpoint all_ok {A} (l : list (result A)) : result (list A) :=
  match l with
  | [] => Ok []
  | Err c :: _ => Err c
  | Ok a :: r => rbind (all_ok r) (fun r' => Ok (a :: r'))
  end.

Definition s_e : str := [101].
Definition s_m : str := [109].
Definition s_eft : str := [95; 101; 102; 116].

Definition effector_of (v : str) : result effector :=
  match assoc v documented with Some e => Ok e | None => Err EUnsupportedEffect end.

Definition lookup_key {A} (k : str) (l : list (str * A)) : result A :=
  match assoc k l with Some a => Ok a | None => Err EKeyError end.

Record world := {
  w_gs : list (str * list (list str));       (* grouping rules per role definition *)
  w_user : list str;                         (* registered user functions *)
  w_policy : list (str * list (list str))    (* rules per policy definition *)
}.

(* one rule: lines 447-482 *)
Definition rule_outcome (fns : str -> option (list value -> result value))
           (ptype exp_string : str) (expression : option expr)
           (r_params : list (str * value)) (p_tokens : list str) (pvals : list str)
  : result outcome :=
  if negb (Nat.eqb (length p_tokens) (length pvals)) then Err EPolicySize
  else
    let p_strs := combine p_tokens pvals in
    let p_params := map (fun kv => (fst kv, UStr (snd kv))) p_strs in
    let params := p_params ++ r_params in               (* dict(r_parameters, **p_parameters) *)
    rbind (match expression with
           | Some e => Ok e
           | None =>                                     (* 453-457 *)
               rbind (all_ok (map (fun n => rbind (lookup_key n p_strs)
                                                  (fun t => Ok (escape_assertion t)))
                                  (get_eval_value None 0 exp_string))) (fun rules =>
               match replace_eval rules None 0 exp_string with
               | Some s => parse_text (get_expression s)
               | None => Err EIndex
               end)
           end) (fun e =>
    outcome_of_value (assoc (ptype ++ s_eft) p_strs) (eval_py fns params e)).

(* Enforcer(model_text) ; add policies ; enforce(EnforceContext(rtype,ptype,etype,mtype), *rvals)
   with the repair fixes/C02-context-effect.diff (the effect definition named by the context is
   honoured when the model has it) *)
Definition enforce_model (text : str) (rtype ptype etype mtype : str) (w : world)
           (rvals : list value) : result bool :=
  rbind (load_model text) (fun m =>
  rbind (lookup_key s_e (m_e m)) (fun e0 =>
  rbind (effector_of e0) (fun eft0 =>                                   (* _initialize: 110 *)
  match assoc s_m (m_m m) with
  | None => Err ERuntime                                                 (* "model is undefined" *)
  | Some _ =>
  rbind (if negb (str_eqb etype s_e) then
           match assoc etype (m_e m) with Some v => effector_of v | None => Ok eft0 end
         else Ok eft0) (fun eft =>
  rbind (lookup_key rtype (m_r m)) (fun r_tokens =>
  rbind (lookup_key ptype (m_p m)) (fun p_tokens =>
  if negb (Nat.eqb (length r_tokens) (length rvals)) then Err EArity
  else
  rbind (lookup_key mtype (m_m m)) (fun exp_string =>
  let fns := fn_table (w_gs w) (w_user w) in
  let ev := has_eval None exp_string in
  rbind (if ev then Ok None
         else rbind (parse_text (get_expression exp_string)) (fun e => Ok (Some e))) (fun expression =>
  let r_params := combine r_tokens rvals in
  match match assoc ptype (w_policy w) with Some p => p | None => [] end with
  | [] =>                                                               (* 488-502 *)
      if ev then Err EEvalEmpty
      else match expression with
           | Some e =>
               rbind (eval_py fns (map (fun t => (t, UStr [])) p_tokens ++ r_params) e) (fun v =>
               decide eft [Ok (if truthy v then Match EAllow else NoMatch)])
           | None => Err ERuntime
           end
  | policy =>
      decide eft (map (rule_outcome fns ptype exp_string expression r_params p_tokens) policy)
  end)))))
  end))).

(* ====================================================================== the SPEC side:
   the AST evaluated directly, r.<field> bound to the request, p.<field> to the rule *)
Definition field_lookup {A} (want_sfx : str) (fields : list str) (vals : list A) (inj : A -> value)
           (sfx f : str) : result value :=
  if str_eqb sfx want_sfx then
    match assoc f (combine fields vals) with Some v => Ok (inj v) | None => Err EName end
  else Err EName.

Definition spec_rule (fns : str -> option (list value -> result value))
           (rsfx psfx : str) (rfields pfields : list str) (rvals : list value)
           (e : expr) (pvals : list str) (subs : list (str * expr)) : result outcome :=
  let lreq := field_lookup rsfx rfields rvals (fun v => v) in
  let lpol := field_lookup psfx pfields pvals UStr in
  let levl := fun sfx f =>
      if str_eqb sfx psfx then
        match assoc f subs with
        | Some e' => eval_expr lreq lpol (fun _ => Err EName) err_name fns e'
        | None => Err EKeyError
        end
      else Err EKeyError in
  outcome_of_value (assoc [101; 102; 116] (combine pfields pvals))
                   (eval_expr lreq lpol (fun _ => Err EName) levl fns e).

Fixpoint has_eval_expr (e : expr) : bool :=
  match e with
  | EOr a b | EAnd a b | ECmp _ a b => has_eval_expr a || has_eval_expr b
  | ENot a | EPar a => has_eval_expr a
  | EIn a items _ => has_eval_expr a || existsb has_eval_expr items
  | ECall _ args => existsb has_eval_expr args
  | EEval _ _ => true
  | _ => false
  end.

Definition spec_decide (eft : effector) (w : world) (rsfx psfx : str) (rfields pfields : list str)
           (rvals : list value) (e : expr) (rules : list (list str * list (str * expr)))
  : result bool :=
  let fns := fn_table (w_gs w) (w_user w) in
  if negb (Nat.eqb (length rfields) (length rvals)) then Err EArity
  else match rules with
       | [] =>
           if has_eval_expr e then Err EEvalEmpty
           else
             rbind (eval_expr (field_lookup rsfx rfields rvals (fun v => v))
                              (field_lookup psfx pfields (map (fun _ => []) pfields) UStr)
                              (fun _ => Err EName) err_name fns e) (fun v =>
             decide eft [Ok (if truthy v then Match EAllow else NoMatch)])
       | _ =>
           decide eft (map (fun r => spec_rule fns rsfx psfx rfields pfields rvals e (fst r) (snd r)) rules)
       end.

(* ====================================================================== oracle *)
Definition as_rules (v : val) : option (list (list str)) := as_listof as_strs v.
Definition as_keyed {A} (f : val -> option A) (v : val) : option (list (str * A)) :=
  as_listof (fun x => match x with
                      | VL [k; y] => match as_str k, f y with
                                     | Some k, Some y => Some (k, y) | _, _ => None end
                      | _ => None end) v.

Definition as_world (v : val) : option world :=
  match v with
  | VL [gs; user; pol] =>
      match as_keyed as_rules gs, as_strs user, as_keyed as_rules pol with
      | Some gs, Some user, Some pol => Some {| w_gs := gs; w_user := user; w_policy := pol |}
      | _, _, _ => None
      end
  | _ => None
  end.

Definition vtoks (ts : list tok) : val :=
  vlist (fun t => match t with
                  | TAnd => VL [VN 0] | TOr => VL [VN 1] | TNot => VL [VN 2]
                  | TCmp c => VL [VN 3; VN (match c with CEq => 0 | CNe => 1 | CLt => 2 | CLe => 3
                                                    | CGt => 4 | CGe => 5 end)]
                  | TIn => VL [VN 4] | TLP => VL [VN 5] | TRP => VL [VN 6] | TLB => VL [VN 7]
                  | TRB => VL [VN 8] | TComma => VL [VN 9]
                  | TReq sfx f attrs => VL [VN 10; vstr sfx; vstr f; vlist vstr attrs]
                  | TPol sfx f => VL [VN 11; vstr sfx; vstr f]
                  | TEval sfx f => VL [VN 12; vstr sfx; vstr f]
                  | TStr dq s => VL [VN 13; vbool dq; vstr s]
                  | TInt ds => VL [VN 14; vstr ds]
                  | TId s => VL [VN 15; vstr s]
                  | TDotted x attrs => VL [VN 16; vstr x; vlist vstr attrs]
                  | TEvalE x => VL [VN 17; vstr x]
                  | TKAnd => VL [VN 18] | TKOr => VL [VN 19] | TKNot => VL [VN 20] | TDot => VL [VN 21]
                  end) ts.

(* tag 1: MODEL  [text; rtype; ptype; etype; mtype; world; rvals]          -> result bool
   tag 2: SPEC   [effector; world; rsfx; psfx; rfields; pfields; rvals; expr; rules] -> result bool
   tag 3: text pipeline of a matcher value without eval: [value] -> option (Python-side tokens)
   tag 4: cb_lex [text] -> option tokens
   tag 5: tokens_of + grammatical: [expr] -> [grammatical; tokens; map tr tokens]
   tag 6: hypotheses of the theorems on a generated case: [rs; ps; expr; layout] ->
          [wf_tokens; admissible; render] *)
Definition oracle_C02 (tag : N) (v : val) : val :=
  match tag, v with
  | 1, VL [text; rt; pt; et; mt; w; rvals] =>
      match as_str text, as_str rt, as_str pt, as_str et, as_str mt, as_world w,
            as_listof value_of_val rvals with
      | Some text, Some rt, Some pt, Some et, Some mt, Some w, Some rvals =>
          vres vbool (enforce_model text rt pt et mt w rvals)
      | _, _, _, _, _, _, _ => vbad
      end
  | 2, VL [VN eft; w; rsfx; psfx; rf; pf; rvals; e; rules] =>
      match effector_of_N eft, as_world w, as_str rsfx, as_str psfx, as_strs rf, as_strs pf,
            as_listof value_of_val rvals, expr_of_val e,
            as_listof (fun x => match x with
                                | VL [pv; subs] => match as_strs pv, as_keyed expr_of_val subs with
                                                   | Some pv, Some subs => Some (pv, subs)
                                                   | _, _ => None end
                                | _ => None end) rules with
      | Some eft, Some w, Some rsfx, Some psfx, Some rf, Some pf, Some rvals, Some e, Some rules =>
          vres vbool (spec_decide eft w rsfx psfx rf pf rvals e rules)
      | _, _, _, _, _, _, _, _, _ => vbad
      end
  | 3, VL [s] =>
      match as_str s with
      | Some s => vopt vtoks (py_tokens (pipeline s))
      | None => vbad
      end
  | 4, VL [s] =>
      match as_str s with
      | Some s => vopt vtoks (cb_lex s)
      | None => vbad
      end
  | 5, VL [e] =>
      match expr_of_val e with
      | Some e => VL [vbool (grammatical e); vtoks (tokens_of e); vtoks (flat_map tr (tokens_of e))]
      | None => vbad
      end
  | 6, VL [rs; ps; e; ws] =>
      match as_str rs, as_str ps, expr_of_val e,
            as_listof (fun x => match x with
                                | VL [a; b] => match as_str a, as_str b with
                                               | Some a, Some b => Some (a, b) | _, _ => None end
                                | _ => None end) ws with
      | Some rs, Some ps, Some e, Some ws =>
          VL [vbool (wf_tokens rs ps (tokens_of e)); vbool (admissible (tokens_of e) ws);
              vstr (render (tokens_of e) ws)]
      | _, _, _, _ => vbad
      end
  | _, _ => vbad
  end.
