(* MatcherTextProofs.v — C02: lemmas about the textual matcher pipeline of MatcherText.v.
   Main result [pipeline_tokens]: every admissible spacing (blank runs possibly EMPTY) of a
   well-formed Casbin token list is turned by the repository's pipeline into text whose Python-side
   token list is exactly flat_map tr of the Casbin tokens. *)
From Coq Require Import List NArith Bool Arith Lia.
From PyCasbin Require Import Base Effect Expr MatcherText.
Import ListNotations.
Local Open Scope N_scope.

(* ====================================================================== small facts *)
Fixpoint lastc (a : str) (prev : option N) : option N :=
  match a with [] => prev | c :: r => lastc r (Some c) end.

Lemma lastc_app : forall a b p, lastc (a ++ b) p = lastc b (lastc a p).
Proof. induction a; simpl; intros; auto. Qed.

Lemma lastc_nonempty : forall a p q, a <> [] -> lastc a p = lastc a q.
Proof.
  destruct a as [|c a]; intros; [congruence|]. reflexivity.
Qed.

Lemma forallb_app_iff : forall {A} (f : A -> bool) l1 l2,
  forallb f (l1 ++ l2) = forallb f l1 && forallb f l2.
Proof. intros. apply forallb_app. Qed.

Lemma blank_not_word : forall c, is_blank c = true -> is_word c = false.
Proof.
  intros c H. unfold is_blank in H. apply orb_true_iff in H.
  destruct H as [H|H]; apply N.eqb_eq in H; subst; reflexivity.
Qed.

Lemma blank_is_space : forall c, is_blank c = true -> is_space c = true.
Proof.
  intros c H. unfold is_blank in H. apply orb_true_iff in H.
  destruct H as [H|H]; apply N.eqb_eq in H; subst; reflexivity.
Qed.

Lemma lastc_blanks_nonword : forall a p, forallb is_blank a = true -> a <> [] ->
  is_word_opt (lastc a p) = false.
Proof.
  induction a as [|c a IH]; intros p H Hne; [congruence|].
  simpl in *. apply andb_true_iff in H. destruct H as [Hc Ha].
  destruct a as [|d a'].
  - simpl. apply blank_not_word; auto.
  - apply IH; auto. discriminate.
Qed.

(* ---- span *)
Lemma span_all : forall p w rest, forallb p w = true -> hd_is p rest = false ->
  span p (w ++ rest) = (w, rest).
Proof.
  induction w as [|c w IH]; simpl; intros rest Hw Hr.
  - destruct rest as [|d r]; simpl in *; auto. rewrite Hr. reflexivity.
  - apply andb_true_iff in Hw. destruct Hw as [Hc Hw]. rewrite Hc. rewrite IH; auto.
Qed.

Lemma span_length : forall p s, (length (snd (span p s)) <= length s)%nat.
Proof.
  induction s as [|c s IH]; simpl; auto.
  destruct (p c) eqn:E.
  - destruct (span p s) eqn:S; simpl in *; lia.
  - simpl; lia.
Qed.

(* ====================================================================== rsub *)
Lemma rsub_skip : forall m a rest prev,
  rsub m prev (length a) (a ++ rest) = rsub m (lastc a prev) 0 rest.
Proof.
  induction a as [|c a IH]; simpl; intros; auto.
Qed.

Lemma rsub_copy : forall (m : matcher) (trig : N -> bool),
  (forall prev c s, trig c = false -> m prev (c :: s) = None) ->
  forall a rest prev, forallb (fun c => negb (trig c)) a = true ->
  rsub m prev 0 (a ++ rest) = a ++ rsub m (lastc a prev) 0 rest.
Proof.
  intros m trig Hm. induction a as [|c a IH]; simpl; intros rest prev Ha; auto.
  apply andb_true_iff in Ha. destruct Ha as [Hc Ha].
  rewrite Hm by (destruct (trig c); auto; discriminate).
  rewrite IH; auto.
Qed.

(* ====================================================================== escape_assertion: inert text *)
Local Arguments match_any : simpl never.
Local Arguments esc_m : simpl never.
(* no position of [a] (followed by [rest], preceded by [prev]) starts a match of \b LETTER \d* \. *)
Fixpoint inert (letter : N) (prev : option N) (a rest : str) : Prop :=
  match a with
  | [] => True
  | c :: a' => match_any letter prev (a ++ rest) = None /\ inert letter (Some c) a' rest
  end.

Lemma inert_app : forall l a b rest prev,
  inert l prev a (b ++ rest) -> inert l (lastc a prev) b rest -> inert l prev (a ++ b) rest.
Proof.
  induction a as [|c a IH]; simpl; intros b rest prev Ha Hb; auto.
  destruct Ha as [H1 H2]. split.
  - rewrite <- app_assoc. exact H1.
  - apply IH; auto.
Qed.

Lemma rsub_inert : forall l sfx a rest prev, inert l prev a rest ->
  rsub (esc_m l sfx) prev 0 (a ++ rest) = a ++ rsub (esc_m l sfx) (lastc a prev) 0 rest.
Proof.
  induction a as [|c a IH]; simpl; intros rest prev H; auto.
  destruct H as [H1 H2]. unfold esc_m at 1. rewrite H1. rewrite IH; auto.
Qed.

Lemma find_inert : forall l a rest prev, inert l prev a rest ->
  find_sfx l prev (a ++ rest) = find_sfx l (lastc a prev) rest.
Proof.
  induction a as [|c a IH]; simpl; intros rest prev H; auto.
  destruct H as [H1 H2]. rewrite H1. apply IH; auto.
Qed.

Lemma match_any_other : forall l prev c s, (c =? l) = false -> match_any l prev (c :: s) = None.
Proof. intros. unfold match_any. rewrite H. reflexivity. Qed.

Lemma match_any_after_word : forall l prev s, is_word_opt prev = true -> match_any l prev s = None.
Proof.
  intros. destruct s as [|c s]; unfold match_any; auto. rewrite H. rewrite andb_false_r. reflexivity.
Qed.

Lemma inert_other : forall l a rest prev, forallb (fun c => negb (c =? l)) a = true ->
  inert l prev a rest.
Proof.
  induction a as [|c a IH]; simpl; intros; auto.
  apply andb_true_iff in H. destruct H as [Hc Ha]. split; auto.
  apply negb_true_iff in Hc. apply match_any_other; auto.
Qed.

Lemma inert_after_word : forall l w rest prev, is_word_opt prev = true -> forallb is_word w = true ->
  inert l prev w rest.
Proof.
  induction w as [|c w IH]; simpl; intros; auto.
  apply andb_true_iff in H0. destruct H0 as [Hc Hw]. split.
  - apply match_any_after_word; auto.
  - apply IH; auto.
Qed.

Lemma dot_not_word : is_word 46 = false. Proof. reflexivity. Qed.

Lemma digit_is_word : forall c, is_digit c = true -> is_word c = true.
Proof. intros. unfold is_word. rewrite H. apply orb_true_r. Qed.

(* a word run that is not LETTER digits* is inert wherever it stands *)
Lemma span_digit_stop : forall ds x r, forallb is_digit ds = true -> is_digit x = false ->
  span is_digit (ds ++ x :: r) = (ds, x :: r).
Proof.
  intros. apply span_all; auto.
Qed.

Lemma not_all_digits_split : forall w, forallb is_digit w = false ->
  exists ds x r, w = ds ++ x :: r /\ forallb is_digit ds = true /\ is_digit x = false.
Proof.
  induction w as [|c w IH]; simpl; intros H; [discriminate|].
  destruct (is_digit c) eqn:E.
  - simpl in H. destruct (IH H) as (ds & x & r & -> & Hd & Hx).
    exists (c :: ds), x, r. simpl. rewrite E. auto.
  - exists [], c, w. auto.
Qed.

Lemma inert_word : forall l w rest prev, forallb is_word w = true -> rp_form l w = false ->
  inert l prev w rest.
Proof.
  intros l w rest prev Hw Hrp. destruct w as [|c w]; simpl; auto.
  simpl in Hw. apply andb_true_iff in Hw. destruct Hw as [Hc Hw]. split.
  - unfold match_any. cbn [app].
    destruct ((c =? l) && negb (is_word_opt prev)) eqn:E; auto.
    apply andb_true_iff in E. destruct E as [E1 E2].
    simpl in Hrp. rewrite E1 in Hrp. simpl in Hrp.
    destruct (not_all_digits_split _ Hrp) as (ds & x & r & -> & Hd & Hx).
    rewrite <- app_assoc. simpl. rewrite span_digit_stop; auto.
    destruct (x =? 46) eqn:Ex; auto. apply N.eqb_eq in Ex. subst x.
    rewrite forallb_app_iff in Hw. apply andb_true_iff in Hw. destruct Hw as [_ Hw].
    simpl in Hw. discriminate.
  - apply inert_after_word; auto.
Qed.

(* ====================================================================== names *)
Lemma str_eqb_refl : forall s : str, str_eqb s s = true.
Proof. intro s. apply list_eqb_N_eq. reflexivity. Qed.

Lemma str_eqb_eq : forall a b : str, str_eqb a b = true -> a = b.
Proof. intros a b H. apply list_eqb_N_eq. exact H. Qed.

Lemma alpha_is_word : forall c, is_alpha c = true -> is_word c = true.
Proof. intros. unfold is_word. rewrite H. reflexivity. Qed.

Lemma digits_are_words : forall s, forallb is_digit s = true -> forallb is_word s = true.
Proof.
  induction s as [|c s IH]; simpl; auto. intro H. apply andb_true_iff in H. destruct H.
  rewrite digit_is_word; auto.
Qed.

Lemma good_name_facts : forall s, good_name s = true ->
  s <> [] /\ forallb is_word s = true /\ hd_is is_alpha s = true
  /\ rp_form 112 s = false /\ rp_form 114 s = false
  /\ mem str_eqb s py_keywords = false.
Proof.
  intros s H. unfold good_name in H.
  apply andb_true_iff in H. destruct H as [H Hk].
  apply andb_true_iff in H. destruct H as [Hi Hrp].
  apply negb_true_iff in Hk. apply negb_true_iff in Hrp.
  unfold rp_any in Hrp. apply orb_false_iff in Hrp. destruct Hrp as [Hp Hr].
  destruct s as [|c s]; [discriminate|]. simpl in Hi.
  apply andb_true_iff in Hi. destruct Hi as [Hc Hs].
  repeat split; auto; try discriminate.
  simpl. rewrite alpha_is_word; auto.
Qed.

Lemma inert_good : forall l s rest prev, (l = 112 \/ l = 114) -> good_name s = true ->
  inert l prev s rest.
Proof.
  intros l s rest prev Hl H. destruct (good_name_facts _ H) as (_ & Hw & _ & Hp & Hr & _).
  apply inert_word; auto. destruct Hl; subst; auto.
Qed.

Lemma inert_dots : forall l attrs rest prev, (l = 112 \/ l = 114) ->
  forallb good_name attrs = true -> inert l prev (dots attrs) rest.
Proof.
  intros l attrs rest prev Hl. revert prev.
  induction attrs as [|a r IH]; simpl; intros prev H; auto.
  apply andb_true_iff in H. destruct H as [Ha Hr].
  split.
  - apply match_any_other. destruct Hl; subst; reflexivity.
  - apply inert_app.
    + apply inert_good; auto.
    + apply IH; auto.
Qed.

Lemma inert_single : forall l c rest prev, (c =? l) = false -> inert l prev [c] rest.
Proof. intros. simpl. split; auto. apply match_any_other; auto. Qed.

(* string literals *)
Lemma span_app_stop : forall p s q R, p q = false ->
  span p (s ++ q :: R) = (fst (span p (s ++ [q])), snd (span p (s ++ [q])) ++ R).
Proof.
  induction s as [|c s IH]; simpl; intros q R Hq.
  - rewrite Hq. reflexivity.
  - destruct (p c) eqn:E.
    + rewrite (IH q R Hq). destruct (span p (s ++ [q])); reflexivity.
    + simpl. rewrite <- app_assoc. reflexivity.
Qed.

Lemma span_stop_nonempty : forall p s q, p q = false -> snd (span p (s ++ [q])) <> [].
Proof.
  induction s as [|c s IH]; simpl; intros q Hq.
  - rewrite Hq. simpl. discriminate.
  - destruct (p c) eqn:E.
    + specialize (IH q Hq). destruct (span p (s ++ [q])); simpl in *; auto.
    + simpl. discriminate.
Qed.

Lemma match_any_ext : forall l prev c s q R, is_digit q = false ->
  match_any l prev (c :: s ++ q :: R) = match_any l prev (c :: s ++ [q]).
Proof.
  intros. unfold match_any. destruct ((c =? l) && negb (is_word_opt prev)); auto.
  rewrite span_app_stop by auto.
  pose proof (span_stop_nonempty is_digit s q H) as Hne.
  destruct (span is_digit (s ++ [q])) as [d r]. simpl in *.
  destruct r as [|x r]; [congruence|]. reflexivity.
Qed.

Lemma inert_literal : forall l s q rest prev, is_digit q = false -> (q =? l) = false ->
  no_match_in l prev (s ++ [q]) = true -> inert l prev (s ++ [q]) rest.
Proof.
  induction s as [|c s IH]; intros q rest prev Hq Hql H.
  - simpl. split; auto. apply match_any_other; auto.
  - cbn [app no_match_in] in H. cbn [app inert].
    destruct (match_any l prev (c :: s ++ [q])) eqn:E; [discriminate|].
    split.
    + rewrite <- app_assoc. cbn [app]. rewrite match_any_ext; auto.
    + apply IH; auto.
Qed.

(* ====================================================================== inactive tokens are inert *)
Definition active (l : N) (t : tok) : bool :=
  if l =? 112 then match t with TPol _ _ | TEval _ _ => true | _ => false end
  else match t with TReq _ _ _ => true | _ => false end.

Ltac inert_fixed :=
  first [ apply inert_other; reflexivity | apply inert_word; reflexivity ].

Lemma inert_eval_lp : forall l rest prev, (l = 112 \/ l = 114) ->
  inert l prev s_eval_lp rest.
Proof.
  intros l rest prev Hl. change s_eval_lp with ([101; 118; 97; 108] ++ [40]).
  apply inert_app.
  - apply inert_word; destruct Hl; subst; reflexivity.
  - apply inert_single. destruct Hl; subst; reflexivity.
Qed.

Lemma inert_tok : forall l rs ps t rest prev, (l = 112 \/ l = 114) ->
  forallb is_digit rs = true -> forallb is_digit ps = true ->
  wf_tok rs ps t = true -> active l t = false -> inert l prev (text t) rest.
Proof.
  intros l rs ps t rest prev Hl Hrs Hps Hwf Hact.
  destruct t; cbn [text]; try discriminate Hwf;
    try (destruct Hl; subst; inert_fixed).
  - (* TCmp *) destruct c; destruct Hl; subst; inert_fixed.
  - (* TReq *)
    simpl in Hwf. apply andb_true_iff in Hwf. destruct Hwf as [Hwf Hat].
    apply andb_true_iff in Hwf. destruct Hwf as [Hs Hf]. apply str_eqb_eq in Hs. subst sfx.
    destruct Hl as [-> | ->]; [|discriminate Hact].
    change (114 :: rs ++ 46 :: f ++ dots attrs) with ((114 :: rs) ++ [46] ++ f ++ dots attrs).
    apply inert_app; [apply inert_word; [simpl; apply digits_are_words; auto | reflexivity]|].
    apply inert_app; [apply inert_single; reflexivity|].
    apply inert_app; [apply inert_good; auto | apply inert_dots; auto].
  - (* TPol *)
    simpl in Hwf. apply andb_true_iff in Hwf. destruct Hwf as [Hs Hf]. apply str_eqb_eq in Hs. subst sfx.
    destruct Hl as [-> | ->]; [discriminate Hact|].
    change (112 :: ps ++ 46 :: f) with ((112 :: ps) ++ [46] ++ f).
    apply inert_app; [apply inert_word; [simpl; apply digits_are_words; auto | reflexivity]|].
    apply inert_app; [apply inert_single; reflexivity|].
    replace f with (f ++ []) by apply app_nil_r. apply inert_app; [apply inert_good; auto | exact I].
  - (* TEval *)
    simpl in Hwf. apply andb_true_iff in Hwf. destruct Hwf as [Hs Hf]. apply str_eqb_eq in Hs. subst sfx.
    destruct Hl as [-> | ->]; [discriminate Hact|].
    change (s_eval_lp ++ 112 :: ps ++ 46 :: f ++ [41])
      with (s_eval_lp ++ (112 :: ps) ++ [46] ++ f ++ [41]).
    apply inert_app; [apply inert_eval_lp; auto|].
    apply inert_app; [apply inert_word; [simpl; apply digits_are_words; auto | reflexivity]|].
    apply inert_app; [apply inert_single; reflexivity|].
    apply inert_app; [apply inert_good; auto | apply inert_single; reflexivity].
  - (* TStr *)
    simpl in Hwf. unfold lit_ok in Hwf.
    apply andb_true_iff in Hwf. destruct Hwf as [Hwf H114].
    apply andb_true_iff in Hwf. destruct Hwf as [_ H112].
    change (quote_of dq :: s ++ [quote_of dq]) with ([quote_of dq] ++ (s ++ [quote_of dq])).
    apply inert_app.
    + apply inert_single. destruct dq; destruct Hl; subst; reflexivity.
    + cbn [lastc]. apply inert_literal.
      * destruct dq; reflexivity.
      * destruct dq; destruct Hl; subst; reflexivity.
      * destruct Hl; subst; auto.
  - (* TInt *)
    simpl in Hwf. unfold digits_ok in Hwf.
    apply andb_true_iff in Hwf. destruct Hwf as [Hwf _].
    apply andb_true_iff in Hwf. destruct Hwf as [Hne Hd].
    apply inert_word; [apply digits_are_words; auto|].
    destruct ds as [|d ds]; [discriminate|]. simpl in Hd. apply andb_true_iff in Hd. destruct Hd as [Hd _].
    simpl. destruct (d =? l) eqn:E; auto. apply N.eqb_eq in E. subst d.
    destruct Hl; subst; discriminate.
  - (* TId *) apply inert_good; auto.
  - (* TDotted *)
    simpl in Hwf. apply andb_true_iff in Hwf. destruct Hwf as [Hx Hat].
    apply inert_app; [apply inert_good; auto | apply inert_dots; auto].
  - (* TEvalE *)
    simpl in Hwf.
    apply inert_app; [apply inert_eval_lp; auto|].
    apply inert_app; [apply inert_good; auto | apply inert_single; destruct Hl; subst; reflexivity].
Qed.

(* ====================================================================== active tokens *)
Lemma esc_m_core : forall l sfx prev tail, forallb is_digit sfx = true -> is_word_opt prev = false ->
  esc_m l sfx prev (l :: sfx ++ 46 :: tail) = Some (l :: sfx ++ [95], S (length sfx)).
Proof.
  intros. unfold esc_m, match_any. rewrite N.eqb_refl, H0. cbn [negb andb].
  rewrite span_digit_stop by auto. cbn. rewrite str_eqb_refl. reflexivity.
Qed.

Lemma esc_core : forall l sfx prev tail, forallb is_digit sfx = true -> is_word_opt prev = false ->
  rsub (esc_m l sfx) prev 0 (l :: sfx ++ 46 :: tail)
  = l :: sfx ++ 95 :: rsub (esc_m l sfx) (Some 46) 0 tail.
Proof.
  intros. cbn [rsub]. rewrite esc_m_core by auto.
  replace (sfx ++ 46 :: tail) with ((sfx ++ [46]) ++ tail) by (rewrite <- app_assoc; reflexivity).
  replace (S (length sfx)) with (length (sfx ++ [46])) by (rewrite app_length; simpl; lia).
  rewrite rsub_skip. rewrite lastc_app. cbn [lastc].
  cbn [app]. rewrite <- app_assoc. reflexivity.
Qed.

Lemma find_core : forall l sfx prev tail, forallb is_digit sfx = true -> is_word_opt prev = false ->
  find_sfx l prev (l :: sfx ++ 46 :: tail) = Some sfx.
Proof.
  intros. cbn [find_sfx]. unfold match_any. rewrite N.eqb_refl, H0. cbn [negb andb].
  rewrite span_digit_stop by auto. cbn. reflexivity.
Qed.

Definition escf (l : N) (t : tok) : tok := if l =? 112 then esc_p t else esc_r t.
Definition sfx_of (l : N) (rs ps : str) : str := if l =? 112 then ps else rs.

Lemma escf_inactive : forall l t, active l t = false -> escf l t = t.
Proof.
  intros l t H. unfold escf, active in *. destruct (l =? 112); destruct t; auto; discriminate.
Qed.

Lemma active_starts_word : forall l t, active l t = true -> starts_word t = true.
Proof.
  intros l t H. unfold active in H. destruct (l =? 112); destruct t; auto; discriminate.
Qed.

Lemma lastc_cons : forall c a p, lastc (c :: a) p = lastc a (Some c).
Proof. reflexivity. Qed.

Ltac norm_lastc := repeat (rewrite lastc_app || rewrite lastc_cons); cbn [lastc].

Lemma esc_tok_rsub : forall l rs ps t rest prev, (l = 112 \/ l = 114) ->
  forallb is_digit rs = true -> forallb is_digit ps = true ->
  wf_tok rs ps t = true -> (active l t = true -> is_word_opt prev = false) ->
  rsub (esc_m l (sfx_of l rs ps)) prev 0 (text t ++ rest)
  = text (escf l t) ++ rsub (esc_m l (sfx_of l rs ps)) (lastc (text t) prev) 0 rest.
Proof.
  intros l rs ps t rest prev Hl Hrs Hps Hwf Hctx.
  destruct (active l t) eqn:Hact.
  2:{ rewrite escf_inactive by auto. apply rsub_inert. apply (inert_tok l rs ps); auto. }
  specialize (Hctx eq_refl).
  destruct Hl as [-> | ->]; unfold escf, sfx_of; cbn [N.eqb Pos.eqb]; destruct t; try discriminate Hact.
  - (* TPol, p *)
    simpl in Hwf. apply andb_true_iff in Hwf. destruct Hwf as [Hs Hf]. apply str_eqb_eq in Hs. subst sfx.
    replace (text (TPol ps f) ++ rest) with (112 :: ps ++ 46 :: (f ++ rest))
      by (cbn [text app]; rewrite <- app_assoc; reflexivity).
    rewrite esc_core by auto.
    rewrite (rsub_inert 112 ps f rest (Some 46)) by (apply inert_good; auto).
    cbn [text esc_p]. unfold esc_name. norm_lastc.
    cbn [app]. rewrite <- ?app_assoc. cbn [app]. reflexivity.
  - (* TEval, p *)
    simpl in Hwf. apply andb_true_iff in Hwf. destruct Hwf as [Hs Hf]. apply str_eqb_eq in Hs. subst sfx.
    replace (text (TEval ps f) ++ rest) with (s_eval_lp ++ 112 :: ps ++ 46 :: (f ++ [41] ++ rest)).
    2:{ cbn [text]. rewrite <- ?app_assoc. cbn [app]. rewrite <- ?app_assoc. cbn [app].
        rewrite <- ?app_assoc. reflexivity. }
    rewrite (rsub_inert 112 ps s_eval_lp) by (apply inert_eval_lp; auto).
    rewrite esc_core by reflexivity || auto.
    rewrite (rsub_inert 112 ps f) by (apply inert_good; auto).
    rewrite (rsub_inert 112 ps [41]) by (apply inert_single; reflexivity).
    cbn [text esc_p]. unfold esc_name. norm_lastc.
    rewrite <- ?app_assoc. cbn [app]. rewrite <- ?app_assoc. cbn [app]. reflexivity.
  - (* TReq, r *)
    simpl in Hwf. apply andb_true_iff in Hwf. destruct Hwf as [Hwf Hat].
    apply andb_true_iff in Hwf. destruct Hwf as [Hs Hf]. apply str_eqb_eq in Hs. subst sfx.
    replace (text (TReq rs f attrs) ++ rest) with (114 :: rs ++ 46 :: (f ++ dots attrs ++ rest))
      by (cbn [text app]; rewrite <- !app_assoc; cbn [app]; rewrite <- !app_assoc; reflexivity).
    rewrite esc_core by auto.
    rewrite (rsub_inert 114 rs f) by (apply inert_good; auto).
    rewrite (rsub_inert 114 rs (dots attrs)) by (apply inert_dots; auto).
    cbn [text esc_r]. unfold esc_name. norm_lastc.
    cbn [app]. rewrite <- ?app_assoc. cbn [app]. rewrite <- ?app_assoc. reflexivity.
Qed.

(* ====================================================================== token classes vs. texts *)
Definition tok_of (p : piece) : tok := snd (fst p).
Definition toks (ps : list piece) : list tok := map tok_of ps.
Definition pm (f : tok -> tok) (p : piece) : piece :=
  match p with (a, t, b) => (a, f t, b) end.

Lemma lastc_word_run' : forall w p, forallb is_word w = true -> is_word_opt p = true ->
  is_word_opt (lastc w p) = true.
Proof.
  induction w as [|c w IH]; simpl; intros p H Hp; auto.
  apply andb_true_iff in H. destruct H. apply IH; auto.
Qed.

Lemma lastc_word_run : forall w p, forallb is_word w = true -> w <> [] ->
  is_word_opt (lastc w p) = true.
Proof.
  destruct w as [|c w]; intros p H Hne; [congruence|].
  simpl in *. apply andb_true_iff in H. destruct H. apply lastc_word_run'; auto.
Qed.

Lemma lastc_good : forall s p, good_name s = true -> is_word_opt (lastc s p) = true.
Proof.
  intros s p H. destruct (good_name_facts _ H) as (Hne & Hw & _). apply lastc_word_run; auto.
Qed.

Lemma lastc_dots : forall attrs p, forallb good_name attrs = true -> is_word_opt p = true ->
  is_word_opt (lastc (dots attrs) p) = true.
Proof.
  induction attrs as [|a r IH]; simpl; intros p H Hp; auto.
  apply andb_true_iff in H. destruct H as [Ha Hr].
  rewrite lastc_app. apply IH; auto. apply lastc_good; auto.
Qed.

Lemma text_nonempty : forall rs ps t, wf_tok rs ps t = true -> text t <> [].
Proof.
  intros rs ps t H. destruct t; cbn [text]; try discriminate.
  - destruct c; discriminate.
  - simpl in H. unfold digits_ok in H. destruct ds; [discriminate H|discriminate].
  - simpl in H. destruct (good_name_facts _ H) as (Hne & _). exact Hne.
  - simpl in H. apply andb_true_iff in H. destruct H as [H _].
    destruct (good_name_facts _ H) as (Hne & _). destruct x; [congruence|discriminate].
Qed.

Lemma ends_word_spec : forall rs ps t p, wf_tok rs ps t = true ->
  is_word_opt (lastc (text t) p) = ends_word t.
Proof.
  intros rs ps t p H. destruct t; cbn [text ends_word]; try reflexivity; try discriminate H.
  - destruct c; reflexivity.
  - simpl in H. apply andb_true_iff in H. destruct H as [H Hat].
    apply andb_true_iff in H. destruct H as [_ Hf].
    norm_lastc. apply lastc_dots; auto. apply lastc_good; auto.
  - simpl in H. apply andb_true_iff in H. destruct H as [_ Hf].
    norm_lastc. apply lastc_good; auto.
  - norm_lastc. reflexivity.
  - norm_lastc. destruct dq; reflexivity.
  - simpl in H. unfold digits_ok in H. apply andb_true_iff in H. destruct H as [H _].
    apply andb_true_iff in H. destruct H as [Hne Hd].
    apply lastc_word_run; [apply digits_are_words; auto | destruct ds; [discriminate|discriminate]].
  - apply lastc_good; auto.
  - simpl in H. apply andb_true_iff in H. destruct H as [Hx Hat].
    norm_lastc. apply lastc_dots; auto. apply lastc_good; auto.
  - norm_lastc. reflexivity.
Qed.

Lemma render_cons : forall a t b ps,
  render_pieces ((a, t, b) :: ps) = a ++ text t ++ b ++ render_pieces ps.
Proof. intros. unfold render_pieces. cbn [flat_map piece_text]. rewrite <- !app_assoc. reflexivity. Qed.

Lemma blanks_inert : forall l a rest prev, (l = 112 \/ l = 114) -> forallb is_blank a = true ->
  inert l prev a rest.
Proof.
  intros. apply inert_other. rewrite forallb_forall in *. intros c Hc. specialize (H0 c Hc).
  unfold is_blank in H0. apply orb_true_iff in H0.
  destruct H0 as [E|E]; apply N.eqb_eq in E; subst; destruct H; subst; reflexivity.
Qed.

(* ====================================================================== one escape pass over pieces *)
Definition glue_inv (prev : option N) (ps : list piece) : Prop :=
  match ps with
  | (a, t, _) :: _ => a = [] -> is_word_opt prev = true -> starts_word t = false
  | [] => True
  end.

Lemma adm_cons : forall a t b ps, adm ((a, t, b) :: ps) = true ->
  forallb is_blank a = true /\ forallb is_blank b = true /\ adm ps = true
  /\ match ps with (a', t', _) :: _ => gap_ok t (b ++ a') t' = true | [] => True end.
Proof.
  intros a t b ps H. cbn [adm] in H.
  apply andb_true_iff in H. destruct H as [H H4].
  apply andb_true_iff in H. destruct H as [H H3].
  apply andb_true_iff in H. destruct H as [H1 H2].
  repeat split; auto. destruct ps as [|[[a' t'] b'] r]; auto.
Qed.

Lemma glue_next : forall rs ps a t b rest p,
  wf_tok rs ps t = true -> adm ((a, t, b) :: rest) = true ->
  glue_inv (lastc b (lastc (text t) p)) rest.
Proof.
  intros rs ps a t b rest p Hwf Hadm.
  destruct (adm_cons _ _ _ _ Hadm) as (Ha & Hb & Hr & Hg).
  destruct rest as [|[[a' t'] b'] r]; simpl; auto.
  intros -> Hw.
  destruct b as [|c b].
  - cbn [lastc] in Hw. rewrite (ends_word_spec rs ps) in Hw by auto.
    unfold gap_ok in Hg. simpl in Hg. rewrite Hw in Hg.
    apply andb_true_iff in Hg. destruct Hg as [Hg _].
    destruct (starts_word t'); auto.
  - rewrite lastc_blanks_nonword in Hw; [discriminate | auto | discriminate].
Qed.

Lemma esc_render : forall l rs ps, (l = 112 \/ l = 114) ->
  forallb is_digit rs = true -> forallb is_digit ps = true ->
  forall pcs prev rest, adm pcs = true -> forallb (wf_tok rs ps) (toks pcs) = true ->
  glue_inv prev pcs ->
  rsub (esc_m l (sfx_of l rs ps)) prev 0 (render_pieces pcs ++ rest)
  = render_pieces (map (pm (escf l)) pcs)
    ++ rsub (esc_m l (sfx_of l rs ps)) (lastc (render_pieces pcs) prev) 0 rest.
Proof.
  intros l rs ps Hl Hrs Hps. induction pcs as [|[[a t] b] pcs IH]; intros prev rest Hadm Hwf Hg.
  - reflexivity.
  - cbn [toks map tok_of fst snd forallb] in Hwf. apply andb_true_iff in Hwf. destruct Hwf as [Hwt Hwf].
    destruct (adm_cons _ _ _ _ Hadm) as (Ha & Hb & Hr & Hgap).
    cbn [map pm]. rewrite !render_cons. rewrite <- !app_assoc.
    rewrite (rsub_inert l _ a) by (apply blanks_inert; auto).
    rewrite (esc_tok_rsub l rs ps t) ; auto.
    2:{ intro Hact. destruct a as [|c a].
        - cbn [lastc]. destruct (is_word_opt prev) eqn:E; auto.
          simpl in Hg. rewrite (active_starts_word _ _ Hact) in Hg. specialize (Hg eq_refl E). discriminate.
        - apply lastc_blanks_nonword; auto. discriminate. }
    rewrite (rsub_inert l _ b) by (apply blanks_inert; auto).
    rewrite IH; auto.
    2:{ eapply glue_next; eauto. }
    norm_lastc. reflexivity.
Qed.

Lemma esc_tok_find_active : forall l rs ps t rest prev, (l = 112 \/ l = 114) ->
  forallb is_digit rs = true -> forallb is_digit ps = true ->
  wf_tok rs ps t = true -> active l t = true -> is_word_opt prev = false ->
  find_sfx l prev (text t ++ rest) = Some (sfx_of l rs ps).
Proof.
  intros l rs ps t rest prev Hl Hrs Hps Hwf Hact Hctx.
  destruct Hl as [-> | ->]; unfold sfx_of; cbn [N.eqb Pos.eqb]; destruct t; try discriminate Hact.
  - simpl in Hwf. apply andb_true_iff in Hwf. destruct Hwf as [Hs Hf]. apply str_eqb_eq in Hs. subst sfx.
    replace (text (TPol ps f) ++ rest) with (112 :: ps ++ 46 :: (f ++ rest))
      by (cbn [text app]; rewrite <- app_assoc; reflexivity).
    apply find_core; auto.
  - simpl in Hwf. apply andb_true_iff in Hwf. destruct Hwf as [Hs Hf]. apply str_eqb_eq in Hs. subst sfx.
    replace (text (TEval ps f) ++ rest) with (s_eval_lp ++ 112 :: ps ++ 46 :: (f ++ [41] ++ rest)).
    2:{ cbn [text]. rewrite <- ?app_assoc. cbn [app]. rewrite <- ?app_assoc. cbn [app].
        rewrite <- ?app_assoc. reflexivity. }
    rewrite (find_inert 112 s_eval_lp) by (apply inert_eval_lp; auto).
    apply find_core; auto.
  - simpl in Hwf. apply andb_true_iff in Hwf. destruct Hwf as [Hwf Hat].
    apply andb_true_iff in Hwf. destruct Hwf as [Hs Hf]. apply str_eqb_eq in Hs. subst sfx.
    replace (text (TReq rs f attrs) ++ rest) with (114 :: rs ++ 46 :: (f ++ dots attrs ++ rest))
      by (cbn [text app]; rewrite <- !app_assoc; cbn [app]; rewrite <- !app_assoc; reflexivity).
    apply find_core; auto.
Qed.

Lemma find_render : forall l rs ps, (l = 112 \/ l = 114) ->
  forallb is_digit rs = true -> forallb is_digit ps = true ->
  forall pcs prev rest, adm pcs = true -> forallb (wf_tok rs ps) (toks pcs) = true ->
  glue_inv prev pcs ->
  find_sfx l prev (render_pieces pcs ++ rest)
  = if existsb (active l) (toks pcs) then Some (sfx_of l rs ps)
    else find_sfx l (lastc (render_pieces pcs) prev) rest.
Proof.
  intros l rs ps Hl Hrs Hps. induction pcs as [|[[a t] b] pcs IH]; intros prev rest Hadm Hwf Hg.
  - reflexivity.
  - cbn [toks map tok_of fst snd forallb existsb] in *. apply andb_true_iff in Hwf. destruct Hwf as [Hwt Hwf].
    destruct (adm_cons _ _ _ _ Hadm) as (Ha & Hb & Hr & Hgap).
    rewrite !render_cons. rewrite <- !app_assoc.
    rewrite (find_inert l a) by (apply blanks_inert; auto).
    destruct (active l t) eqn:Hact; cbn [orb].
    + apply (esc_tok_find_active l rs ps); auto.
      destruct a as [|c a].
      * cbn [lastc]. destruct (is_word_opt prev) eqn:E; auto.
        simpl in Hg. rewrite (active_starts_word _ _ Hact) in Hg. specialize (Hg eq_refl E). discriminate.
      * apply lastc_blanks_nonword; auto. discriminate.
    + rewrite (find_inert l (text t)) by (apply (inert_tok l rs ps); auto).
      rewrite (find_inert l b) by (apply blanks_inert; auto).
      rewrite IH; auto.
      2:{ eapply glue_next; eauto. }
      norm_lastc. reflexivity.
Qed.

(* ====================================================================== escape_letter / escape_assertion on rendered pieces *)
Lemma glue_inv_none : forall pcs, glue_inv None pcs.
Proof. destruct pcs as [|[[a t] b] r]; simpl; auto. intros; discriminate. Qed.

Lemma toks_map_pm : forall f pcs, toks (map (pm f) pcs) = map f (toks pcs).
Proof.
  induction pcs as [|[[a t] b] r IH]; simpl; auto. unfold toks in *. rewrite IH. reflexivity.
Qed.

Lemma map_pm_inactive : forall l pcs, existsb (active l) (toks pcs) = false ->
  map (pm (escf l)) pcs = pcs.
Proof.
  induction pcs as [|[[a t] b] r IH]; simpl; auto. intro H.
  apply orb_false_iff in H. destruct H as [H1 H2].
  unfold tok_of in H1. simpl in H1. rewrite escf_inactive by auto. rewrite IH; auto.
Qed.

Lemma inert_render : forall l rs ps, (l = 112 \/ l = 114) ->
  forallb is_digit rs = true -> forallb is_digit ps = true ->
  forall pcs prev rest, adm pcs = true -> forallb (wf_tok rs ps) (toks pcs) = true ->
  existsb (active l) (toks pcs) = false -> inert l prev (render_pieces pcs) rest.
Proof.
  intros l rs ps Hl Hrs Hps. induction pcs as [|[[a t] b] pcs IH]; intros prev rest Hadm Hwf Hna.
  - exact I.
  - cbn [toks map tok_of fst snd forallb existsb] in *. apply andb_true_iff in Hwf. destruct Hwf as [Hwt Hwf].
    apply orb_false_iff in Hna. destruct Hna as [Hna1 Hna2].
    destruct (adm_cons _ _ _ _ Hadm) as (Ha & Hb & Hr & Hgap).
    rewrite render_cons.
    apply inert_app; [apply blanks_inert; auto|].
    apply inert_app; [apply (inert_tok l rs ps); auto|].
    apply inert_app; [apply blanks_inert; auto|].
    apply IH; auto.
Qed.

Lemma hash_not_letter : forall l, (l = 112 \/ l = 114) -> (35 =? l) = false.
Proof. intros l [-> | ->]; reflexivity. Qed.

(* with an arbitrary tail that starts with '#': the rendered part is escaped as without the tail,
   the '#' stays where it is *)
Lemma escape_letter_render_tail : forall l rs ps, (l = 112 \/ l = 114) ->
  forallb is_digit rs = true -> forallb is_digit ps = true ->
  forall pcs c, adm pcs = true -> forallb (wf_tok rs ps) (toks pcs) = true ->
  exists c', escape_letter l (render_pieces pcs ++ 35 :: c)
             = render_pieces (map (pm (escf l)) pcs) ++ 35 :: c'.
Proof.
  intros l rs ps Hl Hrs Hps pcs c Hadm Hwf. unfold escape_letter.
  rewrite (find_render l rs ps) by (auto using glue_inv_none).
  destruct (existsb (active l) (toks pcs)) eqn:Hact.
  - rewrite (esc_render l rs ps) by (auto using glue_inv_none).
    cbn [rsub]. unfold esc_m at 1. rewrite match_any_other by (apply hash_not_letter; auto).
    eexists. reflexivity.
  - rewrite map_pm_inactive by auto.
    destruct (find_sfx l (lastc (render_pieces pcs) None) (35 :: c)) as [sfx'|].
    + rewrite rsub_inert by (apply (inert_render l rs ps); auto).
      cbn [rsub]. unfold esc_m at 1. rewrite match_any_other by (apply hash_not_letter; auto).
      eexists. reflexivity.
    + eexists. reflexivity.
Qed.

Lemma escape_letter_render : forall l rs ps, (l = 112 \/ l = 114) ->
  forallb is_digit rs = true -> forallb is_digit ps = true ->
  forall pcs, adm pcs = true -> forallb (wf_tok rs ps) (toks pcs) = true ->
  escape_letter l (render_pieces pcs) = render_pieces (map (pm (escf l)) pcs).
Proof.
  intros l rs ps Hl Hrs Hps pcs Hadm Hwf. unfold escape_letter.
  pose proof (find_render l rs ps Hl Hrs Hps pcs None [] Hadm Hwf (glue_inv_none _)) as Hf.
  rewrite app_nil_r in Hf. rewrite Hf.
  destruct (existsb (active l) (toks pcs)) eqn:Hact.
  - pose proof (esc_render l rs ps Hl Hrs Hps pcs None [] Hadm Hwf (glue_inv_none _)) as He.
    cbn [rsub] in He. rewrite !app_nil_r in He. exact He.
  - cbn [find_sfx]. rewrite map_pm_inactive; auto.
Qed.

(* ---- well-formedness and admissibility survive the escape maps *)
Lemma mem_str_in : forall s l, mem str_eqb s l = true -> In s l.
Proof.
  induction l as [|k l IH]; simpl; intro H; [discriminate|].
  apply orb_true_iff in H. destruct H as [H|H]; auto. left. symmetry. apply str_eqb_eq. exact H.
Qed.

Lemma mem_N_in : forall c s, In c s -> mem N.eqb c s = true.
Proof.
  induction s as [|x s IH]; simpl; intro H; [contradiction|].
  destruct H as [->|H]; [rewrite N.eqb_refl; reflexivity|]. rewrite IH; auto. apply orb_true_r.
Qed.

Lemma keywords_no_underscore : forallb (fun k => negb (mem N.eqb 95 k)) py_keywords = true.
Proof. vm_compute. reflexivity. Qed.

Lemma good_esc_name : forall l sfx f, (l = 112 \/ l = 114) -> forallb is_digit sfx = true ->
  good_name f = true -> good_name (esc_name l sfx f) = true.
Proof.
  intros l sfx f Hl Hs Hf. destruct (good_name_facts _ Hf) as (_ & Hw & _).
  unfold good_name, esc_name.
  assert (Hi : ident (l :: sfx ++ 95 :: f) = true).
  { simpl. rewrite forallb_app_iff. rewrite digits_are_words by auto. simpl. rewrite Hw.
    destruct Hl; subst; reflexivity. }
  assert (Hd : forallb is_digit (sfx ++ 95 :: f) = false).
  { rewrite forallb_app_iff. simpl. apply andb_false_r. }
  assert (Hrp : rp_any (l :: sfx ++ 95 :: f) = false).
  { unfold rp_any. simpl. rewrite Hd. rewrite !andb_false_r. reflexivity. }
  assert (Hk : mem str_eqb (l :: sfx ++ 95 :: f) py_keywords = false).
  { destruct (mem str_eqb (l :: sfx ++ 95 :: f) py_keywords) eqn:E; auto.
    apply mem_str_in in E. pose proof keywords_no_underscore as K.
    rewrite forallb_forall in K. specialize (K _ E). apply negb_true_iff in K.
    rewrite mem_N_in in K; [discriminate|]. right. apply in_or_app. right. left. reflexivity. }
  rewrite Hi, Hrp, Hk. reflexivity.
Qed.

Lemma wf_escf : forall l rs ps t, (l = 112 \/ l = 114) ->
  forallb is_digit rs = true -> forallb is_digit ps = true ->
  wf_tok rs ps t = true -> wf_tok rs ps (escf l t) = true.
Proof.
  intros l rs ps t Hl Hrs Hps H. unfold escf. destruct (l =? 112); destruct t; auto; simpl in *.
  - apply andb_true_iff in H. destruct H as [Hs Hf]. apply str_eqb_eq in Hs. subst.
    apply good_esc_name; auto.
  - apply andb_true_iff in H. destruct H as [Hs Hf]. apply str_eqb_eq in Hs. subst.
    apply good_esc_name; auto.
  - apply andb_true_iff in H. destruct H as [H Hat]. apply andb_true_iff in H. destruct H as [Hs Hf].
    apply str_eqb_eq in Hs. subst. rewrite Hat. rewrite good_esc_name; auto.
Qed.

Lemma escf_classes : forall l t,
  starts_word (escf l t) = starts_word t /\ ends_word (escf l t) = ends_word t
  /\ starts_quote (escf l t) = starts_quote t /\ is_cmp (escf l t) = is_cmp t
  /\ opish (escf l t) = opish t.
Proof. intros. unfold escf. destruct (l =? 112); destruct t; simpl; auto. Qed.

Lemma adm_pm : forall f,
  (forall t, starts_word (f t) = starts_word t /\ ends_word (f t) = ends_word t
             /\ starts_quote (f t) = starts_quote t /\ is_cmp (f t) = is_cmp t
             /\ opish (f t) = opish t) ->
  forall pcs, adm (map (pm f) pcs) = adm pcs.
Proof.
  intros f Hf. induction pcs as [|[[a t] b] pcs IH]; auto.
  cbn [map pm]. cbn [adm]. rewrite IH.
  destruct pcs as [|[[a' t'] b'] r]; auto.
  cbn [map pm]. unfold gap_ok.
  destruct (Hf t) as (_ & -> & _ & _ & ->). destruct (Hf t') as (-> & _ & -> & -> & _).
  reflexivity.
Qed.

Lemma wf_map : forall l rs ps pcs, (l = 112 \/ l = 114) ->
  forallb is_digit rs = true -> forallb is_digit ps = true ->
  forallb (wf_tok rs ps) (toks pcs) = true ->
  forallb (wf_tok rs ps) (toks (map (pm (escf l)) pcs)) = true.
Proof.
  intros l rs ps pcs Hl Hrs Hps H. rewrite toks_map_pm. rewrite forallb_forall in H.
  apply forallb_forall. intros t Ht.
  apply in_map_iff in Ht. destruct Ht as (t0 & <- & Ht0). apply wf_escf; auto.
Qed.

Definition esc_pieces (pcs : list piece) : list piece := map (pm esc_tok) pcs.

Lemma esc_pieces_eq : forall pcs, esc_pieces pcs = map (pm (escf 114)) (map (pm (escf 112)) pcs).
Proof.
  intros. unfold esc_pieces. rewrite map_map. apply map_ext. intros [[a t] b]. reflexivity.
Qed.

Theorem escape_render : forall rs ps pcs,
  forallb is_digit rs = true -> forallb is_digit ps = true ->
  adm pcs = true -> forallb (wf_tok rs ps) (toks pcs) = true ->
  escape_assertion (render_pieces pcs) = render_pieces (esc_pieces pcs).
Proof.
  intros rs ps pcs Hrs Hps Hadm Hwf. unfold escape_assertion.
  rewrite (escape_letter_render 112 rs ps) by auto.
  rewrite (escape_letter_render 114 rs ps); auto.
  - rewrite esc_pieces_eq. reflexivity.
  - rewrite adm_pm; auto. intro; apply escf_classes.
  - apply wf_map; auto.
Qed.

Theorem escape_render_comment : forall rs ps pcs c,
  forallb is_digit rs = true -> forallb is_digit ps = true ->
  adm pcs = true -> forallb (wf_tok rs ps) (toks pcs) = true ->
  exists c', escape_assertion (render_pieces pcs ++ 35 :: c) = render_pieces (esc_pieces pcs) ++ 35 :: c'.
Proof.
  intros rs ps pcs c Hrs Hps Hadm Hwf. unfold escape_assertion.
  destruct (escape_letter_render_tail 112 rs ps (or_introl eq_refl) Hrs Hps pcs c Hadm Hwf) as [c1 E1].
  rewrite E1.
  destruct (escape_letter_render_tail 114 rs ps (or_intror eq_refl) Hrs Hps
              (map (pm (escf 112)) pcs) c1) as [c2 E2].
  - rewrite adm_pm; auto. intro; apply escf_classes.
  - apply wf_map; auto.
  - rewrite E2. rewrite esc_pieces_eq. eexists. reflexivity.
Qed.

(* ====================================================================== _get_expression: the three rewrites *)
Definition special (c : N) : bool := (c =? 38) || (c =? 124) || (c =? 33) || (c =? 35).

Lemma special_cases : forall c, special c = true -> c = 38 \/ c = 124 \/ c = 33 \/ c = 35.
Proof.
  intros c H. unfold special in H. repeat (apply orb_true_iff in H; destruct H as [H|H]);
    apply N.eqb_eq in H; auto.
Qed.

Lemma word_not_special : forall c, is_word c = true -> special c = false.
Proof.
  intros c H. destruct (special c) eqn:E; auto.
  apply special_cases in E. destruct E as [-> | [-> | [-> | ->]]]; discriminate.
Qed.

Lemma lit_not_special : forall c, lit_char c = true -> special c = false.
Proof.
  intros c H. destruct (special c) eqn:E; auto.
  apply special_cases in E. destruct E as [-> | [-> | [-> | ->]]]; discriminate.
Qed.

Definition plain (s : str) : bool := forallb (fun c => negb (special c)) s.

Lemma plain_app : forall a b, plain (a ++ b) = plain a && plain b.
Proof. intros. apply forallb_app. Qed.

Lemma plain_words : forall s, forallb is_word s = true -> plain s = true.
Proof.
  induction s as [|c s IH]; simpl; auto. intro H. apply andb_true_iff in H. destruct H as [Hc Hs].
  rewrite word_not_special; auto.
Qed.

Lemma plain_good : forall s, good_name s = true -> plain s = true.
Proof. intros s H. destruct (good_name_facts _ H) as (_ & Hw & _). apply plain_words; auto. Qed.

Lemma plain_dots : forall attrs, forallb good_name attrs = true -> plain (dots attrs) = true.
Proof.
  induction attrs as [|a r IH]; simpl; auto. intro H. apply andb_true_iff in H. destruct H as [Ha Hr].
  change (plain (a ++ dots r) = true). rewrite plain_app, plain_good, IH; auto.
Qed.

Lemma plain_lits : forall s, forallb lit_char s = true -> plain s = true.
Proof.
  induction s as [|c s IH]; simpl; auto. intro H. apply andb_true_iff in H. destruct H as [Hc Hs].
  rewrite lit_not_special; auto.
Qed.

Definition op_tok (t : tok) : bool :=
  match t with TAnd | TOr | TNot | TCmp CNe => true | _ => false end.

(* every token text other than && || ! != is free of & | ! # *)
Lemma text_plain : forall rs ps t, forallb is_digit rs = true -> forallb is_digit ps = true ->
  wf_tok rs ps t = true -> op_tok t = false -> plain (text t) = true.
Proof.
  intros rs ps t Hrs Hps H Hop. destruct t; cbn [text]; try reflexivity; try discriminate.
  - destruct c; try reflexivity; discriminate.
  - simpl in H. apply andb_true_iff in H. destruct H as [H Hat]. apply andb_true_iff in H.
    destruct H as [Hs Hf]. apply str_eqb_eq in Hs. subst.
    change (plain ((114 :: rs) ++ [46] ++ f ++ dots attrs) = true).
    rewrite !plain_app. rewrite plain_good, plain_dots by auto.
    rewrite (plain_words (114 :: rs)) by (simpl; apply digits_are_words; auto). reflexivity.
  - simpl in H. apply andb_true_iff in H. destruct H as [Hs Hf]. apply str_eqb_eq in Hs. subst.
    change (plain ((112 :: ps) ++ [46] ++ f) = true).
    rewrite !plain_app. rewrite plain_good by auto.
    rewrite (plain_words (112 :: ps)) by (simpl; apply digits_are_words; auto). reflexivity.
  - simpl in H. apply andb_true_iff in H. destruct H as [Hs Hf]. apply str_eqb_eq in Hs. subst.
    change (plain (s_eval_lp ++ (112 :: ps) ++ [46] ++ f ++ [41]) = true).
    rewrite !plain_app. rewrite plain_good by auto.
    rewrite (plain_words (112 :: ps)) by (simpl; apply digits_are_words; auto). reflexivity.
  - simpl in H. unfold lit_ok in H. apply andb_true_iff in H. destruct H as [H _].
    apply andb_true_iff in H. destruct H as [H _].
    change (plain ([quote_of dq] ++ s ++ [quote_of dq]) = true).
    rewrite !plain_app. rewrite plain_lits by auto. destruct dq; reflexivity.
  - simpl in H. unfold digits_ok in H. apply andb_true_iff in H. destruct H as [H _].
    apply andb_true_iff in H. destruct H as [_ H]. apply plain_words. apply digits_are_words; auto.
  - apply plain_good; auto.
  - simpl in H. apply andb_true_iff in H. destruct H as [Hx Hat].
    rewrite plain_app, plain_good, plain_dots; auto.
  - simpl in H. change (plain (s_eval_lp ++ x ++ [41]) = true).
    rewrite !plain_app, plain_good; auto.
Qed.

Lemma plain_blanks : forall a, forallb is_blank a = true -> plain a = true.
Proof.
  induction a as [|c a IH]; simpl; auto. intro H. apply andb_true_iff in H. destruct H as [Hc Ha].
  rewrite IH by auto. unfold is_blank in Hc. apply orb_true_iff in Hc.
  destruct Hc as [E|E]; apply N.eqb_eq in E; subst; reflexivity.
Qed.

Lemma plain_no : forall x s, special x = true -> plain s = true ->
  forallb (fun c => negb (c =? x)) s = true.
Proof.
  intros x s Hx. induction s as [|c s IH]; simpl; auto. intro H.
  apply andb_true_iff in H. destruct H as [Hc Hs]. rewrite IH by auto.
  destruct (c =? x) eqn:E; auto. apply N.eqb_eq in E. subst c. rewrite Hx in Hc. discriminate.
Qed.

(* ---- && and || *)
Lemma m_op_other : forall x rep prev c s, (c =? x) = false -> m_op x rep prev (c :: s) = None.
Proof. intros. unfold m_op. destruct s; auto. rewrite H. reflexivity. Qed.

Lemma rsub_op_copy : forall x rep a rest prev, forallb (fun c => negb (c =? x)) a = true ->
  rsub (m_op x rep) prev 0 (a ++ rest) = a ++ rsub (m_op x rep) (lastc a prev) 0 rest.
Proof.
  intros. apply (rsub_copy (m_op x rep) (fun c => c =? x)); auto.
  intros. apply m_op_other; auto.
Qed.

Lemma rsub_op_hit : forall x rep rest prev,
  rsub (m_op x rep) prev 0 (x :: x :: rest) = rep ++ rsub (m_op x rep) (Some x) 0 rest.
Proof. intros. cbn [rsub]. unfold m_op at 1. rewrite N.eqb_refl. reflexivity. Qed.

Definition pad_piece (sel : tok -> bool) (kw : tok) (p : piece) : piece :=
  match p with (a, t, b) => if sel t then (a ++ [32], kw, 32 :: b) else p end.

Definition sel_and (t : tok) : bool := match t with TAnd => true | _ => false end.
Definition sel_or (t : tok) : bool := match t with TOr => true | _ => false end.
Definition sel_not (t : tok) : bool := match t with TNot => true | _ => false end.

(* tokens that may occur once escaping is done *)
Definition post_esc (t : tok) : bool :=
  match t with TReq _ _ _ | TPol _ _ | TEval _ _ | TDot => false | _ => true end.

Lemma op_render : forall x rep sel kw rs ps,
  special x = true -> text kw <> [] ->
  forallb is_digit rs = true -> forallb is_digit ps = true ->
  (forall t, sel t = true -> text t = [x; x]) ->
  (forall t, sel t = false -> op_tok t = true -> forallb (fun c => negb (c =? x)) (text t) = true) ->
  rep = 32 :: text kw ++ [32] ->
  forall pcs prev rest, adm pcs = true -> forallb (wf_tok rs ps) (toks pcs) = true ->
  rsub (m_op x rep) prev 0 (render_pieces pcs ++ rest)
  = render_pieces (map (pad_piece sel kw) pcs)
    ++ rsub (m_op x rep) (lastc (render_pieces pcs) prev) 0 rest.
Proof.
  intros x rep sel kw rs ps Hx Hkw Hrs Hps Hsel Hops Hrep.
  induction pcs as [|[[a t] b] pcs IH]; intros prev rest Hadm Hwf.
  - reflexivity.
  - cbn [toks map tok_of fst snd forallb] in Hwf. apply andb_true_iff in Hwf. destruct Hwf as [Hwt Hwf].
    destruct (adm_cons _ _ _ _ Hadm) as (Ha & Hb & Hr & Hgap).
    cbn [map pad_piece]. rewrite render_cons. rewrite <- !app_assoc.
    rewrite rsub_op_copy by (apply plain_no; auto; apply plain_blanks; auto).
    destruct (sel t) eqn:Hs.
    + rewrite (Hsel t Hs). cbn [app]. rewrite rsub_op_hit.
      rewrite rsub_op_copy by (apply plain_no; auto; apply plain_blanks; auto).
      rewrite IH by auto. rewrite render_cons. subst rep.
      norm_lastc. rewrite (Hsel t Hs). norm_lastc.
      rewrite <- ?app_assoc. cbn [app]. rewrite <- ?app_assoc. reflexivity.
    + rewrite (rsub_op_copy x rep (text t)).
      2:{ destruct (op_tok t) eqn:Hop; [apply Hops; auto|].
          apply plain_no; auto. apply (text_plain rs ps); auto. }
      rewrite rsub_op_copy by (apply plain_no; auto; apply plain_blanks; auto).
      rewrite IH by auto. rewrite render_cons. norm_lastc.
      rewrite <- ?app_assoc. reflexivity.
Qed.
