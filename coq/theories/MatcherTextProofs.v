(* MatcherTextProofs.v — C02: lemmas about the textual matcher pipeline of MatcherText.v.
   Main result [pipeline_tokens]: every admissible spacing (blank runs possibly EMPTY) of a
   well-formed Casbin token list is turned by the repository's pipeline into text whose Python-side
   token list is exactly flat_map tr of the Casbin tokens. *)
From Coq Require Import List NArith Bool Arith Lia.
From PyCasbin Require Import Base Effect Expr MatcherText.
Import ListNotations.
Local Open Scope N_scope.

(* ====================================================================== small facts *)
Fixpoint lastc (a : str) (prev : option N) : option N :=
  match a with [] => prev | c :: r => lastc r (Some c) end.

Lemma lastc_app : forall a b p, lastc (a ++ b) p = lastc b (lastc a p).
Proof. induction a; simpl; intros; auto. Qed.

Lemma lastc_nonempty : forall a p q, a <> [] -> lastc a p = lastc a q.
Proof.
  destruct a as [|c a]; intros; [congruence|]. reflexivity.
Qed.

Lemma forallb_app_iff : forall {A} (f : A -> bool) l1 l2,
  forallb f (l1 ++ l2) = forallb f l1 && forallb f l2.
Proof. intros. apply forallb_app. Qed.

Lemma blank_not_word : forall c, is_blank c = true -> is_word c = false.
Proof.
  intros c H. unfold is_blank in H. apply orb_true_iff in H.
  destruct H as [H|H]; apply N.eqb_eq in H; subst; reflexivity.
Qed.

Lemma blank_is_space : forall c, is_blank c = true -> is_space c = true.
Proof.
  intros c H. unfold is_blank in H. apply orb_true_iff in H.
  destruct H as [H|H]; apply N.eqb_eq in H; subst; reflexivity.
Qed.

Lemma lastc_blanks_nonword : forall a p, forallb is_blank a = true -> a <> [] ->
  is_word_opt (lastc a p) = false.
Proof.
  induction a as [|c a IH]; intros p H Hne; [congruence|].
  simpl in *. apply andb_true_iff in H. destruct H as [Hc Ha].
  destruct a as [|d a'].
  - simpl. apply blank_not_word; auto.
  - apply IH; auto. discriminate.
Qed.

(* ---- span *)
Lemma span_all : forall p w rest, forallb p w = true -> hd_is p rest = false ->
  span p (w ++ rest) = (w, rest).
Proof.
  induction w as [|c w IH]; simpl; intros rest Hw Hr.
  - destruct rest as [|d r]; simpl in *; auto. rewrite Hr. reflexivity.
  - apply andb_true_iff in Hw. destruct Hw as [Hc Hw]. rewrite Hc. rewrite IH; auto.
Qed.

Lemma span_length : forall p s, (length (snd (span p s)) <= length s)%nat.
Proof.
  induction s as [|c s IH]; simpl; auto.
  destruct (p c) eqn:E.
  - destruct (span p s) eqn:S; simpl in *; lia.
  - simpl; lia.
Qed.

(* ====================================================================== rsub *)
Lemma rsub_skip : forall m a rest prev,
  rsub m prev (length a) (a ++ rest) = rsub m (lastc a prev) 0 rest.
Proof.
  induction a as [|c a IH]; simpl; intros; auto.
Qed.

Lemma rsub_copy : forall (m : matcher) (trig : N -> bool),
  (forall prev c s, trig c = false -> m prev (c :: s) = None) ->
  forall a rest prev, forallb (fun c => negb (trig c)) a = true ->
  rsub m prev 0 (a ++ rest) = a ++ rsub m (lastc a prev) 0 rest.
Proof.
  intros m trig Hm. induction a as [|c a IH]; simpl; intros rest prev Ha; auto.
  apply andb_true_iff in Ha. destruct Ha as [Hc Ha].
  rewrite Hm by (destruct (trig c); auto; discriminate).
  rewrite IH; auto.
Qed.

(* ====================================================================== escape_assertion: inert text *)
Local Arguments match_any : simpl never.
Local Arguments esc_m : simpl never.
(* no position of [a] (followed by [rest], preceded by [prev]) starts a match of \b LETTER \d* \. *)
Fixpoint inert (letter : N) (prev : option N) (a rest : str) : Prop :=
  match a with
  | [] => True
  | c :: a' => match_any letter prev (a ++ rest) = None /\ inert letter (Some c) a' rest
  end.

Lemma inert_app : forall l a b rest prev,
  inert l prev a (b ++ rest) -> inert l (lastc a prev) b rest -> inert l prev (a ++ b) rest.
Proof.
  induction a as [|c a IH]; simpl; intros b rest prev Ha Hb; auto.
  destruct Ha as [H1 H2]. split.
  - rewrite <- app_assoc. exact H1.
  - apply IH; auto.
Qed.

Lemma rsub_inert : forall l sfx a rest prev, inert l prev a rest ->
  rsub (esc_m l sfx) prev 0 (a ++ rest) = a ++ rsub (esc_m l sfx) (lastc a prev) 0 rest.
Proof.
  induction a as [|c a IH]; simpl; intros rest prev H; auto.
  destruct H as [H1 H2]. unfold esc_m at 1. rewrite H1. rewrite IH; auto.
Qed.

Lemma find_inert : forall l a rest prev, inert l prev a rest ->
  find_sfx l prev (a ++ rest) = find_sfx l (lastc a prev) rest.
Proof.
  induction a as [|c a IH]; simpl; intros rest prev H; auto.
  destruct H as [H1 H2]. rewrite H1. apply IH; auto.
Qed.

Lemma match_any_other : forall l prev c s, (c =? l) = false -> match_any l prev (c :: s) = None.
Proof. intros. unfold match_any. rewrite H. reflexivity. Qed.

Lemma match_any_after_word : forall l prev s, is_word_opt prev = true -> match_any l prev s = None.
Proof.
  intros. destruct s as [|c s]; unfold match_any; auto. rewrite H. rewrite andb_false_r. reflexivity.
Qed.

Lemma inert_other : forall l a rest prev, forallb (fun c => negb (c =? l)) a = true ->
  inert l prev a rest.
Proof.
  induction a as [|c a IH]; simpl; intros; auto.
  apply andb_true_iff in H. destruct H as [Hc Ha]. split; auto.
  apply negb_true_iff in Hc. apply match_any_other; auto.
Qed.

Lemma inert_after_word : forall l w rest prev, is_word_opt prev = true -> forallb is_word w = true ->
  inert l prev w rest.
Proof.
  induction w as [|c w IH]; simpl; intros; auto.
  apply andb_true_iff in H0. destruct H0 as [Hc Hw]. split.
  - apply match_any_after_word; auto.
  - apply IH; auto.
Qed.

Lemma dot_not_word : is_word 46 = false. Proof. reflexivity. Qed.

Lemma digit_is_word : forall c, is_digit c = true -> is_word c = true.
Proof. intros. unfold is_word. rewrite H. apply orb_true_r. Qed.

(* a word run that is not LETTER digits* is inert wherever it stands *)
Lemma span_digit_stop : forall ds x r, forallb is_digit ds = true -> is_digit x = false ->
  span is_digit (ds ++ x :: r) = (ds, x :: r).
Proof.
  intros. apply span_all; auto.
Qed.

Lemma not_all_digits_split : forall w, forallb is_digit w = false ->
  exists ds x r, w = ds ++ x :: r /\ forallb is_digit ds = true /\ is_digit x = false.
Proof.
  induction w as [|c w IH]; simpl; intros H; [discriminate|].
  destruct (is_digit c) eqn:E.
  - simpl in H. destruct (IH H) as (ds & x & r & -> & Hd & Hx).
    exists (c :: ds), x, r. simpl. rewrite E. auto.
  - exists [], c, w. auto.
Qed.

Lemma inert_word : forall l w rest prev, forallb is_word w = true -> rp_form l w = false ->
  inert l prev w rest.
Proof.
  intros l w rest prev Hw Hrp. destruct w as [|c w]; simpl; auto.
  simpl in Hw. apply andb_true_iff in Hw. destruct Hw as [Hc Hw]. split.
  - unfold match_any. cbn [app].
    destruct ((c =? l) && negb (is_word_opt prev)) eqn:E; auto.
    apply andb_true_iff in E. destruct E as [E1 E2].
    simpl in Hrp. rewrite E1 in Hrp. simpl in Hrp.
    destruct (not_all_digits_split _ Hrp) as (ds & x & r & -> & Hd & Hx).
    rewrite <- app_assoc. simpl. rewrite span_digit_stop; auto.
    destruct (x =? 46) eqn:Ex; auto. apply N.eqb_eq in Ex. subst x.
    rewrite forallb_app_iff in Hw. apply andb_true_iff in Hw. destruct Hw as [_ Hw].
    simpl in Hw. discriminate.
  - apply inert_after_word; auto.
Qed.

(* ====================================================================== names *)
Lemma str_eqb_refl : forall s : str, str_eqb s s = true.
Proof. intro s. apply list_eqb_N_eq. reflexivity. Qed.

Lemma str_eqb_eq : forall a b : str, str_eqb a b = true -> a = b.
Proof. intros a b H. apply list_eqb_N_eq. exact H. Qed.

Lemma alpha_is_word : forall c, is_alpha c = true -> is_word c = true.
Proof. intros. unfold is_word. rewrite H. reflexivity. Qed.

Lemma digits_are_words : forall s, forallb is_digit s = true -> forallb is_word s = true.
Proof.
  induction s as [|c s IH]; simpl; auto. intro H. apply andb_true_iff in H. destruct H.
  rewrite digit_is_word; auto.
Qed.

Lemma good_name_facts : forall s, good_name s = true ->
  s <> [] /\ forallb is_word s = true /\ hd_is is_alpha s = true
  /\ rp_form 112 s = false /\ rp_form 114 s = false
  /\ mem str_eqb s py_keywords = false.
Proof.
  intros s H. unfold good_name in H.
  apply andb_true_iff in H. destruct H as [H Hk].
  apply andb_true_iff in H. destruct H as [Hi Hrp].
  apply negb_true_iff in Hk. apply negb_true_iff in Hrp.
  unfold rp_any in Hrp. apply orb_false_iff in Hrp. destruct Hrp as [Hp Hr].
  destruct s as [|c s]; [discriminate|]. simpl in Hi.
  apply andb_true_iff in Hi. destruct Hi as [Hc Hs].
  repeat split; auto; try discriminate.
  simpl. rewrite alpha_is_word; auto.
Qed.

Lemma inert_good : forall l s rest prev, (l = 112 \/ l = 114) -> good_name s = true ->
  inert l prev s rest.
Proof.
  intros l s rest prev Hl H. destruct (good_name_facts _ H) as (_ & Hw & _ & Hp & Hr & _).
  apply inert_word; auto. destruct Hl; subst; auto.
Qed.

Lemma inert_dots : forall l attrs rest prev, (l = 112 \/ l = 114) ->
  forallb good_name attrs = true -> inert l prev (dots attrs) rest.
Proof.
  intros l attrs rest prev Hl. revert prev.
  induction attrs as [|a r IH]; simpl; intros prev H; auto.
  apply andb_true_iff in H. destruct H as [Ha Hr].
  split.
  - apply match_any_other. destruct Hl; subst; reflexivity.
  - apply inert_app.
    + apply inert_good; auto.
    + apply IH; auto.
Qed.

Lemma inert_single : forall l c rest prev, (c =? l) = false -> inert l prev [c] rest.
Proof. intros. simpl. split; auto. apply match_any_other; auto. Qed.

(* string literals *)
Lemma span_app_stop : forall p s q R, p q = false ->
  span p (s ++ q :: R) = (fst (span p (s ++ [q])), snd (span p (s ++ [q])) ++ R).
Proof.
  induction s as [|c s IH]; simpl; intros q R Hq.
  - rewrite Hq. reflexivity.
  - destruct (p c) eqn:E.
    + rewrite (IH q R Hq). destruct (span p (s ++ [q])); reflexivity.
    + simpl. rewrite <- app_assoc. reflexivity.
Qed.

Lemma span_stop_nonempty : forall p s q, p q = false -> snd (span p (s ++ [q])) <> [].
Proof.
  induction s as [|c s IH]; simpl; intros q Hq.
  - rewrite Hq. simpl. discriminate.
  - destruct (p c) eqn:E.
    + specialize (IH q Hq). destruct (span p (s ++ [q])); simpl in *; auto.
    + simpl. discriminate.
Qed.

Lemma match_any_ext : forall l prev c s q R, is_digit q = false ->
  match_any l prev (c :: s ++ q :: R) = match_any l prev (c :: s ++ [q]).
Proof.
  intros. unfold match_any. destruct ((c =? l) && negb (is_word_opt prev)); auto.
  rewrite span_app_stop by auto.
  pose proof (span_stop_nonempty is_digit s q H) as Hne.
  destruct (span is_digit (s ++ [q])) as [d r]. simpl in *.
  destruct r as [|x r]; [congruence|]. reflexivity.
Qed.

Lemma inert_literal : forall l s q rest prev, is_digit q = false -> (q =? l) = false ->
  no_match_in l prev (s ++ [q]) = true -> inert l prev (s ++ [q]) rest.
Proof.
  induction s as [|c s IH]; intros q rest prev Hq Hql H.
  - simpl. split; auto. apply match_any_other; auto.
  - cbn [app no_match_in] in H. cbn [app inert].
    destruct (match_any l prev (c :: s ++ [q])) eqn:E; [discriminate|].
    split.
    + rewrite <- app_assoc. cbn [app]. rewrite match_any_ext; auto.
    + apply IH; auto.
Qed.

(* ====================================================================== inactive tokens are inert *)
Definition active (l : N) (t : tok) : bool :=
  if l =? 112 then match t with TPol _ _ | TEval _ _ => true | _ => false end
  else match t with TReq _ _ _ => true | _ => false end.

Ltac inert_fixed :=
  first [ apply inert_other; reflexivity | apply inert_word; reflexivity ].

Lemma inert_eval_lp : forall l rest prev, (l = 112 \/ l = 114) ->
  inert l prev s_eval_lp rest.
Proof.
  intros l rest prev Hl. change s_eval_lp with ([101; 118; 97; 108] ++ [40]).
  apply inert_app.
  - apply inert_word; destruct Hl; subst; reflexivity.
  - apply inert_single. destruct Hl; subst; reflexivity.
Qed.

Lemma inert_tok : forall l rs ps t rest prev, (l = 112 \/ l = 114) ->
  forallb is_digit rs = true -> forallb is_digit ps = true ->
  wf_tok rs ps t = true -> active l t = false -> inert l prev (text t) rest.
Proof.
  intros l rs ps t rest prev Hl Hrs Hps Hwf Hact.
  destruct t; cbn [text]; try discriminate Hwf;
    try (destruct Hl; subst; inert_fixed).
  - (* TCmp *) destruct c; destruct Hl; subst; inert_fixed.
  - (* TReq *)
    simpl in Hwf. apply andb_true_iff in Hwf. destruct Hwf as [Hwf Hat].
    apply andb_true_iff in Hwf. destruct Hwf as [Hs Hf]. apply str_eqb_eq in Hs. subst sfx.
    destruct Hl as [-> | ->]; [|discriminate Hact].
    change (114 :: rs ++ 46 :: f ++ dots attrs) with ((114 :: rs) ++ [46] ++ f ++ dots attrs).
    apply inert_app; [apply inert_word; [simpl; apply digits_are_words; auto | reflexivity]|].
    apply inert_app; [apply inert_single; reflexivity|].
    apply inert_app; [apply inert_good; auto | apply inert_dots; auto].
  - (* TPol *)
    simpl in Hwf. apply andb_true_iff in Hwf. destruct Hwf as [Hs Hf]. apply str_eqb_eq in Hs. subst sfx.
    destruct Hl as [-> | ->]; [discriminate Hact|].
    change (112 :: ps ++ 46 :: f) with ((112 :: ps) ++ [46] ++ f).
    apply inert_app; [apply inert_word; [simpl; apply digits_are_words; auto | reflexivity]|].
    apply inert_app; [apply inert_single; reflexivity|].
    replace f with (f ++ []) by apply app_nil_r. apply inert_app; [apply inert_good; auto | exact I].
  - (* TEval *)
    simpl in Hwf. apply andb_true_iff in Hwf. destruct Hwf as [Hs Hf]. apply str_eqb_eq in Hs. subst sfx.
    destruct Hl as [-> | ->]; [discriminate Hact|].
    change (s_eval_lp ++ 112 :: ps ++ 46 :: f ++ [41])
      with (s_eval_lp ++ (112 :: ps) ++ [46] ++ f ++ [41]).
    apply inert_app; [apply inert_eval_lp; auto|].
    apply inert_app; [apply inert_word; [simpl; apply digits_are_words; auto | reflexivity]|].
    apply inert_app; [apply inert_single; reflexivity|].
    apply inert_app; [apply inert_good; auto | apply inert_single; reflexivity].
  - (* TStr *)
    simpl in Hwf. unfold lit_ok in Hwf.
    apply andb_true_iff in Hwf. destruct Hwf as [Hwf H114].
    apply andb_true_iff in Hwf. destruct Hwf as [_ H112].
    change (quote_of dq :: s ++ [quote_of dq]) with ([quote_of dq] ++ (s ++ [quote_of dq])).
    apply inert_app.
    + apply inert_single. destruct dq; destruct Hl; subst; reflexivity.
    + cbn [lastc]. apply inert_literal.
      * destruct dq; reflexivity.
      * destruct dq; destruct Hl; subst; reflexivity.
      * destruct Hl; subst; auto.
  - (* TInt *)
    simpl in Hwf. unfold digits_ok in Hwf.
    apply andb_true_iff in Hwf. destruct Hwf as [Hwf _].
    apply andb_true_iff in Hwf. destruct Hwf as [Hne Hd].
    apply inert_word; [apply digits_are_words; auto|].
    destruct ds as [|d ds]; [discriminate|]. simpl in Hd. apply andb_true_iff in Hd. destruct Hd as [Hd _].
    simpl. destruct (d =? l) eqn:E; auto. apply N.eqb_eq in E. subst d.
    destruct Hl; subst; discriminate.
  - (* TId *) apply inert_good; auto.
  - (* TDotted *)
    simpl in Hwf. apply andb_true_iff in Hwf. destruct Hwf as [Hx Hat].
    apply inert_app; [apply inert_good; auto | apply inert_dots; auto].
  - (* TEvalE *)
    simpl in Hwf.
    apply inert_app; [apply inert_eval_lp; auto|].
    apply inert_app; [apply inert_good; auto | apply inert_single; destruct Hl; subst; reflexivity].
Qed.

(* ====================================================================== active tokens *)
Lemma esc_m_core : forall l sfx prev tail, forallb is_digit sfx = true -> is_word_opt prev = false ->
  esc_m l sfx prev (l :: sfx ++ 46 :: tail) = Some (l :: sfx ++ [95], S (length sfx)).
Proof.
  intros. unfold esc_m, match_any. rewrite N.eqb_refl, H0. cbn [negb andb].
  rewrite span_digit_stop by auto. cbn. rewrite str_eqb_refl. reflexivity.
Qed.

Lemma esc_core : forall l sfx prev tail, forallb is_digit sfx = true -> is_word_opt prev = false ->
  rsub (esc_m l sfx) prev 0 (l :: sfx ++ 46 :: tail)
  = l :: sfx ++ 95 :: rsub (esc_m l sfx) (Some 46) 0 tail.
Proof.
  intros. cbn [rsub]. rewrite esc_m_core by auto.
  replace (sfx ++ 46 :: tail) with ((sfx ++ [46]) ++ tail) by (rewrite <- app_assoc; reflexivity).
  replace (S (length sfx)) with (length (sfx ++ [46])) by (rewrite app_length; simpl; lia).
  rewrite rsub_skip. rewrite lastc_app. cbn [lastc].
  cbn [app]. rewrite <- app_assoc. reflexivity.
Qed.

Lemma find_core : forall l sfx prev tail, forallb is_digit sfx = true -> is_word_opt prev = false ->
  find_sfx l prev (l :: sfx ++ 46 :: tail) = Some sfx.
Proof.
  intros. cbn [find_sfx]. unfold match_any. rewrite N.eqb_refl, H0. cbn [negb andb].
  rewrite span_digit_stop by auto. cbn. reflexivity.
Qed.

Definition escf (l : N) (t : tok) : tok := if l =? 112 then esc_p t else esc_r t.
Definition sfx_of (l : N) (rs ps : str) : str := if l =? 112 then ps else rs.

Lemma escf_inactive : forall l t, active l t = false -> escf l t = t.
Proof.
  intros l t H. unfold escf, active in *. destruct (l =? 112); destruct t; auto; discriminate.
Qed.

Lemma active_starts_word : forall l t, active l t = true -> starts_word t = true.
Proof.
  intros l t H. unfold active in H. destruct (l =? 112); destruct t; auto; discriminate.
Qed.

Lemma lastc_cons : forall c a p, lastc (c :: a) p = lastc a (Some c).
Proof. reflexivity. Qed.

Ltac norm_lastc := repeat (rewrite lastc_app || rewrite lastc_cons); cbn [lastc].

Lemma esc_tok_rsub : forall l rs ps t rest prev, (l = 112 \/ l = 114) ->
  forallb is_digit rs = true -> forallb is_digit ps = true ->
  wf_tok rs ps t = true -> (active l t = true -> is_word_opt prev = false) ->
  rsub (esc_m l (sfx_of l rs ps)) prev 0 (text t ++ rest)
  = text (escf l t) ++ rsub (esc_m l (sfx_of l rs ps)) (lastc (text t) prev) 0 rest.
Proof.
  intros l rs ps t rest prev Hl Hrs Hps Hwf Hctx.
  destruct (active l t) eqn:Hact.
  2:{ rewrite escf_inactive by auto. apply rsub_inert. apply (inert_tok l rs ps); auto. }
  specialize (Hctx eq_refl).
  destruct Hl as [-> | ->]; unfold escf, sfx_of; cbn [N.eqb Pos.eqb]; destruct t; try discriminate Hact.
  - (* TPol, p *)
    simpl in Hwf. apply andb_true_iff in Hwf. destruct Hwf as [Hs Hf]. apply str_eqb_eq in Hs. subst sfx.
    replace (text (TPol ps f) ++ rest) with (112 :: ps ++ 46 :: (f ++ rest))
      by (cbn [text app]; rewrite <- app_assoc; reflexivity).
    rewrite esc_core by auto.
    rewrite (rsub_inert 112 ps f rest (Some 46)) by (apply inert_good; auto).
    cbn [text esc_p]. unfold esc_name. norm_lastc.
    cbn [app]. rewrite <- ?app_assoc. cbn [app]. reflexivity.
  - (* TEval, p *)
    simpl in Hwf. apply andb_true_iff in Hwf. destruct Hwf as [Hs Hf]. apply str_eqb_eq in Hs. subst sfx.
    replace (text (TEval ps f) ++ rest) with (s_eval_lp ++ 112 :: ps ++ 46 :: (f ++ [41] ++ rest)).
    2:{ cbn [text]. rewrite <- ?app_assoc. cbn [app]. rewrite <- ?app_assoc. cbn [app].
        rewrite <- ?app_assoc. reflexivity. }
    rewrite (rsub_inert 112 ps s_eval_lp) by (apply inert_eval_lp; auto).
    rewrite esc_core by reflexivity || auto.
    rewrite (rsub_inert 112 ps f) by (apply inert_good; auto).
    rewrite (rsub_inert 112 ps [41]) by (apply inert_single; reflexivity).
    cbn [text esc_p]. unfold esc_name. norm_lastc.
    rewrite <- ?app_assoc. cbn [app]. rewrite <- ?app_assoc. cbn [app]. reflexivity.
  - (* TReq, r *)
    simpl in Hwf. apply andb_true_iff in Hwf. destruct Hwf as [Hwf Hat].
    apply andb_true_iff in Hwf. destruct Hwf as [Hs Hf]. apply str_eqb_eq in Hs. subst sfx.
    replace (text (TReq rs f attrs) ++ rest) with (114 :: rs ++ 46 :: (f ++ dots attrs ++ rest))
      by (cbn [text app]; rewrite <- !app_assoc; cbn [app]; rewrite <- !app_assoc; reflexivity).
    rewrite esc_core by auto.
    rewrite (rsub_inert 114 rs f) by (apply inert_good; auto).
    rewrite (rsub_inert 114 rs (dots attrs)) by (apply inert_dots; auto).
    cbn [text esc_r]. unfold esc_name. norm_lastc.
    cbn [app]. rewrite <- ?app_assoc. cbn [app]. rewrite <- ?app_assoc. reflexivity.
Qed.

(* ====================================================================== token classes vs. texts *)
Definition tok_of (p : piece) : tok := snd (fst p).
Definition toks (ps : list piece) : list tok := map tok_of ps.
Definition pm (f : tok -> tok) (p : piece) : piece :=
  match p with (a, t, b) => (a, f t, b) end.

Lemma lastc_word_run' : forall w p, forallb is_word w = true -> is_word_opt p = true ->
  is_word_opt (lastc w p) = true.
Proof.
  induction w as [|c w IH]; simpl; intros p H Hp; auto.
  apply andb_true_iff in H. destruct H. apply IH; auto.
Qed.

Lemma lastc_word_run : forall w p, forallb is_word w = true -> w <> [] ->
  is_word_opt (lastc w p) = true.
Proof.
  destruct w as [|c w]; intros p H Hne; [congruence|].
  simpl in *. apply andb_true_iff in H. destruct H. apply lastc_word_run'; auto.
Qed.

Lemma lastc_good : forall s p, good_name s = true -> is_word_opt (lastc s p) = true.
Proof.
  intros s p H. destruct (good_name_facts _ H) as (Hne & Hw & _). apply lastc_word_run; auto.
Qed.

Lemma lastc_dots : forall attrs p, forallb good_name attrs = true -> is_word_opt p = true ->
  is_word_opt (lastc (dots attrs) p) = true.
Proof.
  induction attrs as [|a r IH]; simpl; intros p H Hp; auto.
  apply andb_true_iff in H. destruct H as [Ha Hr].
  rewrite lastc_app. apply IH; auto. apply lastc_good; auto.
Qed.

Lemma text_nonempty : forall rs ps t, wf_tok rs ps t = true -> text t <> [].
Proof.
  intros rs ps t H. destruct t; cbn [text]; try discriminate.
  - destruct c; discriminate.
  - simpl in H. unfold digits_ok in H. destruct ds; [discriminate H|discriminate].
  - simpl in H. destruct (good_name_facts _ H) as (Hne & _). exact Hne.
  - simpl in H. apply andb_true_iff in H. destruct H as [H _].
    destruct (good_name_facts _ H) as (Hne & _). destruct x; [congruence|discriminate].
Qed.

Lemma ends_word_spec : forall rs ps t p, wf_tok rs ps t = true ->
  is_word_opt (lastc (text t) p) = ends_word t.
Proof.
  intros rs ps t p H. destruct t; cbn [text ends_word]; try reflexivity; try discriminate H.
  - destruct c; reflexivity.
  - simpl in H. apply andb_true_iff in H. destruct H as [H Hat].
    apply andb_true_iff in H. destruct H as [_ Hf].
    norm_lastc. apply lastc_dots; auto. apply lastc_good; auto.
  - simpl in H. apply andb_true_iff in H. destruct H as [_ Hf].
    norm_lastc. apply lastc_good; auto.
  - norm_lastc. reflexivity.
  - norm_lastc. destruct dq; reflexivity.
  - simpl in H. unfold digits_ok in H. apply andb_true_iff in H. destruct H as [H _].
    apply andb_true_iff in H. destruct H as [Hne Hd].
    apply lastc_word_run; [apply digits_are_words; auto | destruct ds; [discriminate|discriminate]].
  - apply lastc_good; auto.
  - simpl in H. apply andb_true_iff in H. destruct H as [Hx Hat].
    norm_lastc. apply lastc_dots; auto. apply lastc_good; auto.
  - norm_lastc. reflexivity.
Qed.

Lemma render_cons : forall a t b ps,
  render_pieces ((a, t, b) :: ps) = a ++ text t ++ b ++ render_pieces ps.
Proof. intros. unfold render_pieces. cbn [flat_map piece_text]. rewrite <- !app_assoc. reflexivity. Qed.

Lemma blanks_inert : forall l a rest prev, (l = 112 \/ l = 114) -> forallb is_blank a = true ->
  inert l prev a rest.
Proof.
  intros. apply inert_other. rewrite forallb_forall in *. intros c Hc. specialize (H0 c Hc).
  unfold is_blank in H0. apply orb_true_iff in H0.
  destruct H0 as [E|E]; apply N.eqb_eq in E; subst; destruct H; subst; reflexivity.
Qed.

(* ====================================================================== one escape pass over pieces *)
Definition glue_inv (prev : option N) (ps : list piece) : Prop :=
  match ps with
  | (a, t, _) :: _ => a = [] -> is_word_opt prev = true -> starts_word t = false
  | [] => True
  end.

Lemma adm_cons : forall a t b ps, adm ((a, t, b) :: ps) = true ->
  forallb is_blank a = true /\ forallb is_blank b = true /\ adm ps = true
  /\ match ps with (a', t', _) :: _ => gap_ok t (b ++ a') t' = true | [] => True end.
Proof.
  intros a t b ps H. cbn [adm] in H.
  apply andb_true_iff in H. destruct H as [H H4].
  apply andb_true_iff in H. destruct H as [H H3].
  apply andb_true_iff in H. destruct H as [H1 H2].
  repeat split; auto. destruct ps as [|[[a' t'] b'] r]; auto.
Qed.

Lemma glue_next : forall rs ps a t b rest p,
  wf_tok rs ps t = true -> adm ((a, t, b) :: rest) = true ->
  glue_inv (lastc b (lastc (text t) p)) rest.
Proof.
  intros rs ps a t b rest p Hwf Hadm.
  destruct (adm_cons _ _ _ _ Hadm) as (Ha & Hb & Hr & Hg).
  destruct rest as [|[[a' t'] b'] r]; simpl; auto.
  intros -> Hw.
  destruct b as [|c b].
  - cbn [lastc] in Hw. rewrite (ends_word_spec rs ps) in Hw by auto.
    unfold gap_ok in Hg. simpl in Hg. rewrite Hw in Hg.
    apply andb_true_iff in Hg. destruct Hg as [Hg _].
    destruct (starts_word t'); auto.
  - rewrite lastc_blanks_nonword in Hw; [discriminate | auto | discriminate].
Qed.

Lemma esc_render : forall l rs ps, (l = 112 \/ l = 114) ->
  forallb is_digit rs = true -> forallb is_digit ps = true ->
  forall pcs prev rest, adm pcs = true -> forallb (wf_tok rs ps) (toks pcs) = true ->
  glue_inv prev pcs ->
  rsub (esc_m l (sfx_of l rs ps)) prev 0 (render_pieces pcs ++ rest)
  = render_pieces (map (pm (escf l)) pcs)
    ++ rsub (esc_m l (sfx_of l rs ps)) (lastc (render_pieces pcs) prev) 0 rest.
Proof.
  intros l rs ps Hl Hrs Hps. induction pcs as [|[[a t] b] pcs IH]; intros prev rest Hadm Hwf Hg.
  - reflexivity.
  - cbn [toks map tok_of fst snd forallb] in Hwf. apply andb_true_iff in Hwf. destruct Hwf as [Hwt Hwf].
    destruct (adm_cons _ _ _ _ Hadm) as (Ha & Hb & Hr & Hgap).
    cbn [map pm]. rewrite !render_cons. rewrite <- !app_assoc.
    rewrite (rsub_inert l _ a) by (apply blanks_inert; auto).
    rewrite (esc_tok_rsub l rs ps t) ; auto.
    2:{ intro Hact. destruct a as [|c a].
        - cbn [lastc]. destruct (is_word_opt prev) eqn:E; auto.
          simpl in Hg. rewrite (active_starts_word _ _ Hact) in Hg. specialize (Hg eq_refl E). discriminate.
        - apply lastc_blanks_nonword; auto. discriminate. }
    rewrite (rsub_inert l _ b) by (apply blanks_inert; auto).
    rewrite IH; auto.
    2:{ eapply glue_next; eauto. }
    norm_lastc. reflexivity.
Qed.

Lemma esc_tok_find_active : forall l rs ps t rest prev, (l = 112 \/ l = 114) ->
  forallb is_digit rs = true -> forallb is_digit ps = true ->
  wf_tok rs ps t = true -> active l t = true -> is_word_opt prev = false ->
  find_sfx l prev (text t ++ rest) = Some (sfx_of l rs ps).
Proof.
  intros l rs ps t rest prev Hl Hrs Hps Hwf Hact Hctx.
  destruct Hl as [-> | ->]; unfold sfx_of; cbn [N.eqb Pos.eqb]; destruct t; try discriminate Hact.
  - simpl in Hwf. apply andb_true_iff in Hwf. destruct Hwf as [Hs Hf]. apply str_eqb_eq in Hs. subst sfx.
    replace (text (TPol ps f) ++ rest) with (112 :: ps ++ 46 :: (f ++ rest))
      by (cbn [text app]; rewrite <- app_assoc; reflexivity).
    apply find_core; auto.
  - simpl in Hwf. apply andb_true_iff in Hwf. destruct Hwf as [Hs Hf]. apply str_eqb_eq in Hs. subst sfx.
    replace (text (TEval ps f) ++ rest) with (s_eval_lp ++ 112 :: ps ++ 46 :: (f ++ [41] ++ rest)).
    2:{ cbn [text]. rewrite <- ?app_assoc. cbn [app]. rewrite <- ?app_assoc. cbn [app].
        rewrite <- ?app_assoc. reflexivity. }
    rewrite (find_inert 112 s_eval_lp) by (apply inert_eval_lp; auto).
    apply find_core; auto.
  - simpl in Hwf. apply andb_true_iff in Hwf. destruct Hwf as [Hwf Hat].
    apply andb_true_iff in Hwf. destruct Hwf as [Hs Hf]. apply str_eqb_eq in Hs. subst sfx.
    replace (text (TReq rs f attrs) ++ rest) with (114 :: rs ++ 46 :: (f ++ dots attrs ++ rest))
      by (cbn [text app]; rewrite <- !app_assoc; cbn [app]; rewrite <- !app_assoc; reflexivity).
    apply find_core; auto.
Qed.

Lemma find_render : forall l rs ps, (l = 112 \/ l = 114) ->
  forallb is_digit rs = true -> forallb is_digit ps = true ->
  forall pcs prev rest, adm pcs = true -> forallb (wf_tok rs ps) (toks pcs) = true ->
  glue_inv prev pcs ->
  find_sfx l prev (render_pieces pcs ++ rest)
  = if existsb (active l) (toks pcs) then Some (sfx_of l rs ps)
    else find_sfx l (lastc (render_pieces pcs) prev) rest.
Proof.
  intros l rs ps Hl Hrs Hps. induction pcs as [|[[a t] b] pcs IH]; intros prev rest Hadm Hwf Hg.
  - reflexivity.
  - cbn [toks map tok_of fst snd forallb existsb] in *. apply andb_true_iff in Hwf. destruct Hwf as [Hwt Hwf].
    destruct (adm_cons _ _ _ _ Hadm) as (Ha & Hb & Hr & Hgap).
    rewrite !render_cons. rewrite <- !app_assoc.
    rewrite (find_inert l a) by (apply blanks_inert; auto).
    destruct (active l t) eqn:Hact; cbn [orb].
    + apply (esc_tok_find_active l rs ps); auto.
      destruct a as [|c a].
      * cbn [lastc]. destruct (is_word_opt prev) eqn:E; auto.
        simpl in Hg. rewrite (active_starts_word _ _ Hact) in Hg. specialize (Hg eq_refl E). discriminate.
      * apply lastc_blanks_nonword; auto. discriminate.
    + rewrite (find_inert l (text t)) by (apply (inert_tok l rs ps); auto).
      rewrite (find_inert l b) by (apply blanks_inert; auto).
      rewrite IH; auto.
      2:{ eapply glue_next; eauto. }
      norm_lastc. reflexivity.
Qed.

(* ====================================================================== escape_letter / escape_assertion on rendered pieces *)
Lemma glue_inv_none : forall pcs, glue_inv None pcs.
Proof. destruct pcs as [|[[a t] b] r]; simpl; auto. intros; discriminate. Qed.

Lemma toks_map_pm : forall f pcs, toks (map (pm f) pcs) = map f (toks pcs).
Proof.
  induction pcs as [|[[a t] b] r IH]; simpl; auto. unfold toks in *. rewrite IH. reflexivity.
Qed.

Lemma map_pm_inactive : forall l pcs, existsb (active l) (toks pcs) = false ->
  map (pm (escf l)) pcs = pcs.
Proof.
  induction pcs as [|[[a t] b] r IH]; simpl; auto. intro H.
  apply orb_false_iff in H. destruct H as [H1 H2].
  unfold tok_of in H1. simpl in H1. rewrite escf_inactive by auto. rewrite IH; auto.
Qed.

Lemma inert_render : forall l rs ps, (l = 112 \/ l = 114) ->
  forallb is_digit rs = true -> forallb is_digit ps = true ->
  forall pcs prev rest, adm pcs = true -> forallb (wf_tok rs ps) (toks pcs) = true ->
  existsb (active l) (toks pcs) = false -> inert l prev (render_pieces pcs) rest.
Proof.
  intros l rs ps Hl Hrs Hps. induction pcs as [|[[a t] b] pcs IH]; intros prev rest Hadm Hwf Hna.
  - exact I.
  - cbn [toks map tok_of fst snd forallb existsb] in *. apply andb_true_iff in Hwf. destruct Hwf as [Hwt Hwf].
    apply orb_false_iff in Hna. destruct Hna as [Hna1 Hna2].
    destruct (adm_cons _ _ _ _ Hadm) as (Ha & Hb & Hr & Hgap).
    rewrite render_cons.
    apply inert_app; [apply blanks_inert; auto|].
    apply inert_app; [apply (inert_tok l rs ps); auto|].
    apply inert_app; [apply blanks_inert; auto|].
    apply IH; auto.
Qed.

Lemma hash_not_letter : forall l, (l = 112 \/ l = 114) -> (35 =? l) = false.
Proof. intros l [-> | ->]; reflexivity. Qed.

(* with an arbitrary tail that starts with '#': the rendered part is escaped as without the tail,
   the '#' stays where it is *)
Lemma escape_letter_render_tail : forall l rs ps, (l = 112 \/ l = 114) ->
  forallb is_digit rs = true -> forallb is_digit ps = true ->
  forall pcs c, adm pcs = true -> forallb (wf_tok rs ps) (toks pcs) = true ->
  exists c', escape_letter l (render_pieces pcs ++ 35 :: c)
             = render_pieces (map (pm (escf l)) pcs) ++ 35 :: c'.
Proof.
  intros l rs ps Hl Hrs Hps pcs c Hadm Hwf. unfold escape_letter.
  rewrite (find_render l rs ps) by (auto using glue_inv_none).
  destruct (existsb (active l) (toks pcs)) eqn:Hact.
  - rewrite (esc_render l rs ps) by (auto using glue_inv_none).
    cbn [rsub]. unfold esc_m at 1. rewrite match_any_other by (apply hash_not_letter; auto).
    eexists. reflexivity.
  - rewrite map_pm_inactive by auto.
    destruct (find_sfx l (lastc (render_pieces pcs) None) (35 :: c)) as [sfx'|].
    + rewrite rsub_inert by (apply (inert_render l rs ps); auto).
      cbn [rsub]. unfold esc_m at 1. rewrite match_any_other by (apply hash_not_letter; auto).
      eexists. reflexivity.
    + eexists. reflexivity.
Qed.

Lemma escape_letter_render : forall l rs ps, (l = 112 \/ l = 114) ->
  forallb is_digit rs = true -> forallb is_digit ps = true ->
  forall pcs, adm pcs = true -> forallb (wf_tok rs ps) (toks pcs) = true ->
  escape_letter l (render_pieces pcs) = render_pieces (map (pm (escf l)) pcs).
Proof.
  intros l rs ps Hl Hrs Hps pcs Hadm Hwf. unfold escape_letter.
  pose proof (find_render l rs ps Hl Hrs Hps pcs None [] Hadm Hwf (glue_inv_none _)) as Hf.
  rewrite app_nil_r in Hf. rewrite Hf.
  destruct (existsb (active l) (toks pcs)) eqn:Hact.
  - pose proof (esc_render l rs ps Hl Hrs Hps pcs None [] Hadm Hwf (glue_inv_none _)) as He.
    cbn [rsub] in He. rewrite !app_nil_r in He. exact He.
  - cbn [find_sfx]. rewrite map_pm_inactive; auto.
Qed.

(* ---- well-formedness and admissibility survive the escape maps *)
Lemma mem_str_in : forall s l, mem str_eqb s l = true -> In s l.
Proof.
  induction l as [|k l IH]; simpl; intro H; [discriminate|].
  apply orb_true_iff in H. destruct H as [H|H]; auto. left. symmetry. apply str_eqb_eq. exact H.
Qed.

Lemma mem_N_in : forall c s, In c s -> mem N.eqb c s = true.
Proof.
  induction s as [|x s IH]; simpl; intro H; [contradiction|].
  destruct H as [->|H]; [rewrite N.eqb_refl; reflexivity|]. rewrite IH; auto. apply orb_true_r.
Qed.

Lemma keywords_no_underscore : forallb (fun k => negb (mem N.eqb 95 k)) py_keywords = true.
Proof. vm_compute. reflexivity. Qed.

Lemma good_esc_name : forall l sfx f, (l = 112 \/ l = 114) -> forallb is_digit sfx = true ->
  good_name f = true -> good_name (esc_name l sfx f) = true.
Proof.
  intros l sfx f Hl Hs Hf. destruct (good_name_facts _ Hf) as (_ & Hw & _).
  unfold good_name, esc_name.
  assert (Hi : ident (l :: sfx ++ 95 :: f) = true).
  { simpl. rewrite forallb_app_iff. rewrite digits_are_words by auto. simpl. rewrite Hw.
    destruct Hl; subst; reflexivity. }
  assert (Hd : forallb is_digit (sfx ++ 95 :: f) = false).
  { rewrite forallb_app_iff. simpl. apply andb_false_r. }
  assert (Hrp : rp_any (l :: sfx ++ 95 :: f) = false).
  { unfold rp_any. simpl. rewrite Hd. rewrite !andb_false_r. reflexivity. }
  assert (Hk : mem str_eqb (l :: sfx ++ 95 :: f) py_keywords = false).
  { destruct (mem str_eqb (l :: sfx ++ 95 :: f) py_keywords) eqn:E; auto.
    apply mem_str_in in E. pose proof keywords_no_underscore as K.
    rewrite forallb_forall in K. specialize (K _ E). apply negb_true_iff in K.
    rewrite mem_N_in in K; [discriminate|]. right. apply in_or_app. right. left. reflexivity. }
  rewrite Hi, Hrp, Hk. reflexivity.
Qed.

Lemma wf_escf : forall l rs ps t, (l = 112 \/ l = 114) ->
  forallb is_digit rs = true -> forallb is_digit ps = true ->
  wf_tok rs ps t = true -> wf_tok rs ps (escf l t) = true.
Proof.
  intros l rs ps t Hl Hrs Hps H. unfold escf. destruct (l =? 112); destruct t; auto; simpl in *.
  - apply andb_true_iff in H. destruct H as [Hs Hf]. apply str_eqb_eq in Hs. subst.
    apply good_esc_name; auto.
  - apply andb_true_iff in H. destruct H as [Hs Hf]. apply str_eqb_eq in Hs. subst.
    apply good_esc_name; auto.
  - apply andb_true_iff in H. destruct H as [H Hat]. apply andb_true_iff in H. destruct H as [Hs Hf].
    apply str_eqb_eq in Hs. subst. rewrite Hat. rewrite good_esc_name; auto.
Qed.

Lemma escf_classes : forall l t,
  starts_word (escf l t) = starts_word t /\ ends_word (escf l t) = ends_word t
  /\ starts_quote (escf l t) = starts_quote t /\ is_cmp (escf l t) = is_cmp t
  /\ opish (escf l t) = opish t.
Proof. intros. unfold escf. destruct (l =? 112); destruct t; simpl; auto. Qed.

Lemma adm_pm : forall f,
  (forall t, starts_word (f t) = starts_word t /\ ends_word (f t) = ends_word t
             /\ starts_quote (f t) = starts_quote t /\ is_cmp (f t) = is_cmp t
             /\ opish (f t) = opish t) ->
  forall pcs, adm (map (pm f) pcs) = adm pcs.
Proof.
  intros f Hf. induction pcs as [|[[a t] b] pcs IH]; auto.
  cbn [map pm]. cbn [adm]. rewrite IH.
  destruct pcs as [|[[a' t'] b'] r]; auto.
  cbn [map pm]. unfold gap_ok.
  destruct (Hf t) as (_ & -> & _ & _ & ->). destruct (Hf t') as (-> & _ & -> & -> & _).
  reflexivity.
Qed.

Lemma wf_map : forall l rs ps pcs, (l = 112 \/ l = 114) ->
  forallb is_digit rs = true -> forallb is_digit ps = true ->
  forallb (wf_tok rs ps) (toks pcs) = true ->
  forallb (wf_tok rs ps) (toks (map (pm (escf l)) pcs)) = true.
Proof.
  intros l rs ps pcs Hl Hrs Hps H. rewrite toks_map_pm. rewrite forallb_forall in H.
  apply forallb_forall. intros t Ht.
  apply in_map_iff in Ht. destruct Ht as (t0 & <- & Ht0). apply wf_escf; auto.
Qed.

Definition esc_pieces (pcs : list piece) : list piece := map (pm esc_tok) pcs.

Lemma esc_pieces_eq : forall pcs, esc_pieces pcs = map (pm (escf 114)) (map (pm (escf 112)) pcs).
Proof.
  intros. unfold esc_pieces. rewrite map_map. apply map_ext. intros [[a t] b]. reflexivity.
Qed.

Theorem escape_render : forall rs ps pcs,
  forallb is_digit rs = true -> forallb is_digit ps = true ->
  adm pcs = true -> forallb (wf_tok rs ps) (toks pcs) = true ->
  escape_assertion (render_pieces pcs) = render_pieces (esc_pieces pcs).
Proof.
  intros rs ps pcs Hrs Hps Hadm Hwf. unfold escape_assertion.
  rewrite (escape_letter_render 112 rs ps) by auto.
  rewrite (escape_letter_render 114 rs ps); auto.
  - rewrite esc_pieces_eq. reflexivity.
  - rewrite adm_pm; auto. intro; apply escf_classes.
  - apply wf_map; auto.
Qed.

Theorem escape_render_comment : forall rs ps pcs c,
  forallb is_digit rs = true -> forallb is_digit ps = true ->
  adm pcs = true -> forallb (wf_tok rs ps) (toks pcs) = true ->
  exists c', escape_assertion (render_pieces pcs ++ 35 :: c) = render_pieces (esc_pieces pcs) ++ 35 :: c'.
Proof.
  intros rs ps pcs c Hrs Hps Hadm Hwf. unfold escape_assertion.
  destruct (escape_letter_render_tail 112 rs ps (or_introl eq_refl) Hrs Hps pcs c Hadm Hwf) as [c1 E1].
  rewrite E1.
  destruct (escape_letter_render_tail 114 rs ps (or_intror eq_refl) Hrs Hps
              (map (pm (escf 112)) pcs) c1) as [c2 E2].
  - rewrite adm_pm; auto. intro; apply escf_classes.
  - apply wf_map; auto.
  - rewrite E2. rewrite esc_pieces_eq. eexists. reflexivity.
Qed.

(* ====================================================================== _get_expression: the three rewrites *)
Definition special (c : N) : bool := (c =? 38) || (c =? 124) || (c =? 33) || (c =? 35).

Lemma special_cases : forall c, special c = true -> c = 38 \/ c = 124 \/ c = 33 \/ c = 35.
Proof.
  intros c H. unfold special in H. repeat (apply orb_true_iff in H; destruct H as [H|H]);
    apply N.eqb_eq in H; auto.
Qed.

Lemma word_not_special : forall c, is_word c = true -> special c = false.
Proof.
  intros c H. destruct (special c) eqn:E; auto.
  apply special_cases in E. destruct E as [-> | [-> | [-> | ->]]]; discriminate.
Qed.

Lemma lit_not_special : forall c, lit_char c = true -> special c = false.
Proof.
  intros c H. destruct (special c) eqn:E; auto.
  apply special_cases in E. destruct E as [-> | [-> | [-> | ->]]]; discriminate.
Qed.

Definition plain (s : str) : bool := forallb (fun c => negb (special c)) s.

Lemma plain_app : forall a b, plain (a ++ b) = plain a && plain b.
Proof. intros. apply forallb_app. Qed.

Lemma plain_words : forall s, forallb is_word s = true -> plain s = true.
Proof.
  induction s as [|c s IH]; simpl; auto. intro H. apply andb_true_iff in H. destruct H as [Hc Hs].
  rewrite word_not_special; auto.
Qed.

Lemma plain_good : forall s, good_name s = true -> plain s = true.
Proof. intros s H. destruct (good_name_facts _ H) as (_ & Hw & _). apply plain_words; auto. Qed.

Lemma plain_dots : forall attrs, forallb good_name attrs = true -> plain (dots attrs) = true.
Proof.
  induction attrs as [|a r IH]; simpl; auto. intro H. apply andb_true_iff in H. destruct H as [Ha Hr].
  change (plain (a ++ dots r) = true). rewrite plain_app, plain_good, IH; auto.
Qed.

Lemma plain_lits : forall s, forallb lit_char s = true -> plain s = true.
Proof.
  induction s as [|c s IH]; simpl; auto. intro H. apply andb_true_iff in H. destruct H as [Hc Hs].
  rewrite lit_not_special; auto.
Qed.

Definition op_tok (t : tok) : bool :=
  match t with TAnd | TOr | TNot | TCmp CNe => true | _ => false end.

(* every token text other than && || ! != is free of & | ! # *)
Lemma text_plain : forall rs ps t, forallb is_digit rs = true -> forallb is_digit ps = true ->
  wf_tok rs ps t = true -> op_tok t = false -> plain (text t) = true.
Proof.
  intros rs ps t Hrs Hps H Hop. destruct t; cbn [text]; try reflexivity; try discriminate.
  - destruct c; try reflexivity; discriminate.
  - simpl in H. apply andb_true_iff in H. destruct H as [H Hat]. apply andb_true_iff in H.
    destruct H as [Hs Hf]. apply str_eqb_eq in Hs. subst.
    change (plain ((114 :: rs) ++ [46] ++ f ++ dots attrs) = true).
    rewrite !plain_app. rewrite (plain_good f), (plain_dots attrs) by auto.
    rewrite (plain_words (114 :: rs)) by (simpl; apply digits_are_words; auto). reflexivity.
  - simpl in H. apply andb_true_iff in H. destruct H as [Hs Hf]. apply str_eqb_eq in Hs. subst.
    change (plain ((112 :: ps) ++ [46] ++ f) = true).
    rewrite !plain_app. rewrite (plain_good f) by auto.
    rewrite (plain_words (112 :: ps)) by (simpl; apply digits_are_words; auto). reflexivity.
  - simpl in H. apply andb_true_iff in H. destruct H as [Hs Hf]. apply str_eqb_eq in Hs. subst.
    change (plain (s_eval_lp ++ (112 :: ps) ++ [46] ++ f ++ [41]) = true).
    rewrite !plain_app. rewrite (plain_good f) by auto.
    rewrite (plain_words (112 :: ps)) by (simpl; apply digits_are_words; auto). reflexivity.
  - simpl in H. unfold lit_ok in H. apply andb_true_iff in H. destruct H as [H _].
    apply andb_true_iff in H. destruct H as [H _].
    change (plain ([quote_of dq] ++ s ++ [quote_of dq]) = true).
    rewrite !plain_app. rewrite (plain_lits s) by auto. destruct dq; reflexivity.
  - simpl in H. unfold digits_ok in H. apply andb_true_iff in H. destruct H as [H _].
    apply andb_true_iff in H. destruct H as [_ H]. apply plain_words. apply digits_are_words; auto.
  - apply plain_good; auto.
  - simpl in H. apply andb_true_iff in H. destruct H as [Hx Hat].
    rewrite plain_app, (plain_good x), (plain_dots attrs); auto.
  - simpl in H. change (plain (s_eval_lp ++ x ++ [41]) = true).
    rewrite !plain_app, (plain_good x); auto.
Qed.

Lemma plain_blanks : forall a, forallb is_blank a = true -> plain a = true.
Proof.
  induction a as [|c a IH]; simpl; auto. intro H. apply andb_true_iff in H. destruct H as [Hc Ha].
  rewrite IH by auto. unfold is_blank in Hc. apply orb_true_iff in Hc.
  destruct Hc as [E|E]; apply N.eqb_eq in E; subst; reflexivity.
Qed.

Lemma plain_no : forall x s, special x = true -> plain s = true ->
  forallb (fun c => negb (c =? x)) s = true.
Proof.
  intros x s Hx. induction s as [|c s IH]; simpl; auto. intro H.
  apply andb_true_iff in H. destruct H as [Hc Hs]. rewrite IH by auto.
  destruct (c =? x) eqn:E; auto. apply N.eqb_eq in E. subst c. rewrite Hx in Hc. discriminate.
Qed.

(* ---- && and || *)
Lemma m_op_other : forall x rep prev c s, (c =? x) = false -> m_op x rep prev (c :: s) = None.
Proof. intros. unfold m_op. destruct s; auto. rewrite H. reflexivity. Qed.

Lemma rsub_op_copy : forall x rep a rest prev, forallb (fun c => negb (c =? x)) a = true ->
  rsub (m_op x rep) prev 0 (a ++ rest) = a ++ rsub (m_op x rep) (lastc a prev) 0 rest.
Proof.
  intros. apply (rsub_copy (m_op x rep) (fun c => c =? x)); auto.
  intros. apply m_op_other; auto.
Qed.

Lemma rsub_op_hit : forall x rep rest prev,
  rsub (m_op x rep) prev 0 (x :: x :: rest) = rep ++ rsub (m_op x rep) (Some x) 0 rest.
Proof. intros. cbn [rsub]. unfold m_op at 1. rewrite N.eqb_refl. reflexivity. Qed.

Definition pad_piece (sel : tok -> bool) (kw : tok) (p : piece) : piece :=
  match p with (a, t, b) => if sel t then (a ++ [32], kw, 32 :: b) else p end.

Definition sel_and (t : tok) : bool := match t with TAnd => true | _ => false end.
Definition sel_or (t : tok) : bool := match t with TOr => true | _ => false end.
Definition sel_not (t : tok) : bool := match t with TNot => true | _ => false end.

(* tokens that may occur once escaping is done *)
Definition post_esc (t : tok) : bool :=
  match t with TReq _ _ _ | TPol _ _ | TEval _ _ | TDot => false | _ => true end.

Lemma op_render : forall x rep sel kw rs ps,
  special x = true -> text kw <> [] ->
  forallb is_digit rs = true -> forallb is_digit ps = true ->
  (forall t, sel t = true -> text t = [x; x]) ->
  (forall t, sel t = false -> op_tok t = true -> forallb (fun c => negb (c =? x)) (text t) = true) ->
  rep = 32 :: text kw ++ [32] ->
  forall pcs prev rest, adm pcs = true -> forallb (wf_tok rs ps) (toks pcs) = true ->
  rsub (m_op x rep) prev 0 (render_pieces pcs ++ rest)
  = render_pieces (map (pad_piece sel kw) pcs)
    ++ rsub (m_op x rep) (lastc (render_pieces pcs) prev) 0 rest.
Proof.
  intros x rep sel kw rs ps Hx Hkw Hrs Hps Hsel Hops Hrep.
  induction pcs as [|[[a t] b] pcs IH]; intros prev rest Hadm Hwf.
  - reflexivity.
  - cbn [toks map tok_of fst snd forallb] in Hwf. apply andb_true_iff in Hwf. destruct Hwf as [Hwt Hwf].
    destruct (adm_cons _ _ _ _ Hadm) as (Ha & Hb & Hr & Hgap).
    cbn [map pad_piece]. rewrite render_cons. rewrite <- !app_assoc.
    rewrite rsub_op_copy by (apply plain_no; auto; apply plain_blanks; auto).
    destruct (sel t) eqn:Hs.
    + rewrite (Hsel t Hs). cbn [app]. rewrite rsub_op_hit.
      rewrite rsub_op_copy by (apply plain_no; auto; apply plain_blanks; auto).
      rewrite IH by auto. rewrite render_cons. subst rep.
      norm_lastc.
      rewrite <- ?app_assoc. cbn [app]. rewrite <- ?app_assoc. reflexivity.
    + rewrite (rsub_op_copy x rep (text t)).
      2:{ destruct (op_tok t) eqn:Hop; [apply Hops; auto|].
          apply plain_no; auto. apply (text_plain rs ps); auto. }
      rewrite rsub_op_copy by (apply plain_no; auto; apply plain_blanks; auto).
      rewrite IH by auto. rewrite render_cons. norm_lastc.
      rewrite <- ?app_assoc. reflexivity.
Qed.

(* ---- ! *)
Lemma m_not_other : forall prev c s, (c =? 33) = false -> m_not prev (c :: s) = None.
Proof. intros. unfold m_not. rewrite H. reflexivity. Qed.

Lemma rsub_not_copy : forall a rest prev, forallb (fun c => negb (c =? 33)) a = true ->
  rsub m_not prev 0 (a ++ rest) = a ++ rsub m_not (lastc a prev) 0 rest.
Proof.
  intros. apply (rsub_copy m_not (fun c => c =? 33)); auto.
  intros. apply m_not_other; auto.
Qed.

Lemma rsub_not_hit : forall rest prev, hd_is (N.eqb 61) rest = false ->
  rsub m_not prev 0 (33 :: rest) = s_not_pad ++ rsub m_not (Some 33) 0 rest.
Proof. intros. cbn [rsub]. unfold m_not at 1. rewrite N.eqb_refl, H. reflexivity. Qed.

Lemma rsub_not_ne : forall rest prev,
  rsub m_not prev 0 (33 :: 61 :: rest) = 33 :: 61 :: rsub m_not (Some 61) 0 rest.
Proof. intros. cbn [rsub]. unfold m_not at 1 2. cbn. reflexivity. Qed.

Lemma hd_eq_cmp : forall rs ps t, wf_tok rs ps t = true ->
  hd_is (N.eqb 61) (text t) = true -> is_cmp t = true.
Proof.
  intros rs ps t H Hh. destruct t; cbn [text] in Hh; try discriminate; auto.
  - destruct dq; discriminate.
  - simpl in H. unfold digits_ok in H. apply andb_true_iff in H. destruct H as [H _].
    apply andb_true_iff in H. destruct H as [_ H]. destruct ds as [|d ds]; [discriminate|].
    cbn [hd_is] in Hh. cbn [forallb] in H. apply andb_true_iff in H. destruct H as [Hd _].
    apply N.eqb_eq in Hh. subst d. discriminate.
  - simpl in H. destruct (good_name_facts _ H) as (_ & _ & Ha & _).
    destruct s as [|c s]; [discriminate|]. cbn [hd_is] in *. apply N.eqb_eq in Hh. subst c. discriminate.
  - simpl in H. apply andb_true_iff in H. destruct H as [H _].
    destruct (good_name_facts _ H) as (_ & _ & Ha & _).
    destruct x as [|c x]; [discriminate|]. cbn [hd_is app] in *. apply N.eqb_eq in Hh. subst c. discriminate.
Qed.

Lemma hd_is_app_nonempty : forall p a b, a <> [] -> hd_is p (a ++ b) = hd_is p a.
Proof. destruct a; intros; [congruence|reflexivity]. Qed.

Lemma hd_blank_not_eq : forall a, forallb is_blank a = true -> hd_is (N.eqb 61) a = false.
Proof.
  destruct a as [|c a]; simpl; auto. intro H. apply andb_true_iff in H. destruct H as [H _].
  unfold is_blank in H. apply orb_true_iff in H. destruct H as [E|E]; apply N.eqb_eq in E; subst; reflexivity.
Qed.

Lemma hd_after_op : forall rs ps a t b pcs rest,
  adm ((a, t, b) :: pcs) = true -> forallb (wf_tok rs ps) (toks pcs) = true ->
  opish t = true -> hd_is (N.eqb 61) rest = false ->
  hd_is (N.eqb 61) (b ++ render_pieces pcs ++ rest) = false.
Proof.
  intros rs ps a t b pcs rest Hadm Hwf Hop Hrest.
  destruct (adm_cons _ _ _ _ Hadm) as (Ha & Hb & Hr & Hgap).
  destruct b as [|c b].
  2:{ rewrite hd_is_app_nonempty by discriminate. apply hd_blank_not_eq; auto. }
  cbn [app]. destruct pcs as [|[[a' t'] b'] r]; [exact Hrest|].
  rewrite render_cons. rewrite <- !app_assoc.
  destruct (adm_cons _ _ _ _ Hr) as (Ha' & _).
  destruct a' as [|c a'].
  2:{ rewrite hd_is_app_nonempty by discriminate. apply hd_blank_not_eq; auto. }
  cbn [app]. cbn [toks map tok_of fst snd forallb] in Hwf. apply andb_true_iff in Hwf. destruct Hwf as [Hwt _].
  rewrite hd_is_app_nonempty by (eapply text_nonempty; eauto).
  destruct (hd_is (N.eqb 61) (text t')) eqn:E; auto.
  apply (hd_eq_cmp rs ps) in E; auto.
  unfold gap_ok in Hgap. rewrite Hop, E in Hgap. rewrite andb_false_r in Hgap. discriminate.
Qed.

Lemma not_render : forall rs ps,
  forallb is_digit rs = true -> forallb is_digit ps = true ->
  forall pcs prev rest, adm pcs = true -> forallb (wf_tok rs ps) (toks pcs) = true ->
  hd_is (N.eqb 61) rest = false ->
  rsub m_not prev 0 (render_pieces pcs ++ rest)
  = render_pieces (map (pad_piece sel_not TKNot) pcs)
    ++ rsub m_not (lastc (render_pieces pcs) prev) 0 rest.
Proof.
  intros rs ps Hrs Hps.
  assert (H33 : special 33 = true) by reflexivity.
  induction pcs as [|[[a t] b] pcs IH]; intros prev rest Hadm Hwf Hrest.
  - reflexivity.
  - cbn [toks map tok_of fst snd forallb] in Hwf. apply andb_true_iff in Hwf. destruct Hwf as [Hwt Hwf].
    destruct (adm_cons _ _ _ _ Hadm) as (Ha & Hb & Hr & Hgap).
    cbn [map pad_piece]. rewrite render_cons. rewrite <- !app_assoc.
    rewrite rsub_not_copy by (apply plain_no; auto; apply plain_blanks; auto).
    destruct (op_tok t) eqn:Hop.
    + destruct t; try discriminate Hop; cbn [sel_not text].
      * (* TAnd *) rewrite (rsub_not_copy [38; 38]) by reflexivity.
        rewrite rsub_not_copy by (apply plain_no; auto; apply plain_blanks; auto).
        rewrite IH by auto. rewrite render_cons. norm_lastc. cbn [text]. rewrite <- ?app_assoc. reflexivity.
      * (* TOr *) rewrite (rsub_not_copy [124; 124]) by reflexivity.
        rewrite rsub_not_copy by (apply plain_no; auto; apply plain_blanks; auto).
        rewrite IH by auto. rewrite render_cons. norm_lastc. cbn [text]. rewrite <- ?app_assoc. reflexivity.
      * (* TNot *) cbn [app]. rewrite rsub_not_hit by (eapply hd_after_op; eauto).
        rewrite rsub_not_copy by (apply plain_no; auto; apply plain_blanks; auto).
        rewrite IH by auto. rewrite render_cons. norm_lastc. cbn [text].
        rewrite <- ?app_assoc. cbn [app]. rewrite <- ?app_assoc. reflexivity.
      * (* TCmp CNe *) destruct c; try discriminate Hop. cbn [app]. rewrite rsub_not_ne.
        rewrite rsub_not_copy by (apply plain_no; auto; apply plain_blanks; auto).
        rewrite IH by auto. rewrite render_cons. norm_lastc. cbn [text]. rewrite <- ?app_assoc. reflexivity.
    + assert (Hsel : sel_not t = false) by (destruct t; auto; discriminate).
      rewrite Hsel.
      rewrite (rsub_not_copy (text t)) by (apply plain_no; auto; apply (text_plain rs ps); auto).
      rewrite rsub_not_copy by (apply plain_no; auto; apply plain_blanks; auto).
      rewrite IH by auto. rewrite render_cons. norm_lastc. rewrite <- ?app_assoc. reflexivity.
Qed.

(* ---- admissibility and well-formedness survive the padding maps *)
Lemma adm_intro : forall a t b ps,
  forallb is_blank a = true -> forallb is_blank b = true -> adm ps = true ->
  match ps with (a', t', _) :: _ => gap_ok t (b ++ a') t' = true | [] => True end ->
  adm ((a, t, b) :: ps) = true.
Proof.
  intros a t b ps Ha Hb Hr Hg. cbn [adm]. rewrite Ha, Hb, Hr.
  destruct ps as [|[[a' t'] b'] r]; auto. rewrite Hg. reflexivity.
Qed.

Lemma blanks_snoc : forall a, forallb is_blank a = true -> forallb is_blank (a ++ [32]) = true.
Proof. intros. rewrite forallb_app_iff, H. reflexivity. Qed.

Lemma gap_nonempty : forall t g t', g <> [] -> opish t && is_cmp t' = false -> gap_ok t g t' = true.
Proof.
  intros. unfold gap_ok. rewrite H0. destruct g; [congruence|]. reflexivity.
Qed.

Lemma adm_pad : forall sel kw, is_cmp kw = false -> opish kw = false ->
  forall pcs, adm pcs = true -> adm (map (pad_piece sel kw) pcs) = true.
Proof.
  intros sel kw Hc Ho. induction pcs as [|[[a t] b] pcs IH]; intro Hadm; auto.
  destruct (adm_cons _ _ _ _ Hadm) as (Ha & Hb & Hr & Hgap).
  specialize (IH Hr). cbn [map]. 
  destruct pcs as [|[[a' t'] b'] r].
  - cbn [map]. unfold pad_piece. destruct (sel t).
    + apply adm_intro; auto using blanks_snoc.
    + apply adm_intro; auto.
  - cbn [map] in *.
    assert (Hnext : exists a2 t2 b2, pad_piece sel kw (a', t', b') = (a2, t2, b2)
              /\ ((sel t' = true /\ a2 = a' ++ [32] /\ t2 = kw) \/ (sel t' = false /\ a2 = a' /\ t2 = t'))).
    { unfold pad_piece. destruct (sel t'); eexists _, _, _; split; eauto. }
    destruct Hnext as (a2 & t2 & b2 & Eq & Hcase). rewrite Eq in *.
    unfold pad_piece. destruct (sel t) eqn:E1.
    + apply adm_intro; [apply blanks_snoc; auto | cbn; exact Hb | exact IH | ].
      apply gap_nonempty; [discriminate|]. rewrite Ho. reflexivity.
    + apply adm_intro; [exact Ha | exact Hb | exact IH | ].
      destruct Hcase as [(E2 & -> & ->) | (E2 & -> & ->)]; auto.
      apply gap_nonempty.
      * destruct b; [destruct a'|]; discriminate.
      * rewrite Hc. apply andb_false_r.
Qed.

Lemma wf_pad : forall rs ps sel kw pcs, wf_tok rs ps kw = true ->
  forallb (wf_tok rs ps) (toks pcs) = true ->
  forallb (wf_tok rs ps) (toks (map (pad_piece sel kw) pcs)) = true.
Proof.
  intros rs ps sel kw pcs Hk. induction pcs as [|[[a t] b] pcs IH]; intro H; auto.
  cbn [toks map tok_of fst snd forallb] in *. apply andb_true_iff in H. destruct H as [Ht H].
  unfold pad_piece at 1. destruct (sel t); cbn [tok_of fst snd]; rewrite ?Hk, ?Ht; cbn [andb]; apply IH; auto.
Qed.

(* ---- the three rewrites together *)
Definition kw_pieces (pcs : list piece) : list piece :=
  map (pad_piece sel_not TKNot) (map (pad_piece sel_or TKOr) (map (pad_piece sel_and TKAnd) pcs)).

Theorem get_expression_render : forall rs ps pcs,
  forallb is_digit rs = true -> forallb is_digit ps = true ->
  adm pcs = true -> forallb (wf_tok rs ps) (toks pcs) = true ->
  get_expression (render_pieces pcs) = render_pieces (kw_pieces pcs).
Proof.
  intros rs ps pcs Hrs Hps Hadm Hwf. unfold get_expression, kw_pieces, m_and, m_or.
  pose proof (op_render 38 s_and_pad sel_and TKAnd rs ps) as H1.
  rewrite <- (app_nil_r (render_pieces pcs)).
  rewrite H1; auto; try reflexivity; try discriminate.
  2:{ intros t Ht. destruct t; try discriminate. reflexivity. }
  2:{ intros t Hs Ho. destruct t; try discriminate; try reflexivity. destruct c; try discriminate; reflexivity. }
  cbn [rsub]. rewrite app_nil_r.
  set (p1 := map (pad_piece sel_and TKAnd) pcs).
  assert (A1 : adm p1 = true) by (apply adm_pad; auto).
  assert (W1 : forallb (wf_tok rs ps) (toks p1) = true) by (apply wf_pad; auto).
  pose proof (op_render 124 s_or_pad sel_or TKOr rs ps) as H2.
  rewrite <- (app_nil_r (render_pieces p1)).
  rewrite H2; auto; try reflexivity; try discriminate.
  2:{ intros t Ht. destruct t; try discriminate. reflexivity. }
  2:{ intros t Hs Ho. destruct t; try discriminate; try reflexivity. destruct c; try discriminate; reflexivity. }
  cbn [rsub]. rewrite app_nil_r.
  set (p2 := map (pad_piece sel_or TKOr) p1).
  assert (A2 : adm p2 = true) by (apply adm_pad; auto).
  assert (W2 : forallb (wf_tok rs ps) (toks p2) = true) by (apply wf_pad; auto).
  rewrite <- (app_nil_r (render_pieces p2)).
  rewrite (not_render rs ps); auto.
  cbn [rsub]. rewrite app_nil_r. reflexivity.
Qed.

(* ====================================================================== lexing: fuel is irrelevant *)
Section LexFuel.
  Variable one : str -> option (tok * str).
  Hypothesis shrinks : forall s t r, one s = Some (t, r) -> (length r < length s)%nat.

  Lemma lex_fuel_enough : forall n k1 k2 s, (length s <= n)%nat -> (n <= k1)%nat -> (n <= k2)%nat ->
    lex_fuel one k1 s = lex_fuel one k2 s.
  Proof.
    induction n as [|n IH]; intros k1 k2 s Hs H1 H2.
    - destruct s; [|simpl in Hs; lia]. destruct k1, k2; reflexivity.
    - destruct s as [|c s]; [destruct k1, k2; reflexivity|].
      destruct k1 as [|k1]; [lia|]. destruct k2 as [|k2]; [lia|].
      cbn [lex_fuel]. simpl in Hs.
      destruct (is_blank c).
      + apply IH; lia.
      + destruct (one (c :: s)) as [[t r]|] eqn:E; auto.
        apply shrinks in E. simpl in E. rewrite (IH k1 k2 r); auto; lia.
  Qed.

  Lemma lex_nil : lex one [] = Some [].
  Proof. reflexivity. Qed.

  Lemma lex_blank : forall c s, is_blank c = true -> lex one (c :: s) = lex one s.
  Proof. intros. unfold lex. cbn [length lex_fuel]. rewrite H. reflexivity. Qed.

  Lemma lex_tok : forall c s t r, is_blank c = false -> one (c :: s) = Some (t, r) ->
    lex one (c :: s) = option_map (cons t) (lex one r).
  Proof.
    intros c s t r Hb Ho. unfold lex. cbn [length lex_fuel]. rewrite Hb, Ho.
    pose proof (shrinks _ _ _ Ho) as Hl. simpl in Hl.
    rewrite (lex_fuel_enough (length r) (length s) (length r) r); auto; lia.
  Qed.

  Lemma lex_blanks : forall a s, forallb is_blank a = true -> lex one (a ++ s) = lex one s.
  Proof.
    induction a as [|c a IH]; simpl; intros s H; auto.
    apply andb_true_iff in H. destruct H as [Hc Ha]. rewrite lex_blank by auto. apply IH; auto.
  Qed.
End LexFuel.

Lemma length_tl : forall (s : str), (length (tl s) <= length s)%nat.
Proof. destruct s; simpl; lia. Qed.

Lemma span_snd_cons : forall p c s, p c = true -> snd (span p (c :: s)) = snd (span p s).
Proof. intros. simpl. rewrite H. destruct (span p s); reflexivity. Qed.

Lemma lex_op_shrinks : forall c s' t r, lex_op c s' = Some (t, r) -> (length r <= length s')%nat.
Proof.
  intros c s' t r H. unfold lex_op in H. pose proof (length_tl s').
  repeat match type of H with
         | (if ?b then _ else _) = _ => destruct b
         end; inversion H; subst; auto; lia.
Qed.

Lemma lex_int_shrinks : forall c s' t r, is_digit c = true -> lex_int (c :: s') = Some (t, r) ->
  (length r <= length s')%nat.
Proof.
  intros c s' t r Hc H. unfold lex_int in H.
  pose proof (span_snd_cons is_digit c s' Hc) as E. pose proof (span_length is_digit s') as L.
  destruct (span is_digit (c :: s')) as [ds rest]. simpl in E. subst rest.
  destruct (hd_is is_word (snd (span is_digit s')) || hd_is (N.eqb 46) (snd (span is_digit s'))); [discriminate|].
  destruct (leading_zero ds); inversion H; subst; auto.
Qed.

Lemma lex_string_shrinks : forall q s body r, lex_string q s = Some (body, r) ->
  (length r <= length s)%nat.
Proof.
  intros q s body r H. unfold lex_string in H.
  pose proof (span_length (fun c => negb (c =? q)) s) as L.
  destruct (span (fun c => negb (c =? q)) s) as [b rest]. simpl in L.
  destruct rest as [|x rest']; [discriminate|].
  destruct (forallb _ b); inversion H; subst. simpl in L. lia.
Qed.

Lemma py_one_shrinks : forall s t r, py_lex_one s = Some (t, r) -> (length r < length s)%nat.
Proof.
  intros s t r H. destruct s as [|c s']; [discriminate|]. unfold py_lex_one in H.
  destruct (is_alpha c) eqn:Ea.
  - pose proof (span_snd_cons is_word c s' (alpha_is_word _ Ea)) as E.
    pose proof (span_length is_word s') as L.
    destruct (span is_word (c :: s')) as [w rest]. simpl in E. subst rest.
    destruct (hd_is is_quote (snd (span is_word s'))); inversion H; subst. simpl. lia.
  - destruct (is_digit c) eqn:Ed.
    + apply lex_int_shrinks in H; auto. simpl. lia.
    + destruct (is_quote c).
      * destruct (lex_string c s') as [[body rest]|] eqn:El; inversion H; subst.
        apply lex_string_shrinks in El. simpl. lia.
      * destruct (c =? 46); [inversion H; subst; simpl; lia|].
        destruct (c =? 33).
        -- destruct (hd_is (N.eqb 61) s'); inversion H; subst. pose proof (length_tl s'). simpl. lia.
        -- apply lex_op_shrinks in H. simpl. lia.
Qed.

(* ====================================================================== py_lex on token texts *)
Definition L := py_lex.

Lemma L_blanks : forall a s, forallb is_blank a = true -> L (a ++ s) = L s.
Proof. intros. apply lex_blanks; auto. Qed.

Lemma L_tok : forall c s t r, is_blank c = false -> py_lex_one (c :: s) = Some (t, r) ->
  L (c :: s) = option_map (cons t) (L r).
Proof. intros. apply lex_tok; auto. apply py_one_shrinks. Qed.

Definition cmpchar (d : N) : bool := (d =? 61) || (d =? 60) || (d =? 62).

Lemma quote_cases : forall c, is_quote c = true -> c = 34 \/ c = 39.
Proof. intros c H. unfold is_quote in H. apply orb_true_iff in H. destruct H as [H|H]; apply N.eqb_eq in H; auto. Qed.
Lemma blank_cases : forall c, is_blank c = true -> c = 32 \/ c = 9.
Proof. intros c H. unfold is_blank in H. apply orb_true_iff in H. destruct H as [H|H]; apply N.eqb_eq in H; auto. Qed.
Lemma cmpchar_cases : forall c, cmpchar c = true -> c = 61 \/ c = 60 \/ c = 62.
Proof.
  intros c H. unfold cmpchar in H. repeat (apply orb_true_iff in H; destruct H as [H|H]);
    apply N.eqb_eq in H; auto.
Qed.

Lemma word_char_facts : forall c, is_word c = true ->
  is_blank c = false /\ is_quote c = false /\ (c =? 46) = false /\ cmpchar c = false
  /\ (c =? 33) = false /\ is_space c = false.
Proof.
  intros c H. repeat split.
  - destruct (is_blank c) eqn:E; auto. apply blank_cases in E. destruct E; subst; discriminate.
  - destruct (is_quote c) eqn:E; auto. apply quote_cases in E. destruct E; subst; discriminate.
  - destruct (c =? 46) eqn:E; auto. apply N.eqb_eq in E. subst; discriminate.
  - destruct (cmpchar c) eqn:E; auto. apply cmpchar_cases in E. destruct E as [->|[->| ->]]; discriminate.
  - destruct (c =? 33) eqn:E; auto. apply N.eqb_eq in E. subst; discriminate.
  - unfold is_space. destruct ((9 <=? c) && (c <=? 13)) eqn:E.
    + apply andb_true_iff in E. destruct E as [E1 E2]. apply N.leb_le in E1, E2.
      unfold is_word, is_alpha, is_digit in H.
      repeat (apply orb_true_iff in H; destruct H as [H|H]);
        try (apply andb_true_iff in H; destruct H as [H1 H2]; apply N.leb_le in H1, H2; lia).
      apply N.eqb_eq in H. lia.
    + simpl. destruct (c =? 32) eqn:E2; auto. apply N.eqb_eq in E2. subst. discriminate.
Qed.

Lemma digit_not_alpha : forall c, is_digit c = true -> is_alpha c = false.
Proof.
  intros c H. unfold is_digit in H. apply andb_true_iff in H. destruct H as [H1 H2].
  apply N.leb_le in H1, H2. unfold is_alpha.
  destruct ((65 <=? c) && (c <=? 90)) eqn:E1.
  { apply andb_true_iff in E1. destruct E1 as [A B]. apply N.leb_le in A. lia. }
  destruct ((97 <=? c) && (c <=? 122)) eqn:E2.
  { apply andb_true_iff in E2. destruct E2 as [A B]. apply N.leb_le in A. lia. }
  destruct (c =? 95) eqn:E3; auto. apply N.eqb_eq in E3. lia.
Qed.

(* ---- names and keywords *)
Definition classify (w : str) : tok :=
  if str_eqb w s_and then TKAnd else if str_eqb w s_or then TKOr
  else if str_eqb w s_not then TKNot else if str_eqb w s_in then TIn else TId w.

Lemma L_word : forall w rest, forallb is_word w = true -> hd_is is_alpha w = true ->
  hd_is is_word rest = false -> hd_is is_quote rest = false ->
  L (w ++ rest) = option_map (cons (classify w)) (L rest).
Proof.
  intros w rest Hw Ha Hr Hq. destruct w as [|c w]; [discriminate|]. cbn [hd_is] in Ha.
  cbn [app]. rewrite (L_tok c (w ++ rest) (classify (c :: w)) rest).
  - reflexivity.
  - apply (word_char_facts c). apply alpha_is_word; auto.
  - unfold py_lex_one. rewrite Ha.
    change (c :: w ++ rest) with ((c :: w) ++ rest). rewrite span_all by auto.
    rewrite Hq. reflexivity.
Qed.

Lemma mem_false_neq : forall s k l, mem str_eqb s l = false -> In k l -> str_eqb s k = false.
Proof.
  induction l as [|x l IH]; simpl; intros H Hin; [contradiction|].
  apply orb_false_iff in H. destruct H as [H1 H2]. destruct Hin as [->|Hin]; auto.
Qed.

Lemma classify_good : forall s, good_name s = true -> classify s = TId s.
Proof.
  intros s H. destruct (good_name_facts _ H) as (_ & _ & _ & _ & _ & Hk).
  unfold classify.
  rewrite (mem_false_neq s s_and py_keywords Hk) by (vm_compute; tauto).
  rewrite (mem_false_neq s s_or py_keywords Hk) by (vm_compute; tauto).
  rewrite (mem_false_neq s s_not py_keywords Hk) by (vm_compute; tauto).
  rewrite (mem_false_neq s s_in py_keywords Hk) by (vm_compute; tauto).
  reflexivity.
Qed.

Lemma L_good : forall s rest, good_name s = true ->
  hd_is is_word rest = false -> hd_is is_quote rest = false ->
  L (s ++ rest) = option_map (cons (TId s)) (L rest).
Proof.
  intros s rest H Hr Hq. destruct (good_name_facts _ H) as (_ & Hw & Ha & _).
  rewrite L_word by auto. rewrite classify_good by auto. reflexivity.
Qed.

Lemma L_dot : forall rest, L (46 :: rest) = option_map (cons TDot) (L rest).
Proof. intros. apply L_tok; reflexivity. Qed.

Lemma option_map_app : forall (x y : list tok) o,
  option_map (app x) (option_map (app y) o) = option_map (app (x ++ y)) o.
Proof. intros. destruct o; simpl; auto. rewrite app_assoc. reflexivity. Qed.

Lemma L_dots : forall attrs rest, forallb good_name attrs = true ->
  hd_is is_word rest = false -> hd_is is_quote rest = false ->
  L (dots attrs ++ rest)
  = option_map (app (flat_map (fun a => [TDot; TId a]) attrs)) (L rest).
Proof.
  induction attrs as [|a r IH]; intros rest H Hr Hq.
  - simpl. destruct (L rest); reflexivity.
  - cbn [forallb] in H. apply andb_true_iff in H. destruct H as [Ha Hr'].
    cbn [dots flat_map]. fold (dots r). cbn [app]. rewrite <- app_assoc.
    rewrite L_dot. rewrite L_good; auto.
    + rewrite IH by auto. destruct (L rest); reflexivity.
    + destruct r; [exact Hr | reflexivity].
    + destruct r; [exact Hq | reflexivity].
Qed.

Lemma L_dotted : forall x attrs rest, good_name x = true -> forallb good_name attrs = true ->
  hd_is is_word rest = false -> hd_is is_quote rest = false ->
  L (x ++ dots attrs ++ rest) = option_map (app (dotted_toks x attrs)) (L rest).
Proof.
  intros x attrs rest Hx Hat Hr Hq. rewrite L_good; auto.
  - rewrite L_dots by auto. unfold dotted_toks. destruct (L rest); reflexivity.
  - destruct attrs; [exact Hr | reflexivity].
  - destruct attrs; [exact Hq | reflexivity].
Qed.

Lemma hd_is_weaken : forall (p q : N -> bool) s, (forall c, q c = true -> p c = true) ->
  hd_is p s = false -> hd_is q s = false.
Proof.
  intros p q s H Hp. destruct s as [|c s]; auto. simpl in *. destruct (q c) eqn:E; auto.
  apply H in E. congruence.
Qed.

Lemma L_int : forall ds rest, digits_ok ds = true ->
  hd_is is_word rest = false -> hd_is (N.eqb 46) rest = false ->
  L (ds ++ rest) = option_map (cons (TInt ds)) (L rest).
Proof.
  intros ds rest H Hr Hd. unfold digits_ok in H. apply andb_true_iff in H. destruct H as [H Hz].
  apply andb_true_iff in H. destruct H as [Hne Hds]. apply negb_true_iff in Hz.
  destruct ds as [|d ds]; [discriminate|]. cbn [forallb] in Hds.
  apply andb_true_iff in Hds. destruct Hds as [Hd1 Hds].
  cbn [app]. apply L_tok.
  - apply (word_char_facts d). apply digit_is_word; auto.
  - unfold py_lex_one. rewrite (digit_not_alpha d Hd1), Hd1. unfold lex_int.
    change (d :: ds ++ rest) with ((d :: ds) ++ rest).
    rewrite span_all.
    + rewrite Hr, Hd, Hz. reflexivity.
    + simpl. rewrite Hd1, Hds. reflexivity.
    + apply (hd_is_weaken is_word); auto. apply digit_is_word.
Qed.

Lemma lit_char_facts : forall c, lit_char c = true ->
  (c =? 34) = false /\ (c =? 39) = false /\ (c =? 92) = false /\ (c =? 10) = false.
Proof.
  intros c H. repeat split.
  - destruct (c =? 34) eqn:E; auto. apply N.eqb_eq in E. subst. discriminate.
  - destruct (c =? 39) eqn:E; auto. apply N.eqb_eq in E. subst. discriminate.
  - destruct (c =? 92) eqn:E; auto. apply N.eqb_eq in E. subst. discriminate.
  - destruct (c =? 10) eqn:E; auto. apply N.eqb_eq in E. subst. discriminate.
Qed.

Lemma L_str : forall dq s rest, forallb lit_char s = true ->
  L (quote_of dq :: s ++ quote_of dq :: rest) = option_map (cons (TStr dq s)) (L rest).
Proof.
  intros dq s rest H. apply L_tok; [destruct dq; reflexivity|].
  unfold py_lex_one.
  replace (is_alpha (quote_of dq)) with false by (destruct dq; reflexivity).
  replace (is_digit (quote_of dq)) with false by (destruct dq; reflexivity).
  replace (is_quote (quote_of dq)) with true by (destruct dq; reflexivity).
  unfold lex_string. rewrite span_all.
  - replace (forallb (fun c => negb ((c =? 92) || (c =? 10))) s) with true.
    + destruct dq; reflexivity.
    + symmetry. rewrite forallb_forall in *. intros c Hc. specialize (H c Hc).
      destruct (lit_char_facts c H) as (_ & _ & -> & ->). reflexivity.
  - rewrite forallb_forall in *. intros c Hc. specialize (H c Hc).
    destruct (lit_char_facts c H) as (E1 & E2 & _). destruct dq; simpl; rewrite ?E1, ?E2; reflexivity.
  - simpl. rewrite N.eqb_refl. reflexivity.
Qed.

(* ---- every Python-side token *)
Definition py_tok (t : tok) : bool :=
  match t with
  | TCmp _ | TIn | TLP | TRP | TLB | TRB | TComma | TStr _ _ | TInt _ | TId _ | TDotted _ _
  | TKAnd | TKOr | TKNot => true
  | _ => false
  end.

Definition sepcond (t : tok) (rest : str) : Prop :=
  (ends_word t = true ->
     hd_is is_word rest = false /\ hd_is is_quote rest = false /\ hd_is (N.eqb 46) rest = false)
  /\ (is_cmp t = true -> hd_is cmpchar rest = false).

Lemma hd_cmpchar_eq : forall rest, hd_is cmpchar rest = false -> hd_is (N.eqb 61) rest = false.
Proof.
  intros. apply (hd_is_weaken cmpchar); auto. intros c E. apply N.eqb_eq in E. subst. reflexivity.
Qed.
Lemma hd_cmpchar_bad : forall rest, hd_is cmpchar rest = false ->
  hd_is (fun d => (d =? 60) || (d =? 62)) rest = false.
Proof.
  intros. apply (hd_is_weaken cmpchar); auto. intros c E. unfold cmpchar.
  apply orb_true_iff in E. destruct E as [E|E]; rewrite E; auto using orb_true_r.
  rewrite orb_true_r. reflexivity.
Qed.

Lemma L_text : forall rs ps t rest, wf_tok rs ps t = true -> py_tok t = true -> sepcond t rest ->
  L (text t ++ rest) = option_map (app (tr t)) (L rest).
Proof.
  intros rs ps t rest Hwf Hpy [Hw Hc].
  assert (Hone : forall c tk, L (c :: rest) = option_map (cons tk) (L rest) ->
                 L ([c] ++ rest) = option_map (app [tk]) (L rest)).
  { intros c tk E. cbn [app]. rewrite E. destruct (L rest); reflexivity. }
  destruct t; try discriminate Hpy; cbn [text tr].
  - (* TCmp *)
    specialize (Hc eq_refl). pose proof (hd_cmpchar_eq _ Hc) as He. pose proof (hd_cmpchar_bad _ Hc) as Hb.
    destruct c; cbn [app].
    + rewrite (L_tok 61 (61 :: rest) (TCmp CEq) rest) by reflexivity. destruct (L rest); reflexivity.
    + rewrite (L_tok 33 (61 :: rest) (TCmp CNe) rest) by reflexivity. destruct (L rest); reflexivity.
    + rewrite (L_tok 60 rest (TCmp CLt) rest); [destruct (L rest); reflexivity | reflexivity |].
      unfold py_lex_one. cbn. unfold lex_op. cbn. rewrite He, Hb. reflexivity.
    + rewrite (L_tok 60 (61 :: rest) (TCmp CLe) rest) by reflexivity. destruct (L rest); reflexivity.
    + rewrite (L_tok 62 rest (TCmp CGt) rest); [destruct (L rest); reflexivity | reflexivity |].
      unfold py_lex_one. cbn. unfold lex_op. cbn. rewrite He, Hb. reflexivity.
    + rewrite (L_tok 62 (61 :: rest) (TCmp CGe) rest) by reflexivity. destruct (L rest); reflexivity.
  - (* TIn *)
    destruct (Hw eq_refl) as (H1 & H2 & _).
    rewrite (L_word [105; 110] rest) by auto. destruct (L rest); reflexivity.
  - apply Hone. apply L_tok; reflexivity.
  - apply Hone. apply L_tok; reflexivity.
  - apply Hone. apply L_tok; reflexivity.
  - apply Hone. apply L_tok; reflexivity.
  - apply Hone. apply L_tok; reflexivity.
  - (* TStr *)
    simpl in Hwf. unfold lit_ok in Hwf. apply andb_true_iff in Hwf. destruct Hwf as [Hwf _].
    apply andb_true_iff in Hwf. destruct Hwf as [Hl _].
    cbn [app]. rewrite <- app_assoc. cbn [app]. rewrite L_str by auto. destruct (L rest); reflexivity.
  - (* TInt *)
    destruct (Hw eq_refl) as (H1 & _ & H3). rewrite L_int by auto. destruct (L rest); reflexivity.
  - (* TId *)
    destruct (Hw eq_refl) as (H1 & H2 & _). rewrite L_good by auto. destruct (L rest); reflexivity.
  - (* TDotted *)
    destruct (Hw eq_refl) as (H1 & H2 & _). simpl in Hwf. apply andb_true_iff in Hwf.
    destruct Hwf as [Hx Hat]. rewrite <- app_assoc. apply L_dotted; auto.
  - destruct (Hw eq_refl) as (H1 & H2 & _).
    rewrite (L_word [97; 110; 100] rest) by auto. destruct (L rest); reflexivity.
  - destruct (Hw eq_refl) as (H1 & H2 & _).
    rewrite (L_word [111; 114] rest) by auto. destruct (L rest); reflexivity.
  - destruct (Hw eq_refl) as (H1 & H2 & _).
    rewrite (L_word [110; 111; 116] rest) by auto. destruct (L rest); reflexivity.
Qed.

(* ---- first characters of token texts *)
Lemma hd_text_facts : forall rs ps t, wf_tok rs ps t = true ->
  hd_is is_word (text t) = starts_word t /\ hd_is is_quote (text t) = starts_quote t
  /\ hd_is (N.eqb 46) (text t) = false /\ (hd_is cmpchar (text t) = true -> is_cmp t = true)
  /\ hd_is is_space (text t) = false.
Proof.
  intros rs ps t H.
  assert (Hword : forall s, hd_is is_word s = true ->
            hd_is is_word s = true /\ hd_is is_quote s = false /\ hd_is (N.eqb 46) s = false
            /\ (hd_is cmpchar s = true -> False) /\ hd_is is_space s = false).
  { intros s Hs. destruct s as [|c s]; [discriminate|]. cbn [hd_is] in *.
    destruct (word_char_facts c Hs) as (_ & Hq & Hd & Hcm & _ & Hsp). rewrite (N.eqb_sym 46 c), Hq, Hd, Hcm, Hsp.
    repeat split; auto. discriminate. }
  assert (Hgood : forall s, good_name s = true -> hd_is is_word s = true).
  { intros s Hs. destruct (good_name_facts _ Hs) as (_ & _ & Ha & _).
    destruct s as [|c s]; [discriminate|]. cbn [hd_is] in *. apply alpha_is_word; auto. }
  destruct t; cbn [text starts_word starts_quote is_cmp]; try discriminate H;
    try (repeat split; try reflexivity; intro; discriminate).
  - destruct c; repeat split; reflexivity.
  - destruct dq; repeat split; try reflexivity; intro; discriminate.
  - simpl in H. unfold digits_ok in H. apply andb_true_iff in H. destruct H as [H _].
    apply andb_true_iff in H. destruct H as [Hne Hd]. destruct ds as [|d ds]; [discriminate|].
    cbn [forallb] in Hd. apply andb_true_iff in Hd. destruct Hd as [Hd _].
    destruct (Hword (d :: ds)) as (A & B & C & D & E); [cbn; apply digit_is_word; auto|].
    repeat split; auto; try (intro X; destruct (D X)).
  - simpl in H. destruct (Hword s (Hgood s H)) as (A & B & C & D & E).
    repeat split; auto; try (intro X; destruct (D X)).
  - simpl in H. apply andb_true_iff in H. destruct H as [Hx _].
    pose proof (Hgood x Hx) as Hh. destruct x as [|c x]; [discriminate|].
    destruct (Hword (c :: x ++ dots attrs)) as (A & B & C & D & E); [exact Hh|].
    cbn [app]. repeat split; auto; try (intro X; destruct (D X)).
Qed.

Lemma hd_blank_facts : forall b rest, forallb is_blank b = true -> b <> [] ->
  hd_is is_word (b ++ rest) = false /\ hd_is is_quote (b ++ rest) = false
  /\ hd_is (N.eqb 46) (b ++ rest) = false /\ hd_is cmpchar (b ++ rest) = false.
Proof.
  intros b rest H Hne. destruct b as [|c b]; [congruence|]. cbn [app hd_is].
  cbn [forallb] in H. apply andb_true_iff in H. destruct H as [Hc _].
  apply blank_cases in Hc. destruct Hc; subst; repeat split; reflexivity.
Qed.

Lemma sep_from_adm : forall rs ps a t b pcs,
  adm ((a, t, b) :: pcs) = true -> forallb (wf_tok rs ps) (toks pcs) = true ->
  sepcond t (b ++ render_pieces pcs).
Proof.
  intros rs ps a t b pcs Hadm Hwf.
  destruct (adm_cons _ _ _ _ Hadm) as (Ha & Hb & Hr & Hgap).
  destruct b as [|c b].
  2:{ destruct (hd_blank_facts (c :: b) (render_pieces pcs) Hb) as (A & B & C & D); [discriminate|].
      split; intros; auto. }
  cbn [app]. destruct pcs as [|[[a' t'] b'] r].
  { split; intros; repeat split; reflexivity. }
  rewrite render_cons. destruct (adm_cons _ _ _ _ Hr) as (Ha' & _).
  destruct a' as [|c a'].
  2:{ destruct (hd_blank_facts (c :: a') (text t' ++ b' ++ render_pieces r) Ha') as (A & B & C & D);
        [discriminate|]. split; intros; auto. }
  cbn [app]. cbn [toks map tok_of fst snd forallb] in Hwf. apply andb_true_iff in Hwf. destruct Hwf as [Hwt _].
  pose proof (text_nonempty rs ps t' Hwt) as Hne.
  unfold sepcond. rewrite !hd_is_app_nonempty by auto.
  destruct (hd_text_facts rs ps t' Hwt) as (A & B & C & D & _).
  unfold gap_ok in Hgap. cbn [app nonempty orb] in Hgap.
  apply andb_true_iff in Hgap. destruct Hgap as [G1 G2].
  split.
  - intro Hew. rewrite Hew in G1. cbn [andb] in G1. apply negb_true_iff in G1.
    apply orb_false_iff in G1. destruct G1 as [G1a G1b]. rewrite A, B, C. auto.
  - intro Hcm. assert (Hop : opish t = true) by (destruct t; auto; discriminate).
    rewrite Hop in G2. cbn [andb] in G2. apply negb_true_iff in G2.
    destruct (hd_is cmpchar (text t')) eqn:E; auto. rewrite (D eq_refl) in G2. discriminate.
Qed.

Theorem lex_render : forall rs ps pcs,
  adm pcs = true -> forallb (wf_tok rs ps) (toks pcs) = true -> forallb py_tok (toks pcs) = true ->
  L (render_pieces pcs) = Some (flat_map tr (toks pcs)).
Proof.
  intros rs ps. induction pcs as [|[[a t] b] pcs IH]; intros Hadm Hwf Hpy.
  - reflexivity.
  - pose proof (sep_from_adm rs ps a t b pcs Hadm) as Hsep.
    cbn [toks map tok_of fst snd forallb] in *. apply andb_true_iff in Hwf. destruct Hwf as [Hwt Hwf].
    apply andb_true_iff in Hpy. destruct Hpy as [Hpt Hpy].
    destruct (adm_cons _ _ _ _ Hadm) as (Ha & Hb & Hr & Hgap).
    rewrite render_cons. rewrite L_blanks by auto.
    rewrite (L_text rs ps) by auto.
    rewrite L_blanks by auto. unfold toks in IH. rewrite IH by auto. reflexivity.
Qed.

(* ====================================================================== str.strip() on rendered pieces *)
Lemma drop_while_app : forall p x s, forallb p x = true -> hd_is p s = false ->
  drop_while p (x ++ s) = s.
Proof.
  induction x as [|c x IH]; simpl; intros s H Hs.
  - destruct s as [|d s]; auto. simpl in *. rewrite Hs. reflexivity.
  - apply andb_true_iff in H. destruct H as [Hc Hx]. rewrite Hc. apply IH; auto.
Qed.

Lemma forallb_rev : forall {A} (p : A -> bool) l, forallb p (rev l) = forallb p l.
Proof.
  induction l as [|x l IH]; simpl; auto. rewrite forallb_app_iff, IH. simpl.
  rewrite andb_true_r. apply andb_comm.
Qed.

Lemma lastc_rev : forall M p, lastc M p = match rev M with d :: _ => Some d | [] => p end.
Proof.
  induction M as [|c M IH]; intros p; simpl; auto.
  rewrite IH. destruct (rev M); reflexivity.
Qed.

Lemma strip_spec : forall x M y d, forallb is_space x = true -> forallb is_space y = true ->
  hd_is is_space M = false -> lastc M None = Some d -> is_space d = false ->
  strip (x ++ M ++ y) = M.
Proof.
  intros x M y d Hx Hy Hh Hl Hd. unfold strip.
  assert (Hne : M <> []) by (destruct M; [discriminate Hl | discriminate]).
  rewrite drop_while_app; auto.
  2:{ rewrite hd_is_app_nonempty; auto. }
  rewrite rev_app_distr. rewrite drop_while_app.
  - apply rev_involutive.
  - rewrite forallb_rev. exact Hy.
  - rewrite lastc_rev in Hl. destruct (rev M) as [|e l]; [discriminate|].
    inversion Hl; subst. exact Hd.
Qed.

Definition trimL (pcs : list piece) : list piece :=
  match pcs with (a, t, b) :: r => ([], t, b) :: r | [] => [] end.
Fixpoint trimR (pcs : list piece) : list piece :=
  match pcs with
  | [] => []
  | [(a, t, b)] => [(a, t, [])]
  | p :: r => p :: trimR r
  end.
Fixpoint last_post (pcs : list piece) : str :=
  match pcs with
  | [] => []
  | [(a, t, b)] => b
  | p :: r => last_post r
  end.

Lemma render_trimR : forall pcs, render_pieces pcs = render_pieces (trimR pcs) ++ last_post pcs.
Proof.
  induction pcs as [|[[a t] b] pcs IH]; auto.
  destruct pcs as [|p r].
  - cbn [trimR last_post]. rewrite !render_cons. unfold render_pieces. simpl.
    rewrite <- !app_assoc. rewrite !app_nil_r. reflexivity.
  - change (trimR ((a, t, b) :: p :: r)) with ((a, t, b) :: trimR (p :: r)).
    change (last_post ((a, t, b) :: p :: r)) with (last_post (p :: r)).
    rewrite !render_cons. rewrite IH. rewrite <- !app_assoc. reflexivity.
Qed.

Lemma toks_trimR : forall pcs, toks (trimR pcs) = toks pcs.
Proof.
  induction pcs as [|[[a t] b] pcs IH]; auto. destruct pcs as [|p r]; auto.
  change (trimR ((a, t, b) :: p :: r)) with ((a, t, b) :: trimR (p :: r)).
  unfold toks in *. cbn [map]. rewrite IH. reflexivity.
Qed.

Lemma last_post_blank : forall pcs, adm pcs = true -> forallb is_blank (last_post pcs) = true.
Proof.
  induction pcs as [|[[a t] b] pcs IH]; auto. intro H.
  destruct (adm_cons _ _ _ _ H) as (Ha & Hb & Hr & _).
  destruct pcs as [|p r]; auto.
Qed.

Lemma adm_trimR : forall pcs, adm pcs = true -> adm (trimR pcs) = true.
Proof.
  induction pcs as [|[[a t] b] pcs IH]; auto. intro H.
  destruct (adm_cons _ _ _ _ H) as (Ha & Hb & Hr & Hg).
  destruct pcs as [|[[a' t'] b'] r].
  - cbn [trimR]. apply adm_intro; auto.
  - change (trimR ((a, t, b) :: (a', t', b') :: r)) with ((a, t, b) :: trimR ((a', t', b') :: r)).
    specialize (IH Hr). apply adm_intro; auto.
    destruct r as [|p r']; cbn [trimR]; auto.
Qed.

Lemma trimR_last : forall rs ps pcs p, pcs <> [] -> forallb (wf_tok rs ps) (toks pcs) = true ->
  exists t, wf_tok rs ps t = true
            /\ lastc (render_pieces (trimR pcs)) p = lastc (text t) None.
Proof.
  intros rs ps. induction pcs as [|[[a t] b] pcs IH]; intros p Hne Hwf; [congruence|].
  cbn [toks map tok_of fst snd forallb] in Hwf. apply andb_true_iff in Hwf. destruct Hwf as [Hwt Hwf].
  destruct pcs as [|q r].
  - exists t. split; auto. cbn [trimR]. rewrite render_cons. norm_lastc.
    unfold render_pieces. cbn [flat_map lastc]. apply lastc_nonempty. eapply text_nonempty; eauto.
  - change (trimR ((a, t, b) :: q :: r)) with ((a, t, b) :: trimR (q :: r)).
    rewrite render_cons. norm_lastc. apply IH; auto. discriminate.
Qed.

Lemma lastc_text_nonspace : forall rs ps t, wf_tok rs ps t = true ->
  exists d, lastc (text t) None = Some d /\ is_space d = false.
Proof.
  intros rs ps t H.
  destruct (ends_word t) eqn:E.
  - pose proof (ends_word_spec rs ps t None H) as Hs. rewrite E in Hs.
    destruct (lastc (text t) None) as [d|]; [|discriminate]. exists d. split; auto.
    apply (word_char_facts d). exact Hs.
  - destruct t; try discriminate E; try discriminate H; cbn [text];
      try (eexists; split; [reflexivity | reflexivity]).
    + destruct c; eexists; split; reflexivity.
    + norm_lastc. eexists; split; reflexivity.
    + norm_lastc. destruct dq; eexists; split; reflexivity.
    + norm_lastc. eexists; split; reflexivity.
Qed.

Theorem strip_render : forall rs ps pcs, pcs <> [] ->
  adm pcs = true -> forallb (wf_tok rs ps) (toks pcs) = true ->
  strip (render_pieces pcs) = render_pieces (trimL (trimR pcs))
  /\ render_pieces (trimL (trimR pcs)) <> []
  /\ adm (trimL (trimR pcs)) = true /\ toks (trimL (trimR pcs)) = toks pcs.
Proof.
  intros rs ps pcs Hne Hadm Hwf.
  pose proof (adm_trimR _ Hadm) as HadmR.
  pose proof (toks_trimR pcs) as HtR.
  destruct (trimR_last rs ps pcs None Hne Hwf) as (tl & Hwl & Hlast).
  destruct (trimR pcs) as [|[[a t] b] r] eqn:ER.
  { destruct pcs as [|[[a t] b] [|q r]]; [congruence | discriminate ER | discriminate ER]. }
  cbn [trimL].
  destruct (adm_cons _ _ _ _ HadmR) as (Ha & Hb & Hr & Hg).
  assert (Hwt : wf_tok rs ps t = true).
  { rewrite <- HtR in Hwf. cbn [toks map tok_of fst snd forallb] in Hwf.
    apply andb_true_iff in Hwf. destruct Hwf; auto. }
  destruct (lastc_text_nonspace rs ps tl Hwl) as (d & Hd1 & Hd2).
  repeat split.
  - rewrite render_trimR, ER. rewrite !render_cons. rewrite <- app_assoc. cbn [app].
    apply (strip_spec a _ _ d).
    + rewrite forallb_forall in *. intros c Hc. apply blank_is_space. auto.
    + pose proof (last_post_blank _ Hadm) as Hlp. rewrite forallb_forall in *.
      intros c Hc. apply blank_is_space. auto.
    + rewrite hd_is_app_nonempty by (eapply text_nonempty; eauto).
      apply (hd_text_facts rs ps t Hwt).
    + rewrite render_cons in Hlast. rewrite lastc_app in Hlast.
      rewrite <- Hd1, <- Hlast. apply lastc_nonempty.
      pose proof (text_nonempty rs ps t Hwt). destruct (text t); [congruence | discriminate].
    + exact Hd2.
  - rewrite render_cons. cbn [app]. pose proof (text_nonempty rs ps t Hwt).
    destruct (text t); [congruence | discriminate].
  - apply adm_intro; auto.
  - rewrite <- HtR. reflexivity.
Qed.

(* ====================================================================== assembling the pipeline *)
Lemma text_no_hash : forall rs ps t, forallb is_digit rs = true -> forallb is_digit ps = true ->
  wf_tok rs ps t = true -> forallb (fun c => negb (c =? 35)) (text t) = true.
Proof.
  intros rs ps t Hrs Hps H. destruct (op_tok t) eqn:E.
  - destruct t; try discriminate E; try reflexivity. destruct c; try discriminate E; reflexivity.
  - apply plain_no; [reflexivity|]. apply (text_plain rs ps); auto.
Qed.

Lemma render_no_hash : forall rs ps pcs, forallb is_digit rs = true -> forallb is_digit ps = true ->
  adm pcs = true -> forallb (wf_tok rs ps) (toks pcs) = true ->
  forallb (fun c => negb (c =? 35)) (render_pieces pcs) = true.
Proof.
  intros rs ps pcs Hrs Hps. induction pcs as [|[[a t] b] pcs IH]; intros Hadm Hwf; auto.
  cbn [toks map tok_of fst snd forallb] in Hwf. apply andb_true_iff in Hwf. destruct Hwf as [Hwt Hwf].
  destruct (adm_cons _ _ _ _ Hadm) as (Ha & Hb & Hr & _).
  rewrite render_cons. rewrite !forallb_app_iff.
  rewrite (text_no_hash rs ps t), IH by auto.
  rewrite !(plain_no 35) by (auto using plain_blanks). reflexivity.
Qed.

Lemma find_char_none : forall c s, forallb (fun x => negb (x =? c)) s = true -> find_char c s = None.
Proof.
  induction s as [|x s IH]; simpl; auto. intro H. apply andb_true_iff in H. destruct H as [Hx Hs].
  apply negb_true_iff in Hx. rewrite Hx. rewrite IH; auto.
Qed.

Lemma find_char_at : forall c s r, forallb (fun x => negb (x =? c)) s = true ->
  find_char c (s ++ c :: r) = Some (length s).
Proof.
  induction s as [|x s IH]; simpl; intros r H.
  - rewrite N.eqb_refl. reflexivity.
  - apply andb_true_iff in H. destruct H as [Hx Hs]. apply negb_true_iff in Hx. rewrite Hx.
    rewrite IH; auto.
Qed.

Lemma toks_pad : forall sel kw pcs,
  toks (map (pad_piece sel kw) pcs) = map (fun t => if sel t then kw else t) (toks pcs).
Proof.
  induction pcs as [|[[a t] b] pcs IH]; auto. unfold toks in *. cbn [map]. rewrite IH.
  unfold pad_piece, tok_of. cbn [fst snd]. destruct (sel t); reflexivity.
Qed.

Lemma toks_kw : forall pcs, toks (kw_pieces pcs) = map kw_tok (toks pcs).
Proof.
  intros. unfold kw_pieces. rewrite !toks_pad. rewrite !map_map. apply map_ext.
  intro t. destruct t; reflexivity.
Qed.

Lemma toks_esc : forall pcs, toks (esc_pieces pcs) = map esc_tok (toks pcs).
Proof. intros. unfold esc_pieces. apply toks_map_pm. Qed.

Lemma final_py : forall t, casbin_tok t = true -> eval_tok t = false ->
  py_tok (kw_tok (esc_tok t)) = true.
Proof. intros t H1 H2. destruct t; try discriminate; reflexivity. Qed.

Lemma final_tr : forall t, casbin_tok t = true -> tr (kw_tok (esc_tok t)) = tr t.
Proof. intros t H. destruct t; try discriminate; reflexivity. Qed.

Lemma flat_map_tr_final : forall ts, forallb casbin_tok ts = true ->
  flat_map tr (map kw_tok (map esc_tok ts)) = flat_map tr ts.
Proof.
  induction ts as [|t ts IH]; simpl; auto. intro H. apply andb_true_iff in H. destruct H as [Ht Hts].
  rewrite final_tr, IH; auto.
Qed.

Lemma esc_tok_classes : forall t,
  starts_word (esc_tok t) = starts_word t /\ ends_word (esc_tok t) = ends_word t
  /\ starts_quote (esc_tok t) = starts_quote t /\ is_cmp (esc_tok t) = is_cmp t
  /\ opish (esc_tok t) = opish t.
Proof. intro t. destruct t; simpl; auto. Qed.

Lemma wf_esc_pieces : forall rs ps pcs, forallb is_digit rs = true -> forallb is_digit ps = true ->
  forallb (wf_tok rs ps) (toks pcs) = true -> forallb (wf_tok rs ps) (toks (esc_pieces pcs)) = true.
Proof.
  intros. rewrite esc_pieces_eq. apply wf_map; auto. apply wf_map; auto.
Qed.

Lemma adm_kw : forall pcs, adm pcs = true -> adm (kw_pieces pcs) = true.
Proof. intros. unfold kw_pieces. repeat apply adm_pad; auto. Qed.

Lemma wf_kw : forall rs ps pcs, forallb (wf_tok rs ps) (toks pcs) = true ->
  forallb (wf_tok rs ps) (toks (kw_pieces pcs)) = true.
Proof. intros. unfold kw_pieces. repeat apply wf_pad; auto. Qed.

(* any admissible, well-formed, already escaped piece list: the three rewrites + strip + py_lex *)
Theorem expression_tokens : forall rs ps pcs,
  forallb is_digit rs = true -> forallb is_digit ps = true -> pcs <> [] ->
  adm pcs = true -> forallb (wf_tok rs ps) (toks pcs) = true ->
  forallb py_tok (map kw_tok (toks pcs)) = true ->
  py_tokens (get_expression (render_pieces pcs)) = Some (flat_map tr (map kw_tok (toks pcs))).
Proof.
  intros rs ps pcs Hrs Hps Hne Hadm Hwf Hpy.
  rewrite (get_expression_render rs ps) by auto.
  assert (Hne' : kw_pieces pcs <> []).
  { unfold kw_pieces. destruct pcs; [congruence|]. discriminate. }
  destruct (strip_render rs ps (kw_pieces pcs) Hne' (adm_kw _ Hadm) (wf_kw rs ps _ Hwf))
    as (Hs & Hn & Ha & Ht).
  unfold py_tokens. rewrite Hs.
  destruct (render_pieces (trimL (trimR (kw_pieces pcs)))) eqn:E; [congruence|].
  rewrite <- E. change py_lex with L.
  rewrite (lex_render rs ps); auto.
  - rewrite Ht, toks_kw. reflexivity.
  - rewrite Ht. apply wf_kw; auto.
  - rewrite Ht, toks_kw. exact Hpy.
Qed.

Lemma forallb_map : forall {A B} (f : A -> B) (p : B -> bool) l,
  forallb p (map f l) = forallb (fun x => p (f x)) l.
Proof. induction l; simpl; auto. rewrite IHl. reflexivity. Qed.

Theorem pipeline_pieces : forall rs ps pcs,
  forallb is_digit rs = true -> forallb is_digit ps = true -> pcs <> [] ->
  adm pcs = true -> forallb (wf_tok rs ps) (toks pcs) = true ->
  forallb casbin_tok (toks pcs) = true -> existsb eval_tok (toks pcs) = false ->
  py_tokens (pipeline (render_pieces pcs)) = Some (flat_map tr (toks pcs)).
Proof.
  intros rs ps pcs Hrs Hps Hne Hadm Hwf Hcb Hev.
  unfold pipeline, stored_value.
  rewrite (escape_render rs ps) by auto.
  assert (Ha2 : adm (esc_pieces pcs) = true).
  { unfold esc_pieces. rewrite adm_pm; auto. apply esc_tok_classes. }
  pose proof (wf_esc_pieces rs ps pcs Hrs Hps Hwf) as Hw2.
  unfold remove_comments. rewrite find_char_none by (apply (render_no_hash rs ps); auto).
  rewrite (expression_tokens rs ps); auto.
  - rewrite toks_esc. rewrite flat_map_tr_final; auto.
  - unfold esc_pieces. destruct pcs; [congruence | discriminate].
  - rewrite toks_esc, !forallb_map. rewrite forallb_forall in *. intros t Ht.
    apply final_py; auto.
    destruct (eval_tok t) eqn:E; auto.
    assert (X : existsb eval_tok (toks pcs) = true) by (apply existsb_exists; eauto). congruence.
Qed.

Lemma toks_mk_pieces : forall ts ws, length ws = length ts -> toks (mk_pieces ts ws) = ts.
Proof.
  induction ts as [|t ts IH]; intros ws H; destruct ws as [|w ws]; simpl in *; try discriminate; auto.
  unfold toks, mk_pieces in *. cbn [combine map tok_of fst snd]. rewrite IH; auto.
Qed.

(* THE theorem, in the (token list, layout) form *)
Theorem pipeline_tokens : forall rs ps ts ws,
  ts <> [] -> wf_tokens rs ps ts = true -> existsb eval_tok ts = false ->
  admissible ts ws = true ->
  py_tokens (pipeline (render ts ws)) = Some (flat_map tr ts).
Proof.
  intros rs ps ts ws Hne Hwf Hev Hadm.
  unfold wf_tokens in Hwf. apply andb_true_iff in Hwf. destruct Hwf as [Hwf Hts].
  apply andb_true_iff in Hwf. destruct Hwf as [Hrs Hps].
  unfold admissible in Hadm. apply andb_true_iff in Hadm. destruct Hadm as [Hlen Hadm].
  apply Nat.eqb_eq in Hlen.
  pose proof (toks_mk_pieces ts ws Hlen) as Ht.
  unfold render. rewrite <- Ht at 2.
  apply (pipeline_pieces rs ps); auto; rewrite ?Ht; auto.
  - intro E. rewrite E in Ht. simpl in Ht. congruence.
  - rewrite forallb_forall in *. intros t Hin. specialize (Hts t Hin).
    apply andb_true_iff in Hts. destruct Hts; auto.
  - rewrite forallb_forall in *. intros t Hin. specialize (Hts t Hin).
    apply andb_true_iff in Hts. destruct Hts; auto.
Qed.

(* ====================================================================== trailing # comment *)
Lemma firstn_exact : forall {A} (x y : list A), firstn (length x) (x ++ y) = x.
Proof. induction x; simpl; intros; auto. rewrite IHx. reflexivity. Qed.

Lemma toks_trim : forall pcs, toks (trimL (trimR pcs)) = toks pcs.
Proof.
  intros. rewrite <- (toks_trimR pcs). destruct (trimR pcs) as [|[[a t] b] r]; reflexivity.
Qed.

(* the value stored for   <expr> # comment   is the stripped, escaped <expr> *)
Theorem stored_value_comment : forall rs ps pcs c,
  forallb is_digit rs = true -> forallb is_digit ps = true -> pcs <> [] ->
  adm pcs = true -> forallb (wf_tok rs ps) (toks pcs) = true ->
  stored_value (render_pieces pcs ++ 35 :: c) = render_pieces (trimL (trimR (esc_pieces pcs))).
Proof.
  intros rs ps pcs c Hrs Hps Hne Hadm Hwf. unfold stored_value.
  destruct (escape_render_comment rs ps pcs c Hrs Hps Hadm Hwf) as [c' E]. rewrite E.
  assert (Ha2 : adm (esc_pieces pcs) = true).
  { unfold esc_pieces. rewrite adm_pm; auto. apply esc_tok_classes. }
  pose proof (wf_esc_pieces rs ps pcs Hrs Hps Hwf) as Hw2.
  unfold remove_comments. rewrite find_char_at by (apply (render_no_hash rs ps); auto).
  rewrite firstn_exact.
  apply (strip_render rs ps); auto.
  unfold esc_pieces. destruct pcs; [congruence | discriminate].
Qed.

Theorem comment_pieces : forall rs ps pcs c,
  forallb is_digit rs = true -> forallb is_digit ps = true -> pcs <> [] ->
  adm pcs = true -> forallb (wf_tok rs ps) (toks pcs) = true ->
  forallb casbin_tok (toks pcs) = true -> existsb eval_tok (toks pcs) = false ->
  py_tokens (pipeline (render_pieces pcs ++ 35 :: c)) = Some (flat_map tr (toks pcs)).
Proof.
  intros rs ps pcs c Hrs Hps Hne Hadm Hwf Hcb Hev. unfold pipeline.
  rewrite (stored_value_comment rs ps) by auto.
  assert (Ha2 : adm (esc_pieces pcs) = true).
  { unfold esc_pieces. rewrite adm_pm; auto. apply esc_tok_classes. }
  pose proof (wf_esc_pieces rs ps pcs Hrs Hps Hwf) as Hw2.
  assert (Hne2 : esc_pieces pcs <> []).
  { unfold esc_pieces. destruct pcs; [congruence | discriminate]. }
  destruct (strip_render rs ps (esc_pieces pcs) Hne2 Ha2 Hw2) as (_ & Hn & Ha3 & Ht3).
  rewrite (expression_tokens rs ps); auto.
  - rewrite Ht3, toks_esc. rewrite flat_map_tr_final; auto.
  - intro E. rewrite E in Hn. apply Hn. reflexivity.
  - rewrite Ht3. exact Hw2.
  - rewrite Ht3, toks_esc, !forallb_map. rewrite forallb_forall in *. intros t Ht.
    apply final_py; auto.
    destruct (eval_tok t) eqn:E; auto.
    assert (X : existsb eval_tok (toks pcs) = true) by (apply existsb_exists; eauto). congruence.
Qed.

Theorem comment_strip : forall rs ps ts ws c,
  ts <> [] -> wf_tokens rs ps ts = true -> existsb eval_tok ts = false ->
  admissible ts ws = true ->
  py_tokens (pipeline (render ts ws ++ 35 :: c)) = Some (flat_map tr ts).
Proof.
  intros rs ps ts ws c Hne Hwf Hev Hadm.
  unfold wf_tokens in Hwf. apply andb_true_iff in Hwf. destruct Hwf as [Hwf Hts].
  apply andb_true_iff in Hwf. destruct Hwf as [Hrs Hps].
  unfold admissible in Hadm. apply andb_true_iff in Hadm. destruct Hadm as [Hlen Hadm].
  apply Nat.eqb_eq in Hlen.
  pose proof (toks_mk_pieces ts ws Hlen) as Ht.
  unfold render. rewrite <- Ht at 2.
  apply (comment_pieces rs ps); auto; rewrite ?Ht; auto.
  - intro E. rewrite E in Ht. simpl in Ht. congruence.
  - rewrite forallb_forall in *. intros t Hin. specialize (Hts t Hin).
    apply andb_true_iff in Hts. destruct Hts; auto.
  - rewrite forallb_forall in *. intros t Hin. specialize (Hts t Hin).
    apply andb_true_iff in Hts. destruct Hts; auto.
Qed.

(* ====================================================================== escape_assertion touches r. / p. only *)
Lemma esc_tok_other : forall t,
  match t with TReq _ _ _ | TPol _ _ | TEval _ _ => False | _ => True end -> esc_tok t = t.
Proof. intros t H. destruct t; auto; contradiction. Qed.

Theorem escape_only_rp : forall rs ps ts ws,
  wf_tokens rs ps ts = true -> admissible ts ws = true ->
  escape_assertion (render ts ws) = render (map esc_tok ts) ws.
Proof.
  intros rs ps ts ws Hwf Hadm.
  unfold wf_tokens in Hwf. apply andb_true_iff in Hwf. destruct Hwf as [Hwf Hts].
  apply andb_true_iff in Hwf. destruct Hwf as [Hrs Hps].
  unfold admissible in Hadm. apply andb_true_iff in Hadm. destruct Hadm as [Hlen Hadm].
  apply Nat.eqb_eq in Hlen. unfold render.
  rewrite (escape_render rs ps); auto.
  - f_equal. unfold esc_pieces, mk_pieces. clear. revert ws.
    induction ts as [|t ts IH]; intros [|w ws]; simpl; auto. rewrite IH. reflexivity.
  - rewrite toks_mk_pieces by auto. rewrite forallb_forall in *. intros t Hin.
    specialize (Hts t Hin). apply andb_true_iff in Hts. destruct Hts; auto.
Qed.

(* ====================================================================== from the AST to the token hypotheses *)
Section ExprInd.
  Variable P : expr -> Prop.
  Hypothesis H_or : forall a b, P a -> P b -> P (EOr a b).
  Hypothesis H_and : forall a b, P a -> P b -> P (EAnd a b).
  Hypothesis H_not : forall a, P a -> P (ENot a).
  Hypothesis H_cmp : forall op a b, P a -> P b -> P (ECmp op a b).
  Hypothesis H_in : forall a items brk, P a -> Forall P items -> P (EIn a items brk).
  Hypothesis H_call : forall f args, Forall P args -> P (ECall f args).
  Hypothesis H_eval : forall sfx f, P (EEval sfx f).
  Hypothesis H_par : forall e, P e -> P (EPar e).
  Hypothesis H_req : forall sfx f attrs, P (EReq sfx f attrs).
  Hypothesis H_pol : forall sfx f, P (EPol sfx f).
  Hypothesis H_var : forall x attrs, P (EVar x attrs).
  Hypothesis H_str : forall dq s, P (EStr dq s).
  Hypothesis H_int : forall ds, P (EInt ds).

  Fixpoint expr_ind_nested (e : expr) : P e :=
    let go := (fix go (l : list expr) : Forall P l :=
                 match l with
                 | [] => Forall_nil P
                 | x :: r => Forall_cons x (expr_ind_nested x) (go r)
                 end) in
    match e with
    | EOr a b => H_or a b (expr_ind_nested a) (expr_ind_nested b)
    | EAnd a b => H_and a b (expr_ind_nested a) (expr_ind_nested b)
    | ENot a => H_not a (expr_ind_nested a)
    | ECmp op a b => H_cmp op a b (expr_ind_nested a) (expr_ind_nested b)
    | EIn a items brk => H_in a items brk (expr_ind_nested a) (go items)
    | ECall f args => H_call f args (go args)
    | EEval sfx f => H_eval sfx f
    | EPar e' => H_par e' (expr_ind_nested e')
    | EReq sfx f attrs => H_req sfx f attrs
    | EPol sfx f => H_pol sfx f
    | EVar x attrs => H_var x attrs
    | EStr dq s => H_str dq s
    | EInt ds => H_int ds
    end.
End ExprInd.

Definition tok_ok (rs ps : str) (t : tok) : bool := wf_tok rs ps t && casbin_tok t.

Lemma sep_commas_ok : forall rs ps ls, Forall (fun l => forallb (tok_ok rs ps) l = true) ls ->
  forallb (tok_ok rs ps) (sep_commas ls) = true.
Proof.
  intros rs ps ls H. induction H as [|l ls Hl Hls IH]; auto.
  destruct ls as [|l2 ls']; [exact Hl|].
  change (sep_commas (l :: l2 :: ls')) with (l ++ TComma :: sep_commas (l2 :: ls')).
  rewrite forallb_app_iff, Hl. cbn [forallb]. rewrite IH. reflexivity.
Qed.

Lemma tokens_ok : forall rs ps e, names_ok rs ps e = true ->
  forallb (tok_ok rs ps) (tokens_of e) = true.
Proof.
  intros rs ps. apply (expr_ind_nested (fun e => names_ok rs ps e = true ->
                                           forallb (tok_ok rs ps) (tokens_of e) = true));
    cbn [names_ok tokens_of]; intros.
  - apply andb_true_iff in H1. destruct H1. rewrite forallb_app_iff. cbn [forallb]. rewrite H, H0; auto.
  - apply andb_true_iff in H1. destruct H1. rewrite forallb_app_iff. cbn [forallb]. rewrite H, H0; auto.
  - cbn [forallb]. rewrite H; auto.
  - apply andb_true_iff in H1. destruct H1. rewrite forallb_app_iff. cbn [forallb]. rewrite H, H0; auto.
  - apply andb_true_iff in H1. destruct H1 as [Ha Hi].
    rewrite forallb_app_iff, H by auto. cbn [forallb andb].
    assert (X : forallb (tok_ok rs ps) (sep_commas (map tokens_of items)) = true).
    { apply sep_commas_ok. rewrite forallb_forall in Hi. rewrite Forall_forall in *.
      intros l Hl. apply in_map_iff in Hl. destruct Hl as (x & <- & Hx). apply H0; auto. }
    replace (tok_ok rs ps TIn) with true by reflexivity.
    replace (tok_ok rs ps (if brk then TLB else TLP)) with true by (destruct brk; reflexivity).
    cbn [andb]. rewrite forallb_app_iff, X. destruct brk; reflexivity.
  - apply andb_true_iff in H0. destruct H0 as [Hf Ha]. cbn [forallb].
    unfold tok_ok at 1. cbn [wf_tok casbin_tok]. rewrite Hf. cbn [andb].
    replace (tok_ok rs ps TLP) with true by reflexivity. cbn [andb].
    rewrite forallb_app_iff. rewrite sep_commas_ok; [reflexivity|].
    rewrite forallb_forall in Ha. rewrite Forall_forall in *.
    intros l Hl. apply in_map_iff in Hl. destruct Hl as (x & <- & Hx). apply H; auto.
  - cbn [forallb]. unfold tok_ok. cbn [wf_tok casbin_tok]. rewrite H. reflexivity.
  - cbn [forallb]. rewrite forallb_app_iff, H by auto. reflexivity.
  - cbn [forallb]. unfold tok_ok. cbn [wf_tok casbin_tok]. rewrite H. reflexivity.
  - cbn [forallb]. unfold tok_ok. cbn [wf_tok casbin_tok]. rewrite H. reflexivity.
  - discriminate.
  - cbn [forallb]. unfold tok_ok. cbn [wf_tok casbin_tok]. rewrite H. reflexivity.
  - cbn [forallb]. unfold tok_ok. cbn [wf_tok casbin_tok]. rewrite H. reflexivity.
Qed.

Lemma sep_commas_eval : forall ls, Forall (fun l => existsb eval_tok l = false) ls ->
  existsb eval_tok (sep_commas ls) = false.
Proof.
  intros ls H. induction H as [|l ls Hl Hls IH]; auto.
  destruct ls as [|l2 ls']; [exact Hl|].
  change (sep_commas (l :: l2 :: ls')) with (l ++ TComma :: sep_commas (l2 :: ls')).
  rewrite existsb_app, Hl. cbn [existsb eval_tok orb]. exact IH.
Qed.

Lemma tokens_no_eval : forall e, has_eval_expr e = false -> existsb eval_tok (tokens_of e) = false.
Proof.
  apply (expr_ind_nested (fun e => has_eval_expr e = false -> existsb eval_tok (tokens_of e) = false));
    cbn [has_eval_expr tokens_of]; intros; auto.
  - apply orb_false_iff in H1. destruct H1. rewrite existsb_app. cbn [existsb eval_tok orb]. rewrite H, H0; auto.
  - apply orb_false_iff in H1. destruct H1. rewrite existsb_app. cbn [existsb eval_tok orb]. rewrite H, H0; auto.
  - apply orb_false_iff in H1. destruct H1. rewrite existsb_app. cbn [existsb eval_tok orb]. rewrite H, H0; auto.
  - apply orb_false_iff in H1. destruct H1 as [Ha Hi]. rewrite existsb_app, H by auto.
    cbn [existsb eval_tok orb].
    replace (eval_tok (if brk then TLB else TLP)) with false by (destruct brk; reflexivity).
    cbn [orb]. rewrite existsb_app. rewrite sep_commas_eval.
    + destruct brk; reflexivity.
    + rewrite Forall_forall in *. intros l Hl. apply in_map_iff in Hl. destruct Hl as (x & <- & Hx).
      apply H0; auto. destruct (has_eval_expr x) eqn:E; auto.
      assert (existsb has_eval_expr items = true) by (apply existsb_exists; eauto). congruence.
  - cbn [existsb eval_tok orb]. rewrite existsb_app. rewrite sep_commas_eval; [reflexivity|].
    rewrite Forall_forall in *. intros l Hl. apply in_map_iff in Hl. destruct Hl as (x & <- & Hx).
    apply H; auto. destruct (has_eval_expr x) eqn:E; auto.
    assert (existsb has_eval_expr args = true) by (apply existsb_exists; eauto). congruence.
  - cbn [existsb eval_tok orb]. rewrite existsb_app, H by auto. reflexivity.
Qed.

Lemma tokens_nonempty : forall e, tokens_of e <> [].
Proof.
  induction e; cbn [tokens_of]; try discriminate;
    try (intro X; apply app_eq_nil in X; destruct X as [_ X]; discriminate).
Qed.

(* pipeline_tokens for the tokens of an AST whose names and literals are well-formed *)
Theorem pipeline_tokens_ast : forall rs ps e ws,
  forallb is_digit rs = true -> forallb is_digit ps = true ->
  names_ok rs ps e = true -> has_eval_expr e = false -> admissible (tokens_of e) ws = true ->
  py_tokens (pipeline (render (tokens_of e) ws)) = Some (flat_map tr (tokens_of e)).
Proof.
  intros rs ps e ws Hrs Hps Hn He Ha.
  apply (pipeline_tokens rs ps); auto.
  - apply tokens_nonempty.
  - unfold wf_tokens. rewrite Hrs, Hps. apply (tokens_ok rs ps e Hn).
  - apply tokens_no_eval; auto.
Qed.

(* ====================================================================== Config: backslash continuations *)
Definition last_is (c : N) (l : str) : bool := match rev l with x :: _ => x =? c | [] => false end.
(* a physical line that is neither empty, nor a comment, nor taken for a section header *)
Definition plain_line (raw : str) : bool :=
  match strip raw with
  | [] => false
  | h :: _ => negb ((h =? 35) || (h =? 59)) && negb ((h =? 91) && last_is 93 (strip raw))
  end.
Definition seg_cont (raw : str) : str := strip (removelast (strip raw)) ++ [32].
Definition with_buf (st : cfgst) (b : list str) (can : bool) : cfgst :=
  {| c_sec := c_sec st; c_buf := b; c_can := can; c_data := c_data st |}.

Lemma cfg_line_cont : forall st raw, c_can st = false -> plain_line raw = true ->
  last_is 92 (strip raw) = true ->
  cfg_line st raw = Ok (with_buf st (c_buf st ++ [seg_cont raw]) false).
Proof.
  intros st raw Hc Hp Hl. unfold cfg_line, plain_line, last_is in *. rewrite Hc. cbn [rbind].
  destruct (strip raw) as [|h l] eqn:E; [discriminate|].
  apply andb_true_iff in Hp. destruct Hp as [H1 H2]. apply negb_true_iff in H1, H2.
  rewrite H1. destruct (rev (h :: l)) as [|x r] eqn:R; [discriminate|].
  apply N.eqb_eq in Hl. subst x.
  replace ((h =? 91) && (92 =? 93)) with false by (rewrite andb_false_r; reflexivity).
  cbn [N.eqb Pos.eqb]. unfold with_buf, seg_cont. rewrite E, Hc. reflexivity.
Qed.

Lemma cfg_line_last : forall st raw, c_can st = false -> plain_line raw = true ->
  last_is 92 (strip raw) = false ->
  cfg_line st raw = Ok (with_buf st (c_buf st ++ [strip raw]) true).
Proof.
  intros st raw Hc Hp Hl. unfold cfg_line, plain_line, last_is in *. rewrite Hc. cbn [rbind].
  destruct (strip raw) as [|h l] eqn:E; [discriminate|].
  apply andb_true_iff in Hp. destruct Hp as [H1 H2]. apply negb_true_iff in H1, H2.
  rewrite H1. destruct (rev (h :: l)) as [|x r] eqn:R.
  - rewrite andb_false_r. reflexivity.
  - rewrite H2, Hl. reflexivity.
Qed.

(* k continued lines and a last line leave in the buffer the stripped segments, each continued one
   followed by exactly ONE blank; guard: no line is empty, comment-like or section-like *)
Theorem continuation_join_partial : forall conts st last, c_can st = false ->
  forallb (fun r => plain_line r && last_is 92 (strip r)) conts = true ->
  plain_line last = true -> last_is 92 (strip last) = false ->
  cfg_lines st (conts ++ [last])
  = Ok (with_buf st (c_buf st ++ map seg_cont conts ++ [strip last]) true).
Proof.
  induction conts as [|r conts IH]; intros st last Hc Hall Hp Hl.
  - cbn [app cfg_lines map]. rewrite cfg_line_last by auto. reflexivity.
  - cbn [forallb] in Hall. apply andb_true_iff in Hall. destruct Hall as [Hr Hall].
    apply andb_true_iff in Hr. destruct Hr as [Hr1 Hr2].
    cbn [app cfg_lines map]. rewrite cfg_line_cont by auto. cbn [rbind].
    rewrite IH by auto. unfold with_buf. cbn [c_sec c_buf c_data].
    rewrite <- app_assoc. reflexivity.
Qed.

(* _write: option = text before the first '=', value = text after it, both stripped *)
Lemma cfg_write_value : forall st o v, concat (c_buf st) = o ++ 61 :: v ->
  forallb (fun c => negb (c =? 61)) o = true ->
  cfg_write st = Ok {| c_sec := c_sec st; c_buf := []; c_can := c_can st;
                       c_data := ((c_sec st, strip o), strip v) :: c_data st |}.
Proof.
  intros st o v E Ho. unfold cfg_write. rewrite E.
  assert (S : split_first 61 (o ++ 61 :: v) = Some (o, v)).
  { clear E. induction o as [|c o IH]; cbn [app split_first].
    - reflexivity.
    - cbn [forallb] in Ho. apply andb_true_iff in Ho. destruct Ho as [Hc Ho].
      apply negb_true_iff in Hc. rewrite Hc, IH; auto. }
  rewrite S. destruct (o ++ 61 :: v) eqn:X; [destruct o; discriminate|]. reflexivity.
Qed.

(* the guard is needed: a continued definition whose last line is a list literal is cut *)
Definition refute_l1 : str := [109; 32; 61; 32; 114; 46; 111; 98; 106; 32; 105; 110; 32; 92].   (* m = r.obj in backslash *)
Definition refute_l2 : str := [32; 32; 91; 49; 44; 32; 50; 93].   (*   [1, 2] *)
Theorem continuation_join_refuted :
  exists conts last,
    forallb (fun r => plain_line r && last_is 92 (strip r)) conts = true
    /\ last_is 92 (strip last) = false /\ plain_line last = false
    /\ cfg_lines {| c_sec := []; c_buf := []; c_can := false; c_data := [] |} (conts ++ [last])
       <> Ok {| c_sec := []; c_buf := map seg_cont conts ++ [strip last]; c_can := true; c_data := [] |}.
Proof.
  exists [refute_l1], refute_l2. repeat split; try (vm_compute; reflexivity).
  vm_compute. intro H. discriminate H.
Qed.

(* ====================================================================== eval(): eval_reg on escaped pieces *)
Local Arguments eval_match : simpl never.

Fixpoint einert (prev : option N) (a rest : str) : Prop :=
  match a with
  | [] => True
  | c :: a' => eval_match prev (a ++ rest) = None /\ einert (Some c) a' rest
  end.

Lemma einert_app : forall a b rest prev,
  einert prev a (b ++ rest) -> einert (lastc a prev) b rest -> einert prev (a ++ b) rest.
Proof.
  induction a as [|c a IH]; simpl; intros b rest prev Ha Hb; auto.
  destruct Ha as [H1 H2]. split.
  - rewrite <- app_assoc. exact H1.
  - apply IH; auto.
Qed.

Lemma eval_match_other : forall prev c s, (c =? 101) = false -> eval_match prev (c :: s) = None.
Proof.
  intros. unfold eval_match. unfold s_eval_lp. cbn [is_prefix]. rewrite (N.eqb_sym 101 c), H.
  rewrite andb_false_r. reflexivity.
Qed.

Lemma eval_match_after_word : forall prev s, is_word_opt prev = true -> eval_match prev s = None.
Proof. intros. unfold eval_match. rewrite H. reflexivity. Qed.

Lemma einert_other : forall a rest prev, forallb (fun c => negb (c =? 101)) a = true ->
  einert prev a rest.
Proof.
  induction a as [|c a IH]; simpl; intros; auto.
  apply andb_true_iff in H. destruct H as [Hc Ha]. split; auto.
  apply negb_true_iff in Hc. apply eval_match_other; auto.
Qed.

Lemma einert_after_word : forall w rest prev, is_word_opt prev = true -> forallb is_word w = true ->
  einert prev w rest.
Proof.
  induction w as [|c w IH]; simpl; intros; auto.
  apply andb_true_iff in H0. destruct H0 as [Hc Hw]. split.
  - apply eval_match_after_word; auto.
  - apply IH; auto.
Qed.

Lemma is_prefix_eval_inv : forall x, is_prefix s_eval_lp x = true ->
  exists t, x = 101 :: 118 :: 97 :: 108 :: 40 :: t.
Proof.
  intros x H. unfold s_eval_lp in H.
  destruct x as [|c1 [|c2 [|c3 [|c4 [|c5 t]]]]]; cbn [is_prefix] in H;
    try (rewrite ?andb_false_r in H; discriminate H).
  repeat (apply andb_true_iff in H; destruct H as [?E H]).
  apply N.eqb_eq in E, E0, E1, E2, E3. subst. eexists. reflexivity.
Qed.

(* a word other than "eval", followed by a non-word character, is never taken for  eval(  *)
Lemma einert_word : forall w rest prev, forallb is_word w = true -> str_eqb w s_eval = false ->
  hd_is is_word rest = false -> einert prev w rest.
Proof.
  intros w rest prev Hw Hne Hr. destruct w as [|c w]; [exact I|].
  cbn [forallb] in Hw. apply andb_true_iff in Hw. destruct Hw as [Hc Hw]. split.
  2:{ apply einert_after_word; auto. }
  unfold eval_match. destruct (negb (is_word_opt prev)); auto. cbn [andb].
  destruct (is_prefix s_eval_lp ((c :: w) ++ rest)) eqn:E; auto. exfalso.
  apply is_prefix_eval_inv in E. destruct E as [t E].
  assert (W40 : is_word 40 = false) by reflexivity.
  destruct w as [|c2 [|c3 [|c4 [|c5 w']]]]; cbn [app] in E.
  - inversion E; subst. simpl in Hr. discriminate.
  - inversion E; subst. simpl in Hr. discriminate.
  - inversion E; subst. simpl in Hr. discriminate.
  - inversion E; subst. discriminate Hne.
  - inversion E; subst. cbn [forallb] in Hw.
    repeat (apply andb_true_iff in Hw; destruct Hw as [?X Hw]). rewrite W40 in X2. discriminate.
Qed.

Lemma good_not_eval : forall s, good_name s = true -> str_eqb s s_eval = false.
Proof.
  intros s H. destruct (good_name_facts _ H) as (_ & _ & _ & _ & _ & Hk).
  apply (mem_false_neq s s_eval py_keywords Hk). vm_compute. tauto.
Qed.

Lemma einert_good : forall s rest prev, good_name s = true -> hd_is is_word rest = false ->
  einert prev s rest.
Proof.
  intros s rest prev H Hr. destruct (good_name_facts _ H) as (_ & Hw & _).
  apply einert_word; auto. apply good_not_eval; auto.
Qed.

Lemma einert_dots : forall attrs rest prev, forallb good_name attrs = true ->
  hd_is is_word rest = false -> einert prev (dots attrs) rest.
Proof.
  induction attrs as [|a r IH]; intros rest prev H Hr; [exact I|].
  cbn [forallb] in H. apply andb_true_iff in H. destruct H as [Ha Hr'].
  cbn [dots flat_map]. fold (dots r). split.
  - apply eval_match_other. reflexivity.
  - apply einert_app.
    + apply einert_good; auto. destruct r; [exact Hr | reflexivity].
    + apply IH; auto.
Qed.

(* string literals: no '(' inside, and the closing quote is not a character of  eval(  *)
Lemma einert_suffixes : forall a rest prev,
  (forall y1 y2, a = y1 ++ y2 -> y2 <> [] -> is_prefix s_eval_lp (y2 ++ rest) = false) ->
  einert prev a rest.
Proof.
  induction a as [|c a IH]; intros rest prev H; [exact I|]. split.
  - unfold eval_match. rewrite (H [] (c :: a)); [|reflexivity|discriminate].
    rewrite andb_false_r. reflexivity.
  - apply IH. intros y1 y2 E Hne. apply (H (c :: y1) y2); auto. rewrite E. reflexivity.
Qed.

Lemma no_eval_in_quoted : forall y q rest, forallb (fun c => negb (c =? 40)) y = true ->
  is_quote q = true -> is_prefix s_eval_lp ((y ++ [q]) ++ rest) = false.
Proof.
  intros y q rest Hy Hq.
  destruct (is_prefix s_eval_lp ((y ++ [q]) ++ rest)) eqn:E; auto. exfalso.
  apply is_prefix_eval_inv in E. destruct E as [t E].
  apply quote_cases in Hq.
  destruct y as [|c1 [|c2 [|c3 [|c4 [|c5 y']]]]]; cbn [app] in E; inversion E; subst;
    try (destruct Hq; discriminate).
Qed.

Lemma suffix_of_snoc : forall {A} (s : list A) q y1 y2, s ++ [q] = y1 ++ y2 -> y2 <> [] ->
  exists y, y2 = y ++ [q] /\ s = y1 ++ y.
Proof.
  intros A s q y1 y2 E Hne.
  destruct (exists_last Hne) as (y & x & ->).
  rewrite app_assoc in E. apply app_inj_tail in E. destruct E as [E1 E2]. subst x.
  exists y. auto.
Qed.

Lemma einert_str : forall dq s rest prev, forallb lit_char s = true ->
  einert prev (quote_of dq :: s ++ [quote_of dq]) rest.
Proof.
  intros dq s rest prev Hs.
  assert (Hq : is_quote (quote_of dq) = true) by (destruct dq; reflexivity).
  assert (H40 : forallb (fun c => negb (c =? 40)) (quote_of dq :: s) = true).
  { cbn [forallb]. replace (negb (quote_of dq =? 40)) with true by (destruct dq; reflexivity).
    cbn [andb]. rewrite forallb_forall in *. intros c Hc. specialize (Hs c Hc).
    destruct (c =? 40) eqn:E; auto. apply N.eqb_eq in E. subst. discriminate. }
  apply einert_suffixes. intros y1 y2 E Hne.
  change (quote_of dq :: s ++ [quote_of dq]) with ((quote_of dq :: s) ++ [quote_of dq]) in E.
  destruct (suffix_of_snoc _ _ _ _ E Hne) as (y & -> & E2).
  apply no_eval_in_quoted; auto.
  rewrite E2 in H40. rewrite forallb_app_iff in H40. apply andb_true_iff in H40. destruct H40; auto.
Qed.

(* every escaped token except TEvalE *)
Lemma einert_tok : forall rs ps t rest prev, wf_tok rs ps t = true -> post_esc t = true ->
  eval_tok t = false -> (ends_word t = true -> hd_is is_word rest = false) ->
  einert prev (text t) rest.
Proof.
  intros rs ps t rest prev Hwf Hpe Hev Hsep.
  destruct t; try discriminate Hpe; try discriminate Hev; cbn [text];
    try (apply einert_other; reflexivity).
  - destruct c; apply einert_other; reflexivity.
  - simpl in Hwf. unfold lit_ok in Hwf. apply andb_true_iff in Hwf. destruct Hwf as [Hwf _].
    apply andb_true_iff in Hwf. destruct Hwf as [Hl _]. apply einert_str; auto.
  - simpl in Hwf. unfold digits_ok in Hwf. apply andb_true_iff in Hwf. destruct Hwf as [Hwf _].
    apply andb_true_iff in Hwf. destruct Hwf as [Hne Hd].
    destruct ds as [|d ds]; [exact I|]. cbn [forallb] in Hd. apply andb_true_iff in Hd.
    destruct Hd as [Hd Hds]. split.
    + apply eval_match_other. destruct (d =? 101) eqn:E; auto. apply N.eqb_eq in E. subst. discriminate.
    + apply einert_after_word; [apply digit_is_word; auto | apply digits_are_words; auto].
  - apply einert_good; auto.
  - simpl in Hwf. apply andb_true_iff in Hwf. destruct Hwf as [Hx Hat].
    apply einert_app.
    + apply einert_good; auto. destruct attrs; [cbn; apply Hsep; reflexivity | reflexivity].
    + apply einert_dots; auto.
Qed.

(* ---- replace_eval / get_eval_value over inert text and over an eval token *)
Lemma replace_einert : forall rules a rest prev, einert prev a rest ->
  replace_eval rules prev 0 (a ++ rest)
  = option_map (app a) (replace_eval rules (lastc a prev) 0 rest).
Proof.
  intros rules. induction a as [|c a IH]; intros rest prev H.
  - cbn [app lastc]. destruct (replace_eval rules prev 0 rest); reflexivity.
  - destruct H as [H1 H2]. cbn [app replace_eval]. cbn [app] in H1. rewrite H1.
    rewrite IH by auto. cbn [lastc]. destruct (replace_eval rules (lastc a (Some c)) 0 rest); reflexivity.
Qed.

Lemma replace_skip : forall rules a rest prev,
  replace_eval rules prev (length a) (a ++ rest) = replace_eval rules (lastc a prev) 0 rest.
Proof. intros rules. induction a as [|c a IH]; simpl; intros; auto. Qed.

Lemma names_einert : forall a rest prev, einert prev a rest ->
  get_eval_value prev 0 (a ++ rest) = get_eval_value (lastc a prev) 0 rest.
Proof.
  induction a as [|c a IH]; intros rest prev H; auto.
  destruct H as [H1 H2]. cbn [app get_eval_value]. cbn [app] in H1. rewrite H1. apply IH; auto.
Qed.

Lemma names_skip : forall a rest prev,
  get_eval_value prev (length a) (a ++ rest) = get_eval_value (lastc a prev) 0 rest.
Proof. induction a as [|c a IH]; simpl; intros; auto. Qed.

Lemma is_prefix_app : forall p s, is_prefix p (p ++ s) = true.
Proof. induction p; simpl; intros; auto. rewrite N.eqb_refl. simpl. auto. Qed.

Lemma good_no_rparen : forall x, good_name x = true -> forallb (fun c => negb (c =? 41)) x = true.
Proof.
  intros x H. destruct (good_name_facts _ H) as (_ & Hw & _).
  rewrite forallb_forall in *. intros c Hc. specialize (Hw c Hc).
  destruct (c =? 41) eqn:E; auto. apply N.eqb_eq in E. subst. discriminate.
Qed.

Lemma eval_match_hit : forall x rest prev, good_name x = true -> is_word_opt prev = false ->
  eval_match prev (s_eval_lp ++ x ++ 41 :: rest) = Some (x, (5 + length x)%nat).
Proof.
  intros x rest prev Hx Hp. unfold eval_match. rewrite Hp, is_prefix_app. cbn [negb andb].
  change (skipn 5 (s_eval_lp ++ x ++ 41 :: rest)) with (x ++ 41 :: rest).
  rewrite span_all; [reflexivity | apply good_no_rparen; auto | simpl; reflexivity].
Qed.

Lemma eval_text_split : forall x rest,
  text (TEvalE x) ++ rest = 101 :: ([118; 97; 108; 40] ++ x ++ [41]) ++ rest.
Proof. intros. cbn [text]. unfold s_eval_lp. rewrite <- !app_assoc. reflexivity. Qed.

Lemma replace_hit : forall R Rs x rest prev, good_name x = true -> is_word_opt prev = false ->
  replace_eval (R :: Rs) prev 0 (text (TEvalE x) ++ rest)
  = option_map (fun t => 40 :: R ++ 41 :: t) (replace_eval Rs (Some 41) 0 rest).
Proof.
  intros R Rs x rest prev Hx Hp.
  pose proof (eval_match_hit x rest prev Hx Hp) as Hm.
  rewrite eval_text_split. cbn [replace_eval].
  replace (101 :: ([118; 97; 108; 40] ++ x ++ [41]) ++ rest) with (s_eval_lp ++ x ++ 41 :: rest)
    by (unfold s_eval_lp; rewrite <- !app_assoc; reflexivity).
  rewrite Hm.
  replace (5 + length x)%nat with (length ([118; 97; 108; 40] ++ x ++ [41]))
    by (rewrite !app_length; simpl; lia).
  rewrite replace_skip. norm_lastc. reflexivity.
Qed.

Lemma names_hit : forall x rest prev, good_name x = true -> is_word_opt prev = false ->
  get_eval_value prev 0 (text (TEvalE x) ++ rest) = x :: get_eval_value (Some 41) 0 rest.
Proof.
  intros x rest prev Hx Hp.
  pose proof (eval_match_hit x rest prev Hx Hp) as Hm.
  rewrite eval_text_split. cbn [get_eval_value].
  replace (101 :: ([118; 97; 108; 40] ++ x ++ [41]) ++ rest) with (s_eval_lp ++ x ++ 41 :: rest)
    by (unfold s_eval_lp; rewrite <- !app_assoc; reflexivity).
  rewrite Hm.
  replace (5 + length x)%nat with (length ([118; 97; 108; 40] ++ x ++ [41]))
    by (rewrite !app_length; simpl; lia).
  rewrite names_skip. norm_lastc. reflexivity.
Qed.

(* ---- the splice on pieces *)
Fixpoint splice (pcs : list piece) (Rs : list (list piece)) : list piece :=
  match pcs with
  | [] => []
  | (a, TEvalE x, b) :: r =>
      match Rs with
      | R :: Rs' => (a, TLP, []) :: R ++ ([], TRP, b) :: splice r Rs'
      | [] => (a, TEvalE x, b) :: splice r []
      end
  | p :: r => p :: splice r Rs
  end.

Definition eval_names (ts : list tok) : list str :=
  flat_map (fun t => match t with TEvalE x => [x] | _ => [] end) ts.

Lemma render_app : forall X Y, render_pieces (X ++ Y) = render_pieces X ++ render_pieces Y.
Proof. intros. unfold render_pieces. apply flat_map_app. Qed.

Lemma blanks_einert : forall a rest prev, forallb is_blank a = true -> einert prev a rest.
Proof.
  intros. apply einert_other. rewrite forallb_forall in *. intros c Hc. specialize (H c Hc).
  apply blank_cases in H. destruct H; subst; reflexivity.
Qed.

Lemma glue_prev_nonword : forall prev a t b pcs, forallb is_blank a = true ->
  glue_inv prev ((a, t, b) :: pcs) -> starts_word t = true -> is_word_opt (lastc a prev) = false.
Proof.
  intros prev a t b pcs Ha Hg Hs. destruct a as [|c a].
  - cbn [lastc]. destruct (is_word_opt prev) eqn:E; auto. simpl in Hg. rewrite Hs in Hg.
    specialize (Hg eq_refl E). discriminate.
  - apply lastc_blanks_nonword; auto. discriminate.
Qed.

Lemma hd_word_after : forall rs ps a t b pcs,
  adm ((a, t, b) :: pcs) = true -> forallb (wf_tok rs ps) (toks pcs) = true ->
  ends_word t = true -> hd_is is_word (b ++ render_pieces pcs) = false.
Proof.
  intros rs ps a t b pcs Hadm Hwf He.
  destruct (sep_from_adm rs ps a t b pcs Hadm Hwf) as [H _]. apply H; auto.
Qed.

Theorem replace_render : forall rs ps pcs Rs prev,
  adm pcs = true -> forallb (wf_tok rs ps) (toks pcs) = true -> forallb post_esc (toks pcs) = true ->
  glue_inv prev pcs -> length Rs = length (eval_names (toks pcs)) ->
  replace_eval (map render_pieces Rs) prev 0 (render_pieces pcs)
  = Some (render_pieces (splice pcs Rs)).
Proof.
  intros rs ps. induction pcs as [|[[a t] b] pcs IH]; intros Rs prev Hadm Hwf Hpe Hg Hlen.
  - reflexivity.
  - pose proof (hd_word_after rs ps a t b pcs Hadm) as Hsep.
    cbn [toks map tok_of fst snd forallb] in *. apply andb_true_iff in Hwf. destruct Hwf as [Hwt Hwf].
    apply andb_true_iff in Hpe. destruct Hpe as [Hpt Hpe].
    destruct (adm_cons _ _ _ _ Hadm) as (Ha & Hb & Hr & Hgap).
    rewrite render_cons. rewrite replace_einert by (apply blanks_einert; auto).
    assert (Hgn : glue_inv (lastc b (lastc (text t) (lastc a prev))) pcs).
    { eapply glue_next; eauto. }
    destruct (eval_tok t) eqn:Hev.
    + destruct t; try discriminate Hev; try discriminate Hpt.
      cbn [eval_names flat_map app length] in Hlen.
      destruct Rs as [|R Rs]; [discriminate Hlen|]. cbn [map splice].
      rewrite replace_hit; auto.
      2:{ eapply glue_prev_nonword; eauto. }
      rewrite replace_einert by (apply blanks_einert; auto).
      rewrite (IH Rs); auto.
      * cbn [option_map]. rewrite render_cons, render_app, render_cons. cbn [text app].
        rewrite <- ?app_assoc. reflexivity.
      * assert (Hl : lastc (text (TEvalE x)) (lastc a prev) = Some 41)
          by (cbn [text]; norm_lastc; reflexivity).
        rewrite Hl in Hgn. exact Hgn.
    + assert (Hsp : splice (@cons piece (a, t, b) pcs) Rs = (a, t, b) :: splice pcs Rs).
      { destruct t; try discriminate Hev; reflexivity. }
      assert (Hn : eval_names (t :: toks pcs) = eval_names (toks pcs)).
      { destruct t; try discriminate Hev; reflexivity. }
      unfold toks in Hn. rewrite Hn in Hlen. rewrite Hsp.
      rewrite replace_einert by (apply (einert_tok rs ps); auto).
      rewrite replace_einert by (apply blanks_einert; auto).
      rewrite (IH Rs); auto. cbn [option_map]. rewrite render_cons. reflexivity.
Qed.

Theorem names_render : forall rs ps pcs prev,
  adm pcs = true -> forallb (wf_tok rs ps) (toks pcs) = true -> forallb post_esc (toks pcs) = true ->
  glue_inv prev pcs ->
  get_eval_value prev 0 (render_pieces pcs) = eval_names (toks pcs).
Proof.
  intros rs ps. induction pcs as [|[[a t] b] pcs IH]; intros prev Hadm Hwf Hpe Hg.
  - reflexivity.
  - pose proof (hd_word_after rs ps a t b pcs Hadm) as Hsep.
    cbn [toks map tok_of fst snd forallb] in *. apply andb_true_iff in Hwf. destruct Hwf as [Hwt Hwf].
    apply andb_true_iff in Hpe. destruct Hpe as [Hpt Hpe].
    destruct (adm_cons _ _ _ _ Hadm) as (Ha & Hb & Hr & Hgap).
    rewrite render_cons. rewrite names_einert by (apply blanks_einert; auto).
    assert (Hgn : glue_inv (lastc b (lastc (text t) (lastc a prev))) pcs).
    { eapply glue_next; eauto. }
    destruct (eval_tok t) eqn:Hev.
    + destruct t; try discriminate Hev; try discriminate Hpt.
      rewrite names_hit; auto.
      2:{ eapply glue_prev_nonword; eauto. }
      rewrite names_einert by (apply blanks_einert; auto).
      cbn [eval_names flat_map app]. f_equal. apply IH; auto.
      assert (Hl : lastc (text (TEvalE x)) (lastc a prev) = Some 41)
        by (cbn [text]; norm_lastc; reflexivity).
      rewrite Hl in Hgn. exact Hgn.
    + assert (Hn : eval_names (t :: map tok_of pcs) = eval_names (map tok_of pcs)).
      { destruct t; try discriminate Hev; reflexivity. }
      rewrite Hn.
      rewrite names_einert by (apply (einert_tok rs ps); auto).
      rewrite names_einert by (apply blanks_einert; auto).
      apply IH; auto.
Qed.

(* ---- admissibility / well-formedness of the spliced piece list *)
Lemma gap_to_rp : forall t g, gap_ok t g TRP = true.
Proof. intros. unfold gap_ok. cbn. rewrite !andb_false_r. cbn. rewrite orb_true_r. reflexivity. Qed.
Lemma gap_to_lp : forall t g, gap_ok t g TLP = true.
Proof. intros. unfold gap_ok. cbn. rewrite !andb_false_r. cbn. rewrite orb_true_r. reflexivity. Qed.
Lemma gap_from_lp : forall g t', gap_ok TLP g t' = true.
Proof. intros. unfold gap_ok. cbn. rewrite orb_true_r. reflexivity. Qed.
Lemma gap_evale_rp : forall x g t', gap_ok (TEvalE x) g t' = gap_ok TRP g t'.
Proof. reflexivity. Qed.

Lemma adm_snoc_rp : forall R b rest, adm R = true -> adm (([], TRP, b) :: rest) = true ->
  adm (R ++ ([], TRP, b) :: rest) = true.
Proof.
  induction R as [|[[a t] b0] R IH]; intros b rest HR HY; auto.
  destruct (adm_cons _ _ _ _ HR) as (Ha & Hb & Hr & Hg).
  cbn [app]. apply adm_intro; auto.
  destruct R as [|[[a' t'] b'] R']; cbn [app].
  - apply gap_to_rp.
  - exact Hg.
Qed.

Lemma splice_head : forall a' t' b' r Rs, exists t2 b2 rest,
  splice (@cons piece (a', t', b') r) Rs = (a', t2, b2) :: rest /\ (t2 = t' \/ t2 = TLP).
Proof.
  intros. destruct t'; try (eexists _, _, _; split; [reflexivity | auto]).
  destruct Rs; eexists _, _, _; (split; [reflexivity | auto]).
Qed.

Lemma adm_splice : forall pcs Rs, adm pcs = true -> Forall (fun R => adm R = true) Rs ->
  adm (splice pcs Rs) = true.
Proof.
  induction pcs as [|[[a t] b] pcs IH]; intros Rs Hadm HRs; auto.
  destruct (adm_cons _ _ _ _ Hadm) as (Ha & Hb & Hr & Hgap).
  assert (Hnext : forall Rs', Forall (fun R => adm R = true) Rs' -> forall tk,
            (match pcs with (a', t', _) :: _ => gap_ok tk (b ++ a') t' = true | [] => True end) ->
            adm ((a, tk, b) :: splice pcs Rs') = true).
  { intros Rs' HRs' tk Hg. apply adm_intro; auto.
    destruct pcs as [|[[a' t'] b'] r]; [exact I|].
    destruct (splice_head a' t' b' r Rs') as (t2 & b2 & rest & E & [-> | ->]); rewrite E; auto.
    apply gap_to_lp. }
  destruct t; try (apply (Hnext Rs HRs); exact Hgap).
  destruct Rs as [|R Rs'].
  - apply (Hnext [] HRs). exact Hgap.
  - cbn [splice]. inversion HRs; subst.
    apply adm_intro; auto.
    + apply adm_snoc_rp; auto.
      assert (X : adm (([] : str, TRP, b) :: splice pcs Rs') = true).
      { specialize (Hnext Rs' H2 TRP). 
        assert (G : match pcs with (a', t', _) :: _ => gap_ok TRP (b ++ a') t' = true | [] => True end).
        { destruct pcs as [|[[a' t'] b'] r]; auto. }
        specialize (Hnext G).
        destruct (adm_cons _ _ _ _ Hnext) as (_ & Hb' & Hr' & Hg').
        apply adm_intro; auto. }
      exact X.
    + destruct R as [|[[a1 t1] b1] R']; cbn [app]; apply gap_from_lp.
Qed.

Fixpoint splice_toks (ts : list tok) (Rs : list (list tok)) : list tok :=
  match ts with
  | [] => []
  | t :: r =>
      if eval_tok t then
        match Rs with
        | R :: Rs' => TLP :: R ++ TRP :: splice_toks r Rs'
        | [] => t :: splice_toks r []
        end
      else t :: splice_toks r Rs
  end.

Lemma toks_app : forall X Y, toks (X ++ Y) = toks X ++ toks Y.
Proof. intros. unfold toks. apply map_app. Qed.

Lemma toks_splice : forall pcs Rs, forallb post_esc (toks pcs) = true ->
  toks (splice pcs Rs) = splice_toks (toks pcs) (map toks Rs).
Proof.
  induction pcs as [|[[a t] b] pcs IH]; intros Rs H; auto.
  cbn [toks map tok_of fst snd forallb] in H. apply andb_true_iff in H. destruct H as [Ht H].
  destruct t; try discriminate Ht;
    try (cbn [splice]; unfold toks in *; cbn [map tok_of fst snd splice_toks eval_tok];
         rewrite IH by auto; reflexivity).
  destruct Rs as [|R Rs']; cbn [splice map].
  - unfold toks in *. cbn [map tok_of fst snd splice_toks eval_tok]. rewrite IH by auto. reflexivity.
  - change (toks ((a, TLP, []) :: R ++ ([], TRP, b) :: splice pcs Rs'))
      with (TLP :: toks (R ++ ([], TRP, b) :: splice pcs Rs')).
    rewrite toks_app. change (toks (([], TRP, b) :: splice pcs Rs')) with (TRP :: toks (splice pcs Rs')).
    rewrite IH by auto. reflexivity.
Qed.

Lemma map_splice_toks : forall f, (forall t, eval_tok (f t) = eval_tok t) -> f TLP = TLP -> f TRP = TRP ->
  forall ts Rs, map f (splice_toks ts Rs) = splice_toks (map f ts) (map (map f) Rs).
Proof.
  intros f He Hl Hr. induction ts as [|t ts IH]; intros Rs; auto.
  cbn [splice_toks map]. rewrite He. destruct (eval_tok t).
  - destruct Rs as [|R Rs']; cbn [map].
    + rewrite IH. reflexivity.
    + rewrite Hl, map_app. cbn [map]. rewrite Hr, IH. reflexivity.
  - cbn [map]. rewrite IH. reflexivity.
Qed.

Lemma splice_toks_forall : forall (p : tok -> bool), p TLP = true -> p TRP = true ->
  forall ts Rs, forallb p ts = true -> Forall (fun R => forallb p R = true) Rs ->
  forallb p (splice_toks ts Rs) = true.
Proof.
  intros p Hl Hr. induction ts as [|t ts IH]; intros Rs Hts HRs; auto.
  cbn [forallb] in Hts. apply andb_true_iff in Hts. destruct Hts as [Ht Hts].
  cbn [splice_toks]. destruct (eval_tok t).
  - destruct Rs as [|R Rs'].
    + cbn [forallb]. rewrite Ht, IH; auto.
    + inversion HRs; subst. cbn [forallb]. rewrite Hl, forallb_app_iff, H1. cbn [forallb].
      rewrite Hr, IH; auto.
  - cbn [forallb]. rewrite Ht, IH; auto.
Qed.

Lemma splice_toks_no_eval : forall ts Rs,
  length Rs = length (filter eval_tok ts) -> Forall (fun R => existsb eval_tok R = false) Rs ->
  existsb eval_tok (splice_toks ts Rs) = false.
Proof.
  induction ts as [|t ts IH]; intros Rs Hlen HRs; auto.
  cbn [splice_toks filter] in *. destruct (eval_tok t) eqn:E.
  - destruct Rs as [|R Rs']; [discriminate Hlen|].
    inversion HRs; subst. cbn [existsb eval_tok orb]. rewrite existsb_app, H1.
    cbn [existsb eval_tok orb]. apply IH; auto.
  - cbn [existsb]. rewrite E. apply IH; auto.
Qed.

Lemma eval_names_length : forall ts, forallb post_esc ts = true ->
  length (eval_names ts) = length (filter eval_tok ts).
Proof.
  induction ts as [|t ts IH]; intros H; auto.
  cbn [forallb] in H. apply andb_true_iff in H. destruct H as [Ht H].
  destruct t; try discriminate Ht; cbn [eval_names flat_map filter eval_tok app]; cbn [length];
    fold (eval_names ts); rewrite ?IH; auto.
Qed.

Lemma esc_tok_post : forall t, casbin_tok t = true -> post_esc (esc_tok t) = true.
Proof. intros t H. destruct t; try discriminate; reflexivity. Qed.

Lemma esc_tok_eval : forall t, eval_tok (esc_tok t) = eval_tok t.
Proof. intro t. destruct t; reflexivity. Qed.

Lemma filter_eval_esc : forall ts, length (filter eval_tok (map esc_tok ts)) = length (filter eval_tok ts).
Proof.
  induction ts as [|t ts IH]; auto. cbn [map filter]. rewrite esc_tok_eval.
  destruct (eval_tok t); cbn [length]; rewrite IH; reflexivity.
Qed.

(* names handed to the rule lookup: the escaped arguments of the eval() calls, in order *)
Definition eval_args (ts : list tok) : list str :=
  flat_map (fun t => match t with TEval sfx f => [esc_name 112 sfx f] | _ => [] end) ts.

Lemma eval_names_esc : forall ts, forallb casbin_tok ts = true ->
  eval_names (map esc_tok ts) = eval_args ts.
Proof.
  induction ts as [|t ts IH]; intros H; auto.
  cbn [forallb] in H. apply andb_true_iff in H. destruct H as [Ht H].
  destruct t; try discriminate Ht; cbn [map esc_tok esc_p esc_r eval_names eval_args flat_map app];
    fold (eval_names (map esc_tok ts)); fold (eval_args ts); rewrite IH; auto.
Qed.

(* eval(): load-time value, the names looked up in the rule, the splice, the resulting Python tokens *)
Theorem eval_splice_pieces : forall rs ps pcs Rs,
  forallb is_digit rs = true -> forallb is_digit ps = true -> pcs <> [] ->
  adm pcs = true -> forallb (wf_tok rs ps) (toks pcs) = true -> forallb casbin_tok (toks pcs) = true ->
  Forall (fun R => adm R = true /\ forallb (wf_tok rs ps) (toks R) = true
                   /\ forallb casbin_tok (toks R) = true /\ existsb eval_tok (toks R) = false) Rs ->
  length Rs = length (filter eval_tok (toks pcs)) ->
  let stored := stored_value (render_pieces pcs) in
  get_eval_value None 0 stored = eval_args (toks pcs)
  /\ exists spliced,
       replace_eval (map (fun R => escape_assertion (render_pieces R)) Rs) None 0 stored = Some spliced
       /\ py_tokens (get_expression spliced)
          = Some (flat_map tr (splice_toks (toks pcs) (map toks Rs))).
Proof.
  intros rs ps pcs Rs Hrs Hps Hne Hadm Hwf Hcb HRs Hlen stored.
  assert (Ha2 : adm (esc_pieces pcs) = true).
  { unfold esc_pieces. rewrite adm_pm; auto. apply esc_tok_classes. }
  pose proof (wf_esc_pieces rs ps pcs Hrs Hps Hwf) as Hw2.
  assert (Hpe : forallb post_esc (toks (esc_pieces pcs)) = true).
  { rewrite toks_esc, forallb_map. rewrite forallb_forall in *. intros t Ht. apply esc_tok_post; auto. }
  assert (Hst : stored = render_pieces (esc_pieces pcs)).
  { unfold stored, stored_value. rewrite (escape_render rs ps) by auto.
    unfold remove_comments. rewrite find_char_none by (apply (render_no_hash rs ps); auto). reflexivity. }
  rewrite Hst. split.
  { rewrite (names_render rs ps); auto using glue_inv_none.
    rewrite toks_esc. apply eval_names_esc; auto. }
  exists (render_pieces (splice (esc_pieces pcs) (map esc_pieces Rs))).
  assert (Hrules : map (fun R => escape_assertion (render_pieces R)) Rs
                   = map render_pieces (map esc_pieces Rs)).
  { rewrite map_map. apply map_ext_in. intros R HR. rewrite Forall_forall in HRs.
    destruct (HRs R HR) as (A & B & _). apply (escape_render rs ps); auto. }
  rewrite Hrules. split.
  { apply (replace_render rs ps); auto using glue_inv_none.
    rewrite map_length, (eval_names_length _ Hpe), toks_esc, filter_eval_esc. exact Hlen. }
  assert (Htoks : toks (splice (esc_pieces pcs) (map esc_pieces Rs))
                  = map esc_tok (splice_toks (toks pcs) (map toks Rs))).
  { rewrite toks_splice by auto. rewrite toks_esc.
    rewrite (map_splice_toks esc_tok esc_tok_eval eq_refl eq_refl).
    f_equal. rewrite !map_map. apply map_ext. intro R. apply toks_esc. }
  assert (Hcb2 : forallb casbin_tok (splice_toks (toks pcs) (map toks Rs)) = true).
  { apply splice_toks_forall; auto. rewrite Forall_forall in *. intros R HR.
    apply in_map_iff in HR. destruct HR as (R0 & <- & HR0). apply (HRs R0 HR0). }
  assert (Hne2 : existsb eval_tok (splice_toks (toks pcs) (map toks Rs)) = false).
  { apply splice_toks_no_eval; [rewrite map_length; auto|]. rewrite Forall_forall in *. intros R HR.
    apply in_map_iff in HR. destruct HR as (R0 & <- & HR0). apply (HRs R0 HR0). }
  rewrite (expression_tokens rs ps); auto.
  - rewrite Htoks. rewrite flat_map_tr_final; auto.
  - destruct pcs as [|[[a t] b] r]; [congruence|]. unfold esc_pieces. cbn [map pm].
    destruct (esc_tok t); cbn [splice]; try discriminate.
    destruct (map (fun pcs : list piece => map (pm esc_tok) pcs) Rs); discriminate.
  - apply adm_splice; auto. rewrite Forall_forall in *. intros R HR.
    apply in_map_iff in HR. destruct HR as (R0 & <- & HR0). destruct (HRs R0 HR0) as (A & _).
    unfold esc_pieces. rewrite adm_pm; auto. apply esc_tok_classes.
  - rewrite Htoks. rewrite forallb_map.
    apply splice_toks_forall; try reflexivity.
    + rewrite <- forallb_map, <- toks_esc. exact Hw2.
    + rewrite Forall_forall. intros R HR. apply in_map_iff in HR. destruct HR as (R0 & <- & HR0).
      rewrite Forall_forall in HRs. destruct (HRs R0 HR0) as (A & B & _).
      rewrite <- forallb_map, <- toks_esc. apply wf_esc_pieces; auto.
  - rewrite Htoks, !forallb_map. rewrite forallb_forall in *. intros t Ht.
    apply final_py; auto.
    destruct (eval_tok t) eqn:E; auto.
    assert (X : existsb eval_tok (splice_toks (toks pcs) (map toks Rs)) = true)
      by (apply existsb_exists; eauto). congruence.
Qed.

(* ====================================================================== the Casbin-side reference lexer reads a
   rendered layout back as the token list it was rendered from *)
Lemma take_dotted_length : forall k s, (length (snd (take_dotted k s)) <= length s)%nat.
Proof.
  induction k as [|k IH]; intros s; [destruct s; simpl; lia|].
  destruct s as [|c s']; [simpl; lia|]. cbn [take_dotted].
  destruct c as [|p]; [simpl; lia|].
  destruct (N.eq_dec (N.pos p) 46) as [E|E].
  2:{ assert (X : take_dotted (S k) (N.pos p :: s') = ([], N.pos p :: s')).
      { cbn [take_dotted]. do 6 (destruct p as [p|p|]; try reflexivity). congruence. }
      cbn [take_dotted] in X. rewrite X. simpl. lia. }
  inversion E; subst.
  pose proof (span_length is_word s') as L1.
  destruct (span is_word s') as [w r] eqn:S. simpl in L1.
  destruct (hd_is is_alpha w); [|simpl; lia].
  specialize (IH r). destruct (take_dotted k r) as [ws r']. simpl in *. lia.
Qed.

Lemma cb_one_shrinks : forall s t r, cb_lex_one s = Some (t, r) -> (length r < length s)%nat.
Proof.
  intros s t r H. destruct s as [|c s']; [discriminate|]. unfold cb_lex_one in H.
  destruct (is_alpha c) eqn:Ea.
  - pose proof (span_snd_cons is_word c s' (alpha_is_word _ Ea)) as E.
    pose proof (span_length is_word s') as L1.
    destruct (span is_word (c :: s')) as [w rest]. simpl in E. subst rest.
    set (rest := snd (span is_word s')) in *.
    destruct (str_eqb w s_eval && hd_is (N.eqb 40) rest).
    + pose proof (span_length is_word (tl rest)) as L2. pose proof (length_tl rest) as L3.
      destruct (span is_word (tl rest)) as [w2 rest2]. simpl in L2.
      pose proof (take_dotted_length (length rest2) rest2) as L4.
      destruct (take_dotted (length rest2) rest2) as [fs r3]. simpl in L4.
      destruct fs as [|f [|f2 fs]]; try discriminate H.
      destruct r3 as [|x r3]; try discriminate H.
      destruct (N.eq_dec x 41) as [->|Nx].
      * destruct (rp_form 112 w2); inversion H; subst. simpl in *. lia.
      * exfalso. destruct x as [|p]; [discriminate H|].
        do 6 (destruct p as [p|p|]; try discriminate H). congruence.
    + destruct (hd_is (N.eqb 46) rest).
      * pose proof (take_dotted_length (length rest) rest) as L4.
        destruct (take_dotted (length rest) rest) as [fs r2]. simpl in L4.
        destruct fs as [|f attrs]; [discriminate H|].
        destruct (hd_is (N.eqb 46) r2); [discriminate H|].
        destruct (rp_form 114 w); [inversion H; subst; simpl; lia|].
        destruct (rp_form 112 w); [|discriminate H].
        destruct attrs; inversion H; subst. simpl. lia.
      * destruct (hd_is is_quote rest); inversion H; subst. simpl. lia.
  - destruct (is_digit c) eqn:Ed.
    + apply lex_int_shrinks in H; auto. simpl. lia.
    + destruct (is_quote c).
      * destruct (lex_string c s') as [[body rest]|] eqn:El; inversion H; subst.
        apply lex_string_shrinks in El. simpl. lia.
      * pose proof (length_tl s') as Lt.
        destruct (c =? 38); [destruct (hd_is (N.eqb 38) s'); inversion H; subst; simpl; lia|].
        destruct (c =? 124); [destruct (hd_is (N.eqb 124) s'); inversion H; subst; simpl; lia|].
        destruct (c =? 33); [destruct (hd_is (N.eqb 61) s'); inversion H; subst; simpl; lia|].
        apply lex_op_shrinks in H. simpl. lia.
Qed.

Definition Lc := cb_lex.

Lemma Lc_blanks : forall a s, forallb is_blank a = true -> Lc (a ++ s) = Lc s.
Proof. intros. apply lex_blanks; auto. Qed.

Lemma Lc_tok : forall c s t r, is_blank c = false -> cb_lex_one (c :: s) = Some (t, r) ->
  Lc (c :: s) = option_map (cons t) (Lc r).
Proof. intros. apply lex_tok; auto. apply cb_one_shrinks. Qed.

Lemma take_dotted_dots : forall attrs rest k, forallb good_name attrs = true ->
  (length attrs <= k)%nat -> hd_is (N.eqb 46) rest = false -> hd_is is_word rest = false ->
  take_dotted k (dots attrs ++ rest) = (attrs, rest).
Proof.
  induction attrs as [|a r IH]; intros rest k H Hk Hr Hw'.
  - cbn [dots flat_map app]. destruct k; [destruct rest; reflexivity|].
    destruct rest as [|c rest']; [reflexivity|]. cbn [hd_is] in Hr.
    cbn [take_dotted]. destruct c as [|p]; [reflexivity|].
    do 6 (destruct p as [p|p|]; try reflexivity). discriminate Hr.
  - cbn [forallb] in H. apply andb_true_iff in H. destruct H as [Ha Hr'].
    destruct k as [|k]; [simpl in Hk; lia|].
    cbn [dots flat_map]. fold (dots r). cbn [app take_dotted]. rewrite <- app_assoc.
    destruct (good_name_facts _ Ha) as (_ & Hw & Hal & _).
    rewrite span_all; auto.
    + rewrite Hal. rewrite IH; auto. simpl in Hk. lia.
    + destruct r; [exact Hw' | reflexivity].
Qed.

Definition sepc (t : tok) (rest : str) : Prop :=
  (ends_word t = true ->
     hd_is is_word rest = false /\ hd_is is_quote rest = false /\ hd_is (N.eqb 46) rest = false)
  /\ (opish t = true -> hd_is cmpchar rest = false).

Lemma dots_length : forall l rest, (length l <= length (dots l ++ rest))%nat.
Proof.
  induction l as [|a r IH]; intros rest; [simpl; lia|].
  cbn [dots flat_map]. fold (dots r). cbn [app length]. rewrite <- app_assoc, app_length.
  specialize (IH rest). lia.
Qed.

Lemma rp_form_digits : forall l ds, forallb is_digit ds = true -> rp_form l (l :: ds) = true.
Proof. intros. simpl. rewrite N.eqb_refl, H. reflexivity. Qed.

Lemma cb_word : forall w rest, forallb is_word w = true -> hd_is is_alpha w = true ->
  str_eqb w s_eval = false ->
  hd_is is_word rest = false -> hd_is is_quote rest = false -> hd_is (N.eqb 46) rest = false ->
  Lc (w ++ rest) = option_map (cons (if str_eqb w s_in then TIn else TId w)) (Lc rest).
Proof.
  intros w rest Hw Ha Hne Hr Hq Hd. destruct w as [|c w]; [discriminate|]. cbn [hd_is] in Ha.
  cbn [app]. apply Lc_tok.
  - apply (word_char_facts c). apply alpha_is_word; auto.
  - unfold cb_lex_one. rewrite Ha.
    change (c :: w ++ rest) with ((c :: w) ++ rest). rewrite span_all by auto.
    rewrite Hne, Hd, Hq. reflexivity.
Qed.

Lemma Lc_str : forall dq s rest, forallb lit_char s = true ->
  Lc (quote_of dq :: s ++ quote_of dq :: rest) = option_map (cons (TStr dq s)) (Lc rest).
Proof.
  intros dq s rest H. apply Lc_tok; [destruct dq; reflexivity|].
  unfold cb_lex_one.
  replace (is_alpha (quote_of dq)) with false by (destruct dq; reflexivity).
  replace (is_digit (quote_of dq)) with false by (destruct dq; reflexivity).
  replace (is_quote (quote_of dq)) with true by (destruct dq; reflexivity).
  unfold lex_string. rewrite span_all.
  - replace (forallb (fun c => negb ((c =? 92) || (c =? 10))) s) with true.
    + destruct dq; reflexivity.
    + symmetry. rewrite forallb_forall in *. intros c Hc. specialize (H c Hc).
      destruct (lit_char_facts c H) as (_ & _ & -> & ->). reflexivity.
  - rewrite forallb_forall in *. intros c Hc. specialize (H c Hc).
    destruct (lit_char_facts c H) as (E1 & E2 & _). destruct dq; simpl; rewrite ?E1, ?E2; reflexivity.
  - simpl. rewrite N.eqb_refl. reflexivity.
Qed.

Lemma Lc_int : forall ds rest, digits_ok ds = true ->
  hd_is is_word rest = false -> hd_is (N.eqb 46) rest = false ->
  Lc (ds ++ rest) = option_map (cons (TInt ds)) (Lc rest).
Proof.
  intros ds rest H Hr Hd. unfold digits_ok in H. apply andb_true_iff in H. destruct H as [H Hz].
  apply andb_true_iff in H. destruct H as [Hne Hds]. apply negb_true_iff in Hz.
  destruct ds as [|d ds]; [discriminate|]. cbn [forallb] in Hds.
  apply andb_true_iff in Hds. destruct Hds as [Hd1 Hds].
  cbn [app]. apply Lc_tok.
  - apply (word_char_facts d). apply digit_is_word; auto.
  - unfold cb_lex_one. rewrite (digit_not_alpha d Hd1), Hd1. unfold lex_int.
    change (d :: ds ++ rest) with ((d :: ds) ++ rest).
    rewrite span_all.
    + rewrite Hr, Hd, Hz. reflexivity.
    + simpl. rewrite Hd1, Hds. reflexivity.
    + apply (hd_is_weaken is_word); auto. apply digit_is_word.
Qed.

Lemma Lc_text : forall rs ps t rest,
  forallb is_digit rs = true -> forallb is_digit ps = true ->
  wf_tok rs ps t = true -> casbin_tok t = true -> sepc t rest ->
  Lc (text t ++ rest) = option_map (cons t) (Lc rest).
Proof.
  intros rs ps t rest Hrs Hps Hwf Hcb [Hw Hc].
  destruct t; try discriminate Hcb; cbn [text].
  - (* TAnd *) cbn [app]. apply Lc_tok; reflexivity.
  - (* TOr *) cbn [app]. apply Lc_tok; reflexivity.
  - (* TNot *) specialize (Hc eq_refl). pose proof (hd_cmpchar_eq _ Hc) as He.
    cbn [app]. apply Lc_tok; [reflexivity|]. unfold cb_lex_one. cbn. rewrite He. reflexivity.
  - (* TCmp *)
    specialize (Hc eq_refl). pose proof (hd_cmpchar_eq _ Hc) as He. pose proof (hd_cmpchar_bad _ Hc) as Hb.
    destruct c; cbn [app]; apply Lc_tok; try reflexivity.
    + unfold cb_lex_one. cbn. unfold lex_op. cbn. rewrite He, Hb. reflexivity.
    + unfold cb_lex_one. cbn. unfold lex_op. cbn. rewrite He, Hb. reflexivity.
  - (* TIn *)
    destruct (Hw eq_refl) as (H1 & H2 & H3).
    rewrite (cb_word [105; 110] rest); auto.
  - cbn [app]. apply Lc_tok; reflexivity.
  - cbn [app]. apply Lc_tok; reflexivity.
  - cbn [app]. apply Lc_tok; reflexivity.
  - cbn [app]. apply Lc_tok; reflexivity.
  - cbn [app]. apply Lc_tok; reflexivity.
  - (* TReq *)
    destruct (Hw eq_refl) as (H1 & H2 & H3).
    simpl in Hwf. apply andb_true_iff in Hwf. destruct Hwf as [Hwf Hat].
    apply andb_true_iff in Hwf. destruct Hwf as [Hs Hf]. apply str_eqb_eq in Hs. subst sfx.
    cbn [app]. apply Lc_tok; [reflexivity|].
    unfold cb_lex_one. replace (is_alpha 114) with true by reflexivity.
    replace (114 :: (rs ++ 46 :: f ++ dots attrs) ++ rest)
      with ((114 :: rs) ++ (dots (f :: attrs) ++ rest)).
    2:{ cbn [dots flat_map app]. fold (dots attrs). rewrite <- !app_assoc. cbn [app].
        rewrite <- !app_assoc. reflexivity. }
    rewrite span_all; [| simpl; apply digits_are_words; auto | reflexivity].
    replace (str_eqb (114 :: rs) s_eval) with false by reflexivity. cbn [andb].
    replace (hd_is (N.eqb 46) (dots (f :: attrs) ++ rest)) with true by reflexivity.
    rewrite take_dotted_dots; auto.
    + rewrite H3. rewrite rp_form_digits by auto. reflexivity.
    + cbn [forallb]. rewrite Hf, Hat. reflexivity.
    + apply dots_length.
  - (* TPol *)
    destruct (Hw eq_refl) as (H1 & H2 & H3).
    simpl in Hwf. apply andb_true_iff in Hwf. destruct Hwf as [Hs Hf]. apply str_eqb_eq in Hs. subst sfx.
    cbn [app]. apply Lc_tok; [reflexivity|].
    unfold cb_lex_one. replace (is_alpha 112) with true by reflexivity.
    replace (112 :: (ps ++ 46 :: f) ++ rest) with ((112 :: ps) ++ (dots [f] ++ rest)).
    2:{ cbn [dots flat_map app]. rewrite <- ?app_assoc. cbn [app]. rewrite <- ?app_assoc. reflexivity. }
    rewrite span_all; [| simpl; apply digits_are_words; auto | reflexivity].
    replace (str_eqb (112 :: ps) s_eval) with false by reflexivity. cbn [andb].
    replace (hd_is (N.eqb 46) (dots [f] ++ rest)) with true by reflexivity.
    rewrite take_dotted_dots; auto.
    + rewrite H3. replace (rp_form 114 (112 :: ps)) with false by reflexivity.
      rewrite rp_form_digits by auto. reflexivity.
    + cbn [forallb]. rewrite Hf. reflexivity.
    + apply dots_length.
  - (* TEval *)
    simpl in Hwf. apply andb_true_iff in Hwf. destruct Hwf as [Hs Hf]. apply str_eqb_eq in Hs. subst sfx.
    replace ((s_eval_lp ++ 112 :: ps ++ 46 :: f ++ [41]) ++ rest)
      with (101 :: ([118; 97; 108] ++ (40 :: (112 :: ps) ++ (dots [f] ++ 41 :: rest)))).
    2:{ unfold s_eval_lp. cbn [dots flat_map app]. rewrite <- ?app_assoc. cbn [app].
        rewrite <- ?app_assoc. cbn [app]. rewrite <- ?app_assoc. cbn [app]. reflexivity. }
    apply Lc_tok; [reflexivity|].
    unfold cb_lex_one. replace (is_alpha 101) with true by reflexivity.
    change (101 :: [118; 97; 108] ++ 40 :: (112 :: ps) ++ dots [f] ++ 41 :: rest)
      with ([101; 118; 97; 108] ++ 40 :: (112 :: ps) ++ dots [f] ++ 41 :: rest).
    rewrite span_all; [| reflexivity | reflexivity].
    replace (str_eqb [101; 118; 97; 108] s_eval) with true by reflexivity.
    cbn [hd_is andb tl]. replace (40 =? 40) with true by reflexivity.
    rewrite span_all; [| simpl; apply digits_are_words; auto | reflexivity].
    rewrite take_dotted_dots; auto.
    + rewrite rp_form_digits by auto. reflexivity.
    + cbn [forallb]. rewrite Hf. reflexivity.
    + apply dots_length.
  - (* TStr *)
    simpl in Hwf. unfold lit_ok in Hwf. apply andb_true_iff in Hwf. destruct Hwf as [Hwf _].
    apply andb_true_iff in Hwf. destruct Hwf as [Hl _].
    cbn [app]. rewrite <- app_assoc. cbn [app]. apply Lc_str; auto.
  - (* TInt *)
    destruct (Hw eq_refl) as (H1 & _ & H3). apply Lc_int; auto.
  - (* TId *)
    destruct (Hw eq_refl) as (H1 & H2 & H3). simpl in Hwf.
    destruct (good_name_facts _ Hwf) as (_ & Hww & Ha & _ & _ & Hk).
    rewrite cb_word; auto using good_not_eval.
    rewrite (mem_false_neq s s_in py_keywords Hk) by (vm_compute; tauto). reflexivity.
Qed.

Lemma sepc_from_adm : forall rs ps a t b pcs,
  adm ((a, t, b) :: pcs) = true -> forallb (wf_tok rs ps) (toks pcs) = true ->
  sepc t (b ++ render_pieces pcs).
Proof.
  intros rs ps a t b pcs Hadm Hwf.
  destruct (adm_cons _ _ _ _ Hadm) as (Ha & Hb & Hr & Hgap).
  destruct b as [|c b].
  2:{ destruct (hd_blank_facts (c :: b) (render_pieces pcs) Hb) as (A & B & C & D); [discriminate|].
      split; intros; auto. }
  cbn [app]. destruct pcs as [|[[a' t'] b'] r].
  { split; intros; repeat split; reflexivity. }
  rewrite render_cons. destruct (adm_cons _ _ _ _ Hr) as (Ha' & _).
  destruct a' as [|c a'].
  2:{ destruct (hd_blank_facts (c :: a') (text t' ++ b' ++ render_pieces r) Ha') as (A & B & C & D);
        [discriminate|]. split; intros; auto. }
  cbn [app]. cbn [toks map tok_of fst snd forallb] in Hwf. apply andb_true_iff in Hwf. destruct Hwf as [Hwt _].
  pose proof (text_nonempty rs ps t' Hwt) as Hne.
  unfold sepc. rewrite !hd_is_app_nonempty by auto.
  destruct (hd_text_facts rs ps t' Hwt) as (A & B & C & D & _).
  unfold gap_ok in Hgap. cbn [app nonempty orb] in Hgap.
  apply andb_true_iff in Hgap. destruct Hgap as [G1 G2].
  split.
  - intro Hew. rewrite Hew in G1. cbn [andb] in G1. apply negb_true_iff in G1.
    apply orb_false_iff in G1. destruct G1 as [G1a G1b]. rewrite A, B, C. auto.
  - intro Hop. rewrite Hop in G2. cbn [andb] in G2. apply negb_true_iff in G2.
    destruct (hd_is cmpchar (text t')) eqn:E; auto. rewrite (D eq_refl) in G2. discriminate.
Qed.

Theorem cb_lex_render : forall rs ps ts ws,
  wf_tokens rs ps ts = true -> admissible ts ws = true -> cb_lex (render ts ws) = Some ts.
Proof.
  intros rs ps ts ws Hwf Hadm.
  unfold wf_tokens in Hwf. apply andb_true_iff in Hwf. destruct Hwf as [Hwf Hts].
  apply andb_true_iff in Hwf. destruct Hwf as [Hrs Hps].
  unfold admissible in Hadm. apply andb_true_iff in Hadm. destruct Hadm as [Hlen Hadm].
  apply Nat.eqb_eq in Hlen. pose proof (toks_mk_pieces ts ws Hlen) as Ht.
  unfold render. rewrite <- Ht at 2. rewrite <- Ht in Hts. clear Ht Hlen.
  generalize dependent (mk_pieces ts ws). clear ts ws.
  induction l as [|[[a t] b] pcs IH]; intros Hts Hadm; [reflexivity|].
  cbn [toks map tok_of fst snd forallb] in Hts. apply andb_true_iff in Hts. destruct Hts as [Ht Hts].
  apply andb_true_iff in Ht. destruct Ht as [Hwt Hct].
  assert (Hwf' : forallb (wf_tok rs ps) (toks pcs) = true).
  { rewrite forallb_forall in *. intros x Hx. specialize (Hts x Hx).
    apply andb_true_iff in Hts. destruct Hts; auto. }
  pose proof (sepc_from_adm rs ps a t b pcs Hadm Hwf') as Hsep.
  destruct (adm_cons _ _ _ _ Hadm) as (Ha & Hb & Hr & Hgap).
  rewrite render_cons. change cb_lex with Lc. rewrite Lc_blanks by auto.
  rewrite (Lc_text rs ps) by auto. rewrite Lc_blanks by auto.
  change Lc with cb_lex. rewrite IH by auto. reflexivity.
Qed.
