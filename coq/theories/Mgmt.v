(* Mgmt.v — the enforcer as a state machine: rule stores (Policy.v) + role managers (RoleGraph.v) +
   flags + the calls issued to adapter and watcher + the decision procedure (Enforce.v) for the
   standard matcher shapes.  Mirrors casbin/management_enforcer.py, internal_enforcer.py,
   enforcer.py and core_enforcer.py:189-322 AFTER the repairs recorded as "fixed" in
   known_findings.jsonl.  Serves C04 C05 C06 C07 C09 C11 C15 C19 C20.  No proofs here. *)
From Coq Require Import List NArith Bool Arith.
From PyCasbin Require Import Base Effect Enforce Policy RoleGraph.
Import ListNotations.
Local Open Scope N_scope.

(* ---------- static description of the model (.conf) and the attached objects ---------- *)
(* policy layout of "p":  [priority] sub [dom] obj act [eft]
   request layout of "r":            sub [dom] obj act
   matcher:  SUB && [r.dom == p.dom &&] OBJ && r.act == p.act
     SUB = g(r.sub, p.sub[, r.dom]) when the model has g, else r.sub == p.sub
     OBJ = g2(r.obj, p.obj)          when the model has g2, else r.obj == p.obj                    *)
Record mkind := mkKind {
  k_dom : bool; k_g : bool; k_g2 : bool; k_eft : bool; k_prio : bool;
  k_eff : effector;
  k_adapter : bool;          (* an adapter is attached *)
  k_watcher : N              (* 0 none; 1 Watcher (update only); 2 WatcherEx callbacks; 3 Ex + Updatable *)
}.

Definition PT_P : N := 0.  Definition PT_G : N := 1.  Definition PT_G2 : N := 2.
Definition A_ALLOW : name := 1001.   (* atom of "allow" *)
Definition A_DENY : name := 1002.    (* atom of "deny" *)

Definition i_sub (k : mkind) : nat := if k_prio k then 1%nat else 0%nat.
Definition i_dom (k : mkind) : nat := S (i_sub k).
Definition i_obj (k : mkind) : nat := if k_dom k then S (S (i_sub k)) else S (i_sub k).
Definition i_act (k : mkind) : nat := S (i_obj k).
Definition i_eft (k : mkind) : nat := S (i_act k).
Definition p_arity (k : mkind) : nat := if k_eft k then S (i_eft k) else S (i_act k).
Definition r_arity (k : mkind) : nat := if k_dom k then 4%nat else 3%nat.
Definition prio_opt_on (k : mkind) (on : bool) (pt : N) : option nat :=
  if (pt =? PT_P) && k_prio k && on then Some 0%nat else None.  (* assertion.priority_index, set on load *)
Definition prio_tok (k : mkind) (pt : N) : option nat :=
  if (pt =? PT_P) && k_prio k then Some 0%nat else None.       (* "p_priority" in ast.tokens *)
(* number of "_" in the role definition *)
Definition g_count (k : mkind) (pt : N) : nat := if (pt =? PT_G) && k_dom k then 3%nat else 2%nat.

(* ---------- dynamic state ---------- *)
Inductive rmk := RMPlain (s : rm_state) | RMDom (s : dm_state).

Record mstate := mkM {
  m_p : store; m_g : store; m_g2 : store;
  m_rm : rmk;                 (* rm_map["g"]  (= model["g"]["g"].rm) *)
  m_rm2 : rm_state;           (* rm_map["g2"] *)
  m_auto_save : bool; m_auto_build : bool; m_auto_notify : bool; m_enabled : bool;
  m_db : list (N * rule);     (* rows a faithful adapter holds, in its own order *)
  m_prio_on : bool            (* assertion.priority_index >= 0: set by the first successful load_policy (model.py:118-122) *)
}.

Definition MAXLVL : nat := 10.
Definition fresh_rm (k : mkind) : rmk :=
  if k_dom k then RMDom (dm_empty MAXLVL) else RMPlain (rm_empty MAXLVL).
Definition init (k : mkind) (db : list (N * rule)) : mstate :=
  mkM [] [] [] (fresh_rm k) (rm_empty MAXLVL) true true true true db false.

Definition get_store (s : mstate) (pt : N) : store :=
  if pt =? PT_P then m_p s else if pt =? PT_G then m_g s else m_g2 s.
Definition set_store (s : mstate) (pt : N) (l : store) : mstate :=
  if pt =? PT_P then mkM l (m_g s) (m_g2 s) (m_rm s) (m_rm2 s) (m_auto_save s) (m_auto_build s) (m_auto_notify s) (m_enabled s) (m_db s) (m_prio_on s)
  else if pt =? PT_G then mkM (m_p s) l (m_g2 s) (m_rm s) (m_rm2 s) (m_auto_save s) (m_auto_build s) (m_auto_notify s) (m_enabled s) (m_db s) (m_prio_on s)
  else mkM (m_p s) (m_g s) l (m_rm s) (m_rm2 s) (m_auto_save s) (m_auto_build s) (m_auto_notify s) (m_enabled s) (m_db s) (m_prio_on s).
Definition set_rm (s : mstate) (rm : rmk) : mstate :=
  mkM (m_p s) (m_g s) (m_g2 s) rm (m_rm2 s) (m_auto_save s) (m_auto_build s) (m_auto_notify s) (m_enabled s) (m_db s) (m_prio_on s).
Definition set_rm2 (s : mstate) (rm : rm_state) : mstate :=
  mkM (m_p s) (m_g s) (m_g2 s) (m_rm s) rm (m_auto_save s) (m_auto_build s) (m_auto_notify s) (m_enabled s) (m_db s) (m_prio_on s).
Definition set_db (s : mstate) (db : list (N * rule)) : mstate :=
  mkM (m_p s) (m_g s) (m_g2 s) (m_rm s) (m_rm2 s) (m_auto_save s) (m_auto_build s) (m_auto_notify s) (m_enabled s) db (m_prio_on s).
Definition set_flags (s : mstate) (sv bl nt en : bool) : mstate :=
  mkM (m_p s) (m_g s) (m_g2 s) (m_rm s) (m_rm2 s) sv bl nt en (m_db s) (m_prio_on s).

(* ---------- adapter and watcher calls ---------- *)
Inductive acall :=
| AAdd (pt : N) (r : rule) | AAddMany (pt : N) (rs : list rule)
| ARemove (pt : N) (r : rule) | ARemoveMany (pt : N) (rs : list rule)
| ARemoveFiltered (pt : N) (i : nat) (vs : list name)
| AUpdate (pt : N) (o n : rule) | AUpdateMany (pt : N) (os ns : list rule)
| AUpdateFiltered (pt : N) (ns : list rule) (i : nat) (vs : list name)
| ASave (rows : list (N * rule)).

Inductive wcall :=
| WUpdate
| WAdd (pt : N) (r : rule) | WAddMany (pt : N) (rs : list rule)
| WRemove (pt : N) (r : rule) | WRemoveMany (pt : N) (rs : list rule)
| WRemoveFiltered (pt : N) (i : nat) (vs : list name)
| WUpdatePolicy (o n : rule) | WUpdatePolicies (os ns : list rule)
| WSave.

(* a FAITHFUL adapter: what each call does to the rows it holds (the harness' recording adapter is
   this function, in Python) *)
Definition row_is (pt : N) (r : rule) (row : N * rule) : bool := (fst row =? pt) && rule_eqb (snd row) r.
Definition row_matches (pt : N) (i : nat) (vs : list name) (row : N * rule) : bool :=
  (fst row =? pt) && match filter_match (snd row) i vs with Some true => true | _ => false end.
Definition db_remove (pt : N) (r : rule) (db : list (N * rule)) : list (N * rule) :=
  filter (fun row => negb (row_is pt r row)) db.
Definition db_rows (pt : N) (db : list (N * rule)) : list rule :=
  map snd (filter (fun row => fst row =? pt) db).

Definition apply_acall (db : list (N * rule)) (c : acall) : list (N * rule) :=
  match c with
  | AAdd pt r => db ++ [(pt, r)]
  | AAddMany pt rs => db ++ map (fun r => (pt, r)) rs
  | ARemove pt r => db_remove pt r db
  | ARemoveMany pt rs => fold_left (fun d r => db_remove pt r d) rs db
  | ARemoveFiltered pt i vs => filter (fun row => negb (row_matches pt i vs row)) db
  | AUpdate pt o n => map (fun row => if row_is pt o row then (pt, n) else row) db
  | AUpdateMany pt os ns =>
      fold_left (fun d on => map (fun row => if row_is pt (fst on) row then (pt, snd on) else row) d)
                (combine os ns) db
  | AUpdateFiltered pt ns i vs =>
      filter (fun row => negb (row_matches pt i vs row)) db ++ map (fun r => (pt, r)) ns
  | ASave rows => rows
  end.

(* which notification a successful operation sends (internal_enforcer.py) *)
Definition notify (k : mkind) (s : mstate) (specific : wcall) (offered_from : N) : list wcall :=
  if (0 <? k_watcher k) && m_auto_notify s then
    (if offered_from <=? k_watcher k then [specific] else [WUpdate])
  else [].

Definition use_adapter (k : mkind) (s : mstate) : bool := k_adapter k && m_auto_save s.

(* ---------- role links from grouping rules (assertion.py:34-66) ---------- *)
Definition rm_link_add (rm : rmk) (r : rule) : rmk :=
  match rm, r with
  | RMPlain s, u :: ro :: _ => RMPlain (rm_add_link s u ro)
  | RMDom s, u :: ro :: d :: _ => RMDom (dm_add_link s u ro d)
  | RMDom s, [u; ro] => RMDom (dm_add_link s u ro empty_dom)
  | _, _ => rm
  end.
Definition rm_link_del (rm : rmk) (r : rule) : rmk * option N :=
  match rm, r with
  | RMPlain s, u :: ro :: _ => let '(s', e) := rm_delete_link_x s u ro in (RMPlain s', e)
  | RMDom s, u :: ro :: d :: _ => let '(s', e) := dm_delete_link_x s u ro d in (RMDom s', e)
  | RMDom s, [u; ro] => let '(s', e) := dm_delete_link_x s u ro empty_dom in (RMDom s', e)
  | _, _ => (rm, None)
  end.

(* one pass over rules; stops at the first exception, leaving what was done so far *)
Fixpoint links_add (cnt : nat) (rm : rmk) (rules : list rule) (short_err : N) : rmk * option N :=
  match rules with
  | [] => (rm, None)
  | r :: rest =>
      if (length r <? cnt)%nat then (rm, Some short_err)
      else links_add cnt (rm_link_add rm (firstn cnt r)) rest short_err
  end.
Fixpoint links_del (cnt : nat) (rm : rmk) (rules : list rule) : rmk * option N :=
  match rules with
  | [] => (rm, None)
  | r :: rest =>
      if (length r <? cnt)%nat then (rm, Some EGroupArity)
      else match rm_link_del rm (firstn cnt r) with
           | (rm', None) => links_del cnt rm' rest
           | (rm', Some e) => (rm', Some e)
           end
  end.

Definition rm_of (s : mstate) (pt : N) : rmk := if pt =? PT_G then m_rm s else RMPlain (m_rm2 s).
Definition put_rm (s : mstate) (pt : N) (rm : rmk) : mstate :=
  if pt =? PT_G then set_rm s rm
  else match rm with RMPlain r => set_rm2 s r | RMDom _ => s end.
Definition clear_rmk (rm : rmk) : rmk :=
  match rm with RMPlain s => RMPlain (rm_clear s) | RMDom s => RMDom (dm_clear s) end.

(* CoreEnforcer.build_role_links (316-322): clear every manager, then relink g, then g2.
   A model without a role definition has no such rule list at all; in this model its list is then
   always empty (grouping calls on an undefined type are refused in [step], [deliver] drops such
   rows), so relinking it unconditionally is the same as skipping it. *)
Definition build_role_links (k : mkind) (s : mstate) : mstate * option N :=
  let s0 := set_rm2 (set_rm s (clear_rmk (m_rm s))) (rm_clear (m_rm2 s)) in
  let '(rm, e) := links_add (g_count k PT_G) (m_rm s0) (m_g s0) EGroupArity in
  let s1 := set_rm s0 rm in
  match e with
  | Some c => (s1, Some c)
  | None =>
      let '(rm2, e2) := links_add 2 (RMPlain (m_rm2 s1)) (m_g2 s1) EGroupArity in
      (put_rm s1 PT_G2 rm2, e2)
  end.

(* ---------- the decision procedure ---------- *)
Definition g_link (rm : rmk) (a b : name) (d : name) : bool :=
  match rm with
  | RMPlain s => rm_has_link s a b
  | RMDom s => fst (dm_has_link s a b d)
  end.
Definition touch_dom (rm : rmk) (d : name) : rmk :=
  match rm with RMDom s => RMDom (snd (dm_get_rm s d)) | _ => rm end.

Definition fld (r : rule) (i : nat) : name := nth i r 0.

Definition rule_matches (k : mkind) (s : mstate) (req : rule) (r : rule) : bool :=
  let rsub := fld req 0 in
  let rdom := fld req 1 in
  let robj := fld req (if k_dom k then 2 else 1)%nat in
  let ract := fld req (if k_dom k then 3 else 2)%nat in
  (if k_g k then g_link (m_rm s) rsub (fld r (i_sub k)) (if k_dom k then rdom else empty_dom)
   else rsub =? fld r (i_sub k))
  && (if k_dom k then rdom =? fld r (i_dom k) else true)
  && (if k_g2 k then rm_has_link (m_rm2 s) robj (fld r (i_obj k)) else robj =? fld r (i_obj k))
  && (ract =? fld r (i_act k)).

Definition rule_outcome (k : mkind) (s : mstate) (req : rule) (r : rule) : outcome :=
  if negb (Nat.eqb (length r) (p_arity k)) then BadSize
  else if rule_matches k s req r then
         (if k_eft k then
            let e := fld r (i_eft k) in
            if e =? A_ALLOW then Match EAllow else if e =? A_DENY then Match EDeny else Match EOther
          else Match EAllow)
       else NoMatch.

Definition empty_rule (k : mkind) : rule := repeat 0 (p_arity k).

Definition enforce_ex_m (k : mkind) (s : mstate) (req : rule) : mstate * result (bool * option nat) :=
  let ok := Nat.eqb (length req) (r_arity k) in
  let c := {| enabled := m_enabled s; arity_ok := ok |} in
  let outs := map (rule_outcome k s req) (m_p s) in
  let em := rule_matches k s req (empty_rule k) in
  let res := enforce_ex (intermediate_ref (k_eff k)) (final_ref (k_eff k)) eff_bool c outs em in
  (* g(r.sub, p.sub, r.dom) builds the per-domain manager the first time a rule is evaluated *)
  let evaluated := m_enabled s && ok && k_g k && k_dom k
                   && match m_p s with [] => true | r :: _ => Nat.eqb (length r) (p_arity k) end in
  ((if evaluated then set_rm s (touch_dom (m_rm s) (fld req 1)) else s), res).

(* ---------- RBAC queries (enforcer.py) ---------- *)
Definition rmk_get_roles (rm : rmk) (u d : name) : list name * rmk :=
  match rm with
  | RMPlain s => (rm_get_roles s u, rm)
  | RMDom s => let '(l, s') := dm_get_roles s u d in (l, RMDom s')
  end.
Definition rmk_get_users (rm : rmk) (r d : name) : list name * rmk :=
  match rm with
  | RMPlain s => (rm_get_users s r, rm)
  | RMDom s => let '(l, s') := dm_get_users s r d in (l, RMDom s')
  end.

Fixpoint append_new (res queue : list name) (roles : list name) : list name * list name :=
  match roles with
  | [] => (res, queue)
  | r :: rest => if mem N.eqb r res then append_new res queue rest
                 else append_new (res ++ [r]) (queue ++ [r]) rest
  end.

(* get_implicit_roles_for_user (129-153): queue + result list; every manager in rm_map is asked.
   Set-iteration order of get_roles is unspecified, so the result is compared as a set. *)
Fixpoint impl_roles (fuel : nat) (k : mkind) (s : mstate) (d : name) (res queue : list name)
  : result (list name * mstate) :=
  match queue with
  | [] => Ok (res, s)
  | n :: q =>
      match fuel with
      | O => Err EFuel
      | S f =>
          let '(r1, rm') := if k_g k then rmk_get_roles (m_rm s) n d else ([], m_rm s) in
          let s' := set_rm s rm' in
          let '(res1, q1) := append_new res q r1 in
          let r2 := if k_g2 k then rm_get_roles (m_rm2 s') n else [] in
          let '(res2, q2) := append_new res1 q1 r2 in
          impl_roles f k s' d res2 q2
      end
  end.

Definition names_bound (s : mstate) : nat :=
  S (S (2 * (length (m_g s) + length (m_g2 s)) +
        match m_rm s with RMPlain r => 2 * length (rm_links r) | RMDom d => 2 * length (concat (map snd (dm_links d))) end
        + 2 * length (rm_links (m_rm2 s)))).

Definition get_implicit_roles (k : mkind) (s : mstate) (u d : name) : result (list name * mstate) :=
  impl_roles (names_bound s) k s d [] [u].

(* get_named_permissions_for_user_in_domain = get_filtered_named_policy(ptype, 0, user, domain) *)
Fixpoint perms_for (l : store) (roles : list name) (d : name) : result (list rule) :=
  match roles with
  | [] => Ok []
  | r :: rest =>
      match get_filtered l 0 [r; d], perms_for l rest d with
      | Ok a, Ok b => Ok (a ++ b)
      | Err c, _ => Err c
      | _, Err c => Err c
      end
  end.

Definition get_implicit_permissions (k : mkind) (s : mstate) (u d : name) : result (list rule * mstate) :=
  match get_implicit_roles k s u d with
  | Err c => Err c
  | Ok (roles, s') =>
      match perms_for (m_p s') (u :: roles) d with
      | Ok l => Ok (l, s')
      | Err c => Err c
      end
  end.

Definition set_subtract (a b : list name) : list name := filter (fun x => negb (mem N.eqb x b)) a.

(* util.array_remove_duplicates = list(OrderedDict.fromkeys(s)): first occurrences, in order *)
Fixpoint dedup_first (seen l : list name) : list name :=
  match l with
  | [] => []
  | x :: r => if mem N.eqb x seen then dedup_first seen r else x :: dedup_first (x :: seen) r
  end.

(* get_implicit_users_for_permission (212-238) *)
Fixpoint users_allowed (k : mkind) (s : mstate) (subjects : list name) (perm : list name)
  : mstate * result (list name) :=
  match subjects with
  | [] => (s, Ok [])
  | u :: rest =>
      match enforce_ex_m k s (u :: perm) with
      | (s', Err c) => (s', Err c)
      | (s', Ok (b, _)) =>
          match users_allowed k s' rest perm with
          | (s'', Ok l) => (s'', Ok (if b then u :: l else l))
          | (s'', Err c) => (s'', Err c)
          end
      end
  end.

Definition get_implicit_users_for_permission (k : mkind) (s : mstate) (perm : list name)
  : mstate * result (list name) :=
  match values_for_field (m_p s) (i_sub k) [], values_for_field (m_g s) 1 [], values_for_field (m_g s) 0 [] with
  | Ok psub, Ok ginh, Ok gsub =>
      users_allowed k s (set_subtract (dedup_first [] (gsub ++ psub)) ginh) perm
  | Err c, _, _ => (s, Err c)
  | _, Err c, _ => (s, Err c)
  | _, _, Err c => (s, Err c)
  end.

(* get_implicit_users_for_resource (280-309) / _by_domain (311-337, repaired: the domain test comes
   first).  Result = keys of a dict in insertion order; members come from a set -> compared sorted. *)
Definition add_key (acc : list rule) (r : rule) : list rule :=
  if mem rule_eqb r acc then acc else acc ++ [r].

Fixpoint users_for_resource (k : mkind) (rm : rmk) (roles : list name) (res : name) (dom : option name)
         (l : store) (acc : list rule) : result (list rule * rmk) :=
  match l with
  | [] => Ok (acc, rm)
  | r :: rest =>
      match field r (i_obj k) with
      | None => Err EIndex
      | Some o =>
          if negb (o =? res) then users_for_resource k rm roles res dom rest acc
          else
            match field r (i_sub k) with
            | None => Err EIndex
            | Some sub =>
                let skip := match dom with
                            | Some d => match field r (i_dom k) with Some rd => negb (rd =? d) | None => false end
                            | None => false
                            end in
                if skip then users_for_resource k rm roles res dom rest acc
                else if negb (mem N.eqb sub roles) then users_for_resource k rm roles res dom rest (add_key acc r)
                else
                  let '(us, rm') := rmk_get_users rm sub (match dom with Some d => d | None => empty_dom end) in
                  users_for_resource k rm' roles res dom rest
                    (fold_left (fun a u => add_key a (set_nth (i_sub k) u r)) us acc)
            end
      end
  end.

(* get_all_roles_by_domain (266-278): role = second-to-last, domain = last field of each g rule *)
Fixpoint roles_by_domain (l : store) (d : name) : list name :=
  match l with
  | [] => []
  | r :: rest =>
      let n := length r in
      let here := if nth (n - 1) r 0 =? d then [nth (n - 2) r 0] else [] in
      here ++ roles_by_domain rest d
  end.

(* ---------- operations ---------- *)
Inductive op :=
(* management API, by policy type code (0 p, 1 g, 2 g2) *)
| OAdd (pt : N) (r : rule) | OAddMany (pt : N) (rs : list rule)
| ORemove (pt : N) (r : rule) | ORemoveMany (pt : N) (rs : list rule)
| ORemoveFiltered (pt : N) (i : nat) (vs : list name)
| OUpdate (o n : rule) | OUpdateMany (os ns : list rule)
| OUpdateFiltered (ns : list rule) (i : nat) (vs : list name)
(* RBAC API wrappers *)
| ODeleteUser (u : name) | ODeleteRole (r : name) | ODeletePermission (vs : list name)
| OAddPermissionForUser (u : name) (vs : list name) | ODeletePermissionForUser (u : name) (vs : list name)
| ODeletePermissionsForUser (u : name)
| OAddRoleForUser (u r : name) | ODeleteRoleForUser (u r : name) | ODeleteRolesForUser (u : name)
| OAddRoleForUserInDomain (u r d : name) | ODeleteRolesForUserInDomain (u r d : name)
(* enforcer level *)
| OClear | OLoad | OLoadFail (n : nat) | OSave | OBuildLinks
| OAutoSave (b : bool) | OAutoBuild (b : bool) | OAutoNotify (b : bool) | OEnable (b : bool)
(* queries *)
| QEnforce (req : rule) | QEnforceEx (req : rule)
| QPolicy (pt : N) | QFiltered (pt : N) (i : nat) (vs : list name) | QHas (pt : N) (r : rule)
| QRoles (u : name) | QUsers (r : name) | QRolesDom (u d : name) | QUsersDom (r d : name)
| QHasLink (pt : N) (a b : name) (d : list name)
| QImplRoles (u d : name) | QImplPerms (u d : name) | QImplUsers (perm : list name)
| QUsersForResource (o : name) | QUsersForResourceDom (o d : name)
| QAllSubjects | QAllObjects | QAllActions | QAllRoles
| QPermsForUser (u : name) | QPermsForUserDom (u d : name).

(* observation encodings *)
Definition vrule (r : rule) : val := VL (map VN r).
Definition vrules (l : list rule) : val := VL (map vrule l).
Definition vN (n : N) := VN n.
Definition ok (v : val) : val := VL [VN 0; v].

Record outp := mkOut { o_val : val; o_acalls : list acall; o_wcalls : list wcall }.
Definition out_v (v : val) : outp := mkOut v [] [].

(* ----- internal API (internal_enforcer.py) ----- *)
(* _add_policy *)
Definition i_add (k : mkind) (s : mstate) (pt : N) (r : rule) : mstate * bool * list acall * list wcall :=
  let '(l', b) := add_policy (prio_opt_on k (m_prio_on s) pt) (get_store s pt) r in
  if negb b then (s, false, [], [])
  else
    let s' := set_store s pt l' in
    if use_adapter k s then (s', true, [AAdd pt r], notify k s (WAdd pt r) 2)
    else (s', true, [], []).

Definition i_add_many (k : mkind) (s : mstate) (pt : N) (rs : list rule) : mstate * bool * list acall * list wcall :=
  let '(l', b) := add_policies (prio_opt_on k (m_prio_on s) pt) (get_store s pt) rs in
  if negb b then (s, false, [], [])
  else
    let s' := set_store s pt l' in
    if use_adapter k s then (s', true, [AAddMany pt rs], notify k s (WAddMany pt rs) 2)
    else (s', true, [], []).

Definition i_remove (k : mkind) (s : mstate) (pt : N) (r : rule) : mstate * bool * list acall * list wcall :=
  let '(l', b) := remove_policy (get_store s pt) r in
  if negb b then (set_store s pt l', false, [], [])
  else
    let s' := set_store s pt l' in
    if use_adapter k s then (s', true, [ARemove pt r], notify k s (WRemove pt r) 2)
    else (s', true, [], []).

Definition i_remove_many (k : mkind) (s : mstate) (pt : N) (rs : list rule) : mstate * bool * list acall * list wcall :=
  let '(l', b) := remove_policies (get_store s pt) rs in
  if negb b then (s, false, [], [])
  else
    let s' := set_store s pt l' in
    if use_adapter k s then (s', true, [ARemoveMany pt rs], notify k s (WRemoveMany pt rs) 2)
    else (s', true, [], []).

Definition i_remove_filtered (k : mkind) (s : mstate) (pt : N) (i : nat) (vs : list name)
  : result (mstate * bool * list acall * list wcall) :=
  match remove_filtered (get_store s pt) i vs with
  | Err c => Err c
  | Ok (l', b) =>
      let s' := set_store s pt l' in
      if negb b then Ok (s', false, [], [])
      else if use_adapter k s then Ok (s', true, [ARemoveFiltered pt i vs], notify k s (WRemoveFiltered pt i vs) 2)
      else Ok (s', true, [], [])
  end.

(* _remove_filtered_policy_returns_effects *)
Definition i_remove_filtered_eff (k : mkind) (s : mstate) (pt : N) (i : nat) (vs : list name)
  : result (mstate * list rule * list acall * list wcall) :=
  match remove_filtered_effects (get_store s pt) i vs with
  | Err c => Err c
  | Ok (l', gone) =>
      let s' := set_store s pt l' in
      match gone with
      | [] => Ok (s', [], [], [])
      | _ => if use_adapter k s then Ok (s', gone, [ARemoveFiltered pt i vs], notify k s (WRemoveFiltered pt i vs) 2)
             else Ok (s', gone, [], [])
      end
  end.

(* ----- grouping wrappers (management_enforcer.py:227-307) ----- *)
Definition after_links (s : mstate) (pt : N) (x : rmk * option N) (v : val) (ac : list acall) (wc : list wcall)
  : mstate * outp :=
  let s' := put_rm s pt (fst x) in
  match snd x with
  | None => (s', mkOut v ac wc)
  | Some e => (s', mkOut (verr e) ac wc)
  end.

Definition g_add (k : mkind) (s : mstate) (pt : N) (r : rule) : mstate * outp :=
  let '(s1, b, ac, wc) := i_add k s pt r in
  if m_auto_build s && b then
    after_links s1 pt (links_add (g_count k pt) (rm_of s1 pt) [r] EGroupArity) (ok (vbool b)) ac wc
  else (s1, mkOut (ok (vbool b)) ac wc).

Definition g_add_many (k : mkind) (s : mstate) (pt : N) (rs : list rule) : mstate * outp :=
  let '(s1, b, ac, wc) := i_add_many k s pt rs in
  if m_auto_build s && b then
    after_links s1 pt (links_add (g_count k pt) (rm_of s1 pt) rs EGroupArity) (ok (vbool b)) ac wc
  else (s1, mkOut (ok (vbool b)) ac wc).

Definition g_remove (k : mkind) (s : mstate) (pt : N) (r : rule) : mstate * outp :=
  let '(s1, b, ac, wc) := i_remove k s pt r in
  if m_auto_build s && b then
    after_links s1 pt (links_del (g_count k pt) (rm_of s1 pt) [r]) (ok (vbool b)) ac wc
  else (s1, mkOut (ok (vbool b)) ac wc).

Definition g_remove_many (k : mkind) (s : mstate) (pt : N) (rs : list rule) : mstate * outp :=
  let '(s1, b, ac, wc) := i_remove_many k s pt rs in
  if m_auto_build s && b then
    after_links s1 pt (links_del (g_count k pt) (rm_of s1 pt) rs) (ok (vbool b)) ac wc
  else (s1, mkOut (ok (vbool b)) ac wc).

(* returns the removed rules (a list), not a bool *)
Definition g_remove_filtered (k : mkind) (s : mstate) (pt : N) (i : nat) (vs : list name) : mstate * outp :=
  match i_remove_filtered_eff k s pt i vs with
  | Err c => (s, out_v (verr c))
  | Ok (s1, gone, ac, wc) =>
      match gone with
      | [] => (s1, mkOut (ok (vrules [])) ac wc)
      | _ => if m_auto_build s then
               after_links s1 pt (links_del (g_count k pt) (rm_of s1 pt) gone) (ok (vrules gone)) ac wc
             else (s1, mkOut (ok (vrules gone)) ac wc)
      end
  end.

Definition p_remove_filtered (k : mkind) (s : mstate) (i : nat) (vs : list name) : mstate * outp :=
  match i_remove_filtered k s PT_P i vs with
  | Err c => (s, out_v (verr c))
  | Ok (s1, b, ac, wc) => (s1, mkOut (ok (vbool b)) ac wc)
  end.

Definition is_g (pt : N) : bool := negb (pt =? PT_P).

(* `res1 or res2` of delete_user / delete_role: res1 is a list (truthy iff non-empty) *)
Definition or_val (v1 v2 : val) : val :=
  match v1 with
  | VL [VN 0; VL []] => v2
  | _ => v1
  end.

Definition is_err (v : val) : bool :=
  match v with VL [VN c; _] => c =? 999 | _ => false end.

Definition seq2 (s : mstate) (f1 f2 : mstate -> mstate * outp) : mstate * outp :=
  let '(s1, o1) := f1 s in
  if is_err (o_val o1) then (s1, o1)
  else let '(s2, o2) := f2 s1 in
       if is_err (o_val o2)
       then (s2, mkOut (o_val o2) (o_acalls o1 ++ o_acalls o2) (o_wcalls o1 ++ o_wcalls o2))
       else (s2, mkOut (or_val (o_val o1) (o_val o2)) (o_acalls o1 ++ o_acalls o2) (o_wcalls o1 ++ o_wcalls o2)).

(* ----- load_policy (core_enforcer.py:219-252) ----- *)
(* adapter.load_policy: rows delivered in order, appended to their policy type; fails after n rows *)
Fixpoint deliver (k : mkind) (rows : list (N * rule)) (fail_at : option nat) (p g g2 : store)
  : result (store * store * store) :=
  match fail_at with
  | Some O => Err EAdapterFail
  | _ =>
      match rows with
      | [] => match fail_at with Some _ => Err EAdapterFail | None => Ok (p, g, g2) end
      | (pt, r) :: rest =>
          let fa := match fail_at with Some (S n) => Some n | x => x end in
          (* load_policy_line: rows of a policy type the model does not define are ignored *)
          if pt =? PT_P then deliver k rest fa (p ++ [r]) g g2
          else if pt =? PT_G then (if k_g k then deliver k rest fa p (g ++ [r]) g2 else deliver k rest fa p g g2)
          else if pt =? PT_G2 then (if k_g2 k then deliver k rest fa p g (g2 ++ [r]) else deliver k rest fa p g g2)
          else deliver k rest fa p g g2
      end
  end.

Definition load_policy (k : mkind) (s : mstate) (fail_at : option nat) : mstate * val :=
  match deliver k (m_db s) fail_at [] [] [] with
  | Err c => (s, verr c)                                   (* nothing was touched yet *)
  | Ok (p, g, g2) =>
      match (if k_prio k then sort_by_priority 0 p else Ok p) with
      | Err c => (s, verr c)
      | Ok p' =>
          let cand := mkM p' g g2 (m_rm s) (m_rm2 s) (m_auto_save s) (m_auto_build s) (m_auto_notify s) (m_enabled s) (m_db s) (m_prio_on s || k_prio k) in
          if m_auto_build s then
            match build_role_links k cand with
            | (s', None) => (s', ok (VL []))
            | (_, Some c) =>
                (* rollback: rebuild the links of the OLD model; re-raise *)
                (fst (build_role_links k s), verr c)
            end
          else (cand, ok (VL []))
      end
  end.

(* save_policy walks model["p"] then model["g"]; the rule list of an undefined role definition is
   always empty in this model (see build_role_links), so it is not special-cased *)
Definition all_rows (k : mkind) (s : mstate) : list (N * rule) :=
  map (fun r => (PT_P, r)) (m_p s) ++ map (fun r => (PT_G, r)) (m_g s) ++ map (fun r => (PT_G2, r)) (m_g2 s).

(* ----- one step ----- *)
Definition wrap_b (x : mstate * bool * list acall * list wcall) : mstate * outp :=
  let '(s, b, ac, wc) := x in (s, mkOut (ok (vbool b)) ac wc).

Definition res_names (s : mstate) (r : result (list name)) : mstate * outp :=
  match r with Ok l => (s, out_v (ok (VL (map VN l)))) | Err c => (s, out_v (verr c)) end.

(* is the policy type defined by the model?  (model["g"] may not exist at all) *)
Definition has_pt (k : mkind) (pt : N) : bool :=
  if pt =? PT_P then true else if pt =? PT_G then k_g k else k_g2 k.

Definition step (k : mkind) (s : mstate) (o : op) : mstate * outp :=
  match o with
  (* a grouping call on a model without that role definition: add* fail on model["g"][ptype]
     (TypeError / KeyError); remove* find nothing (policy.py:106-111, 255-258) *)
  | OAdd pt r => if negb (has_pt k pt) then (s, out_v (verr EType)) else
                 if is_g pt then g_add k s pt r else wrap_b (i_add k s pt r)
  | OAddMany pt rs => if negb (has_pt k pt) then (s, out_v (verr EType)) else
                      if is_g pt then g_add_many k s pt rs else wrap_b (i_add_many k s pt rs)
  | ORemove pt r => if negb (has_pt k pt) then (s, out_v (ok (vbool false))) else
                    if is_g pt then g_remove k s pt r else wrap_b (i_remove k s pt r)
  | ORemoveMany pt rs => if negb (has_pt k pt) then (s, out_v (ok (vbool false))) else
                         if is_g pt then g_remove_many k s pt rs else wrap_b (i_remove_many k s pt rs)
  | ORemoveFiltered pt i vs => if negb (has_pt k pt) then (s, out_v (ok (vrules []))) else
                               if is_g pt then g_remove_filtered k s pt i vs else p_remove_filtered k s i vs
  | OUpdate o n =>
      match update_policy (prio_tok k PT_P) (m_p s) o n with
      | Err c => (s, out_v (verr c))
      | Ok (l', b) =>
          if negb b then (s, out_v (ok (vbool false)))
          else let s' := set_store s PT_P l' in
               if use_adapter k s then (s', mkOut (ok (vbool true)) [AUpdate PT_P o n] (notify k s (WUpdatePolicy o n) 3))
               else (s', out_v (ok (vbool true)))
      end
  | OUpdateMany os ns =>
      match update_policies (prio_tok k PT_P) (m_p s) os ns with
      | Err c => (s, out_v (verr c))
      | Ok (l', b) =>
          if negb b then (s, out_v (ok (vbool false)))
          else let s' := set_store s PT_P l' in
               if use_adapter k s then (s', mkOut (ok (vbool true)) [AUpdateMany PT_P os ns] (notify k s (WUpdatePolicies os ns) 3))
               else (s', out_v (ok (vbool true)))
      end
  | OUpdateFiltered ns i vs =>
      (* internal_enforcer.py:92-116, mirrored as it is (see known finding C09/update-filtered) *)
      match get_filtered (m_p s) i vs with
      | Err c => (s, out_v (verr c))
      | Ok old_mem =>
          let uses := use_adapter k s in
          let old := if uses then db_rows PT_P (filter (row_matches PT_P i vs) (m_db s)) else old_mem in
          let ac := if uses then [AUpdateFiltered PT_P ns i vs] else [] in
          match old with
          | [] => (s, mkOut (ok (vbool false)) ac [])
          | _ =>
              let '(l1, b1) := remove_policies (m_p s) old in
              let '(l2, _) := add_policies (prio_opt_on k (m_prio_on s) PT_P) l1 ns in
              let s' := set_store s PT_P l2 in
              let changed := b1 && negb (match ns with [] => true | _ => false end) in
              if negb changed then (s', mkOut (ok (vbool false)) ac [])
              else (s', mkOut (ok (vbool true)) ac (if (0 <? k_watcher k) && m_auto_notify s then [WUpdate] else []))
          end
      end
  | ODeleteUser u =>
      seq2 s (fun s => if k_g k then g_remove_filtered k s PT_G 0 [u] else (s, out_v (ok (vrules []))))
             (fun s => p_remove_filtered k s 0 [u])
  | ODeleteRole r =>
      seq2 s (fun s => if k_g k then g_remove_filtered k s PT_G 1 [r] else (s, out_v (ok (vrules []))))
             (fun s => p_remove_filtered k s 0 [r])
  | ODeletePermission vs => p_remove_filtered k s 1 vs
  | OAddPermissionForUser u vs => wrap_b (i_add k s PT_P (u :: vs))
  | ODeletePermissionForUser u vs => wrap_b (i_remove k s PT_P (u :: vs))
  | ODeletePermissionsForUser u => p_remove_filtered k s 0 [u]
  | OAddRoleForUser u r => if k_g k then g_add k s PT_G [u; r] else (s, out_v (verr EType))
  | ODeleteRoleForUser u r => if k_g k then g_remove k s PT_G [u; r] else (s, out_v (ok (vbool false)))
  | ODeleteRolesForUser u => if k_g k then g_remove_filtered k s PT_G 0 [u] else (s, out_v (ok (vrules [])))
  | OAddRoleForUserInDomain u r d => if k_g k then g_add k s PT_G [u; r; d] else (s, out_v (verr EType))
  | ODeleteRolesForUserInDomain u r d =>
      if k_g k then g_remove_filtered k s PT_G 0 [u; r; d] else (s, out_v (ok (vrules [])))
  | OClear =>
      (* clear_policy (repaired): rules gone, and with auto-build the role links with them *)
      let s1 := mkM [] [] [] (m_rm s) (m_rm2 s) (m_auto_save s) (m_auto_build s) (m_auto_notify s) (m_enabled s) (m_db s) (m_prio_on s) in
      if m_auto_build s then (set_rm2 (set_rm s1 (clear_rmk (m_rm s1))) (rm_clear (m_rm2 s1)), out_v (ok (VL [])))
      else (s1, out_v (ok (VL [])))
  | OLoad => if negb (k_adapter k) then (s, out_v (verr EAttr)) else
             let '(s', v) := load_policy k s None in (s', out_v v)
  | OLoadFail n => if negb (k_adapter k) then (s, out_v (verr EAttr)) else
                   let '(s', v) := load_policy k s (Some n) in (s', out_v v)
  | OSave =>
      if negb (k_adapter k) then (s, out_v (verr EAttr)) else
      let rows := all_rows k s in
      (set_db s rows, mkOut (ok (VL [])) [ASave rows]
                            (if 0 <? k_watcher k then (if 2 <=? k_watcher k then [WSave] else [WUpdate]) else []))
  | OBuildLinks =>
      match build_role_links k s with
      | (s', None) => (s', out_v (ok (VL [])))
      | (s', Some c) => (s', out_v (verr c))
      end
  | OAutoSave b => (set_flags s b (m_auto_build s) (m_auto_notify s) (m_enabled s), out_v (ok (VL [])))
  | OAutoBuild b => (set_flags s (m_auto_save s) b (m_auto_notify s) (m_enabled s), out_v (ok (VL [])))
  | OAutoNotify b => (set_flags s (m_auto_save s) (m_auto_build s) b (m_enabled s), out_v (ok (VL [])))
  | OEnable b => (set_flags s (m_auto_save s) (m_auto_build s) (m_auto_notify s) b, out_v (ok (VL [])))
  | QEnforce req =>
      let '(s', r) := enforce_ex_m k s req in
      (s', out_v (match r with Ok (b, _) => ok (vbool b) | Err c => verr c end))
  | QEnforceEx req =>
      let '(s', r) := enforce_ex_m k s req in
      (s', out_v (match r with
                  | Ok (b, ex) => ok (VL [vbool b; match ex with Some i => vrule (nth i (m_p s) []) | None => VL [] end])
                  | Err c => verr c
                  end))
  | QPolicy pt => (s, out_v (ok (vrules (get_store s pt))))
  | QFiltered pt i vs =>
      (s, out_v (match get_filtered (get_store s pt) i vs with Ok l => ok (vrules l) | Err c => verr c end))
  | QHas pt r => (s, out_v (ok (vbool (has_policy (get_store s pt) r))))
  | QRoles u => let '(l, rm) := rmk_get_roles (m_rm s) u empty_dom in
                (* RoleManager.get_roles(name) / DomainManager.get_roles(name) with no domain -> "" *)
                (set_rm s rm, out_v (ok (VL (map VN l))))
  | QUsers r => let '(l, rm) := rmk_get_users (m_rm s) r empty_dom in (set_rm s rm, out_v (ok (VL (map VN l))))
  | QRolesDom u d => let '(l, rm) := rmk_get_roles (m_rm s) u d in (set_rm s rm, out_v (ok (VL (map VN l))))
  | QUsersDom r d => let '(l, rm) := rmk_get_users (m_rm s) r d in (set_rm s rm, out_v (ok (VL (map VN l))))
  | QHasLink pt a b d =>
      match rm_of s pt with
      | RMPlain r => (s, out_v (ok (vbool (rm_has_link r a b))))
      | RMDom dm => match dm_has_link_d dm a b d with
                    | Ok (b', dm') => (set_rm s (RMDom dm'), out_v (ok (vbool b')))
                    | Err c => (s, out_v (verr c))
                    end
      end
  | QImplRoles u d =>
      match get_implicit_roles k s u d with
      | Ok (l, s') => (s', out_v (ok (VL (map VN l))))
      | Err c => (s, out_v (verr c))
      end
  | QImplPerms u d =>
      match get_implicit_permissions k s u d with
      | Ok (l, s') => (s', out_v (ok (vrules l)))
      | Err c => (s, out_v (verr c))
      end
  | QImplUsers perm =>
      let '(s', r) := get_implicit_users_for_permission k s perm in res_names s' r
  | QUsersForResource o =>
      match values_for_field (m_g s) 1 [] with
      | Err c => (s, out_v (verr c))
      | Ok roles =>
          match users_for_resource k (m_rm s) roles o None (m_p s) [] with
          | Ok (l, rm) => (set_rm s rm, out_v (ok (vrules l)))
          | Err c => (s, out_v (verr c))
          end
      end
  | QUsersForResourceDom o d =>
      match users_for_resource k (m_rm s) (roles_by_domain (m_g s) d) o (Some d) (m_p s) [] with
      | Ok (l, rm) => (set_rm s rm, out_v (ok (vrules l)))
      | Err c => (s, out_v (verr c))
      end
  | QAllSubjects => res_names s (values_for_field (m_p s) (i_sub k) [])
  | QAllObjects => res_names s (values_for_field (m_p s) (i_obj k) [])
  | QAllActions => res_names s (values_for_field (m_p s) (i_act k) [])
  | QAllRoles => res_names s (values_for_field (m_g s) 1 [])
  | QPermsForUser u =>
      (s, out_v (match get_filtered (m_p s) 0 [u] with Ok l => ok (vrules l) | Err c => verr c end))
  | QPermsForUserDom u d =>
      (s, out_v (match get_filtered (m_p s) 0 [u; d] with Ok l => ok (vrules l) | Err c => verr c end))
  end.

(* every adapter call of the step applied to the faithful adapter's rows *)
Definition step_db (k : mkind) (s : mstate) (o : op) : mstate * outp :=
  let '(s', out) := step k s o in
  match o with
  | OSave => (s', out)                                   (* set_db already done *)
  | _ => (set_db s' (fold_left apply_acall (o_acalls out) (m_db s')), out)
  end.

Fixpoint run (k : mkind) (s : mstate) (ops : list op) : mstate * list outp :=
  match ops with
  | [] => (s, [])
  | o :: rest => let '(s', out) := step_db k s o in
                 let '(s'', outs) := run k s' rest in (s'', out :: outs)
  end.
