(* MgmtLinks.v — lemmas relating grouping-rule lists to role-manager states (used by C04 C05 C11). *)
From Coq Require Import List NArith Bool Arith Lia.
From PyCasbin Require Import Base Policy PolicyProofs RoleGraph RoleGraphProofs Mgmt.
Import ListNotations.
Local Open Scope N_scope.

Definition link_of (r : rule) : link := (nth 0 r 0, nth 1 r 0).
Definition dom_of (r : rule) : name := nth 2 r 0.
Definition glinks (g : store) : list link := map link_of g.
Definition in_dom (d : name) (r : rule) : bool := dom_of r =? d.
Definition glinks_dom (g : store) (d : name) : list link := glinks (filter (in_dom d) g).
Definition arity_ok (n : nat) (g : store) : Prop := Forall (fun r => length r = n) g.

(* ---------- shapes ---------- *)
Lemma len2 (r : rule) : length r = 2%nat -> exists a b, r = [a; b].
Proof. destruct r as [|a [|b [|c r]]]; simpl; intro H; try discriminate. eauto. Qed.
Lemma len3 (r : rule) : length r = 3%nat -> exists a b c, r = [a; b; c].
Proof. destruct r as [|a [|b [|c [|d r]]]]; simpl; intro H; try discriminate. eauto. Qed.

Lemma link_of_inj2 r r' : length r = 2%nat -> length r' = 2%nat -> link_of r = link_of r' -> r = r'.
Proof.
  intros H H'. destruct (len2 r H) as [a [b ->]]. destruct (len2 r' H') as [a' [b' ->]].
  unfold link_of. simpl. intro E. inversion E. reflexivity.
Qed.
Lemma link_of_inj3 r r' : length r = 3%nat -> length r' = 3%nat ->
  link_of r = link_of r' -> dom_of r = dom_of r' -> r = r'.
Proof.
  intros H H'. destruct (len3 r H) as [a [b [c ->]]]. destruct (len3 r' H') as [a' [b' [c' ->]]].
  unfold link_of, dom_of. simpl. intros E E'. inversion E. subst. reflexivity.
Qed.

Lemma arity_ok_In n g r : arity_ok n g -> In r g -> length r = n.
Proof. unfold arity_ok. rewrite Forall_forall. auto. Qed.
Lemma arity_ok_app n g g' : arity_ok n g -> arity_ok n g' -> arity_ok n (g ++ g').
Proof. unfold arity_ok. intros. apply Forall_app. split; assumption. Qed.
Lemma arity_ok_filter n f g : arity_ok n g -> arity_ok n (filter f g).
Proof.
  unfold arity_ok. rewrite !Forall_forall. intros H x Hx. apply filter_In in Hx. apply H. tauto.
Qed.

(* ---------- remove1 on cons ---------- *)
Lemma remove1_cons_eq x l : remove1 x (x :: l) = l.
Proof. unfold remove1. simpl. rewrite link_eqb_refl. reflexivity. Qed.
Lemma remove1_cons_neq x y l : x <> y -> remove1 x (y :: l) = y :: remove1 x l.
Proof.
  intro H. unfold remove1. simpl. destruct (link_eqb x y) eqn:E.
  - apply link_eqb_eq in E. contradiction.
  - destruct (remove_first link_eqb x l); reflexivity.
Qed.

(* removing a rule from a duplicate-free rule list = removing its image, for any f injective at r *)
Lemma map_remove_inj (f : rule -> link) : forall g r,
  NoDup g -> In r g -> (forall x, In x g -> f x = f r -> x = r) ->
  map f (filter (neqb r) g) = remove1 (f r) (map f g).
Proof.
  induction g as [|x g IH]; intros r Hnd Hin Hinj; [contradiction|].
  inversion Hnd as [|? ? Hx Hnd']; subst. simpl. unfold neqb at 1.
  destruct (rule_eqb x r) eqn:E.
  - apply rule_eqb_eq in E. subst x. simpl. rewrite remove1_cons_eq.
    rewrite filter_neqb_notin by assumption. reflexivity.
  - simpl. assert (Hne : f r <> f x).
    { intro Hf. apply rule_eqb_neq in E. apply E. apply Hinj; [left; reflexivity|symmetry; exact Hf]. }
    rewrite remove1_cons_neq by exact Hne. f_equal. apply IH.
    + assumption.
    + destruct Hin as [Hin|Hin]; [subst; rewrite rule_eqb_refl in E; discriminate|assumption].
    + intros y Hy. apply Hinj. right. assumption.
Qed.

Lemma map_notin_inj (f : rule -> link) : forall g r,
  (forall x, In x g -> f x = f r -> x = r) -> ~ In r g -> ~ In (f r) (map f g).
Proof.
  intros g r Hinj Hr Hin. apply in_map_iff in Hin. destruct Hin as [x [Hfx Hx]].
  apply Hr. rewrite <- (Hinj x Hx Hfx). assumption.
Qed.

(* ---------- plain role definitions (arity 2) ---------- *)
Lemma glinks_NoDup g : arity_ok 2 g -> NoDup g -> NoDup (glinks g).
Proof.
  intros Ha Hnd. induction Hnd as [|x g Hx Hnd IH]; simpl; [constructor|].
  inversion Ha; subst. constructor; [|apply IH; assumption].
  intro Hin. apply in_map_iff in Hin. destruct Hin as [y [Hy Hyin]].
  assert (y = x).
  { apply link_of_inj2; [eapply arity_ok_In; eassumption|assumption|assumption]. }
  subst. contradiction.
Qed.

Lemma glinks_In g r : arity_ok 2 g -> length r = 2%nat -> (In (link_of r) (glinks g) <-> In r g).
Proof.
  intros Ha Hr. split.
  - intro Hin. apply in_map_iff in Hin. destruct Hin as [y [Hy Hyin]].
    assert (y = r) by (apply link_of_inj2; [eapply arity_ok_In; eassumption|assumption|assumption]).
    subst. assumption.
  - intro Hin. apply in_map. assumption.
Qed.

Lemma glinks_remove g r : arity_ok 2 g -> NoDup g -> In r g ->
  glinks (filter (neqb r) g) = remove1 (link_of r) (glinks g).
Proof.
  intros Ha Hnd Hin. apply map_remove_inj; [assumption|assumption|].
  intros x Hx Hf. apply link_of_inj2; [eapply arity_ok_In; eassumption|eapply arity_ok_In; eassumption|assumption].
Qed.

(* ---------- domain role definitions (arity 3) ---------- *)
Lemma filter_comm {A} (f g : A -> bool) l : filter f (filter g l) = filter g (filter f l).
Proof.
  induction l as [|x l IH]; simpl; [reflexivity|].
  destruct (f x) eqn:F, (g x) eqn:G; simpl; rewrite ?F, ?G, IH; reflexivity.
Qed.

Lemma glinks_dom_NoDup g d : arity_ok 3 g -> NoDup g -> NoDup (glinks_dom g d).
Proof.
  intros Ha Hnd. unfold glinks_dom, glinks.
  assert (Ha' : arity_ok 3 (filter (in_dom d) g)) by (apply arity_ok_filter; assumption).
  assert (Hnd' : NoDup (filter (in_dom d) g)) by (apply NoDup_filter; assumption).
  assert (Hd : forall x, In x (filter (in_dom d) g) -> dom_of x = d).
  { intros x Hx. apply filter_In in Hx. destruct Hx as [_ Hx]. apply N.eqb_eq. exact Hx. }
  revert Ha' Hd. induction Hnd' as [|x l Hx Hl IH]; intros Ha' Hd; simpl; [constructor|].
  inversion Ha'; subst. constructor.
  - intro Hin. apply in_map_iff in Hin. destruct Hin as [y [Hy Hyin]].
    assert (y = x).
    { apply link_of_inj3; [eapply arity_ok_In; eassumption|assumption|assumption|].
      rewrite (Hd y) by (right; assumption). rewrite (Hd x) by (left; reflexivity). reflexivity. }
    subst. contradiction.
  - apply IH; [assumption|]. intros y Hy. apply Hd. right. assumption.
Qed.

Lemma glinks_dom_In g r : arity_ok 3 g -> length r = 3%nat ->
  (In (link_of r) (glinks_dom g (dom_of r)) <-> In r g).
Proof.
  intros Ha Hr. unfold glinks_dom, glinks. split.
  - intro Hin. apply in_map_iff in Hin. destruct Hin as [y [Hy Hyin]].
    apply filter_In in Hyin. destruct Hyin as [Hyin Hd]. apply N.eqb_eq in Hd.
    assert (y = r) by (apply link_of_inj3; [eapply arity_ok_In; eassumption|assumption|assumption|assumption]).
    subst. assumption.
  - intro Hin. apply in_map. apply filter_In. split; [assumption|apply N.eqb_eq; reflexivity].
Qed.

Lemma glinks_dom_app g g' d : glinks_dom (g ++ g') d = glinks_dom g d ++ glinks_dom g' d.
Proof. unfold glinks_dom, glinks. rewrite filter_app, map_app. reflexivity. Qed.

Lemma glinks_dom_single r d : glinks_dom [r] d = if dom_of r =? d then [link_of r] else [].
Proof. unfold glinks_dom, glinks, in_dom. simpl. destruct (dom_of r =? d); reflexivity. Qed.

Lemma glinks_dom_remove g r d : arity_ok 3 g -> NoDup g -> In r g ->
  glinks_dom (filter (neqb r) g) d =
  if d =? dom_of r then remove1 (link_of r) (glinks_dom g (dom_of r)) else glinks_dom g d.
Proof.
  intros Ha Hnd Hin. unfold glinks_dom. rewrite filter_comm.
  destruct (d =? dom_of r) eqn:E.
  - apply N.eqb_eq in E. subst d. unfold glinks. apply map_remove_inj.
    + apply NoDup_filter. assumption.
    + apply filter_In. split; [assumption|apply N.eqb_eq; reflexivity].
    + intros x Hx Hf. apply filter_In in Hx. destruct Hx as [Hx Hd]. apply N.eqb_eq in Hd.
      apply link_of_inj3; [eapply arity_ok_In; eassumption|eapply arity_ok_In; eassumption|assumption|assumption].
  - f_equal. apply filter_neqb_notin. intro Hr. apply filter_In in Hr. destruct Hr as [_ Hr].
    unfold in_dom in Hr. apply N.eqb_eq in Hr. apply N.eqb_neq in E. congruence.
Qed.

(* ---------- rule lists: filtering by membership ---------- *)
Lemma filter_notin_nil (l : store) : filter (notin []) l = l.
Proof. induction l as [|x l IH]; simpl; [reflexivity|]. f_equal. exact IH. Qed.

Lemma filter_notin_cons r rs (l : store) :
  filter (notin (r :: rs)) l = filter (notin rs) (filter (neqb r) l).
Proof.
  rewrite filter_filter_and. apply filter_ext. intro x. unfold notin, neqb. simpl.
  rewrite negb_orb. reflexivity.
Qed.

Lemma In_filter_neqb (l : store) r x : In x (filter (neqb r) l) <-> In x l /\ x <> r.
Proof.
  rewrite filter_In. unfold neqb. split; intros [H1 H2]; split; try assumption.
  - intro; subst. rewrite rule_eqb_refl in H2. discriminate.
  - apply negb_true_iff. apply rule_eqb_neq. assumption.
Qed.

(* ---------- links_add / links_del on a plain manager ---------- *)
Lemma ltb_len_false (r : rule) n : length r = n -> (length r <? n)%nat = false.
Proof. intro H. apply Nat.ltb_ge. lia. Qed.

Lemma firstn_len (r : rule) n : length r = n -> firstn n r = r.
Proof. intro H. subst. apply firstn_all. Qed.

Lemma links_add_plain L e : forall rs ls,
  arity_ok 2 rs -> NoDup (ls ++ glinks rs) ->
  links_add 2 (RMPlain (rm_set L ls)) rs e = (RMPlain (rm_set L (ls ++ glinks rs)), None).
Proof.
  induction rs as [|r rs IH]; intros ls Ha Hnd; simpl.
  - rewrite app_nil_r. reflexivity.
  - inversion Ha as [|? ? Hr Ha']; subst. rewrite (ltb_len_false r 2 Hr).
    destruct (len2 r Hr) as [u [ro ->]]. cbn [firstn rm_link_add].
    assert (Hn : ~ In (u, ro) ls).
    { intro Hin. apply NoDup_remove_2 in Hnd. apply Hnd. apply in_or_app. left. assumption. }
    rewrite rm_add_set by exact Hn.
    rewrite IH.
    + rewrite <- app_assoc. reflexivity.
    + assumption.
    + rewrite <- app_assoc. exact Hnd.
Qed.

Definition del_links (rs : list rule) (ls : list link) : list link :=
  fold_left (fun l r => remove1 (link_of r) l) rs ls.

Lemma links_del_plain L : forall rs ls,
  arity_ok 2 rs -> NoDup ls ->
  links_del 2 (RMPlain (rm_set L ls)) rs = (RMPlain (rm_set L (del_links rs ls)), None).
Proof.
  induction rs as [|r rs IH]; intros ls Ha Hnd; simpl; [reflexivity|].
  inversion Ha as [|? ? Hr Ha']; subst. rewrite (ltb_len_false r 2 Hr).
  destruct (len2 r Hr) as [u [ro ->]]. cbn [firstn rm_link_del].
  rewrite rm_del_set by exact Hnd. apply IH; [assumption|]. apply remove1_NoDup. assumption.
Qed.

(* deleting a duplicate-free sub-list of the stored rules, link by link *)
Lemma del_links_store : forall rs g,
  arity_ok 2 g -> NoDup g -> NoDup rs -> incl rs g ->
  del_links rs (glinks g) = glinks (filter (notin rs) g).
Proof.
  induction rs as [|r rs IH]; intros g Ha Hnd Hrs Hin; simpl.
  - rewrite filter_notin_nil. reflexivity.
  - inversion Hrs as [|? ? Hr Hrs']; subst.
    rewrite <- glinks_remove; [|assumption|assumption|apply Hin; left; reflexivity].
    rewrite filter_notin_cons. apply IH.
    + apply arity_ok_filter. assumption.
    + apply NoDup_filter. assumption.
    + assumption.
    + intros x Hx. apply In_filter_neqb. split; [apply Hin; right; assumption|].
      intro; subst. contradiction.
Qed.

(* ---------- links_add / links_del on a domain manager ---------- *)
Lemma dm_del_present : forall s u r d, dm_inv s -> In (u, r) (dm_links_of s d) ->
  snd (dm_delete_link_x s u r d) = None.
Proof.
  intros [L links c] u r d [H1 H2] Hin. unfold dm_delete_link_x. simpl in *.
  apply mem_link_In in Hin. rewrite Hin. simpl.
  destruct (alookup d c) eqn:C; simpl; [|reflexivity].
  rewrite (H2 d r0 C). simpl. rewrite rm_del_set by apply H1. reflexivity.
Qed.

Lemma dm_max_add s u r d : dm_max (dm_add_link s u r d) = dm_max s.
Proof. exact (dm_max_step s (DAdd u r d)). Qed.
Lemma dm_max_del s u r d : dm_max (fst (dm_delete_link_x s u r d)) = dm_max s.
Proof. exact (dm_max_step s (DDel u r d)). Qed.
Lemma dm_max_query s d : dm_max (snd (dm_get_rm s d)) = dm_max s.
Proof. exact (dm_max_step s (DQuery d)). Qed.

Lemma links_add_dom e : forall rs dm g0,
  dm_inv dm -> arity_ok 3 g0 -> arity_ok 3 rs -> NoDup (g0 ++ rs) ->
  (forall d, dm_links_of dm d = glinks_dom g0 d) ->
  exists dm', links_add 3 (RMDom dm) rs e = (RMDom dm', None)
    /\ dm_inv dm' /\ dm_max dm' = dm_max dm
    /\ forall d, dm_links_of dm' d = glinks_dom (g0 ++ rs) d.
Proof.
  induction rs as [|r rs IH]; intros dm g0 Hinv Ha0 Ha Hnd Hl; simpl.
  - exists dm. rewrite app_nil_r. split; [reflexivity|]. split; [assumption|]. split; [reflexivity|assumption].
  - inversion Ha as [|? ? Hr Ha']; subst. rewrite (ltb_len_false r 3 Hr).
    destruct (len3 r Hr) as [u [ro [d0 Er]]]. subst r. cbn [firstn rm_link_add].
    assert (Hnot : ~ In [u; ro; d0] g0).
    { intro Hin. apply NoDup_remove_2 in Hnd. apply Hnd. apply in_or_app. left. assumption. }
    assert (Hmem : mem link_eqb (u, ro) (dm_links_of dm d0) = false).
    { apply mem_link_false. rewrite Hl. intro Hin.
      apply Hnot. apply (glinks_dom_In g0 [u; ro; d0] Ha0 eq_refl). exact Hin. }
    destruct (IH (dm_add_link dm u ro d0) (g0 ++ [[u; ro; d0]])) as [dm' [H1 [H2 [H3 H4]]]].
    + apply dm_inv_add; assumption.
    + apply arity_ok_app; [assumption|constructor; [reflexivity|constructor]].
    + assumption.
    + rewrite <- app_assoc. exact Hnd.
    + intro d. rewrite dm_links_add, glinks_dom_app, glinks_dom_single, !Hl.
      change (dom_of [u; ro; d0]) with d0. change (link_of [u; ro; d0]) with (u, ro).
      rewrite (N.eqb_sym d0 d).
      destruct (d =? d0) eqn:E; [apply N.eqb_eq in E; subst; reflexivity|rewrite app_nil_r; reflexivity].
    + exists dm'. rewrite H1. split; [reflexivity|]. split; [assumption|]. split.
      * rewrite H3. apply dm_max_add.
      * intro d. rewrite H4, <- app_assoc. reflexivity.
Qed.

Lemma links_del_dom : forall rs dm g,
  dm_inv dm -> arity_ok 3 g -> NoDup g -> NoDup rs -> incl rs g ->
  (forall d, dm_links_of dm d = glinks_dom g d) ->
  exists dm', links_del 3 (RMDom dm) rs = (RMDom dm', None)
    /\ dm_inv dm' /\ dm_max dm' = dm_max dm
    /\ forall d, dm_links_of dm' d = glinks_dom (filter (notin rs) g) d.
Proof.
  induction rs as [|r rs IH]; intros dm g Hinv Ha Hnd Hrs Hin Hl; simpl.
  - exists dm. rewrite filter_notin_nil. split; [reflexivity|]. split; [assumption|]. split; [reflexivity|assumption].
  - inversion Hrs as [|? ? Hr Hrs']; subst.
    assert (Hrg : In r g) by (apply Hin; left; reflexivity).
    assert (Hlen : length r = 3%nat) by (eapply arity_ok_In; eassumption).
    rewrite (ltb_len_false r 3 Hlen).
    destruct (len3 r Hlen) as [u [ro [d0 Er]]]. subst r. cbn [firstn rm_link_del].
    assert (Hpres : In (u, ro) (dm_links_of dm d0)).
    { rewrite Hl. apply (glinks_dom_In g [u; ro; d0] Ha eq_refl). exact Hrg. }
    pose proof (dm_del_present dm u ro d0 Hinv Hpres) as Hnone.
    destruct (dm_inv_del dm u ro d0 Hinv) as [Hinv' [_ Hl']].
    destruct (dm_delete_link_x dm u ro d0) as [dm1 e1] eqn:Ed. simpl in *. subst e1.
    destruct (IH dm1 (filter (neqb [u; ro; d0]) g)) as [dm' [H1 [H2 [H3 H4]]]].
    + assumption.
    + apply arity_ok_filter. assumption.
    + apply NoDup_filter. assumption.
    + assumption.
    + intros x Hx. apply In_filter_neqb. split; [apply Hin; right; assumption|]. intro; subst. contradiction.
    + intro d. rewrite Hl'. rewrite (glinks_dom_remove g [u; ro; d0] d Ha Hnd Hrg).
      change (dom_of [u; ro; d0]) with d0. change (link_of [u; ro; d0]) with (u, ro).
      rewrite !Hl. reflexivity.
    + exists dm'. rewrite H1. split; [reflexivity|]. split; [assumption|]. split.
      * rewrite H3. rewrite <- (dm_max_del dm u ro d0). rewrite Ed. reflexivity.
      * intro d. rewrite H4, filter_notin_cons. reflexivity.
Qed.
