(* MgmtProofs.v — the invariant "role links = what a fresh build from the grouping rules yields"
   over management histories (C04), and its consequences. *)
From Coq Require Import List NArith Bool Arith Lia.
From PyCasbin Require Import Base Effect Enforce Policy PolicyProofs RoleGraph RoleGraphProofs Mgmt MgmtLinks.
Import ListNotations.
Local Open Scope N_scope.

(* ---------- component lemmas: one rule list + one plain manager ---------- *)
Section PlainComponent.
  Variable L : nat.
  Variable e : N.

  Lemma plain_add g r :
    arity_ok 2 g -> NoDup g -> length r = 2%nat -> has_policy g r = false ->
    links_add 2 (RMPlain (rm_set L (glinks g))) [r] e = (RMPlain (rm_set L (glinks (g ++ [r]))), None)
    /\ NoDup (g ++ [r]) /\ arity_ok 2 (g ++ [r]).
  Proof.
    intros Ha Hnd Hr Hh. apply has_policy_false in Hh.
    assert (Hnd' : NoDup (g ++ [r])) by (apply NoDup_app_snoc; assumption).
    assert (Ha' : arity_ok 2 (g ++ [r])) by (apply arity_ok_app; [assumption|constructor; [assumption|constructor]]).
    split; [|split; assumption].
    rewrite links_add_plain.
    - unfold glinks. rewrite map_app. reflexivity.
    - constructor; [assumption|constructor].
    - change (glinks g ++ glinks [r]) with (map link_of g ++ map link_of [r]). rewrite <- map_app.
      apply glinks_NoDup; assumption.
  Qed.

  Lemma plain_add_many g rs :
    arity_ok 2 g -> NoDup g -> arity_ok 2 rs -> batch_addable g [] rs = true ->
    links_add 2 (RMPlain (rm_set L (glinks g))) rs e = (RMPlain (rm_set L (glinks (g ++ rs))), None)
    /\ NoDup (g ++ rs) /\ arity_ok 2 (g ++ rs) /\ add_all None g rs = g ++ rs.
  Proof.
    intros Ha Hnd Har Hb. rewrite batch_addable_spec in Hb.
    apply andb_true_iff in Hb. destruct Hb as [Hb Hnr]. apply andb_true_iff in Hb. destruct Hb as [Habs _].
    assert (Hnd' : NoDup (g ++ rs)).
    { apply NoDup_app_disjoint; [assumption|apply nodupb_NoDup; assumption|].
      intros x Hx Hx'. rewrite forallb_forall in Habs. specialize (Habs x Hx').
      apply negb_true_iff in Habs. apply has_policy_false in Habs. contradiction. }
    assert (Ha' : arity_ok 2 (g ++ rs)) by (apply arity_ok_app; assumption).
    split; [|split; [assumption|split; [assumption|apply add_all_spec; assumption]]].
    rewrite links_add_plain.
    - unfold glinks. rewrite map_app. reflexivity.
    - assumption.
    - change (glinks g ++ glinks rs) with (map link_of g ++ map link_of rs). rewrite <- map_app.
      apply glinks_NoDup; assumption.
  Qed.

  Lemma plain_del_sub g rs :
    arity_ok 2 g -> NoDup g -> NoDup rs -> incl rs g ->
    links_del 2 (RMPlain (rm_set L (glinks g))) rs = (RMPlain (rm_set L (glinks (filter (notin rs) g))), None)
    /\ NoDup (filter (notin rs) g) /\ arity_ok 2 (filter (notin rs) g).
  Proof.
    intros Ha Hnd Hrs Hin. split; [|split; [apply NoDup_filter; assumption|apply arity_ok_filter; assumption]].
    rewrite links_del_plain.
    - rewrite del_links_store by assumption. reflexivity.
    - unfold arity_ok. rewrite Forall_forall. intros x Hx. eapply arity_ok_In; [exact Ha|apply Hin; exact Hx].
    - apply glinks_NoDup; assumption.
  Qed.
End PlainComponent.

(* sub-lists produced by the store operations *)
Lemma filter_fm_split (g : store) i vs :
  filter (notin (filter (fm_true i vs) g)) g = filter (fun r => negb (fm_true i vs r)) g.
Proof.
  apply filter_ext_in. intros x Hx. unfold notin.
  destruct (fm_true i vs x) eqn:E; simpl.
  - assert (H : mem rule_eqb x (filter (fm_true i vs) g) = true).
    { apply mem_rule_In. apply filter_In. split; assumption. }
    rewrite H. reflexivity.
  - assert (H : mem rule_eqb x (filter (fm_true i vs) g) = false).
    { apply has_policy_false. intro Hin. apply filter_In in Hin. destruct Hin as [_ Hin]. congruence. }
    rewrite H. reflexivity.
Qed.

Lemma filter_neqb_single (g : store) r : filter (notin [r]) g = filter (neqb r) g.
Proof. apply filter_ext. intro x. unfold notin, neqb. simpl. rewrite orb_false_r. reflexivity. Qed.

Lemma forallb_has_incl g rs : forallb (has_policy g) rs = true -> incl rs g.
Proof. rewrite forallb_forall. intros H x Hx. apply has_policy_In. apply H. exact Hx. Qed.

(* ---------- one role definition in sync with its rule list ---------- *)
Definition synced (cnt : nat) (rm : rmk) (g : store) : Prop :=
  NoDup g /\ arity_ok cnt g /\
  match rm with
  | RMPlain r => cnt = 2%nat /\ r = rm_set MAXLVL (glinks g)
  | RMDom dm => cnt = 3%nat /\ dm_inv dm /\ dm_max dm = MAXLVL /\ forall d, dm_links_of dm d = glinks_dom g d
  end.

Lemma synced_add_many e cnt rm g rs :
  synced cnt rm g -> arity_ok cnt rs -> batch_addable g [] rs = true ->
  exists rm', links_add cnt rm rs e = (rm', None) /\ synced cnt rm' (g ++ rs).
Proof.
  intros [Hnd [Ha Hrm]] Har Hb. destruct rm as [r|dm].
  - destruct Hrm as [Hc Hr]. subst cnt r.
    destruct (plain_add_many MAXLVL e g rs Ha Hnd Har Hb) as [H1 [H2 [H3 _]]].
    eexists. split; [exact H1|]. split; [assumption|]. split; [assumption|]. split; reflexivity.
  - destruct Hrm as [Hc [Hinv [Hmax Hl]]]. subst cnt.
    rewrite batch_addable_spec in Hb.
    apply andb_true_iff in Hb. destruct Hb as [Hb Hnr]. apply andb_true_iff in Hb. destruct Hb as [Habs _].
    assert (Hnd' : NoDup (g ++ rs)).
    { apply NoDup_app_disjoint; [assumption|apply nodupb_NoDup; assumption|].
      intros x Hx Hx'. rewrite forallb_forall in Habs. specialize (Habs x Hx').
      apply negb_true_iff in Habs. apply has_policy_false in Habs. contradiction. }
    destruct (links_add_dom e rs dm g Hinv Ha Har Hnd' Hl) as [dm' [H1 [H2 [H3 H4]]]].
    exists (RMDom dm'). split; [exact H1|]. split; [assumption|]. split; [apply arity_ok_app; assumption|].
    split; [reflexivity|]. split; [assumption|]. split; [congruence|assumption].
Qed.

Lemma synced_del_sub cnt rm g rs :
  synced cnt rm g -> NoDup rs -> incl rs g ->
  exists rm', links_del cnt rm rs = (rm', None) /\ synced cnt rm' (filter (notin rs) g).
Proof.
  intros [Hnd [Ha Hrm]] Hrs Hin. destruct rm as [r|dm].
  - destruct Hrm as [Hc Hr]. subst cnt r.
    destruct (plain_del_sub MAXLVL g rs Ha Hnd Hrs Hin) as [H1 [H2 H3]].
    eexists. split; [exact H1|]. split; [assumption|]. split; [assumption|]. split; reflexivity.
  - destruct Hrm as [Hc [Hinv [Hmax Hl]]]. subst cnt.
    destruct (links_del_dom rs dm g Hinv Ha Hnd Hrs Hin Hl) as [dm' [H1 [H2 [H3 H4]]]].
    exists (RMDom dm'). split; [exact H1|]. split; [apply NoDup_filter; assumption|].
    split; [apply arity_ok_filter; assumption|].
    split; [reflexivity|]. split; [assumption|]. split; [congruence|assumption].
Qed.

(* a full rebuild from any manager of the right shape *)
Lemma synced_rebuild e cnt rm0 g :
  NoDup g -> arity_ok cnt g ->
  match rm0 with RMPlain r => cnt = 2%nat /\ rm_max r = MAXLVL | RMDom dm => cnt = 3%nat /\ dm_max dm = MAXLVL end ->
  exists rm', links_add cnt (clear_rmk rm0) g e = (rm', None) /\ synced cnt rm' g.
Proof.
  intros Hnd Ha Hshape.
  assert (Hs : synced cnt (clear_rmk rm0) []).
  { split; [constructor|]. split; [constructor|]. destruct rm0 as [r|dm]; simpl.
    - destruct Hshape as [Hc Hm]. split; [assumption|]. unfold rm_clear, rm_set. simpl. rewrite Hm. reflexivity.
    - destruct Hshape as [Hc Hm]. split; [assumption|]. split; [apply dm_inv_empty|].
      split; [exact Hm|]. intro d. reflexivity. }
  destruct (synced_add_many e cnt (clear_rmk rm0) [] g Hs Ha) as [rm' [H1 H2]].
  - rewrite batch_addable_spec.
    assert (H1 : forallb (fun r : rule => negb (has_policy [] r)) g = true)
      by (clear; induction g as [|x g IH]; [reflexivity|exact IH]).
    assert (H2 : forallb (fun r : rule => negb (mem rule_eqb r [])) g = true)
      by (clear; induction g as [|x g IH]; [reflexivity|exact IH]).
    rewrite H1, H2. cbn [andb].
    clear - Hnd. induction Hnd as [|x g Hx Hnd IH]; [reflexivity|].
    cbn [nodupb]. rewrite IH, andb_true_r. apply negb_true_iff. apply has_policy_false. assumption.
  - exists rm'. split; [exact H1|exact H2].
Qed.

(* queries only create cache entries *)
Lemma synced_touch cnt rm g d : synced cnt rm g -> synced cnt (touch_dom rm d) g.
Proof.
  intros [Hnd [Ha Hrm]]. split; [assumption|]. split; [assumption|].
  destruct rm as [r|dm]; simpl; [exact Hrm|].
  destruct Hrm as [Hc [Hinv [Hmax Hl]]]. destruct (dm_inv_query dm d Hinv) as [H1 [_ H3]].
  split; [assumption|]. split; [assumption|]. split; [rewrite dm_max_query; assumption|].
  intro d'. rewrite H3. apply Hl.
Qed.

Lemma synced_get_roles cnt rm g u d : synced cnt rm g -> synced cnt (snd (rmk_get_roles rm u d)) g.
Proof.
  intro H. destruct rm as [r|dm]; simpl; [exact H|].
  unfold dm_get_roles. destruct (dm_get_rm dm d) as [rm' dm'] eqn:E. simpl.
  change dm' with (snd (rm', dm')). rewrite <- E. apply (synced_touch cnt (RMDom dm) g d H).
Qed.

Lemma synced_get_users cnt rm g u d : synced cnt rm g -> synced cnt (snd (rmk_get_users rm u d)) g.
Proof.
  intro H. destruct rm as [r|dm]; simpl; [exact H|].
  unfold dm_get_users. destruct (dm_get_rm dm d) as [rm' dm'] eqn:E. simpl.
  change dm' with (snd (rm', dm')). rewrite <- E. apply (synced_touch cnt (RMDom dm) g d H).
Qed.

(* ---------- the state invariant ---------- *)
Definition Inv (k : mkind) (s : mstate) : Prop :=
  synced (g_count k PT_G) (m_rm s) (m_g s) /\ synced 2 (RMPlain (m_rm2 s)) (m_g2 s) /\ m_auto_build s = true.

Definition comp (k : mkind) (s : mstate) (pt : N) : Prop :=
  synced (g_count k pt) (rm_of s pt) (get_store s pt).

Lemma is_g_P pt : is_g pt = true -> (pt =? PT_P) = false.
Proof. unfold is_g. intro H. apply negb_true_iff in H. exact H. Qed.

Lemma Inv_comp k s pt : Inv k s -> is_g pt = true -> comp k s pt.
Proof.
  intros [H1 [H2 _]] Hg. apply is_g_P in Hg. unfold comp, g_count, rm_of, get_store. rewrite Hg.
  destruct (pt =? PT_G) eqn:E.
  - apply N.eqb_eq in E. subst pt. exact H1.
  - exact H2.
Qed.

Lemma Inv_update k s pt rm' g' :
  Inv k s -> is_g pt = true -> synced (g_count k pt) rm' g' ->
  Inv k (put_rm (set_store s pt g') pt rm').
Proof.
  intros [H1 [H2 H3]] Hg Hs. apply is_g_P in Hg. unfold put_rm, set_store, g_count in *. rewrite Hg.
  destruct (pt =? PT_G) eqn:E.
  - apply N.eqb_eq in E. subst pt. split; [exact Hs|]. split; [exact H2|exact H3].
  - simpl in Hs. destruct rm' as [r|dm].
    + split; [exact H1|]. split; [exact Hs|exact H3].
    + destruct Hs as [_ [_ [Hc _]]]. discriminate.
Qed.

Lemma Inv_set_p k s l : Inv k s -> Inv k (set_store s PT_P l).
Proof. intros [H1 [H2 H3]]. split; [exact H1|]. split; [exact H2|exact H3]. Qed.

Lemma Inv_set_rm k s rm : Inv k s -> synced (g_count k PT_G) rm (m_g s) -> Inv k (set_rm s rm).
Proof. intros [H1 [H2 H3]] H. split; [exact H|]. split; [exact H2|exact H3]. Qed.

Lemma Inv_set_db k s db : Inv k s -> Inv k (set_db s db).
Proof. intros [H1 [H2 H3]]. split; [exact H1|]. split; [exact H2|exact H3]. Qed.

(* ---------- what the internal calls do to the state ---------- *)
Lemma prio_opt_on_g k on pt : is_g pt = true -> prio_opt_on k on pt = None.
Proof. intro H. apply is_g_P in H. unfold prio_opt_on. rewrite H. reflexivity. Qed.

Lemma i_add_state k s pt r : is_g pt = true ->
  let x := i_add k s pt r in
  fst (fst (fst x)) = (if has_policy (get_store s pt) r then s else set_store s pt (get_store s pt ++ [r]))
  /\ snd (fst (fst x)) = negb (has_policy (get_store s pt) r).
Proof.
  intro Hg. unfold i_add. rewrite (prio_opt_on_g k _ pt Hg). unfold add_policy.
  destruct (has_policy (get_store s pt) r); simpl; [split; reflexivity|].
  destruct (use_adapter k s); simpl; split; reflexivity.
Qed.

Lemma i_add_many_state k s pt rs : is_g pt = true ->
  let x := i_add_many k s pt rs in
  fst (fst (fst x)) = (if batch_addable (get_store s pt) [] rs
                       then set_store s pt (add_all None (get_store s pt) rs) else s)
  /\ snd (fst (fst x)) = batch_addable (get_store s pt) [] rs.
Proof.
  intro Hg. unfold i_add_many. rewrite (prio_opt_on_g k _ pt Hg). unfold add_policies.
  destruct (batch_addable (get_store s pt) [] rs); simpl; [|split; reflexivity].
  destruct (use_adapter k s); simpl; split; reflexivity.
Qed.

Lemma i_remove_state k s pt r : NoDup (get_store s pt) ->
  let x := i_remove k s pt r in
  fst (fst (fst x)) = (if has_policy (get_store s pt) r
                       then set_store s pt (filter (neqb r) (get_store s pt)) else set_store s pt (get_store s pt))
  /\ snd (fst (fst x)) = has_policy (get_store s pt) r.
Proof.
  intro Hnd. unfold i_remove. rewrite (remove_policy_spec _ r Hnd). unfold spec_remove.
  destruct (has_policy (get_store s pt) r); simpl; [|split; reflexivity].
  destruct (use_adapter k s); simpl; split; reflexivity.
Qed.

Lemma i_remove_many_state k s pt rs : NoDup (get_store s pt) ->
  let x := i_remove_many k s pt rs in
  let okb := forallb (has_policy (get_store s pt)) rs && nodupb rule_eqb rs in
  fst (fst (fst x)) = (if okb then set_store s pt (filter (notin rs) (get_store s pt)) else s)
  /\ snd (fst (fst x)) = okb.
Proof.
  intro Hnd. unfold i_remove_many. rewrite (remove_policies_spec _ rs Hnd). unfold spec_remove_batch.
  destruct (forallb (has_policy (get_store s pt)) rs && nodupb rule_eqb rs); simpl; [|split; reflexivity].
  destruct (use_adapter k s); simpl; split; reflexivity.
Qed.

Lemma set_store_same s pt : set_store s pt (get_store s pt) = s.
Proof.
  unfold set_store, get_store. destruct s. simpl.
  destruct (pt =? PT_P); [reflexivity|]. destruct (pt =? PT_G); reflexivity.
Qed.

Lemma put_rm_same s pt : is_g pt = true -> put_rm s pt (rm_of s pt) = s.
Proof.
  intro Hg. unfold put_rm, rm_of. destruct (pt =? PT_G); destruct s; reflexivity.
Qed.

Lemma get_store_set s pt l : get_store (set_store s pt l) pt = l.
Proof.
  unfold set_store, get_store. destruct (pt =? PT_P) eqn:E1; simpl; [reflexivity|].
  destruct (pt =? PT_G) eqn:E2; simpl; reflexivity.
Qed.

Lemma rm_of_set_store s pt l : rm_of (set_store s pt l) pt = rm_of s pt.
Proof.
  unfold set_store, rm_of. destruct (pt =? PT_P); simpl; [reflexivity|]. destruct (pt =? PT_G); reflexivity.
Qed.

Lemma auto_build_set_store s pt l : m_auto_build (set_store s pt l) = m_auto_build s.
Proof. unfold set_store. destruct (pt =? PT_P); [reflexivity|]. destruct (pt =? PT_G); reflexivity. Qed.

(* ---------- grouping calls keep the invariant ---------- *)
Lemma fst_after_links s pt x v ac wc : fst (after_links s pt x v ac wc) = put_rm s pt (fst x).
Proof. unfold after_links. destruct (snd x); reflexivity. Qed.

Lemma batch_addable_single g r : batch_addable g [] [r] = negb (has_policy g r).
Proof. simpl. rewrite !andb_true_r. reflexivity. Qed.

Lemma g_add_inv k s pt r :
  Inv k s -> is_g pt = true -> length r = g_count k pt -> Inv k (fst (g_add k s pt r)).
Proof.
  intros HI Hg Hr. unfold g_add.
  destruct (i_add_state k s pt r Hg) as [Hs Hb].
  destruct (i_add k s pt r) as [[[s1 b] ac] wc]. simpl in Hs, Hb. subst s1 b.
  assert (Hab : m_auto_build s = true) by (destruct HI as [_ [_ H]]; exact H). rewrite Hab.
  destruct (has_policy (get_store s pt) r) eqn:Hh; cbn [negb andb fst snd]; [exact HI|].
  rewrite fst_after_links, rm_of_set_store.
  destruct (synced_add_many EGroupArity (g_count k pt) (rm_of s pt) (get_store s pt) (@cons rule r nil)) as [rm' [H1 H2]].
  - apply Inv_comp; assumption.
  - constructor; [exact Hr|constructor].
  - rewrite batch_addable_single, Hh. reflexivity.
  - rewrite H1. simpl. apply Inv_update; assumption.
Qed.

Lemma g_add_many_inv k s pt rs :
  Inv k s -> is_g pt = true -> arity_ok (g_count k pt) rs -> Inv k (fst (g_add_many k s pt rs)).
Proof.
  intros HI Hg Hr. unfold g_add_many.
  destruct (i_add_many_state k s pt rs Hg) as [Hs Hb].
  destruct (i_add_many k s pt rs) as [[[s1 b] ac] wc]. simpl in Hs, Hb. subst s1 b.
  assert (Hab : m_auto_build s = true) by (destruct HI as [_ [_ H]]; exact H). rewrite Hab.
  destruct (batch_addable (get_store s pt) [] rs) eqn:Hh; cbn [negb andb fst snd]; [|exact HI].
  rewrite fst_after_links, rm_of_set_store.
  pose proof (Inv_comp k s pt HI Hg) as Hc.
  destruct (synced_add_many EGroupArity (g_count k pt) (rm_of s pt) (get_store s pt) rs Hc Hr Hh) as [rm' [H1 H2]].
  rewrite H1. simpl.
  assert (Ha : add_all None (get_store s pt) rs = get_store s pt ++ rs).
  { rewrite batch_addable_spec in Hh. apply andb_true_iff in Hh. destruct Hh as [Hh Hn].
    apply andb_true_iff in Hh. destruct Hh as [Hh _]. apply add_all_spec; assumption. }
  rewrite Ha. apply Inv_update; assumption.
Qed.

Lemma g_remove_inv k s pt r :
  Inv k s -> is_g pt = true -> Inv k (fst (g_remove k s pt r)).
Proof.
  intros HI Hg. unfold g_remove.
  pose proof (Inv_comp k s pt HI Hg) as Hc.
  assert (Hnd : NoDup (get_store s pt)) by (destruct Hc as [H _]; exact H).
  destruct (i_remove_state k s pt r Hnd) as [Hs Hb].
  destruct (i_remove k s pt r) as [[[s1 b] ac] wc]. simpl in Hs, Hb. subst s1 b.
  assert (Hab : m_auto_build s = true) by (destruct HI as [_ [_ H]]; exact H). rewrite Hab.
  destruct (has_policy (get_store s pt) r) eqn:Hh; cbn [negb andb fst snd]; [|rewrite set_store_same; exact HI].
  rewrite fst_after_links, rm_of_set_store.
  destruct (synced_del_sub (g_count k pt) (rm_of s pt) (get_store s pt) (@cons rule r nil) Hc) as [rm' [H1 H2]].
  - constructor; [intros []|constructor].
  - intros x [Hx|[]]. subst. apply has_policy_In. exact Hh.
  - rewrite H1. simpl. rewrite filter_neqb_single in H2. apply Inv_update; assumption.
Qed.

Lemma g_remove_many_inv k s pt rs :
  Inv k s -> is_g pt = true -> Inv k (fst (g_remove_many k s pt rs)).
Proof.
  intros HI Hg. unfold g_remove_many.
  pose proof (Inv_comp k s pt HI Hg) as Hc.
  assert (Hnd : NoDup (get_store s pt)) by (destruct Hc as [H _]; exact H).
  destruct (i_remove_many_state k s pt rs Hnd) as [Hs Hb].
  destruct (i_remove_many k s pt rs) as [[[s1 b] ac] wc]. simpl in Hs, Hb. subst s1 b.
  assert (Hab : m_auto_build s = true) by (destruct HI as [_ [_ H]]; exact H). rewrite Hab.
  destruct (forallb (has_policy (get_store s pt)) rs && nodupb rule_eqb rs) eqn:Hh; cbn [negb andb fst snd]; [|exact HI].
  apply andb_true_iff in Hh. destruct Hh as [Hh1 Hh2].
  rewrite fst_after_links, rm_of_set_store.
  destruct (synced_del_sub (g_count k pt) (rm_of s pt) (get_store s pt) rs Hc) as [rm' [H1 H2]].
  - apply nodupb_NoDup. exact Hh2.
  - apply forallb_has_incl. exact Hh1.
  - rewrite H1. simpl. apply Inv_update; assumption.
Qed.

Lemma i_remove_filtered_eff_state k s pt i vs x :
  i_remove_filtered_eff k s pt i vs = Ok x ->
  let '(s1, gone, _, _) := x in
  (gone = [] /\ s1 = set_store s pt (get_store s pt)) \/
  (gone = filter (fm_true i vs) (get_store s pt)
   /\ s1 = set_store s pt (filter (fun r => negb (fm_true i vs r)) (get_store s pt))).
Proof.
  unfold i_remove_filtered_eff, remove_filtered_effects. intro H.
  destruct vs as [|v vs].
  - inversion H; subst. left. split; reflexivity.
  - destruct (split_filtered (get_store s pt) i (v :: vs)) as [[kept gone]|c] eqn:E; [|discriminate].
    destruct (split_filtered_spec _ _ _ _ _ E) as [Hg Hk]. subst kept gone.
    destruct (filter (fm_true i (v :: vs)) (get_store s pt)) eqn:Eg.
    + inversion H; subst. right. split; reflexivity.
    + destruct (use_adapter k s); inversion H; subst; right; split; reflexivity.
Qed.

Lemma g_remove_filtered_inv k s pt i vs :
  Inv k s -> is_g pt = true -> Inv k (fst (g_remove_filtered k s pt i vs)).
Proof.
  intros HI Hg. unfold g_remove_filtered.
  pose proof (Inv_comp k s pt HI Hg) as Hc.
  destruct (i_remove_filtered_eff k s pt i vs) as [[[[s1 gone] ac] wc]|c] eqn:E; [|exact HI].
  pose proof (i_remove_filtered_eff_state k s pt i vs _ E) as Hst. simpl in Hst.
  assert (Hab : m_auto_build s = true) by (destruct HI as [_ [_ H]]; exact H).
  destruct Hst as [[Hgone Hs1]|[Hgone Hs1]].
  - subst gone s1. simpl. rewrite set_store_same. exact HI.
  - destruct gone as [|g0 gone'] eqn:Eg.
    + (* nothing matched: kept = everything *)
      simpl. subst s1.
      assert (Hall : filter (fun r => negb (fm_true i vs r)) (get_store s pt) = get_store s pt).
      { rewrite <- filter_fm_split. rewrite <- Hgone. apply filter_notin_nil. }
      rewrite Hall, set_store_same. exact HI.
    + rewrite Hab. rewrite fst_after_links. subst s1. rewrite rm_of_set_store.
      destruct (synced_del_sub (g_count k pt) (rm_of s pt) (get_store s pt) (g0 :: gone') Hc) as [rm' [H1 H2]].
      * rewrite Hgone. apply NoDup_filter. destruct Hc as [H _]. exact H.
      * rewrite Hgone. intros x Hx. apply filter_In in Hx. tauto.
      * rewrite H1. simpl. rewrite Hgone, filter_fm_split in H2. apply Inv_update; assumption.
Qed.

(* ---------- calls that do not touch grouping rules, managers or the auto-build flag ---------- *)
Definition same_links (s s' : mstate) : Prop :=
  m_g s' = m_g s /\ m_g2 s' = m_g2 s /\ m_rm s' = m_rm s /\ m_rm2 s' = m_rm2 s
  /\ m_auto_build s' = m_auto_build s.

Lemma same_links_refl s : same_links s s.
Proof. repeat split; reflexivity. Qed.
Lemma same_links_set_p s l : same_links s (set_store s PT_P l).
Proof. repeat split; reflexivity. Qed.
Lemma same_links_set_db s db : same_links s (set_db s db).
Proof. repeat split; reflexivity. Qed.
Lemma same_links_trans s1 s2 s3 : same_links s1 s2 -> same_links s2 s3 -> same_links s1 s3.
Proof. unfold same_links. intuition congruence. Qed.

Lemma Inv_same k s s' : Inv k s -> same_links s s' -> Inv k s'.
Proof.
  intros [H1 [H2 H3]] [E1 [E2 [E3 [E4 E5]]]]. unfold Inv. rewrite E1, E2, E3, E4, E5.
  split; [exact H1|]. split; [exact H2|exact H3].
Qed.

Lemma i_add_p_same k s r : same_links s (fst (fst (fst (i_add k s PT_P r)))).
Proof.
  unfold i_add. destruct (add_policy (prio_opt_on k (m_prio_on s) PT_P) (get_store s PT_P) r) as [l' b].
  destruct b; simpl; [|apply same_links_refl].
  destruct (use_adapter k s); simpl; apply same_links_set_p.
Qed.
Lemma i_add_many_p_same k s rs : same_links s (fst (fst (fst (i_add_many k s PT_P rs)))).
Proof.
  unfold i_add_many. destruct (add_policies (prio_opt_on k (m_prio_on s) PT_P) (get_store s PT_P) rs) as [l' b].
  destruct b; simpl; [|apply same_links_refl].
  destruct (use_adapter k s); simpl; apply same_links_set_p.
Qed.
Lemma i_remove_p_same k s r : same_links s (fst (fst (fst (i_remove k s PT_P r)))).
Proof.
  unfold i_remove. destruct (remove_policy (get_store s PT_P) r) as [l' b].
  destruct b; simpl; [|apply same_links_set_p].
  destruct (use_adapter k s); simpl; apply same_links_set_p.
Qed.
Lemma i_remove_many_p_same k s rs : same_links s (fst (fst (fst (i_remove_many k s PT_P rs)))).
Proof.
  unfold i_remove_many. destruct (remove_policies (get_store s PT_P) rs) as [l' b].
  destruct b; simpl; [|apply same_links_refl].
  destruct (use_adapter k s); simpl; apply same_links_set_p.
Qed.
Lemma p_remove_filtered_same k s i vs : same_links s (fst (p_remove_filtered k s i vs)).
Proof.
  unfold p_remove_filtered, i_remove_filtered.
  destruct (remove_filtered (get_store s PT_P) i vs) as [[l' b]|c]; [|apply same_links_refl].
  destruct b; simpl; [|apply same_links_set_p].
  destruct (use_adapter k s); simpl; apply same_links_set_p.
Qed.
Lemma fst_wrap_b x : fst (wrap_b x) = fst (fst (fst x)).
Proof. destruct x as [[[s b] ac] wc]. reflexivity. Qed.

(* sequencing of two calls (delete_user, delete_role) *)
Lemma seq2_inv k s f1 f2 :
  Inv k s -> (forall s0, Inv k s0 -> Inv k (fst (f1 s0))) -> (forall s0, Inv k s0 -> Inv k (fst (f2 s0))) ->
  Inv k (fst (seq2 s f1 f2)).
Proof.
  intros HI H1 H2. unfold seq2. specialize (H1 s HI). destruct (f1 s) as [s1 o1]. simpl in H1.
  destruct (is_err (o_val o1)); [exact H1|].
  specialize (H2 s1 H1). destruct (f2 s1) as [s2 o2]. simpl in H2.
  destruct (is_err (o_val o2)); exact H2.
Qed.

(* ---------- queries ---------- *)
Lemma Inv_touch k s rm' : Inv k s -> synced (g_count k PT_G) rm' (m_g s) -> Inv k (set_rm s rm').
Proof. apply Inv_set_rm. Qed.

Lemma enforce_ex_m_inv k s req : Inv k s -> Inv k (fst (enforce_ex_m k s req)).
Proof.
  intro HI. unfold enforce_ex_m. cbn [fst].
  match goal with |- Inv k (if ?c then _ else _) => destruct c end; [|exact HI].
  apply Inv_set_rm; [exact HI|]. apply synced_touch. destruct HI as [H _]. exact H.
Qed.

Lemma impl_roles_inv k d : forall fuel s res queue x,
  Inv k s -> impl_roles fuel k s d res queue = Ok x -> Inv k (snd x).
Proof.
  induction fuel as [|f IH]; intros s res queue x HI H; destruct queue as [|n q]; simpl in H;
    try discriminate; try (inversion H; subst; exact HI).
  destruct (if k_g k then rmk_get_roles (m_rm s) n d else ([], m_rm s)) as [r1 rm'] eqn:E1.
  destruct (append_new res q r1) as [res1 q1].
  match type of H with context [append_new res1 q1 ?z] => destruct (append_new res1 q1 z) as [res2 q2] end.
  apply (IH (set_rm s rm') res2 q2 x); [|exact H].
  apply Inv_set_rm; [exact HI|].
  destruct (k_g k).
  - change rm' with (snd (r1, rm')). rewrite <- E1. apply synced_get_roles. destruct HI as [H0 _]. exact H0.
  - inversion E1; subst. destruct HI as [H0 _]. exact H0.
Qed.

Lemma users_allowed_inv k perm : forall subjects s,
  Inv k s -> Inv k (fst (users_allowed k s subjects perm)).
Proof.
  induction subjects as [|u rest IH]; intros s HI; [exact HI|]. cbn [users_allowed].
  pose proof (enforce_ex_m_inv k s (u :: perm) HI) as H1.
  destruct (enforce_ex_m k s (u :: perm)) as [s' r]. simpl in H1.
  destruct r as [[b ex]|c]; [|exact H1].
  specialize (IH s' H1). destruct (users_allowed k s' rest perm) as [s'' r']. simpl in IH.
  destruct r'; exact IH.
Qed.

Lemma users_for_resource_synced k cnt g roles res dom : forall l rm acc x,
  synced cnt rm g -> users_for_resource k rm roles res dom l acc = Ok x -> synced cnt (snd x) g.
Proof.
  induction l as [|r rest IH]; intros rm acc x Hs H; simpl in H; [inversion H; subst; exact Hs|].
  destruct (field r (i_obj k)) as [o|]; [|discriminate].
  destruct (negb (o =? res)); [apply (IH rm acc x Hs H)|].
  destruct (field r (i_sub k)) as [sub|]; [|discriminate].
  match type of H with (if ?c then _ else _) = _ => destruct c end; [apply (IH rm acc x Hs H)|].
  destruct (negb (mem N.eqb sub roles)); [eapply (IH rm); [exact Hs|exact H]|].
  destruct (rmk_get_users rm sub match dom with Some d => d | None => empty_dom end) as [us rm'] eqn:E.
  eapply (IH rm'); [|exact H].
  change rm' with (snd (us, rm')). rewrite <- E. apply synced_get_users. exact Hs.
Qed.

(* ---------- clear / rebuild ---------- *)
Lemma Inv_shape k s : Inv k s ->
  match m_rm s with
  | RMPlain r => g_count k PT_G = 2%nat /\ rm_max r = MAXLVL
  | RMDom dm => g_count k PT_G = 3%nat /\ dm_max dm = MAXLVL
  end /\ rm_max (m_rm2 s) = MAXLVL.
Proof.
  intros [[_ [_ H1]] [[_ [_ [_ H2]]] _]]. split.
  - destruct (m_rm s) as [r|dm].
    + destruct H1 as [Hc Hr]. split; [exact Hc|]. rewrite Hr. reflexivity.
    + destruct H1 as [Hc [_ [Hm _]]]. split; assumption.
  - rewrite H2. reflexivity.
Qed.

Lemma build_role_links_inv k s :
  NoDup (m_g s) -> arity_ok (g_count k PT_G) (m_g s) -> NoDup (m_g2 s) -> arity_ok 2 (m_g2 s) ->
  match m_rm s with
  | RMPlain r => g_count k PT_G = 2%nat /\ rm_max r = MAXLVL
  | RMDom dm => g_count k PT_G = 3%nat /\ dm_max dm = MAXLVL
  end -> rm_max (m_rm2 s) = MAXLVL -> m_auto_build s = true ->
  Inv k (fst (build_role_links k s)) /\ snd (build_role_links k s) = None.
Proof.
  intros Hg Hag Hg2 Hag2 Hsh Hsh2 Hab. unfold build_role_links.
  cbn [m_rm m_g m_g2 m_rm2 set_rm set_rm2].
  destruct (synced_rebuild EGroupArity (g_count k PT_G) (m_rm s) (m_g s) Hg Hag) as [rm' [H1 H2]].
  { destruct (m_rm s); exact Hsh. }
  rewrite H1.
  destruct (synced_rebuild EGroupArity 2 (RMPlain (m_rm2 s)) (m_g2 s) Hg2 Hag2) as [rm2' [H3 H4]].
  { split; [reflexivity|exact Hsh2]. }
  cbn [clear_rmk] in H3. rewrite H3.
  destruct rm2' as [r2|dm2]; [|destruct H4 as [_ [_ [Hc _]]]; discriminate].
  cbn [fst snd]. split; [|reflexivity].
  split; [exact H2|]. split; [exact H4|exact Hab].
Qed.

Lemma clear_inv k s s1 : Inv k s ->
  m_rm s1 = m_rm s -> m_rm2 s1 = m_rm2 s -> m_g s1 = [] -> m_g2 s1 = [] -> m_auto_build s1 = true ->
  Inv k (set_rm2 (set_rm s1 (clear_rmk (m_rm s1))) (rm_clear (m_rm2 s1))).
Proof.
  intros HI E1 E2 E3 E4 Hab. destruct (Inv_shape k s HI) as [Hsh Hsh2].
  split; [|split; [|exact Hab]]; cbn [m_rm m_g m_g2 m_rm2 set_rm set_rm2]; rewrite ?E1, ?E2, ?E3, ?E4.
  - split; [constructor|]. split; [constructor|]. destruct (m_rm s) as [r|dm]; simpl.
    + destruct Hsh as [Hc Hm]. split; [exact Hc|]. unfold rm_clear, rm_set. simpl. rewrite Hm. reflexivity.
    + destruct Hsh as [Hc Hm]. split; [exact Hc|]. split; [apply dm_inv_empty|]. split; [exact Hm|]. intro d. reflexivity.
  - split; [constructor|]. split; [constructor|]. split; [reflexivity|].
    unfold rm_clear, rm_set. simpl. rewrite Hsh2. reflexivity.
Qed.

(* ---------- every admissible step keeps the invariant ---------- *)
Definition rule_fits (k : mkind) (pt : N) (r : rule) : bool :=
  if is_g pt then Nat.eqb (length r) (g_count k pt) else true.

(* the property's own premises as a boolean on calls: grouping rules have the declared arity, auto-build
   is never switched off; reloads are treated separately (reload theorems below) *)
Definition op_ok (k : mkind) (o : op) : bool :=
  match o with
  | OAdd pt r => rule_fits k pt r
  | OAddMany pt rs => forallb (rule_fits k pt) rs
  | OAutoBuild b => b
  | OLoad | OLoadFail _ => false
  | OAddRoleForUser _ _ => negb (k_dom k)
  | OAddRoleForUserInDomain _ _ _ => k_dom k
  | _ => true
  end.

Lemma g_count_G k : g_count k PT_G = if k_dom k then 3%nat else 2%nat.
Proof. reflexivity. Qed.

Lemma forallb_fits_arity k pt rs : is_g pt = true -> forallb (rule_fits k pt) rs = true -> arity_ok (g_count k pt) rs.
Proof.
  intros Hg H. unfold arity_ok. rewrite Forall_forall. rewrite forallb_forall in H.
  intros x Hx. specialize (H x Hx). unfold rule_fits in H. rewrite Hg in H. apply Nat.eqb_eq. exact H.
Qed.

Lemma step_inv k s o : Inv k s -> op_ok k o = true -> Inv k (fst (step k s o)).
Proof.
  intros HI Hok. destruct o; cbn [step].
  - (* OAdd *) destruct (negb (has_pt k pt)); [exact HI|]. destruct (is_g pt) eqn:Hg.
    + apply g_add_inv; [exact HI|exact Hg|]. simpl in Hok. unfold rule_fits in Hok. rewrite Hg in Hok.
      apply Nat.eqb_eq. exact Hok.
    + rewrite fst_wrap_b. unfold is_g in Hg. apply negb_false_iff in Hg. apply N.eqb_eq in Hg. subst pt.
      apply (Inv_same k s _ HI). apply i_add_p_same.
  - (* OAddMany *) destruct (negb (has_pt k pt)); [exact HI|]. destruct (is_g pt) eqn:Hg.
    + apply g_add_many_inv; [exact HI|exact Hg|]. apply forallb_fits_arity; [exact Hg|exact Hok].
    + rewrite fst_wrap_b. unfold is_g in Hg. apply negb_false_iff in Hg. apply N.eqb_eq in Hg. subst pt.
      apply (Inv_same k s _ HI). apply i_add_many_p_same.
  - (* ORemove *) destruct (negb (has_pt k pt)); [exact HI|]. destruct (is_g pt) eqn:Hg.
    + apply g_remove_inv; assumption.
    + rewrite fst_wrap_b. unfold is_g in Hg. apply negb_false_iff in Hg. apply N.eqb_eq in Hg. subst pt.
      apply (Inv_same k s _ HI). apply i_remove_p_same.
  - (* ORemoveMany *) destruct (negb (has_pt k pt)); [exact HI|]. destruct (is_g pt) eqn:Hg.
    + apply g_remove_many_inv; assumption.
    + rewrite fst_wrap_b. unfold is_g in Hg. apply negb_false_iff in Hg. apply N.eqb_eq in Hg. subst pt.
      apply (Inv_same k s _ HI). apply i_remove_many_p_same.
  - (* ORemoveFiltered *) destruct (negb (has_pt k pt)); [exact HI|]. destruct (is_g pt) eqn:Hg.
    + apply g_remove_filtered_inv; assumption.
    + apply (Inv_same k s _ HI). apply p_remove_filtered_same.
  - (* OUpdate *)
    destruct (update_policy (prio_tok k PT_P) (m_p s) o n) as [[l' b]|c]; [|exact HI].
    destruct b; cbn [negb]; [|exact HI]. destruct (use_adapter k s); apply Inv_set_p; exact HI.
  - (* OUpdateMany *)
    destruct (update_policies (prio_tok k PT_P) (m_p s) os ns) as [[l' b]|c]; [|exact HI].
    destruct b; cbn [negb]; [|exact HI]. destruct (use_adapter k s); apply Inv_set_p; exact HI.
  - (* OUpdateFiltered *)
    destruct (get_filtered (m_p s) i vs) as [old_mem|c]; [|exact HI].
    match goal with |- context [match ?x with [] => _ | _ :: _ => _ end] => destruct x end; [exact HI|].
    destruct (remove_policies (m_p s) _) as [l1 b1].
    destruct (add_policies _ l1 ns) as [l2 b2].
    match goal with |- context [if negb ?c then _ else _] => destruct c end; apply Inv_set_p; exact HI.
  - (* ODeleteUser *)
    apply seq2_inv; [exact HI| |].
    + intros s0 H0. destruct (k_g k); [apply g_remove_filtered_inv; [exact H0|reflexivity]|exact H0].
    + intros s0 H0. apply (Inv_same k s0 _ H0). apply p_remove_filtered_same.
  - (* ODeleteRole *)
    apply seq2_inv; [exact HI| |].
    + intros s0 H0. destruct (k_g k); [apply g_remove_filtered_inv; [exact H0|reflexivity]|exact H0].
    + intros s0 H0. apply (Inv_same k s0 _ H0). apply p_remove_filtered_same.
  - apply (Inv_same k s _ HI). apply p_remove_filtered_same.
  - rewrite fst_wrap_b. apply (Inv_same k s _ HI). apply i_add_p_same.
  - rewrite fst_wrap_b. apply (Inv_same k s _ HI). apply i_remove_p_same.
  - apply (Inv_same k s _ HI). apply p_remove_filtered_same.
  - (* OAddRoleForUser *) destruct (k_g k); [|exact HI]. apply g_add_inv; [exact HI|reflexivity|].
    simpl in Hok. apply negb_true_iff in Hok. rewrite g_count_G, Hok. reflexivity.
  - destruct (k_g k); [|exact HI]. apply g_remove_inv; [exact HI|reflexivity].
  - destruct (k_g k); [|exact HI]. apply g_remove_filtered_inv; [exact HI|reflexivity].
  - (* OAddRoleForUserInDomain *) destruct (k_g k); [|exact HI]. apply g_add_inv; [exact HI|reflexivity|].
    simpl in Hok. rewrite g_count_G, Hok. reflexivity.
  - destruct (k_g k); [|exact HI]. apply g_remove_filtered_inv; [exact HI|reflexivity].
  - (* OClear *)
    assert (Hab : m_auto_build s = true) by (destruct HI as [_ [_ H]]; exact H).
    cbv zeta. destruct (m_auto_build s) eqn:E; [|discriminate].
    cbn [fst]. apply (clear_inv k s); try reflexivity. exact HI.
  - discriminate.
  - discriminate.
  - (* OSave *) destruct (negb (k_adapter k)); [exact HI|]. cbn [fst]. apply Inv_set_db. exact HI.
  - (* OBuildLinks *)
    destruct (Inv_shape k s HI) as [Hsh Hsh2].
    destruct HI as [[Hg [Hag _]] [[Hg2 [Hag2 _]] Hab]].
    destruct (build_role_links_inv k s Hg Hag Hg2 Hag2 Hsh Hsh2 Hab) as [H1 H2].
    destruct (build_role_links k s) as [s' e]. simpl in *. subst e. exact H1.
  - (* flags *) destruct HI as [H1 [H2 H3]]. split; [exact H1|]. split; [exact H2|exact H3].
  - simpl in Hok. subst b. destruct HI as [H1 [H2 H3]]. split; [exact H1|]. split; [exact H2|reflexivity].
  - destruct HI as [H1 [H2 H3]]. split; [exact H1|]. split; [exact H2|exact H3].
  - destruct HI as [H1 [H2 H3]]. split; [exact H1|]. split; [exact H2|exact H3].
  - (* QEnforce *) pose proof (enforce_ex_m_inv k s req HI) as H. destruct (enforce_ex_m k s req). exact H.
  - pose proof (enforce_ex_m_inv k s req HI) as H. destruct (enforce_ex_m k s req). exact H.
  - exact HI.
  - exact HI.
  - exact HI.
  - (* QRoles *) pose proof (synced_get_roles _ _ _ u empty_dom (proj1 HI)) as H.
    destruct (rmk_get_roles (m_rm s) u empty_dom) as [l rm]. apply Inv_set_rm; [exact HI|exact H].
  - pose proof (synced_get_users _ _ _ r empty_dom (proj1 HI)) as H.
    destruct (rmk_get_users (m_rm s) r empty_dom) as [l rm]. apply Inv_set_rm; [exact HI|exact H].
  - pose proof (synced_get_roles _ _ _ u d (proj1 HI)) as H.
    destruct (rmk_get_roles (m_rm s) u d) as [l rm]. apply Inv_set_rm; [exact HI|exact H].
  - pose proof (synced_get_users _ _ _ r d (proj1 HI)) as H.
    destruct (rmk_get_users (m_rm s) r d) as [l rm]. apply Inv_set_rm; [exact HI|exact H].
  - (* QHasLink *)
    destruct (rm_of s pt) as [r|dm] eqn:Erm; [exact HI|].
    unfold dm_has_link_d. destruct (dm_domain_of d) as [d0|c]; [|exact HI]. cbn [rbind].
    unfold dm_has_link. destruct (dm_get_rm dm d0) as [rm' dm'] eqn:Eg. cbn [fst].
    unfold rm_of in Erm. destruct (pt =? PT_G); [|discriminate].
    apply Inv_set_rm; [exact HI|]. change dm' with (snd (rm', dm')). rewrite <- Eg.
    apply (synced_touch _ (RMDom dm) _ d0). rewrite <- Erm. exact (proj1 HI).
  - (* QImplRoles *)
    destruct (get_implicit_roles k s u d) as [[l s']|c] eqn:E; [|exact HI].
    apply (impl_roles_inv k d _ s [] [u] (l, s') HI E).
  - (* QImplPerms *)
    unfold get_implicit_permissions.
    destruct (get_implicit_roles k s u d) as [[l s']|c] eqn:E; [|exact HI].
    pose proof (impl_roles_inv k d _ s [] [u] (l, s') HI E) as H.
    destruct (perms_for (m_p s') (u :: l) d); [exact H|exact HI].
  - (* QImplUsers *)
    unfold get_implicit_users_for_permission.
    destruct (values_for_field (m_p s) (i_sub k) []) as [psub|c]; [|unfold res_names; exact HI].
    destruct (values_for_field (m_g s) 1 []) as [ginh|c]; [|unfold res_names; exact HI].
    destruct (values_for_field (m_g s) 0 []) as [gsub|c]; [|unfold res_names; exact HI].
    pose proof (users_allowed_inv k perm (set_subtract (dedup_first [] (gsub ++ psub)) ginh) s HI) as H.
    destruct (users_allowed k s _ perm) as [s' r]. unfold res_names. destruct r; exact H.
  - (* QUsersForResource *)
    destruct (values_for_field (m_g s) 1 []) as [roles|c]; [|exact HI].
    destruct (users_for_resource k (m_rm s) roles o None (m_p s) []) as [[l rm]|c] eqn:E; [|exact HI].
    apply Inv_set_rm; [exact HI|].
    apply (users_for_resource_synced k _ _ roles o None (m_p s) (m_rm s) [] (l, rm) (proj1 HI) E).
  - destruct (users_for_resource k (m_rm s) (roles_by_domain (m_g s) d) o (Some d) (m_p s) []) as [[l rm]|c] eqn:E; [|exact HI].
    apply Inv_set_rm; [exact HI|].
    apply (users_for_resource_synced k _ _ _ o (Some d) (m_p s) (m_rm s) [] (l, rm) (proj1 HI) E).
  - unfold res_names. destruct (values_for_field (m_p s) (i_sub k) []); exact HI.
  - unfold res_names. destruct (values_for_field (m_p s) (i_obj k) []); exact HI.
  - unfold res_names. destruct (values_for_field (m_p s) (i_act k) []); exact HI.
  - unfold res_names. destruct (values_for_field (m_g s) 1 []); exact HI.
  - exact HI.
  - exact HI.
Qed.

(* ---------- histories ---------- *)
Lemma step_db_inv k s o : Inv k s -> op_ok k o = true -> Inv k (fst (step_db k s o)).
Proof.
  intros HI Hok. unfold step_db. pose proof (step_inv k s o HI Hok) as H.
  destruct (step k s o) as [s' out]. simpl in H. destruct o; try exact H; apply Inv_set_db; exact H.
Qed.

Lemma run_inv k : forall ops s, Inv k s -> forallb (op_ok k) ops = true -> Inv k (fst (run k s ops)).
Proof.
  induction ops as [|o ops IH]; intros s HI Hok; [exact HI|].
  simpl in Hok. apply andb_true_iff in Hok. destruct Hok as [Ho Hops].
  cbn [run]. pose proof (step_db_inv k s o HI Ho) as H1.
  destruct (step_db k s o) as [s' out]. simpl in H1. specialize (IH s' H1 Hops).
  destruct (run k s' ops) as [s'' outs]. exact IH.
Qed.

Lemma init_inv k db : Inv k (init k db).
Proof.
  unfold init, fresh_rm. split; [|split; [|reflexivity]]; cbn [m_rm m_g m_g2 m_rm2].
  - split; [constructor|]. split; [constructor|]. rewrite g_count_G. destruct (k_dom k).
    + split; [reflexivity|]. split; [apply dm_inv_empty|]. split; [reflexivity|]. intro d. reflexivity.
    + split; reflexivity.
  - split; [constructor|]. split; [constructor|]. split; reflexivity.
Qed.

(* ---------- what a query sees depends only on the rules (so: equals a fresh enforcer's) ---------- *)
Definition canon_links (k : mkind) (g : store) (d : name) : list link :=
  if k_dom k then glinks_dom g d else glinks g.

Lemma Inv_kdom k s : Inv k s ->
  match m_rm s with RMPlain _ => k_dom k = false | RMDom _ => k_dom k = true end.
Proof.
  intros [[_ [_ H]] _]. rewrite g_count_G in H. destruct (m_rm s) as [r|dm].
  - destruct H as [Hc _]. destruct (k_dom k); [discriminate|reflexivity].
  - destruct H as [Hc _]. destruct (k_dom k); [reflexivity|discriminate].
Qed.

Lemma Inv_view k s d : Inv k s ->
  match m_rm s with
  | RMPlain r => r
  | RMDom dm => fst (dm_get_rm dm d)
  end = rm_set MAXLVL (canon_links k (m_g s) d).
Proof.
  intro HI. pose proof (Inv_kdom k s HI) as Hk. destruct HI as [[_ [_ H]] _]. unfold canon_links.
  destruct (m_rm s) as [r|dm].
  - rewrite Hk. destruct H as [_ Hr]. exact Hr.
  - rewrite Hk. destruct H as [_ [Hinv [Hmax Hl]]].
    destruct (dm_inv_query dm d Hinv) as [_ [Hq _]]. rewrite Hq, Hmax, Hl. reflexivity.
Qed.

Lemma g_link_canon k s a b d : Inv k s ->
  g_link (m_rm s) a b d = rm_has_link (rm_set MAXLVL (canon_links k (m_g s) d)) a b.
Proof.
  intro HI. rewrite <- (Inv_view k s d HI). unfold g_link. destruct (m_rm s) as [r|dm]; [reflexivity|].
  apply dm_has_link_fst.
Qed.

Lemma get_roles_canon k s u d : Inv k s ->
  fst (rmk_get_roles (m_rm s) u d) = rm_get_roles (rm_set MAXLVL (canon_links k (m_g s) d)) u.
Proof.
  intro HI. rewrite <- (Inv_view k s d HI). unfold rmk_get_roles. destruct (m_rm s) as [r|dm]; [reflexivity|].
  destruct (dm_get_roles dm u d) as [l s'] eqn:E. cbn [fst]. change l with (fst (l, s')). rewrite <- E.
  apply dm_get_roles_fst.
Qed.

Lemma get_users_canon k s r d : Inv k s ->
  fst (rmk_get_users (m_rm s) r d) = rm_get_users (rm_set MAXLVL (canon_links k (m_g s) d)) r.
Proof.
  intro HI. rewrite <- (Inv_view k s d HI). unfold rmk_get_users. destruct (m_rm s) as [r0|dm]; [reflexivity|].
  destruct (dm_get_users dm r d) as [l s'] eqn:E. cbn [fst]. change l with (fst (l, s')). rewrite <- E.
  apply dm_get_users_fst.
Qed.

(* two states that satisfy the invariant and hold the same rules *)
Definition same_rules (s s' : mstate) : Prop :=
  m_p s = m_p s' /\ m_g s = m_g s' /\ m_g2 s = m_g2 s' /\ m_enabled s = m_enabled s'.

Lemma rule_matches_same k s s' req r : Inv k s -> Inv k s' -> same_rules s s' ->
  rule_matches k s req r = rule_matches k s' req r.
Proof.
  intros HI HI' [Ep [Eg [Eg2 Ee]]]. unfold rule_matches.
  rewrite (g_link_canon k s _ _ _ HI), (g_link_canon k s' _ _ _ HI'), Eg.
  destruct HI as [_ [[_ [_ [_ H2]]] _]]. destruct HI' as [_ [[_ [_ [_ H2']]] _]].
  rewrite H2, H2', Eg2. reflexivity.
Qed.

Theorem decisions_depend_on_rules_only k s s' req : Inv k s -> Inv k s' -> same_rules s s' ->
  snd (enforce_ex_m k s req) = snd (enforce_ex_m k s' req).
Proof.
  intros HI HI' Hs. pose proof Hs as [Ep [Eg [Eg2 Ee]]]. unfold enforce_ex_m. cbn [snd].
  rewrite Ee, Ep. f_equal.
  - apply map_ext. intro r. unfold rule_outcome. rewrite (rule_matches_same k s s' req r HI HI' Hs). reflexivity.
  - apply rule_matches_same; assumption.
Qed.

Theorem roles_depend_on_rules_only k s s' u d : Inv k s -> Inv k s' -> same_rules s s' ->
  fst (rmk_get_roles (m_rm s) u d) = fst (rmk_get_roles (m_rm s') u d)
  /\ fst (rmk_get_users (m_rm s) u d) = fst (rmk_get_users (m_rm s') u d).
Proof.
  intros HI HI' [_ [Eg _]].
  rewrite (get_roles_canon k s u d HI), (get_roles_canon k s' u d HI'),
          (get_users_canon k s u d HI), (get_users_canon k s' u d HI'), Eg. split; reflexivity.
Qed.

(* the fresh enforcer: same rules, managers rebuilt from scratch *)
Definition freshen (k : mkind) (s : mstate) : mstate := fst (build_role_links k s).

Lemma freshen_inv k s : Inv k s -> Inv k (freshen k s) /\ same_rules s (freshen k s).
Proof.
  intro HI. destruct (Inv_shape k s HI) as [Hsh Hsh2].
  pose proof HI as [[Hg [Hag _]] [[Hg2 [Hag2 _]] Hab]].
  destruct (build_role_links_inv k s Hg Hag Hg2 Hag2 Hsh Hsh2 Hab) as [H1 _].
  split; [exact H1|]. unfold freshen, build_role_links.
  cbn [m_rm m_g m_g2 m_rm2 set_rm set_rm2].
  destruct (links_add (g_count k PT_G) (clear_rmk (m_rm s)) (m_g s) EGroupArity) as [rm e].
  destruct e as [c|]; [repeat split|].
  destruct (links_add 2 (RMPlain (rm_clear (m_rm2 s))) (m_g2 s) EGroupArity) as [rm2 e2].
  cbn [fst]. unfold put_rm. cbn. destruct rm2; repeat split.
Qed.

(* C04, the headline: after ANY admissible management history, of any length, every decision and
   every role query equals that of a freshly built enforcer holding the current rules *)
Theorem links_reflect_policy k db ops :
  forallb (op_ok k) ops = true ->
  let s := fst (run k (init k db) ops) in
  (forall req, snd (enforce_ex_m k s req) = snd (enforce_ex_m k (freshen k s) req))
  /\ (forall u d, fst (rmk_get_roles (m_rm s) u d) = fst (rmk_get_roles (m_rm (freshen k s)) u d)
               /\ fst (rmk_get_users (m_rm s) u d) = fst (rmk_get_users (m_rm (freshen k s)) u d)).
Proof.
  intros Hok s. assert (HI : Inv k s) by (apply run_inv; [apply init_inv|exact Hok]).
  destruct (freshen_inv k s HI) as [HI' Hs]. split.
  - intro req. apply (decisions_depend_on_rules_only k); assumption.
  - intros u d. apply (roles_depend_on_rules_only k); assumption.
Qed.

(* ---------- reloads (C11, and C04 across reloads) ---------- *)
Lemma deliver_err_or k : forall rows fa p g g2,
  (exists c, deliver k rows fa p g g2 = Err c) \/ (exists p' g' g2', deliver k rows fa p g g2 = Ok (p', g', g2')).
Proof.
  intros rows fa p g g2. destruct (deliver k rows fa p g g2) as [[[p' g'] g2']|c]; [right; eauto|left; eauto].
Qed.

(* a failed load_policy leaves the rules untouched and the managers in sync with them *)
Theorem failed_reload k s fa s' v :
  Inv k s -> load_policy k s fa = (s', v) -> is_err v = true ->
  Inv k s' /\ same_rules s s'.
Proof.
  intros HI H Herr. unfold load_policy in H.
  destruct (deliver k (m_db s) fa [] [] []) as [[[p g] g2]|c].
  2:{ inversion H; subst. split; [exact HI|repeat split]. }
  destruct (if k_prio k then sort_by_priority 0 p else Ok p) as [p'|c].
  2:{ inversion H; subst. split; [exact HI|repeat split]. }
  assert (Hab : m_auto_build s = true) by (destruct HI as [_ [_ Hx]]; exact Hx).
  rewrite Hab in H.
  match type of H with context [build_role_links k ?c] => destruct (build_role_links k c) as [s1 e1] end.
  destruct e1 as [c|].
  - inversion H; subst. apply freshen_inv. exact HI.
  - inversion H; subst. discriminate.
Qed.

(* consequently every decision and every role query after the failed call equals the one before *)
Theorem failed_reload_observations k s fa s' v :
  Inv k s -> load_policy k s fa = (s', v) -> is_err v = true ->
  (forall req, snd (enforce_ex_m k s req) = snd (enforce_ex_m k s' req))
  /\ (forall u d, fst (rmk_get_roles (m_rm s) u d) = fst (rmk_get_roles (m_rm s') u d)
               /\ fst (rmk_get_users (m_rm s) u d) = fst (rmk_get_users (m_rm s') u d))
  /\ m_p s' = m_p s /\ m_g s' = m_g s /\ m_g2 s' = m_g2 s.
Proof.
  intros HI H Herr. destruct (failed_reload k s fa s' v HI H Herr) as [HI' Hs].
  split; [intro req; apply (decisions_depend_on_rules_only k); assumption|].
  split; [intros u d; apply (roles_depend_on_rules_only k); assumption|].
  destruct Hs as [E1 [E2 [E3 _]]]. repeat split; congruence.
Qed.

(* the adapter failing after ANY prefix of its rows is such a failure *)
Lemma deliver_fails k : forall rows n p g g2, exists c, deliver k rows (Some n) p g g2 = Err c.
Proof.
  induction rows as [|[pt r] rows IH]; intros n p g g2; destruct n as [|n]; simpl; eauto.
  destruct (pt =? PT_P); [apply IH|]. destruct (pt =? PT_G); [destruct (k_g k); apply IH|].
  destruct (pt =? PT_G2); [destruct (k_g2 k); apply IH|apply IH].
Qed.

Theorem adapter_failure_raises k s n : exists c, snd (load_policy k s (Some n)) = verr c.
Proof.
  unfold load_policy. destruct (deliver_fails k (m_db s) n [] [] []) as [c Hc]. rewrite Hc. exists c. reflexivity.
Qed.

Lemma is_err_verr c : is_err (verr c) = true.
Proof. reflexivity. Qed.

(* a successful reload replaces the rules by what the adapter delivered and, if what it delivered is
   usable (duplicate-free grouping rows of the declared arity), leaves rules and links in sync *)
Definition delivered_ok (k : mkind) (g g2 : store) : Prop :=
  NoDup g /\ arity_ok (g_count k PT_G) g /\ NoDup g2 /\ arity_ok 2 g2.

Theorem successful_reload k s s' :
  Inv k s -> load_policy k s None = (s', ok (VL [])) ->
  exists p g g2, deliver k (m_db s) None [] [] [] = Ok (p, g, g2)
    /\ m_g s' = g /\ m_g2 s' = g2
    /\ (if k_prio k then sort_by_priority 0 p = Ok (m_p s') else m_p s' = p)
    /\ (delivered_ok k g g2 -> Inv k s').
Proof.
  intros HI H. unfold load_policy in H.
  destruct (deliver k (m_db s) None [] [] []) as [[[p g] g2]|c]; [|inversion H].
  exists p, g, g2. split; [reflexivity|].
  destruct (if k_prio k then sort_by_priority 0 p else Ok p) as [p'|c] eqn:Es; [|inversion H].
  assert (Hab : m_auto_build s = true) by (destruct HI as [_ [_ Hx]]; exact Hx).
  rewrite Hab in H.
  set (cand := mkM p' g g2 (m_rm s) (m_rm2 s) (m_auto_save s) true (m_auto_notify s) (m_enabled s)
                   (m_db s) (m_prio_on s || k_prio k)) in *.
  destruct (Inv_shape k s HI) as [Hsh Hsh2].
  assert (Hstores : forall x, fst (build_role_links k cand) = x -> m_p x = p' /\ m_g x = g /\ m_g2 x = g2).
  { intros x Hx. subst x. unfold build_role_links. cbn [m_rm m_g m_g2 m_rm2 set_rm set_rm2 cand].
    destruct (links_add (g_count k PT_G) (clear_rmk (m_rm s)) g EGroupArity) as [rm e].
    destruct e; [repeat split|].
    destruct (links_add 2 (RMPlain (rm_clear (m_rm2 s))) g2 EGroupArity) as [rm2 e2].
    cbn [fst]. unfold put_rm. cbn. destruct rm2; repeat split. }
  destruct (build_role_links k cand) as [s1 e1] eqn:Eb.
  destruct e1 as [c|]; [inversion H|]. inversion H; subst s'.
  destruct (Hstores s1 eq_refl) as [E1 [E2 E3]].
  split; [exact E2|]. split; [exact E3|]. split.
  - destruct (k_prio k); [rewrite E1; exact Es|inversion Es; congruence].
  - intros [Hg [Hag [Hg2 Hag2]]].
    destruct (build_role_links_inv k cand Hg Hag Hg2 Hag2 Hsh Hsh2 eq_refl) as [Hinv _].
    rewrite Eb in Hinv. exact Hinv.
Qed.
