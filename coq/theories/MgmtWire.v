(* MgmtWire.v — wire decoding of model kinds / operations and encoding of observations for the
   management state machine; oracle entry point shared by C04 C05 C06 C07 C09 C11 C15 C19 C20. *)
From Coq Require Import List NArith Bool Arith.
From PyCasbin Require Import Base Effect Enforce Policy RoleGraph Mgmt.
Import ListNotations.
Local Open Scope N_scope.

Definition as_rule : val -> option rule := as_names.
Definition as_rules : val -> option (list rule) := as_listof as_rule.

Definition as_kind (v : val) : option mkind :=
  match v with
  | VL [d; g; g2; e; p; VN eff; a; VN w] =>
      match as_bool d, as_bool g, as_bool g2, as_bool e, as_bool p, effector_of_N eff, as_bool a with
      | Some d, Some g, Some g2, Some e, Some p, Some eff, Some a => Some (mkKind d g g2 e p eff a w)
      | _, _, _, _, _, _, _ => None
      end
  | _ => None
  end.

Definition as_rows (v : val) : option (list (N * rule)) :=
  as_listof (fun x => match x with
                      | VL [VN pt; r] => match as_rule r with Some r => Some (pt, r) | None => None end
                      | _ => None
                      end) v.

Definition as_op (v : val) : option op :=
  match v with
  | VL [VN 1; VN pt; r] => option_map (OAdd pt) (as_rule r)
  | VL [VN 2; VN pt; rs] => option_map (OAddMany pt) (as_rules rs)
  | VL [VN 3; VN pt; r] => option_map (ORemove pt) (as_rule r)
  | VL [VN 4; VN pt; rs] => option_map (ORemoveMany pt) (as_rules rs)
  | VL [VN 5; VN pt; VN i; vs] => option_map (ORemoveFiltered pt (N.to_nat i)) (as_names vs)
  | VL [VN 6; o; n] => match as_rule o, as_rule n with Some o, Some n => Some (OUpdate o n) | _, _ => None end
  | VL [VN 7; o; n] => match as_rules o, as_rules n with Some o, Some n => Some (OUpdateMany o n) | _, _ => None end
  | VL [VN 8; ns; VN i; vs] => match as_rules ns, as_names vs with
                               | Some ns, Some vs => Some (OUpdateFiltered ns (N.to_nat i) vs) | _, _ => None end
  | VL [VN 10; VN u] => Some (ODeleteUser u)
  | VL [VN 11; VN r] => Some (ODeleteRole r)
  | VL [VN 12; vs] => option_map ODeletePermission (as_names vs)
  | VL [VN 13; VN u; vs] => option_map (OAddPermissionForUser u) (as_names vs)
  | VL [VN 14; VN u; vs] => option_map (ODeletePermissionForUser u) (as_names vs)
  | VL [VN 15; VN u] => Some (ODeletePermissionsForUser u)
  | VL [VN 16; VN u; VN r] => Some (OAddRoleForUser u r)
  | VL [VN 17; VN u; VN r] => Some (ODeleteRoleForUser u r)
  | VL [VN 18; VN u] => Some (ODeleteRolesForUser u)
  | VL [VN 19; VN u; VN r; VN d] => Some (OAddRoleForUserInDomain u r d)
  | VL [VN 20; VN u; VN r; VN d] => Some (ODeleteRolesForUserInDomain u r d)
  | VL [VN 30] => Some OClear
  | VL [VN 31] => Some OLoad
  | VL [VN 32; VN n] => Some (OLoadFail (N.to_nat n))
  | VL [VN 33] => Some OSave
  | VL [VN 34] => Some OBuildLinks
  | VL [VN 35; b] => option_map OAutoSave (as_bool b)
  | VL [VN 36; b] => option_map OAutoBuild (as_bool b)
  | VL [VN 37; b] => option_map OAutoNotify (as_bool b)
  | VL [VN 38; b] => option_map OEnable (as_bool b)
  | VL [VN 50; r] => option_map QEnforce (as_rule r)
  | VL [VN 51; r] => option_map QEnforceEx (as_rule r)
  | VL [VN 52; VN pt] => Some (QPolicy pt)
  | VL [VN 53; VN pt; VN i; vs] => option_map (QFiltered pt (N.to_nat i)) (as_names vs)
  | VL [VN 54; VN pt; r] => option_map (QHas pt) (as_rule r)
  | VL [VN 55; VN u] => Some (QRoles u)
  | VL [VN 56; VN r] => Some (QUsers r)
  | VL [VN 57; VN u; VN d] => Some (QRolesDom u d)
  | VL [VN 58; VN r; VN d] => Some (QUsersDom r d)
  | VL [VN 59; VN pt; VN a; VN b; d] => option_map (QHasLink pt a b) (as_names d)
  | VL [VN 60; VN u; VN d] => Some (QImplRoles u d)
  | VL [VN 61; VN u; VN d] => Some (QImplPerms u d)
  | VL [VN 62; vs] => option_map QImplUsers (as_names vs)
  | VL [VN 63; VN o] => Some (QUsersForResource o)
  | VL [VN 64; VN o; VN d] => Some (QUsersForResourceDom o d)
  | VL [VN 65] => Some QAllSubjects
  | VL [VN 66] => Some QAllObjects
  | VL [VN 67] => Some QAllActions
  | VL [VN 68] => Some QAllRoles
  | VL [VN 69; VN u] => Some (QPermsForUser u)
  | VL [VN 70; VN u; VN d] => Some (QPermsForUserDom u d)
  | _ => None
  end.

Definition vacall (c : acall) : val :=
  match c with
  | AAdd pt r => VL [VN 1; VN pt; vrule r]
  | AAddMany pt rs => VL [VN 2; VN pt; vrules rs]
  | ARemove pt r => VL [VN 3; VN pt; vrule r]
  | ARemoveMany pt rs => VL [VN 4; VN pt; vrules rs]
  | ARemoveFiltered pt i vs => VL [VN 5; VN pt; vnat i; VL (map VN vs)]
  | AUpdate pt o n => VL [VN 6; VN pt; vrule o; vrule n]
  | AUpdateMany pt os ns => VL [VN 7; VN pt; vrules os; vrules ns]
  | AUpdateFiltered pt ns i vs => VL [VN 8; VN pt; vrules ns; vnat i; VL (map VN vs)]
  | ASave rows => VL [VN 9; VL (map (fun row => VL [VN (fst row); vrule (snd row)]) rows)]
  end.

Definition vwcall (c : wcall) : val :=
  match c with
  | WUpdate => VL [VN 0]
  | WAdd pt r => VL [VN 1; VN pt; vrule r]
  | WAddMany pt rs => VL [VN 2; VN pt; vrules rs]
  | WRemove pt r => VL [VN 3; VN pt; vrule r]
  | WRemoveMany pt rs => VL [VN 4; VN pt; vrules rs]
  | WRemoveFiltered pt i vs => VL [VN 5; VN pt; vnat i; VL (map VN vs)]
  | WUpdatePolicy o n => VL [VN 6; vrule o; vrule n]
  | WUpdatePolicies os ns => VL [VN 7; vrules os; vrules ns]
  | WSave => VL [VN 9]
  end.

Definition vrows (rows : list (N * rule)) : val :=
  VL (map (fun row => VL [VN (fst row); vrule (snd row)]) rows).

(* observation after each step: [result; adapter calls; watcher calls; p; g; g2; adapter rows] *)
Fixpoint run_obs (k : mkind) (s : mstate) (ops : list op) : list val :=
  match ops with
  | [] => []
  | o :: rest =>
      let '(s', out) := step_db k s o in
      VL [o_val out; VL (map vacall (o_acalls out)); VL (map vwcall (o_wcalls out));
          vrules (m_p s'); vrules (m_g s'); vrules (m_g2 s'); vrows (m_db s')]
      :: run_obs k s' rest
  end.

(* tag 1: [kind; initial adapter rows; load_first; ops]  ->  list of observations *)
Definition oracle_mgmt (tag : N) (v : val) : val :=
  match tag, v with
  | 1, VL [kd; rows; lf; ops] =>
      match as_kind kd, as_rows rows, as_bool lf, as_listof as_op ops with
      | Some k, Some rows, Some lf, Some ops =>
          let s0 := init k rows in
          let s1 := if lf then fst (step_db k s0 OLoad) else s0 in
          VL (run_obs k s1 ops)
      | _, _, _, _ => vbad
      end
  | _, _ => vbad
  end.
