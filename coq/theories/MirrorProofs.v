(* MirrorProofs.v — with auto-save on, the rows a faithful adapter holds mirror the in-memory policy (C09). *)
From Coq Require Import List NArith Bool Arith Lia.
From PyCasbin Require Import Base Policy PolicyProofs RoleGraph Mgmt MgmtLinks MgmtProofs CallsProofs.
Import ListNotations.
Local Open Scope N_scope.

(* ---------- db_rows under the faithful adapter's operations ---------- *)
Lemma db_rows_app pt db db' : db_rows pt (db ++ db') = db_rows pt db ++ db_rows pt db'.
Proof. unfold db_rows. rewrite filter_app, map_app. reflexivity. Qed.

Lemma db_rows_tagged pt pt' rs :
  db_rows pt (map (fun r => (pt', r)) rs) = if pt' =? pt then rs else [].
Proof.
  unfold db_rows. induction rs as [|r rs IH]; simpl; [destruct (pt' =? pt); reflexivity|].
  destruct (pt' =? pt) eqn:E; simpl; rewrite IH; reflexivity.
Qed.

Lemma db_rows_filter_row pt pt' (f : rule -> bool) db :
  db_rows pt (filter (fun row => negb ((fst row =? pt') && f (snd row))) db)
  = if pt' =? pt then filter (fun r => negb (f r)) (db_rows pt db) else db_rows pt db.
Proof.
  unfold db_rows. induction db as [|[q r] db IH]; simpl; [destruct (pt' =? pt); reflexivity|].
  destruct (q =? pt') eqn:E1; simpl.
  - apply N.eqb_eq in E1. subst q. destruct (f r) eqn:Fr; simpl.
    + rewrite IH. destruct (pt' =? pt) eqn:E2; simpl; [rewrite Fr; reflexivity|reflexivity].
    + destruct (pt' =? pt) eqn:E2; simpl; rewrite IH; [rewrite Fr; reflexivity|reflexivity].
  - destruct (q =? pt) eqn:E2; simpl; rewrite IH; [|reflexivity].
    destruct (pt' =? pt) eqn:E3; [|reflexivity].
    apply N.eqb_eq in E2, E3. subst. rewrite N.eqb_refl in E1. discriminate.
Qed.

Lemma db_rows_remove pt pt' r db :
  db_rows pt (db_remove pt' r db) = if pt' =? pt then filter (neqb r) (db_rows pt db) else db_rows pt db.
Proof.
  unfold db_remove, row_is. rewrite (db_rows_filter_row pt pt' (fun x => rule_eqb x r)).
  destruct (pt' =? pt); reflexivity.
Qed.

Lemma db_rows_remove_many pt pt' : forall rs db,
  db_rows pt (fold_left (fun d r => db_remove pt' r d) rs db)
  = if pt' =? pt then filter (notin rs) (db_rows pt db) else db_rows pt db.
Proof.
  induction rs as [|r rs IH]; intro db; simpl.
  - destruct (pt' =? pt); [rewrite filter_notin_nil; reflexivity|reflexivity].
  - rewrite IH, db_rows_remove. destruct (pt' =? pt); [|reflexivity].
    rewrite filter_filter_and. apply filter_ext. intro x. unfold neqb, notin. simpl. rewrite negb_orb. reflexivity.
Qed.

Lemma db_rows_remove_filtered pt pt' i vs db :
  db_rows pt (filter (fun row => negb (row_matches pt' i vs row)) db)
  = if pt' =? pt then filter (fun r => negb (fm_true i vs r)) (db_rows pt db) else db_rows pt db.
Proof. unfold row_matches. apply (db_rows_filter_row pt pt' (fm_true i vs)). Qed.

Lemma db_rows_update pt pt' o n db :
  db_rows pt (map (fun row => if row_is pt' o row then (pt', n) else row) db)
  = if pt' =? pt then replace_rule o n (db_rows pt db) else db_rows pt db.
Proof.
  unfold db_rows, row_is, replace_rule. induction db as [|[q r] db IH]; simpl; [destruct (pt' =? pt); reflexivity|].
  destruct (q =? pt') eqn:E1; simpl.
  - apply N.eqb_eq in E1. subst q. destruct (rule_eqb r o) eqn:Er; simpl.
    + destruct (pt' =? pt) eqn:E2; simpl; rewrite IH; [rewrite Er; reflexivity|reflexivity].
    + destruct (pt' =? pt) eqn:E2; simpl; rewrite IH; [rewrite Er; reflexivity|reflexivity].
  - destruct (q =? pt) eqn:E2; simpl; rewrite IH; [|reflexivity].
    destruct (pt' =? pt) eqn:E3; [|reflexivity].
    apply N.eqb_eq in E2, E3. subst. rewrite N.eqb_refl in E1. discriminate.
Qed.

(* ---------- one policy type: memory list vs adapter rows, over histories ---------- *)
Definition sop_acall (pt : N) (o : sop) : acall :=
  match o with
  | SAdd r => AAdd pt r | SAddMany rs => AAddMany pt rs
  | SRemove r => ARemove pt r | SRemoveMany rs => ARemoveMany pt rs
  | SRemoveFiltered i vs => ARemoveFiltered pt i vs
  | SUpdate o n => AUpdate pt o n | SUpdateMany os ns => AUpdateMany pt os ns
  end.

(* does the call report success (= something changed)?  exactly the flag the model functions return *)
Definition sop_changed (l : store) (o : sop) : bool :=
  match o with
  | SAdd r => snd (add_policy None l r)
  | SAddMany rs => snd (add_policies None l rs)
  | SRemove r => snd (remove_policy l r)
  | SRemoveMany rs => snd (remove_policies l rs)
  | SRemoveFiltered i vs => match remove_filtered l i vs with Ok (_, b) => b | Err _ => false end
  | SUpdate o n => match update_policy None l o n with Ok (_, b) => b | Err _ => false end
  | SUpdateMany os ns => match update_policies None l os ns with Ok (_, b) => b | Err _ => false end
  end.

(* the enforcer with auto-save on: memory step, and the adapter call iff the call reports success
   (CallsProofs: that is exactly what internal_enforcer issues) *)
Definition db_step (pt : N) (st : store * list (N * rule)) (o : sop) : store * list (N * rule) :=
  (sstep (fst st) o, if sop_changed (fst st) o then apply_acall (snd st) (sop_acall pt o) else snd st).

(* update_policies writes by position; the adapter replaces by value: the same under the call's own checks *)
Lemma index_of_replace_other l o n x :
  x <> o -> x <> n -> index_of rule_eqb x (replace_rule o n l) = index_of rule_eqb x l.
Proof.
  intros Ho Hn. unfold replace_rule. induction l as [|y l IH]; [reflexivity|]. simpl.
  destruct (rule_eqb y o) eqn:Ey.
  - apply rule_eqb_eq in Ey. subst y.
    assert (E1 : rule_eqb x n = false) by (apply rule_eqb_neq; exact Hn).
    assert (E2 : rule_eqb x o = false) by (apply rule_eqb_neq; exact Ho).
    rewrite E1, E2, IH. reflexivity.
  - destruct (rule_eqb x y); [reflexivity|]. rewrite IH. reflexivity.
Qed.

Lemma indices_of_replace l o n : forall olds idxs,
  indices_of l olds = Some idxs -> ~ In o olds -> ~ In n olds ->
  indices_of (replace_rule o n l) olds = Some idxs.
Proof.
  induction olds as [|x olds IH]; intros idxs H Ho Hn; [exact H|]. simpl in *.
  destruct (index_of rule_eqb x l) as [i|] eqn:Ei; [|discriminate].
  destruct (indices_of l olds) as [r|] eqn:Er; [|discriminate]. inversion H; subst.
  rewrite index_of_replace_other; [|intro; subst; apply Ho; left; reflexivity|intro; subst; apply Hn; left; reflexivity].
  rewrite Ei. rewrite (IH r eq_refl); [reflexivity| |]; intro; [apply Ho|apply Hn]; right; assumption.
Qed.

Lemma indices_of_In l : forall olds idxs, indices_of l olds = Some idxs -> forall x, In x olds -> In x l.
Proof.
  induction olds as [|y olds IH]; intros idxs H x Hx; [contradiction|]. simpl in H.
  destruct (index_of rule_eqb y l) as [i|] eqn:Ei; [|discriminate].
  destruct (indices_of l olds) as [r|] eqn:Er; [|discriminate].
  destruct Hx as [Hx|Hx]; [subst; apply index_of_has; eauto|apply (IH r eq_refl x Hx)].
Qed.

Lemma write_all_is_replace : forall olds news l idxs,
  NoDup l -> NoDup olds -> NoDup news -> length olds = length news ->
  indices_of l olds = Some idxs -> (forall n, In n news -> ~ In n l) ->
  write_all l idxs news
  = fold_left (fun d on => replace_rule (fst on) (snd on) d) (combine olds news) l.
Proof.
  induction olds as [|o olds IH]; intros news l idxs Hl Ho Hn Hlen Hidx Hnew;
    destruct news as [|n news]; simpl in Hlen; try discriminate.
  - simpl in Hidx. inversion Hidx. reflexivity.
  - simpl in Hidx. destruct (index_of rule_eqb o l) as [i|] eqn:Ei; [|discriminate].
    destruct (indices_of l olds) as [r|] eqn:Er; [|discriminate]. inversion Hidx; subst idxs.
    inversion Ho as [|? ? Ho1 Ho2]; subst. inversion Hn as [|? ? Hn1 Hn2]; subst.
    cbn [write_all combine fold_left fst snd].
    rewrite (set_nth_replace l o n i Hl Ei).
    assert (Hnl : ~ In n l) by (apply Hnew; left; reflexivity).
    apply IH.
    + pose proof (update_keeps_nodup l o n Hl) as H. unfold spec_update in H.
      assert (Hho : has_policy l o = true) by (apply has_policy_In; apply index_of_has; eauto).
      assert (Hhn : has_policy l n = false) by (apply has_policy_false; exact Hnl).
      rewrite Hho, Hhn in H. exact H.
    + exact Ho2.
    + exact Hn2.
    + lia.
    + apply indices_of_replace; [exact Er|exact Ho1|].
      intro Hin. apply Hnl. apply (indices_of_In l olds r Er n Hin).
    + intros m Hm Hin. unfold replace_rule in Hin. apply in_map_iff in Hin. destruct Hin as [y [Hy Hyl]].
      destruct (rule_eqb y o); [subst m; contradiction|]. subst y. apply (Hnew m); [right; exact Hm|exact Hyl].
Qed.

Lemma db_rows_update_many pt pt' : forall ons db,
  db_rows pt (fold_left (fun d on => map (fun row => if row_is pt' (fst on) row then (pt', snd on) else row) d) ons db)
  = if pt' =? pt then fold_left (fun d on => replace_rule (fst on) (snd on) d) ons (db_rows pt db)
    else db_rows pt db.
Proof.
  induction ons as [|[o n] ons IH]; intro db; simpl; [destruct (pt' =? pt); reflexivity|].
  rewrite IH, db_rows_update. destruct (pt' =? pt); reflexivity.
Qed.

(* one step keeps: adapter rows of this type = memory; other types' rows untouched; memory duplicate-free *)
Lemma db_step_mirror pt st o :
  NoDup (fst st) -> db_rows pt (snd st) = fst st ->
  let st' := db_step pt st o in
  db_rows pt (snd st') = fst st' /\ NoDup (fst st')
  /\ forall q, (pt =? q) = false -> db_rows q (snd st') = db_rows q (snd st).
Proof.
  destruct st as [l db]. cbn [fst snd]. intros Hnd Hm. unfold db_step. cbn [fst snd].
  destruct (sstep_refines l o Hnd) as [_ Hnd']. split; [|split; [exact Hnd'|]].
  - destruct o as [r|rs|r|rs|i vs|o n|os ns]; cbn [sstep sop_changed sop_acall].
    + unfold add_policy. destruct (has_policy l r); cbn [fst snd]; [exact Hm|].
      cbn [apply_acall]. rewrite db_rows_app, Hm. unfold db_rows. simpl. rewrite N.eqb_refl. reflexivity.
    + rewrite add_policies_spec. unfold spec_add_batch.
      destruct (forallb (fun r => negb (has_policy l r)) rs && nodupb rule_eqb rs); cbn [fst snd]; [|exact Hm].
      cbn [apply_acall]. rewrite db_rows_app, Hm, db_rows_tagged, N.eqb_refl. reflexivity.
    + rewrite (remove_policy_spec l r Hnd). unfold spec_remove.
      destruct (has_policy l r); cbn [fst snd]; [|exact Hm].
      cbn [apply_acall]. rewrite db_rows_remove, N.eqb_refl, Hm. reflexivity.
    + rewrite (remove_policies_spec l rs Hnd). unfold spec_remove_batch.
      destruct (forallb (has_policy l) rs && nodupb rule_eqb rs); cbn [fst snd]; [|exact Hm].
      cbn [apply_acall]. rewrite db_rows_remove_many, N.eqb_refl, Hm. reflexivity.
    + unfold remove_filtered. destruct (split_filtered l i vs) as [[kept gone]|c] eqn:E; [|exact Hm].
      destruct (split_filtered_spec l i vs kept gone E) as [Hg Hk]. subst kept gone.
      destruct (filter (fm_true i vs) l) eqn:Eg; cbn [negb].
      * rewrite Hm. rewrite <- filter_fm_split, Eg. symmetry. apply filter_notin_nil.
      * cbn [apply_acall]. rewrite db_rows_remove_filtered, N.eqb_refl, Hm. reflexivity.
    + rewrite (update_policy_spec l o n Hnd). unfold spec_update.
      destruct (has_policy l o && negb (has_policy l n)); cbn [fst snd]; [|exact Hm].
      cbn [apply_acall]. rewrite db_rows_update, N.eqb_refl, Hm. reflexivity.
    + unfold update_policies.
      destruct (negb (Nat.eqb (length os) (length ns))) eqn:El; [exact Hm|].
      destruct (negb (nodupb rule_eqb os)) eqn:Eo; [exact Hm|].
      destruct (indices_of l os) as [idxs|] eqn:Ei; [|exact Hm].
      destruct (negb (batch_addable l [] ns)) eqn:Eb; [exact Hm|]. cbn [fst snd].
      cbn [apply_acall]. rewrite db_rows_update_many, N.eqb_refl, Hm.
      apply negb_false_iff in El, Eo, Eb. apply Nat.eqb_eq in El.
      rewrite batch_addable_spec in Eb. apply andb_true_iff in Eb. destruct Eb as [Eb Hnn].
      apply andb_true_iff in Eb. destruct Eb as [Habs _].
      symmetry. apply write_all_is_replace; try assumption.
      * apply nodupb_NoDup. exact Eo.
      * apply nodupb_NoDup. exact Hnn.
      * intros n Hn. rewrite forallb_forall in Habs. specialize (Habs n Hn).
        apply negb_true_iff in Habs. apply has_policy_false. exact Habs.
  - intros q Hq. destruct (sop_changed l o); [|reflexivity].
    destruct o as [r|rs|r|rs|i vs|o n|os ns]; cbn [sop_acall apply_acall].
    + rewrite db_rows_app. unfold db_rows at 2. simpl. rewrite Hq. simpl. apply app_nil_r.
    + rewrite db_rows_app, db_rows_tagged, Hq. apply app_nil_r.
    + rewrite db_rows_remove, Hq. reflexivity.
    + rewrite db_rows_remove_many, Hq. reflexivity.
    + rewrite db_rows_remove_filtered, Hq. reflexivity.
    + rewrite db_rows_update, Hq. reflexivity.
    + rewrite db_rows_update_many, Hq. reflexivity.
Qed.

(* C09: over EVERY history of management calls on a policy type, with auto-save on, the rows the adapter
   has been told to hold equal the in-memory rules (same order), rows of other types are never touched,
   and a call that reports failure / no change tells the adapter nothing (by construction of db_step,
   justified for the enforcer model by CallsProofs) *)
Theorem mirror_history pt : forall ops st,
  NoDup (fst st) -> db_rows pt (snd st) = fst st ->
  let st' := fold_left (db_step pt) ops st in
  db_rows pt (snd st') = fst st' /\ NoDup (fst st')
  /\ forall q, (pt =? q) = false -> db_rows q (snd st') = db_rows q (snd st).
Proof.
  induction ops as [|o ops IH]; intros st Hnd Hm; cbn [fold_left].
  - split; [exact Hm|]. split; [exact Hnd|]. reflexivity.
  - destruct (db_step_mirror pt st o Hnd Hm) as [H1 [H2 H3]].
    destruct (IH (db_step pt st o) H2 H1) as [I1 [I2 I3]].
    split; [exact I1|]. split; [exact I2|]. intros q Hq. rewrite (I3 q Hq). apply H3. exact Hq.
Qed.

(* save_policy stores exactly the in-memory policy *)
Theorem save_stores_memory k s :
  db_rows PT_P (all_rows k s) = m_p s /\ db_rows PT_G (all_rows k s) = m_g s /\ db_rows PT_G2 (all_rows k s) = m_g2 s.
Proof.
  unfold all_rows. rewrite !db_rows_app, !db_rows_tagged. cbn. rewrite !app_nil_r. repeat split; reflexivity.
Qed.

(* reloading what the adapter holds gives back the mirrored rules *)
Lemma deliver_is_rows k : forall rows p g g2,
  deliver k rows None p g g2 =
  Ok (p ++ db_rows PT_P rows,
      g ++ (if k_g k then db_rows PT_G rows else []),
      g2 ++ (if k_g2 k then db_rows PT_G2 rows else [])).
Proof.
  induction rows as [|[pt r] rows IH]; intros p g g2; cbn [deliver].
  - unfold db_rows. simpl. destruct (k_g k), (k_g2 k); rewrite !app_nil_r; reflexivity.
  - destruct (pt =? PT_P) eqn:E0.
    + apply N.eqb_eq in E0. subst pt. rewrite IH. unfold db_rows. cbn. rewrite <- app_assoc. reflexivity.
    + destruct (pt =? PT_G) eqn:E1.
      * apply N.eqb_eq in E1. subst pt. destruct (k_g k); rewrite IH; unfold db_rows; cbn;
          rewrite <- ?app_assoc; reflexivity.
      * destruct (pt =? PT_G2) eqn:E2.
        -- apply N.eqb_eq in E2. subst pt. destruct (k_g2 k); rewrite IH; unfold db_rows; cbn;
             rewrite <- ?app_assoc; reflexivity.
        -- rewrite IH. unfold db_rows. cbn. rewrite E0, E1, E2. reflexivity.
Qed.

Theorem reload_of_mirror_is_identity k s :
  k_prio k = false ->
  db_rows PT_P (m_db s) = m_p s -> db_rows PT_G (m_db s) = m_g s -> db_rows PT_G2 (m_db s) = m_g2 s ->
  (k_g k = false -> m_g s = []) -> (k_g2 k = false -> m_g2 s = []) ->
  exists p g g2, deliver k (m_db s) None [] [] [] = Ok (p, g, g2) /\ p = m_p s /\ g = m_g s /\ g2 = m_g2 s.
Proof.
  intros Hp E0 E1 E2 Hg Hg2. rewrite deliver_is_rows. eexists _, _, _. split; [reflexivity|].
  cbn [app]. rewrite E0, E1, E2. split; [reflexivity|]. split.
  - destruct (k_g k); [reflexivity|symmetry; apply Hg; reflexivity].
  - destruct (k_g2 k); [reflexivity|symmetry; apply Hg2; reflexivity].
Qed.
