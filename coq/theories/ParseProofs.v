(* ParseProofs.v — C02: the small Python-side recursive-descent parser of MatcherText.v
   (p_or / p_and / p_not / p_cmp / p_atom / p_list, fuel 8 * S (length ts)) reads the translated token
   list of every grammatical expression back as the AST-level image [tr_expr] of that expression:
   the fuel always suffices (size argument: 3 * size + 4 <= 8 * S (length ts)) and the result is
   [tr_expr e] up to the association of  ||  and  &&  chains (the parser nests them to the right;
   Python's BoolOp is flat; [eval_expr] does not see the difference).  Composed with
   [pipeline_tokens_ast]: every admissible layout of a grammatical expression parses to the same AST
   and evaluates as [tr_expr e]. *)
From Coq Require Import List NArith Bool Arith Lia.
From PyCasbin Require Import Base Effect Expr MatcherText MatcherTextProofs.
Import ListNotations.

(* ====================================================================== definitions *)
(* the AST-level image of the token translation [tr]:  r<sfx>.f.a.. -> r<sfx>_f.a.. ,
   p<sfx>.f -> p<sfx>_f , eval(p<sfx>.f) -> the call eval(p<sfx>_f) ; identity elsewhere *)
Fixpoint tr_expr (e : expr) : expr :=
  match e with
  | EOr a b => EOr (tr_expr a) (tr_expr b)
  | EAnd a b => EAnd (tr_expr a) (tr_expr b)
  | ENot a => ENot (tr_expr a)
  | ECmp op a b => ECmp op (tr_expr a) (tr_expr b)
  | EIn a items brk => EIn (tr_expr a) (map tr_expr items) brk
  | ECall f args => ECall f (map tr_expr args)
  | EEval sfx f => ECall s_eval [EVar (esc_name 112 sfx f) []]
  | EPar a => EPar (tr_expr a)
  | EReq sfx f attrs => EVar (esc_name 114 sfx f) attrs
  | EPol sfx f => EVar (esc_name 112 sfx f) []
  | EVar x attrs => EVar x attrs
  | EStr dq s => EStr dq s
  | EInt ds => EInt ds
  end.

(* a || b || c  is parsed as  a || (b || c)  whatever tree produced the tokens *)
Fixpoint or_app (x y : expr) : expr :=
  match x with EOr a b => EOr a (or_app b y) | _ => EOr x y end.
Fixpoint and_app (x y : expr) : expr :=
  match x with EAnd a b => EAnd a (and_app b y) | _ => EAnd x y end.

Fixpoint rassoc (e : expr) : expr :=
  match e with
  | EOr a b => or_app (rassoc a) (rassoc b)
  | EAnd a b => and_app (rassoc a) (rassoc b)
  | ENot a => ENot (rassoc a)
  | ECmp op a b => ECmp op (rassoc a) (rassoc b)
  | EIn a items brk => EIn (rassoc a) (map rassoc items) brk
  | ECall f args => ECall f (map rassoc args)
  | EPar a => EPar (rassoc a)
  | e => e
  end.

Definition is_or (e : expr) : bool := match e with EOr _ _ => true | _ => false end.
Definition is_and (e : expr) : bool := match e with EAnd _ _ => true | _ => false end.

(* no  (a || b) || c  and no  (a && b) && c  node (written without the parentheses) *)
Fixpoint right_nested (e : expr) : bool :=
  match e with
  | EOr a b => negb (is_or a) && right_nested a && right_nested b
  | EAnd a b => negb (is_and a) && right_nested a && right_nested b
  | ENot a | EPar a => right_nested a
  | ECmp _ a b => right_nested a && right_nested b
  | EIn a items _ => right_nested a && forallb right_nested items
  | ECall _ args => forallb right_nested args
  | _ => true
  end.

(* what the parser function of level l reads back exactly (0 p_or, 1 p_and, 2 p_not, 3 p_cmp,
   4 p_atom).  More liberal than [gram]: list items and call arguments are any expression, a bare
   term is an expression, Python-side names are allowed. *)
Fixpoint ok (l : nat) (e : expr) : bool :=
  match e with
  | EOr a b => Nat.eqb l 0 && ok 1 a && ok 0 b
  | EAnd a b => Nat.leb l 1 && ok 2 a && ok 1 b
  | ENot a => Nat.leb l 2 && ok 2 a
  | ECmp _ a b => Nat.leb l 3 && ok 4 a && ok 4 b
  | EIn a items brk =>
      Nat.leb l 3 && ok 4 a && forallb (ok 0) items && (brk || negb (Nat.eqb (length items) 1))
  | ECall _ args => forallb (ok 0) args
  | EPar a => ok 0 a
  | _ => true
  end.

(* a lower bound of the number of Python-side tokens, used for the fuel *)
Fixpoint esize (e : expr) : nat :=
  match e with
  | EOr a b | EAnd a b | ECmp _ a b => esize a + 1 + esize b
  | ENot a => 1 + esize a
  | EIn a items _ => esize a + 2 + fold_right (fun x n => S (esize x) + n) 0 items
  | ECall _ args => 2 + fold_right (fun x n => S (esize x) + n) 0 args
  | EEval _ _ => 4
  | EPar a => 2 + esize a
  | _ => 1
  end.
Definition lsz (l : list expr) : nat := fold_right (fun x n => S (esize x) + n) 0 l.

Definition ptoks (e : expr) : list tok := flat_map tr (tokens_of e).

Definition plevel (l : nat) : nat -> list tok -> pres :=
  match l with 0 => p_or | 1 => p_and | 2 => p_not | 3 => p_cmp | _ => p_atom end.

(* the first token of the remainder lets the parser function of level l return *)
Definition stop (l : nat) (rest : list tok) : bool :=
  match rest with
  | TDot :: _ | TLP :: _ => false
  | TCmp _ :: _ | TIn :: _ | TKNot :: _ => Nat.leb 4 l
  | TKAnd :: _ => Nat.leb 2 l
  | TKOr :: _ => Nat.leb 1 l
  | _ => true
  end.

Definition isclose (close t : tok) : bool :=
  match close, t with TRP, TRP => true | TRB, TRB => true | _, _ => false end.
Definition chained (r : list tok) : bool :=
  match r with TCmp _ :: _ | TIn :: _ | TKNot :: TIn :: _ => true | _ => false end.

(* ====================================================================== induction on expr with lists *)
Section ExprInd.
  Variable P : expr -> Prop.
  Hypothesis HOr : forall a b, P a -> P b -> P (EOr a b).
  Hypothesis HAnd : forall a b, P a -> P b -> P (EAnd a b).
  Hypothesis HNot : forall a, P a -> P (ENot a).
  Hypothesis HCmp : forall op a b, P a -> P b -> P (ECmp op a b).
  Hypothesis HIn : forall a items brk, P a -> Forall P items -> P (EIn a items brk).
  Hypothesis HCall : forall f args, Forall P args -> P (ECall f args).
  Hypothesis HEval : forall sfx f, P (EEval sfx f).
  Hypothesis HPar : forall a, P a -> P (EPar a).
  Hypothesis HReq : forall sfx f attrs, P (EReq sfx f attrs).
  Hypothesis HPol : forall sfx f, P (EPol sfx f).
  Hypothesis HVar : forall x attrs, P (EVar x attrs).
  Hypothesis HStr : forall dq s, P (EStr dq s).
  Hypothesis HInt : forall ds, P (EInt ds).
  Fixpoint expr_ind_nested (e : expr) : P e :=
    let all := (fix go (l : list expr) : Forall P l :=
                  match l with
                  | [] => Forall_nil P
                  | x :: r => Forall_cons x (expr_ind_nested x) (go r)
                  end) in
    match e with
    | EOr a b => HOr a b (expr_ind_nested a) (expr_ind_nested b)
    | EAnd a b => HAnd a b (expr_ind_nested a) (expr_ind_nested b)
    | ENot a => HNot a (expr_ind_nested a)
    | ECmp op a b => HCmp op a b (expr_ind_nested a) (expr_ind_nested b)
    | EIn a items brk => HIn a items brk (expr_ind_nested a) (all items)
    | ECall f args => HCall f args (all args)
    | EEval sfx f => HEval sfx f
    | EPar a => HPar a (expr_ind_nested a)
    | EReq sfx f attrs => HReq sfx f attrs
    | EPol sfx f => HPol sfx f
    | EVar x attrs => HVar x attrs
    | EStr dq s => HStr dq s
    | EInt ds => HInt ds
    end.
End ExprInd.

(* ====================================================================== unfolding equations *)
Lemma p_or_S : forall k ts, p_or (S k) ts =
  rbind (p_and k ts) (fun ar =>
  match snd ar with
  | TKOr :: r => rbind (p_or k r) (fun br => Ok (EOr (fst ar) (fst br), snd br))
  | _ => Ok ar
  end).
Proof. reflexivity. Qed.

Lemma p_and_S : forall k ts, p_and (S k) ts =
  rbind (p_not k ts) (fun ar =>
  match snd ar with
  | TKAnd :: r => rbind (p_and k r) (fun br => Ok (EAnd (fst ar) (fst br), snd br))
  | _ => Ok ar
  end).
Proof. reflexivity. Qed.

Lemma p_not_S : forall k ts, p_not (S k) ts =
  match ts with
  | TKNot :: r => rbind (p_not k r) (fun ar => Ok (ENot (fst ar), snd ar))
  | _ => p_cmp k ts
  end.
Proof. reflexivity. Qed.

Lemma p_cmp_S : forall k ts, p_cmp (S k) ts =
  rbind (p_atom k ts) (fun ar =>
  match snd ar with
  | TCmp op :: r =>
      rbind (p_atom k r) (fun br =>
      if chained (snd br) then Err ELimit else Ok (ECmp op (fst ar) (fst br), snd br))
  | TIn :: TLB :: r =>
      rbind (p_list k r TRB) (fun ir =>
      if chained (snd ir) then Err ELimit else Ok (EIn (fst ar) (fst (fst ir)) true, snd ir))
  | TIn :: TLP :: r =>
      rbind (p_list k r TRP) (fun ir =>
      if chained (snd ir) then Err ELimit
      else match fst (fst ir), snd (fst ir) with
           | [_], false => Err ELimit
           | items, _ => Ok (EIn (fst ar) items false, snd ir)
           end)
  | [TIn] => Err ESyntax
  | TIn :: _ => Err ELimit
  | TKNot :: TIn :: _ => Err ELimit
  | _ => Ok ar
  end).
Proof. reflexivity. Qed.

Lemma p_atom_S : forall k ts, p_atom (S k) ts =
  match ts with
  | TLP :: r =>
      rbind (p_or k r) (fun er =>
      match snd er with
      | TRP :: r' => Ok (EPar (fst er), r')
      | TComma :: _ => Err ELimit
      | _ => Err ESyntax
      end)
  | TId f :: TLP :: r =>
      rbind (p_list k r TRP) (fun ir => Ok (ECall f (fst (fst ir)), snd ir))
  | TId x :: r =>
      match take_attrs r with
      | Some (attrs, r') => Ok (EVar x attrs, r')
      | None => Err ESyntax
      end
  | TStr dq s :: r => Ok (EStr dq s, r)
  | TInt ds :: r => Ok (EInt ds, r)
  | _ => Err ESyntax
  end.
Proof. reflexivity. Qed.

Lemma p_list_S : forall k ts close, p_list (S k) ts close =
  match ts with
  | [] => Err ESyntax
  | t :: r =>
      if isclose close t then Ok (([], false), r)
      else
        rbind (p_or k ts) (fun er =>
        match snd er with
        | TComma :: r' =>
            rbind (p_list k r' close) (fun ir =>
            Ok ((fst er :: fst (fst ir),
                 match fst (fst ir) with [] => true | _ => snd (fst ir) end), snd ir))
        | t' :: r' => if isclose close t' then Ok (([fst er], false), r') else Err ESyntax
        | [] => Err ESyntax
        end)
  end.
Proof. reflexivity. Qed.

Local Opaque p_or p_and p_not p_cmp p_atom p_list.

(* ====================================================================== token equations *)
Lemma ptoks_or : forall a b, ptoks (EOr a b) = ptoks a ++ TKOr :: ptoks b.
Proof. intros. unfold ptoks. cbn [tokens_of]. rewrite flat_map_app. reflexivity. Qed.
Lemma ptoks_and : forall a b, ptoks (EAnd a b) = ptoks a ++ TKAnd :: ptoks b.
Proof. intros. unfold ptoks. cbn [tokens_of]. rewrite flat_map_app. reflexivity. Qed.
Lemma ptoks_not : forall a, ptoks (ENot a) = TKNot :: ptoks a.
Proof. reflexivity. Qed.
Lemma ptoks_cmp : forall op a b, ptoks (ECmp op a b) = ptoks a ++ TCmp op :: ptoks b.
Proof. intros. unfold ptoks. cbn [tokens_of]. rewrite flat_map_app. reflexivity. Qed.
Lemma ptoks_par : forall a, ptoks (EPar a) = TLP :: ptoks a ++ [TRP].
Proof. intros. unfold ptoks. cbn [tokens_of flat_map tr app]. rewrite flat_map_app. reflexivity. Qed.

Lemma ptoks_sep : forall l,
  flat_map tr (sep_commas (map tokens_of l)) = sep_commas (map ptoks l).
Proof.
  induction l as [|x r IH]; [reflexivity|].
  destruct r as [|y r']; [reflexivity|].
  change (sep_commas (map tokens_of (x :: y :: r')))
    with (tokens_of x ++ TComma :: sep_commas (map tokens_of (y :: r'))).
  rewrite flat_map_app. cbn [flat_map tr app]. rewrite IH. reflexivity.
Qed.

Lemma ptoks_in : forall a items brk,
  ptoks (EIn a items brk)
  = ptoks a ++ TIn :: (if brk then TLB else TLP) :: sep_commas (map ptoks items)
            ++ [if brk then TRB else TRP].
Proof.
  intros. unfold ptoks at 1. cbn [tokens_of]. rewrite flat_map_app. cbn [flat_map tr app].
  rewrite flat_map_app, ptoks_sep. destruct brk; reflexivity.
Qed.

Lemma ptoks_call : forall f args,
  ptoks (ECall f args) = TId f :: TLP :: sep_commas (map ptoks args) ++ [TRP].
Proof.
  intros. unfold ptoks at 1. cbn [tokens_of flat_map tr app].
  rewrite flat_map_app, ptoks_sep. reflexivity.
Qed.

Lemma ptoks_var : forall x attrs,
  ptoks (EVar x attrs) = TId x :: flat_map (fun a => [TDot; TId a]) attrs.
Proof. intros. unfold ptoks. cbn [tokens_of flat_map tr]. rewrite app_nil_r. reflexivity. Qed.

Definition startok (t : tok) : bool :=
  match t with TKNot | TId _ | TLP | TStr _ _ | TInt _ => true | _ => false end.
Definition atomtok (t : tok) : bool :=
  match t with TId _ | TLP | TStr _ _ | TInt _ => true | _ => false end.

Lemma ptoks_head : forall e, exists t r, ptoks e = t :: r /\ startok t = true.
Proof.
  induction e.
  - destruct IHe1 as (t & r & E & H). rewrite ptoks_or, E. eexists _, _. split; [reflexivity|exact H].
  - destruct IHe1 as (t & r & E & H). rewrite ptoks_and, E. eexists _, _. split; [reflexivity|exact H].
  - rewrite ptoks_not. eexists _, _. split; reflexivity.
  - destruct IHe1 as (t & r & E & H). rewrite ptoks_cmp, E. eexists _, _. split; [reflexivity|exact H].
  - destruct IHe as (t & r & E & H). rewrite ptoks_in, E. eexists _, _. split; [reflexivity|exact H].
  - rewrite ptoks_call. eexists _, _. split; reflexivity.
  - eexists _, _. split; reflexivity.
  - rewrite ptoks_par. eexists _, _. split; reflexivity.
  - change (ptoks (EReq sfx f attrs)) with (ptoks (EVar (esc_name 114 sfx f) attrs)).
    rewrite ptoks_var. eexists _, _. split; reflexivity.
  - eexists _, _. split; reflexivity.
  - rewrite ptoks_var. eexists _, _. split; reflexivity.
  - eexists _, _. split; reflexivity.
  - eexists _, _. split; reflexivity.
Qed.

Lemma ptoks_head4 : forall e, ok 4 e = true -> exists t r, ptoks e = t :: r /\ atomtok t = true.
Proof.
  destruct e; cbn [ok Nat.eqb Nat.leb andb]; intros H; try discriminate.
  - rewrite ptoks_call. eexists _, _. split; reflexivity.
  - eexists _, _. split; reflexivity.
  - rewrite ptoks_par. eexists _, _. split; reflexivity.
  - change (ptoks (EReq sfx f attrs)) with (ptoks (EVar (esc_name 114 sfx f) attrs)).
    rewrite ptoks_var. eexists _, _. split; reflexivity.
  - eexists _, _. split; reflexivity.
  - rewrite ptoks_var. eexists _, _. split; reflexivity.
  - eexists _, _. split; reflexivity.
  - eexists _, _. split; reflexivity.
Qed.

Lemma ptoks_head3 : forall e, ok 3 e = true -> exists t r, ptoks e = t :: r /\ atomtok t = true.
Proof.
  intros e H.
  destruct e; try (apply ptoks_head4; exact H); cbn [ok Nat.eqb Nat.leb andb] in H; try discriminate.
  - apply andb_true_iff in H. destruct H as [H _].
    destruct (ptoks_head4 _ H) as (t & r & E & Ht). rewrite ptoks_cmp, E. eexists _, _. split; [reflexivity|exact Ht].
  - repeat (apply andb_true_iff in H; destruct H as [H ?]).
    destruct (ptoks_head4 _ H) as (t & r & E & Ht). rewrite ptoks_in, E. eexists _, _. split; [reflexivity|exact Ht].
Qed.

(* ====================================================================== stop / ok: monotone *)
Lemma stop_mono : forall l l' rest, l <= l' -> stop l rest = true -> stop l' rest = true.
Proof.
  intros l l' rest Hl H. destruct rest as [|t r]; [reflexivity|].
  destruct t; cbn [stop] in *; try exact H; try discriminate;
    apply Nat.leb_le in H; apply Nat.leb_le; lia.
Qed.

Lemma ok_mono : forall e l l', l' <= l -> ok l e = true -> ok l' e = true.
Proof.
  intros e l l' Hl H. destruct e; cbn [ok] in *; try exact H;
    repeat (apply andb_true_iff in H; destruct H as [H ?]);
    repeat (apply andb_true_iff; split); try assumption.
  - apply Nat.eqb_eq in H. apply Nat.eqb_eq. lia.
  - apply Nat.leb_le in H. apply Nat.leb_le. lia.
  - apply Nat.leb_le in H. apply Nat.leb_le. lia.
  - apply Nat.leb_le in H. apply Nat.leb_le. lia.
  - apply Nat.leb_le in H. apply Nat.leb_le. lia.
Qed.

Lemma stop3_not_chained : forall rest, stop 3 rest = true -> chained rest = false.
Proof. intros [|t r] H; [reflexivity|]. destruct t; cbn in *; try discriminate; reflexivity. Qed.

(* ====================================================================== lifting a result to the outer levels *)
Definition nonot (ts : list tok) : Prop := match ts with TKNot :: _ => False | _ => True end.

Lemma lift1 : forall l k ts x rest, l < 4 ->
  plevel (S l) k ts = Ok (x, rest) -> stop l rest = true -> (l = 2 -> nonot ts) ->
  plevel l (S k) ts = Ok (x, rest).
Proof.
  intros l k ts x rest Hl H Hs Hn.
  destruct l as [|[|[|[|l]]]]; [| | | |lia]; cbn [plevel] in *.
  - rewrite p_or_S, H. cbn. destruct rest as [|t r]; [reflexivity|].
    destruct t; cbn in Hs; try discriminate; reflexivity.
  - rewrite p_and_S, H. cbn. destruct rest as [|t r]; [reflexivity|].
    destruct t; cbn in Hs; try discriminate; reflexivity.
  - rewrite p_not_S. specialize (Hn eq_refl). destruct ts as [|t r]; [exact H|].
    destruct t; try exact H. contradiction.
  - rewrite p_cmp_S, H. cbn. destruct rest as [|t r]; [reflexivity|].
    destruct t; cbn in Hs; try discriminate; reflexivity.
Qed.

Lemma lift_down : forall d l k ts x rest, l + d <= 4 ->
  plevel (l + d) k ts = Ok (x, rest) -> stop l rest = true -> (l <= 2 < l + d -> nonot ts) ->
  plevel l (k + d) ts = Ok (x, rest).
Proof.
  induction d as [|d IH]; intros l k ts x rest Hl H Hs Hn.
  - rewrite Nat.add_0_r in *. exact H.
  - replace (l + S d) with (S l + d) in H by lia.
    replace (k + S d) with (S (k + d)) by lia.
    apply lift1; try lia; auto.
    + apply IH; try lia; auto.
      * eapply stop_mono; [|exact Hs]. lia.
      * intros. apply Hn. lia.
    + intros. apply Hn. lia.
Qed.

(* ====================================================================== the main statement *)
Definition Good (e : expr) : Prop := forall l k rest,
  l <= 4 -> ok l e = true -> stop l rest = true -> 3 * esize e + (4 - l) <= k ->
  plevel l k (ptoks e ++ rest) = Ok (tr_expr e, rest).

Lemma good_from : forall e n, n <= 4 ->
  (forall l, l <= 4 -> ok l e = true -> l <= n /\ ok n e = true) ->
  (forall k rest, ok n e = true -> stop n rest = true -> 3 * esize e + (4 - n) <= k ->
     plevel n k (ptoks e ++ rest) = Ok (tr_expr e, rest)) ->
  Good e.
Proof.
  intros e n Hn Hlv Hmain l k rest Hl Hok Hs Hk.
  destruct (Hlv l Hl Hok) as [Hln Hokn].
  replace k with ((k - (n - l)) + (n - l)) by lia.
  apply lift_down.
  - lia.
  - replace (l + (n - l)) with n by lia. apply Hmain; auto.
    + eapply stop_mono; [|exact Hs]. exact Hln.
    + lia.
  - exact Hs.
  - intros Hc. assert (H3 : ok 3 e = true) by (apply (ok_mono e n 3); [lia|exact Hokn]).
    destruct (ptoks_head3 e H3) as (t & r & E & Ht). rewrite E. destruct t; try discriminate; exact I.
Qed.

Ltac grew G l k r :=
  let E := fresh "E" in assert (E := G l k r); cbn [plevel] in E; rewrite E; clear E.

Lemma take_attrs_dots : forall attrs rest, stop 4 rest = true ->
  take_attrs (flat_map (fun a => [TDot; TId a]) attrs ++ rest) = Some (attrs, rest).
Proof.
  induction attrs as [|a r IH]; intros rest H.
  - cbn [flat_map app]. destruct rest as [|t rest']; [reflexivity|]. destruct t; try reflexivity; discriminate.
  - cbn [flat_map app take_attrs]. rewrite (IH rest H). reflexivity.
Qed.

Lemma p_atom_id : forall k x r, match r with TLP :: _ => False | _ => True end ->
  p_atom (S k) (TId x :: r)
  = match take_attrs r with Some (attrs, r') => Ok (EVar x attrs, r') | None => Err ESyntax end.
Proof.
  intros k x r H. rewrite p_atom_S. destruct r as [|t r']; [reflexivity|]. destruct t; try reflexivity; contradiction.
Qed.

Lemma good_var : forall x attrs, Good (EVar x attrs).
Proof.
  intros x attrs. apply (good_from _ 4); [lia| |].
  - intros l Hl H. split; [exact Hl|reflexivity].
  - intros k rest _ Hs Hk. cbn [plevel]. destruct k as [|k]; [cbn [esize] in Hk; lia|].
    rewrite ptoks_var. cbn [app]. rewrite p_atom_id.
    + rewrite (take_attrs_dots attrs rest Hs). reflexivity.
    + destruct attrs as [|a r]; cbn [flat_map app]; [|exact I].
      destruct rest as [|t r]; [exact I|]. destruct t; try exact I; discriminate.
Qed.

Lemma good_str : forall dq s, Good (EStr dq s).
Proof.
  intros. apply (good_from _ 4); [lia| |].
  - intros l Hl H. split; [exact Hl|reflexivity].
  - intros k rest _ Hs Hk. cbn [plevel]. destruct k as [|k]; [cbn [esize] in Hk; lia|].
    rewrite p_atom_S. reflexivity.
Qed.

Lemma good_int : forall ds, Good (EInt ds).
Proof.
  intros. apply (good_from _ 4); [lia| |].
  - intros l Hl H. split; [exact Hl|reflexivity].
  - intros k rest _ Hs Hk. cbn [plevel]. destruct k as [|k]; [cbn [esize] in Hk; lia|].
    rewrite p_atom_S. reflexivity.
Qed.

Lemma good_or : forall a b, Good a -> Good b -> Good (EOr a b).
Proof.
  intros a b Ga Gb. apply (good_from _ 0); [lia| |].
  - intros l Hl H. cbn [ok] in H. destruct l; [split; [lia|exact H]|discriminate].
  - intros k rest Hok Hs Hk. cbn [plevel]. cbn [ok Nat.eqb andb] in Hok.
    apply andb_true_iff in Hok. destruct Hok as [Hoa Hob]. cbn [esize] in Hk.
    destruct k as [|k]; [lia|].
    rewrite p_or_S, ptoks_or, <- app_assoc, <- app_comm_cons.
    grew Ga 1 k (TKOr :: ptoks b ++ rest); [|lia|exact Hoa|reflexivity|lia].
    cbn. grew Gb 0 k rest; [|lia|exact Hob|exact Hs|lia].
    reflexivity.
Qed.

Lemma good_and : forall a b, Good a -> Good b -> Good (EAnd a b).
Proof.
  intros a b Ga Gb. apply (good_from _ 1); [lia| |].
  - intros l Hl H. cbn [ok] in H. apply andb_true_iff in H. destruct H as [H Hb].
    apply andb_true_iff in H. destruct H as [H Ha]. apply Nat.leb_le in H.
    split; [exact H|]. cbn [ok Nat.leb]. rewrite Ha, Hb. reflexivity.
  - intros k rest Hok Hs Hk. cbn [plevel]. cbn [ok Nat.leb andb] in Hok.
    apply andb_true_iff in Hok. destruct Hok as [Hoa Hob]. cbn [esize] in Hk.
    destruct k as [|k]; [lia|].
    rewrite p_and_S, ptoks_and, <- app_assoc, <- app_comm_cons.
    grew Ga 2 k (TKAnd :: ptoks b ++ rest); [|lia|exact Hoa|reflexivity|lia].
    cbn. grew Gb 1 k rest; [|lia|exact Hob|exact Hs|lia].
    reflexivity.
Qed.

Lemma good_not : forall a, Good a -> Good (ENot a).
Proof.
  intros a Ga. apply (good_from _ 2); [lia| |].
  - intros l Hl H. cbn [ok] in H. apply andb_true_iff in H. destruct H as [H Ha].
    apply Nat.leb_le in H. split; [exact H|]. cbn [ok Nat.leb]. exact Ha.
  - intros k rest Hok Hs Hk. cbn [plevel]. cbn [ok Nat.leb andb] in Hok. cbn [esize] in Hk.
    destruct k as [|k]; [lia|].
    rewrite p_not_S, ptoks_not, <- app_comm_cons.
    grew Ga 2 k rest; [|lia|exact Hok|exact Hs|lia].
    reflexivity.
Qed.

Lemma good_cmp : forall op a b, Good a -> Good b -> Good (ECmp op a b).
Proof.
  intros op a b Ga Gb. apply (good_from _ 3); [lia| |].
  - intros l Hl H. cbn [ok] in H. apply andb_true_iff in H. destruct H as [H Hb].
    apply andb_true_iff in H. destruct H as [H Ha]. apply Nat.leb_le in H.
    split; [exact H|]. cbn [ok Nat.leb]. rewrite Ha, Hb. reflexivity.
  - intros k rest Hok Hs Hk. cbn [plevel]. cbn [ok Nat.leb andb] in Hok.
    apply andb_true_iff in Hok. destruct Hok as [Hoa Hob]. cbn [esize] in Hk.
    destruct k as [|k]; [lia|].
    rewrite p_cmp_S, ptoks_cmp, <- app_assoc, <- app_comm_cons.
    grew Ga 4 k (TCmp op :: ptoks b ++ rest); [|lia|exact Hoa|reflexivity|lia].
    cbn. grew Gb 4 k rest; [|lia|exact Hob|eapply stop_mono; [|exact Hs]; lia|lia].
    cbn. rewrite (stop3_not_chained rest Hs). reflexivity.
Qed.

Lemma good_par : forall a, Good a -> Good (EPar a).
Proof.
  intros a Ga. apply (good_from _ 4); [lia| |].
  - intros l Hl H. split; [exact Hl|exact H].
  - intros k rest Hok Hs Hk. cbn [plevel]. cbn [ok] in Hok. cbn [esize] in Hk.
    destruct k as [|k]; [lia|].
    rewrite ptoks_par, <- app_comm_cons, <- app_assoc, p_atom_S.
    cbn [app]. grew Ga 0 k (TRP :: rest); [|lia|exact Hok|reflexivity|lia].
    reflexivity.
Qed.

Lemma lsz_cons : forall x r, lsz (x :: r) = S (esize x) + lsz r.
Proof. reflexivity. Qed.

Lemma isclose_start : forall close t, startok t = true -> isclose close t = false.
Proof. intros close t H. destruct t; try discriminate; destruct close; reflexivity. Qed.

Lemma list_good : forall close, close = TRP \/ close = TRB ->
  forall items, Forall Good items -> forallb (ok 0) items = true ->
  forall k rest, 3 * lsz items + 2 <= k ->
  p_list k (sep_commas (map ptoks items) ++ close :: rest) close = Ok ((map tr_expr items, false), rest).
Proof.
  intros close Hc items HF. induction HF as [|x r Gx HF IH]; intros Hok k rest Hk.
  - destruct k as [|k]; [lia|]. rewrite p_list_S. cbn [map sep_commas app].
    destruct Hc; subst close; reflexivity.
  - cbn [forallb] in Hok. apply andb_true_iff in Hok. destruct Hok as [Hx Hr].
    rewrite lsz_cons in Hk. destruct k as [|k]; [lia|].
    destruct (ptoks_head x) as (t & tl' & E & Ht).
    assert (Hclose : isclose close close = true) by (destruct Hc; subst close; reflexivity).
    assert (Hcomma : isclose close TComma = false) by (destruct Hc; subst close; reflexivity).
    destruct r as [|y r'].
    + cbn [map sep_commas]. rewrite p_list_S.
      rewrite E, <- app_comm_cons, (isclose_start close t Ht), app_comm_cons, <- E.
      grew Gx 0 k (close :: rest); [|lia|exact Hx| |lia].
      * cbn. destruct Hc; subst close; reflexivity.
      * destruct Hc; subst close; reflexivity.
    + change (sep_commas (map ptoks (x :: y :: r')))
        with (ptoks x ++ TComma :: sep_commas (map ptoks (y :: r'))).
      rewrite <- app_assoc, <- app_comm_cons. rewrite p_list_S.
      rewrite E, <- app_comm_cons, (isclose_start close t Ht), app_comm_cons, <- E.
      grew Gx 0 k (TComma :: sep_commas (map ptoks (y :: r')) ++ close :: rest);
        [|lia|exact Hx|reflexivity|lia].
      cbn [rbind snd fst]. rewrite (IH Hr k rest); [|lia].
      reflexivity.
Qed.

Lemma good_call : forall f args, Forall Good args -> Good (ECall f args).
Proof.
  intros f args HF. apply (good_from _ 4); [lia| |].
  - intros l Hl H. split; [exact Hl|exact H].
  - intros k rest Hok Hs Hk. cbn [plevel]. cbn [ok] in Hok. cbn [esize] in Hk. fold (lsz args) in Hk.
    destruct k as [|k]; [lia|].
    rewrite ptoks_call, <- !app_comm_cons, <- app_assoc, p_atom_S. cbn [app].
    rewrite (list_good TRP (or_introl eq_refl) args HF Hok k rest); [|lia].
    reflexivity.
Qed.

Lemma good_eval : forall sfx f, Good (EEval sfx f).
Proof.
  intros sfx f l k rest Hl Hok Hs Hk.
  exact (good_call s_eval [EVar (esc_name 112 sfx f) []]
           (Forall_cons _ (good_var _ _) (Forall_nil _)) l k rest Hl eq_refl Hs Hk).
Qed.

Lemma good_req : forall sfx f attrs, Good (EReq sfx f attrs).
Proof.
  intros sfx f attrs l k rest Hl Hok Hs Hk.
  exact (good_var (esc_name 114 sfx f) attrs l k rest Hl eq_refl Hs Hk).
Qed.

Lemma good_pol : forall sfx f, Good (EPol sfx f).
Proof.
  intros sfx f l k rest Hl Hok Hs Hk.
  exact (good_var (esc_name 112 sfx f) [] l k rest Hl eq_refl Hs Hk).
Qed.

Lemma good_in : forall a items brk, Good a -> Forall Good items -> Good (EIn a items brk).
Proof.
  intros a items brk Ga HF. apply (good_from _ 3); [lia| |].
  - intros l Hl H. cbn [ok] in H.
    apply andb_true_iff in H. destruct H as [H Hc].
    apply andb_true_iff in H. destruct H as [H Hi].
    apply andb_true_iff in H. destruct H as [H Ha]. apply Nat.leb_le in H.
    split; [exact H|]. cbn [ok Nat.leb]. rewrite Ha, Hi, Hc. reflexivity.
  - intros k rest Hok Hs Hk. cbn [plevel]. cbn [ok Nat.leb andb] in Hok.
    apply andb_true_iff in Hok. destruct Hok as [Hok Hc].
    apply andb_true_iff in Hok. destruct Hok as [Hoa Hoi].
    cbn [esize] in Hk. fold (lsz items) in Hk.
    destruct k as [|k]; [lia|].
    rewrite p_cmp_S, ptoks_in, <- app_assoc, <- !app_comm_cons, <- app_assoc. cbn [app].
    grew Ga 4 k (TIn :: (if brk then TLB else TLP) :: sep_commas (map ptoks items) ++ (if brk then TRB else TRP) :: rest); [|lia|exact Hoa|reflexivity|lia].
    destruct brk; cbn [rbind snd fst].
    + rewrite (list_good TRB (or_intror eq_refl) items HF Hoi k rest); [|lia].
      cbn. rewrite (stop3_not_chained rest Hs). reflexivity.
    + rewrite (list_good TRP (or_introl eq_refl) items HF Hoi k rest); [|lia].
      cbn. rewrite (stop3_not_chained rest Hs).
      destruct items as [|x [|y r]]; try reflexivity. discriminate.
Qed.

Theorem good_all : forall e, Good e.
Proof.
  apply expr_ind_nested.
  - exact good_or.
  - exact good_and.
  - exact good_not.
  - exact good_cmp.
  - exact good_in.
  - exact good_call.
  - exact good_eval.
  - exact good_par.
  - exact good_req.
  - exact good_pol.
  - exact good_var.
  - exact good_str.
  - exact good_int.
Qed.

(* ====================================================================== the fuel suffices *)
Lemma lsz_le : forall c l, Forall (fun e => esize e <= length (ptoks e)) l ->
  lsz l <= length (sep_commas (map ptoks l) ++ [c]).
Proof.
  intros c l HF. induction HF as [|x r Hx HF IH]; [cbn; lia|].
  rewrite lsz_cons. destruct r as [|y r'].
  - cbn [map sep_commas]. rewrite app_length. cbn. lia.
  - change (sep_commas (map ptoks (x :: y :: r')))
      with (ptoks x ++ TComma :: sep_commas (map ptoks (y :: r'))).
    rewrite <- app_assoc, app_length, <- app_comm_cons. cbn [length]. lia.
Qed.

Lemma esize_le : forall e, esize e <= length (ptoks e).
Proof.
  apply expr_ind_nested; intros.
  - rewrite ptoks_or, app_length. cbn [esize length]. lia.
  - rewrite ptoks_and, app_length. cbn [esize length]. lia.
  - rewrite ptoks_not. cbn [esize length]. lia.
  - rewrite ptoks_cmp, app_length. cbn [esize length]. lia.
  - rewrite ptoks_in, app_length. cbn [esize length]. fold (lsz items).
    pose proof (lsz_le (if brk then TRB else TRP) items H0). lia.
  - rewrite ptoks_call. cbn [esize length]. fold (lsz args).
    pose proof (lsz_le TRP args H). lia.
  - cbn. lia.
  - rewrite ptoks_par. cbn [esize length]. rewrite app_length. cbn [length]. lia.
  - cbn. lia.
  - cbn. lia.
  - cbn. lia.
  - cbn. lia.
  - cbn. lia.
Qed.

(* the parser reads the translated tokens of every expression of its language back *)
Theorem parse_ok : forall e, ok 0 e = true -> parse_tokens (ptoks e) = Ok (tr_expr e).
Proof.
  intros e H. unfold parse_tokens.
  pose proof (good_all e 0 (8 * S (length (ptoks e))) []) as G. cbn [plevel] in G.
  rewrite app_nil_r in G. rewrite G; [reflexivity|lia|exact H|reflexivity|].
  pose proof (esize_le e). lia.
Qed.

(* ====================================================================== re-association *)
Lemma tokens_or_app : forall x y, tokens_of (or_app x y) = tokens_of x ++ TOr :: tokens_of y.
Proof.
  induction x; intros y; try reflexivity.
  cbn [or_app tokens_of]. rewrite IHx2, <- app_assoc. reflexivity.
Qed.
Lemma tokens_and_app : forall x y, tokens_of (and_app x y) = tokens_of x ++ TAnd :: tokens_of y.
Proof.
  induction x; intros y; try reflexivity.
  cbn [and_app tokens_of]. rewrite IHx2, <- app_assoc. reflexivity.
Qed.

Lemma map_ext_Forall : forall {A B} (f g : A -> B) l, Forall (fun x => f x = g x) l -> map f l = map g l.
Proof. intros A B f g l H. induction H; cbn; [reflexivity|]. rewrite H, IHForall. reflexivity. Qed.

Theorem tokens_rassoc : forall e, tokens_of (rassoc e) = tokens_of e.
Proof.
  apply expr_ind_nested; intros; cbn [rassoc]; try reflexivity.
  - rewrite tokens_or_app, H, H0. reflexivity.
  - rewrite tokens_and_app, H, H0. reflexivity.
  - cbn [tokens_of]. rewrite H. reflexivity.
  - cbn [tokens_of]. rewrite H, H0. reflexivity.
  - cbn [tokens_of]. rewrite H, map_map, (map_ext_Forall _ _ _ H0). reflexivity.
  - cbn [tokens_of]. rewrite map_map, (map_ext_Forall _ _ _ H). reflexivity.
  - cbn [tokens_of]. rewrite H. reflexivity.
Qed.

Lemma ok_or_app : forall x y, ok 0 x = true -> ok 0 y = true -> ok 0 (or_app x y) = true.
Proof.
  induction x; intros y Hx Hy; cbn [or_app ok Nat.eqb Nat.leb andb] in *;
    try (rewrite Hx, Hy; reflexivity); try (rewrite Hy; reflexivity).
  apply andb_true_iff in Hx. destruct Hx as [H1 H2]. rewrite H1, (IHx2 y H2 Hy). reflexivity.
Qed.
Lemma ok_and_app : forall x y, ok 1 x = true -> ok 1 y = true -> ok 1 (and_app x y) = true.
Proof.
  induction x; intros y Hx Hy; cbn [and_app ok Nat.eqb Nat.leb andb] in *;
    try discriminate; try (rewrite Hx, Hy; reflexivity); try (rewrite Hy; reflexivity).
  apply andb_true_iff in Hx. destruct Hx as [H1 H2]. rewrite H1, (IHx2 y H2 Hy). reflexivity.
Qed.

Lemma forallb_map_Forall : forall {A B} (p : A -> bool) (q : B -> bool) (f : A -> B) l,
  Forall (fun x => p x = true -> q (f x) = true) l -> forallb p l = true -> forallb q (map f l) = true.
Proof.
  intros A B p q f l H. induction H; cbn; [reflexivity|]. intros Hp.
  apply andb_true_iff in Hp. destruct Hp as [Hx Hl]. rewrite (H Hx), (IHForall Hl). reflexivity.
Qed.

Lemma items_ok : forall items,
  Forall (fun e => forall l, gram l e = true -> ok (Nat.min l 4) (rassoc e) = true) items ->
  forallb (gram 5) items = true -> forallb (ok 0) (map rassoc items) = true.
Proof.
  intros items HF. apply forallb_map_Forall. eapply Forall_impl; [|exact HF].
  intros x Hx Hg. apply (ok_mono _ 4 0); [lia|]. exact (Hx 5 Hg).
Qed.

(* every grammatical expression, re-associated, is in the parser's language *)
Theorem gram_ok : forall e l, gram l e = true -> ok (Nat.min l 4) (rassoc e) = true.
Proof.
  apply (expr_ind_nested (fun e => forall l, gram l e = true -> ok (Nat.min l 4) (rassoc e) = true));
    intros; cbn [gram rassoc] in *; try reflexivity.
  - repeat (apply andb_true_iff in H1; destruct H1 as [H1 ?]).
    apply Nat.leb_le in H1. assert (l = 0) by lia. subst l.
    apply ok_or_app; [exact (H 0 H3)|exact (H0 0 H2)].
  - repeat (apply andb_true_iff in H1; destruct H1 as [H1 ?]).
    apply Nat.leb_le in H1. apply (ok_mono _ 1); [lia|].
    apply ok_and_app; [exact (H 1 H3)|exact (H0 1 H2)].
  - repeat (apply andb_true_iff in H0; destruct H0 as [H0 ?]).
    apply Nat.leb_le in H0. cbn [ok]. apply andb_true_iff. split; [apply Nat.leb_le; lia|].
    apply (ok_mono _ 4 2); [lia|]. exact (H 4 H1).
  - repeat (apply andb_true_iff in H1; destruct H1 as [H1 ?]).
    apply Nat.leb_le in H1. cbn [ok].
    rewrite (H 5 H3 : ok 4 _ = true), (H0 5 H2 : ok 4 _ = true), !andb_true_r. apply Nat.leb_le. lia.
  - repeat (apply andb_true_iff in H1; destruct H1 as [H1 ?]).
    apply Nat.leb_le in H1. cbn [ok].
    rewrite (H 5 H4 : ok 4 _ = true), (items_ok items H0 H3), map_length.
    replace (brk || negb (length items =? 1)) with true.
    + rewrite !andb_true_r. apply Nat.leb_le. lia.
    + destruct brk; [reflexivity|]. destruct items as [|x [|y r]]; cbn in *; try discriminate; reflexivity.
  - apply andb_true_iff in H0. destruct H0 as [_ H0]. cbn [ok]. exact (items_ok args H H0).
  - apply andb_true_iff in H0. destruct H0 as [_ H0]. cbn [ok]. exact (H 0 H0).
Qed.

Lemma rassoc_id : forall e, right_nested e = true -> rassoc e = e.
Proof.
  apply (expr_ind_nested (fun e => right_nested e = true -> rassoc e = e));
    intros; cbn [right_nested rassoc] in *; try reflexivity.
  - repeat (apply andb_true_iff in H1; destruct H1 as [H1 ?]).
    rewrite (H H3), (H0 H2). destruct a; try reflexivity; discriminate.
  - repeat (apply andb_true_iff in H1; destruct H1 as [H1 ?]).
    rewrite (H H3), (H0 H2). destruct a; try reflexivity; discriminate.
  - rewrite (H H0). reflexivity.
  - apply andb_true_iff in H1. destruct H1 as [H1 H2]. rewrite (H H1), (H0 H2). reflexivity.
  - apply andb_true_iff in H1. destruct H1 as [H1 H2]. rewrite (H H1). f_equal.
    rewrite <- (map_id items) at 2. apply map_ext_Forall.
    apply Forall_forall. intros x Hx. rewrite Forall_forall in H0. apply (H0 x Hx).
    rewrite forallb_forall in H2. exact (H2 x Hx).
  - f_equal. rewrite <- (map_id args) at 2. apply map_ext_Forall.
    apply Forall_forall. intros x Hx. rewrite Forall_forall in H. apply (H x Hx).
    rewrite forallb_forall in H0. exact (H0 x Hx).
  - rewrite (H H0). reflexivity.
Qed.

(* ====================================================================== evaluation does not see the association *)
Lemma tr_or_app : forall x y, tr_expr (or_app x y) = or_app (tr_expr x) (tr_expr y).
Proof. induction x; intros y; try reflexivity. cbn [or_app tr_expr]. rewrite IHx2. reflexivity. Qed.
Lemma tr_and_app : forall x y, tr_expr (and_app x y) = and_app (tr_expr x) (tr_expr y).
Proof. induction x; intros y; try reflexivity. cbn [and_app tr_expr]. rewrite IHx2. reflexivity. Qed.

Section EvalAssoc.
  Variable lreq lpol : str -> str -> result value.
  Variable lname : str -> result value.
  Variable levl : str -> str -> result value.
  Variable fns : str -> option (list value -> result value).
  Let ev := eval_expr lreq lpol lname levl fns.

  Lemma eval_or_app : forall x y, ev (or_app x y) = ev (EOr x y).
  Proof.
    induction x; intros y; try reflexivity.
    cbn [or_app]. unfold ev in *. cbn [eval_expr]. rewrite IHx2. cbn [eval_expr].
    destruct (eval_expr lreq lpol lname levl fns x1) as [va|c]; [|reflexivity].
    cbn [rbind]. destruct (truthy va) eqn:T; [|reflexivity]. cbn [rbind]. rewrite T. reflexivity.
  Qed.

  Lemma eval_and_app : forall x y, ev (and_app x y) = ev (EAnd x y).
  Proof.
    induction x; intros y; try reflexivity.
    cbn [and_app]. unfold ev in *. cbn [eval_expr]. rewrite IHx2. cbn [eval_expr].
    destruct (eval_expr lreq lpol lname levl fns x1) as [va|c]; [|reflexivity].
    cbn [rbind]. destruct (truthy va) eqn:T; [reflexivity|]. cbn [rbind]. rewrite T. reflexivity.
  Qed.

  Theorem eval_rassoc : forall e, ev (tr_expr (rassoc e)) = ev (tr_expr e).
  Proof.
    apply (expr_ind_nested (fun e => ev (tr_expr (rassoc e)) = ev (tr_expr e)));
      intros; cbn [rassoc]; try reflexivity.
    - rewrite tr_or_app, eval_or_app. unfold ev in *. cbn [tr_expr eval_expr]. rewrite H, H0. reflexivity.
    - rewrite tr_and_app, eval_and_app. unfold ev in *. cbn [tr_expr eval_expr]. rewrite H, H0. reflexivity.
    - unfold ev in *. cbn [tr_expr eval_expr]. rewrite H. reflexivity.
    - unfold ev in *. cbn [tr_expr eval_expr]. rewrite H, H0. reflexivity.
    - unfold ev in *. cbn [tr_expr eval_expr]. rewrite H.
      match goal with |- context [?F (map tr_expr (map rassoc items))] =>
        assert (E : F (map tr_expr (map rassoc items)) = F (map tr_expr items))
      end.
      { induction H0; [reflexivity|]. cbn [map]. rewrite H0, IHForall. reflexivity. }
      rewrite E. reflexivity.
    - unfold ev in *. cbn [tr_expr eval_expr].
      match goal with |- context [?F (map tr_expr (map rassoc args))] =>
        assert (E : F (map tr_expr (map rassoc args)) = F (map tr_expr args))
      end.
      { induction H; [reflexivity|]. cbn [map]. rewrite H, IHForall. reflexivity. }
      rewrite E. reflexivity.
    - unfold ev in *. cbn [tr_expr eval_expr]. exact H.
  Qed.
End EvalAssoc.

(* ====================================================================== the round trip *)
(* every grammatical expression: the parser returns the translated AST, || and && chains nested
   to the right; in particular the fuel 8 * S (length ts) suffices (no Err EFuel) *)
Theorem parse_roundtrip : forall e, grammatical e = true ->
  parse_tokens (flat_map tr (tokens_of e)) = Ok (tr_expr (rassoc e)).
Proof.
  intros e H. rewrite <- (tokens_rassoc e). apply (parse_ok (rassoc e)). exact (gram_ok e 0 H).
Qed.

Theorem parse_fuel_suffices : forall e, grammatical e = true ->
  p_or (8 * S (length (flat_map tr (tokens_of e)))) (flat_map tr (tokens_of e))
  = Ok (tr_expr (rassoc e), []).
Proof.
  intros e H. rewrite <- (tokens_rassoc e).
  pose proof (good_all (rassoc e) 0 (8 * S (length (ptoks (rassoc e)))) []) as G. cbn [plevel] in G.
  rewrite app_nil_r in G. apply G; [lia|exact (gram_ok e 0 H)|reflexivity|].
  pose proof (esize_le (rassoc e)). lia.
Qed.

(* ... exactly tr_expr e when no || (&&) node has a || (&&) node as its LEFT operand *)
Theorem parse_roundtrip_partial : forall e, grammatical e = true -> right_nested e = true ->
  parse_tokens (flat_map tr (tokens_of e)) = Ok (tr_expr e).
Proof. intros e H Hr. rewrite (parse_roundtrip e H), (rassoc_id e Hr). reflexivity. Qed.

(* ... and that guard is needed:  (f() || f()) || f()  has the tokens of  f() || (f() || f()) *)
Definition refute_call : expr := ECall [102%N] [].
Definition refute_e : expr := EOr (EOr refute_call refute_call) refute_call.
Theorem parse_roundtrip_refuted : exists e,
  grammatical e = true /\ names_ok [] [] e = true
  /\ parse_tokens (flat_map tr (tokens_of e)) <> Ok (tr_expr e).
Proof. exists refute_e. split; [reflexivity|]. split; [reflexivity|]. vm_compute. discriminate. Qed.

(* ====================================================================== composed with the text pipeline *)
(* the model's decision path  text -> pipeline -> py_lex -> parse_tokens : every admissible layout of
   a grammatical expression with well-formed names parses, and to the same AST *)
Theorem pipeline_parse : forall rs ps e ws,
  forallb is_digit rs = true -> forallb is_digit ps = true ->
  names_ok rs ps e = true -> has_eval_expr e = false -> grammatical e = true ->
  admissible (tokens_of e) ws = true ->
  parse_text (pipeline (render (tokens_of e) ws)) = Ok (tr_expr (rassoc e)).
Proof.
  intros rs ps e ws Hrs Hps Hn He Hg Ha. unfold parse_text.
  rewrite (pipeline_tokens_ast rs ps e ws Hrs Hps Hn He Ha). exact (parse_roundtrip e Hg).
Qed.

Theorem layout_independent_parse : forall rs ps e ws1 ws2,
  forallb is_digit rs = true -> forallb is_digit ps = true ->
  names_ok rs ps e = true -> has_eval_expr e = false -> grammatical e = true ->
  admissible (tokens_of e) ws1 = true -> admissible (tokens_of e) ws2 = true ->
  parse_text (pipeline (render (tokens_of e) ws1)) = parse_text (pipeline (render (tokens_of e) ws2)).
Proof.
  intros rs ps e ws1 ws2 Hrs Hps Hn He Hg H1 H2.
  rewrite (pipeline_parse rs ps e ws1), (pipeline_parse rs ps e ws2); auto.
Qed.

(* ... and evaluates (expression.eval(parameters), any function table, any parameters) exactly
   as the translated AST *)
Theorem layout_independent_evaluation : forall rs ps e ws fns params,
  forallb is_digit rs = true -> forallb is_digit ps = true ->
  names_ok rs ps e = true -> has_eval_expr e = false -> grammatical e = true ->
  admissible (tokens_of e) ws = true ->
  rbind (parse_text (pipeline (render (tokens_of e) ws))) (eval_py fns params)
  = eval_py fns params (tr_expr e).
Proof.
  intros rs ps e ws fns params Hrs Hps Hn He Hg Ha.
  rewrite (pipeline_parse rs ps e ws Hrs Hps Hn He Hg Ha). cbn [rbind]. unfold eval_py.
  apply eval_rassoc.
Qed.
