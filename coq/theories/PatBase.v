(* PatBase.v — character constants and tiny string helpers shared by the C13 models
   (KeyMatch.v, Glob.v, IpMatch.v).  Strings are [str = list N] of code points. *)
From Coq Require Import List NArith Bool.
From PyCasbin Require Import Base.
Import ListNotations.
Local Open Scope N_scope.

Definition cNL    : N := 10.   (* \n *)
Definition cBANG  : N := 33.   (* ! *)
Definition cDOLLAR: N := 36.   (* $ *)
Definition cLPAR  : N := 40.   (* ( *)
Definition cRPAR  : N := 41.   (* ) *)
Definition cSTAR  : N := 42.   (* * *)
Definition cPLUS  : N := 43.   (* + *)
Definition cCOMMA : N := 44.   (* , *)
Definition cDASH  : N := 45.   (* - *)
Definition cDOT   : N := 46.   (* . *)
Definition cSLASH : N := 47.   (* / *)
Definition cCOLON : N := 58.   (* : *)
Definition cQM    : N := 63.   (* ? *)
Definition cLBR   : N := 91.   (* [ *)
Definition cBSL   : N := 92.   (* \ *)
Definition cRBR   : N := 93.   (* ] *)
Definition cCARET : N := 94.   (* ^ *)
Definition cLBRACE: N := 123.  (* { *)
Definition cPIPE  : N := 124.  (* | *)
Definition cRBRACE: N := 125.  (* } *)

Definition is_digit (c : N) : bool := (48 <=? c) && (c <=? 57).

Definition is_nil {A} (l : list A) : bool := match l with [] => true | _ => false end.

Definition no_slash (s : str) : Prop := forall x, In x s -> x <> cSLASH.
Definition no_nl (s : str) : Prop := forall x, In x s -> x <> cNL.

(* model-level "this input leaves the modelled fragment" (regex metacharacters forwarded to `re`,
   IPv6, dotted netmasks): the harness does not compare such cases, the theorems exclude them by
   proving that documented-form inputs never produce it *)
Definition ENotModelled : N := 113.
(* key_match4: Exception("KeyMatch4: number of tokens is not equal to number of values") *)
Definition EKm4Count : N := 114.
(* re.error raised while compiling the rewritten pattern is not modelled separately: ENotModelled *)
