(* PatternInst.v — oracle entry point for C13: the models (tag 1, 3, 4, 6, 7) and the specs (tag 2, 3, 6)
   of KeyMatch.v / Glob.v / IpMatch.v behind the generic wire protocol.  No proofs. *)
From Coq Require Import List NArith Bool.
From PyCasbin Require Import Base PatBase KeyMatch KeyBind Glob IpMatch.
Import ListNotations.
Local Open Scope N_scope.

(* boolean-valued results as one number: 0 false, 1 true, 1000+code exception *)
Definition vrb (r : result bool) : val :=
  match r with Ok b => vbool b | Err c => VN (1000 + c) end.
Definition vrs (r : result str) : val :=
  match r with Ok s => VL [VN 0; vstr s] | Err c => verr c end.

Definition model_row (p : str) (vars : list str) (k : str) : val :=
  VL [ vbool (key_match k p); vstr (key_get k p);
       vrb (key_match2 k p); vrb (key_match3 k p); vrb (key_match4 k p); vrb (key_match5 k p);
       vrb (glob_match k p); vrb (glob_match_unrepaired k p);
       vlist (fun v => vrs (key_get2 k p v)) vars;
       vlist (fun v => vrs (key_get3 k p v)) vars ].

Definition spec_row (p : str) (vars : list str) (k : str) : val :=
  VL [ vbool (key_ok k);
       vbool (km_spec p k); vstr (kg_spec p k);
       vbool (seg_match (parse2 p) k); vbool (seg_match (parse3 p) k);
       vbool (km4_bind_spec (tokens5 p) k); vbool (seg_match (parse5 p) (before_qm k));
       vbool (gspec p k);
       vlist (fun v => vlist vstr (get_candidates (tokens2 p) k v)) vars;
       vlist (fun v => vlist vstr (get_candidates (tokens3 p) k v)) vars;
       vlist (fun v => vstr (get2_spec (tokens2 p) k v)) vars;
       vbool (km4_spec p k) ].

Definition doc_flags (p : str) : val :=
  VL [vbool (doc2 p); vbool (doc3 p); vbool (doc4s p); vbool (doc5 p);
      vbool (str_eqb p [cSTAR]); vbool (get2_docs p)].

(* ip_match: what the two arguments were parsed to (family, integer[, prefix length]); 128-bit integers
   travel as their eight 16-bit groups *)
Definition vaddr (f : fam) (x : N) : val :=
  match f with V4 => VL [VN 4; VN x] | V6 => VL (VN 6 :: map VN (groups_of x)) end.

Definition oracle_C13 (tag : N) (v : val) : val :=
  match tag, v with
  (* model: pattern, keys, path variables -> one row per key *)
  | 1, VL [p; ks; vs] =>
      match as_str p, as_listof as_str ks, as_listof as_str vs with
      | Some p, Some ks, Some vs => vlist (model_row p vs) ks
      | _, _, _ => vbad
      end
  (* spec: documented-form flags of the pattern, then one row per key *)
  | 2, VL [p; ks; vs] =>
      match as_str p, as_listof as_str ks, as_listof as_str vs with
      | Some p, Some ks, Some vs =>
          VL [ doc_flags p; vlist (spec_row p vs) ks ]
      | _, _, _ => vbad
      end
  (* ip_match: model, documented-form flag, spec *)
  | 3, VL [a; b] =>
      match as_str a, as_str b with
      | Some a, Some b => VL [vrb (ip_match a b); vbool (ip_doc a b); vbool (ip_spec a b)]
      | _, _ => vbad
      end
  (* range_match(pattern, 0, test) on the text after '[' : -1 -> (), else the remaining pattern *)
  | 4, VL [p; VN t] =>
      match as_str p with
      | Some p => match range_match p t with
                  | Ok r => VL [VN 0; vopt vstr r]
                  | Err c => verr c
                  end
      | None => vbad
      end
  (* ip_match: model, documented-form flag, spec, parse of the address, parse of the network *)
  | 6, VL [a; b] =>
      match as_str a, as_str b with
      | Some a, Some b =>
          VL [ vrb (ip_match a b); vbool (ip_doc a b); vbool (ip_spec a b);
               match parse_addr a with Some (f, x) => VL [vaddr f x] | None => VL [] end;
               match parse_network b with Some (f, x, n) => VL [vaddr f x; VN n] | None => VL [] end ]
      | _, _ => vbad
      end
  (* the two renderings of the IPv6 integer with the given eight groups *)
  | 7, g =>
      match as_listof as_N g with
      | Some g => let n := compose 0 g in VL [vstr (render6_full n); vstr (render6_compressed n)]
      | None => vbad
      end
  (* documented-form flags only *)
  | 5, p =>
      match as_str p with
      | Some p => doc_flags p
      | None => vbad
      end
  | _, _ => vbad
  end.
