(* PatternRM.v — executable model of casbin/rbac/default_role_manager/role_manager.py
     RoleManager   (96-218)  WITH a matching function  (matching_func != None),
     DomainManager (221-362) WITH a domain matching function (domain_matching_func != None),
   and the SPEC of property C14 (grants).  No proofs here (PatternRMProofs.v).

   The matching functions are EXTERNAL code (key_match2, regex_match, user lambdas): Section
   variables [mf], [dmf] : name -> name -> bool standing for
   `match_error_handler(fn, a, b)` (365-369: an exception counts as False); the oracle instantiates
   them with finite truth tables passed as data ([table_mf]).  What a concrete matcher answers is
   C13, not C14.

   Unlike the plain manager the dict all_roles IS observable here: a name copies grants from the
   patterns it matches at the moment it is first seen (_get_role 133-140), and add_link/delete_link
   propagate to the names known at that moment (161-166, 177-181).  [pm_known] is the key list of
   all_roles in insertion order.  Queries create Role objects, so they return a new state. *)
From Coq Require Import List NArith Bool.
From PyCasbin Require Import Base RoleGraph.
Import ListNotations.

Record pm_state : Type := mkPM {
  pm_max   : nat;
  pm_links : list link;      (* all_links, a multiset in insertion order *)
  pm_known : list name;      (* keys of all_roles, insertion order *)
  pm_roles : list link;      (* { (a, b) | Role b in all_roles[a].roles } *)
  pm_users : list link       (* { (a, b) | Role a in all_roles[b].users } *)
}.

Definition pm_empty (max_level : nat) : pm_state := mkPM max_level [] [] [] [].
(* clear(), 149-151 *)
Definition pm_clear (s : pm_state) : pm_state := pm_empty (pm_max s).

Definition pm_succ (s : pm_state) (a : name) : list name :=
  map snd (filter (fun l => N.eqb (fst l) a) (pm_roles s)).
Definition pm_pred (s : pm_state) (b : name) : list name :=
  map fst (filter (fun l => N.eqb (snd l) b) (pm_users s)).

(* Role.add_role (39-41): a.roles.add(b); b.users.add(a) *)
Definition edge_add (s : pm_state) (a b : name) : pm_state :=
  mkPM (pm_max s) (pm_links s) (pm_known s) (set_add (a, b) (pm_roles s)) (set_add (a, b) (pm_users s)).
Definition add_edges (es : list link) (s : pm_state) : pm_state :=
  fold_left (fun s e => edge_add s (fst e) (snd e)) es s.

(* Role.remove_role (43-45, 50-51): a.roles.remove(b) then b.users.remove(a); set.remove raises
   KeyError.  Returns the state the exception leaves behind. *)
Definition edge_del (s : pm_state) (a b : name) : pm_state * option N :=
  match remove_first link_eqb (a, b) (pm_roles s) with
  | None => (s, Some EKeyError)
  | Some roles' =>
      match remove_first link_eqb (a, b) (pm_users s) with
      | None => (mkPM (pm_max s) (pm_links s) (pm_known s) roles' (pm_users s), Some EKeyError)
      | Some users' => (mkPM (pm_max s) (pm_links s) (pm_known s) roles' users', None)
      end
  end.

(* Role.copy_from (53-57), self = the new Role x (not yet in all_roles), role = pattern role p:
     for r in p.roles: x.add_role(r)          — p.roles is not touched by this loop
     for u in p.users: u.add_role(x)          — p.users as it is AFTER the first loop (it gained x
                                                 if p is among its own roles) *)
Definition copy_from (s : pm_state) (x p : name) : pm_state :=
  let s1 := add_edges (map (fun r => (x, r)) (pm_succ s p)) s in
  add_edges (map (fun u => (u, x)) (pm_pred s1 p)) s1.

Definition set_links (s : pm_state) (ls : list link) : pm_state :=
  mkPM (pm_max s) ls (pm_known s) (pm_roles s) (pm_users s).
Definition set_known (s : pm_state) (k : list name) : pm_state :=
  mkPM (pm_max s) (pm_links s) k (pm_roles s) (pm_users s).

Section Pattern.
  Variable mf : name -> name -> bool.      (* mf x p = match_error_handler(matching_func, x, p) *)

  (* _get_role(name), 133-140: a new name copies from every known role whose NAME it matches
     (_matching_roles 124-131, STR_PATTERN order: fn(name, role_name)), in dict order; the list of
     pattern roles is computed before any copying *)
  Definition pm_get_role (s : pm_state) (x : name) : pm_state :=
    if mem N.eqb x (pm_known s) then s
    else
      let pats := filter (fun p => mf x p) (pm_known s) in
      let s1 := fold_left (fun s p => copy_from s x p) pats s in
      set_known s1 (pm_known s1 ++ [x]).

  (* the loop body of add_link, 162-166 (PATTERN_STR order: fn(r.name, user.name)) *)
  Definition add_loop_step (u r : name) (s : pm_state) (x : name) : pm_state :=
    let s1 := if negb (N.eqb x u) && mf x u then edge_add s x r else s in
    if negb (N.eqb x r) && mf x r then edge_add s1 r x else s1.

  (* add_link(name1, name2, *domain), 153-166 *)
  Definition pm_add_link (s : pm_state) (u r : name) : pm_state :=
    let s0 := set_links s (pm_links s ++ [(u, r)]) in
    let s1 := pm_get_role s0 u in
    let s2 := pm_get_role s1 r in
    let s3 := edge_add s2 u r in
    fold_left (add_loop_step u r) (pm_known s3) s3.

  (* the loop body of delete_link, 177-181; an exception ends the loop *)
  Definition del_loop_step (u r : name) (acc : pm_state * option N) (x : name) : pm_state * option N :=
    match acc with
    | (_, Some _) => acc
    | (s, None) =>
        let '(s1, e1) := if negb (N.eqb x u) && mf x u then edge_del s x r else (s, None) in
        match e1 with
        | Some _ => (s1, e1)
        | None => if negb (N.eqb x r) && mf x r then edge_del s1 r x else (s1, None)
        end
    end.

  (* delete_link(name1, name2, *domain), 168-181 *)
  Definition pm_delete_link_x (s : pm_state) (u r : name) : pm_state * option N :=
    if negb (mem link_eqb (u, r) (pm_links s)) then (s, None)
    else
      let s0 := set_links s (remove1 (u, r) (pm_links s)) in
      let s1 := pm_get_role s0 u in
      let s2 := pm_get_role s1 r in
      let '(s3, e) := edge_del s2 u r in
      match e with
      | Some _ => (s3, e)
      | None => fold_left (del_loop_step u r) (pm_known s3) (s3, None)
      end.

  (* has_link 183-187 (+ _has_link 189-199: names are compared with ==, the matching function is
     NOT consulted during the search), get_roles 201-203, get_users 205-207 *)
  Definition pm_has_link (s : pm_state) (a b : name) : bool * pm_state :=
    let s2 := pm_get_role (pm_get_role s a) b in
    (has_link_lvl (pm_succ s2) (pm_max s2) b [a], s2).
  Definition pm_get_roles (s : pm_state) (x : name) : list name * pm_state :=
    let s1 := pm_get_role s x in (pm_succ s1 x, s1).
  Definition pm_get_users (s : pm_state) (x : name) : list name * pm_state :=
    let s1 := pm_get_role s x in (pm_pred s1 x, s1).

  (* _rebuild 107-112 = what add_matching_func(fn) does after setting the function (142-144) *)
  Definition pm_add_all (s : pm_state) (ls : list link) : pm_state :=
    fold_left (fun s l => pm_add_link s (fst l) (snd l)) ls s.
  Definition pm_of_links (max_level : nat) (ls : list link) : pm_state :=
    pm_add_all (pm_empty max_level) ls.
  Definition pm_rebuild (s : pm_state) : pm_state := pm_of_links (pm_max s) (pm_links s).

  (* ---------------- DomainManager with a domain matching function ---------------- *)
  Variable dmf : name -> name -> bool.   (* dmf d p = match_error_handler(domain_matching_func, d, p) *)

  Record pdm_state : Type := mkPDM {
    pdm_max   : nat;
    pdm_links : list (name * list link);     (* all_links *)
    pdm_cache : list (name * pm_state)       (* rm_map *)
  }.
  Definition pdm_empty (max_level : nat) : pdm_state := mkPDM max_level [] [].
  Definition pdm_clear (s : pdm_state) : pdm_state := pdm_empty (pdm_max s).
  (* add_domain_matching_func 330-334: _rebuild drops every cached manager *)
  Definition pdm_set_dmf (s : pdm_state) : pdm_state := mkPDM (pdm_max s) (pdm_links s) [].
  (* add_matching_func 325-328: every cached manager rebuilds itself with the new function *)
  Definition pdm_set_mf (s : pdm_state) : pdm_state :=
    mkPDM (pdm_max s) (pdm_links s) (map (fun e => (fst e, pm_rebuild (snd e))) (pdm_cache s)).

  Definition pdm_own (s : pdm_state) (d : name) : list link :=
    match alookup d (pdm_links s) with Some l => l | None => [] end.
  (* _get_role_manager 254-267: the domain's own links, then those of every OTHER recorded domain
     d2 with fn(domain, d2), in dict order *)
  Definition pdm_dlinks (s : pdm_state) (d : name) : list link :=
    pdm_own s d ++
    flat_map (fun e => if negb (N.eqb d (fst e)) && dmf d (fst e) then snd e else []) (pdm_links s).
  Definition pdm_build (s : pdm_state) (d : name) : pm_state := pm_of_links (pdm_max s) (pdm_dlinks s d).

  Definition pdm_get_rm (s : pdm_state) (d : name) : pm_state * pdm_state :=
    match alookup d (pdm_cache s) with
    | Some rm => (rm, s)
    | None => let rm := pdm_build s d in (rm, mkPDM (pdm_max s) (pdm_links s) (pdm_cache s ++ [(d, rm)]))
    end.

  (* _affected_role_managers 313-321: the cached managers of the domains d with fn(d, pattern) —
     the pattern's own manager only if the function says the pattern matches itself *)
  Definition pdm_add_link (s : pdm_state) (u r d : name) : pdm_state :=
    let links' := aset d (pdm_own s d ++ [(u, r)]) (pdm_links s) in
    mkPDM (pdm_max s) links'
          (map (fun e => if dmf (fst e) d then (fst e, pm_add_link (snd e) u r) else e) (pdm_cache s)).

  (* delete in the affected managers, in dict order, stopping at the first exception *)
  Fixpoint pdm_del_cache (c : list (name * pm_state)) (u r d : name) : list (name * pm_state) * option N :=
    match c with
    | [] => ([], None)
    | e :: rest =>
        if dmf (fst e) d then
          let '(rm', x) := pm_delete_link_x (snd e) u r in
          match x with
          | Some _ => ((fst e, rm') :: rest, x)
          | None => let '(rest', y) := pdm_del_cache rest u r d in ((fst e, rm') :: rest', y)
          end
        else let '(rest', y) := pdm_del_cache rest u r d in (e :: rest', y)
    end.

  Definition pdm_delete_link_x (s : pdm_state) (u r d : name) : pdm_state * option N :=
    let ls := pdm_own s d in
    if negb (mem link_eqb (u, r) ls) then
      (mkPDM (pdm_max s) (aset d ls (pdm_links s)) (pdm_cache s), Some ELinkMissing)
    else
      let links' := aset d (remove1 (u, r) ls) (pdm_links s) in
      let '(c', e) := pdm_del_cache (pdm_cache s) u r d in
      (mkPDM (pdm_max s) links' c', e).

  Definition pdm_put (s : pdm_state) (d : name) (rm : pm_state) : pdm_state :=
    mkPDM (pdm_max s) (pdm_links s) (aset d rm (pdm_cache s)).

  Definition pdm_has_link (s : pdm_state) (a b d : name) : bool * pdm_state :=
    let '(rm, s1) := pdm_get_rm s d in
    let '(x, rm') := pm_has_link rm a b in (x, pdm_put s1 d rm').
  Definition pdm_get_roles (s : pdm_state) (x d : name) : list name * pdm_state :=
    let '(rm, s1) := pdm_get_rm s d in
    let '(l, rm') := pm_get_roles rm x in (l, pdm_put s1 d rm').
  Definition pdm_get_users (s : pdm_state) (x d : name) : list name * pdm_state :=
    let '(rm, s1) := pdm_get_rm s d in
    let '(l, rm') := pm_get_users rm x in (l, pdm_put s1 d rm').

  (* ---------------- SPEC ---------------- *)
  (* the assignment (u, r) grants r to x iff x is u or x matches the pattern u *)
  Definition grant (L : list link) (x r : name) : Prop :=
    exists u, In (u, r) L /\ (x = u \/ mf x u = true).
  (* the assignments that apply in domain d *)
  Definition applies (d : name) (e : name * list link) : bool := N.eqb (fst e) d || dmf d (fst e).
  Definition dom_links (L : list (name * list link)) (d : name) : list link :=
    flat_map (fun e => if applies d e then snd e else []) L.

  (* executable: is b reachable from a in at most k grant steps? *)
  Fixpoint greach (L : list link) (k : nat) (a b : name) : bool :=
    N.eqb a b ||
    match k with
    | O => false
    | S k' => existsb (fun l => (N.eqb a (fst l) || mf a (fst l)) && greach L k' (snd l) b) L
    end.
End Pattern.

(* ---------------- histories ---------------- *)
Inductive pm_op : Type :=
| PAdd (u r : name)
| PDel (u r : name)
| PHas (a b : name)
| PRoles (x : name)
| PUsers (x : name).

Definition pm_step (mf : name -> name -> bool) (s : pm_state) (o : pm_op) : pm_state :=
  match o with
  | PAdd u r => pm_add_link mf s u r
  | PDel u r => fst (pm_delete_link_x mf s u r)
  | PHas a b => snd (pm_has_link mf s a b)
  | PRoles x => snd (pm_get_roles mf s x)
  | PUsers x => snd (pm_get_users mf s x)
  end.
Definition pm_run (mf : name -> name -> bool) (s : pm_state) (ops : list pm_op) : pm_state :=
  fold_left (pm_step mf) ops s.

Definition op_names (o : pm_op) : list name :=
  match o with
  | PAdd u r | PDel u r | PHas u r => [u; r]
  | PRoles x | PUsers x => [x]
  end.
Definition hist_names (h : list pm_op) : list name := flat_map op_names h.
(* every assignment the history ever adds *)
Definition hist_adds (h : list pm_op) : list link :=
  flat_map (fun o => match o with PAdd u r => [(u, r)] | _ => [] end) h.
Definition no_deletes (h : list pm_op) : bool :=
  forallb (fun o => match o with PDel _ _ => false | _ => true end) h.
(* the assignments in force after the history (deletes remove the first occurrence) *)
Definition hist_links (h : list pm_op) : list link :=
  fold_left (fun ls o => match o with
                         | PAdd u r => ls ++ [(u, r)]
                         | PDel u r => remove1 (u, r) ls
                         | _ => ls
                         end) h [].

(* the property's scope, as booleans over the names and assignments of a history:
   first-position patterns only — a name that matches the ROLE side of an assignment is that role; *)
Definition roles_plain (mf : name -> name -> bool) (U : list name) (Ls : list link) : bool :=
  forallb (fun x => forallb (fun l => implb (mf x (snd l)) (N.eqb x (snd l))) Ls) U.
(* and matching is transitive towards the USER side of assignments: x ~ p, p ~ u  ==>  x ~ u *)
Definition mf_trans (mf : name -> name -> bool) (U : list name) (Ls : list link) : bool :=
  forallb (fun x => forallb (fun p => forallb (fun l =>
    implb (mf x p && mf p (fst l)) (mf x (fst l))) Ls) U) U.
Definition in_scope (mf : name -> name -> bool) (h : list pm_op) : bool :=
  roles_plain mf (hist_names h) (hist_adds h) && mf_trans mf (hist_names h) (hist_adds h).

(* guard of the partial deletion theorem, evaluated at each delete: no name that is known at that
   moment is granted the deleted assignment's role by it AND by another assignment in force *)
Definition grantsb (mf : name -> name -> bool) (L : list link) (x r : name) : bool :=
  existsb (fun l => N.eqb (snd l) r && (N.eqb x (fst l) || mf x (fst l))) L.
Definition del_guard (mf : name -> name -> bool) (s : pm_state) (u r : name) : bool :=
  forallb (fun x => negb ((N.eqb x u || mf x u) && grantsb mf (remove1 (u, r) (pm_links s)) x r))
          (pm_known s).
Fixpoint dels_guarded (mf : name -> name -> bool) (s : pm_state) (h : list pm_op) : bool :=
  match h with
  | [] => true
  | o :: rest =>
      match o with
      | PDel u r => del_guard mf s u r
      | PAdd u r => negb (mem link_eqb (u, r) (pm_links s))       (* no double adds *)
      | _ => true
      end && dels_guarded mf (pm_step mf s o) rest
  end.

(* the exceptions delete_link raises along a history *)
Fixpoint pm_errs (mf : name -> name -> bool) (s : pm_state) (h : list pm_op) : list N :=
  match h with
  | [] => []
  | o :: rest =>
      match o with
      | PDel u r => match snd (pm_delete_link_x mf s u r) with Some e => [e] | None => [] end
      | _ => []
      end ++ pm_errs mf (pm_step mf s o) rest
  end.

(* histories of the domain manager *)
Inductive pdm_op : Type :=
| QAdd (u r d : name)
| QDel (u r d : name)
| QHas (a b d : name)
| QRoles (x d : name)
| QUsers (x d : name).

Definition pdm_step (mf dmf : name -> name -> bool) (s : pdm_state) (o : pdm_op) : pdm_state :=
  match o with
  | QAdd u r d => pdm_add_link mf dmf s u r d
  | QDel u r d => fst (pdm_delete_link_x mf dmf s u r d)
  | QHas a b d => snd (pdm_has_link mf dmf s a b d)
  | QRoles x d => snd (pdm_get_roles mf dmf s x d)
  | QUsers x d => snd (pdm_get_users mf dmf s x d)
  end.
Definition pdm_run (mf dmf : name -> name -> bool) (s : pdm_state) (ops : list pdm_op) : pdm_state :=
  fold_left (pdm_step mf dmf) ops s.

(* scope and spec of domain-manager histories *)
Definition pdm_no_deletes (h : list pdm_op) : bool :=
  forallb (fun o => match o with QDel _ _ _ => false | _ => true end) h.
Definition qop_names (o : pdm_op) : list name :=
  match o with
  | QAdd u r _ | QDel u r _ | QHas u r _ => [u; r]
  | QRoles x _ | QUsers x _ => [x]
  end.
Definition qop_dom (o : pdm_op) : name :=
  match o with QAdd _ _ d | QDel _ _ d | QHas _ _ d | QRoles _ d | QUsers _ d => d end.
Definition pdm_names (h : list pdm_op) : list name := flat_map qop_names h.
Definition pdm_doms (h : list pdm_op) : list name := map qop_dom h.
Definition pdm_adds (h : list pdm_op) : list link :=
  flat_map (fun o => match o with QAdd u r _ => [(u, r)] | _ => [] end) h.
(* the assignments of the history that apply in domain d: recorded for d itself or for a domain
   pattern that d matches *)
Definition pdm_adds_in (dmf : name -> name -> bool) (d : name) (h : list pdm_op) : list link :=
  flat_map (fun o => match o with
                     | QAdd u r d' => if N.eqb d' d || dmf d d' then [(u, r)] else []
                     | _ => []
                     end) h.
Definition pdm_in_scope (mf dmf : name -> name -> bool) (h : list pdm_op) : bool :=
  roles_plain mf (pdm_names h) (pdm_adds h) && mf_trans mf (pdm_names h) (pdm_adds h) &&
  forallb (fun d => dmf d d) (pdm_doms h).

(* ---------------- oracle of C14 ---------------- *)
Definition table_mf (tbl : list link) (a b : name) : bool := mem link_eqb (a, b) tbl.

(* op codes: 0 add u r doms | 1 delete u r doms | 2 has_link a b doms | 3 get_roles x doms
             4 get_users x doms | 5 clear | 8 dump | 9 add_matching_func (same function again)
             10 add_domain_matching_func (same function again)                                *)
Inductive qop : Type :=
| XAdd (u r : name) (doms : list name)
| XDel (u r : name) (doms : list name)
| XHas (a b : name) (doms : list name)
| XRoles (x : name) (doms : list name)
| XUsers (x : name) (doms : list name)
| XClear
| XDump
| XSetMf
| XSetDmf.

Definition as_qop (v : val) : option qop :=
  match v with
  | VL [VN 0; VN u; VN r; doms] => option_map (XAdd u r) (as_names doms)
  | VL [VN 1; VN u; VN r; doms] => option_map (XDel u r) (as_names doms)
  | VL [VN 2; VN a; VN b; doms] => option_map (XHas a b) (as_names doms)
  | VL [VN 3; VN x; doms] => option_map (XRoles x) (as_names doms)
  | VL [VN 4; VN x; doms] => option_map (XUsers x) (as_names doms)
  | VL [VN 5] => Some XClear
  | VL [VN 8] => Some XDump
  | VL [VN 9] => Some XSetMf
  | VL [VN 10] => Some XSetDmf
  | _ => None
  end%N.

Definition pok (v : val) : val := VL [VN 0; v].
Definition punit : val := VL [].
Definition pexc (e : option N) : val := match e with None => pok punit | Some c => verr c end.
(* dump: all_links, the keys of all_roles in order, the two edge sets (the harness sorts them) *)
Definition vpm (s : pm_state) : val :=
  VL [vlist vlink (pm_links s); vnames (pm_known s); vlist vlink (pm_roles s); vlist vlink (pm_users s)].

Section Run.
  Variables mf dmf : name -> name -> bool.

  Fixpoint run_pm (s : pm_state) (ops : list qop) : list val :=
    match ops with
    | [] => []
    | o :: rest =>
        match o with
        | XAdd u r _ => pok punit :: run_pm (pm_add_link mf s u r) rest
        | XDel u r _ => let '(s', e) := pm_delete_link_x mf s u r in pexc e :: run_pm s' rest
        | XHas a b _ => let '(x, s') := pm_has_link mf s a b in pok (vbool x) :: run_pm s' rest
        | XRoles x _ => let '(l, s') := pm_get_roles mf s x in pok (vnames l) :: run_pm s' rest
        | XUsers x _ => let '(l, s') := pm_get_users mf s x in pok (vnames l) :: run_pm s' rest
        | XClear => pok punit :: run_pm (pm_clear s) rest
        | XDump => pok (vpm s) :: run_pm s rest
        | XSetMf => pok punit :: run_pm (pm_rebuild mf s) rest
        | XSetDmf => pok punit :: run_pm s rest           (* 146-147: only stores the function *)
        end
    end.

  Definition vpdm (s : pdm_state) : val :=
    VL [vlist (fun e => VL [VN (fst e); vlist vlink (snd e)]) (pdm_links s);
        vlist (fun e => VL [VN (fst e); vpm (snd e)]) (pdm_cache s)].

  Fixpoint run_pdm (s : pdm_state) (ops : list qop) : list val :=
    match ops with
    | [] => []
    | o :: rest =>
        match o with
        | XAdd u r doms =>
            match dm_domain_of doms with
            | Ok d => pok punit :: run_pdm (pdm_add_link mf dmf s u r d) rest
            | Err c => verr c :: run_pdm s rest
            end
        | XDel u r doms =>
            match dm_domain_of doms with
            | Ok d => let '(s', e) := pdm_delete_link_x mf dmf s u r d in pexc e :: run_pdm s' rest
            | Err c => verr c :: run_pdm s rest
            end
        | XHas a b doms =>
            match dm_domain_of doms with
            | Ok d => let '(x, s') := pdm_has_link mf dmf s a b d in pok (vbool x) :: run_pdm s' rest
            | Err c => verr c :: run_pdm s rest
            end
        | XRoles x doms =>
            match dm_domain_of doms with
            | Ok d => let '(l, s') := pdm_get_roles mf dmf s x d in pok (vnames l) :: run_pdm s' rest
            | Err c => verr c :: run_pdm s rest
            end
        | XUsers x doms =>
            match dm_domain_of doms with
            | Ok d => let '(l, s') := pdm_get_users mf dmf s x d in pok (vnames l) :: run_pdm s' rest
            | Err c => verr c :: run_pdm s rest
            end
        | XClear => pok punit :: run_pdm (pdm_clear s) rest
        | XDump => pok (vpdm s) :: run_pdm s rest
        | XSetMf => pok punit :: run_pdm (pdm_set_mf mf s) rest
        | XSetDmf => pok punit :: run_pdm (pdm_set_dmf s) rest
        end
    end.
End Run.

(* tags: 1 RoleManager [L, mf-table, ops] | 2 DomainManager [L, mf-table, dmf-table, ops]
         3 spec greach [mf-table, links, k, a, b] *)
Definition oracle_C14 (tag : N) (v : val) : val :=
  match tag, v with
  | 1%N, VL [l; mt; ops] =>
      match as_nat l, as_listof as_link mt, as_listof as_qop ops with
      | Some l, Some mt, Some ops => VL (run_pm (table_mf mt) (pm_empty l) ops)
      | _, _, _ => vbad
      end
  | 2%N, VL [l; mt; dt; ops] =>
      match as_nat l, as_listof as_link mt, as_listof as_link dt, as_listof as_qop ops with
      | Some l, Some mt, Some dt, Some ops => VL (run_pdm (table_mf mt) (table_mf dt) (pdm_empty l) ops)
      | _, _, _, _ => vbad
      end
  | 3%N, VL [mt; ls; k; VN a; VN b] =>
      match as_listof as_link mt, as_listof as_link ls, as_nat k with
      | Some mt, Some ls, Some k => vbool (greach (table_mf mt) ls k a b)
      | _, _, _ => vbad
      end
  | _, _ => vbad
  end.
