(* PatternRMProofs.v — lemmas behind Props/C14.v.
   Core: under the property's scope (first-position patterns only, matching transitive towards
   assignment users) every reachable state of the pattern role manager is CANONICAL:
     (x, r) is an edge  <->  x is a known name and some assignment (u, r) in force has x = u or x ~ u.
   Everything else (has_link = grants, order independence, exact deletion under a guard) follows. *)
From Coq Require Import List NArith Bool Arith Lia.
From PyCasbin Require Import Base RoleGraph RoleGraphProofs PatternRM.
Import ListNotations.

(* ------------------------------------------------------------------------------------------ *)
(* generic list facts                                                                          *)

Lemma NoDup_snoc_gen : forall {A} (x : A) l, NoDup l -> ~ In x l -> NoDup (l ++ [x]).
Proof.
  intros A x l H Hn. induction H as [|y r Hy Hr IH]; simpl.
  - constructor; [tauto | constructor].
  - constructor.
    + rewrite in_app_iff. simpl. intros [H|[H|[]]]; [contradiction | subst; apply Hn; left; reflexivity].
    + apply IH. intro; apply Hn; right; assumption.
Qed.

Lemma filter_none : forall {A} (f : A -> bool) l, (forall e, In e l -> f e = false) -> filter f l = [].
Proof.
  intros A f l H. induction l as [|a l IH]; simpl; [reflexivity|].
  rewrite (H a) by (left; reflexivity). apply IH. intros e He. apply H. right. exact He.
Qed.

Lemma mem_N_false : forall (x : N) l, mem N.eqb x l = false <-> ~ In x l.
Proof. intros x l. rewrite <- mem_N_In. destruct (mem N.eqb x l); split; congruence. Qed.

Lemma remove_first_NoDup_In : forall x l l', NoDup l -> remove_first link_eqb x l = Some l' ->
  NoDup l' /\ forall e, In e l' <-> In e l /\ e <> x.
Proof.
  intros x l l' H R. apply remove_first_Some in R. destruct R as [l1 [l2 [-> [-> Hn]]]].
  split; [eapply NoDup_remove_1; eauto|]. intros e. pose proof (NoDup_remove_2 _ _ _ H) as Hx.
  rewrite !in_app_iff. simpl. split.
  - intros He. split; [tauto|]. intro; subst e. apply Hx. apply in_app_iff. exact He.
  - intros [[He|[He|He]] Hne]; auto. congruence.
Qed.

Lemma remove1_In_NoDup : forall x l e, NoDup l -> (In e (remove1 x l) <-> In e l /\ e <> x).
Proof.
  intros x l e H. unfold remove1. destruct (remove_first link_eqb x l) eqn:R.
  - apply (remove_first_NoDup_In _ _ _ H R).
  - apply remove_first_None in R. split; [intros He; split; [exact He | congruence] | tauto].
Qed.

(* ------------------------------------------------------------------------------------------ *)
(* edges                                                                                       *)

Lemma pm_succ_In : forall s a b, In b (pm_succ s a) <-> In (a, b) (pm_roles s).
Proof.
  intros s a b. unfold pm_succ. rewrite in_map_iff. split.
  - intros [[x y] [Hy Hin]]. simpl in Hy. subst. apply filter_In in Hin. destruct Hin as [Hin He].
    simpl in He. apply N.eqb_eq in He. subst. exact Hin.
  - intros H. exists (a, b). split; [reflexivity|]. apply filter_In. split; [exact H | simpl; apply N.eqb_refl].
Qed.

Lemma pm_pred_In : forall s b a, In a (pm_pred s b) <-> In (a, b) (pm_users s).
Proof.
  intros s b a. unfold pm_pred. rewrite in_map_iff. split.
  - intros [[x y] [Hx Hin]]. simpl in Hx. subst. apply filter_In in Hin. destruct Hin as [Hin He].
    simpl in He. apply N.eqb_eq in He. subst. exact Hin.
  - intros H. exists (a, b). split; [reflexivity|]. apply filter_In. split; [exact H | simpl; apply N.eqb_refl].
Qed.

Lemma add_edges_roles : forall es s e, In e (pm_roles (add_edges es s)) <-> In e es \/ In e (pm_roles s).
Proof.
  induction es as [|[a b] es IH]; intros s e; simpl; [tauto|].
  unfold add_edges in *. simpl. rewrite IH. simpl. rewrite set_add_In. intuition (subst; auto).
Qed.

Lemma add_edges_users : forall es s e, In e (pm_users (add_edges es s)) <-> In e es \/ In e (pm_users s).
Proof.
  induction es as [|[a b] es IH]; intros s e; simpl; [tauto|].
  unfold add_edges in *. simpl. rewrite IH. simpl. rewrite set_add_In. intuition (subst; auto).
Qed.

Lemma add_edges_frame : forall es s,
  pm_known (add_edges es s) = pm_known s /\ pm_links (add_edges es s) = pm_links s /\
  pm_max (add_edges es s) = pm_max s.
Proof.
  induction es as [|[a b] es IH]; intros s; simpl; [auto|].
  unfold add_edges in *. simpl. destruct (IH (edge_add s a b)) as [H1 [H2 H3]]. rewrite H1, H2, H3. auto.
Qed.

Lemma add_edges_NoDup : forall es s, NoDup (pm_roles s) -> NoDup (pm_users s) ->
  NoDup (pm_roles (add_edges es s)) /\ NoDup (pm_users (add_edges es s)).
Proof.
  induction es as [|[a b] es IH]; intros s H1 H2; simpl; [auto|].
  unfold add_edges in *. simpl. apply IH; simpl; apply set_add_NoDup; assumption.
Qed.

Lemma add_edges_app : forall e1 e2 s, add_edges (e1 ++ e2) s = add_edges e2 (add_edges e1 s).
Proof. intros. unfold add_edges. apply fold_left_app. Qed.

Lemma fold_add_edges : forall {A} (f : A -> list link) l s,
  fold_left (fun s x => add_edges (f x) s) l s = add_edges (flat_map f l) s.
Proof.
  intros A f l. induction l as [|a l IH]; intros s; simpl; [reflexivity|].
  rewrite IH, add_edges_app. reflexivity.
Qed.

(* a pattern role nobody points to: copy_from only copies its roles *)
Lemma copy_from_simple : forall s x p,
  (forall w, ~ In (w, p) (pm_roles s)) -> (forall w, ~ In (w, p) (pm_users s)) ->
  copy_from s x p = add_edges (map (fun r => (x, r)) (pm_succ s p)) s.
Proof.
  intros s x p Hr Hu. unfold copy_from.
  set (s1 := add_edges (map (fun r => (x, r)) (pm_succ s p)) s).
  assert (E : pm_pred s1 p = []).
  { unfold pm_pred. rewrite filter_none; [reflexivity|].
    intros [w b] He. simpl. apply N.eqb_neq. intro; subst b.
    apply add_edges_users in He. destruct He as [He|He].
    - apply in_map_iff in He. destruct He as [r [Hr1 Hr2]]. inversion Hr1; subst.
      apply pm_succ_In in Hr2. exact (Hr _ Hr2).
    - exact (Hu _ He). }
  rewrite E. reflexivity.
Qed.

Lemma copy_from_NoDup : forall s x p, NoDup (pm_roles s) -> NoDup (pm_users s) ->
  NoDup (pm_roles (copy_from s x p)) /\ NoDup (pm_users (copy_from s x p)).
Proof.
  intros s x p H1 H2. unfold copy_from.
  destruct (add_edges_NoDup (map (fun r => (x, r)) (pm_succ s p)) s H1 H2) as [A B].
  apply add_edges_NoDup; assumption.
Qed.

Lemma copy_from_frame : forall s x p,
  pm_known (copy_from s x p) = pm_known s /\ pm_links (copy_from s x p) = pm_links s /\
  pm_max (copy_from s x p) = pm_max s.
Proof.
  intros s x p. unfold copy_from.
  set (s1 := add_edges (map (fun r => (x, r)) (pm_succ s p)) s).
  destruct (add_edges_frame (map (fun u => (u, x)) (pm_pred s1 p)) s1) as [A [B C]].
  destruct (add_edges_frame (map (fun r => (x, r)) (pm_succ s p)) s) as [A' [B' C']].
  fold s1 in A', B', C'. rewrite A, B, C, A', B', C'. auto.
Qed.

Lemma edge_del_ok : forall s a b, NoDup (pm_roles s) -> NoDup (pm_users s) ->
  In (a, b) (pm_roles s) -> In (a, b) (pm_users s) ->
  exists s', edge_del s a b = (s', None) /\
    (forall e, In e (pm_roles s') <-> In e (pm_roles s) /\ e <> (a, b)) /\
    (forall e, In e (pm_users s') <-> In e (pm_users s) /\ e <> (a, b)) /\
    NoDup (pm_roles s') /\ NoDup (pm_users s') /\
    pm_known s' = pm_known s /\ pm_links s' = pm_links s /\ pm_max s' = pm_max s.
Proof.
  intros s a b N1 N2 I1 I2. unfold edge_del.
  destruct (remove_first_In _ _ I1) as [r' R1]. destruct (remove_first_In _ _ I2) as [u' R2].
  rewrite R1, R2. eexists. split; [reflexivity|]. simpl.
  destruct (remove_first_NoDup_In _ _ _ N1 R1) as [A B].
  destruct (remove_first_NoDup_In _ _ _ N2 R2) as [C D].
  split; [exact B|]. split; [exact D|]. split; [exact A|]. split; [exact C|]. auto.
Qed.

(* ------------------------------------------------------------------------------------------ *)
(* the canonical form                                                                          *)

Section Canon.
  Variable mf : name -> name -> bool.
  Variable U : list name.          (* the names the history mentions *)
  Variable A : list link.          (* the assignments the history ever adds *)
  Hypothesis H1 : forall x l, In x U -> In l A -> mf x (snd l) = true -> x = snd l.
  Hypothesis H2 : forall x p l, In x U -> In p U -> In l A ->
    mf x p = true -> mf p (fst l) = true -> mf x (fst l) = true.

  Record canon (L : list link) (s : pm_state) : Prop := {
    c_roles : forall x r, In (x, r) (pm_roles s) <-> In x (pm_known s) /\ grant mf L x r;
    c_users : forall e, In e (pm_users s) <-> In e (pm_roles s);
    c_lk : forall u r, In (u, r) L -> In u (pm_known s) /\ In r (pm_known s);
    c_U : incl (pm_known s) U;
    c_A : incl L A;
    c_ndk : NoDup (pm_known s);
    c_ndr : NoDup (pm_roles s);
    c_ndu : NoDup (pm_users s)
  }.

  Lemma canon_empty : forall m, canon [] (pm_empty m).
  Proof.
    intro m. constructor; simpl; try constructor; try (intros; tauto); try (intros ? []).
  Qed.

  (* the fold of _get_role over the pattern roles a new name matches *)
  Lemma fold_copy : forall x pats s0,
    (forall e, In e (pm_users s0) <-> In e (pm_roles s0)) ->
    (forall p w, In p pats -> ~ In (w, p) (pm_roles s0)) ->
    ~ In x pats -> NoDup (pm_roles s0) -> NoDup (pm_users s0) ->
    let s1 := fold_left (fun s p => copy_from s x p) pats s0 in
    (forall e, In e (pm_roles s1) <->
               In e (pm_roles s0) \/ exists p, In p pats /\ fst e = x /\ In (p, snd e) (pm_roles s0)) /\
    (forall e, In e (pm_users s1) <-> In e (pm_roles s1)) /\
    pm_known s1 = pm_known s0 /\ pm_links s1 = pm_links s0 /\ pm_max s1 = pm_max s0 /\
    NoDup (pm_roles s1) /\ NoDup (pm_users s1).
  Proof.
    intros x pats. induction pats as [|p pats IH]; intros s0 Hu Hp Hx N1 N2; simpl.
    - repeat split; auto; try apply Hu. intros [H|[p [[] _]]]. exact H.
    - assert (Hp0 : forall w, ~ In (w, p) (pm_roles s0)) by (intro w; apply Hp; left; reflexivity).
      assert (Hp0u : forall w, ~ In (w, p) (pm_users s0)) by (intros w H; apply Hu in H; exact (Hp0 w H)).
      rewrite (copy_from_simple s0 x p Hp0 Hp0u).
      set (es := map (fun r => (x, r)) (pm_succ s0 p)).
      assert (Hes : forall e, In e es <-> fst e = x /\ In (p, snd e) (pm_roles s0)).
      { intros [a b]. unfold es. rewrite in_map_iff. simpl. split.
        - intros [r [E Hr]]. inversion E; subst. split; [reflexivity | apply pm_succ_In; exact Hr].
        - intros [-> Hr]. exists b. split; [reflexivity | apply pm_succ_In; exact Hr]. }
      destruct (add_edges_frame es s0) as [F1 [F2 F3]].
      destruct (add_edges_NoDup es s0 N1 N2) as [N1' N2'].
      destruct (IH (add_edges es s0)) as [R [Us [K [Lk [Mx [Nr Nu]]]]]]; auto.
      + intros e. rewrite add_edges_users, add_edges_roles, Hu. tauto.
      + intros p' w Hp' Hin. apply add_edges_roles in Hin. destruct Hin as [Hin|Hin].
        * apply Hes in Hin. simpl in Hin. destruct Hin as [_ Hin]. apply (Hp p' p); [right; exact Hp' | exact Hin].
        * apply (Hp p' w); [right; exact Hp' | exact Hin].
      + intro Hin. apply Hx. right. exact Hin.
      + split; [|split; [exact Us | rewrite K, Lk, Mx, F1, F2, F3; auto]].
        intros e. rewrite R. split.
        * intros [Hin|[p' [Hp' [Hf Hin]]]].
          -- apply add_edges_roles in Hin. destruct Hin as [Hin|Hin]; [|left; exact Hin].
             apply Hes in Hin. right. exists p. split; [left; reflexivity | exact Hin].
          -- apply add_edges_roles in Hin. destruct Hin as [Hin|Hin].
             ++ apply Hes in Hin. simpl in Hin. destruct Hin as [E _]. subst p'. exfalso. apply Hx. right. exact Hp'.
             ++ right. exists p'. split; [right; exact Hp' | split; assumption].
        * intros [Hin|[p' [[E|Hp'] [Hf Hin]]]].
          -- left. apply add_edges_roles. right. exact Hin.
          -- subst p'. left. apply add_edges_roles. left. apply Hes. split; assumption.
          -- right. exists p'. split; [exact Hp' | split; [exact Hf | apply add_edges_roles; right; exact Hin]].
  Qed.

  Lemma get_role_known : forall s x, In x (pm_known s) -> pm_get_role mf s x = s.
  Proof. intros s x H. unfold pm_get_role. apply mem_N_In in H. rewrite H. reflexivity. Qed.

  Lemma get_role_canon : forall L s x, canon L s -> In x U ->
    canon L (pm_get_role mf s x) /\
    (forall y, In y (pm_known (pm_get_role mf s x)) <-> In y (pm_known s) \/ y = x) /\
    pm_links (pm_get_role mf s x) = pm_links s /\ pm_max (pm_get_role mf s x) = pm_max s.
  Proof.
    intros L s x C Hx. unfold pm_get_role. destruct (mem N.eqb x (pm_known s)) eqn:M.
    - apply mem_N_In in M. split; [exact C|]. split; [|split; reflexivity].
      intros y. split; [auto|]. intros [Hy| ->]; assumption.
    - apply mem_N_false in M.
      set (pats := filter (fun p => mf x p) (pm_known s)).
      assert (Hpats : forall p, In p pats <-> In p (pm_known s) /\ mf x p = true) by (intro p; apply filter_In).
      destruct (fold_copy x pats s) as [R [Us [K [Lk [Mx [Nr Nu]]]]]].
      + apply (c_users _ _ C).
      + intros p w Hp Hin. apply Hpats in Hp. destruct Hp as [Hk Hm].
        apply (c_roles _ _ C) in Hin. destruct Hin as [_ [u [Hl _]]].
        assert (E : x = p) by (apply (H1 x (u, p)); auto; apply (c_A _ _ C); exact Hl).
        subst p. contradiction.
      + intro Hin. apply Hpats in Hin. tauto.
      + apply (c_ndr _ _ C).
      + apply (c_ndu _ _ C).
      + set (s1 := fold_left (fun s p => copy_from s x p) pats s) in *.
        split; [|split; [|split]]; simpl; auto.
        * constructor; simpl.
          -- intros y r. rewrite R, K, in_app_iff. simpl. split.
             ++ intros [Hin|[p [Hp [Hf Hin]]]].
                ** apply (c_roles _ _ C) in Hin. tauto.
                ** subst y. split; [auto|]. apply Hpats in Hp. destruct Hp as [Hk Hm].
                   apply (c_roles _ _ C) in Hin. destruct Hin as [_ [u [Hl Hg]]].
                   exists u. split; [exact Hl|]. right. destruct Hg as [->|Hg]; [exact Hm|].
                   apply (H2 x p (u, r)); auto. apply (c_U _ _ C); exact Hk. apply (c_A _ _ C); exact Hl.
             ++ intros [[Hk|[<-|[]]] G].
                ** left. apply (c_roles _ _ C). tauto.
                ** destruct G as [u [Hl [E|Hm]]].
                   --- subst u. exfalso. apply M. apply (c_lk _ _ C _ _ Hl).
                   --- right. exists u. split; [|split; [reflexivity|]].
                       +++ apply Hpats. split; [apply (c_lk _ _ C _ _ Hl) | exact Hm].
                       +++ simpl. apply (c_roles _ _ C). split; [apply (c_lk _ _ C _ _ Hl)|].
                           exists u. auto.
          -- exact Us.
          -- intros u r Hl. rewrite K, !in_app_iff. destruct (c_lk _ _ C _ _ Hl). auto.
          -- rewrite K. intros y Hy. apply in_app_iff in Hy. destruct Hy as [Hy|[<-|[]]]; [apply (c_U _ _ C); exact Hy | exact Hx].
          -- apply (c_A _ _ C).
          -- rewrite K. apply NoDup_snoc_gen; [apply (c_ndk _ _ C) | exact M].
          -- exact Nr.
          -- exact Nu.
        * intros y. rewrite K, in_app_iff. simpl. intuition.
  Qed.

  (* canon does not look at the pm_links field *)
  Lemma canon_set_links : forall L s ls, canon L s -> canon L (set_links s ls).
  Proof. intros L s ls C. destruct C. constructor; simpl; auto. Qed.

  (* the propagation loop of add_link as a list of edges *)
  Definition loop_edges (u r x : name) : list link :=
    (if negb (N.eqb x u) && mf x u then [(x, r)] else []) ++
    (if negb (N.eqb x r) && mf x r then [(r, x)] else []).

  Lemma add_loop_step_edges : forall u r s x, add_loop_step mf u r s x = add_edges (loop_edges u r x) s.
  Proof.
    intros u r s x. unfold add_loop_step, loop_edges.
    destruct (negb (N.eqb x u) && mf x u); destruct (negb (N.eqb x r) && mf x r); reflexivity.
  Qed.

  Lemma add_loop_fold : forall u r l s,
    fold_left (add_loop_step mf u r) l s = add_edges (flat_map (loop_edges u r) l) s.
  Proof.
    intros u r l s. rewrite <- fold_add_edges. revert s. induction l as [|x l IH]; intros s; simpl; [reflexivity|].
    rewrite add_loop_step_edges. apply IH.
  Qed.

  Lemma add_link_canon : forall L s u r, canon L s -> In u U -> In r U -> In (u, r) A ->
    canon (L ++ [(u, r)]) (pm_add_link mf s u r) /\
    pm_links (pm_add_link mf s u r) = pm_links s ++ [(u, r)] /\
    pm_max (pm_add_link mf s u r) = pm_max s.
  Proof.
    intros L s u r C Hu Hr Ha. unfold pm_add_link.
    set (s0 := set_links s (pm_links s ++ [(u, r)])).
    assert (C0 : canon L s0) by (apply canon_set_links; exact C).
    destruct (get_role_canon L s0 u C0 Hu) as [C1 [K1 [L1 M1]]].
    set (s1 := pm_get_role mf s0 u) in *.
    destruct (get_role_canon L s1 r C1 Hr) as [C2 [K2 [L2 M2]]].
    set (s2 := pm_get_role mf s1 r) in *.
    rewrite add_loop_fold. simpl pm_known.
    set (es := flat_map (loop_edges u r) (pm_known s2)).
    destruct (add_edges_frame es (edge_add s2 u r)) as [F1 [F2 F3]].
    assert (Hku : In u (pm_known s2)) by (apply K2; left; apply K1; right; reflexivity).
    assert (Hkr : In r (pm_known s2)) by (apply K2; right; reflexivity).
    assert (Hes : forall e, In e es <-> exists y, In y (pm_known s2) /\ y <> u /\ mf y u = true /\ e = (y, r)).
    { intros e. unfold es. rewrite in_flat_map. split.
      - intros [y [Hy He]]. unfold loop_edges in He. apply in_app_iff in He. destruct He as [He|He].
        + destruct (negb (N.eqb y u) && mf y u) eqn:Cnd; [|destruct He].
          destruct He as [<-|[]]. apply andb_true_iff in Cnd. destruct Cnd as [Cn Cm].
          apply negb_true_iff, N.eqb_neq in Cn. exists y. auto.
        + destruct (negb (N.eqb y r) && mf y r) eqn:Cnd; [|destruct He].
          exfalso. apply andb_true_iff in Cnd. destruct Cnd as [Cn Cm].
          apply negb_true_iff, N.eqb_neq in Cn. apply Cn.
          apply (H1 y (u, r)); auto. apply (c_U _ _ C2). exact Hy.
      - intros [y [Hy [Hne [Hm ->]]]]. exists y. split; [exact Hy|]. unfold loop_edges. apply in_app_iff. left.
        apply N.eqb_neq in Hne. rewrite Hne, Hm. simpl. left. reflexivity. }
    split; [|split].
    - constructor.
      + intros x r'. rewrite add_edges_roles, F1. simpl. rewrite set_add_In, Hes. split.
        * intros [[y [Hy [Hne [Hm E]]]]|[E|Hin]].
          -- inversion E; subst. split; [exact Hy|]. exists u. split; [apply in_app_iff; right; left; reflexivity | auto].
          -- inversion E; subst. split; [exact Hku|]. exists u. split; [apply in_app_iff; right; left; reflexivity | auto].
          -- apply (c_roles _ _ C2) in Hin. destruct Hin as [Hk [u' [Hl Hg]]]. split; [exact Hk|].
             exists u'. split; [apply in_app_iff; left; exact Hl | exact Hg].
        * intros [Hk [u' [Hl Hg]]]. apply in_app_iff in Hl. destruct Hl as [Hl|[E|[]]].
          -- right. right. apply (c_roles _ _ C2). split; [exact Hk|]. exists u'. auto.
          -- inversion E; subst u' r'. destruct (N.eq_dec x u) as [->|Hne]; [right; left; reflexivity|].
             left. exists x. destruct Hg as [Hg|Hg]; [contradiction|]. auto.
      + intros e. rewrite add_edges_users, add_edges_roles. simpl. rewrite !set_add_In, (c_users _ _ C2). tauto.
      + intros u' r' Hl. rewrite F1. simpl. apply in_app_iff in Hl. destruct Hl as [Hl|[E|[]]].
        * apply (c_lk _ _ C2 _ _ Hl).
        * inversion E; subst. auto.
      + rewrite F1. simpl. apply (c_U _ _ C2).
      + intros e He. apply in_app_iff in He. destruct He as [He|[<-|[]]]; [apply (c_A _ _ C); exact He | exact Ha].
      + rewrite F1. simpl. apply (c_ndk _ _ C2).
      + apply add_edges_NoDup; simpl; apply set_add_NoDup; [apply (c_ndr _ _ C2) | apply (c_ndu _ _ C2)].
      + apply add_edges_NoDup; simpl; apply set_add_NoDup; [apply (c_ndr _ _ C2) | apply (c_ndu _ _ C2)].
    - rewrite F2. simpl. rewrite L2, L1. reflexivity.
    - rewrite F3. simpl. rewrite M2, M1. reflexivity.
  Qed.

  (* a path of grants that starts at a known name runs over materialised edges *)
  Lemma grant_path_known : forall L s, canon L s -> forall k a b,
    path (grant mf L) k a b -> In a (pm_known s) -> path (succ_edge (pm_succ s)) k a b.
  Proof.
    intros L s C k a b P. induction P as [a|k a r c G _ IH]; intros Hk; [constructor|].
    econstructor.
    - unfold succ_edge. apply pm_succ_In. apply (c_roles _ _ C). split; [exact Hk | exact G].
    - apply IH. destruct G as [u [Hl _]]. apply (c_lk _ _ C _ _ Hl).
  Qed.

  Lemma has_link_canon : forall L s a b, canon L s -> In a U -> In b U ->
    canon L (snd (pm_has_link mf s a b)) /\
    pm_links (snd (pm_has_link mf s a b)) = pm_links s /\ pm_max (snd (pm_has_link mf s a b)) = pm_max s /\
    (fst (pm_has_link mf s a b) = true <-> exists k, k < pm_max s /\ path (grant mf L) k a b).
  Proof.
    intros L s a b C Ha Hb. unfold pm_has_link.
    destruct (get_role_canon L s a C Ha) as [C1 [K1 [L1 M1]]].
    set (s1 := pm_get_role mf s a) in *.
    destruct (get_role_canon L s1 b C1 Hb) as [C2 [K2 [L2 M2]]].
    set (s2 := pm_get_role mf s1 b) in *. simpl.
    split; [exact C2|]. split; [congruence|]. split; [congruence|].
    rewrite lvl_single. rewrite M2, M1. split; intros [k [Hk P]]; exists k; (split; [exact Hk|]).
    - eapply path_impl; [|exact P]. intros x y E. unfold succ_edge in E. apply pm_succ_In in E.
      apply (c_roles _ _ C2) in E. tauto.
    - apply (grant_path_known L s2 C2 _ _ _ P). apply K2. left. apply K1. right. reflexivity.
  Qed.

  Lemma get_roles_canon : forall L s x, canon L s -> In x U ->
    canon L (snd (pm_get_roles mf s x)) /\ pm_links (snd (pm_get_roles mf s x)) = pm_links s /\
    pm_max (snd (pm_get_roles mf s x)) = pm_max s /\
    (forall r, In r (fst (pm_get_roles mf s x)) <-> grant mf L x r).
  Proof.
    intros L s x C Hx. unfold pm_get_roles. destruct (get_role_canon L s x C Hx) as [C1 [K1 [L1 M1]]]. simpl.
    split; [exact C1|]. split; [exact L1|]. split; [exact M1|]. intros r. split.
    - intro H. apply pm_succ_In, (c_roles _ _ C1) in H. tauto.
    - intro G. apply pm_succ_In, (c_roles _ _ C1). split; [apply K1; right; reflexivity | exact G].
  Qed.

  Lemma get_users_canon : forall L s x, canon L s -> In x U ->
    canon L (snd (pm_get_users mf s x)) /\ pm_links (snd (pm_get_users mf s x)) = pm_links s /\
    pm_max (snd (pm_get_users mf s x)) = pm_max s.
  Proof.
    intros L s x C Hx. unfold pm_get_users. destruct (get_role_canon L s x C Hx) as [C1 [K1 [L1 M1]]]. simpl. auto.
  Qed.

  (* ---- deletion, under the guard ---- *)
  Lemma grantsb_spec : forall L x r, grantsb mf L x r = true <-> grant mf L x r.
  Proof.
    intros L x r. unfold grantsb, grant. rewrite existsb_exists. split.
    - intros [[u r'] [Hin Hc]]. simpl in Hc. apply andb_true_iff in Hc. destruct Hc as [Hr Hg].
      apply N.eqb_eq in Hr. subst r'. exists u. split; [exact Hin|].
      apply orb_true_iff in Hg. destruct Hg as [Hg|Hg]; [left; apply N.eqb_eq; exact Hg | right; exact Hg].
    - intros [u [Hin Hg]]. exists (u, r). split; [exact Hin|]. simpl. rewrite N.eqb_refl. simpl.
      apply orb_true_iff. destruct Hg as [->|Hg]; [left; apply N.eqb_refl | right; exact Hg].
  Qed.

  Lemma del_loop_ok : forall u r l s,
    NoDup l -> NoDup (pm_roles s) -> NoDup (pm_users s) ->
    (forall e, In e (pm_users s) <-> In e (pm_roles s)) ->
    (forall y, In y l -> y <> u -> mf y u = true -> In (y, r) (pm_roles s)) ->
    (forall y, In y l -> y <> r -> mf y r = true -> False) ->
    exists s', fold_left (del_loop_step mf u r) l (s, None) = (s', None) /\
      (forall e, In e (pm_roles s') <->
                 In e (pm_roles s) /\ ~ exists y, In y l /\ y <> u /\ mf y u = true /\ e = (y, r)) /\
      (forall e, In e (pm_users s') <-> In e (pm_roles s')) /\
      NoDup (pm_roles s') /\ NoDup (pm_users s') /\
      pm_known s' = pm_known s /\ pm_links s' = pm_links s /\ pm_max s' = pm_max s.
  Proof.
    intros u r l. induction l as [|y l IH]; intros s Nl N1 N2 Us Hp Hv; simpl.
    - exists s. split; [reflexivity|]. split; [|split; [exact Us | repeat split; assumption || reflexivity]].
      intros e. split; [intro H; split; [exact H | intros [y [[] _]]] | intros [H _]; exact H].
    - inversion Nl as [|? ? Hy Nl']; subst.
      assert (V : negb (N.eqb y r) && mf y r = false).
      { destruct (negb (N.eqb y r) && mf y r) eqn:Cnd; [|reflexivity]. exfalso.
        apply andb_true_iff in Cnd. destruct Cnd as [Cn Cm]. apply negb_true_iff, N.eqb_neq in Cn.
        apply (Hv y); auto. left; reflexivity. }
      destruct (negb (N.eqb y u) && mf y u) eqn:Cnd.
      + apply andb_true_iff in Cnd. destruct Cnd as [Cn Cm]. apply negb_true_iff, N.eqb_neq in Cn.
        assert (I1 : In (y, r) (pm_roles s)) by (apply Hp; auto; left; reflexivity).
        assert (I2 : In (y, r) (pm_users s)) by (apply Us; exact I1).
        destruct (edge_del_ok s y r N1 N2 I1 I2) as [s1 [E [R1 [U1 [N1' [N2' [K1 [L1 M1]]]]]]]].
        rewrite E, V.
        destruct (IH s1) as [s' [F [R [Us' [Nr [Nu [K [Lk Mx]]]]]]]]; auto.
        * intros e. rewrite U1, R1, Us. tauto.
        * intros y' Hy' Hne Hm. apply R1. split; [apply Hp; auto; right; exact Hy'|].
          intro E'. inversion E'; subst y'. contradiction.
        * intros y' Hy'. apply Hv. right. exact Hy'.
        * exists s'. split; [exact F|]. split; [|split; [exact Us'|]].
          -- intros e. rewrite R, R1. split.
             ++ intros [[Hin Hne] Hn]. split; [exact Hin|]. intros [y' [[<-|Hy'] [Hne' [Hm' E']]]].
                ** contradiction.
                ** apply Hn. exists y'. auto.
             ++ intros [Hin Hn]. split; [split; [exact Hin|]|].
                ** intro E'. apply Hn. exists y. split; [left; reflexivity | auto].
                ** intros [y' [Hy' Rest]]. apply Hn. exists y'. split; [right; exact Hy' | exact Rest].
          -- rewrite K, Lk, Mx, K1, L1, M1. auto.
      + rewrite V.
        destruct (IH s) as [s' [F [R [Us' Rest]]]]; auto.
        * intros y' Hy'. apply Hp. right. exact Hy'.
        * intros y' Hy'. apply Hv. right. exact Hy'.
        * exists s'. split; [exact F|]. split; [|split; [exact Us' | exact Rest]].
          intros e. rewrite R. split; intros [Hin Hn]; (split; [exact Hin|]).
          -- intros [y' [[<-|Hy'] [Hne' [Hm' E']]]].
             ++ apply N.eqb_neq in Hne'. rewrite Hne', Hm' in Cnd. discriminate.
             ++ apply Hn. exists y'. auto.
          -- intros [y' [Hy' Rest']]. apply Hn. exists y'. split; [right; exact Hy' | exact Rest'].
  Qed.

  Lemma delete_link_canon : forall L s u r, canon L s -> pm_links s = L -> NoDup L ->
    In u U -> In r U -> del_guard mf s u r = true ->
    exists s', pm_delete_link_x mf s u r = (s', None) /\
      canon (remove1 (u, r) L) s' /\ pm_links s' = remove1 (u, r) L /\ pm_max s' = pm_max s.
  Proof.
    intros L s u r C HL ND Hu Hr G. unfold pm_delete_link_x.
    destruct (mem link_eqb (u, r) (pm_links s)) eqn:M; simpl.
    2:{ apply mem_link_false in M. rewrite HL in M. rewrite (remove1_notin _ _ M).
        exists s. auto. }
    apply mem_link_In in M. rewrite HL in M.
    destruct (c_lk _ _ C _ _ M) as [Ku Kr].
    set (L' := remove1 (u, r) L). rewrite HL. fold L'.
    rewrite (get_role_known (set_links s L') u) by exact Ku.
    rewrite (get_role_known (set_links s L') r) by exact Kr.
    assert (I1 : In (u, r) (pm_roles s)) by (apply (c_roles _ _ C); split; [exact Ku | exists u; auto]).
    assert (I2 : In (u, r) (pm_users s)) by (apply (c_users _ _ C); exact I1).
    destruct (edge_del_ok (set_links s L') u r (c_ndr _ _ C) (c_ndu _ _ C) I1 I2)
      as [s3 [E [R3 [U3 [N1 [N2 [K3 [L3 M3]]]]]]]].
    rewrite E. simpl in R3, U3, K3, L3, M3.
    destruct (del_loop_ok u r (pm_known s3) s3) as [s' [F [R [Us [Nr [Nu [K [Lk Mx]]]]]]]]; auto.
    - rewrite K3. apply (c_ndk _ _ C).
    - intros e. rewrite U3, R3, (c_users _ _ C). tauto.
    - intros y Hy Hne Hm. apply R3. split.
      + apply (c_roles _ _ C). split; [rewrite <- K3; exact Hy | exists u; auto].
      + intro E'. inversion E'. contradiction.
    - intros y Hy Hne Hm. apply Hne. apply (H1 y (u, r)); auto; [apply (c_U _ _ C); rewrite <- K3; exact Hy | apply (c_A _ _ C); exact M].
    - exists s'. split; [exact F|].
      (* the guard as a proposition *)
      assert (Gp : forall y, In y (pm_known s) -> (y = u \/ mf y u = true) -> ~ grant mf L' y r).
      { intros y Hy Hg Hgr. unfold del_guard in G. rewrite forallb_forall in G. specialize (G y Hy).
        apply negb_true_iff, andb_false_iff in G. rewrite HL in G. fold L' in G. destruct G as [G|G].
        - apply orb_false_iff in G. destruct G as [G1 G2]. destruct Hg as [->|Hg]; [rewrite N.eqb_refl in G1|]; congruence.
        - apply grantsb_spec in Hgr. congruence. }
      assert (InL' : forall e, In e L' <-> In e L /\ e <> (u, r)) by (intro e; apply remove1_In_NoDup; exact ND).
      split; [|split; [rewrite Lk; exact L3 | rewrite Mx; exact M3]].
      constructor.
      + intros x r'. rewrite R, R3, K, K3. split.
        * intros [[Hin Hne] Hn]. apply (c_roles _ _ C) in Hin. destruct Hin as [Hk [u' [Hl Hg]]].
          split; [exact Hk|]. exists u'. split; [|exact Hg]. apply InL'. split; [exact Hl|].
          intro E'. inversion E'; subst u' r'.
          destruct (N.eq_dec x u) as [->|Hxu]; [apply Hne; reflexivity|].
          destruct Hg as [Hg|Hg]; [contradiction|].
          apply Hn. exists x. try rewrite K3. auto.
        * intros [Hk [u' [Hl Hg]]]. apply InL' in Hl. destruct Hl as [Hl Hne].
          assert (Hin : In (x, r') (pm_roles s)) by (apply (c_roles _ _ C); split; [exact Hk | exists u'; auto]).
          split; [split; [exact Hin|]|].
          -- intro E'. inversion E'; subst x r'. apply (Gp u Hk); [left; reflexivity|].
             exists u'. split; [apply InL'; auto | exact Hg].
          -- intros [y [Hy [Hyu [Hm E']]]]. inversion E'; subst y r'. apply (Gp x Hk); [right; exact Hm|].
             exists u'. split; [apply InL'; auto | exact Hg].
      + exact Us.
      + intros u' r' Hl. rewrite K, K3. apply InL' in Hl. apply (c_lk _ _ C). tauto.
      + rewrite K, K3. apply (c_U _ _ C).
      + intros e He. apply InL' in He. apply (c_A _ _ C). tauto.
      + rewrite K, K3. apply (c_ndk _ _ C).
      + exact Nr.
      + exact Nu.
  Qed.

  (* ---- histories ---- *)
  Lemma run_canon_adds : forall h L s, canon L s ->
    incl (hist_names h) U -> incl (hist_adds h) A -> no_deletes h = true ->
    canon (L ++ hist_adds h) (pm_run mf s h) /\
    pm_links (pm_run mf s h) = pm_links s ++ hist_adds h /\ pm_max (pm_run mf s h) = pm_max s.
  Proof.
    induction h as [|o h IH]; intros L s C HU HA ND.
    - simpl. rewrite !app_nil_r. auto.
    - simpl in ND. apply andb_true_iff in ND. destruct ND as [ND1 ND2].
      assert (HU' : incl (hist_names h) U) by (intros x Hx; apply HU; unfold hist_names; simpl; apply in_app_iff; right; exact Hx).
      assert (HA' : incl (hist_adds h) A) by (intros x Hx; apply HA; unfold hist_adds; simpl; apply in_app_iff; right; exact Hx).
      assert (HN : forall x, In x (op_names o) -> In x U) by (intros x Hx; apply HU; unfold hist_names; simpl; apply in_app_iff; left; exact Hx).
      change (pm_run mf s (o :: h)) with (pm_run mf (pm_step mf s o) h).
      destruct o as [u r|u r|a b|x|x]; simpl in HN; cbn [pm_step].
      + assert (Ha : In (u, r) A) by (apply HA; unfold hist_adds; simpl; left; reflexivity).
        destruct (add_link_canon L s u r C) as [C' [L' M']]; auto.
        destruct (IH _ _ C' HU' HA' ND2) as [C2 [L2 M2]].
        change (hist_adds (PAdd u r :: h)) with ((u, r) :: hist_adds h).
        replace (L ++ (u, r) :: hist_adds h) with ((L ++ [(u, r)]) ++ hist_adds h) by (rewrite <- app_assoc; reflexivity).
        split; [exact C2|]. split; [rewrite L2, L', <- app_assoc; reflexivity | congruence].
      + discriminate.
      + destruct (has_link_canon L s a b C) as [C' [L' [M' _]]]; auto.
        destruct (IH _ _ C' HU' HA' ND2) as [C2 [L2 M2]].
        change (hist_adds (PHas a b :: h)) with (hist_adds h).
        split; [exact C2|]. split; congruence.
      + destruct (get_roles_canon L s x C) as [C' [L' [M' _]]]; auto.
        destruct (IH _ _ C' HU' HA' ND2) as [C2 [L2 M2]].
        change (hist_adds (PRoles x :: h)) with (hist_adds h).
        split; [exact C2|]. split; congruence.
      + destruct (get_users_canon L s x C) as [C' [L' M']]; auto.
        destruct (IH _ _ C' HU' HA' ND2) as [C2 [L2 M2]].
        change (hist_adds (PUsers x :: h)) with (hist_adds h).
        split; [exact C2|]. split; congruence.
  Qed.

  Definition lstep (ls : list link) (o : pm_op) : list link :=
    match o with
    | PAdd u r => ls ++ [(u, r)]
    | PDel u r => remove1 (u, r) ls
    | _ => ls
    end.

  Lemma run_canon_guarded : forall h s, canon (pm_links s) s -> NoDup (pm_links s) ->
    incl (hist_names h) U -> incl (hist_adds h) A -> dels_guarded mf s h = true ->
    canon (fold_left lstep h (pm_links s)) (pm_run mf s h) /\
    pm_links (pm_run mf s h) = fold_left lstep h (pm_links s) /\
    pm_max (pm_run mf s h) = pm_max s /\ pm_errs mf s h = [].
  Proof.
    induction h as [|o h IH]; intros s C ND HU HA G.
    - simpl. auto.
    - simpl in G. apply andb_true_iff in G. destruct G as [G1 G2].
      assert (HU' : incl (hist_names h) U) by (intros x Hx; apply HU; unfold hist_names; simpl; apply in_app_iff; right; exact Hx).
      assert (HA' : incl (hist_adds h) A) by (intros x Hx; apply HA; unfold hist_adds; simpl; apply in_app_iff; right; exact Hx).
      assert (HN : forall x, In x (op_names o) -> In x U) by (intros x Hx; apply HU; unfold hist_names; simpl; apply in_app_iff; left; exact Hx).
      change (pm_run mf s (o :: h)) with (pm_run mf (pm_step mf s o) h).
      change (fold_left lstep (o :: h) (pm_links s)) with (fold_left lstep h (lstep (pm_links s) o)).
      destruct o as [u r|u r|a b|x|x]; simpl in HN; cbn [pm_step lstep] in G2 |- *.
      + assert (Ha : In (u, r) A) by (apply HA; unfold hist_adds; simpl; left; reflexivity).
        destruct (add_link_canon (pm_links s) s u r C) as [C' [L' M']]; auto.
        rewrite <- L' in C'. rewrite <- L'.
        destruct (IH _ C') as [C2 [L2 [M2 E2]]]; auto.
        * rewrite L'. apply NoDup_snoc; [exact ND | apply mem_link_false, negb_true_iff; exact G1].
        * split; [exact C2|]. split; [exact L2|]. split; [congruence | exact E2].
      + destruct (delete_link_canon (pm_links s) s u r C eq_refl ND) as [s' [E [C' [L' M']]]]; auto.
        cbn [pm_errs pm_step]. rewrite E in G2 |- *. cbn [fst snd] in G2 |- *. rewrite <- L' in C'. rewrite <- L'.
        destruct (IH _ C') as [C2 [L2 [M2 E2]]]; auto.
        * rewrite L'. apply remove1_NoDup. exact ND.
        * split; [exact C2|]. split; [exact L2|]. split; [congruence | exact E2].
      + destruct (has_link_canon (pm_links s) s a b C) as [C' [L' [M' _]]]; auto.
        rewrite <- L' in C'. rewrite <- L'.
        destruct (IH _ C') as [C2 [L2 [M2 E2]]]; auto; [rewrite L'; exact ND|].
        split; [exact C2|]. split; [exact L2|]. split; [congruence | exact E2].
      + destruct (get_roles_canon (pm_links s) s x C) as [C' [L' [M' _]]]; auto.
        rewrite <- L' in C'. rewrite <- L'.
        destruct (IH _ C') as [C2 [L2 [M2 E2]]]; auto; [rewrite L'; exact ND|].
        split; [exact C2|]. split; [exact L2|]. split; [congruence | exact E2].
      + destruct (get_users_canon (pm_links s) s x C) as [C' [L' M']]; auto.
        rewrite <- L' in C'. rewrite <- L'.
        destruct (IH _ C') as [C2 [L2 [M2 E2]]]; auto; [rewrite L'; exact ND|].
        split; [exact C2|]. split; [exact L2|]. split; [congruence | exact E2].
  Qed.
End Canon.

(* ------------------------------------------------------------------------------------------ *)
(* the boolean scope hypotheses give the section hypotheses                                    *)

Lemma roles_plain_spec : forall mf U A, roles_plain mf U A = true ->
  forall x l, In x U -> In l A -> mf x (snd l) = true -> x = snd l.
Proof.
  intros mf U A H x l Hx Hl Hm. unfold roles_plain in H. rewrite forallb_forall in H.
  specialize (H x Hx). rewrite forallb_forall in H. specialize (H l Hl).
  rewrite Hm in H. simpl in H. apply N.eqb_eq. exact H.
Qed.

Lemma mf_trans_spec : forall mf U A, mf_trans mf U A = true ->
  forall x p l, In x U -> In p U -> In l A -> mf x p = true -> mf p (fst l) = true -> mf x (fst l) = true.
Proof.
  intros mf U A H x p l Hx Hp Hl M1 M2. unfold mf_trans in H. rewrite forallb_forall in H.
  specialize (H x Hx). rewrite forallb_forall in H. specialize (H p Hp).
  rewrite forallb_forall in H. specialize (H l Hl). rewrite M1, M2 in H. simpl in H. exact H.
Qed.

Lemma hist_names_app : forall h1 h2, hist_names (h1 ++ h2) = hist_names h1 ++ hist_names h2.
Proof. intros. unfold hist_names. apply flat_map_app. Qed.
Lemma hist_adds_app : forall h1 h2, hist_adds (h1 ++ h2) = hist_adds h1 ++ hist_adds h2.
Proof. intros. unfold hist_adds. apply flat_map_app. Qed.

Lemma grant_equiv : forall mf L L', (forall l, In l L <-> In l L') ->
  forall x r, grant mf L x r <-> grant mf L' x r.
Proof.
  intros mf L L' H x r. unfold grant. split; intros [u [Hl Hg]]; exists u; (split; [apply H; exact Hl | exact Hg]).
Qed.

Lemma hist_links_fold : forall h, hist_links h = fold_left lstep h [].
Proof. reflexivity. Qed.

(* ---- add / query histories of any length, in any order ---- *)
Theorem has_link_iff_grants : forall mf m h a b,
  no_deletes h = true -> in_scope mf (h ++ [PHas a b]) = true ->
  (fst (pm_has_link mf (pm_run mf (pm_empty m) h) a b) = true
   <-> exists k, k < m /\ path (grant mf (hist_adds h)) k a b).
Proof.
  intros mf m h a b ND S. unfold in_scope in S. apply andb_true_iff in S. destruct S as [S1 S2].
  rewrite hist_adds_app in S1, S2. simpl in S1, S2. rewrite app_nil_r in S1, S2.
  set (U := hist_names (h ++ [PHas a b])) in *.
  pose proof (roles_plain_spec _ _ _ S1) as H1. pose proof (mf_trans_spec _ _ _ S2) as H2.
  destruct (run_canon_adds mf U (hist_adds h) H1 H2 h [] (pm_empty m)) as [C [L M]]; auto.
  - apply canon_empty.
  - unfold U. rewrite hist_names_app. apply incl_appl, incl_refl.
  - apply incl_refl.
  - simpl in C.
    assert (Ha : In a U) by (unfold U; rewrite hist_names_app; apply in_app_iff; right; simpl; auto).
    assert (Hb : In b U) by (unfold U; rewrite hist_names_app; apply in_app_iff; right; simpl; auto).
    destruct (has_link_canon mf U (hist_adds h) H1 H2 _ _ a b C Ha Hb) as [_ [_ [_ R]]].
    rewrite R, M. simpl. tauto.
Qed.

Theorem order_independent : forall mf m h h' a b,
  no_deletes h = true -> no_deletes h' = true ->
  in_scope mf (h ++ [PHas a b]) = true -> in_scope mf (h' ++ [PHas a b]) = true ->
  (forall l, In l (hist_adds h) <-> In l (hist_adds h')) ->
  fst (pm_has_link mf (pm_run mf (pm_empty m) h) a b) = fst (pm_has_link mf (pm_run mf (pm_empty m) h') a b).
Proof.
  intros mf m h h' a b N N' S S' E. apply eq_true_iff_eq.
  rewrite (has_link_iff_grants mf m h a b N S), (has_link_iff_grants mf m h' a b N' S').
  split; intros [k [Hk P]]; exists k; (split; [exact Hk|]); eapply path_iff; try exact P;
    intros x y; [symmetry|]; apply grant_equiv; exact E.
Qed.

(* a name that is not the user of an assignment and matches no assignment's pattern holds only itself *)
Theorem nonmatching_gain_nothing : forall mf m h a b,
  no_deletes h = true -> in_scope mf (h ++ [PHas a b]) = true ->
  (forall l, In l (hist_adds h) -> a <> fst l /\ mf a (fst l) = false) ->
  fst (pm_has_link mf (pm_run mf (pm_empty m) h) a b) = true -> a = b.
Proof.
  intros mf m h a b N S Hn T. apply (has_link_iff_grants mf m h a b N S) in T.
  destruct T as [k [_ P]]. destruct P as [a|k a r c [u [Hl Hg]] _]; [reflexivity|].
  destruct (Hn _ Hl) as [Hne Hf]. simpl in *. destruct Hg as [Hg|Hg]; congruence.
Qed.

(* every name matching the pattern of an assignment holds that assignment's role *)
Theorem matching_holds : forall mf m h a p r,
  no_deletes h = true -> in_scope mf (h ++ [PHas a r]) = true -> 2 <= m ->
  In (p, r) (hist_adds h) -> (a = p \/ mf a p = true) ->
  fst (pm_has_link mf (pm_run mf (pm_empty m) h) a r) = true.
Proof.
  intros mf m h a p r N S Hm Hl Hg. apply (has_link_iff_grants mf m h a r N S).
  exists 1. split; [lia|]. econstructor; [|constructor]. exists p. auto.
Qed.

(* ---- with deletions, under the guard ---- *)
Theorem delete_exact_partial : forall mf m h a b,
  in_scope mf (h ++ [PHas a b]) = true -> dels_guarded mf (pm_empty m) h = true ->
  pm_errs mf (pm_empty m) h = [] /\
  (fst (pm_has_link mf (pm_run mf (pm_empty m) h) a b) = true
   <-> exists k, k < m /\ path (grant mf (hist_links h)) k a b).
Proof.
  intros mf m h a b S G. unfold in_scope in S. apply andb_true_iff in S. destruct S as [S1 S2].
  rewrite hist_adds_app in S1, S2. simpl in S1, S2. rewrite app_nil_r in S1, S2.
  set (U := hist_names (h ++ [PHas a b])) in *.
  pose proof (roles_plain_spec _ _ _ S1) as H1. pose proof (mf_trans_spec _ _ _ S2) as H2.
  destruct (run_canon_guarded mf U (hist_adds h) H1 H2 h (pm_empty m)) as [C [L [M E]]]; auto.
  - apply canon_empty.
  - constructor.
  - unfold U. rewrite hist_names_app. apply incl_appl, incl_refl.
  - apply incl_refl.
  - split; [exact E|]. simpl in C.
    assert (Ha : In a U) by (unfold U; rewrite hist_names_app; apply in_app_iff; right; simpl; auto).
    assert (Hb : In b U) by (unfold U; rewrite hist_names_app; apply in_app_iff; right; simpl; auto).
    destruct (has_link_canon mf U (hist_adds h) H1 H2 _ _ a b C Ha Hb) as [_ [_ [_ R]]].
    rewrite R, M. simpl. rewrite hist_links_fold. tauto.
Qed.

Local Open Scope N_scope.
(* ---- what the current code does when two assignments grant one (name, role) pair ---- *)
(* names: 1, 2 patterns; 3 a concrete name matching both; 4 a role *)
Definition w_mf : name -> name -> bool := table_mf [(3, 1); (3, 2)].

Theorem delete_exact_refuted :
  (* two patterns granting one role: deleting one removes the other's grant, the second delete raises *)
  (let h := [PAdd 1 4; PAdd 2 4; PHas 3 4; PDel 2 4] in
   in_scope w_mf (h ++ [PHas 3 4; PDel 1 4]) = true /\
   hist_links h = [(1, 4)] /\ greach w_mf (hist_links h) 1 3 4 = true /\
   fst (pm_has_link w_mf (pm_run w_mf (pm_empty 10) h) 3 4) = false /\
   snd (pm_delete_link_x w_mf (pm_run w_mf (pm_empty 10) h) 1 4) = Some EKeyError) /\
  (* a pattern and a direct assignment: deleting the pattern removes the direct grant *)
  (let h := [PAdd 1 4; PAdd 3 4; PDel 1 4] in
   in_scope w_mf (h ++ [PHas 3 4]) = true /\
   hist_links h = [(3, 4)] /\
   fst (pm_has_link w_mf (pm_run w_mf (pm_empty 10) h) 3 4) = false /\
   snd (pm_delete_link_x w_mf (pm_run w_mf (pm_empty 10) h) 3 4) = Some EKeyError) /\
  (* ... and deleting the direct assignment removes the pattern's grant *)
  (let h := [PAdd 1 4; PAdd 3 4; PDel 3 4] in
   hist_links h = [(1, 4)] /\ greach w_mf (hist_links h) 1 3 4 = true /\
   fst (pm_has_link w_mf (pm_run w_mf (pm_empty 10) h) 3 4) = false).
Proof. vm_compute. repeat split; reflexivity. Qed.

(* the guard is exactly what fails there *)
Example delete_guard_fails :
  dels_guarded w_mf (pm_empty 10) [PAdd 1 4; PAdd 2 4; PHas 3 4; PDel 2 4] = false /\
  dels_guarded w_mf (pm_empty 10) [PAdd 1 4; PAdd 2 4; PDel 2 4; PHas 3 4] = true.
Proof. vm_compute. split; reflexivity. Qed.

(* transitivity of matching is needed: 3 ~ 2 ~ 1 but not 3 ~ 1; whether 3 holds role 4 depends on
   whether 2 was seen before 3 *)
Definition nt_mf : name -> name -> bool := table_mf [(3, 2); (2, 1)].
Example transitivity_needed :
  let h1 := [PAdd 1 4; PHas 2 4; PHas 3 4] in
  let h2 := [PAdd 1 4; PHas 3 4; PHas 2 4] in
  hist_adds h1 = hist_adds h2 /\
  roles_plain nt_mf (hist_names h1) (hist_adds h1) = true /\
  mf_trans nt_mf (hist_names h1) (hist_adds h1) = false /\
  fst (pm_has_link nt_mf (pm_run nt_mf (pm_empty 10) h1) 3 4) = true /\
  fst (pm_has_link nt_mf (pm_run nt_mf (pm_empty 10) h2) 3 4) = false.
Proof. vm_compute. repeat split; reflexivity. Qed.

Local Close Scope N_scope.

(* the executable spec function means bounded reachability over grants *)
Theorem greach_spec : forall mf L k a b,
  greach mf L k a b = true <-> exists j, j <= k /\ path (grant mf L) j a b.
Proof.
  intros mf L k. induction k as [|k IH]; intros a b; simpl; rewrite orb_true_iff, N.eqb_eq.
  - split.
    + intros [->|H]; [|discriminate]. exists 0. split; [lia | constructor].
    + intros [j [Hj Hp]]. left. destruct Hp; [reflexivity | lia].
  - rewrite existsb_exists. split.
    + intros [->|[[u r] [Hin Hc]]].
      * exists 0. split; [lia | constructor].
      * simpl in Hc. apply andb_true_iff in Hc. destruct Hc as [Hg Hr].
        apply IH in Hr. destruct Hr as [j [Hj Hp]]. exists (S j). split; [lia|].
        econstructor; [|exact Hp]. exists u. split; [exact Hin|].
        apply orb_true_iff in Hg. destruct Hg as [Hg|Hg]; [left; apply N.eqb_eq; exact Hg | right; exact Hg].
    + intros [j [Hj Hp]]. destruct Hp as [a|j a x c [u [Hl Hg]] Hp]; [left; reflexivity|].
      right. exists (u, x). split; [exact Hl|]. simpl. apply andb_true_iff. split.
      * apply orb_true_iff. destruct Hg as [->|Hg]; [left; apply N.eqb_refl | right; exact Hg].
      * apply IH. exists j. split; [lia | exact Hp].
Qed.

(* ------------------------------------------------------------------------------------------ *)
(* DomainManager with a domain matching function                                               *)

Lemma canon_equiv : forall mf U A L L' s, canon mf U A L s -> (forall e, In e L <-> In e L') -> canon mf U A L' s.
Proof.
  intros mf U A L L' s C E. destruct C as [cr cu cl cU cA n1 n2 n3]. constructor; auto.
  - intros x r. rewrite cr. split; intros [Hk G]; (split; [exact Hk|]);
      eapply grant_equiv; try exact G; intro l; [symmetry|]; apply E.
  - intros u r Hl. apply cl. apply E. exact Hl.
  - intros e He. apply cA. apply E. exact He.
Qed.

Lemma flat_aset : forall (c : name -> bool) (k : name) (x : link) (e : link) (m : list (name * list link)),
  let old := match alookup k m with Some l => l | None => [] end in
  In e (flat_map (fun p => if c (fst p) then snd p else []) (aset k (old ++ [x]) m)) <->
  In e (flat_map (fun p => if c (fst p) then snd p else []) m) \/ (c k = true /\ e = x).
Proof.
  intros c k x e m. induction m as [|[k' v'] m IH]; simpl.
  - destruct (c k); simpl; intuition congruence.
  - destruct (N.eqb k k') eqn:E; simpl.
    + apply N.eqb_eq in E. subst k'. destruct (c k); simpl.
      * rewrite !in_app_iff. simpl. intuition congruence.
      * intuition congruence.
    + rewrite !in_app_iff. simpl in IH. rewrite IH. tauto.
Qed.

Lemma alookup_map_cond : forall {V} (c : name -> bool) (f : V -> V) d (m : list (name * V)),
  alookup d (map (fun e => if c (fst e) then (fst e, f (snd e)) else e) m) =
  option_map (fun v => if c d then f v else v) (alookup d m).
Proof.
  intros V c f d m. induction m as [|[k v] m IH]; simpl; [reflexivity|].
  destruct (c k) eqn:Ck; simpl; destruct (N.eqb d k) eqn:E; auto; apply N.eqb_eq in E; subst; simpl; rewrite Ck; reflexivity.
Qed.

Section DomCanon.
  Variables mf dmf : name -> name -> bool.
  Variable U : list name.
  Variable A : list link.
  Variable Dm : list name.
  Variable m : nat.
  Hypothesis H1 : forall x l, In x U -> In l A -> mf x (snd l) = true -> x = snd l.
  Hypothesis H2 : forall x p l, In x U -> In p U -> In l A ->
    mf x p = true -> mf p (fst l) = true -> mf x (fst l) = true.
  Hypothesis Hrefl : forall d, In d Dm -> dmf d d = true.

  Definition pdm_inv (h : list pdm_op) (s : pdm_state) : Prop :=
    pdm_max s = m /\
    (forall d e, In e (pdm_dlinks dmf s d) <-> In e (pdm_adds_in dmf d h)) /\
    (forall d rm, alookup d (pdm_cache s) = Some rm ->
       In d Dm /\ canon mf U A (pdm_adds_in dmf d h) rm /\ pm_max rm = m).

  Lemma pdm_inv_empty : pdm_inv [] (pdm_empty m).
  Proof. split; [reflexivity|]. split; [intros d e; simpl; tauto | intros d rm H; discriminate]. Qed.

  Lemma add_all_canon : forall ls L s, canon mf U A L s ->
    (forall l, In l ls -> In (fst l) U /\ In (snd l) U /\ In l A) ->
    canon mf U A (L ++ ls) (pm_add_all mf s ls) /\ pm_max (pm_add_all mf s ls) = pm_max s.
  Proof.
    induction ls as [|[u r] ls IH]; intros L s C Hl; simpl.
    - rewrite app_nil_r. auto.
    - destruct (Hl (u, r)) as [Hu [Hr Ha]]; [left; reflexivity|]. simpl in Hu, Hr.
      destruct (add_link_canon mf U A H1 H2 L s u r C Hu Hr Ha) as [C' [_ M']].
      destruct (IH _ _ C') as [C2 M2]; [intros l Hin; apply Hl; right; exact Hin|].
      unfold pm_add_all in *. simpl.
      replace (L ++ (u, r) :: ls) with ((L ++ [(u, r)]) ++ ls) by (rewrite <- app_assoc; reflexivity).
      split; [exact C2 | congruence].
  Qed.

  Lemma adds_in_sub : forall d h u r, In (u, r) (pdm_adds_in dmf d h) ->
    In (u, r) (pdm_adds h) /\ In u (pdm_names h) /\ In r (pdm_names h).
  Proof.
    intros d h u r H. unfold pdm_adds_in in H. apply in_flat_map in H. destruct H as [o [Ho Hin]].
    destruct o as [u' r' d'|?|?|?|?]; try destruct Hin.
    destruct (N.eqb d' d || dmf d d'); [|destruct Hin]. destruct Hin as [E|[]]. inversion E; subst.
    unfold pdm_adds, pdm_names. rewrite !in_flat_map. repeat split.
    - exists (QAdd u r d'). simpl. auto.
    - exists (QAdd u r d'). simpl. auto.
    - exists (QAdd u r d'). simpl. auto.
  Qed.

  (* fetching (or building) the manager of a domain *)
  Lemma pdm_get_rm_inv : forall h s d0, pdm_inv h s -> In d0 Dm ->
    incl (pdm_names h) U -> incl (pdm_adds h) A ->
    let rm := fst (pdm_get_rm mf dmf s d0) in
    let s1 := snd (pdm_get_rm mf dmf s d0) in
    canon mf U A (pdm_adds_in dmf d0 h) rm /\ pm_max rm = m /\
    pdm_links s1 = pdm_links s /\ pdm_max s1 = pdm_max s /\
    (forall d, d <> d0 -> alookup d (pdm_cache s1) = alookup d (pdm_cache s)).
  Proof.
    intros h s d0 [Mx [Dl Ch]] Hd HU HA. unfold pdm_get_rm.
    destruct (alookup d0 (pdm_cache s)) as [rm|] eqn:C; simpl.
    - destruct (Ch d0 rm C) as [_ [Cn Mr]]. auto.
    - assert (B : canon mf U A ([] ++ pdm_dlinks dmf s d0) (pdm_build mf dmf s d0) /\
                  pm_max (pdm_build mf dmf s d0) = pm_max (pm_empty (pdm_max s))).
      { unfold pdm_build, pm_of_links. apply add_all_canon; [apply canon_empty|].
        intros [u r] Hin. apply Dl in Hin. apply adds_in_sub in Hin. destruct Hin as [Ha [Hu Hr]].
        simpl. auto. }
      destruct B as [B1 B2]. simpl in B1, B2. split; [|split; [congruence|]].
      + eapply canon_equiv; [exact B1 | apply Dl].
      + split; [reflexivity|]. split; [reflexivity|]. intros d Hne. rewrite alookup_app.
        destruct (alookup d (pdm_cache s)); [reflexivity|]. simpl.
        apply N.eqb_neq in Hne. rewrite Hne. reflexivity.
  Qed.

  Lemma pdm_dlinks_links : forall s s' d, pdm_links s' = pdm_links s -> pdm_dlinks dmf s' d = pdm_dlinks dmf s d.
  Proof. intros s s' d E. unfold pdm_dlinks, pdm_own. rewrite E. reflexivity. Qed.

  (* a query-like step: fetch the manager of d0, replace it by rm' with the same canonical links *)
  Lemma pdm_query_inv : forall h o s d0 rm', pdm_inv h s -> In d0 Dm ->
    incl (pdm_names h) U -> incl (pdm_adds h) A ->
    (forall d, pdm_adds_in dmf d (h ++ [o]) = pdm_adds_in dmf d h) ->
    canon mf U A (pdm_adds_in dmf d0 h) rm' -> pm_max rm' = m ->
    pdm_inv (h ++ [o]) (pdm_put (snd (pdm_get_rm mf dmf s d0)) d0 rm').
  Proof.
    intros h o s d0 rm' I Hd HU HA Same Cn Mr.
    destruct (pdm_get_rm_inv h s d0 I Hd HU HA) as [_ [_ [Lk [Mx Oth]]]].
    destruct I as [Mx0 [Dl Ch]]. split; [simpl; congruence|]. split.
    - intros d e. rewrite Same. rewrite <- Dl. unfold pdm_put.
      rewrite (pdm_dlinks_links s _ d); [tauto | simpl; exact Lk].
    - intros d rm. unfold pdm_put. simpl. rewrite Same. destruct (N.eq_dec d d0) as [->|Hne].
      + rewrite alookup_aset_eq. intro E; inversion E; subst. auto.
      + rewrite alookup_aset_neq by exact Hne. rewrite Oth by exact Hne. apply Ch.
  Qed.

  Lemma pdm_has_link_split : forall s a b d,
    pdm_has_link mf dmf s a b d =
    (fst (pm_has_link mf (fst (pdm_get_rm mf dmf s d)) a b),
     pdm_put (snd (pdm_get_rm mf dmf s d)) d (snd (pm_has_link mf (fst (pdm_get_rm mf dmf s d)) a b))).
  Proof.
    intros. unfold pdm_has_link. destruct (pdm_get_rm mf dmf s d) as [rm s1]. simpl.
    destruct (pm_has_link mf rm a b). reflexivity.
  Qed.
  Lemma pdm_get_roles_split : forall s x d,
    pdm_get_roles mf dmf s x d =
    (fst (pm_get_roles mf (fst (pdm_get_rm mf dmf s d)) x),
     pdm_put (snd (pdm_get_rm mf dmf s d)) d (snd (pm_get_roles mf (fst (pdm_get_rm mf dmf s d)) x))).
  Proof.
    intros. unfold pdm_get_roles. destruct (pdm_get_rm mf dmf s d) as [rm s1]. simpl.
    destruct (pm_get_roles mf rm x). reflexivity.
  Qed.
  Lemma pdm_get_users_split : forall s x d,
    pdm_get_users mf dmf s x d =
    (fst (pm_get_users mf (fst (pdm_get_rm mf dmf s d)) x),
     pdm_put (snd (pdm_get_rm mf dmf s d)) d (snd (pm_get_users mf (fst (pdm_get_rm mf dmf s d)) x))).
  Proof.
    intros. unfold pdm_get_users. destruct (pdm_get_rm mf dmf s d) as [rm s1]. simpl.
    destruct (pm_get_users mf rm x). reflexivity.
  Qed.

  Lemma adds_in_snoc : forall d h o, pdm_adds_in dmf d (h ++ [o]) =
    pdm_adds_in dmf d h ++ match o with QAdd u r d' => if N.eqb d' d || dmf d d' then [(u, r)] else [] | _ => [] end.
  Proof. intros. unfold pdm_adds_in. rewrite flat_map_app. simpl. rewrite app_nil_r. reflexivity. Qed.

  Lemma pdm_add_inv : forall h s u r d0, pdm_inv h s -> In u U -> In r U -> In (u, r) A ->
    pdm_inv (h ++ [QAdd u r d0]) (pdm_add_link mf dmf s u r d0).
  Proof.
    intros h s u r d0 [Mx [Dl Ch]] Hu Hr Ha. split; [exact Mx|]. split.
    - intros d e. rewrite adds_in_snoc, in_app_iff, <- Dl.
      unfold pdm_add_link, pdm_dlinks at 1, pdm_own at 1. simpl.
      rewrite in_app_iff.
      pose proof (flat_aset (fun d2 => negb (N.eqb d d2) && dmf d d2) d0 (u, r) e (pdm_links s)) as F.
      simpl in F. unfold pdm_own at 1. rewrite F. clear F.
      unfold pdm_dlinks. rewrite in_app_iff.
      destruct (N.eq_dec d d0) as [->|Hne].
      + rewrite alookup_aset_eq. rewrite N.eqb_refl. simpl. unfold pdm_own. rewrite in_app_iff. simpl.
        intuition congruence.
      + rewrite alookup_aset_neq by exact Hne. unfold pdm_own.
        assert (E1 : N.eqb d d0 = false) by (apply N.eqb_neq; exact Hne).
        assert (E2 : N.eqb d0 d = false) by (apply N.eqb_neq; congruence).
        rewrite E1, E2. simpl. destruct (dmf d d0); simpl; intuition congruence.
    - intros d rm. unfold pdm_add_link. simpl.
      rewrite (alookup_map_cond (fun d' => dmf d' d0) (fun rm => pm_add_link mf rm u r)).
      destruct (alookup d (pdm_cache s)) as [rm0|] eqn:C; simpl; [|discriminate].
      intro E; inversion E; subst rm. clear E. destruct (Ch d rm0 C) as [Hd [Cn Mr]].
      split; [exact Hd|]. rewrite adds_in_snoc. destruct (dmf d d0) eqn:Dd.
      + rewrite orb_true_r. destruct (add_link_canon mf U A H1 H2 _ rm0 u r Cn Hu Hr Ha) as [C' [_ M']].
        split; [exact C' | congruence].
      + assert (E2 : N.eqb d0 d = false).
        { apply N.eqb_neq. intro; subst d0. rewrite (Hrefl d Hd) in Dd. discriminate. }
        rewrite E2. simpl. rewrite app_nil_r. auto.
  Qed.

  Lemma pdm_run_inv : forall h2 h1 s, pdm_inv h1 s ->
    incl (pdm_names (h1 ++ h2)) U -> incl (pdm_adds (h1 ++ h2)) A -> incl (pdm_doms h2) Dm ->
    pdm_no_deletes h2 = true ->
    pdm_inv (h1 ++ h2) (pdm_run mf dmf s h2).
  Proof.
    induction h2 as [|o h2 IH]; intros h1 s I HU HA HD ND.
    - rewrite app_nil_r. exact I.
    - simpl in ND. apply andb_true_iff in ND. destruct ND as [ND1 ND2].
      replace (h1 ++ o :: h2) with ((h1 ++ [o]) ++ h2) in * by (rewrite <- app_assoc; reflexivity).
      change (pdm_run mf dmf s (o :: h2)) with (pdm_run mf dmf (pdm_step mf dmf s o) h2).
      assert (HD' : incl (pdm_doms h2) Dm) by (intros x Hx; apply HD; right; exact Hx).
      assert (Hd0 : In (qop_dom o) Dm) by (apply HD; left; reflexivity).
      assert (HU1 : incl (pdm_names (h1 ++ [o])) U).
      { intros x Hx. apply HU. unfold pdm_names in *. rewrite flat_map_app. apply in_app_iff. left. exact Hx. }
      assert (HA1 : incl (pdm_adds (h1 ++ [o])) A).
      { intros x Hx. apply HA. unfold pdm_adds in *. rewrite flat_map_app. apply in_app_iff. left. exact Hx. }
      assert (HU0 : incl (pdm_names h1) U).
      { intros x Hx. apply HU1. unfold pdm_names in *. rewrite flat_map_app. apply in_app_iff. left. exact Hx. }
      assert (HA0 : incl (pdm_adds h1) A).
      { intros x Hx. apply HA1. unfold pdm_adds in *. rewrite flat_map_app. apply in_app_iff. left. exact Hx. }
      assert (HN : forall x, In x (qop_names o) -> In x U).
      { intros x Hx. apply HU1. unfold pdm_names. rewrite flat_map_app. apply in_app_iff. right. simpl.
        rewrite app_nil_r. exact Hx. }
      apply IH; auto.
      destruct o as [u r d0|u r d0|a b d0|x d0|x d0]; simpl in HN, Hd0; cbn [pdm_step].
      + apply pdm_add_inv; auto. apply HA1. unfold pdm_adds. rewrite flat_map_app. apply in_app_iff. right. simpl. auto.
      + discriminate.
      + rewrite pdm_has_link_split. simpl.
        destruct (pdm_get_rm_inv h1 s d0 I Hd0 HU0 HA0) as [Cn [Mr _]].
        destruct (has_link_canon mf U A H1 H2 _ _ a b Cn) as [C' [_ [M' _]]]; auto.
        apply pdm_query_inv; auto; [intro d; rewrite adds_in_snoc, app_nil_r; reflexivity | exact (eq_trans M' Mr)].
      + rewrite pdm_get_roles_split. simpl.
        destruct (pdm_get_rm_inv h1 s d0 I Hd0 HU0 HA0) as [Cn [Mr _]].
        destruct (get_roles_canon mf U A H1 H2 _ _ x Cn) as [C' [_ [M' _]]]; auto.
        apply pdm_query_inv; auto; [intro d; rewrite adds_in_snoc, app_nil_r; reflexivity | exact (eq_trans M' Mr)].
      + rewrite pdm_get_users_split. simpl.
        destruct (pdm_get_rm_inv h1 s d0 I Hd0 HU0 HA0) as [Cn [Mr _]].
        destruct (get_users_canon mf U A H1 H2 _ _ x Cn) as [C' [_ M']]; auto.
        apply pdm_query_inv; auto; [intro d; rewrite adds_in_snoc, app_nil_r; reflexivity | exact (eq_trans M' Mr)].
  Qed.
End DomCanon.

Theorem domain_pattern_applies_exactly : forall mf dmf m h a b d,
  pdm_no_deletes h = true -> pdm_in_scope mf dmf (h ++ [QHas a b d]) = true ->
  (fst (pdm_has_link mf dmf (pdm_run mf dmf (pdm_empty m) h) a b d) = true
   <-> exists k, k < m /\ path (grant mf (pdm_adds_in dmf d h)) k a b).
Proof.
  intros mf dmf m h a b d ND S. unfold pdm_in_scope in S.
  apply andb_true_iff in S. destruct S as [S S3]. apply andb_true_iff in S. destruct S as [S1 S2].
  set (hq := h ++ [QHas a b d]) in *.
  pose proof (roles_plain_spec _ _ _ S1) as H1. pose proof (mf_trans_spec _ _ _ S2) as H2.
  assert (Hrefl : forall d', In d' (pdm_doms hq) -> dmf d' d' = true).
  { intros d' Hd. rewrite forallb_forall in S3. apply S3. exact Hd. }
  assert (HUh : incl (pdm_names h) (pdm_names hq)).
  { intros x Hx. unfold hq, pdm_names. rewrite flat_map_app. apply in_app_iff. left. exact Hx. }
  assert (HAh : incl (pdm_adds h) (pdm_adds hq)).
  { intros x Hx. unfold hq, pdm_adds. rewrite flat_map_app. apply in_app_iff. left. exact Hx. }
  assert (HDh : incl (pdm_doms h) (pdm_doms hq)).
  { intros x Hx. unfold hq, pdm_doms. rewrite map_app. apply in_app_iff. left. exact Hx. }
  pose proof (pdm_run_inv mf dmf (pdm_names hq) (pdm_adds hq) (pdm_doms hq) m H1 H2 Hrefl
                h [] (pdm_empty m) (pdm_inv_empty mf dmf _ _ _ m) HUh HAh HDh ND) as I.
  simpl in I. rewrite pdm_has_link_split. simpl.
  assert (Hd : In d (pdm_doms hq)).
  { unfold hq, pdm_doms. rewrite map_app. apply in_app_iff. right. simpl. auto. }
  destruct (pdm_get_rm_inv mf dmf (pdm_names hq) (pdm_adds hq) (pdm_doms hq) m H1 H2 h _ d I Hd HUh HAh)
    as [Cn [Mr _]].
  assert (Ha : In a (pdm_names hq)).
  { unfold hq, pdm_names. rewrite flat_map_app. apply in_app_iff. right. simpl. auto. }
  assert (Hb : In b (pdm_names hq)).
  { unfold hq, pdm_names. rewrite flat_map_app. apply in_app_iff. right. simpl. auto. }
  destruct (has_link_canon mf (pdm_names hq) (pdm_adds hq) H1 H2 _ _ a b Cn Ha Hb) as [_ [_ [_ R]]].
  rewrite R, Mr. tauto.
Qed.

(* the domain variant of the deletion defect: the same assignment recorded for d1 (atom 5) and for
   the pattern * (atom 6) lands twice in d1's cached manager *)
Local Open Scope N_scope.
Definition wd_mf : name -> name -> bool := table_mf [(1, 1); (2, 2)].
Definition wd_dmf : name -> name -> bool := table_mf [(5, 5); (6, 6); (5, 6)].
Theorem domain_delete_refuted :
  let h := [QAdd 1 2 5; QHas 1 2 5; QAdd 1 2 6; QDel 1 2 6] in
  let s := pdm_run wd_mf wd_dmf (pdm_empty 10) h in
  pdm_in_scope wd_mf wd_dmf (h ++ [QHas 1 2 5]) = true /\
  fst (pdm_has_link wd_mf wd_dmf (pdm_run wd_mf wd_dmf (pdm_empty 10) [QAdd 1 2 5; QHas 1 2 5; QAdd 1 2 6]) 1 2 5) = true /\
  pdm_own s 5 = [(1, 2)] /\                                   (* still recorded for d1 *)
  fst (pdm_has_link wd_mf wd_dmf s 1 2 5) = false /\          (* ... but no longer granted there *)
  snd (pdm_delete_link_x wd_mf wd_dmf s 1 2 5) = Some EKeyError.
Proof. vm_compute. repeat split; reflexivity. Qed.
Local Close Scope N_scope.
