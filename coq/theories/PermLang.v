(* PermLang.v — a small language for Enforcer.get_named_implicit_permissions_for_user (casbin/enforcer.py; C15), to which
   get_implicit_permissions_for_user delegates with "p".  translators/implperms.py renders the Python source into this syntax on
   every run (coq/gen/ImplPermsGen.v): every statement must be, as a syntax tree, one of the recognised steps; PermTie.v proves
   that the interpreter run on the regenerated program computes Mgmt.get_implicit_permissions.

   Each step's meaning, in Mgmt.v's vocabulary (trusted reading):
   - roles = self.get_implicit_roles_for_user(user, domain)      Mgmt.get_implicit_roles (that method is itself regenerated
     and tied by ImplTie.v); the state it leaves (per-domain nodes it created) is the state of the rest of the call;
   - roles.insert(0, user);  res = [];
   - domain_matching_func = self.get_role_manager().domain_matching_func;
     if domain and domain_matching_func != None: B       Mgmt's kinds register no domain matching function, so the attribute
     is None and B is skipped (configurations with a matching function are C15's configured strata, implementation level);
   - for role in roles: B;
   - permissions = self.get_named_permissions_for_user_in_domain(ptype, role, domain if filter_policy_dom else "")
     with ptype = "p" and filter_policy_dom left at its default True: checked to be get_filtered_named_policy(ptype, 0, user,
     domain), i.e. Policy.get_filtered over the p rules from field 0 with the values [role; domain] (the empty string is the
     atom 0, "no constraint");
   - res.extend(permissions);  return res. *)
From Coq Require Import List NArith Bool.
From PyCasbin Require Import Base Policy RoleGraph Mgmt.
Import ListNotations.
Local Open Scope N_scope.

Inductive pstmt : Type :=
| PRoles | PInsertUser | PInitRes | PDomFn
| PIfDomainAndFn (body : list pstmt)
| PPartial
| PForRole (body : list pstmt)
| PPerms | PExtend | PReturn.

Record pstate := { p_s : mstate; p_roles : list name; p_res : list rule; p_fn_is_none : bool; p_role : name; p_perms : list rule }.

Inductive pout := POk (st : pstate) | PErr (e : N).

Fixpoint pfor (f : pstate -> name -> pout) (l : list name) (st : pstate) : pout :=
  match l with
  | [] => POk st
  | x :: l' => match f st x with POk st' => pfor f l' st' | PErr e => PErr e end
  end.

Section Interp.
  Variable k : mkind.
  Variable u d : name.

  Definition mkP s roles res fn role perms : pstate :=
    {| p_s := s; p_roles := roles; p_res := res; p_fn_is_none := fn; p_role := role; p_perms := perms |}.

  Fixpoint pexec (n : nat) (st : pstate) (c : pstmt) {struct n} : pout :=
    match n with
    | O => PErr ESyntax
    | S n' =>
      match c with
      | PRoles => match get_implicit_roles k (p_s st) u d with
                  | Ok (roles, s') => POk (mkP s' roles (p_res st) (p_fn_is_none st) (p_role st) (p_perms st))
                  | Err e => PErr e
                  end
      | PInsertUser => POk (mkP (p_s st) (u :: p_roles st) (p_res st) (p_fn_is_none st) (p_role st) (p_perms st))
      | PInitRes => POk (mkP (p_s st) (p_roles st) [] (p_fn_is_none st) (p_role st) (p_perms st))
      | PDomFn => POk (mkP (p_s st) (p_roles st) (p_res st) true (p_role st) (p_perms st))
      | PIfDomainAndFn body => if negb (d =? 0) && negb (p_fn_is_none st) then pblock n' st body else POk st
      | PPartial => PErr ESyntax          (* never reached: no matching function in Mgmt's kinds *)
      | PForRole body => pfor (fun st0 r => pblock n' (mkP (p_s st0) (p_roles st0) (p_res st0) (p_fn_is_none st0) r (p_perms st0)) body)
                              (p_roles st) st
      | PPerms => match get_filtered (m_p (p_s st)) 0 [p_role st; d] with
                  | Ok l => POk (mkP (p_s st) (p_roles st) (p_res st) (p_fn_is_none st) (p_role st) l)
                  | Err e => PErr e
                  end
      | PExtend => POk (mkP (p_s st) (p_roles st) (p_res st ++ p_perms st) (p_fn_is_none st) (p_role st) (p_perms st))
      | PReturn => POk st
      end
    end
  with pblock (n : nat) (st : pstate) (b : list pstmt) {struct n} : pout :=
    match n with
    | O => PErr ESyntax
    | S n' =>
      match b with
      | [] => POk st
      | c :: r => match pexec n' st c with POk st' => pblock n' st' r | PErr e => PErr e end
      end
    end.

  Definition prun (n : nat) (body : list pstmt) (s : mstate) : result (list rule * mstate) :=
    match pblock n (mkP s [] [] false 0 []) body with
    | POk st => Ok (p_res st, p_s st)
    | PErr e => Err e
    end.
End Interp.
