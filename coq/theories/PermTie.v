(* PermTie.v — C15: Enforcer.get_named_implicit_permissions_for_user (ptype "p", default filter_policy_dom) regenerated from
   casbin/enforcer.py on this run (coq/gen/ImplPermsGen.v), executed by the interpreter of PermLang.v, computes
   Mgmt.get_implicit_permissions (result, state left by the role walk, errors). *)
From Coq Require Import List NArith Bool Lia.
From PyCasbin Require Import Base Policy RoleGraph Mgmt PermLang.
From PyCasbinGen Require Import ImplPermsGen.
Import ListNotations.
Local Open Scope N_scope.

Lemma role_loop d (f : pstate -> name -> pout) :
  (forall st r, match get_filtered (m_p (p_s st)) 0 [r; d] with
                | Ok l => exists st', f st r = POk st' /\ p_s st' = p_s st /\ p_res st' = p_res st ++ l
                | Err e => f st r = PErr e
                end) ->
  forall roles st,
    match perms_for (m_p (p_s st)) roles d with
    | Ok l => exists st', pfor f roles st = POk st' /\ p_s st' = p_s st /\ p_res st' = p_res st ++ l
    | Err e => pfor f roles st = PErr e
    end.
Proof.
  intro Hf. induction roles as [|r rest IH]; intro st.
  - cbn [perms_for pfor]. exists st. rewrite app_nil_r. repeat split.
  - cbn [perms_for pfor]. specialize (Hf st r).
    destruct (get_filtered (m_p (p_s st)) 0 [r; d]) as [a|e].
    + destruct Hf as (st1 & E1 & Hs1 & Hr1). rewrite E1. specialize (IH st1). rewrite Hs1 in IH.
      destruct (perms_for (m_p (p_s st)) rest d) as [b|e].
      * destruct IH as (st2 & E2 & Hs2 & Hr2). exists st2. split; [exact E2|]. split; [congruence|].
        rewrite Hr2, Hr1, app_assoc. reflexivity.
      * exact IH.
    + rewrite Hf. reflexivity.
Qed.

Ltac pcbn := cbn [pblock pexec mkP p_s p_roles p_res p_fn_is_none p_role p_perms].

Theorem tie_get_implicit_permissions k s u d :
  prun k u d 30 implicit_permissions_gen s = get_implicit_permissions k s u d.
Proof.
  unfold prun, get_implicit_permissions, implicit_permissions_gen. pcbn.
  destruct (get_implicit_roles k s u d) as [[roles s']|e]; [|reflexivity]. pcbn.
  rewrite andb_false_r. pcbn.
  match goal with |- context [pfor ?f (u :: roles) ?st0] => pose proof (role_loop d f) as HL; set (st := st0) end.
  lapply HL.
  - clear HL. intro HL. specialize (HL (u :: roles) st). change (p_s st) with s' in HL. change (p_res st) with (@nil rule) in HL.
    destruct (perms_for (m_p s') (u :: roles) d) as [l|e].
    + destruct HL as (st' & E & Hs & Hr). rewrite E. pcbn. rewrite Hs, Hr. reflexivity.
    + rewrite HL. reflexivity.
  - clear HL st. intros st r. pcbn.
    destruct (get_filtered (m_p (p_s st)) 0 [r; d]) as [l|e]; [|reflexivity]. pcbn.
    eexists. repeat split.
Qed.

Print Assumptions tie_get_implicit_permissions.
