(* PolLang.v — a small imperative language for the methods of casbin/model/policy.py that work on ONE
   assertion's rule list, and its interpreter.  translators/policy.py renders the Python source of those
   methods into this syntax on every run (coq/gen/PolicyGen.v); PolicyTie.v proves that the interpreter,
   run on the regenerated program, computes the hand-written functions of Policy.v.

   Values are dynamically typed like Python's, restricted to what these methods handle: booleans, integers,
   strings (interned atoms, "" = atom 0), lists of strings (a rule, a tuple of filter values), lists of rules,
   the empty list literal (PNil: Python's [] before its first append) and None.

   What the interpreter fixes as the meaning of the Python subset (trusted, stated in the evidence):
     * `x in l`, `l.index(x)`, `l.remove(x)` compare by value (==), first occurrence; remove / index of an
       absent element raise ValueError; l[i] with i outside -len..len-1 raises IndexError, negative i counts
       from the end; l[:i] is the first i elements (i >= 0);
     * a `for` statement evaluates its iterable once; the interpreter REFUSES (ENotModelled) a loop over the
       stored rule list whose body may change that list (Python would iterate the changing list);
     * `and` / `or` / `all(...)` short-circuit; an exception leaves every change made before it in place;
     * `try: B except Exception as e: print(e)` runs B and swallows any exception, keeping the changes;
     * int(s) of the atom for a decimal string "1".."999" is that number; of any other atom ValueError;
     * writes to assertion.policy_map and calls of the logger are dropped by the translator (nothing in the
       translated methods reads policy_map; a READ of it is rejected by the translator). *)
From Coq Require Import List NArith ZArith Bool.
From PyCasbin Require Import Base.
Import ListNotations.
Local Open Scope N_scope.

Definition ENotModelled : N := 90.

Inductive pv : Type :=
| PB (b : bool)
| PI (z : Z)
| PA (a : name)
| PL (l : list name)
| PLL (l : list rule)
| PNil
| PNone
| PUnbound.                              (* a local name that has not been assigned yet *)

Inductive cmpop := CEq | CNe | CLt | CLe | CGt | CGe.

Inductive ex : Type :=
| XVar (x : N)
| XPol                                   (* <the addressed assertion>.policy *)
| XB (b : bool)
| XI (z : Z)
| XS (a : name)                          (* a string constant ("" = 0) *)
| XNilLit                                (* [] *)
| XNoneLit
| XIn (a b : ex)
| XNot (a : ex)
| XAnd (a b : ex)
| XOr (a b : ex)
| XCmp (op : cmpop) (a b : ex)
| XIdx (l i : ex)
| XSliceTo (l i : ex)
| XLen (a : ex)
| XAdd (a b : ex)
| XSub (a b : ex)
| XInt (a : ex)
| XIndexOf (l x : ex)
| XAllEnum (i v : N) (l body : ex)       (* all(body for i, v in enumerate(l)) *)
| XFilterComp (x : N) (l cond : ex)      (* [x for x in l if cond] *)
| XSecOk                                 (* sec in self.keys() *)
| XPtypeOk                               (* ptype in self[sec] *)
| XSecIsP                                (* sec == "p" *)
| XPrioIndex                             (* assertion.priority_index *)
| XHasPrioTok                            (* "p_priority" in ast.tokens *)
| XPrioTokIdx                            (* ast.tokens.index("p_priority") *)
| XCallable (a : ex)                     (* callable(a) *)
| XUnsupported                           (* anything else the translator let through behind a guard *)
| XCall (m : N) (args : list ex).        (* self.<m>(sec, ptype, args...) of a method that changes nothing *)

Inductive st : Type :=
| SAssign (x : N) (e : ex)
| SBindAst                               (* <name> = self[sec][ptype] : KeyError unless both exist *)
| SPolAppend (e : ex)
| SPolRemove (e : ex)
| SPolSet (i e : ex)
| SLocAppend (x : N) (e : ex)
| SIf (c : ex) (a b : list st)
| SFor (x : N) (l : ex) (body : list st)
| SForEnum (i x : N) (l : ex) (body : list st)
| SForZip (x y : N) (l1 l2 : ex) (body : list st)
| SForDown (i : N) (from : ex) (body : list st)        (* for i in range(from, 0, -1) *)
| SReturn (e : ex)
| SRaise (code : N)
| SBreak
| STry (body : list st)                  (* try: body / except Exception as e: print(e) *)
| SCall (m : N) (args : list ex)         (* self.<m>(sec, ptype, args...) as a statement *)
| SNop.

Record meth := { m_params : list N; m_locals : list N; m_body : list st }.
Definition prog := list (N * meth).

Record penv := { e_sec_ok : bool; e_ptype_ok : bool; e_sec_p : bool; e_prio_index : Z; e_prio_tok : option nat }.

Record pst := { pol : list rule; loc : list (N * pv) }.

Inductive out : Type :=
| ONext (s : pst)
| ORet (v : pv) (s : pst)
| OBrk (s : pst)
| OErr (c : N) (s : pst).

(* ------------------------------------------------------------------ helpers *)
(* equality of variable / method identifiers: its own constant so that proofs can compute on identifiers while
   keeping N.eqb on DATA (atoms) folded *)
Definition key_eqb (a b : N) : bool :=
  match a, b with
  | N0, N0 => true
  | Npos p, Npos q => Pos.eqb p q
  | _, _ => false
  end.

Fixpoint lookup {A} (x : N) (l : list (N * A)) : option A :=
  match l with [] => None | (y, v) :: r => if key_eqb x y then Some v else lookup x r end.

(* the local-variable table of a call has one slot per name the method binds (parameters first, then m_locals in
   the translator's order); an assignment overwrites the slot in place, so the SHAPE of the table never changes *)
Fixpoint upd (x : N) (v : pv) (l : list (N * pv)) : list (N * pv) :=
  match l with
  | [] => [(x, v)]
  | (y, w) :: r => if key_eqb x y then (y, v) :: r else (y, w) :: upd x v r
  end.
Definition set_loc (x : N) (v : pv) (s : pst) : pst := {| pol := pol s; loc := upd x v (loc s) |}.
Definition set_pol (p : list rule) (s : pst) : pst := {| pol := p; loc := loc s |}.

Definition as_rules (v : pv) : option (list rule) :=
  match v with PLL l => Some l | PNil => Some [] | _ => None end.
Definition as_names_pv (v : pv) : option (list name) :=
  match v with PL l => Some l | PNil => Some [] | _ => None end.

Definition digit_atom (a : name) : bool := (0 <? a) && (a <? 1000).

(* Python index normalisation: Some position, or None = IndexError *)
Definition norm_idx (len : nat) (z : Z) : option nat :=
  let z' := if (z <? 0)%Z then (z + Z.of_nat len)%Z else z in
  if (z' <? 0)%Z then None else if (z' <? Z.of_nat len)%Z then Some (Z.to_nat z') else None.

Definition zcmp (op : cmpop) (a b : Z) : bool :=
  match op with
  | CEq => (a =? b)%Z | CNe => negb (a =? b)%Z | CLt => (a <? b)%Z | CLe => (a <=? b)%Z
  | CGt => (b <? a)%Z | CGe => (b <=? a)%Z
  end.

Definition pv_eqb (a b : pv) : option bool :=
  match a, b with
  | PB x, PB y => Some (Bool.eqb x y)
  | PI x, PI y => Some (x =? y)%Z
  | PA x, PA y => Some (x =? y)
  | PL x, PL y => Some (rule_eqb x y)
  | PL x, PNil | PNil, PL x => Some (match x with [] => true | _ => false end)
  | PLL x, PLL y => Some (list_eqb rule_eqb x y)
  | PLL x, PNil | PNil, PLL x => Some (match x with [] => true | _ => false end)
  | PNil, PNil => Some true
  | PNone, PNone => Some true
  | _, _ => None                           (* comparisons between kinds these methods never make *)
  end.

Definition cmp (op : cmpop) (a b : pv) : result bool :=
  match op, a, b with
  | _, PI x, PI y => Ok (zcmp op x y)
  | CEq, _, _ => match pv_eqb a b with Some r => Ok r | None => Err ENotModelled end
  | CNe, _, _ => match pv_eqb a b with Some r => Ok (negb r) | None => Err ENotModelled end
  | _, _, _ => Err EType
  end.

Definition truth (v : pv) : result bool :=
  match v with PB b => Ok b | _ => Err ENotModelled end.

Definition py_in (a b : pv) : result bool :=
  match a with
  | PA x => match as_names_pv b with Some l => Ok (mem N.eqb x l) | None => Err ENotModelled end
  | PL r => match as_rules b with Some l => Ok (mem rule_eqb r l) | None => Err ENotModelled end
  | PNil => match as_rules b with Some l => Ok (mem rule_eqb [] l) | None => Err ENotModelled end
  | _ => Err ENotModelled
  end.

Definition py_idx (l i : pv) : result pv :=
  match i with
  | PI z =>
      match l with
      | PL r => match norm_idx (length r) z with
                | Some k => match nth_error r k with Some a => Ok (PA a) | None => Err EIndex end
                | None => Err EIndex end
      | PLL r => match norm_idx (length r) z with
                 | Some k => match nth_error r k with Some a => Ok (PL a) | None => Err EIndex end
                 | None => Err EIndex end
      | PNil => Err EIndex
      | _ => Err EType
      end
  | _ => Err EType
  end.

Definition py_slice_to (l i : pv) : result pv :=
  match i with
  | PI z => if (z <? 0)%Z then Err ENotModelled else
      match l with
      | PL r => Ok (PL (firstn (Z.to_nat z) r))
      | PLL r => Ok (PLL (firstn (Z.to_nat z) r))
      | PNil => Ok PNil
      | _ => Err EType
      end
  | _ => Err EType
  end.

Definition py_len (v : pv) : result pv :=
  match v with
  | PL r => Ok (PI (Z.of_nat (length r)))
  | PLL r => Ok (PI (Z.of_nat (length r)))
  | PNil => Ok (PI 0%Z)
  | _ => Err EType
  end.

Definition py_int (v : pv) : result pv :=
  match v with
  | PA a => if digit_atom a then Ok (PI (Z.of_N a)) else Err EValue
  | PI z => Ok (PI z)
  | _ => Err EType
  end.

Definition py_index_of (l x : pv) : result pv :=
  match x with
  | PL r => match as_rules l with
            | Some rs => match index_of rule_eqb r rs with Some i => Ok (PI (Z.of_nat i)) | None => Err EValue end
            | None => Err ENotModelled end
  | PNil => match as_rules l with
            | Some rs => match index_of rule_eqb [] rs with Some i => Ok (PI (Z.of_nat i)) | None => Err EValue end
            | None => Err ENotModelled end
  | PA a => match as_names_pv l with
            | Some ns => match index_of N.eqb a ns with Some i => Ok (PI (Z.of_nat i)) | None => Err EValue end
            | None => Err ENotModelled end
  | _ => Err ENotModelled
  end.

Definition as_rule (v : pv) : option rule :=
  match v with PL r => Some r | PNil => Some [] | _ => None end.

Definition py_append (l x : pv) : result pv :=
  match l, x with
  | PNil, PA a => Ok (PL [a])
  | PL r, PA a => Ok (PL (r ++ [a]))
  | PNil, PL a => Ok (PLL [a])
  | PLL r, PL a => Ok (PLL (r ++ [a]))
  | PLL r, PNil => Ok (PLL (r ++ [[]]))
  | _, _ => Err ENotModelled
  end.

(* the elements of an iterable *)
Definition items (v : pv) : result (list pv) :=
  match v with
  | PL r => Ok (map PA r)
  | PLL r => Ok (map PL r)
  | PNil => Ok []
  | _ => Err EType
  end.

Fixpoint enum_from {A} (k : nat) (l : list A) : list (nat * A) :=
  match l with [] => [] | x :: r => (k, x) :: enum_from (S k) r end.

Fixpoint zip {A B} (l1 : list A) (l2 : list B) : list (A * B) :=
  match l1, l2 with x :: r1, y :: r2 => (x, y) :: zip r1 r2 | _, _ => [] end.

(* range(from, 0, -1) = from, from-1, ..., 1 *)
Fixpoint down_from (n : nat) : list Z :=
  match n with O => [] | S k => Z.of_nat n :: down_from k end.

Fixpoint for_each {A} (f : A -> pst -> out) (l : list A) (s : pst) : out :=
  match l with
  | [] => ONext s
  | v :: r => match f v s with
              | ONext s' => for_each f r s'
              | OBrk s' => ONext s'
              | o => o
              end
  end.

(* all(...) with short-circuit *)
Fixpoint all_each {A} (f : A -> result bool) (l : list A) : result bool :=
  match l with
  | [] => Ok true
  | v :: r => match f v with
              | Ok true => all_each f r
              | Ok false => Ok false
              | Err c => Err c
              end
  end.

(* list comprehension with a condition: the first exception aborts *)
Fixpoint filter_each {A} (f : A -> result bool) (l : list A) : result (list A) :=
  match l with
  | [] => Ok []
  | v :: r => match f v with
              | Ok b => match filter_each f r with
                        | Ok out => Ok (if b then v :: out else out)
                        | Err c => Err c
                        end
              | Err c => Err c
              end
  end.

(* ------------------------------------------------------------------ purity (syntactic) *)
Fixpoint ex_mentions_pol (e : ex) : bool :=
  match e with
  | XPol => true
  | XIn a b | XAnd a b | XOr a b | XCmp _ a b | XIdx a b | XSliceTo a b | XAdd a b | XSub a b | XIndexOf a b =>
      ex_mentions_pol a || ex_mentions_pol b
  | XNot a | XLen a | XInt a | XCallable a => ex_mentions_pol a
  | XAllEnum _ _ l b | XFilterComp _ l b => ex_mentions_pol l || ex_mentions_pol b
  | XCall _ args => true
  | _ => false
  end.

Fixpoint st_pure (c : st) : bool :=
  match c with
  | SPolAppend _ | SPolRemove _ | SPolSet _ _ | SCall _ _ => false
  | SIf _ a b => forallb st_pure a && forallb st_pure b
  | SFor _ _ b | SForEnum _ _ _ b | SForZip _ _ _ _ b | SForDown _ _ b | STry b => forallb st_pure b
  | _ => true
  end.
Definition block_pure (b : list st) : bool := forallb st_pure b.

Fixpoint eval_args (ev : ex -> result pv) (l : list ex) : result (list pv) :=
  match l with
  | [] => Ok []
  | a :: r => rbind (ev a) (fun va => rbind (eval_args ev r) (fun vr => Ok (va :: vr)))
  end.

(* ------------------------------------------------------------------ the interpreter *)
Section Interp.
  Variable P : prog.
  Variable E : penv.

  Fixpoint bind_params (ps : list N) (vs : list pv) (locals : list N) : option (list (N * pv)) :=
    match ps, vs with
    | [], [] => Some (map (fun x => (x, PUnbound)) locals)
    | p :: ps', v :: vs' => match bind_params ps' vs' locals with Some r => Some ((p, v) :: r) | None => None end
    | _, _ => None
    end.

  Fixpoint eval (n : nat) (s : pst) (e : ex) {struct n} : result pv :=
    match n with
    | O => Err EFuel
    | S n' =>
      let ev := eval n' s in
      match e with
      | XVar x => match lookup x (loc s) with Some PUnbound | None => Err EName | Some v => Ok v end
      | XPol => if e_sec_ok E && e_ptype_ok E then Ok (PLL (pol s)) else Err EKeyError
      | XB b => Ok (PB b)
      | XI z => Ok (PI z)
      | XS a => Ok (PA a)
      | XNilLit => Ok PNil
      | XNoneLit => Ok PNone
      | XIn a b => rbind (ev a) (fun va => rbind (ev b) (fun vb => rbind (py_in va vb) (fun r => Ok (PB r))))
      | XNot a => rbind (ev a) (fun va => rbind (truth va) (fun b => Ok (PB (negb b))))
      | XAnd a b => rbind (ev a) (fun va => rbind (truth va) (fun x => if x then ev b else Ok (PB false)))
      | XOr a b => rbind (ev a) (fun va => rbind (truth va) (fun x => if x then Ok (PB true) else ev b))
      | XCmp op a b => rbind (ev a) (fun va => rbind (ev b) (fun vb => rbind (cmp op va vb) (fun r => Ok (PB r))))
      | XIdx l i => rbind (ev l) (fun vl => rbind (ev i) (fun vi => py_idx vl vi))
      | XSliceTo l i => rbind (ev l) (fun vl => rbind (ev i) (fun vi => py_slice_to vl vi))
      | XLen a => rbind (ev a) py_len
      | XAdd a b => rbind (ev a) (fun va => rbind (ev b) (fun vb =>
                      match va, vb with PI x, PI y => Ok (PI (x + y)%Z) | _, _ => Err ENotModelled end))
      | XSub a b => rbind (ev a) (fun va => rbind (ev b) (fun vb =>
                      match va, vb with PI x, PI y => Ok (PI (x - y)%Z) | _, _ => Err ENotModelled end))
      | XInt a => rbind (ev a) py_int
      | XIndexOf l x => rbind (ev l) (fun vl => rbind (ev x) (fun vx => py_index_of vl vx))
      | XAllEnum i v l body =>
          rbind (ev l) (fun vl => rbind (items vl) (fun its =>
            rbind (all_each (fun '(k, it) =>
                     rbind (eval n' (set_loc v it (set_loc i (PI (Z.of_nat k)) s)) body) truth)
                   (enum_from 0 its)) (fun r => Ok (PB r))))
      | XFilterComp x l cond =>
          rbind (ev l) (fun vl =>
            match vl with
            | PLL rs => rbind (filter_each (fun r => rbind (eval n' (set_loc x (PL r) s) cond) truth) rs)
                          (fun out => Ok (PLL out))
            | PNil => Ok PNil
            | _ => Err ENotModelled
            end)
      | XSecOk => Ok (PB (e_sec_ok E))
      | XPtypeOk => if e_sec_ok E then Ok (PB (e_ptype_ok E)) else Err EType   (* None is not iterable *)
      | XSecIsP => Ok (PB (e_sec_p E))
      | XPrioIndex => if e_sec_ok E && e_ptype_ok E then Ok (PI (e_prio_index E)) else Err EKeyError
      | XHasPrioTok => Ok (PB (match e_prio_tok E with Some _ => true | None => false end))
      | XPrioTokIdx => match e_prio_tok E with Some k => Ok (PI (Z.of_nat k)) | None => Err EValue end
      | XCallable a => rbind (ev a) (fun va => match va with PUnbound => Err EName | _ => Ok (PB false) end)
      | XUnsupported => Err ENotModelled
      | XCall m args =>
          match lookup m P with
          | None => Err EAttr
          | Some mt =>
              if negb (block_pure (m_body mt)) then Err ENotModelled else
              rbind (eval_args ev args) (fun vs =>
                match bind_params (m_params mt) vs (m_locals mt) with
                | None => Err EType
                | Some lc =>
                    match block n' {| pol := pol s; loc := lc |} (m_body mt) with
                    | ORet v _ => Ok v
                    | ONext _ => Ok PNone
                    | OBrk _ => Err ENotModelled
                    | OErr c _ => Err c
                    end
                end)
          end
      end
    end

  with exec (n : nat) (s : pst) (c : st) {struct n} : out :=
    match n with
    | O => OErr EFuel s
    | S n' =>
      let ev := eval n' s in
      match c with
      | SAssign x e => match ev e with Ok v => ONext (set_loc x v s) | Err c => OErr c s end
      | SBindAst => if e_sec_ok E && e_ptype_ok E then ONext s else OErr EKeyError s
      | SPolAppend e =>
          if negb (e_sec_ok E && e_ptype_ok E) then OErr EKeyError s else
          match ev e with
          | Ok v => match as_rule v with Some r => ONext (set_pol (pol s ++ [r]) s) | None => OErr ENotModelled s end
          | Err c => OErr c s
          end
      | SPolRemove e =>
          if negb (e_sec_ok E && e_ptype_ok E) then OErr EKeyError s else
          match ev e with
          | Ok v => match as_rule v with
                    | Some r => match remove_first rule_eqb r (pol s) with
                                | Some p' => ONext (set_pol p' s)
                                | None => OErr EValue s
                                end
                    | None => OErr ENotModelled s end
          | Err c => OErr c s
          end
      | SPolSet i e =>
          if negb (e_sec_ok E && e_ptype_ok E) then OErr EKeyError s else
          match ev i with
          | Ok (PI z) =>
              match ev e with
              | Ok v => match as_rule v, norm_idx (length (pol s)) z with
                        | Some r, Some k => ONext (set_pol (set_nth k r (pol s)) s)
                        | Some _, None => OErr EIndex s
                        | None, _ => OErr ENotModelled s
                        end
              | Err c => OErr c s
              end
          | Ok _ => OErr EType s
          | Err c => OErr c s
          end
      | SLocAppend x e =>
          match lookup x (loc s) with
          | None | Some PUnbound => OErr EName s
          | Some l => match ev e with
                      | Ok v => match py_append l v with Ok l' => ONext (set_loc x l' s) | Err c => OErr c s end
                      | Err c => OErr c s
                      end
          end
      | SIf c a b =>
          match rbind (ev c) truth with
          | Ok true => block n' s a
          | Ok false => block n' s b
          | Err c => OErr c s
          end
      | SFor x l body =>
          if ex_mentions_pol l && negb (block_pure body) then OErr ENotModelled s else
          match rbind (ev l) items with
          | Ok its => for_each (fun it s' => block n' (set_loc x it s') body) its s
          | Err c => OErr c s
          end
      | SForEnum i x l body =>
          if ex_mentions_pol l && negb (block_pure body) then OErr ENotModelled s else
          match rbind (ev l) items with
          | Ok its => for_each (fun '(k, it) s' => block n' (set_loc x it (set_loc i (PI (Z.of_nat k)) s')) body)
                        (enum_from 0 its) s
          | Err c => OErr c s
          end
      | SForZip x y l1 l2 body =>
          if (ex_mentions_pol l1 || ex_mentions_pol l2) && negb (block_pure body) then OErr ENotModelled s else
          match rbind (ev l1) items, rbind (ev l2) items with
          | Ok i1, Ok i2 => for_each (fun '(a, b) s' => block n' (set_loc y b (set_loc x a s')) body) (zip i1 i2) s
          | Err c, _ => OErr c s
          | _, Err c => OErr c s
          end
      | SForDown i from body =>
          match ev from with
          | Ok (PI z) => for_each (fun k s' => block n' (set_loc i (PI k) s') body) (down_from (Z.to_nat z)) s
          | Ok _ => OErr EType s
          | Err c => OErr c s
          end
      | SReturn e => match ev e with Ok v => ORet v s | Err c => OErr c s end
      | SRaise code => OErr code s
      | SBreak => OBrk s
      | STry body => match block n' s body with OErr _ s' => ONext s' | o => o end
      | SCall m args =>
          match lookup m P with
          | None => OErr EAttr s
          | Some mt =>
              match eval_args ev args with
              | Err c => OErr c s
              | Ok vs =>
                  match bind_params (m_params mt) vs (m_locals mt) with
                  | None => OErr EType s
                  | Some lc =>
                      match block n' {| pol := pol s; loc := lc |} (m_body mt) with
                      | ORet _ s' | ONext s' | OBrk s' => ONext (set_pol (pol s') s)
                      | OErr c s' => OErr c (set_pol (pol s') s)
                      end
                  end
              end
          end
      | SNop => ONext s
      end
    end

  with block (n : nat) (s : pst) (b : list st) {struct n} : out :=
    match n with
    | O => OErr EFuel s
    | S n' =>
      match b with
      | [] => ONext s
      | c :: r => match exec n' s c with
                  | ONext s' => block n' s' r
                  | o => o
                  end
      end
    end.

  (* a method call from outside: result value (None when the body falls off its end) and final rule list;
     an exception keeps the rule list as the method left it *)
  Definition run (n : nat) (m : N) (p : list rule) (args : list pv) : result pv * list rule :=
    match lookup m P with
    | None => (Err EAttr, p)
    | Some mt =>
        match bind_params (m_params mt) args (m_locals mt) with
        | None => (Err EType, p)
        | Some lc =>
            match block n {| pol := p; loc := lc |} (m_body mt) with
            | ORet v s => (Ok v, pol s)
            | ONext s => (Ok PNone, pol s)
            | OBrk s => (Err ENotModelled, pol s)
            | OErr c s => (Err c, pol s)
            end
        end
    end.
End Interp.
