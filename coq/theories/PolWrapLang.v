(* PolWrapLang.v — a small language for the p-rule wrappers of casbin/management_enforcer.py (add_named_policy,
   add_named_policies, remove_named_policy, remove_named_policies, remove_filtered_named_policy; C06 C07 C09).
   translators/polwrap.py renders the Python source into this syntax on every run (coq/gen/PolWrapGen.v); PolWrapTie.v proves
   that the interpreter run on the regenerated wrappers computes the corresponding step of Mgmt.step.

   Meaning fixed by the interpreter (trusted):
   - the rule a single-rule wrapper works on is `params[0]` when ONE list is given, else `list(params)`: the translator checks
     that the two branches of that test are the same statements on either spelling and renders them once, on "the rule";
   - self._add_policy / _add_policies / _remove_policy / _remove_policies / _remove_filtered_policy("p", ptype, ..) are
     Mgmt.i_add / i_add_many / i_remove / i_remove_many / i_remove_filtered (the methods themselves are regenerated and tied by
     InternalTie.v); an exception of the filtered removal ends the wrapper with that error;
   - `x = <call>; return x` and `return <call>` return the call's boolean together with the adapter calls and notifications
     it made. *)
From Coq Require Import List NArith Bool.
From PyCasbin Require Import Base Policy RoleGraph Mgmt.
Import ListNotations.
Local Open Scope N_scope.

Inductive pwcallee := WAdd | WAddMany | WRemove | WRemoveMany | WRemoveFiltered.
Inductive pwst : Type :=
| PWAssignCall (m : pwcallee)
| PWReturnVar
| PWReturnCall (m : pwcallee).

Section Interp.
  Variable k : mkind.
  Variable pt : N.
  Variable the_rule : rule.
  Variable rules_param : list rule.
  Variable fi : nat.
  Variable fvs : list name.

  Definition pwcall (s : mstate) (m : pwcallee) : result (mstate * bool * list acall * list wcall) :=
    match m with
    | WAdd => Ok (i_add k s pt the_rule)
    | WAddMany => Ok (i_add_many k s pt rules_param)
    | WRemove => Ok (i_remove k s pt the_rule)
    | WRemoveMany => Ok (i_remove_many k s pt rules_param)
    | WRemoveFiltered => i_remove_filtered k s pt fi fvs
    end.

  (* None = outside the language / fell off the end *)
  Fixpoint pwrun (s : mstate) (held : option (mstate * bool * list acall * list wcall)) (body : list pwst) : option (mstate * outp) :=
    match body with
    | [] => None
    | c :: r =>
      match c, held with
      | PWAssignCall m, None =>
          match pwcall s m with
          | Ok x => pwrun (fst (fst (fst x))) (Some x) r
          | Err e => Some (s, out_v (verr e))
          end
      | PWReturnVar, Some x => Some (wrap_b x)
      | PWReturnCall m, None =>
          match pwcall s m with
          | Ok x => Some (wrap_b x)
          | Err e => Some (s, out_v (verr e))
          end
      | _, _ => None
      end
    end.

  Definition pwrapper (body : list pwst) (s : mstate) : option (mstate * outp) := pwrun s None body.
End Interp.
