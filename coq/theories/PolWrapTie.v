(* PolWrapTie.v — C06 C07 C09: the five p-rule wrappers of casbin/management_enforcer.py regenerated on this run
   (coq/gen/PolWrapGen.v), executed by the interpreter of PolWrapLang.v, are the corresponding steps of Mgmt.step on "p". *)
From Coq Require Import List NArith Bool.
From PyCasbin Require Import Base Policy RoleGraph Mgmt PolWrapLang.
From PyCasbinGen Require Import PolWrapGen.
Import ListNotations.
Local Open Scope N_scope.

Theorem tie_p_add k s r : pwrapper k PT_P r [] 0 [] add_named_policy_gen s = Some (step k s (OAdd PT_P r)).
Proof. unfold pwrapper, add_named_policy_gen. cbn [pwrun pwcall step]. destruct (i_add k s PT_P r) as [[[s1 b] ac] wc]. reflexivity. Qed.

Theorem tie_p_add_many k s rs : pwrapper k PT_P [] rs 0 [] add_named_policies_gen s = Some (step k s (OAddMany PT_P rs)).
Proof. reflexivity. Qed.

Theorem tie_p_remove k s r : pwrapper k PT_P r [] 0 [] remove_named_policy_gen s = Some (step k s (ORemove PT_P r)).
Proof. unfold pwrapper, remove_named_policy_gen. cbn [pwrun pwcall step]. destruct (i_remove k s PT_P r) as [[[s1 b] ac] wc]. reflexivity. Qed.

Theorem tie_p_remove_many k s rs : pwrapper k PT_P [] rs 0 [] remove_named_policies_gen s = Some (step k s (ORemoveMany PT_P rs)).
Proof. reflexivity. Qed.

Theorem tie_p_remove_filtered k s i vs :
  pwrapper k PT_P [] [] i vs remove_filtered_named_policy_gen s = Some (step k s (ORemoveFiltered PT_P i vs)).
Proof.
  unfold pwrapper, remove_filtered_named_policy_gen. cbn [pwrun pwcall step]. unfold p_remove_filtered.
  change (negb (has_pt k PT_P)) with false. change (is_g PT_P) with false. cbv iota.
  destruct (i_remove_filtered k s PT_P i vs) as [[[[s1 b] ac] wc]|e]; reflexivity.
Qed.

Print Assumptions tie_p_add.
Print Assumptions tie_p_add_many.
Print Assumptions tie_p_remove.
Print Assumptions tie_p_remove_many.
Print Assumptions tie_p_remove_filtered.
