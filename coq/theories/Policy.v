(* Policy.v — model of the ordered rule store of ONE policy type: casbin/model/policy.py operating on
   Assertion.policy (a Python list of rules).  A rule is a list of atoms (Base.rule); atom 0 is the
   empty string "" (the "no constraint" filter value); atoms 1..999 are the decimal strings "1".."999"
   (so that int(rule[priority_index]) is the atom itself); atoms >= 1000 are other interned strings.
   Mirrors the code AFTER the repairs recorded in known_findings.jsonl (fixed: C06/C07 entries).
   No proofs here. *)
From Coq Require Import List NArith Bool Arith.
From PyCasbin Require Import Base.
Import ListNotations.
Local Open Scope N_scope.

Definition store := list rule.

(* policy.py:106-113  `rule in policy` *)
Definition has_policy (l : store) (r : rule) : bool := mem rule_eqb r l.

(* nth field; None = IndexError *)
Definition field (r : rule) (i : nat) : option name := nth_error r i.

(* ---- add_policy (policy.py:115-147) ---- *)
(* the swap loop, seen from the end of the list: [rev_before] is the list before the new rule, reversed *)
Fixpoint bubble (pi : nat) (k : N) (r : rule) (rev_before : list rule) : list rule :=
  match rev_before with
  | [] => [r]
  | x :: rest =>
      match field x pi with
      | Some kx => if k <? kx then x :: bubble pi k r rest else r :: x :: rest
      | None => r :: x :: rest           (* int(...) of the neighbour raises: loop abandoned (outer except) *)
      end
  end.

Definition insert_by_priority (pi : nat) (l : store) (r : rule) : store :=
  match field r pi with
  | Some k => rev (bubble pi k r (rev l))
  | None => l ++ [r]                     (* IndexError caught by `except Exception: print(e)`; rule stays appended *)
  end.

(* prio = Some i  <->  sec == "p" and assertion.priority_index == i >= 0 *)
Definition add_policy (prio : option nat) (l : store) (r : rule) : store * bool :=
  if has_policy l r then (l, false)
  else match prio with
       | None => (l ++ [r], true)
       | Some pi => (insert_by_priority pi l r, true)
       end.

(* ---- add_policies (policy.py:149-159, repaired: rejects a batch that repeats a rule; inserts by priority) ---- *)
Fixpoint batch_addable (l : store) (seen : list rule) (rules : list rule) : bool :=
  match rules with
  | [] => true
  | r :: rest => negb (has_policy l r) && negb (mem rule_eqb r seen) && batch_addable l (r :: seen) rest
  end.

Fixpoint add_all (prio : option nat) (l : store) (rules : list rule) : store :=
  match rules with
  | [] => l
  | r :: rest => add_all prio (fst (add_policy prio l r)) rest
  end.

Definition add_policies (prio : option nat) (l : store) (rules : list rule) : store * bool :=
  if batch_addable l [] rules then (add_all prio l rules, true) else (l, false).

(* ---- remove_policy (policy.py:219-226) ---- *)
Definition remove_policy (l : store) (r : rule) : store * bool :=
  match remove_first rule_eqb r l with
  | None => (l, false)
  | Some l' => (l', negb (has_policy l' r))
  end.

(* ---- remove_policies (policy.py:228-238, repaired: the whole batch is checked before anything is
   removed; a batch that repeats a rule is refused like an absent rule) ---- *)
Fixpoint remove_present (l : store) (rules : list rule) : store :=
  match rules with
  | [] => l
  | r :: rest => match remove_first rule_eqb r l with
                 | Some l' => remove_present l' rest
                 | None => remove_present l rest
                 end
  end.

Definition remove_policies (l : store) (rules : list rule) : store * bool :=
  if forallb (has_policy l) rules && nodupb rule_eqb rules then (remove_present l rules, true) else (l, false).

(* ---- the filter predicate (policy.py:95-104, 262, 284) ---- *)
(* all(value == "" or rule[field_index + i] == value for i, value in enumerate(field_values));
   None = IndexError (a non-empty value reaches past the end of the rule; `all` stops at the first False) *)
Fixpoint filter_match (r : rule) (i : nat) (vs : list name) : option bool :=
  match vs with
  | [] => Some true
  | v :: rest =>
      if v =? 0 then filter_match r (S i) rest
      else match field r i with
           | None => None
           | Some x => if x =? v then filter_match r (S i) rest else Some false
           end
  end.

(* get_filtered_policy: list comprehension; first IndexError aborts *)
Fixpoint get_filtered (l : store) (i : nat) (vs : list name) : result store :=
  match l with
  | [] => Ok []
  | r :: rest =>
      match filter_match r i vs with
      | None => Err EIndex
      | Some b => match get_filtered rest i vs with
                  | Ok out => Ok (if b then r :: out else out)
                  | Err c => Err c
                  end
      end
  end.

(* remove_filtered_policy / _returns_effects share the loop: returns (kept, removed) *)
Fixpoint split_filtered (l : store) (i : nat) (vs : list name) : result (store * store) :=
  match l with
  | [] => Ok ([], [])
  | r :: rest =>
      match filter_match r i vs with
      | None => Err EIndex
      | Some b => match split_filtered rest i vs with
                  | Ok (kept, gone) => Ok (if b then (kept, r :: gone) else (r :: kept, gone))
                  | Err c => Err c
                  end
      end
  end.

(* policy.py:273-291: res = True iff some rule matched; an exception leaves the store untouched *)
Definition remove_filtered (l : store) (i : nat) (vs : list name) : result (store * bool) :=
  match split_filtered l i vs with
  | Ok (kept, gone) => Ok (kept, negb (match gone with [] => true | _ => false end))
  | Err c => Err c
  end.

(* policy.py:249-271: no filter values -> [] and nothing removed *)
Definition remove_filtered_effects (l : store) (i : nat) (vs : list name) : result (store * list rule) :=
  match vs with
  | [] => Ok (l, [])
  | _ => match split_filtered l i vs with
         | Ok (kept, gone) => Ok (kept, gone)
         | Err c => Err c
         end
  end.

(* ---- update_policy (policy.py:161-184, repaired: refuses a new rule that is already stored) ---- *)
(* prio_tok = Some i <-> "p_priority" in ast.tokens at index i *)
Definition update_policy (prio_tok : option nat) (l : store) (old new : rule) : result (store * bool) :=
  match index_of rule_eqb old l with
  | None => Ok (l, false)
  | Some idx =>
      if has_policy l new then Ok (l, false)
      else match prio_tok with
           | None => Ok (set_nth idx new l, true)
           | Some pi =>
               match field old pi, field new pi with
               | Some a, Some b => if a =? b then Ok (set_nth idx new l, true) else Err EPriorityMismatch
               | _, _ => Err EIndex
               end
           end
  end.

(* ---- update_policies (policy.py:186-217, repaired: all checks before the first write) ---- *)
Fixpoint indices_of (l : store) (olds : list rule) : option (list nat) :=
  match olds with
  | [] => Some []
  | o :: rest => match index_of rule_eqb o l, indices_of l rest with
                 | Some i, Some r => Some (i :: r)
                 | _, _ => None
                 end
  end.

Fixpoint prio_check (pi : nat) (olds news : list rule) : result unit :=
  match olds, news with
  | o :: ro, n :: rn =>
      match field o pi, field n pi with
      | Some a, Some b => if a =? b then prio_check pi ro rn else Err EPriorityMismatch
      | _, _ => Err EIndex
      end
  | _, _ => Ok tt
  end.

Fixpoint write_all (l : store) (idxs : list nat) (news : list rule) : store :=
  match idxs, news with
  | i :: ri, n :: rn => write_all (set_nth i n l) ri rn
  | _, _ => l
  end.

Definition update_policies (prio_tok : option nat) (l : store) (olds news : list rule)
  : result (store * bool) :=
  if negb (Nat.eqb (length olds) (length news)) then Ok (l, false)
  else if negb (nodupb rule_eqb olds) then Ok (l, false)      (* repaired: an old rule listed twice *)
  else match indices_of l olds with
       | None => Ok (l, false)
       | Some idxs =>
           if negb (batch_addable l [] news) then Ok (l, false)
           else match prio_tok with
                | None => Ok (write_all l idxs news, true)
                | Some pi => match prio_check pi olds news with
                             | Ok _ => Ok (write_all l idxs news, true)
                             | Err c => Err c
                             end
                end
  end.

(* ---- get_values_for_field_in_policy (policy.py:293-306) ---- *)
Fixpoint values_for_field (l : store) (i : nat) (acc : list name) : result (list name) :=
  match l with
  | [] => Ok (rev acc)
  | r :: rest => match field r i with
                 | None => Err EIndex
                 | Some v => values_for_field rest i (if mem N.eqb v acc then acc else v :: acc)
                 end
  end.

(* ---- sort on load (model.py:117-137): Python's sorted() is a stable sort; keys are ints ---- *)
Fixpoint insert_stable (pi : nat) (r : rule) (sorted : list rule) : list rule :=
  match sorted with
  | [] => [r]
  | x :: rest =>
      match field r pi, field x pi with
      | Some k, Some kx => if k <=? kx then r :: x :: rest else x :: insert_stable pi r rest
      | _, _ => x :: insert_stable pi r rest
      end
  end.
(* stable insertion sort: fold from the right, an element goes BEFORE later elements with an equal key *)
Definition sort_rules (pi : nat) (l : store) : store :=
  fold_right (insert_stable pi) [] l.

Definition is_digit_atom (a : name) : bool := (0 <? a) && (a <? 1000).

(* a rule too short for the priority column: IndexError; a mix of numeric and non-numeric priorities:
   TypeError ('<' not supported between str and int).  All-non-numeric priorities are not modelled. *)
Definition sort_by_priority (pi : nat) (l : store) : result store :=
  if negb (forallb (fun r => match field r pi with Some _ => true | None => false end) l) then Err EIndex
  else if forallb (fun r => match field r pi with Some k => is_digit_atom k | None => false end) l
       then Ok (sort_rules pi l)
       else match l with
            | [] | [_] => Ok l
            | _ => Err EType
            end.
