(* PolicyProofs.v — the rule store refines an insertion-ordered duplicate-free set (C06). *)
From Coq Require Import List NArith Bool Arith Lia Permutation.
From PyCasbin Require Import Base Policy.
Import ListNotations.
Local Open Scope N_scope.

(* ---------- basics about mem / remove_first / index_of on rules ---------- *)
Lemma has_policy_In l r : has_policy l r = true <-> In r l.
Proof.
  unfold has_policy. induction l as [|x l IH]; simpl; [split; [discriminate|tauto]|].
  rewrite orb_true_iff, IH, rule_eqb_eq. split; intros [H|H]; auto.
Qed.

Lemma has_policy_false l r : has_policy l r = false <-> ~ In r l.
Proof.
  rewrite <- has_policy_In. destruct (has_policy l r); split; intro H.
  - discriminate.
  - exfalso. apply H. reflexivity.
  - intro. discriminate.
  - reflexivity.
Qed.

Lemma mem_rule_In l r : mem rule_eqb r l = true <-> In r l.
Proof. exact (has_policy_In l r). Qed.

Definition neqb (r : rule) (x : rule) : bool := negb (rule_eqb x r).

Lemma filter_neqb_notin l r : ~ In r l -> filter (neqb r) l = l.
Proof.
  induction l as [|x l IH]; simpl; intro H; [reflexivity|].
  unfold neqb at 1. destruct (rule_eqb x r) eqn:E.
  - apply rule_eqb_eq in E. subst. exfalso. apply H. left. reflexivity.
  - simpl. f_equal. apply IH. intro. apply H. right. assumption.
Qed.

Lemma remove_first_spec l r :
  NoDup l ->
  remove_first rule_eqb r l = if has_policy l r then Some (filter (neqb r) l) else None.
Proof.
  induction l as [|x l IH]; intro Hnd; [reflexivity|].
  inversion Hnd as [|? ? Hx Hnd']; subst. simpl.
  unfold has_policy in *. simpl. unfold neqb at 1.
  destruct (rule_eqb r x) eqn:E.
  - apply rule_eqb_eq in E. subst. rewrite rule_eqb_refl. simpl.
    rewrite filter_neqb_notin by assumption. reflexivity.
  - assert (E' : rule_eqb x r = false).
    { apply rule_eqb_neq. apply rule_eqb_neq in E. congruence. }
    rewrite E'. simpl. rewrite (IH Hnd'). destruct (mem rule_eqb r l); reflexivity.
Qed.

Lemma NoDup_filter {A} (f : A -> bool) l : NoDup l -> NoDup (filter f l).
Proof.
  induction 1 as [|x l Hx Hnd IH]; simpl; [constructor|].
  destruct (f x); [constructor; [rewrite filter_In; tauto|assumption]|assumption].
Qed.

(* ---------- the abstract ordered set ---------- *)
Definition spec_add (l : store) (r : rule) : store * bool :=
  if has_policy l r then (l, false) else (l ++ [r], true).
Definition spec_remove (l : store) (r : rule) : store * bool :=
  if has_policy l r then (filter (neqb r) l, true) else (l, false).
Definition notin (rs : list rule) (x : rule) : bool := negb (mem rule_eqb x rs).
Definition spec_remove_batch (l : store) (rs : list rule) : store * bool :=
  if forallb (has_policy l) rs && nodupb rule_eqb rs then (filter (notin rs) l, true) else (l, false).
Definition spec_add_batch (l : store) (rs : list rule) : store * bool :=
  if forallb (fun r => negb (has_policy l r)) rs && nodupb rule_eqb rs then (l ++ rs, true) else (l, false).
Definition replace_rule (old new : rule) (l : store) : store :=
  map (fun x => if rule_eqb x old then new else x) l.
Definition spec_update (l : store) (old new : rule) : store * bool :=
  if has_policy l old && negb (has_policy l new) then (replace_rule old new l, true) else (l, false).

(* field-wise filter predicate of the property: every non-empty filter value equals the rule's field *)
Definition sel (i : nat) (vs : list name) (r : rule) : Prop :=
  forall j v, nth_error vs j = Some v -> v <> 0 -> nth_error r (i + j)%nat = Some v.

(* ---------- add ---------- *)
Theorem add_policy_spec l r : add_policy None l r = spec_add l r.
Proof. reflexivity. Qed.

Lemma NoDup_app_snoc {A} (l : list A) r : NoDup l -> ~ In r l -> NoDup (l ++ [r]).
Proof.
  induction l as [|x l IH]; simpl; intros Hnd Hr.
  - constructor; [tauto|constructor].
  - inversion Hnd; subst. constructor.
    + rewrite in_app_iff. simpl. intros [H|[H|[]]]; [contradiction|]. subst. apply Hr. left. reflexivity.
    + apply IH; [assumption|]. intro. apply Hr. right. assumption.
Qed.

Theorem add_keeps_nodup l r : NoDup l -> NoDup (fst (spec_add l r)).
Proof.
  intro H. unfold spec_add. destruct (has_policy l r) eqn:E; simpl; [assumption|].
  apply NoDup_app_snoc; [assumption|]. apply has_policy_false. assumption.
Qed.

(* ---------- remove ---------- *)
Theorem remove_policy_spec l r : NoDup l -> remove_policy l r = spec_remove l r.
Proof.
  intro Hnd. unfold remove_policy, spec_remove. rewrite (remove_first_spec l r Hnd).
  destruct (has_policy l r) eqn:E; [|reflexivity].
  f_equal. apply negb_true_iff. apply has_policy_false. rewrite filter_In. unfold neqb.
  rewrite rule_eqb_refl. simpl. intros [_ H]. discriminate.
Qed.

(* ---------- filtered reads / removals ---------- *)
Lemma filter_match_sel r : forall vs i b,
  filter_match r i vs = Some b -> (b = true <-> sel i vs r).
Proof.
  induction vs as [|v vs IH]; intros i b H; simpl in H.
  - inversion H; subst. split; [|reflexivity]. intros _ j v Hj. destruct j; discriminate.
  - destruct (v =? 0) eqn:Ev.
    + apply N.eqb_eq in Ev. subst. specialize (IH (S i) b H). rewrite IH. unfold sel. split; intros Hs j v Hj Hv.
      * destruct j as [|j]; simpl in Hj; [inversion Hj; subst; contradiction|].
        replace (i + S j)%nat with (S i + j)%nat by lia. apply (Hs j v Hj Hv).
      * replace (S i + j)%nat with (i + S j)%nat by lia. apply (Hs (S j) v); assumption.
    + unfold field in H. destruct (nth_error r i) as [x|] eqn:Ex; [|discriminate].
      destruct (x =? v) eqn:Exv.
      * apply N.eqb_eq in Exv. subst x. specialize (IH (S i) b H). rewrite IH. unfold sel.
        split; intros Hs j w Hj Hw.
        -- destruct j as [|j]; simpl in Hj.
           ++ inversion Hj; subst. replace (i + 0)%nat with i by lia. assumption.
           ++ replace (i + S j)%nat with (S i + j)%nat by lia. apply (Hs j w Hj Hw).
        -- replace (S i + j)%nat with (i + S j)%nat by lia. apply (Hs (S j) w); assumption.
      * inversion H; subst. split; [discriminate|]. intro Hs. exfalso.
        apply N.eqb_neq in Exv. apply N.eqb_neq in Ev.
        specialize (Hs 0%nat v eq_refl Ev). replace (i + 0)%nat with i in Hs by lia. congruence.
Qed.

(* order preservation stated directly: the result is a subsequence of the store selected by a
   per-rule predicate that depends only on the rule *)
Definition fm_true (i : nat) (vs : list name) (r : rule) : bool :=
  match filter_match r i vs with Some true => true | _ => false end.

Theorem get_filtered_is_filter : forall l i vs out,
  get_filtered l i vs = Ok out -> out = filter (fm_true i vs) l.
Proof.
  induction l as [|x l IH]; intros i vs out H; simpl in H.
  - inversion H. reflexivity.
  - destruct (filter_match x i vs) as [b|] eqn:Eb; [|discriminate].
    destruct (get_filtered l i vs) as [out'|c] eqn:Eo; [|discriminate].
    inversion H; subst. simpl. unfold fm_true at 1. rewrite Eb. rewrite (IH i vs out' Eo).
    destruct b; reflexivity.
Qed.

Theorem get_filtered_exact : forall l i vs out,
  get_filtered l i vs = Ok out -> forall r, In r out <-> In r l /\ sel i vs r.
Proof.
  induction l as [|x l IH]; intros i vs out H; simpl in H.
  - inversion H; subst. intro r; simpl; tauto.
  - destruct (filter_match x i vs) as [b|] eqn:Eb; [|discriminate].
    destruct (get_filtered l i vs) as [out'|c] eqn:Eo; [|discriminate].
    inversion H; subst. pose proof (IH i vs out' Eo) as H1.
    pose proof (filter_match_sel x vs i b Eb) as Hb. intro r.
    destruct b; simpl; rewrite ?H1.
    + split; [intros [He|[Hi Hs]]|intros [[He|Hi] Hs]]; subst; auto. split; [auto|]. apply Hb. reflexivity.
    + split; [intros [Hi Hs]; auto|intros [[He|Hi] Hs]; auto]. subst. apply Hb in Hs. discriminate.
Qed.

Theorem split_filtered_spec : forall l i vs kept gone,
  split_filtered l i vs = Ok (kept, gone) ->
  gone = filter (fm_true i vs) l /\ kept = filter (fun r => negb (fm_true i vs r)) l.
Proof.
  induction l as [|x l IH]; intros i vs kept gone H; simpl in H.
  - inversion H. split; reflexivity.
  - destruct (filter_match x i vs) as [b|] eqn:Eb; [|discriminate].
    destruct (split_filtered l i vs) as [[k g]|c] eqn:Eo; [|discriminate].
    destruct (IH i vs k g Eo) as [Hg Hk]. simpl.
    assert (Hx : fm_true i vs x = b) by (unfold fm_true; rewrite Eb; destruct b; reflexivity).
    rewrite Hx. destruct b; inversion H; subst; split; reflexivity.
Qed.

(* ---------- batch remove ---------- *)
Lemma filter_filter_and {A} (f g : A -> bool) l :
  filter f (filter g l) = filter (fun x => g x && f x) l.
Proof.
  induction l as [|x l IH]; simpl; [reflexivity|].
  destruct (g x); simpl; [destruct (f x); simpl; rewrite IH; reflexivity|exact IH].
Qed.

Lemma remove_present_spec : forall rs l, NoDup l -> remove_present l rs = filter (notin rs) l.
Proof.
  induction rs as [|r rs IH]; intros l Hnd; simpl.
  - symmetry. clear Hnd. induction l as [|x l IHl]; simpl; [reflexivity|]. f_equal. exact IHl.
  - rewrite (remove_first_spec l r Hnd). destruct (has_policy l r) eqn:E.
    + rewrite IH by (apply NoDup_filter; assumption). rewrite filter_filter_and.
      apply filter_ext. intro x. unfold neqb, notin. simpl. rewrite negb_orb. reflexivity.
    + rewrite IH by assumption. apply has_policy_false in E.
      apply filter_ext_in. intros x Hx. unfold notin. simpl.
      assert (Ex : rule_eqb x r = false) by (apply rule_eqb_neq; intro; subst; contradiction).
      rewrite Ex. reflexivity.
Qed.

Theorem remove_policies_spec l rs : NoDup l -> remove_policies l rs = spec_remove_batch l rs.
Proof.
  intro Hnd. unfold remove_policies, spec_remove_batch.
  destruct (forallb (has_policy l) rs && nodupb rule_eqb rs); [|reflexivity].
  rewrite remove_present_spec by assumption. reflexivity.
Qed.

(* ---------- batch add ---------- *)
Lemma rule_eqb_sym a b : rule_eqb a b = rule_eqb b a.
Proof.
  destruct (rule_eqb a b) eqn:A, (rule_eqb b a) eqn:B; try reflexivity.
  - apply rule_eqb_eq in A. subst. rewrite rule_eqb_refl in B. discriminate.
  - apply rule_eqb_eq in B. subst. rewrite rule_eqb_refl in A. discriminate.
Qed.

Lemma forallb_notmem_cons (r : rule) seen : forall rs,
  forallb (fun r0 => negb (mem rule_eqb r0 (r :: seen))) rs
  = negb (mem rule_eqb r rs) && forallb (fun r0 => negb (mem rule_eqb r0 seen)) rs.
Proof.
  induction rs as [|y rs IH]; [reflexivity|].
  cbn [forallb]. rewrite IH. cbn [mem]. rewrite (rule_eqb_sym y r).
  destruct (rule_eqb r y), (mem rule_eqb y seen), (mem rule_eqb r rs); reflexivity.
Qed.

Lemma batch_addable_spec : forall rs l seen,
  batch_addable l seen rs =
  forallb (fun r => negb (has_policy l r)) rs && forallb (fun r => negb (mem rule_eqb r seen)) rs
  && nodupb rule_eqb rs.
Proof.
  induction rs as [|r rs IH]; intros l seen; [reflexivity|].
  cbn [batch_addable forallb nodupb]. rewrite IH, forallb_notmem_cons.
  destruct (has_policy l r), (mem rule_eqb r seen), (mem rule_eqb r rs),
    (forallb (fun r0 => negb (has_policy l r0)) rs),
    (forallb (fun r0 => negb (mem rule_eqb r0 seen)) rs), (nodupb rule_eqb rs); reflexivity.
Qed.

Lemma add_all_spec : forall rs l,
  forallb (fun r => negb (has_policy l r)) rs = true -> nodupb rule_eqb rs = true ->
  add_all None l rs = l ++ rs.
Proof.
  induction rs as [|r rs IH]; intros l H1 H2; [simpl; rewrite app_nil_r; reflexivity|].
  cbn [forallb nodupb] in H1, H2. apply andb_true_iff in H1. destruct H1 as [Hr H1].
  apply andb_true_iff in H2. destruct H2 as [Hrr H2].
  apply negb_true_iff in Hr. cbn [add_all]. unfold add_policy. rewrite Hr. cbn [fst]. rewrite IH.
  - rewrite <- app_assoc. reflexivity.
  - rewrite forallb_forall in *. intros x Hx. specialize (H1 x Hx).
    apply negb_true_iff. apply has_policy_false. apply negb_true_iff in H1. apply has_policy_false in H1.
    rewrite in_app_iff. simpl. intros [H|[H|[]]]; [contradiction|]. subst.
    apply negb_true_iff in Hrr. apply has_policy_false in Hrr. contradiction.
  - assumption.
Qed.

Theorem add_policies_spec l rs : add_policies None l rs = spec_add_batch l rs.
Proof.
  unfold add_policies, spec_add_batch. rewrite batch_addable_spec.
  assert (H : forallb (fun r : rule => negb (mem rule_eqb r [])) rs = true)
    by (clear; induction rs as [|x rs IH]; [reflexivity|exact IH]).
  rewrite H, andb_true_r.
  destruct (forallb (fun r => negb (has_policy l r)) rs) eqn:E1; [|reflexivity].
  destruct (nodupb rule_eqb rs) eqn:E2; [|reflexivity].
  cbn [andb]. rewrite add_all_spec; auto.
Qed.

Lemma nodupb_NoDup : forall rs, nodupb rule_eqb rs = true -> NoDup rs.
Proof.
  induction rs as [|r rs IH]; simpl; intro H; [constructor|].
  apply andb_true_iff in H. destruct H as [H1 H2]. constructor; [|auto].
  apply negb_true_iff in H1. apply has_policy_false in H1. assumption.
Qed.

Lemma NoDup_app_disjoint {A} (l1 l2 : list A) :
  NoDup l1 -> NoDup l2 -> (forall x, In x l1 -> In x l2 -> False) -> NoDup (l1 ++ l2).
Proof.
  induction l1 as [|x l1 IH]; simpl; intros H1 H2 Hd; [assumption|].
  inversion H1; subst. constructor.
  - rewrite in_app_iff. intros [H|H]; [contradiction|]. apply (Hd x); [left; reflexivity|assumption].
  - apply IH; [assumption|assumption|]. intros y Hy Hy'. apply (Hd y); [right; assumption|assumption].
Qed.

Theorem add_batch_keeps_nodup l rs : NoDup l -> NoDup (fst (spec_add_batch l rs)).
Proof.
  intro Hnd. unfold spec_add_batch.
  destruct (forallb (fun r => negb (has_policy l r)) rs) eqn:E1; simpl; [|assumption].
  destruct (nodupb rule_eqb rs) eqn:E2; simpl; [|assumption].
  apply NoDup_app_disjoint; [assumption|apply nodupb_NoDup; assumption|].
  intros x Hx Hx'. rewrite forallb_forall in E1. specialize (E1 x Hx').
  apply negb_true_iff in E1. apply has_policy_false in E1. contradiction.
Qed.

(* ---------- update ---------- *)
Lemma index_of_has l r : (exists i, index_of rule_eqb r l = Some i) <-> In r l.
Proof.
  induction l as [|x l IH]; simpl.
  - split; [intros [i H]; discriminate|tauto].
  - destruct (rule_eqb r x) eqn:E.
    + apply rule_eqb_eq in E. subst. split; [auto|]. intros _. exists 0%nat. reflexivity.
    + split.
      * intros [i H]. destruct (index_of rule_eqb r l) eqn:Ei; [|discriminate]. right. apply IH. eauto.
      * intros [H|H]; [subst; rewrite rule_eqb_refl in E; discriminate|].
        apply IH in H. destruct H as [i Hi]. rewrite Hi. eauto.
Qed.

Lemma set_nth_replace : forall l old new i,
  NoDup l -> index_of rule_eqb old l = Some i -> set_nth i new l = replace_rule old new l.
Proof.
  induction l as [|x l IH]; intros old new i Hnd Hi; simpl in Hi; [discriminate|].
  inversion Hnd as [|? ? Hx Hnd']; subst. destruct (rule_eqb old x) eqn:E.
  - apply rule_eqb_eq in E. subst x. inversion Hi; subst. simpl. rewrite rule_eqb_refl. f_equal.
    unfold replace_rule. symmetry. rewrite <- (map_id l) at 2. apply map_ext_in. intros a Ha.
    destruct (rule_eqb a old) eqn:Ea; [apply rule_eqb_eq in Ea; subst; contradiction|reflexivity].
  - destruct (index_of rule_eqb old l) as [j|] eqn:Ej; [|discriminate]. inversion Hi; subst. simpl.
    rewrite (rule_eqb_sym x old), E. f_equal. apply IH; assumption.
Qed.

Theorem update_policy_spec l old new :
  NoDup l -> update_policy None l old new = Ok (spec_update l old new).
Proof.
  intro Hnd. unfold update_policy, spec_update.
  destruct (index_of rule_eqb old l) as [i|] eqn:Ei.
  - assert (Ho : has_policy l old = true) by (apply has_policy_In; apply index_of_has; eauto).
    rewrite Ho. destruct (has_policy l new); simpl; [reflexivity|].
    rewrite (set_nth_replace l old new i Hnd Ei). reflexivity.
  - assert (Ho : has_policy l old = false).
    { apply has_policy_false. intro H. apply index_of_has in H. destruct H as [i Hi]. congruence. }
    rewrite Ho. reflexivity.
Qed.

Theorem update_keeps_nodup l old new : NoDup l -> NoDup (fst (spec_update l old new)).
Proof.
  intro Hnd. unfold spec_update. destruct (has_policy l old) eqn:Eo; simpl; [|assumption].
  destruct (has_policy l new) eqn:En; simpl; [assumption|].
  apply has_policy_false in En. clear Eo. unfold replace_rule.
  induction l as [|x l IH]; simpl; [constructor|]. inversion Hnd; subst.
  assert (Hn' : ~ In new l) by (intro; apply En; right; assumption).
  constructor; [|apply IH; assumption].
  rewrite in_map_iff. intros [y [Hy Hin]].
  destruct (rule_eqb x old) eqn:Ex; destruct (rule_eqb y old) eqn:Ey.
  - apply rule_eqb_eq in Ex, Ey. subst. contradiction.
  - subst y. contradiction.
  - apply rule_eqb_eq in Ey. subst. apply En. left. reflexivity.
  - subst y. contradiction.
Qed.

(* ---------- update_policies keeps the set property ---------- *)
Lemma set_nth_in {A} (x n : A) : forall l i, In x (set_nth i n l) -> x = n \/ In x l.
Proof.
  induction l as [|y l IH]; intros i H; destruct i as [|i]; simpl in H; try contradiction.
  - destruct H as [H|H]; [left; congruence|right; right; assumption].
  - destruct H as [H|H]; [right; left; assumption|].
    destruct (IH i H) as [H'|H']; [left; assumption|right; right; assumption].
Qed.

Lemma set_nth_nodup {A} (n : A) : forall l i, NoDup l -> ~ In n l -> NoDup (set_nth i n l).
Proof.
  induction l as [|y l IH]; intros i Hnd Hn; destruct i as [|i]; simpl; try constructor.
  - intro; apply Hn; right; assumption.
  - inversion Hnd; assumption.
  - inversion Hnd as [|? ? Hy Hnd']; subst.
    intro H. apply set_nth_in in H. destruct H as [H|H].
    + apply Hn. left. exact H.
    + apply Hy. exact H.
  - inversion Hnd; subst. apply IH; [assumption|intro; apply Hn; right; assumption].
Qed.

Lemma write_all_nodup : forall news idxs l,
  NoDup l -> NoDup news -> (forall n, In n news -> ~ In n l) -> NoDup (write_all l idxs news).
Proof.
  induction news as [|n news IH]; intros idxs l Hl Hn Hd; destruct idxs as [|i idxs]; simpl; try assumption.
  inversion Hn as [|? ? Hnn Hn']; subst. apply IH.
  - apply set_nth_nodup; [assumption|]. apply Hd. left. reflexivity.
  - assumption.
  - intros m Hm Hin. apply set_nth_in in Hin. destruct Hin as [Hin|Hin].
    + subst. contradiction.
    + apply (Hd m); [right; assumption|assumption].
Qed.

Theorem update_policies_keeps_nodup l olds news l' b :
  NoDup l -> update_policies None l olds news = Ok (l', b) -> NoDup l'.
Proof.
  intros Hnd H. unfold update_policies in H.
  destruct (negb (Nat.eqb (length olds) (length news))); [inversion H; subst; assumption|].
  destruct (negb (nodupb rule_eqb olds)); [inversion H; subst; assumption|].
  destruct (indices_of l olds) as [idxs|]; [|inversion H; subst; assumption].
  destruct (batch_addable l [] news) eqn:Eb; simpl in H; [|inversion H; subst; assumption].
  inversion H; subst. rewrite batch_addable_spec in Eb.
  apply andb_true_iff in Eb. destruct Eb as [Eb Hnd'].
  apply andb_true_iff in Eb. destruct Eb as [Habs _].
  apply write_all_nodup; [assumption|apply nodupb_NoDup; assumption|].
  intros n Hn. rewrite forallb_forall in Habs. specialize (Habs n Hn).
  apply negb_true_iff in Habs. apply has_policy_false. assumption.
Qed.

Theorem update_policies_all_or_nothing l olds news l' :
  update_policies None l olds news = Ok (l', false) -> l' = l.
Proof.
  unfold update_policies. intro H.
  destruct (negb (Nat.eqb (length olds) (length news))); [inversion H; reflexivity|].
  destruct (negb (nodupb rule_eqb olds)); [inversion H; reflexivity|].
  destruct (indices_of l olds) as [idxs|]; [|inversion H; reflexivity].
  destruct (batch_addable l [] news); simpl in H; inversion H. reflexivity.
Qed.

(* ---------- histories ---------- *)
Inductive sop :=
| SAdd (r : rule) | SAddMany (rs : list rule) | SRemove (r : rule) | SRemoveMany (rs : list rule)
| SRemoveFiltered (i : nat) (vs : list name) | SUpdate (o n : rule) | SUpdateMany (os ns : list rule).

(* the code (model), on a store without priority column; an exception leaves the store as it is *)
Definition sstep (l : store) (o : sop) : store :=
  match o with
  | SAdd r => fst (add_policy None l r)
  | SAddMany rs => fst (add_policies None l rs)
  | SRemove r => fst (remove_policy l r)
  | SRemoveMany rs => fst (remove_policies l rs)
  | SRemoveFiltered i vs => match remove_filtered l i vs with Ok (l', _) => l' | Err _ => l end
  | SUpdate o n => match update_policy None l o n with Ok (l', _) => l' | Err _ => l end
  | SUpdateMany os ns => match update_policies None l os ns with Ok (l', _) => l' | Err _ => l end
  end.

(* the abstract insertion-ordered set *)
Definition sspec (l : store) (o : sop) : store :=
  match o with
  | SAdd r => fst (spec_add l r)
  | SAddMany rs => fst (spec_add_batch l rs)
  | SRemove r => fst (spec_remove l r)
  | SRemoveMany rs => fst (spec_remove_batch l rs)
  | SRemoveFiltered i vs =>
      if forallb (fun r => match filter_match r i vs with Some _ => true | None => false end) l
      then filter (fun r => negb (fm_true i vs r)) l else l
  | SUpdate o n => fst (spec_update l o n)
  | SUpdateMany os ns => match update_policies None l os ns with Ok (l', _) => l' | Err _ => l end
  end.

Lemma split_filtered_total : forall l i vs,
  forallb (fun r => match filter_match r i vs with Some _ => true | None => false end) l = true ->
  exists kept gone, split_filtered l i vs = Ok (kept, gone).
Proof.
  induction l as [|x l IH]; intros i vs H; simpl; [eauto|].
  simpl in H. apply andb_true_iff in H. destruct H as [Hx Hl].
  destruct (filter_match x i vs) as [b|]; [|discriminate].
  destruct (IH i vs Hl) as [k [g Hkg]]. rewrite Hkg. destruct b; eauto.
Qed.

Lemma split_filtered_err : forall l i vs,
  forallb (fun r => match filter_match r i vs with Some _ => true | None => false end) l = false ->
  exists c, split_filtered l i vs = Err c.
Proof.
  induction l as [|x l IH]; intros i vs H; simpl in *; [discriminate|].
  destruct (filter_match x i vs) as [b|]; [|eauto]. simpl in H.
  destruct (IH i vs H) as [c Hc]. rewrite Hc. eauto.
Qed.

Lemma sstep_refines l o : NoDup l -> sstep l o = sspec l o /\ NoDup (sstep l o).
Proof.
  intro Hnd. destruct o as [r|rs|r|rs|i vs|o n|os ns]; simpl.
  - rewrite add_policy_spec. split; [reflexivity|apply add_keeps_nodup; assumption].
  - rewrite add_policies_spec. split; [reflexivity|apply add_batch_keeps_nodup; assumption].
  - rewrite remove_policy_spec by assumption. split; [reflexivity|].
    unfold spec_remove. destruct (has_policy l r); simpl; [apply NoDup_filter|]; assumption.
  - rewrite remove_policies_spec by assumption. split; [reflexivity|].
    unfold spec_remove_batch. destruct (forallb (has_policy l) rs && nodupb rule_eqb rs); simpl;
      [apply NoDup_filter|]; assumption.
  - unfold remove_filtered.
    destruct (forallb (fun r => match filter_match r i vs with Some _ => true | None => false end) l) eqn:E.
    + destruct (split_filtered_total l i vs E) as [k [g Hkg]]. rewrite Hkg.
      destruct (split_filtered_spec l i vs k g Hkg) as [_ Hk]. subst k.
      split; [reflexivity|apply NoDup_filter; assumption].
    + destruct (split_filtered_err l i vs E) as [c Hc]. rewrite Hc. split; [reflexivity|assumption].
  - rewrite update_policy_spec by assumption. split; [reflexivity|apply update_keeps_nodup; assumption].
  - split; [reflexivity|].
    destruct (update_policies None l os ns) as [[l' b]|c] eqn:E; [|assumption].
    apply (update_policies_keeps_nodup l os ns l' b Hnd E).
Qed.

(* every management history keeps the store a duplicate-free list and is, step for step, the
   abstract ordered set *)
Theorem history_refines : forall ops l,
  NoDup l -> fold_left sstep ops l = fold_left sspec ops l /\ NoDup (fold_left sstep ops l).
Proof.
  induction ops as [|o ops IH]; intros l Hnd; simpl; [split; [reflexivity|assumption]|].
  destruct (sstep_refines l o Hnd) as [He Hn]. rewrite <- He. apply IH. assumption.
Qed.
