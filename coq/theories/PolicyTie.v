(* PolicyTie.v — C06/C07/C09: the program regenerated from casbin/model/policy.py on this run (coq/gen/PolicyGen.v),
   executed by the interpreter of PolLang.v, computes the hand-written functions of Policy.v - for every rule list
   and every argument.  Hence every theorem of PolicyProofs.v / PriorityProofs.v about Policy.v holds of what the
   source says now; a change to policy.py that alters what a method computes breaks the tie lemma of that method.

   Proof method: symbolic execution.  [step] unfolds one statement of the generated program at a time (equations
   block_step / exec_if / ... below), evaluating each atomic statement or test by computation on the concrete
   syntax with the rule list and the arguments symbolic; [split1] splits on the innermost data test that remains;
   loops are discharged by lemmas proved by induction on the list being iterated.  Continuations are never
   normalised before their state is known. *)
From Coq Require Import List NArith ZArith Bool Lia Arith.
From PyCasbin Require Import Base Policy PolicyProofs PolLang.
From PyCasbinGen Require Import PolicyGen.
Import ListNotations.
Local Open Scope N_scope.

Definition FUEL : nat := 60.
(* the environment of a call whose section and policy type exist (what every management call of the enforcer
   guarantees before it reaches the model) *)
Definition mkE (sp : bool) (pi : Z) (tk : option nat) : penv :=
  {| e_sec_ok := true; e_ptype_ok := true; e_sec_p := sp; e_prio_index := pi; e_prio_tok := tk |}.

Section Eqs.
  Variable P : prog.
  Variable E : penv.
  Lemma block_nil n s : block P E (S n) s [] = ONext s.
  Proof. reflexivity. Qed.
  Lemma block_step n s c r o : exec P E n s c = o ->
    block P E (S n) s (c :: r) =
    match o with ONext s' => block P E n s' r | ORet v s' => ORet v s' | OBrk s' => OBrk s' | OErr e s' => OErr e s' end.
  Proof.
    intros <-.
    change (block P E (S n) s (c :: r)) with (match exec P E n s c with ONext s' => block P E n s' r | o => o end).
    destruct (exec P E n s c); reflexivity.
  Qed.
  Lemma exec_if n s c a b v : rbind (eval P E n s c) truth = v ->
    exec P E (S n) s (SIf c a b) =
    match v with Ok true => block P E n s a | Ok false => block P E n s b | Err e => OErr e s end.
  Proof. intros <-. reflexivity. Qed.
  Lemma exec_try n s b :
    exec P E (S n) s (STry b) =
    match block P E n s b with
    | OErr _ s' => ONext s' | ONext s' => ONext s' | ORet v s' => ORet v s' | OBrk s' => OBrk s' end.
  Proof.
    change (exec P E (S n) s (STry b)) with (match block P E n s b with OErr _ s' => ONext s' | o => o end).
    destruct (block P E n s b); reflexivity.
  Qed.
  Lemma exec_for n s x l body its : rbind (eval P E n s l) items = Ok its ->
    (ex_mentions_pol l && negb (block_pure body)) = false ->
    exec P E (S n) s (SFor x l body) = for_each (fun it s' => block P E n (set_loc x it s') body) its s.
  Proof.
    intros H G.
    change (exec P E (S n) s (SFor x l body)) with
      (if ex_mentions_pol l && negb (block_pure body) then OErr ENotModelled s else
       match rbind (eval P E n s l) items with
       | Ok its => for_each (fun it s' => block P E n (set_loc x it s') body) its s
       | Err c => OErr c s end).
    rewrite G, H. reflexivity.
  Qed.
  Lemma exec_for_enum n s i x l body its : rbind (eval P E n s l) items = Ok its ->
    (ex_mentions_pol l && negb (block_pure body)) = false ->
    exec P E (S n) s (SForEnum i x l body) =
    for_each (fun '(k, it) s' => block P E n (set_loc x it (set_loc i (PI (Z.of_nat k)) s')) body) (enum_from 0 its) s.
  Proof.
    intros H G.
    change (exec P E (S n) s (SForEnum i x l body)) with
      (if ex_mentions_pol l && negb (block_pure body) then OErr ENotModelled s else
       match rbind (eval P E n s l) items with
       | Ok its => for_each (fun '(k, it) s' => block P E n (set_loc x it (set_loc i (PI (Z.of_nat k)) s')) body)
                     (enum_from 0 its) s
       | Err c => OErr c s end).
    rewrite G, H. reflexivity.
  Qed.
  Lemma exec_for_zip n s x y l1 l2 body i1 i2 :
    rbind (eval P E n s l1) items = Ok i1 -> rbind (eval P E n s l2) items = Ok i2 ->
    ((ex_mentions_pol l1 || ex_mentions_pol l2) && negb (block_pure body)) = false ->
    exec P E (S n) s (SForZip x y l1 l2 body) =
    for_each (fun '(a, b) s' => block P E n (set_loc y b (set_loc x a s')) body) (zip i1 i2) s.
  Proof.
    intros H1 H2 G.
    change (exec P E (S n) s (SForZip x y l1 l2 body)) with
      (if (ex_mentions_pol l1 || ex_mentions_pol l2) && negb (block_pure body) then OErr ENotModelled s else
       match rbind (eval P E n s l1) items, rbind (eval P E n s l2) items with
       | Ok i1, Ok i2 => for_each (fun '(a, b) s' => block P E n (set_loc y b (set_loc x a s')) body) (zip i1 i2) s
       | Err c, _ => OErr c s
       | _, Err c => OErr c s
       end).
    rewrite G, H1, H2. reflexivity.
  Qed.
  Lemma eval_allenum n s i v l body its : rbind (eval P E n s l) items = Ok its ->
    eval P E (S n) s (XAllEnum i v l body) =
    rbind (all_each (fun '(k, it) => rbind (eval P E n (set_loc v it (set_loc i (PI (Z.of_nat k)) s)) body) truth)
             (enum_from 0 its)) (fun r => Ok (PB r)).
  Proof.
    intro H.
    change (eval P E (S n) s (XAllEnum i v l body)) with
      (rbind (eval P E n s l) (fun vl => rbind (items vl) (fun its =>
         rbind (all_each (fun '(k, it) => rbind (eval P E n (set_loc v it (set_loc i (PI (Z.of_nat k)) s)) body) truth)
                  (enum_from 0 its)) (fun r => Ok (PB r))))).
    destruct (eval P E n s l) as [vl|]; simpl in H |- *; [|discriminate]. rewrite H. reflexivity.
  Qed.
  Lemma exec_return n s e :
    exec P E (S n) s (SReturn e) = match eval P E n s e with Ok v => ORet v s | Err c => OErr c s end.
  Proof. reflexivity. Qed.
  Lemma eval_filtercomp n s x l cond rs : eval P E n s l = Ok (PLL rs) ->
    eval P E (S n) s (XFilterComp x l cond) =
    rbind (filter_each (fun r => rbind (eval P E n (set_loc x (PL r) s) cond) truth) rs) (fun out => Ok (PLL out)).
  Proof.
    intro H.
    change (eval P E (S n) s (XFilterComp x l cond)) with
      (rbind (eval P E n s l) (fun vl =>
         match vl with
         | PLL rs => rbind (filter_each (fun r => rbind (eval P E n (set_loc x (PL r) s) cond) truth) rs)
                       (fun out => Ok (PLL out))
         | PNil => Ok PNil
         | _ => Err ENotModelled
         end)).
    rewrite H. reflexivity.
  Qed.
  Lemma exec_call n s m args mt vs lc :
    lookup m P = Some mt -> eval_args (eval P E n s) args = Ok vs ->
    bind_params (m_params mt) vs (m_locals mt) = Some lc ->
    exec P E (S n) s (SCall m args) =
    match block P E n {| pol := pol s; loc := lc |} (m_body mt) with
    | ORet _ s' => ONext (set_pol (pol s') s) | ONext s' => ONext (set_pol (pol s') s)
    | OBrk s' => ONext (set_pol (pol s') s) | OErr c s' => OErr c (set_pol (pol s') s)
    end.
  Proof.
    intros H1 H2 H3.
    change (exec P E (S n) s (SCall m args)) with
      (match lookup m P with
       | None => OErr EAttr s
       | Some mt =>
           match eval_args (eval P E n s) args with
           | Err c => OErr c s
           | Ok vs =>
               match bind_params (m_params mt) vs (m_locals mt) with
               | None => OErr EType s
               | Some lc =>
                   match block P E n {| pol := pol s; loc := lc |} (m_body mt) with
                   | ORet _ s' | ONext s' | OBrk s' => ONext (set_pol (pol s') s)
                   | OErr c s' => OErr c (set_pol (pol s') s)
                   end
               end
           end
       end).
    rewrite H1, H2, H3. destruct (block P E n {| pol := pol s; loc := lc |} (m_body mt)); reflexivity.
  Qed.
End Eqs.

Ltac is_atomic c :=
  lazymatch c with
  | SIf _ _ _ => fail | STry _ => fail | SFor _ _ _ => fail | SForEnum _ _ _ _ => fail | SForZip _ _ _ _ _ => fail
  | SForDown _ _ _ => fail | SCall _ _ => fail
  | _ => idtac
  end.

Ltac inner_destruct :=
  match goal with
  | |- context [match ?x with _ => _ end] =>
      lazymatch x with
      | context [match _ with _ => _ end] => fail
      | block _ _ _ _ _ => fail
      | exec _ _ _ _ _ => fail
      | for_each _ _ _ => fail
      | _ => destruct x eqn:?
      end
  end.

(* computation that keeps the data operations folded *)
Ltac lz t :=
  let v := eval lazy -[mem rule_eqb remove_first index_of set_nth nodupb list_eqb app length firstn nth_error
                       Z.add Z.sub Z.ltb Z.leb Z.eqb Z.of_nat Z.to_nat Z.of_N N.ltb N.eqb for_each all_each filter_each
                       enum_from zip down_from map norm_idx rule name store] in t in v.

Ltac bstep :=
  lazymatch goal with
  | |- context [block ?P ?E (S ?n) ?s []] => rewrite (block_nil P E n s)
  | |- context [block ?P ?E (S ?n) ?s (?c :: ?r)] =>
      tryif is_atomic c then
        (let o := lz (exec P E n s c) in rewrite (block_step P E n s c r o eq_refl))
      else rewrite (block_step P E n s c r _ eq_refl)
  end; cbv beta iota.

Ltac estep :=
  lazymatch goal with
  | |- context [exec ?P ?E (S ?n) ?s (SIf ?c ?a ?b)] =>
      let v := lz (rbind (eval P E n s c) truth) in rewrite (exec_if P E n s c a b v eq_refl)
  | |- context [exec ?P ?E (S ?n) ?s (STry ?b)] => rewrite (exec_try P E n s b)
  | |- context [exec ?P ?E (S ?n) ?s (SFor ?x ?l ?body)] =>
      let v := lz (rbind (eval P E n s l) items) in
      lazymatch v with Ok ?its => rewrite (exec_for P E n s x l body its eq_refl eq_refl) end
  | |- context [exec ?P ?E (S ?n) ?s (SForEnum ?i ?x ?l ?body)] =>
      let v := lz (rbind (eval P E n s l) items) in
      lazymatch v with Ok ?its => rewrite (exec_for_enum P E n s i x l body its eq_refl eq_refl) end
  | |- context [exec ?P ?E (S ?n) ?s (SForZip ?x ?y ?l1 ?l2 ?body)] =>
      let v1 := lz (rbind (eval P E n s l1) items) in
      let v2 := lz (rbind (eval P E n s l2) items) in
      lazymatch v1 with Ok ?i1 => lazymatch v2 with Ok ?i2 =>
        rewrite (exec_for_zip P E n s x y l1 l2 body i1 i2 eq_refl eq_refl eq_refl) end end
  | |- context [exec ?P ?E (S ?n) ?s (SCall ?m ?args)] =>
      let mt := eval lazy in (lookup m P) in
      let vs := lz (eval_args (eval P E n s) args) in
      lazymatch mt with Some ?mt' => lazymatch vs with Ok ?vs' =>
        let lc := eval lazy in (bind_params (m_params mt') vs' (m_locals mt')) in
        lazymatch lc with Some ?lc' =>
          rewrite (exec_call P E n s m args mt' vs' lc' eq_refl eq_refl eq_refl); cbn [m_body pol] end end end
  end; cbv beta iota.

Ltac step := first [estep | bstep].
Ltac split1 := inner_destruct; cbv beta iota.
Ltac sym := repeat (first [step | split1]).

Ltac start :=
  unfold run, FUEL;
  match goal with |- context [lookup ?m ?P] => let v := eval lazy in (lookup m P) in change (lookup m P) with v end;
  cbv beta iota;
  match goal with |- context [bind_params ?a ?b ?c] =>
    let v := eval lazy -[Z.of_nat Z.of_N] in (bind_params a b c) in change (bind_params a b c) with v end;
  cbv beta iota; cbn [m_body].

(* ------------------------------------------------------------------ data facts *)
Lemma mem_remove_first (r : rule) l : mem rule_eqb r l = true -> remove_first rule_eqb r l <> None.
Proof.
  induction l as [|x l IH]; simpl; [discriminate|].
  destruct (rule_eqb r x); simpl; [discriminate|].
  intro H. specialize (IH H). destruct (remove_first rule_eqb r l); [discriminate | contradiction].
Qed.

Lemma remove_first_mem (r : rule) l : mem rule_eqb r l = false -> remove_first rule_eqb r l = None.
Proof.
  induction l as [|x l IH]; simpl; [reflexivity|].
  destruct (rule_eqb r x); simpl; [discriminate|]. intro H. rewrite (IH H). reflexivity.
Qed.

Lemma mem_index_of (r : rule) l : mem rule_eqb r l = true -> index_of rule_eqb r l <> None.
Proof.
  induction l as [|x l IH]; simpl; [discriminate|].
  destruct (rule_eqb r x); simpl; [discriminate|].
  intro H. specialize (IH H). destruct (index_of rule_eqb r l); [discriminate | contradiction].
Qed.

Lemma index_of_mem (r : rule) l : mem rule_eqb r l = false -> index_of rule_eqb r l = None.
Proof.
  induction l as [|x l IH]; simpl; [reflexivity|].
  destruct (rule_eqb r x); simpl; [discriminate|]. intro H. rewrite (IH H). reflexivity.
Qed.

Lemma index_of_lt (r : rule) l i : index_of rule_eqb r l = Some i -> (i < length l)%nat.
Proof.
  revert i. induction l as [|x l IH]; simpl; intros i H; [discriminate|].
  destruct (rule_eqb r x); [inversion H; lia|].
  destruct (index_of rule_eqb r l) as [j|]; [|discriminate]. inversion H. specialize (IH j eq_refl). lia.
Qed.

Lemma norm_idx_nat len i : (i < len)%nat -> norm_idx len (Z.of_nat i) = Some i.
Proof.
  intro H. unfold norm_idx.
  assert (H0 : (Z.of_nat i <? 0)%Z = false) by (apply Z.ltb_ge; lia).
  assert (H1 : (Z.of_nat i <? Z.of_nat len)%Z = true) by (apply Z.ltb_lt; lia).
  rewrite H0, H0, H1, Nat2Z.id. reflexivity.
Qed.

(* ------------------------------------------------------------------ straight-line methods *)
Lemma tie_get_policy sp pi tk l :
  run policy_gen (mkE sp pi tk) FUEL m_get_policy l [] = (Ok (PLL l), l).
Proof. start. sym. reflexivity. Qed.

Lemma tie_has_policy sp pi tk l r :
  run policy_gen (mkE sp pi tk) FUEL m_has_policy l [PL r] = (Ok (PB (has_policy l r)), l).
Proof. start. sym. reflexivity. Qed.

Lemma tie_remove_policy sp pi tk l r :
  run policy_gen (mkE sp pi tk) FUEL m_remove_policy l [PL r] =
  (Ok (PB (snd (remove_policy l r))), fst (remove_policy l r)).
Proof.
  start. sym; unfold remove_policy, has_policy; cbn [pol];
    try (exfalso; eapply mem_remove_first; eassumption);
    try (match goal with H : mem rule_eqb _ _ = false |- _ => rewrite (remove_first_mem _ _ H) end; reflexivity);
    repeat match goal with H : remove_first _ _ _ = _ |- _ => rewrite H end; cbn [fst snd];
    repeat match goal with H : mem _ _ _ = _ |- _ => rewrite H end; reflexivity.
Qed.

Lemma norm_idx_of_nat len k : norm_idx len (Z.of_nat k) = if (k <? len)%nat then Some k else None.
Proof.
  destruct (Nat.ltb_spec k len) as [H|H]; [apply norm_idx_nat; exact H|].
  unfold norm_idx.
  assert (H0 : (Z.of_nat k <? 0)%Z = false) by (apply Z.ltb_ge; lia).
  assert (H1 : (Z.of_nat k <? Z.of_nat len)%Z = false) by (apply Z.ltb_ge; lia).
  rewrite H0, H0, H1. reflexivity.
Qed.

Definition res_pair (r : result (store * bool)) (l : store) : result pv * list rule :=
  match r with Ok (l', b) => (Ok (PB b), l') | Err c => (Err c, l) end.

Ltac norm_hyps :=
  rewrite ?norm_idx_of_nat in *;
  repeat match goal with
  | H : (if (?a <? ?b)%nat then Some ?a else None) = Some ?c |- _ =>
      destruct (Nat.ltb_spec a b); [injection H as <- | discriminate H]
  | H : (if (?a <? ?b)%nat then Some ?a else None) = None |- _ =>
      destruct (Nat.ltb_spec a b); [discriminate H | clear H]
  end.

Ltac use_hyps :=
  repeat match goal with
  | H : ?x = _ |- context [?x] => rewrite H
  | H : (length ?r <= ?k)%nat |- context [nth_error ?r ?k] => rewrite (proj2 (nth_error_None r k) H)
  end.

Ltac contra :=
  exfalso;
  first [ eapply mem_remove_first; eassumption
        | eapply mem_index_of; eassumption
        | match goal with H : nth_error ?r ?k = None, H' : (?k < length ?r)%nat |- _ => apply nth_error_None in H; lia end
        | match goal with H : nth_error ?r ?k = Some _, H' : (length ?r <= ?k)%nat |- _ =>
            apply nth_error_None in H'; rewrite H' in H; discriminate H end
        | match goal with H : index_of rule_eqb ?r ?l = Some ?i, H' : (length ?l <= ?i)%nat |- _ =>
            apply index_of_lt in H; lia end
        | match goal with H : mem rule_eqb ?r ?l = false, H' : index_of rule_eqb ?r ?l = Some _ |- _ =>
            rewrite (index_of_mem _ _ H) in H'; discriminate end
        | congruence ].

Lemma tie_update_policy sp pi tk l o n :
  run policy_gen (mkE sp pi tk) FUEL m_update_policy l [PL o; PL n] = res_pair (update_policy tk l o n) l.
Proof.
  start. sym. all: norm_hyps. all: unfold update_policy, has_policy, field; cbn [pol].
  all: try (match goal with H : mem rule_eqb ?r ?l = false |- context [index_of rule_eqb ?r ?l] =>
              rewrite (index_of_mem _ _ H) end).
  all: use_hyps; cbn [res_pair]; try reflexivity.
  all: contra.
Qed.

Definition prio_of (sp : bool) (pi : Z) : option nat :=
  if sp && (0 <=? pi)%Z then Some (Z.to_nat pi) else None.

Lemma tie_add_policy_noprio sp pi tk l r : prio_of sp pi = None ->
  run policy_gen (mkE sp pi tk) FUEL m_add_policy l [PL r] =
  (Ok (PB (snd (add_policy None l r))), fst (add_policy None l r)).
Proof.
  unfold prio_of. intro Hp. start. sym.
  all: try (exfalso; cbn [andb] in Hp;
            repeat match goal with H : (0 <=? _)%Z = _ |- _ => rewrite H in Hp end; discriminate Hp).
  all: unfold add_policy, has_policy; cbn [pol]; use_hyps; reflexivity.
Qed.

(* ------------------------------------------------------------------ list facts for the loops *)
Lemma of_nat_ltb0 k : (Z.of_nat k <? 0)%Z = false.
Proof. apply Z.ltb_ge. lia. Qed.

Fixpoint nodup_pre (pre suf : list rule) : bool :=
  match suf with [] => true | r :: t => negb (mem rule_eqb r pre) && nodup_pre (pre ++ [r]) t end.

Lemma mem_app (x : rule) a b : mem rule_eqb x (a ++ b) = mem rule_eqb x a || mem rule_eqb x b.
Proof. induction a as [|y a IH]; simpl; [reflexivity|]. rewrite IH, orb_assoc. reflexivity. Qed.

Lemma mem_false_notin (x : rule) l : mem rule_eqb x l = false <-> ~ In x l.
Proof.
  split; intro H.
  - intro Hi. apply mem_rule_In in Hi. congruence.
  - destruct (mem rule_eqb x l) eqn:E; [apply mem_rule_In in E; contradiction | reflexivity].
Qed.

Lemma nodup_pre_spec : forall suf pre,
  nodup_pre pre suf = true <-> NoDup suf /\ (forall x, In x suf -> ~ In x pre).
Proof.
  induction suf as [|r t IH]; intro pre; simpl.
  - split; [intros _; split; [constructor | intros x []] | reflexivity].
  - rewrite andb_true_iff, negb_true_iff, mem_false_notin, IH. split.
    + intros (Hr & Hn & Hd). split.
      * constructor; [|exact Hn]. intro Hi. apply (Hd r Hi). apply in_or_app. right. left. reflexivity.
      * intros x [<-|Hx]; [exact Hr|]. intro Hp. apply (Hd x Hx). apply in_or_app. left. exact Hp.
    + intros (Hn & Hd). inversion Hn as [|? ? Hr Hn']; subst. split; [apply Hd; left; reflexivity|]. split; [exact Hn'|].
      intros x Hx Hp. apply in_app_or in Hp. destruct Hp as [Hp|[<-|[]]].
      * apply (Hd x); [right; exact Hx | exact Hp].
      * contradiction.
Qed.

Lemma nodupb_spec (l : list rule) : nodupb rule_eqb l = true <-> NoDup l.
Proof.
  split; [apply nodupb_NoDup|].
  induction 1 as [|x l Hx Hn IH]; simpl; [reflexivity|].
  rewrite IH, andb_true_r. apply negb_true_iff. apply mem_false_notin. exact Hx.
Qed.

Lemma nodup_pre_nil rs : nodup_pre [] rs = nodupb rule_eqb rs.
Proof.
  apply eq_true_iff_eq. rewrite nodup_pre_spec, nodupb_spec. split; [intros [H _]; exact H | intro H; split; [exact H | intros x _ []]].
Qed.

Lemma mem_remove_first_other (x r : rule) l l' :
  remove_first rule_eqb r l = Some l' -> x <> r -> mem rule_eqb x l' = mem rule_eqb x l.
Proof.
  revert l'. induction l as [|y l IH]; simpl; intros l' H Hx; [discriminate|].
  destruct (rule_eqb r y) eqn:E.
  - inversion H; subst. apply rule_eqb_eq in E. subst y.
    destruct (rule_eqb x r) eqn:E2; [apply rule_eqb_eq in E2; contradiction | reflexivity].
  - destruct (remove_first rule_eqb r l) as [l2|] eqn:E2; [|discriminate]. inversion H; subst. simpl.
    rewrite (IH l2 eq_refl Hx). reflexivity.
Qed.

Lemma forallb_negb_negb {A} (f : A -> bool) l : forallb (fun r => negb (negb (f r))) l = forallb f l.
Proof. induction l as [|x l IH]; simpl; [reflexivity|]. rewrite IH, negb_involutive. reflexivity. Qed.

(* "for i, x in enumerate(xs): if <c x> or x in xs[:i]: return False" *)
Lemma check_loop (F : nat * pv -> pst -> out) (mk : pv -> pv -> pst) (c : rule -> bool) (rs : list rule) :
  (forall k r i0 r0, F (k, PL r) (mk i0 r0) =
     if c r || mem rule_eqb r (firstn k rs) then ORet (PB false) (mk (PI (Z.of_nat k)) (PL r))
     else ONext (mk (PI (Z.of_nat k)) (PL r))) ->
  forall suf pre i0 r0, rs = pre ++ suf ->
  exists i' r', for_each F (enum_from (length pre) (map PL suf)) (mk i0 r0) =
     if forallb (fun r => negb (c r)) suf && nodup_pre pre suf then ONext (mk i' r') else ORet (PB false) (mk i' r').
Proof.
  intros HF. induction suf as [|r t IH]; intros pre i0 r0 Hrs; simpl.
  - exists i0, r0. reflexivity.
  - rewrite HF. subst rs. rewrite firstn_app, Nat.sub_diag, firstn_all. simpl firstn. rewrite app_nil_r.
    destruct (c r) eqn:Hc; simpl.
    + eexists _, _. reflexivity.
    + destruct (mem rule_eqb r pre) eqn:Hm; simpl.
      * rewrite andb_false_r. eexists _, _. reflexivity.
      * specialize (IH (pre ++ [r]) (PI (Z.of_nat (length pre))) (PL r)).
        rewrite app_length in IH. simpl length in IH. rewrite Nat.add_1_r in IH.
        apply IH. rewrite <- app_assoc. reflexivity.
Qed.

(* "for x in xs: <list>.remove(x)" when every x is present and no x is repeated *)
Lemma remove_loop (F : pv -> pst -> out) (mk : list rule -> pv -> pst) :
  (forall r p r0, F (PL r) (mk p r0) =
     match remove_first rule_eqb r p with Some p' => ONext (mk p' (PL r)) | None => OErr EValue (mk p (PL r)) end) ->
  forall rs p r0, forallb (has_policy p) rs = true -> nodupb rule_eqb rs = true ->
  exists r', for_each F (map PL rs) (mk p r0) = ONext (mk (remove_present p rs) r').
Proof.
  intro HF. induction rs as [|r t IH]; intros p r0 Hall Hnd; simpl.
  - exists r0. reflexivity.
  - simpl in Hall, Hnd. apply andb_true_iff in Hall. destruct Hall as [Hr Ht].
    apply andb_true_iff in Hnd. destruct Hnd as [Hn Hd]. apply negb_true_iff in Hn.
    rewrite HF. unfold has_policy in Hr.
    destruct (remove_first rule_eqb r p) as [p'|] eqn:E; [|exfalso; eapply mem_remove_first; eassumption].
    apply IH; [|exact Hd].
    apply forallb_forall. intros x Hx. unfold has_policy.
    rewrite (mem_remove_first_other x r p p' E).
    + rewrite forallb_forall in Ht. apply Ht. exact Hx.
    + intros ->. apply mem_false_notin in Hn. contradiction.
Qed.

(* ------------------------------------------------------------------ loops *)
Ltac simp_idx := rewrite ?of_nat_ltb0, ?Nat2Z.id.
Ltac sym' := repeat (first [step; simp_idx | split1]).

Ltac fin_pt :=
  unfold has_policy in *; cbv [set_loc set_pol upd key_eqb pol loc Pos.eqb];
  try reflexivity;
  exfalso; repeat match goal with H : mem _ _ _ = _ |- _ => rewrite H in * end; simpl in *; congruence.

Lemma tie_remove_policies sp pi tk l rs :
  run policy_gen (mkE sp pi tk) FUEL m_remove_policies l [PLL rs] =
  (Ok (PB (snd (remove_policies l rs))), fst (remove_policies l rs)).
Proof.
  start. step. step.
  match goal with |- context [for_each ?F (enum_from 0 (map PL rs)) _] =>
    destruct (check_loop F (fun i r => {| pol := l; loc := [(9, PLL rs); (4, i); (3, r)] |})
                (fun r => negb (has_policy l r)) rs) with (suf := rs) (pre := @nil rule) (i0 := PUnbound) (r0 := PUnbound)
      as (i' & r' & Hloop) end.
  - intros k r i0 r0. cbv beta iota. sym'. all: fin_pt.
  - reflexivity.
  - cbn [length] in Hloop. rewrite Hloop. clear Hloop. rewrite nodup_pre_nil.
    unfold remove_policies.
    rewrite forallb_negb_negb.
    destruct (forallb (has_policy l) rs && nodupb rule_eqb rs) eqn:Hok; cbv beta iota; [|reflexivity].
    apply andb_true_iff in Hok. destruct Hok as [H1 H2].
    step. step.
    match goal with |- context [for_each ?F (map PL rs) _] =>
      destruct (remove_loop F (fun p r => {| pol := p; loc := [(9, PLL rs); (4, i'); (3, r)] |})) with (rs := rs) (p := l) (r0 := r')
        as (r2 & Hloop); [| exact H1 | exact H2 |] end.
    + intros r p r0. cbv beta iota. sym'. all: fin_pt.
    + rewrite Hloop. cbv beta iota. sym'. reflexivity.
Qed.

(* add_policy as a callee: any fuel >= 30 *)
Lemma add_policy_block_noprio sp pi tk m l r : prio_of sp pi = None ->
  exists s', block policy_gen (mkE sp pi tk) (30 + m)
               {| pol := l; loc := [(3, PL r); (6, PUnbound); (4, PUnbound); (7, PUnbound); (8, PUnbound)] |}
               (m_body add_policy_gen) = ORet (PB (snd (add_policy None l r))) s' /\
             pol s' = fst (add_policy None l r).
Proof.
  unfold prio_of. intro Hp. cbn [Nat.add m_body add_policy_gen]. sym.
  all: try (exfalso; cbn [andb] in Hp;
            repeat match goal with H : (0 <=? _)%Z = _ |- _ => rewrite H in Hp end; discriminate Hp).
  all: unfold add_policy, has_policy; use_hyps; cbn [fst snd]; eexists; split; reflexivity.
Qed.

(* "for x in xs: self.add_policy(sec, ptype, x)" *)
Lemma add_loop (F : pv -> pst -> out) (mk : list rule -> pv -> pst) :
  (forall r p r0, F (PL r) (mk p r0) = ONext (mk (fst (add_policy None p r)) (PL r))) ->
  forall rs p r0, exists r', for_each F (map PL rs) (mk p r0) = ONext (mk (add_all None p rs) r').
Proof.
  intro HF. induction rs as [|r t IH]; intros p r0; simpl.
  - exists r0. reflexivity.
  - rewrite HF. apply IH.
Qed.

Lemma batch_addable_pre l : forall rs seen pre, (forall x, mem rule_eqb x seen = mem rule_eqb x pre) ->
  batch_addable l seen rs = forallb (fun r => negb (has_policy l r)) rs && nodup_pre pre rs.
Proof.
  induction rs as [|r t IH]; intros seen pre H; simpl; [reflexivity|].
  rewrite (IH (r :: seen) (pre ++ [r])).
  - rewrite H. destruct (has_policy l r), (mem rule_eqb r pre); simpl; try reflexivity. rewrite andb_false_r. reflexivity.
  - intro x. simpl. rewrite mem_app, H. simpl. rewrite orb_false_r. apply orb_comm.
Qed.

Lemma tie_add_policies_noprio sp pi tk l rs : prio_of sp pi = None ->
  run policy_gen (mkE sp pi tk) FUEL m_add_policies l [PLL rs] =
  (Ok (PB (snd (add_policies None l rs))), fst (add_policies None l rs)).
Proof.
  intro Hp. start. step. step.
  match goal with |- context [for_each ?F (enum_from 0 (map PL rs)) _] =>
    destruct (check_loop F (fun i r => {| pol := l; loc := [(9, PLL rs); (4, i); (3, r)] |})
                (fun r => has_policy l r) rs) with (suf := rs) (pre := @nil rule) (i0 := PUnbound) (r0 := PUnbound)
      as (i' & r' & Hloop) end.
  - intros k r i0 r0. cbv beta iota. sym'. all: fin_pt.
  - reflexivity.
  - cbn [length] in Hloop. rewrite Hloop. clear Hloop.
    unfold add_policies. rewrite (batch_addable_pre l rs [] []) by reflexivity.
    destruct (forallb (fun r => negb (has_policy l r)) rs && nodup_pre [] rs) eqn:Hok; cbv beta iota; [|reflexivity].
    step. step.
    match goal with |- context [for_each ?F (map PL rs) _] =>
      destruct (add_loop F (fun p r => {| pol := p; loc := [(9, PLL rs); (4, i'); (3, r)] |})) with (rs := rs) (p := l) (r0 := r')
        as (r2 & Hloop) end.
    + intros r p r0. cbv beta iota. step. step.
      cbv [set_loc set_pol upd key_eqb Pos.eqb]; cbn [pol loc].
      destruct (add_policy_block_noprio sp pi tk 25 p r Hp) as (s' & Hb & Hpol).
      change (30 + 25)%nat with 55%nat in Hb.
      let b := eval lazy in (m_body add_policy_gen) in change (m_body add_policy_gen) with b in Hb.
      rewrite Hb. cbv beta iota. rewrite Hpol. step. reflexivity.
    + rewrite Hloop. cbv beta iota. sym'. reflexivity.
Qed.

(* ------------------------------------------------------------------ filtered forms *)
(* all(value == "" or rule[field_index + i] == value for i, value in enumerate(field_values)) *)
Lemma filter_all (G : nat * pv -> result bool) (r : rule) (fi : nat) :
  (forall k v, G (k, PA v) =
     if v =? 0 then Ok true
     else match nth_error r (fi + k) with Some x => Ok (x =? v) | None => Err EIndex end) ->
  forall vs k, all_each G (enum_from k (map PA vs)) =
               match filter_match r (fi + k) vs with Some b => Ok b | None => Err EIndex end.
Proof.
  intro HG. induction vs as [|v vs IH]; intro k; simpl; [reflexivity|].
  rewrite HG. unfold field. destruct (v =? 0).
  - rewrite IH. replace (fi + S k)%nat with (S (fi + k)) by lia. reflexivity.
  - destruct (nth_error r (fi + k)) as [x|]; [|reflexivity].
    destruct (x =? v); [|reflexivity].
    rewrite IH. replace (fi + S k)%nat with (S (fi + k)) by lia. reflexivity.
Qed.

Definition enc (acc : list rule) : pv := match acc with [] => PNil | _ => PLL acc end.

Lemma enc_append acc r : py_append (enc acc) (PL r) = Ok (enc (acc ++ [r])).
Proof. destruct acc; simpl; [reflexivity|]. reflexivity. Qed.

Lemma enc_items acc : items (enc acc) = Ok (map PL acc).
Proof. destruct acc; reflexivity. Qed.

Definition is_nil {A} (l : list A) : bool := match l with [] => true | _ => false end.

(* "for rule in policy: if <filter>: [res = True;] acc.append(rule)" *)
Lemma filter_loop (F : pv -> pst -> out) (mk : list rule -> bool -> pv -> pst) (fi : nat) (vs : list name) :
  (forall r acc res r0, F (PL r) (mk acc res r0) =
     match filter_match r fi vs with
     | Some true => ONext (mk (acc ++ [r]) true (PL r))
     | Some false => ONext (mk acc res (PL r))
     | None => OErr EIndex (mk acc res (PL r))
     end) ->
  forall l acc res r0,
  match split_filtered l fi vs with
  | Ok (kept, gone) => exists r', for_each F (map PL l) (mk acc res r0) = ONext (mk (acc ++ gone) (res || negb (is_nil gone)) r')
  | Err _ => exists acc' res' r', for_each F (map PL l) (mk acc res r0) = OErr EIndex (mk acc' res' r')
  end.
Proof.
  intro HF. induction l as [|x l IH]; intros acc res r0.
  - simpl. exists r0. rewrite app_nil_r, orb_false_r. reflexivity.
  - cbn [split_filtered map for_each]. rewrite HF.
    destruct (filter_match x fi vs) as [[|]|] eqn:Ex; cbv beta iota.
    + specialize (IH (acc ++ [x]) true (PL x)).
      destruct (split_filtered l fi vs) as [[kept gone]|c]; cbv beta iota.
      * destruct IH as (r' & IH). exists r'. eapply eq_trans; [exact IH|]. f_equal.
        f_equal; [rewrite <- app_assoc; reflexivity | simpl; rewrite orb_true_r; reflexivity].
      * exact IH.
    + specialize (IH acc res (PL x)).
      destruct (split_filtered l fi vs) as [[kept gone]|c]; cbv beta iota; exact IH.
    + eexists _, _, _. reflexivity.
Qed.

Lemma split_filtered_err_code : forall l i vs c, split_filtered l i vs = Err c -> c = EIndex.
Proof.
  induction l as [|x l IH]; intros i vs c H; simpl in H; [discriminate|].
  destruct (filter_match x i vs) as [b|]; [|inversion H; reflexivity].
  destruct (split_filtered l i vs) as [[k g]|c'] eqn:E; [destruct b; discriminate|].
  inversion H; subst. eapply IH. exact E.
Qed.

(* removing the selected rules one by one leaves exactly the others *)
Fixpoint remove_seq (gs : list rule) (l : list rule) : option (list rule) :=
  match gs with
  | [] => Some l
  | g :: t => match remove_first rule_eqb g l with Some l' => remove_seq t l' | None => None end
  end.

Lemma remove_seq_skip (x : rule) : forall gs l, (forall g, In g gs -> g <> x) ->
  remove_seq gs (x :: l) = match remove_seq gs l with Some l' => Some (x :: l') | None => None end.
Proof.
  induction gs as [|g t IH]; intros l H; simpl; [reflexivity|].
  assert (Hg : rule_eqb g x = false) by (apply rule_eqb_neq; apply H; left; reflexivity).
  rewrite Hg. destruct (remove_first rule_eqb g l) as [l'|]; [|reflexivity].
  apply IH. intros g' Hg'. apply H. right. exact Hg'.
Qed.

Lemma remove_seq_filter (m : rule -> bool) : forall l,
  remove_seq (filter m l) l = Some (filter (fun r => negb (m r)) l).
Proof.
  induction l as [|x l IH]; simpl; [reflexivity|].
  destruct (m x) eqn:Ex; simpl.
  - rewrite rule_eqb_refl. exact IH.
  - rewrite remove_seq_skip.
    + rewrite IH. reflexivity.
    + intros g Hg ->. apply filter_In in Hg. destruct Hg as [_ Hg]. congruence.
Qed.

Lemma remove_seq_loop (F : pv -> pst -> out) (mk : list rule -> pv -> pst) :
  (forall r p r0, F (PL r) (mk p r0) =
     match remove_first rule_eqb r p with Some p' => ONext (mk p' (PL r)) | None => OErr EValue (mk p (PL r)) end) ->
  forall gs p p' r0, remove_seq gs p = Some p' ->
  exists r', for_each F (map PL gs) (mk p r0) = ONext (mk p' r').
Proof.
  intro HF. induction gs as [|g t IH]; intros p p' r0 H; simpl in *.
  - inversion H. exists r0. reflexivity.
  - rewrite HF. destruct (remove_first rule_eqb g p) as [p1|]; [|discriminate]. apply IH. exact H.
Qed.

Lemma Z_add_of_nat a b : (Z.of_nat a + Z.of_nat b)%Z = Z.of_nat (a + b).
Proof. lia. Qed.

Definition res_rf (r : result (store * bool)) (l : store) : result pv * list rule :=
  match r with Ok (l', b) => (Ok (PB b), l') | Err c => (Err c, l) end.

(* evaluates the condition "all(value == "" or rule[field_index + i] == value for ...)" of the current goal to
   filter_match r fi vs *)
Ltac filter_cond r fi vs :=
  match goal with |- context [eval ?P ?E (S ?n) ?s (XAllEnum ?i ?v ?l0 ?body)] =>
    rewrite (eval_allenum P E n s i v l0 body (map PA vs) eq_refl) end;
  match goal with |- context [all_each ?G (enum_from 0 (map PA vs))] =>
    rewrite (filter_all G r fi);
    [ rewrite Nat.add_0_r
    | let k := fresh "k" in let v := fresh "v" in
      intros k v; cbv beta iota;
      match goal with |- ?lhs = _ => let t := lz lhs in change lhs with t end;
      rewrite Z_add_of_nat, norm_idx_of_nat; destruct (v =? 0); [reflexivity|];
      let Hlt := fresh "Hlt" in let Ea := fresh "Ea" in
      destruct (Nat.ltb_spec (fi + k) (length r)) as [Hlt|Hlt];
      [ destruct (nth_error r (fi + k)) eqn:Ea; [reflexivity | apply nth_error_None in Ea; lia]
      | rewrite (proj2 (nth_error_None r (fi + k)) Hlt); reflexivity ] ]
  end.

(* rewrite with a loop equation up to conversion (type aliases rule / list name differ syntactically) *)
Ltac rew_loop H :=
  match type of H with ?lhs = _ =>
    match goal with |- context [for_each ?F ?its ?s] => change (for_each F its s) with lhs end
  end; rewrite H.

Ltac fin_acc :=
  cbv [set_loc set_pol upd key_eqb Pos.eqb]; cbn [pol loc];
  try reflexivity;
  repeat match goal with acc : list rule |- _ => destruct acc end; reflexivity.

Lemma tie_remove_filtered_policy sp pi tk l fi vs :
  run policy_gen (mkE sp pi tk) FUEL m_remove_filtered_policy l [PI (Z.of_nat fi); PL vs] =
  res_rf (remove_filtered l fi vs) l.
Proof.
  start. sym'.
  match goal with |- context [for_each ?F (map PL l) _] =>
    pose proof (filter_loop F
      (fun acc res r => {| pol := l; loc := [(1, PI (Z.of_nat fi)); (2, PL vs); (8, enc acc); (18, PB res); (3, r); (4, PUnbound); (5, PUnbound)] |})
      fi vs) as HL end.
  cbv beta in HL.
  assert (HP : forall (r : list name) (acc : list rule) (res : bool) (r0 : pv),
     block policy_gen (mkE sp pi tk) 54
       (set_loc 3 (PL r) {| pol := l; loc := [(1, PI (Z.of_nat fi)); (2, PL vs); (8, enc acc); (18, PB res); (3, r0); (4, PUnbound); (5, PUnbound)] |})
       [SIf (XAllEnum 4 5 (XVar 2) (XOr (XCmp CEq (XVar 5) (XS 0)) (XCmp CEq (XIdx (XVar 3) (XAdd (XVar 1) (XVar 4))) (XVar 5))))
          [SAssign 18 (XB true); SLocAppend 8 (XVar 3)] []] =
     match filter_match r fi vs with
     | Some true => ONext {| pol := l; loc := [(1, PI (Z.of_nat fi)); (2, PL vs); (8, enc (acc ++ [r])); (18, PB true); (3, PL r); (4, PUnbound); (5, PUnbound)] |}
     | Some false => ONext {| pol := l; loc := [(1, PI (Z.of_nat fi)); (2, PL vs); (8, enc acc); (18, PB res); (3, PL r); (4, PUnbound); (5, PUnbound)] |}
     | None => OErr EIndex {| pol := l; loc := [(1, PI (Z.of_nat fi)); (2, PL vs); (8, enc acc); (18, PB res); (3, PL r); (4, PUnbound); (5, PUnbound)] |}
     end).
  { intros r acc res r0.
    rewrite (block_step _ _ _ _ _ _ _ eq_refl).
    rewrite (exec_if _ _ _ _ _ _ _ _ eq_refl).
    filter_cond r fi vs.
    destruct (filter_match r fi vs) as [[|]|]; cbn [rbind truth]; cbv beta iota; sym'; fin_acc. }
  specialize (HL HP l [] false PUnbound). clear HP.
  unfold remove_filtered.
  destruct (split_filtered l fi vs) as [[kept gone]|c] eqn:Es; cbn [res_rf].
  - destruct HL as (r' & HL). rew_loop HL. clear HL. cbv beta iota. cbn [app orb].
    destruct (split_filtered_spec _ _ _ _ _ Es) as [Hg Hk].
    pose proof (remove_seq_filter (fm_true fi vs) l) as Hseq. rewrite <- Hg, <- Hk in Hseq.
    clear Hg Hk Es. destruct gone as [|g0 gs0].
    + simpl in Hseq. inversion Hseq; subst kept. cbn [enc is_nil negb]. sym'. reflexivity.
    + cbn [enc is_nil negb]. step. step.
      match goal with |- context [for_each ?F (map PL (g0 :: gs0)) _] =>
        destruct (remove_seq_loop F
          (fun p r => {| pol := p; loc := [(1, PI (Z.of_nat fi)); (2, PL vs); (8, PLL (g0 :: gs0)); (18, PB true); (3, r); (4, PUnbound); (5, PUnbound)] |}))
          with (gs := g0 :: gs0) (p := l) (p' := kept) (r0 := r') as (r2 & Hl2); [| exact Hseq |] end.
      * intros r p r0. cbv beta iota. sym'; fin_acc.
      * rew_loop Hl2. cbv beta iota. sym'. reflexivity.
  - destruct HL as (acc' & res' & r' & HL). rew_loop HL. rewrite (split_filtered_err_code _ _ _ _ Es). reflexivity.
Qed.

Lemma get_filtered_each (H : rule -> result bool) fi vs :
  (forall r, H r = match filter_match r fi vs with Some b => Ok b | None => Err EIndex end) ->
  forall l, filter_each H l = match get_filtered l fi vs with Ok out => Ok out | Err _ => Err EIndex end.
Proof.
  intro HH. induction l as [|x l IH]; simpl; [reflexivity|].
  rewrite HH. destruct (filter_match x fi vs) as [b|]; [|reflexivity].
  rewrite IH. destruct (get_filtered l fi vs); reflexivity.
Qed.

Lemma get_filtered_err_code : forall l i vs c, get_filtered l i vs = Err c -> c = EIndex.
Proof.
  induction l as [|x l IH]; intros i vs c H; simpl in H; [discriminate|].
  destruct (filter_match x i vs) as [b|]; [|inversion H; reflexivity].
  destruct (get_filtered l i vs) as [o|c'] eqn:E; [discriminate|].
  inversion H; subst. eapply IH. exact E.
Qed.

Lemma tie_get_filtered_policy sp pi tk l fi vs :
  run policy_gen (mkE sp pi tk) FUEL m_get_filtered_policy l [PI (Z.of_nat fi); PL vs] =
  (match get_filtered l fi vs with Ok out => Ok (PLL out) | Err c => Err c end, l).
Proof.
  start.
  rewrite (block_step _ _ _ _ _ _ _ eq_refl). rewrite exec_return.
  match goal with |- context [eval ?P ?E (S ?n) ?s (XFilterComp ?x ?e ?c)] =>
    rewrite (eval_filtercomp P E n s x e c l eq_refl) end.
  match goal with |- context [filter_each ?H l] => rewrite (get_filtered_each H fi vs) end.
  - destruct (get_filtered l fi vs) as [out|c] eqn:Eg; cbn [rbind]; cbv beta iota.
    + reflexivity.
    + rewrite (get_filtered_err_code _ _ _ _ Eg). reflexivity.
  - intro r. cbv beta.
    filter_cond r fi vs.
    destruct (filter_match r fi vs) as [[|]|]; reflexivity.
Qed.

Definition res_eff (r : result (store * list rule)) (l : store) : result pv * list rule :=
  match r with Ok (l', gone) => (Ok (enc gone), l') | Err c => (Err c, l) end.

Lemma tie_remove_filtered_policy_returns_effects sp pi tk l fi vs :
  run policy_gen (mkE sp pi tk) FUEL m_remove_filtered_policy_returns_effects l [PI (Z.of_nat fi); PL vs] =
  res_eff (remove_filtered_effects l fi vs) l.
Proof.
  start. sym'.
  { (* no filter values *)
    destruct vs as [|v vs]; [reflexivity|].
    exfalso. match goal with H : (Z.of_nat (length (v :: vs)) =? 0)%Z = true |- _ => apply Z.eqb_eq in H; simpl length in H; lia end. }
  assert (Hvs : vs <> []).
  { intros ->. match goal with H : (Z.of_nat (length (@nil name)) =? 0)%Z = false |- _ => simpl in H; discriminate H end. }
  match goal with |- context [for_each ?F (map PL l) _] =>
    pose proof (filter_loop F
      (fun acc (res : bool) r => {| pol := l; loc := [(1, PI (Z.of_nat fi)); (2, PL vs); (8, PNil); (17, enc acc); (3, r); (4, PUnbound); (5, PUnbound)] |})
      fi vs) as HL end.
  cbv beta in HL.
  assert (HP : forall (r : list name) (acc : list rule) (res : bool) (r0 : pv),
     block policy_gen (mkE sp pi tk) 53
       (set_loc 3 (PL r) {| pol := l; loc := [(1, PI (Z.of_nat fi)); (2, PL vs); (8, PNil); (17, enc acc); (3, r0); (4, PUnbound); (5, PUnbound)] |})
       [SIf (XAllEnum 4 5 (XVar 2) (XOr (XCmp CEq (XVar 5) (XS 0)) (XCmp CEq (XIdx (XVar 3) (XAdd (XVar 1) (XVar 4))) (XVar 5))))
          [SLocAppend 17 (XVar 3)] []] =
     match filter_match r fi vs with
     | Some true => ONext {| pol := l; loc := [(1, PI (Z.of_nat fi)); (2, PL vs); (8, PNil); (17, enc (acc ++ [r])); (3, PL r); (4, PUnbound); (5, PUnbound)] |}
     | Some false => ONext {| pol := l; loc := [(1, PI (Z.of_nat fi)); (2, PL vs); (8, PNil); (17, enc acc); (3, PL r); (4, PUnbound); (5, PUnbound)] |}
     | None => OErr EIndex {| pol := l; loc := [(1, PI (Z.of_nat fi)); (2, PL vs); (8, PNil); (17, enc acc); (3, PL r); (4, PUnbound); (5, PUnbound)] |}
     end).
  { intros r acc res r0.
    rewrite (block_step _ _ _ _ _ _ _ eq_refl).
    rewrite (exec_if _ _ _ _ _ _ _ _ eq_refl).
    filter_cond r fi vs.
    destruct (filter_match r fi vs) as [[|]|]; cbn [rbind truth]; cbv beta iota; sym'; fin_acc. }
  specialize (HL HP l [] false PUnbound). clear HP.
  unfold remove_filtered_effects. destruct vs as [|v0 vs0]; [contradiction|]. set (vs := v0 :: vs0) in *.
  destruct (split_filtered l fi vs) as [[kept gone]|c] eqn:Es; cbn [res_eff].
  - destruct HL as (r' & HL). rew_loop HL. clear HL. cbv beta iota. cbn [app].
    destruct (split_filtered_spec _ _ _ _ _ Es) as [Hg Hk].
    pose proof (remove_seq_filter (fm_true fi vs) l) as Hseq. rewrite <- Hg, <- Hk in Hseq.
    clear Hg Hk Es. destruct gone as [|g0 gs0].
    + simpl in Hseq. inversion Hseq; subst kept. cbn [enc]. sym'. reflexivity.
    + cbn [enc]. step. step.
      match goal with |- context [for_each ?F (map PL (g0 :: gs0)) _] =>
        destruct (remove_seq_loop F
          (fun p r => {| pol := p; loc := [(1, PI (Z.of_nat fi)); (2, PL vs); (8, PNil); (17, PLL (g0 :: gs0)); (3, r); (4, PUnbound); (5, PUnbound)] |}))
          with (gs := g0 :: gs0) (p := l) (p' := kept) (r0 := r') as (r2 & Hl2); [| exact Hseq |] end.
      * intros r p r0. cbv beta iota. sym'; fin_acc.
      * rew_loop Hl2. cbv beta iota. sym'. reflexivity.
  - destruct HL as (acc' & res' & r' & HL). rew_loop HL. rewrite (split_filtered_err_code _ _ _ _ Es). reflexivity.
Qed.

(* ------------------------------------------------------------------ get_values_for_field_in_policy *)
Definition encn (acc : list name) : pv := match acc with [] => PNil | _ => PL acc end.

Lemma memN_app (x : name) a b : mem N.eqb x (a ++ b) = mem N.eqb x a || mem N.eqb x b.
Proof. induction a as [|y a IH]; simpl; [reflexivity|]. rewrite IH, orb_assoc. reflexivity. Qed.

Lemma memN_rev (x : name) l : mem N.eqb x (rev l) = mem N.eqb x l.
Proof.
  induction l as [|y l IH]; simpl; [reflexivity|].
  rewrite memN_app, IH. simpl. rewrite orb_false_r. apply orb_comm.
Qed.

Lemma values_loop (F : pv -> pst -> out) (mk : list name -> pv -> pv -> pst) (fi : nat) :
  (forall r acc r0 v0, F (PL r) (mk acc r0 v0) =
     match nth_error r fi with
     | None => OErr EIndex (mk acc (PL r) v0)
     | Some v => ONext (mk (if mem N.eqb v acc then acc else acc ++ [v]) (PL r) (PA v))
     end) ->
  forall l acc r0 v0,
  match values_for_field l fi (rev acc) with
  | Ok out => exists r' v', for_each F (map PL l) (mk acc r0 v0) = ONext (mk out r' v')
  | Err _ => exists acc' r' v', for_each F (map PL l) (mk acc r0 v0) = OErr EIndex (mk acc' r' v')
  end.
Proof.
  intro HF. induction l as [|x l IH]; intros acc r0 v0.
  - simpl. rewrite rev_involutive. eexists _, _. reflexivity.
  - cbn [values_for_field map for_each]. rewrite HF. unfold field.
    destruct (nth_error x fi) as [v|]; cbv beta iota; [|eexists _, _, _; reflexivity].
    specialize (IH (if mem N.eqb v acc then acc else acc ++ [v]) (PL x) (PA v)).
    rewrite memN_rev.
    replace (rev (if mem N.eqb v acc then acc else acc ++ [v])) with (if mem N.eqb v acc then rev acc else v :: rev acc) in IH
      by (destruct (mem N.eqb v acc); [reflexivity | rewrite rev_app_distr; reflexivity]).
    exact IH.
Qed.

Lemma values_for_field_err_code : forall l i acc c, values_for_field l i acc = Err c -> c = EIndex.
Proof.
  induction l as [|x l IH]; intros i acc c H; simpl in H; [discriminate|].
  destruct (field x i) as [v|]; [|inversion H; reflexivity]. eapply IH. exact H.
Qed.

Ltac fin_v :=
  norm_hyps;
  repeat match goal with
  | H1 : ?x = Some ?a, H2 : ?x = Some ?b |- _ => rewrite H1 in H2; inversion H2; subst; clear H2
  | H1 : ?x = Some _, H2 : ?x = None |- _ => rewrite H1 in H2; discriminate H2
  end;
  subst; cbn [encn app mem] in *;
  repeat match goal with H : mem _ _ _ = _ |- _ => rewrite H in * end;
  try reflexivity; try discriminate; try contra.

Lemma values_body sp pi tk l fi (r acc : list name) (r0 v0 : pv) :
  block policy_gen (mkE sp pi tk) 55
    (set_loc 3 (PL r) {| pol := l; loc := [(1, PI (Z.of_nat fi)); (19, encn acc); (3, r0); (5, v0)] |})
    [SAssign 5 (XIdx (XVar 3) (XVar 1)); SIf (XNot (XIn (XVar 5) (XVar 19))) [SLocAppend 19 (XVar 5)] []] =
  match nth_error r fi with
  | None => OErr EIndex {| pol := l; loc := [(1, PI (Z.of_nat fi)); (19, encn acc); (3, PL r); (5, v0)] |}
  | Some v => ONext {| pol := l; loc := [(1, PI (Z.of_nat fi)); (19, encn (if mem N.eqb v acc then acc else acc ++ [v])); (3, PL r); (5, PA v)] |}
  end.
Proof. sym'. all: fin_v. Qed.

Lemma tie_get_values_for_field sp pi tk l fi :
  run policy_gen (mkE sp pi tk) FUEL m_get_values_for_field_in_policy l [PI (Z.of_nat fi)] =
  (match values_for_field l fi [] with Ok out => Ok (encn out) | Err c => Err c end, l).
Proof.
  match goal with |- _ = ?rhs => set (R := rhs) end. start. sym'. subst R.
  match goal with |- context [for_each ?F (map PL l) _] =>
    pose proof (values_loop F
      (fun acc r v => {| pol := l; loc := [(1, PI (Z.of_nat fi)); (19, encn acc); (3, r); (5, v)] |}) fi
      (values_body sp pi tk l fi) l [] PUnbound PUnbound) as HL end.
  cbn [rev] in HL.
  destruct (values_for_field l fi []) as [out|c] eqn:Ev.
  - destruct HL as (r' & v' & HL). rew_loop HL. cbv beta iota. sym'; reflexivity.
  - destruct HL as (acc' & r' & v' & HL). rew_loop HL. rewrite (values_for_field_err_code _ _ _ _ Ev). reflexivity.
Qed.

(* ------------------------------------------------------------------ update_policies *)
Lemma index_of_set_nth_other (o1 o2 n : rule) : forall l i,
  index_of rule_eqb o1 l = Some i -> o2 <> o1 -> o2 <> n ->
  index_of rule_eqb o2 (set_nth i n l) = index_of rule_eqb o2 l.
Proof.
  induction l as [|x t IH]; intros i H H1 H2; simpl in H; [discriminate|].
  destruct (rule_eqb o1 x) eqn:E.
  - inversion H; subst. apply rule_eqb_eq in E. subst x. simpl.
    apply rule_eqb_neq in H1, H2. rewrite H1, H2. reflexivity.
  - destruct (index_of rule_eqb o1 t) as [j|] eqn:Ej; [|discriminate]. inversion H; subst. simpl.
    destruct (rule_eqb o2 x); [reflexivity|]. rewrite (IH j eq_refl H1 H2). reflexivity.
Qed.

Fixpoint write_seq (l : store) (olds news : list rule) : option store :=
  match olds, news with
  | o :: os, n :: ns => match index_of rule_eqb o l with
                        | Some i => write_seq (set_nth i n l) os ns
                        | None => None
                        end
  | _, _ => Some l
  end.

Lemma indices_of_set_nth (o n : rule) i : forall os l,
  index_of rule_eqb o l = Some i -> (forall x, In x os -> x <> o /\ x <> n) ->
  indices_of (set_nth i n l) os = indices_of l os.
Proof.
  induction os as [|x os IH]; intros l Hi H; simpl; [reflexivity|].
  destruct (H x (or_introl eq_refl)) as [H1 H2].
  rewrite (index_of_set_nth_other o x n l i Hi H1 H2), IH; [reflexivity | exact Hi | intros y Hy; apply H; right; exact Hy].
Qed.

Lemma write_seq_spec : forall olds news l idxs,
  indices_of l olds = Some idxs -> nodupb rule_eqb olds = true ->
  (forall o n, In o olds -> In n news -> o <> n) ->
  write_seq l olds news = Some (write_all l idxs news).
Proof.
  induction olds as [|o os IH]; intros news l idxs Hi Hn Hd; simpl in *.
  - inversion Hi; subst. destruct news; reflexivity.
  - destruct (index_of rule_eqb o l) as [i|] eqn:Ei; [|discriminate].
    destruct (indices_of l os) as [ri|] eqn:Er; [|discriminate]. inversion Hi; subst.
    destruct news as [|n ns]; [reflexivity|]. simpl.
    apply andb_true_iff in Hn. destruct Hn as [Hno Hns]. apply negb_true_iff in Hno.
    apply IH; [|exact Hns|].
    + rewrite (indices_of_set_nth o n i os l Ei); [exact Er|].
      intros x Hx. split.
      * intros ->. apply mem_false_notin in Hno. contradiction.
      * apply Hd; [right; exact Hx | left; reflexivity].
    + intros o' n' Ho' Hn'. apply Hd; right; assumption.
Qed.

Lemma zip_map_PL (olds news : list rule) : zip (map PL olds) (map PL news) = map (fun '(o, n) => (PL o, PL n)) (zip olds news).
Proof.
  revert news. induction olds as [|o os IH]; intros [|n ns]; simpl; try reflexivity. rewrite IH. reflexivity.
Qed.

Lemma zip_write_loop (F : pv * pv -> pst -> out) (mk : list rule -> pv -> pv -> pst) :
  (forall o n p o0 n0, F (PL o, PL n) (mk p o0 n0) =
     match index_of rule_eqb o p with
     | Some i => ONext (mk (set_nth i n p) (PL o) (PL n))
     | None => OErr EValue (mk p (PL o) (PL n))
     end) ->
  forall olds news p p' o0 n0, write_seq p olds news = Some p' ->
  exists o' n', for_each F (zip (map PL olds) (map PL news)) (mk p o0 n0) = ONext (mk p' o' n').
Proof.
  intro HF. induction olds as [|o os IH]; intros news p p' o0 n0 H; simpl in H.
  - inversion H; subst. exists o0, n0. reflexivity.
  - destruct news as [|n ns]; simpl in H |- *.
    + inversion H; subst. exists o0, n0. reflexivity.
    + rewrite HF. destruct (index_of rule_eqb o p) as [i|]; [|discriminate]. apply IH. exact H.
Qed.

Lemma zip_prio_loop (F : pv * pv -> pst -> out) (mk : pv -> pv -> pst) (k : nat) :
  (forall o n o0 n0, F (PL o, PL n) (mk o0 n0) =
     match nth_error o k with
     | None => OErr EIndex (mk (PL o) (PL n))
     | Some a => match nth_error n k with
                 | None => OErr EIndex (mk (PL o) (PL n))
                 | Some b => if a =? b then ONext (mk (PL o) (PL n)) else OErr EPriorityMismatch (mk (PL o) (PL n))
                 end
     end) ->
  forall olds news o0 n0,
  exists o' n', for_each F (zip (map PL olds) (map PL news)) (mk o0 n0) =
    match prio_check k olds news with Ok _ => ONext (mk o' n') | Err c => OErr c (mk o' n') end.
Proof.
  intro HF. induction olds as [|o os IH]; intros news o0 n0; simpl.
  - exists o0, n0. reflexivity.
  - destruct news as [|n ns]; simpl; [exists o0, n0; reflexivity|].
    rewrite HF. unfold field.
    destruct (nth_error o k) as [a|]; [|eexists _, _; reflexivity].
    destruct (nth_error n k) as [b|]; [|eexists _, _; reflexivity].
    destruct (a =? b); [apply IH | eexists _, _; reflexivity].
Qed.

Lemma indices_of_some l : forall olds, forallb (has_policy l) olds = true <-> exists idxs, indices_of l olds = Some idxs.
Proof.
  induction olds as [|o os IH]; simpl.
  - split; [intros _; eexists; reflexivity | reflexivity].
  - rewrite andb_true_iff, IH. unfold has_policy. split.
    + intros [Ho [idxs Hi]]. destruct (index_of rule_eqb o l) as [i|] eqn:E; [|exfalso; eapply mem_index_of; eassumption].
      rewrite Hi. eexists; reflexivity.
    + intros [idxs H]. destruct (index_of rule_eqb o l) as [i|] eqn:E; [|discriminate].
      destruct (indices_of l os) as [ri|]; [|discriminate]. split; [|eexists; reflexivity].
      destruct (mem rule_eqb o l) eqn:Em; [reflexivity|]. rewrite (index_of_mem _ _ Em) in E. discriminate.
Qed.

Lemma of_nat_eqb a b : (Z.of_nat a =? Z.of_nat b)%Z = Nat.eqb a b.
Proof.
  destruct (Nat.eqb_spec a b) as [->|H]; [apply Z.eqb_refl|]. apply Z.eqb_neq. lia.
Qed.

Ltac step_to_zip :=
  repeat (lazymatch goal with |- context [for_each _ (zip _ _) _] => fail | _ => step end).

Ltac fin_w :=
  norm_hyps;
  repeat match goal with
  | H1 : ?x = Some ?a, H2 : ?x = Some ?b |- _ => rewrite H1 in H2; inversion H2; subst; clear H2
  | H1 : ?x = Some _, H2 : ?x = None |- _ => rewrite H1 in H2; discriminate H2
  end;
  cbv [set_loc set_pol upd key_eqb Pos.eqb]; cbn [pol loc];
  try reflexivity; try contra.

Lemma tie_update_policies sp pi tk l olds news :
  run policy_gen (mkE sp pi tk) FUEL m_update_policies l [PLL olds; PLL news] =
  res_pair (update_policies tk l olds news) l.
Proof.
  match goal with |- _ = ?rhs => set (R := rhs) end. start. sym'.
  2: { (* lengths differ *)
    subst R. unfold update_policies. rewrite of_nat_eqb in *.
    match goal with H : Nat.eqb _ _ = false |- _ => rewrite H end. reflexivity. }
  match goal with H : (Z.of_nat _ =? _)%Z = true |- _ => rewrite of_nat_eqb in H; rename H into Hlen end.
  (* loop 1: every old rule present, none repeated *)
  match goal with |- context [for_each ?F (enum_from 0 (map PL olds)) _] =>
    destruct (check_loop F (fun i r => {| pol := l; loc := [(14, PLL olds); (15, PLL news); (4, i); (10, r); (11, PUnbound); (13, PUnbound)] |})
                (fun r => negb (has_policy l r)) olds) with (suf := olds) (pre := @nil rule) (i0 := PUnbound) (r0 := PUnbound)
      as (i1 & o1 & Hloop1) end.
  { intros k r i0 r0. cbv beta iota. sym'. all: fin_pt. }
  { reflexivity. }
  cbn [length] in Hloop1. rew_loop Hloop1. clear Hloop1. rewrite nodup_pre_nil, forallb_negb_negb.
  destruct (forallb (has_policy l) olds) eqn:Hpres; cbn [andb]; cbv beta iota.
  2: { subst R. unfold update_policies. rewrite Hlen. cbn [negb].
       destruct (nodupb rule_eqb olds); cbn [negb]; [|reflexivity].
       destruct (indices_of l olds) as [idxs|] eqn:Ei; [|reflexivity].
       assert (forallb (has_policy l) olds = true) by (apply indices_of_some; eexists; exact Ei). congruence. }
  destruct (nodupb rule_eqb olds) eqn:Hnd; cbv beta iota.
  2: { subst R. unfold update_policies. rewrite Hlen, Hnd. reflexivity. }
  destruct (proj1 (indices_of_some l olds) Hpres) as [idxs Hidx].
  step. step.
  (* loop 2: no new rule present, none repeated *)
  match goal with |- context [for_each ?F (enum_from 0 (map PL news)) _] =>
    destruct (check_loop F (fun i r => {| pol := l; loc := [(14, PLL olds); (15, PLL news); (4, i); (10, o1); (11, r); (13, PUnbound)] |})
                (fun r => has_policy l r) news) with (suf := news) (pre := @nil rule) (i0 := i1) (r0 := PUnbound)
      as (i2 & n2 & Hloop2) end.
  { intros k r i0 r0. cbv beta iota. sym'. all: fin_pt. }
  { reflexivity. }
  cbn [length] in Hloop2. rew_loop Hloop2. clear Hloop2. rewrite <- (batch_addable_pre l news [] []) by reflexivity.
  destruct (batch_addable l [] news) eqn:Hadd; cbv beta iota.
  2: { subst R. unfold update_policies. rewrite Hlen, Hnd, Hidx, Hadd. reflexivity. }
  assert (Hws : write_seq l olds news = Some (write_all l idxs news)).
  { apply write_seq_spec; [exact Hidx | exact Hnd |]. intros o n Ho Hn ->.
    rewrite forallb_forall in Hpres. specialize (Hpres n Ho).
    rewrite (batch_addable_pre l news [] []) in Hadd by reflexivity. apply andb_true_iff in Hadd.
    destruct Hadd as [Ha _]. rewrite forallb_forall in Ha. specialize (Ha n Hn). rewrite Hpres in Ha. discriminate. }
  subst R. unfold update_policies. rewrite Hlen, Hnd, Hidx, Hadd. cbn [negb].
  destruct tk as [k|].
  - (* a priority column: the pairs are compared first *)
    step_to_zip.
    match goal with |- context [for_each ?F (zip (map PL olds) (map PL news)) _] =>
      destruct (zip_prio_loop F
        (fun o n => {| pol := l; loc := [(14, PLL olds); (15, PLL news); (4, i2); (10, o); (11, n); (13, PI (Z.of_nat k))] |}) k)
        with (olds := olds) (news := news) (o0 := o1) (n0 := n2) as (o3 & n3 & Hloop3) end.
    { intros o n o0 n0. cbv beta iota. sym'. all: fin_v. }
    rew_loop Hloop3. clear Hloop3.
    destruct (prio_check k olds news) as [u|c]; cbv beta iota; [|sym'; reflexivity].
    step_to_zip.
    match goal with |- context [for_each ?F (zip (map PL olds) (map PL news)) _] =>
      destruct (zip_write_loop F
        (fun p o n => {| pol := p; loc := [(14, PLL olds); (15, PLL news); (4, i2); (10, o); (11, n); (13, PI (Z.of_nat k))] |}))
        with (olds := olds) (news := news) (p := l) (p' := write_all l idxs news) (o0 := o3) (n0 := n3) as (o4 & n4 & Hloop4);
        [| exact Hws |] end.
    { intros o n p o0 n0. cbv beta iota. sym'. all: fin_w. }
    rew_loop Hloop4. cbv beta iota. sym'. reflexivity.
  - step_to_zip.
    match goal with |- context [for_each ?F (zip (map PL olds) (map PL news)) _] =>
      destruct (zip_write_loop F
        (fun p o n => {| pol := p; loc := [(14, PLL olds); (15, PLL news); (4, i2); (10, o); (11, n); (13, PUnbound)] |}))
        with (olds := olds) (news := news) (p := l) (p' := write_all l idxs news) (o0 := o1) (n0 := n2) as (o4 & n4 & Hloop4);
        [| exact Hws |] end.
    { intros o n p o0 n0. cbv beta iota. sym'. all: fin_w. }
    rew_loop Hloop4. cbv beta iota. sym'. reflexivity.
Qed.

(* ------------------------------------------------------------------ add_policy on a model with a priority column *)
(* ---------------------------------------------------------------- list facts *)
Lemma nth_error_app_len {A} (pre : list A) x t m : length pre = m -> nth_error (pre ++ x :: t) m = Some x.
Proof. intros <-. rewrite nth_error_app2 by lia. rewrite Nat.sub_diag. reflexivity. Qed.

Lemma nth_error_app_len_S {A} (pre : list A) x y t m : length pre = m -> nth_error (pre ++ x :: y :: t) (S m) = Some y.
Proof. intros <-. rewrite nth_error_app2 by lia. replace (S (length pre) - length pre)%nat with 1%nat by lia. reflexivity. Qed.

Lemma set_nth_app_len {A} (pre : list A) x t m v : length pre = m -> set_nth m v (pre ++ x :: t) = pre ++ v :: t.
Proof. intros <-. induction pre as [|a pre IH]; simpl; [reflexivity|]. rewrite IH. reflexivity. Qed.

Lemma set_nth_app_len_S {A} (pre : list A) x y t m v : length pre = m ->
  set_nth (S m) v (pre ++ x :: y :: t) = pre ++ x :: v :: t.
Proof. intros <-. induction pre as [|a pre IH]; simpl; [reflexivity|]. simpl in IH. rewrite IH. reflexivity. Qed.

Lemma ltb_app_len {A} (pre : list A) x t m : length pre = m -> (m <? length (pre ++ x :: t))%nat = true.
Proof. intros <-. apply Nat.ltb_lt. rewrite app_length. simpl. lia. Qed.

Lemma ltb_app_len_S {A} (pre : list A) x y t m : length pre = m -> (S m <? length (pre ++ x :: y :: t))%nat = true.
Proof. intros <-. apply Nat.ltb_lt. rewrite app_length. simpl. lia. Qed.

Lemma of_nat_S_pred m : (Z.of_nat (S m) - 1)%Z = Z.of_nat m.
Proof. lia. Qed.

Lemma of_N_ltb a b : (Z.of_N a <? Z.of_N b)%Z = (a <? b).
Proof.
  destruct (N.ltb_spec a b) as [H|H]; [apply Z.ltb_lt | apply Z.ltb_ge]; lia.
Qed.

Section Exec.
  Variable P : prog.
  Variable E : penv.
  Lemma exec_for_down n s i from body z : eval P E n s from = Ok (PI z) ->
    exec P E (S n) s (SForDown i from body) =
    for_each (fun k s' => block P E n (set_loc i (PI k) s') body) (down_from (Z.to_nat z)) s.
  Proof.
    intro H.
    change (exec P E (S n) s (SForDown i from body)) with
      (match eval P E n s from with
       | Ok (PI z) => for_each (fun k s' => block P E n (set_loc i (PI k) s') body) (down_from (Z.to_nat z)) s
       | Ok _ => OErr EType s
       | Err c => OErr c s
       end).
    rewrite H. reflexivity.
  Qed.
End Exec.

Definition mkP (r : rule) (k : N) (p : list rule) (i idx tmp : pv) : pst :=
  {| pol := p; loc := [(3, PL r); (6, PI (Z.of_N k)); (4, i); (7, idx); (8, tmp)] |}.

Definition BODY : list st :=
  [STry [SAssign 7 (XInt (XIdx (XIdx XPol (XSub (XVar 4) (XI 1))) XPrioIndex))];
   SIf (XCmp CGt (XVar 7) (XVar 6))
     [SAssign 8 (XIdx XPol (XVar 4)); SPolSet (XVar 4) (XIdx XPol (XSub (XVar 4) (XI 1)));
      SPolSet (XSub (XVar 4) (XI 1)) (XVar 8)] [SBreak]].

Ltac psimp Hlen Hpi Hx Hd0 Hd1 :=
  rewrite ?of_nat_S_pred, ?norm_idx_of_nat;
  rewrite ?(ltb_app_len _ _ _ _ Hlen), ?(ltb_app_len_S _ _ _ _ _ Hlen), ?(nth_error_app_len _ _ _ _ Hlen),
          ?(nth_error_app_len_S _ _ _ _ _ Hlen); cbv beta iota;
  rewrite ?norm_idx_of_nat, ?Hpi, ?Hx; cbv beta iota; rewrite ?Hd0, ?Hd1; cbv beta iota.

(* one round of the swap loop: the new rule r stands at position S m, its left neighbour is x *)
Lemma bubble_body tk (pi : nat) n r k pre x kx post m i0 idx0 tmp0 :
  length pre = m -> nth_error x pi = Some kx -> digit_atom kx = true ->
  block policy_gen (mkE true (Z.of_nat pi) tk) (20 + n)
    (set_loc 4 (PI (Z.of_nat (S m))) (mkP r k (pre ++ x :: r :: post) i0 idx0 tmp0)) BODY =
  if k <? kx
  then ONext (mkP r k (pre ++ r :: x :: post) (PI (Z.of_nat (S m))) (PI (Z.of_N kx)) (PL r))
  else OBrk (mkP r k (pre ++ x :: r :: post) (PI (Z.of_nat (S m))) (PI (Z.of_N kx)) tmp0).
Proof.
  intros Hlen Hx Hd. unfold BODY, mkP. cbn [Nat.add].
  assert (Hpi : (pi <? length x)%nat = true).
  { apply Nat.ltb_lt. apply nth_error_Some. rewrite Hx. discriminate. }
  unfold digit_atom in Hd. apply andb_true_iff in Hd. destruct Hd as [Hd0 Hd1].
  step. step. step. psimp Hlen Hpi Hx Hd0 Hd1. psimp Hlen Hpi Hx Hd0 Hd1.
  step. step. step. rewrite of_N_ltb. destruct (k <? kx); cbv beta iota.
  - step. psimp Hlen Hpi Hx Hd0 Hd1. step. psimp Hlen Hpi Hx Hd0 Hd1.
    rewrite (set_nth_app_len_S _ _ _ _ _ _ Hlen). step. psimp Hlen Hpi Hx Hd0 Hd1.
    rewrite (set_nth_app_len _ _ _ _ _ Hlen). step. step. reflexivity.
  - step. reflexivity.
Qed.


Definition digit_field (pi : nat) (x : rule) : bool :=
  match nth_error x pi with Some kx => digit_atom kx | None => false end.

Lemma bubble_loop tk (pi : nat) n r k : forall pre post i0 idx0 tmp0,
  forallb (digit_field pi) pre = true ->
  exists i' idx' tmp',
    for_each (fun kz s' => block policy_gen (mkE true (Z.of_nat pi) tk) (20 + n) (set_loc 4 (PI kz) s') BODY)
      (down_from (length pre)) (mkP r k (pre ++ r :: post) i0 idx0 tmp0) =
    ONext (mkP r k (rev (bubble pi k r (rev pre)) ++ post) i' idx' tmp').
Proof.
  induction pre as [|x pre' IH] using rev_ind; intros post i0 idx0 tmp0 Hd.
  - simpl. eexists _, _, _. reflexivity.
  - rewrite forallb_app in Hd. apply andb_true_iff in Hd. destruct Hd as [Hd' Hx]. simpl in Hx.
    rewrite andb_true_r in Hx. unfold digit_field in Hx.
    destruct (nth_error x pi) as [kx|] eqn:Ex; [|discriminate].
    rewrite app_length. simpl length. rewrite Nat.add_1_r. cbn [down_from for_each].
    rewrite <- app_assoc. simpl app.
    pose proof (bubble_body tk pi n r k pre' x kx post (length pre') i0 idx0 tmp0 eq_refl Ex Hx) as Hb.
    match type of Hb with ?lhs = _ => match goal with |- context [match ?b with ONext _ => _ | ORet _ _ => _ | OBrk _ => _ | OErr _ _ => _ end] => change b with lhs end end.
    rewrite Hb. clear Hb.
    rewrite rev_app_distr. simpl rev. simpl bubble. unfold field. rewrite Ex.
    destruct (k <? kx).
    + destruct (IH (x :: post) (PI (Z.of_nat (S (length pre')))) (PI (Z.of_N kx)) (PL r) Hd') as (i' & idx' & tmp' & H).
      exists i', idx', tmp'. cbv beta iota. eapply eq_trans; [exact H|]. simpl rev. rewrite <- app_assoc. reflexivity.
    + eexists _, _, _. simpl rev. rewrite rev_involutive, <- !app_assoc. reflexivity.
Qed.

Lemma of_nat_leb0 k : (0 <=? Z.of_nat k)%Z = true.
Proof. apply Z.leb_le. lia. Qed.

Lemma tie_add_policy_prio tk (pi : nat) l r :
  forallb (digit_field pi) l = true ->
  match nth_error r pi with Some k => digit_atom k = true | None => True end ->
  run policy_gen (mkE true (Z.of_nat pi) tk) FUEL m_add_policy l [PL r] =
  (Ok (PB (snd (add_policy (Some pi) l r))), fst (add_policy (Some pi) l r)).
Proof.
  intros Hl Hr. match goal with |- _ = ?rhs => set (R := rhs) end. start.
  step. step. step.
  destruct (mem rule_eqb r l) eqn:Hm; cbv beta iota.
  { sym'. subst R. unfold add_policy, has_policy. rewrite Hm. reflexivity. }
  step. step. step. step. rewrite of_nat_leb0. cbv beta iota.
  step. step. step. rewrite norm_idx_of_nat.
  destruct (nth_error r pi) as [k|] eqn:Er.
  2: { (* the new rule has no priority field: IndexError, swallowed; the rule stays appended *)
       assert (Hlt : (pi <? length r)%nat = false) by (apply Nat.ltb_ge; apply nth_error_None; exact Er).
       rewrite Hlt. cbv beta iota. sym'. subst R. unfold add_policy, has_policy, insert_by_priority, field.
       rewrite Hm, Er. reflexivity. }
  assert (Hlt : (pi <? length r)%nat = true) by (apply Nat.ltb_lt; apply nth_error_Some; rewrite Er; discriminate).
  rewrite Hlt, Er. cbv beta iota.
  unfold digit_atom in Hr. apply andb_true_iff in Hr. destruct Hr as [Hr0 Hr1]. rewrite Hr0, Hr1. cbv beta iota.
  step. step.
  match goal with |- context [(Z.of_nat (length ?x) - 1)%Z] =>
    replace (Z.of_nat (length x) - 1)%Z with (Z.of_nat (length l)) by (rewrite app_length; simpl length; lia) end.
  match goal with |- context [exec ?P ?E (S ?n) ?s (SForDown ?i ?f ?b)] =>
    rewrite (exec_for_down P E n s i f b (Z.of_nat (length l)) eq_refl) end. rewrite Nat2Z.id.
  destruct (bubble_loop tk pi 30 r k l [] (PI (Z.of_nat (length l))) PUnbound PUnbound Hl) as (i' & idx' & tmp' & HL).
  change (20 + 30)%nat with 50%nat in HL. unfold BODY, mkP in HL. rew_loop HL. clear HL. cbv beta iota.
  rewrite app_nil_r. sym'. subst R. unfold add_policy, has_policy, insert_by_priority, field.
  rewrite Hm, Er. reflexivity.
Qed.

(* ------------------------------------------------------------------ C06, stated of the regenerated source *)
Notation src := (run policy_gen).

Theorem src_has_policy sp pi tk l r :
  src (mkE sp pi tk) FUEL m_has_policy l [PL r] = (Ok (PB (has_policy l r)), l).
Proof. apply tie_has_policy. Qed.

Theorem src_add_is_set_add sp pi tk l r : prio_of sp pi = None ->
  src (mkE sp pi tk) FUEL m_add_policy l [PL r] =
  if has_policy l r then (Ok (PB false), l) else (Ok (PB true), l ++ [r]).
Proof.
  intro H. rewrite (tie_add_policy_noprio _ _ _ _ _ H), add_policy_spec. unfold spec_add.
  destruct (has_policy l r); reflexivity.
Qed.

Theorem src_remove_is_set_remove sp pi tk l r : NoDup l ->
  src (mkE sp pi tk) FUEL m_remove_policy l [PL r] =
  if has_policy l r then (Ok (PB true), filter (neqb r) l) else (Ok (PB false), l).
Proof.
  intro H. rewrite tie_remove_policy, (remove_policy_spec _ _ H). unfold spec_remove.
  destruct (has_policy l r); reflexivity.
Qed.

Theorem src_batch_add_all_or_nothing sp pi tk l rs : prio_of sp pi = None ->
  src (mkE sp pi tk) FUEL m_add_policies l [PLL rs] =
  if forallb (fun r => negb (has_policy l r)) rs && nodupb rule_eqb rs
  then (Ok (PB true), l ++ rs) else (Ok (PB false), l).
Proof.
  intro H. rewrite (tie_add_policies_noprio _ _ _ _ _ H), add_policies_spec. unfold spec_add_batch.
  destruct (forallb (fun r => negb (has_policy l r)) rs && nodupb rule_eqb rs); reflexivity.
Qed.

Theorem src_batch_remove_all_or_nothing sp pi tk l rs : NoDup l ->
  src (mkE sp pi tk) FUEL m_remove_policies l [PLL rs] =
  if forallb (has_policy l) rs && nodupb rule_eqb rs
  then (Ok (PB true), filter (notin rs) l) else (Ok (PB false), l).
Proof.
  intro H. rewrite tie_remove_policies, (remove_policies_spec _ _ H). unfold spec_remove_batch.
  destruct (forallb (has_policy l) rs && nodupb rule_eqb rs); reflexivity.
Qed.

Theorem src_update_in_place sp pi l old new : NoDup l ->
  src (mkE sp pi None) FUEL m_update_policy l [PL old; PL new] =
  if has_policy l old && negb (has_policy l new)
  then (Ok (PB true), replace_rule old new l) else (Ok (PB false), l).
Proof.
  intro H. rewrite tie_update_policy, (update_policy_spec _ _ _ H). unfold spec_update. cbn [res_pair].
  destruct (has_policy l old && negb (has_policy l new)); reflexivity.
Qed.

Theorem src_update_refuses_priority_change sp pi k l old new a b :
  has_policy l old = true -> has_policy l new = false ->
  nth_error old k = Some a -> nth_error new k = Some b -> a <> b ->
  src (mkE sp pi (Some k)) FUEL m_update_policy l [PL old; PL new] = (Err EPriorityMismatch, l).
Proof.
  intros Ho Hn Ha Hb Hab. rewrite tie_update_policy. unfold update_policy, field. unfold has_policy in *.
  destruct (index_of rule_eqb old l) as [i|] eqn:Ei; [|exfalso; eapply mem_index_of; eassumption].
  rewrite Hn, Ha, Hb. apply N.eqb_neq in Hab. rewrite Hab. reflexivity.
Qed.

Theorem src_filtered_remove_exact sp pi tk l fi vs kept gone :
  split_filtered l fi vs = Ok (kept, gone) ->
  src (mkE sp pi tk) FUEL m_remove_filtered_policy l [PI (Z.of_nat fi); PL vs] =
    (Ok (PB (negb (is_nil gone))), kept) /\
  gone = filter (fm_true fi vs) l /\ kept = filter (fun r => negb (fm_true fi vs r)) l.
Proof.
  intro H. split; [|apply split_filtered_spec; exact H].
  rewrite tie_remove_filtered_policy. unfold remove_filtered. rewrite H. destruct gone; reflexivity.
Qed.

(* an IndexError of the filter leaves the store untouched *)
Theorem src_filtered_remove_error_changes_nothing sp pi tk l fi vs c :
  split_filtered l fi vs = Err c ->
  src (mkE sp pi tk) FUEL m_remove_filtered_policy l [PI (Z.of_nat fi); PL vs] = (Err EIndex, l).
Proof.
  intro H. rewrite tie_remove_filtered_policy. unfold remove_filtered. rewrite H.
  rewrite (split_filtered_err_code _ _ _ _ H). reflexivity.
Qed.

Lemma update_policies_false_unchanged tk l olds news l' :
  update_policies tk l olds news = Ok (l', false) -> l' = l.
Proof.
  unfold update_policies.
  destruct (negb (Nat.eqb (length olds) (length news))); [intro H; inversion H; reflexivity|].
  destruct (negb (nodupb rule_eqb olds)); [intro H; inversion H; reflexivity|].
  destruct (indices_of l olds); [|intro H; inversion H; reflexivity].
  destruct (negb (batch_addable l [] news)); [intro H; inversion H; reflexivity|].
  destruct tk; [destruct (prio_check n olds news)|]; intro H; inversion H.
Qed.

(* a batch update that does not report success - it reports failure or raises - leaves the rule list untouched *)
Theorem src_batch_update_all_or_nothing sp pi tk l olds news v l' :
  src (mkE sp pi tk) FUEL m_update_policies l [PLL olds; PLL news] = (v, l') -> v <> Ok (PB true) -> l' = l.
Proof.
  rewrite tie_update_policies. unfold res_pair.
  destruct (update_policies tk l olds news) as [[l2 b]|c] eqn:E; intros H Hv; inversion H; subst; [|reflexivity].
  destruct b; [contradiction|]. eapply update_policies_false_unchanged. exact E.
Qed.

Theorem src_filtered_read sp pi tk l fi vs :
  src (mkE sp pi tk) FUEL m_get_filtered_policy l [PI (Z.of_nat fi); PL vs] =
  (match get_filtered l fi vs with Ok out => Ok (PLL out) | Err c => Err c end, l).
Proof. apply tie_get_filtered_policy. Qed.

(* C07: a single add on a loaded explicit-priority model inserts the rule behind the last stored rule whose priority is
   not larger - exactly Policy.v's insert_by_priority, of which PriorityProofs.v proves order and stability *)
Theorem src_add_inserts_by_priority tk (pi : nat) l r :
  forallb (digit_field pi) l = true ->
  match nth_error r pi with Some k => digit_atom k = true | None => True end ->
  src (mkE true (Z.of_nat pi) tk) FUEL m_add_policy l [PL r] =
  if has_policy l r then (Ok (PB false), l) else (Ok (PB true), insert_by_priority pi l r).
Proof.
  intros Hl Hr. rewrite (tie_add_policy_prio tk pi l r Hl Hr). unfold add_policy.
  destruct (has_policy l r); reflexivity.
Qed.

Example src_example :
  src (mkE true (-1)%Z None) FUEL m_add_policies [[1000; 1001; 1002]] [PLL [[1003; 1001; 1002]; [1000; 1004; 1002]]] =
    (Ok (PB true), [[1000; 1001; 1002]; [1003; 1001; 1002]; [1000; 1004; 1002]]) /\
  src (mkE true (-1)%Z None) FUEL m_remove_filtered_policy
    [[1000; 1001; 1002]; [1003; 1001; 1002]; [1000; 1004; 1002]] [PI 1%Z; PL [1001]] =
    (Ok (PB true), [[1000; 1004; 1002]]).
Proof. split; vm_compute; reflexivity. Qed.
