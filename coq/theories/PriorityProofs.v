(* PriorityProofs.v — priority models keep rules in ascending numeric priority, equal priorities in
   arrival order (C07). *)
From Coq Require Import List NArith Bool Arith Lia Sorted Permutation.
From PyCasbin Require Import Base Policy PolicyProofs.
Import ListNotations.
Local Open Scope N_scope.

Lemma ssorted_app {A} (R : A -> A -> Prop) : forall l1 l2,
  StronglySorted R (l1 ++ l2) <->
  StronglySorted R l1 /\ StronglySorted R l2 /\ (forall x y, In x l1 -> In y l2 -> R x y).
Proof.
  induction l1 as [|a l1 IH]; intro l2; simpl.
  - split; [intro H; split; [constructor|split; [exact H|intros x y []]]|intros [_ [H _]]; exact H].
  - split.
    + intro H. inversion H as [|? ? Hs Hf]; subst. apply IH in Hs. destruct Hs as [H1 [H2 H3]].
      rewrite Forall_forall in Hf. split; [|split; [exact H2|]].
      * constructor; [exact H1|]. rewrite Forall_forall. intros x Hx. apply Hf. apply in_or_app. left. exact Hx.
      * intros x y [Hx|Hx] Hy; [subst; apply Hf; apply in_or_app; right; exact Hy|apply H3; assumption].
    + intros [H1 [H2 H3]]. inversion H1 as [|? ? Hs Hf]; subst. constructor.
      * apply IH. split; [exact Hs|]. split; [exact H2|]. intros x y Hx Hy. apply H3; [right; exact Hx|exact Hy].
      * rewrite Forall_forall in *. intros x Hx. apply in_app_or in Hx. destruct Hx as [Hx|Hx];
          [apply Hf; exact Hx|apply H3; [left; reflexivity|exact Hx]].
Qed.

Section Prio.
  Variable pi : nat.                                   (* position of the priority field *)
  Definition key (r : rule) : N := nth pi r 0.
  Definition has_key (r : rule) : Prop := (pi < length r)%nat.
  Definition all_keys (l : store) : Prop := Forall has_key l.
  Definition psorted (l : store) : Prop := StronglySorted (fun a b => key a <= key b) l.

  Lemma field_key r : has_key r -> field r pi = Some (key r).
  Proof. intro H. unfold field, key. apply nth_error_nth'. exact H. Qed.

  (* ---------- the swap loop of add_policy ---------- *)
  (* result of the loop = l1 ++ [r] ++ l2 where l2 is the longest suffix of strictly larger priorities *)
  Fixpoint split_suffix (k : N) (rev_l : list rule) : list rule * list rule :=   (* (rev l1, l2) *)
    match rev_l with
    | [] => ([], [])
    | x :: rest => if k <? key x then let '(a, b) := split_suffix k rest in (a, b ++ [x]) else (x :: rest, [])
    end.

  Lemma bubble_split k r : forall rev_l, Forall has_key rev_l ->
    rev (bubble pi k r rev_l) = rev (fst (split_suffix k rev_l)) ++ [r] ++ snd (split_suffix k rev_l).
  Proof.
    induction rev_l as [|x rest IH]; intro Hk; [reflexivity|].
    inversion Hk as [|? ? Hx Hrest]; subst. cbn [bubble split_suffix]. rewrite (field_key x Hx).
    destruct (k <? key x) eqn:E.
    - destruct (split_suffix k rest) as [a b] eqn:Es. cbn [rev fst snd] in *. rewrite (IH Hrest).
      rewrite <- !app_assoc. reflexivity.
    - cbn [rev fst snd app]. rewrite <- app_assoc. reflexivity.
  Qed.

  Lemma split_suffix_spec k : forall rev_l,
    rev rev_l = rev (fst (split_suffix k rev_l)) ++ snd (split_suffix k rev_l)
    /\ Forall (fun x => k < key x) (snd (split_suffix k rev_l))
    /\ match fst (split_suffix k rev_l) with [] => True | x :: _ => key x <= k end.
  Proof.
    induction rev_l as [|x rest IH]; [repeat split; constructor|]. cbn [split_suffix].
    destruct (k <? key x) eqn:E.
    - destruct (split_suffix k rest) as [a b]. cbn [fst snd rev] in *. destruct IH as [I1 [I2 I3]].
      split; [rewrite I1, app_assoc; reflexivity|]. split; [|exact I3].
      apply Forall_app. split; [exact I2|]. constructor; [apply N.ltb_lt; exact E|constructor].
    - cbn [fst snd]. split; [rewrite app_nil_r; reflexivity|]. split; [constructor|]. apply N.ltb_ge. exact E.
  Qed.

  (* the inserted rule goes after every stored rule of the same priority; everything else keeps its place *)
  Theorem insert_decomposes l r : all_keys l -> has_key r ->
    exists l1 l2, l = l1 ++ l2 /\ insert_by_priority pi l r = l1 ++ [r] ++ l2
      /\ Forall (fun x => key r < key x) l2
      /\ (forall x, In x l1 -> psorted l -> key x <= key r).
  Proof.
    intros Hl Hr. unfold insert_by_priority. rewrite (field_key r Hr).
    assert (Hrl : Forall has_key (rev l)) by (apply Forall_rev; exact Hl).
    rewrite (bubble_split (key r) r (rev l) Hrl).
    destruct (split_suffix_spec (key r) (rev l)) as [S1 [S2 S3]]. rewrite rev_involutive in S1.
    exists (rev (fst (split_suffix (key r) (rev l)))), (snd (split_suffix (key r) (rev l))).
    split; [exact S1|]. split; [reflexivity|]. split; [exact S2|].
    intros x Hx Hs. apply in_rev in Hx.
    destruct (fst (split_suffix (key r) (rev l))) as [|y a] eqn:Ef; [contradiction|].
    (* y is the LAST element of l1; x is before or equal to it in the sorted list *)
    destruct Hx as [Hx|Hx]; [subst; exact S3|].
    assert (Hle : key x <= key y).
    { unfold psorted in Hs. rewrite S1 in Hs. cbn [rev] in Hs. apply ssorted_app in Hs. destruct Hs as [Hs _].
      apply ssorted_app in Hs. destruct Hs as [_ [_ Hs]]. apply Hs; [apply -> in_rev; exact Hx|left; reflexivity]. }
    lia.
  Qed.

  (* ---------- consequences ---------- *)
  Theorem add_keeps_sorted l r : all_keys l -> has_key r -> psorted l -> psorted (insert_by_priority pi l r).
  Proof.
    intros Hl Hr Hs. destruct (insert_decomposes l r Hl Hr) as [l1 [l2 [E [Ei [H2 H1]]]]]. rewrite Ei.
    unfold psorted in *. rewrite E in Hs. apply ssorted_app in Hs. destruct Hs as [S1 [S2 S12]].
    apply ssorted_app. split; [exact S1|]. split.
    - cbn [app]. constructor; [exact S2|]. rewrite Forall_forall in *. intros x Hx. specialize (H2 x Hx). lia.
    - intros x y Hx [Hy|Hy].
      + subst y. apply H1; [exact Hx|]. rewrite E. apply ssorted_app. split; [exact S1|]. split; [exact S2|exact S12].
      + apply S12; assumption.
  Qed.

  (* equal priorities stay in arrival order: the new rule comes last among its equals, nothing else moves *)
  Theorem add_is_stable l r k' : all_keys l -> has_key r ->
    filter (fun x => key x =? k') (insert_by_priority pi l r)
    = filter (fun x => key x =? k') l ++ (if key r =? k' then [r] else []).
  Proof.
    intros Hl Hr. destruct (insert_decomposes l r Hl Hr) as [l1 [l2 [E [Ei [H2 _]]]]]. rewrite Ei, E.
    rewrite !filter_app. cbn [filter]. destruct (key r =? k') eqn:Ek.
    - apply N.eqb_eq in Ek. subst k'.
      assert (E2 : filter (fun x => key x =? key r) l2 = []).
      { clear - H2. induction l2 as [|x l2 IH]; [reflexivity|]. inversion H2; subst. cbn [filter].
        assert (Hx : (key x =? key r) = false) by (apply N.eqb_neq; lia). rewrite Hx. apply IH. assumption. }
      rewrite E2, !app_nil_r. reflexivity.
    - cbn [app]. rewrite app_nil_r. reflexivity.
  Qed.

  Theorem add_keeps_other_rules l r : all_keys l -> has_key r ->
    Permutation (insert_by_priority pi l r) (r :: l).
  Proof.
    intros Hl Hr. destruct (insert_decomposes l r Hl Hr) as [l1 [l2 [E [Ei _]]]]. rewrite Ei, E.
    cbn [app]. symmetry. apply Permutation_middle.
  Qed.

  (* removal (single, batch, filtered) = filtering: order untouched *)
  Theorem filter_keeps_sorted (f : rule -> bool) l : psorted l -> psorted (filter f l).
  Proof.
    unfold psorted. induction 1 as [|x l Hs IH Hf]; cbn [filter]; [constructor|].
    destruct (f x); [|exact IH]. constructor; [exact IH|].
    rewrite Forall_forall in *. intros y Hy. apply filter_In in Hy. apply Hf. tauto.
  Qed.

  (* update in place with an unchanged priority (the code raises otherwise) keeps the order *)
  Theorem update_keeps_sorted l o n : key n = key o -> psorted l -> psorted (replace_rule o n l).
  Proof.
    intros Hk. unfold psorted, replace_rule. induction 1 as [|x l Hs IH Hf]; cbn [map]; [constructor|].
    constructor; [exact IH|]. rewrite Forall_forall in *. intros y Hy. apply in_map_iff in Hy.
    destruct Hy as [z [Hz Hzl]]. specialize (Hf z Hzl).
    destruct (rule_eqb x o) eqn:Ex; destruct (rule_eqb z o) eqn:Ez; subst y;
      try (apply rule_eqb_eq in Ex; subst x); try (apply rule_eqb_eq in Ez; subst z); lia.
  Qed.

  (* ---------- sort on load: Python's sorted() ---------- *)
  Lemma insert_stable_spec r : has_key r -> forall l, all_keys l -> psorted l ->
    psorted (insert_stable pi r l) /\ Permutation (insert_stable pi r l) (r :: l)
    /\ forall k', filter (fun x => key x =? k') (insert_stable pi r l)
                  = (if key r =? k' then [r] else []) ++ filter (fun x => key x =? k') l.
  Proof.
    intros Hr. induction l as [|x l IH]; intros Hl Hs.
    - cbn. split; [constructor; constructor|]. split; [reflexivity|]. intro k'. destruct (key r =? k'); reflexivity.
    - inversion Hl as [|? ? Hx Hl']; subst. inversion Hs as [|? ? Hs' Hf]; subst.
      cbn [insert_stable]. rewrite (field_key r Hr), (field_key x Hx).
      destruct (key r <=? key x) eqn:E.
      + apply N.leb_le in E. split; [|split; [reflexivity|]].
        * constructor; [exact Hs|]. constructor; [exact E|]. rewrite Forall_forall in *. intros y Hy.
          specialize (Hf y Hy). lia.
        * intro k'. cbn [filter]. destruct (key r =? k'); reflexivity.
      + apply N.leb_gt in E. destruct (IH Hl' Hs') as [I1 [I2 I3]]. split; [|split].
        * constructor; [exact I1|]. rewrite Forall_forall in *. intros y Hy.
          apply (Permutation_in _ I2) in Hy. destruct Hy as [Hy|Hy]; [subst; lia|apply Hf; exact Hy].
        * rewrite I2. apply perm_swap.
        * intro k'. cbn [filter]. rewrite I3. destruct (key x =? k') eqn:Ex; destruct (key r =? k') eqn:Er; try reflexivity.
          apply N.eqb_eq in Ex, Er. lia.
  Qed.

  Theorem sort_rules_spec : forall l, all_keys l ->
    psorted (sort_rules pi l) /\ Permutation (sort_rules pi l) l /\ all_keys (sort_rules pi l)
    /\ forall k', filter (fun x => key x =? k') (sort_rules pi l) = filter (fun x => key x =? k') l.
  Proof.
    induction l as [|r l IH]; intro Hl.
    - cbn. split; [constructor|]. split; [reflexivity|]. split; [constructor|]. reflexivity.
    - inversion Hl as [|? ? Hr Hl']; subst. destruct (IH Hl') as [I1 [I2 [I3 I4]]].
      unfold sort_rules in *. cbn [fold_right].
      destruct (insert_stable_spec r Hr _ I3 I1) as [J1 [J2 J3]].
      split; [exact J1|]. split; [rewrite J2; constructor; exact I2|]. split.
      + unfold all_keys in *. rewrite Forall_forall in *. intros y Hy. apply (Permutation_in _ J2) in Hy.
        destruct Hy as [Hy|Hy]; [subst; exact Hr|apply I3; exact Hy].
      + intro k'. rewrite J3, I4. cbn [filter]. destruct (key r =? k'); reflexivity.
  Qed.
End Prio.

(* ---------- histories on a priority store ---------- *)
From PyCasbin Require Import RoleGraph Mgmt MgmtLinks MgmtProofs CallsProofs MirrorProofs.

Definition pstep (pi : nat) (l : store) (o : sop) : store :=
  match o with
  | SAdd r => fst (add_policy (Some pi) l r)
  | SAddMany rs => fst (add_policies (Some pi) l rs)
  | SRemove r => fst (remove_policy l r)
  | SRemoveMany rs => fst (remove_policies l rs)
  | SRemoveFiltered i vs => match remove_filtered l i vs with Ok (l', _) => l' | Err _ => l end
  | SUpdate o n => match update_policy (Some pi) l o n with Ok (l', _) => l' | Err _ => l end
  | SUpdateMany os ns => match update_policies (Some pi) l os ns with Ok (l', _) => l' | Err _ => l end
  end.

(* every rule handed in carries a priority field *)
Definition sop_keys (pi : nat) (o : sop) : Prop :=
  match o with
  | SAdd r => has_key pi r | SAddMany rs => Forall (has_key pi) rs
  | SUpdate _ n => has_key pi n | SUpdateMany _ ns => Forall (has_key pi) ns
  | _ => True
  end.

Definition PI (pi : nat) (l : store) : Prop := NoDup l /\ all_keys pi l /\ psorted pi l.

Lemma PI_filter pi (f : rule -> bool) l : PI pi l -> PI pi (filter f l).
Proof.
  intros [H1 [H2 H3]]. split; [apply NoDup_filter; exact H1|]. split; [|apply filter_keeps_sorted; exact H3].
  unfold all_keys in *. rewrite Forall_forall in *. intros x Hx. apply filter_In in Hx. apply H2. tauto.
Qed.

Lemma PI_insert pi l r : PI pi l -> has_key pi r -> ~ In r l -> PI pi (insert_by_priority pi l r).
Proof.
  intros [H1 [H2 H3]] Hr Hn. pose proof (add_keeps_other_rules pi l r H2 Hr) as Hp. split; [|split].
  - apply (Permutation_NoDup (Permutation_sym Hp)). constructor; assumption.
  - unfold all_keys in *. rewrite Forall_forall in *. intros x Hx. apply (Permutation_in _ Hp) in Hx.
    destruct Hx as [Hx|Hx]; [subst; exact Hr|apply H2; exact Hx].
  - apply add_keeps_sorted; assumption.
Qed.

Lemma PI_add_all pi : forall rs l, PI pi l -> Forall (has_key pi) rs -> PI pi (add_all (Some pi) l rs).
Proof.
  induction rs as [|r rs IH]; intros l HP Hk; [exact HP|]. inversion Hk; subst. cbn [add_all].
  apply IH; [|assumption]. unfold add_policy. destruct (has_policy l r) eqn:Hh; cbn [fst]; [exact HP|].
  apply PI_insert; [exact HP|assumption|apply has_policy_false; exact Hh].
Qed.

Lemma replace_rule_keys pi l o n : all_keys pi l -> has_key pi n -> all_keys pi (replace_rule o n l).
Proof.
  unfold all_keys, replace_rule. rewrite !Forall_forall. intros H Hn x Hx. apply in_map_iff in Hx.
  destruct Hx as [y [Hy Hyl]]. destruct (rule_eqb y o); subst x; [exact Hn|apply H; exact Hyl].
Qed.

Lemma PI_replace pi l o n : PI pi l -> has_key pi n -> key pi n = key pi o -> In o l -> ~ In n l ->
  PI pi (replace_rule o n l).
Proof.
  intros [H1 [H2 H3]] Hn Hk Ho Hnl. split; [|split].
  - pose proof (update_keeps_nodup l o n H1) as H. unfold spec_update in H.
    assert (E1 : has_policy l o = true) by (apply has_policy_In; exact Ho).
    assert (E2 : has_policy l n = false) by (apply has_policy_false; exact Hnl).
    rewrite E1, E2 in H. exact H.
  - apply replace_rule_keys; assumption.
  - apply update_keeps_sorted; assumption.
Qed.

Lemma map_fst_combine' {A B} : forall (l1 : list A) (l2 : list B),
  length l1 = length l2 -> map fst (combine l1 l2) = l1.
Proof.
  induction l1 as [|a l1 IH]; intros [|b l2] H; try reflexivity; try discriminate.
  cbn [combine map fst]. f_equal. apply IH. injection H as H. exact H.
Qed.

Lemma map_snd_combine' {A B} : forall (l1 : list A) (l2 : list B),
  length l1 = length l2 -> map snd (combine l1 l2) = l2.
Proof.
  induction l1 as [|a l1 IH]; intros [|b l2] H; try reflexivity; try discriminate.
  cbn [combine map snd]. f_equal. apply IH. injection H as H. exact H.
Qed.

Lemma PI_replace_all pi : forall ons l,
  PI pi l -> NoDup (map fst ons) -> NoDup (map snd ons) ->
  (forall o n, In (o, n) ons -> has_key pi n /\ key pi n = key pi o /\ In o l /\ ~ In n l) ->
  PI pi (fold_left (fun d on => replace_rule (fst on) (snd on) d) ons l).
Proof.
  induction ons as [|[o n] ons IH]; intros l HP Ho Hn H; [exact HP|]. cbn [fold_left fst snd].
  destruct (H o n (or_introl eq_refl)) as [Hk [He [Hin Hnin]]].
  inversion Ho as [|? ? Ho1 Ho2]; subst. inversion Hn as [|? ? Hn1 Hn2]; subst.
  apply IH; [apply PI_replace; assumption|assumption|assumption|].
  intros o' n' Hin'. destruct (H o' n' (or_intror Hin')) as [Hk' [He' [Hin'' Hnin']]].
  split; [exact Hk'|]. split; [exact He'|]. split.
  - unfold replace_rule. apply in_map_iff. exists o'. split; [|exact Hin''].
    assert (E : rule_eqb o' o = false).
    { apply rule_eqb_neq. intro; subst. apply Ho1. apply in_map_iff. exists (o, n'). split; [reflexivity|exact Hin']. }
    rewrite E. reflexivity.
  - intro Hx. unfold replace_rule in Hx. apply in_map_iff in Hx. destruct Hx as [y [Hy Hyl]].
    destruct (rule_eqb y o).
    + subst n'. apply Hn1. apply in_map_iff. exists (o', n). split; [reflexivity|exact Hin'].
    + subst y. contradiction.
Qed.

Lemma prio_check_pairs pi : forall os ns, length os = length ns -> Forall (has_key pi) ns ->
  (forall o, In o os -> has_key pi o) ->
  prio_check pi os ns = Ok tt -> forall o n, In (o, n) (combine os ns) -> key pi n = key pi o.
Proof.
  induction os as [|o os IH]; intros ns Hl Hk Hko H o' n' Hin; destruct ns as [|n ns]; try discriminate;
    [contradiction|]. simpl in Hl. inversion Hk; subst. cbn [prio_check] in H.
  rewrite (field_key pi o (Hko o (or_introl eq_refl))), (field_key pi n) in H by assumption.
  destruct (key pi o =? key pi n) eqn:E; [|discriminate]. apply N.eqb_eq in E.
  destruct Hin as [Hin|Hin]; [inversion Hin; subst; symmetry; exact E|].
  apply (IH ns); try assumption; [lia|intros x Hx; apply Hko; right; exact Hx].
Qed.

Theorem pstep_keeps_order pi l o : PI pi l -> sop_keys pi o -> PI pi (pstep pi l o).
Proof.
  intros HP Hk. pose proof HP as [Hnd [Hak Hs]].
  destruct o as [r|rs|r|rs|i vs|o n|os ns]; cbn [pstep sop_keys] in *.
  - unfold add_policy. destruct (has_policy l r) eqn:Hh; cbn [fst]; [exact HP|].
    apply PI_insert; [exact HP|exact Hk|apply has_policy_false; exact Hh].
  - unfold add_policies. destruct (batch_addable l [] rs); cbn [fst]; [|exact HP]. apply PI_add_all; assumption.
  - rewrite (remove_policy_spec l r Hnd). unfold spec_remove. destruct (has_policy l r); cbn [fst]; [|exact HP].
    apply PI_filter. exact HP.
  - rewrite (remove_policies_spec l rs Hnd). unfold spec_remove_batch.
    destruct (forallb (has_policy l) rs && nodupb rule_eqb rs); cbn [fst]; [|exact HP]. apply PI_filter. exact HP.
  - unfold remove_filtered. destruct (split_filtered l i vs) as [[kept gone]|c] eqn:E; [|exact HP].
    destruct (split_filtered_spec l i vs kept gone E) as [_ Hkept]. subst kept. apply PI_filter. exact HP.
  - unfold update_policy. destruct (index_of rule_eqb o l) as [idx|] eqn:Ei; [|exact HP].
    destruct (has_policy l n) eqn:Hn; [exact HP|].
    assert (Ho : In o l) by (apply index_of_has; eauto).
    assert (Hko : has_key pi o) by (unfold all_keys in Hak; rewrite Forall_forall in Hak; apply Hak; exact Ho).
    rewrite (field_key pi o Hko), (field_key pi n Hk).
    destruct (key pi o =? key pi n) eqn:E; [|exact HP]. apply N.eqb_eq in E.
    rewrite (set_nth_replace l o n idx Hnd Ei).
    apply PI_replace; [exact HP|exact Hk|symmetry; exact E|exact Ho|apply has_policy_false; exact Hn].
  - unfold update_policies.
    destruct (negb (Nat.eqb (length os) (length ns))) eqn:El; [exact HP|].
    destruct (negb (nodupb rule_eqb os)) eqn:Eo; [exact HP|].
    destruct (indices_of l os) as [idxs|] eqn:Ei; [|exact HP].
    destruct (negb (batch_addable l [] ns)) eqn:Eb; [exact HP|].
    destruct (prio_check pi os ns) as [[]|c] eqn:Ep; [|exact HP]. cbn [fst].
    apply negb_false_iff in El, Eo, Eb. apply Nat.eqb_eq in El.
    rewrite batch_addable_spec in Eb. apply andb_true_iff in Eb. destruct Eb as [Eb Hnn].
    apply andb_true_iff in Eb. destruct Eb as [Habs _].
    assert (Hnew : forall n, In n ns -> ~ In n l).
    { intros n Hn. rewrite forallb_forall in Habs. specialize (Habs n Hn).
      apply negb_true_iff in Habs. apply has_policy_false. exact Habs. }
    assert (Hold : forall o, In o os -> In o l) by (apply (indices_of_In l os idxs Ei)).
    rewrite (write_all_is_replace os ns l idxs Hnd (nodupb_NoDup _ Eo) (nodupb_NoDup _ Hnn) El Ei Hnew).
    apply PI_replace_all; [exact HP| | |].
    + rewrite map_fst_combine' by exact El. apply nodupb_NoDup. exact Eo.
    + rewrite map_snd_combine' by exact El. apply nodupb_NoDup. exact Hnn.
    + intros o n Hin. pose proof (in_combine_l _ _ _ _ Hin) as Hio. pose proof (in_combine_r _ _ _ _ Hin) as Hin2.
      split; [rewrite Forall_forall in Hk; apply Hk; exact Hin2|]. split.
      * apply (prio_check_pairs pi os ns El Hk); [|exact Ep|exact Hin].
        intros x Hx. unfold all_keys in Hak. rewrite Forall_forall in Hak. apply Hak. apply Hold. exact Hx.
      * split; [apply Hold; exact Hio|apply Hnew; exact Hin2].
Qed.

(* C07: after ANY history of single / batch adds, removes, filtered removes and updates the stored rules
   are duplicate-free, in ascending numeric priority, and (add_is_stable) equal priorities in arrival order *)
Theorem history_keeps_order pi : forall ops l,
  PI pi l -> Forall (sop_keys pi) ops -> PI pi (fold_left (pstep pi) ops l).
Proof.
  induction ops as [|o ops IH]; intros l HP Hk; [exact HP|]. inversion Hk; subst. cbn [fold_left].
  apply IH; [apply pstep_keeps_order; assumption|assumption].
Qed.

(* load: the stable sort establishes the invariant from any duplicate-free delivery *)
Theorem load_establishes_order pi l : NoDup l -> all_keys pi l -> PI pi (sort_rules pi l).
Proof.
  intros Hnd Hk. destruct (sort_rules_spec pi l Hk) as [H1 [H2 [H3 _]]].
  split; [apply (Permutation_NoDup (Permutation_sym H2)); exact Hnd|]. split; assumption.
Qed.
