(* PriorityRefine.v — C07 as a refinement: at every step of every history the priority store is the STABLE
   SORT (Python's sorted(), sort_rules) of the rules in ARRIVAL order.
   Arrival-order semantics [astep]: the same operations on a store without priority insertion (adds append);
   removes / filtered removes / updates exactly as the priority store does them (update in place, refusing a
   change of priority).  The priority store [pstep] (add_policy's swap loop, add_policies, ...) is shown to
   be, step for step, sort_rules of the arrival list. *)
From Coq Require Import List NArith Bool Arith Lia Sorted Permutation.
From PyCasbin Require Import Base Policy PolicyProofs PriorityProofs RoleGraph Mgmt MgmtLinks MgmtProofs
  CallsProofs MirrorProofs.
Import ListNotations.
Local Open Scope N_scope.

(* ---------- the arrival-order semantics ---------- *)
Definition astep (pi : nat) (l : store) (o : sop) : store :=
  match o with
  | SAdd r => fst (add_policy None l r)
  | SAddMany rs => fst (add_policies None l rs)
  | SRemove r => fst (remove_policy l r)
  | SRemoveMany rs => fst (remove_policies l rs)
  | SRemoveFiltered i vs => match remove_filtered l i vs with Ok (l', _) => l' | Err _ => l end
  | SUpdate o n => match update_policy (Some pi) l o n with Ok (l', _) => l' | Err _ => l end
  | SUpdateMany os ns => match update_policies (Some pi) l os ns with Ok (l', _) => l' | Err _ => l end
  end.

(* ---------- (1) a stable sort is unique ---------- *)
(* two priority-sorted lists with the same subsequence of rules for every priority are equal *)
Lemma stable_sort_unique pi : forall a b, psorted pi a -> psorted pi b ->
  (forall k, filter (fun x => key pi x =? k) a = filter (fun x => key pi x =? k) b) -> a = b.
Proof.
  induction a as [|x a IH]; intros b Ha Hb H.
  - destruct b as [|y b]; [reflexivity|]. specialize (H (key pi y)). cbn [filter] in H.
    rewrite N.eqb_refl in H. discriminate.
  - destruct b as [|y b].
    + specialize (H (key pi x)). cbn [filter] in H. rewrite N.eqb_refl in H. discriminate.
    + inversion Ha as [|? ? Ha' Hfa]; subst. inversion Hb as [|? ? Hb' Hfb]; subst.
      rewrite Forall_forall in Hfa, Hfb.
      assert (Hx : In x (y :: b)).
      { assert (Hi : In x (filter (fun z => key pi z =? key pi x) (x :: a)))
          by (apply filter_In; split; [left; reflexivity|apply N.eqb_refl]).
        rewrite (H (key pi x)) in Hi. apply filter_In in Hi. tauto. }
      assert (Hy : In y (x :: a)).
      { assert (Hi : In y (filter (fun z => key pi z =? key pi y) (y :: b)))
          by (apply filter_In; split; [left; reflexivity|apply N.eqb_refl]).
        rewrite <- (H (key pi y)) in Hi. apply filter_In in Hi. tauto. }
      assert (Hxy : key pi x = key pi y).
      { destruct Hx as [Hx|Hx]; [subst; reflexivity|]. destruct Hy as [Hy|Hy]; [subst; reflexivity|].
        specialize (Hfa y Hy). specialize (Hfb x Hx). lia. }
      assert (E : x = y).
      { pose proof (H (key pi x)) as Hk. cbn [filter] in Hk. rewrite N.eqb_refl in Hk.
        replace (key pi y =? key pi x) with true in Hk by (symmetry; apply N.eqb_eq; lia).
        injection Hk as Hk _. exact Hk. }
      subst y. f_equal. apply IH; [exact Ha'|exact Hb'|]. intro k. specialize (H k). cbn [filter] in H.
      destruct (key pi x =? k); [injection H as H; exact H|exact H].
Qed.

(* ---------- (2) sort_rules commutes with the store operations ---------- *)
Lemma all_keys_app pi a b : all_keys pi a -> all_keys pi b -> all_keys pi (a ++ b).
Proof. intros Ha Hb. apply Forall_app. split; assumption. Qed.

Lemma all_keys_filter pi (f : rule -> bool) l : all_keys pi l -> all_keys pi (filter f l).
Proof.
  unfold all_keys. rewrite !Forall_forall. intros H x Hx. apply filter_In in Hx. apply H. tauto.
Qed.

(* the swap loop of add_policy on the sorted store = appending to the arrival list, then sorting *)
Lemma sort_snoc pi l r : all_keys pi l -> has_key pi r ->
  insert_by_priority pi (sort_rules pi l) r = sort_rules pi (l ++ [r]).
Proof.
  intros Hl Hr. destruct (sort_rules_spec pi l Hl) as [S1 [_ [S3 S4]]].
  assert (Hlr : all_keys pi (l ++ [r])) by (apply all_keys_app; [exact Hl|constructor; [exact Hr|constructor]]).
  destruct (sort_rules_spec pi (l ++ [r]) Hlr) as [T1 [_ [_ T4]]].
  apply (stable_sort_unique pi); [apply add_keeps_sorted; assumption|exact T1|].
  intro k. rewrite (add_is_stable pi _ r k S3 Hr), T4, S4, filter_app. cbn [filter].
  destruct (key pi r =? k); reflexivity.
Qed.

Lemma filter_comm {A} (f g : A -> bool) l : filter f (filter g l) = filter g (filter f l).
Proof.
  rewrite !filter_filter_and. apply filter_ext. intro x. apply andb_comm.
Qed.

(* removing (any per-rule predicate) commutes with sorting *)
Lemma sort_filter pi (f : rule -> bool) l : all_keys pi l ->
  filter f (sort_rules pi l) = sort_rules pi (filter f l).
Proof.
  intros Hl. destruct (sort_rules_spec pi l Hl) as [S1 [_ [_ S4]]].
  destruct (sort_rules_spec pi (filter f l) (all_keys_filter pi f l Hl)) as [T1 [_ [_ T4]]].
  apply (stable_sort_unique pi); [apply filter_keeps_sorted; exact S1|exact T1|].
  intro k. rewrite T4, filter_comm, S4, filter_comm. reflexivity.
Qed.

Lemma filter_key_replace pi o n k : key pi n = key pi o -> forall l,
  filter (fun x => key pi x =? k) (replace_rule o n l) = replace_rule o n (filter (fun x => key pi x =? k) l).
Proof.
  intros Hk. unfold replace_rule. induction l as [|x l IH]; [reflexivity|]. cbn [map filter].
  assert (E : key pi (if rule_eqb x o then n else x) = key pi x).
  { destruct (rule_eqb x o) eqn:Ex; [apply rule_eqb_eq in Ex; subst x; exact Hk|reflexivity]. }
  rewrite E. destruct (key pi x =? k); cbn [map]; rewrite IH; reflexivity.
Qed.

(* replacing in place with an unchanged priority commutes with sorting *)
Lemma sort_replace pi o n l : all_keys pi l -> has_key pi n -> key pi n = key pi o ->
  replace_rule o n (sort_rules pi l) = sort_rules pi (replace_rule o n l).
Proof.
  intros Hl Hn Hk. destruct (sort_rules_spec pi l Hl) as [S1 [_ [_ S4]]].
  destruct (sort_rules_spec pi _ (replace_rule_keys pi l o n Hl Hn)) as [T1 [_ [_ T4]]].
  apply (stable_sort_unique pi); [apply update_keeps_sorted; assumption|exact T1|].
  intro k. rewrite T4, !(filter_key_replace pi o n k Hk), S4. reflexivity.
Qed.

Lemma sort_replace_all pi : forall ons l, all_keys pi l ->
  (forall o n, In (o, n) ons -> has_key pi n /\ key pi n = key pi o) ->
  fold_left (fun d on => replace_rule (fst on) (snd on) d) ons (sort_rules pi l)
  = sort_rules pi (fold_left (fun d on => replace_rule (fst on) (snd on) d) ons l).
Proof.
  induction ons as [|[o n] ons IH]; intros l Hl H; [reflexivity|]. cbn [fold_left fst snd].
  destruct (H o n (or_introl eq_refl)) as [Hn Hk]. rewrite (sort_replace pi o n l Hl Hn Hk).
  apply IH; [apply replace_rule_keys; assumption|]. intros o' n' Hin. apply H. right. exact Hin.
Qed.

(* ---------- (3) every accept / reject decision depends on the SET of stored rules only ---------- *)
Lemma bool_eq_iff (a b : bool) : (a = true <-> b = true) -> a = b.
Proof. destruct a, b; intros [H1 H2]; try reflexivity; [symmetry; apply H1|apply H2]; reflexivity. Qed.

Lemma has_policy_perm a b r : Permutation a b -> has_policy a r = has_policy b r.
Proof.
  intro Hp. apply bool_eq_iff. rewrite !has_policy_In.
  split; apply Permutation_in; [exact Hp|symmetry; exact Hp].
Qed.

Lemma forallb_perm {A} (f : A -> bool) a b : Permutation a b -> forallb f a = forallb f b.
Proof.
  intro Hp. apply bool_eq_iff. rewrite !forallb_forall.
  split; intros H x Hx; apply H; [apply (Permutation_in _ (Permutation_sym Hp))|apply (Permutation_in _ Hp)]; exact Hx.
Qed.

Lemma forallb_ext' {A} (f g : A -> bool) l : (forall x, f x = g x) -> forallb f l = forallb g l.
Proof. intro H. induction l as [|x l IH]; [reflexivity|]. cbn [forallb]. rewrite H, IH. reflexivity. Qed.

Lemma batch_addable_perm a b seen rs : Permutation a b -> batch_addable a seen rs = batch_addable b seen rs.
Proof.
  intro Hp. rewrite !batch_addable_spec. f_equal. f_equal. apply forallb_ext'. intro x.
  rewrite (has_policy_perm a b x Hp). reflexivity.
Qed.

Lemma index_of_none l r : index_of rule_eqb r l = None <-> ~ In r l.
Proof.
  rewrite <- index_of_has. destruct (index_of rule_eqb r l) as [i|]; split.
  - discriminate.
  - intro H. exfalso. apply H. eauto.
  - intros _ [i H]. discriminate.
  - reflexivity.
Qed.

Lemma indices_of_total l : forall olds, (forall x, In x olds -> In x l) -> exists idxs, indices_of l olds = Some idxs.
Proof.
  induction olds as [|o olds IH]; intro H; [exists []; reflexivity|]. cbn [indices_of].
  destruct (proj2 (index_of_has l o) (H o (or_introl eq_refl))) as [i Hi]. rewrite Hi.
  destruct (IH (fun x Hx => H x (or_intror Hx))) as [r Hr]. rewrite Hr. eauto.
Qed.

Lemma write_all_in (x : rule) : forall news idxs l, In x (write_all l idxs news) -> In x news \/ In x l.
Proof.
  induction news as [|n news IH]; intros idxs l H; destruct idxs as [|i idxs]; cbn [write_all] in H;
    try (right; exact H).
  apply IH in H. destruct H as [H|H]; [left; right; exact H|].
  apply set_nth_in in H. destruct H as [H|H]; [left; left; symmetry; exact H|right; exact H].
Qed.

(* ---------- the arrival list stays a duplicate-free list of rules with a priority ---------- *)
Definition AI (pi : nat) (l : store) : Prop := NoDup l /\ all_keys pi l.

Lemma astep_keeps_AI pi l o : AI pi l -> sop_keys pi o -> AI pi (astep pi l o).
Proof.
  intros [Hnd Hak] Hk. unfold AI.
  destruct o as [r|rs|r|rs|i vs|o n|os ns]; cbn [astep sop_keys] in *.
  - unfold add_policy. destruct (has_policy l r) eqn:Hh; cbn [fst]; [split; assumption|]. split.
    + apply NoDup_app_snoc; [exact Hnd|apply has_policy_false; exact Hh].
    + apply all_keys_app; [exact Hak|constructor; [exact Hk|constructor]].
  - rewrite add_policies_spec. split; [apply add_batch_keeps_nodup; exact Hnd|].
    unfold spec_add_batch. destruct (forallb (fun r => negb (has_policy l r)) rs && nodupb rule_eqb rs); cbn [fst];
      [apply all_keys_app; assumption|exact Hak].
  - rewrite (remove_policy_spec l r Hnd). unfold spec_remove. destruct (has_policy l r); cbn [fst];
      [split; [apply NoDup_filter; exact Hnd|apply all_keys_filter; exact Hak]|split; assumption].
  - rewrite (remove_policies_spec l rs Hnd). unfold spec_remove_batch.
    destruct (forallb (has_policy l) rs && nodupb rule_eqb rs); cbn [fst];
      [split; [apply NoDup_filter; exact Hnd|apply all_keys_filter; exact Hak]|split; assumption].
  - unfold remove_filtered. destruct (split_filtered l i vs) as [[kept gone]|c] eqn:E; [|split; assumption].
    destruct (split_filtered_spec l i vs kept gone E) as [_ Hkept]. subst kept.
    split; [apply NoDup_filter; exact Hnd|apply all_keys_filter; exact Hak].
  - unfold update_policy. destruct (index_of rule_eqb o l) as [idx|] eqn:Ei; [|split; assumption].
    destruct (has_policy l n) eqn:Hn; [split; assumption|].
    destruct (field o pi) as [a|]; [|split; assumption]. destruct (field n pi) as [b|]; [|split; assumption].
    destruct (a =? b); [|split; assumption]. apply has_policy_false in Hn. split.
    + apply set_nth_nodup; assumption.
    + unfold all_keys in *. rewrite Forall_forall in *. intros x Hx. apply set_nth_in in Hx.
      destruct Hx as [Hx|Hx]; [subst; exact Hk|apply Hak; exact Hx].
  - unfold update_policies.
    destruct (negb (Nat.eqb (length os) (length ns))); [split; assumption|].
    destruct (negb (nodupb rule_eqb os)); [split; assumption|].
    destruct (indices_of l os) as [idxs|]; [|split; assumption].
    destruct (negb (batch_addable l [] ns)) eqn:Eb; [split; assumption|].
    destruct (prio_check pi os ns) as [[]|c]; [|split; assumption].
    apply negb_false_iff in Eb. rewrite batch_addable_spec in Eb. apply andb_true_iff in Eb. destruct Eb as [Eb Hnn].
    apply andb_true_iff in Eb. destruct Eb as [Habs _]. split.
    + apply write_all_nodup; [exact Hnd|apply nodupb_NoDup; exact Hnn|].
      intros n Hn. rewrite forallb_forall in Habs. specialize (Habs n Hn).
      apply negb_true_iff in Habs. apply has_policy_false. exact Habs.
    + unfold all_keys in *. rewrite Forall_forall in *. intros x Hx. apply write_all_in in Hx.
      destruct Hx as [Hx|Hx]; [apply Hk; exact Hx|apply Hak; exact Hx].
Qed.

Lemma add_all_refines pi : forall rs l, all_keys pi l -> Forall (has_key pi) rs ->
  add_all (Some pi) (sort_rules pi l) rs = sort_rules pi (add_all None l rs).
Proof.
  induction rs as [|r rs IH]; intros l Hl Hk; [reflexivity|]. inversion Hk as [|? ? Hr Hk']; subst.
  cbn [add_all]. destruct (sort_rules_spec pi l Hl) as [_ [Hp _]].
  unfold add_policy. rewrite (has_policy_perm _ _ r Hp). destruct (has_policy l r); cbn [fst].
  - apply IH; assumption.
  - rewrite (sort_snoc pi l r Hl Hr). apply IH; [|exact Hk'].
    apply all_keys_app; [exact Hl|constructor; [exact Hr|constructor]].
Qed.

(* ---------- one step: the priority store is the stable sort of the arrival list ---------- *)
Lemma pstep_refines pi l o : AI pi l -> sop_keys pi o ->
  pstep pi (sort_rules pi l) o = sort_rules pi (astep pi l o).
Proof.
  intros [Hnd Hak] Hk. destruct (sort_rules_spec pi l Hak) as [_ [Hp [HakP _]]].
  assert (HndP : NoDup (sort_rules pi l)) by (apply (Permutation_NoDup (Permutation_sym Hp)); exact Hnd).
  destruct o as [r|rs|r|rs|i vs|o n|os ns]; cbn [pstep astep sop_keys] in *.
  - unfold add_policy. rewrite (has_policy_perm _ _ r Hp). destruct (has_policy l r); cbn [fst]; [reflexivity|].
    apply sort_snoc; assumption.
  - unfold add_policies. rewrite (batch_addable_perm _ _ [] rs Hp).
    destruct (batch_addable l [] rs); cbn [fst]; [|reflexivity]. apply add_all_refines; assumption.
  - rewrite (remove_policy_spec _ r HndP), (remove_policy_spec l r Hnd). unfold spec_remove.
    rewrite (has_policy_perm _ _ r Hp). destruct (has_policy l r); cbn [fst]; [|reflexivity].
    apply sort_filter. exact Hak.
  - rewrite (remove_policies_spec _ rs HndP), (remove_policies_spec l rs Hnd). unfold spec_remove_batch.
    rewrite (forallb_ext' (has_policy (sort_rules pi l)) (has_policy l) rs (fun x => has_policy_perm _ _ x Hp)).
    destruct (forallb (has_policy l) rs && nodupb rule_eqb rs); cbn [fst]; [|reflexivity].
    apply sort_filter. exact Hak.
  - unfold remove_filtered.
    pose proof (forallb_perm (fun r => match filter_match r i vs with Some _ => true | None => false end) _ _ Hp) as Hf.
    destruct (forallb (fun r => match filter_match r i vs with Some _ => true | None => false end) l) eqn:E.
    + destruct (split_filtered_total _ i vs Hf) as [k1 [g1 H1]]. destruct (split_filtered_total l i vs E) as [k2 [g2 H2]].
      rewrite H1, H2. destruct (split_filtered_spec _ i vs k1 g1 H1) as [_ K1].
      destruct (split_filtered_spec l i vs k2 g2 H2) as [_ K2]. subst k1 k2. apply sort_filter. exact Hak.
    + destruct (split_filtered_err _ i vs Hf) as [c1 H1]. destruct (split_filtered_err l i vs E) as [c2 H2].
      rewrite H1, H2. reflexivity.
  - unfold update_policy. destruct (index_of rule_eqb o l) as [idx|] eqn:Ei.
    + assert (Ho : In o l) by (apply index_of_has; eauto).
      destruct (proj2 (index_of_has (sort_rules pi l) o) (Permutation_in _ (Permutation_sym Hp) Ho)) as [idxP EiP].
      rewrite EiP, (has_policy_perm _ _ n Hp). destruct (has_policy l n); [reflexivity|].
      assert (Hko : has_key pi o) by (unfold all_keys in Hak; rewrite Forall_forall in Hak; apply Hak; exact Ho).
      rewrite (field_key pi o Hko), (field_key pi n Hk).
      destruct (key pi o =? key pi n) eqn:E; [|reflexivity]. apply N.eqb_eq in E.
      rewrite (set_nth_replace _ o n idxP HndP EiP), (set_nth_replace l o n idx Hnd Ei).
      apply sort_replace; [exact Hak|exact Hk|symmetry; exact E].
    + assert (EiP : index_of rule_eqb o (sort_rules pi l) = None).
      { apply index_of_none. apply index_of_none in Ei. intro H. apply Ei. apply (Permutation_in _ Hp). exact H. }
      rewrite EiP. reflexivity.
  - unfold update_policies.
    destruct (negb (Nat.eqb (length os) (length ns))) eqn:El; [reflexivity|].
    destruct (negb (nodupb rule_eqb os)) eqn:Eo; [reflexivity|].
    rewrite (batch_addable_perm _ _ [] ns Hp).
    destruct (indices_of l os) as [idxs|] eqn:Ei.
    + assert (Hold : forall o, In o os -> In o l) by (apply (indices_of_In l os idxs Ei)).
      destruct (indices_of_total (sort_rules pi l) os
                  (fun x Hx => Permutation_in _ (Permutation_sym Hp) (Hold x Hx))) as [idxsP EiP].
      rewrite EiP. destruct (negb (batch_addable l [] ns)) eqn:Eb; [reflexivity|].
      destruct (prio_check pi os ns) as [[]|c] eqn:Ep; [|reflexivity].
      apply negb_false_iff in El, Eo, Eb. apply Nat.eqb_eq in El.
      rewrite batch_addable_spec in Eb. apply andb_true_iff in Eb. destruct Eb as [Eb Hnn].
      apply andb_true_iff in Eb. destruct Eb as [Habs _].
      assert (Hnew : forall n, In n ns -> ~ In n l).
      { intros n Hn. rewrite forallb_forall in Habs. specialize (Habs n Hn).
        apply negb_true_iff in Habs. apply has_policy_false. exact Habs. }
      assert (HnewP : forall n, In n ns -> ~ In n (sort_rules pi l)).
      { intros n Hn H. apply (Hnew n Hn). apply (Permutation_in _ Hp). exact H. }
      rewrite (write_all_is_replace os ns _ idxsP HndP (nodupb_NoDup _ Eo) (nodupb_NoDup _ Hnn) El EiP HnewP).
      rewrite (write_all_is_replace os ns l idxs Hnd (nodupb_NoDup _ Eo) (nodupb_NoDup _ Hnn) El Ei Hnew).
      apply sort_replace_all; [exact Hak|]. intros o n Hin.
      pose proof (in_combine_r _ _ _ _ Hin) as Hin2.
      split; [rewrite Forall_forall in Hk; apply Hk; exact Hin2|].
      apply (prio_check_pairs pi os ns El Hk); [|exact Ep|exact Hin].
      intros x Hx. unfold all_keys in Hak. rewrite Forall_forall in Hak. apply Hak. apply Hold. exact Hx.
    + destruct (indices_of (sort_rules pi l) os) as [idxsP|] eqn:EiP; [|reflexivity]. exfalso.
      destruct (indices_of_total l os
                  (fun x Hx => Permutation_in _ Hp (indices_of_In _ os idxsP EiP x Hx))) as [idxs Hi].
      congruence.
Qed.

(* ---------- every history ---------- *)
Theorem arrival_history_keeps_AI pi : forall ops l,
  AI pi l -> Forall (sop_keys pi) ops -> AI pi (fold_left (astep pi) ops l).
Proof.
  induction ops as [|o ops IH]; intros l HA Hk; [exact HA|]. inversion Hk; subst. cbn [fold_left].
  apply IH; [apply astep_keeps_AI; assumption|assumption].
Qed.

(* C07 as a refinement: after ANY sequence of single or batch adds, removes (single, batch, filtered) and
   updates (single, batch) the priority store equals the stable sort by numeric priority of the rules in
   arrival order (the store the same history produces when every add appends) *)
Theorem priority_store_is_sorted_arrival pi : forall ops l0,
  NoDup l0 -> all_keys pi l0 -> Forall (sop_keys pi) ops ->
  fold_left (pstep pi) ops (sort_rules pi l0) = sort_rules pi (fold_left (astep pi) ops l0).
Proof.
  intros ops l0 Hnd Hak. assert (HA : AI pi l0) by (split; assumption). clear Hnd Hak. revert l0 HA.
  induction ops as [|o ops IH]; intros l HA Hk; [reflexivity|]. inversion Hk; subst. cbn [fold_left].
  rewrite (pstep_refines pi l o HA) by assumption.
  apply IH; [apply astep_keeps_AI; assumption|assumption].
Qed.

Lemma in_firstn {A} (x : A) : forall n l, In x (firstn n l) -> In x l.
Proof.
  induction n as [|n IH]; intros [|y l] H; cbn [firstn] in H; try contradiction.
  destruct H as [H|H]; [left; exact H|right; apply IH; exact H].
Qed.

(* ... and so does every intermediate store (every prefix of the history) *)
Corollary priority_store_is_sorted_arrival_at_every_step pi : forall ops l0,
  NoDup l0 -> all_keys pi l0 -> Forall (sop_keys pi) ops ->
  forall n, fold_left (pstep pi) (firstn n ops) (sort_rules pi l0)
            = sort_rules pi (fold_left (astep pi) (firstn n ops) l0).
Proof.
  intros ops l0 Hnd Hak Hk n. apply priority_store_is_sorted_arrival; [exact Hnd|exact Hak|].
  rewrite Forall_forall in *. intros o Ho. apply Hk. apply (in_firstn _ n). exact Ho.
Qed.

(* starting from an empty model: the store is the stable sort of the arrival list *)
Corollary priority_store_from_empty pi : forall ops, Forall (sop_keys pi) ops ->
  fold_left (pstep pi) ops [] = sort_rules pi (fold_left (astep pi) ops []).
Proof.
  intros ops Hk. apply (priority_store_is_sorted_arrival pi ops [] (NoDup_nil _) (Forall_nil _) Hk).
Qed.
