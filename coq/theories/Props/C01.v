(* C01 — Decision is the declared effect combination of exactly the matching rules.
   Only statements here; proofs are `exact <lemma>`. *)
From Coq Require Import List NArith Bool Permutation.
From PyCasbin Require Import Base Effect Enforce EnforceProofs EnforceInst EnforceTie.
From PyCasbinGen Require Import EffectorsGen.
Import ListNotations.

(* the Python effectors (regenerated from source on every run) are the documented ones *)
Theorem C01_effectors_as_documented : forall s e, In (s, e) documented ->
  exists c, get_effector s = Some c
    /\ (forall st, intermediate_gen c st = intermediate_ref e st)
    /\ (forall st, final_gen c st = final_ref e st).
Proof. exact gen_effectors_ok. Qed.
Print Assumptions C01_effectors_as_documented.

(* every effect expression x every sequence of rule outcomes (any length, order, multiplicity) *)
Theorem C01_decision_is_spec : forall s e, In (s, e) documented ->
  forall outs em, outs <> [] ->
  enforce_ex_str s on outs em =
  match error_before_decision e outs with
  | Some c => Err c
  | None => Ok (spec_decision e outs, spec_explain e outs)
  end.
Proof. exact decision_is_spec. Qed.
Print Assumptions C01_decision_is_spec.

Theorem C01_empty_policy : forall s e, In (s, e) documented -> forall em,
  enforce_ex_str s on [] em = Ok (match e with DO => true | _ => em end, None).
Proof. exact empty_policy. Qed.
Print Assumptions C01_empty_policy.

Theorem C01_disabled_allows : forall s e, In (s, e) documented -> forall c outs em,
  enabled c = false -> enforce_ex_str s c outs em = Ok (true, None).
Proof. exact disabled_allows_str. Qed.
Print Assumptions C01_disabled_allows.

Theorem C01_arity_raises : forall s e, In (s, e) documented -> forall c outs em,
  enabled c = true -> arity_ok c = false -> enforce_ex_str s c outs em = Err EArity.
Proof. exact arity_raises_str. Qed.
Print Assumptions C01_arity_raises.

(* rules that do not match, or whose effect is neither allow nor deny, never decide *)
Theorem C01_inert_never_decides : forall e l1 o l2,
  inert o = true -> spec_decision e (l1 ++ o :: l2) = spec_decision e (l1 ++ l2).
Proof. exact inert_never_decides. Qed.
Print Assumptions C01_inert_never_decides.

Theorem C01_order_irrelevant : forall e outs outs',
  e <> PR -> Permutation outs outs' -> spec_decision e outs = spec_decision e outs'.
Proof. exact order_irrelevant. Qed.
Print Assumptions C01_order_irrelevant.

(* non-vacuity: a concrete mixed sequence under priority, decided by its 3rd rule *)
Example C01_example :
  enforce_ex_str doc_priority on [NoMatch; Match EOther; Match EDeny; Match EAllow] false
  = Ok (false, Some 2).
Proof. vm_compute. reflexivity. Qed.

(* ---------------------------------------------------------------------------------------------------------------
   The same statements about the SOURCE: the decision kernel of CoreEnforcer.enforce_ex (casbin/core_enforcer.py) is
   re-translated on every run into a program of the language of EnfLang.v (coq/gen/EnforceGen.v; how the matcher is built
   and evaluated, effector selection and logging are abstracted - the matcher's value per rule is an input);
   EnforceSrcTie.v proves by symbolic execution, for every effector triple, configuration and list of rules, that the
   interpreter run on the regenerated kernel computes Enforce.enforce_ex on the outcome list [map out_of rules]. *)
From PyCasbin Require EnfLang EnforceSrcTie.
From PyCasbinGen Require EnforceGen.

Theorem C01_source_kernel_is_model : forall im fi tb en ar he rules er, (he = false \/ rules <> []) ->
  EnfLang.erun im fi tb (EnforceSrcTie.mkenv en ar he rules er) EnforceSrcTie.EFUEL EnforceGen.enforce_kernel_locals
    EnforceGen.enforce_kernel_gen =
  enforce_ex im fi tb {| enabled := en; arity_ok := ar |} (map EnforceSrcTie.out_of rules) (EnforceSrcTie.truthy er).
Proof. exact EnforceSrcTie.kernel_is_model. Qed.
Print Assumptions C01_source_kernel_is_model.

Theorem C01_source_decision_is_spec : forall s e, In (s, e) documented ->
  forall he rules er, rules <> [] ->
  EnforceSrcTie.src_enforce_ex s true true he rules er =
  match error_before_decision e (map EnforceSrcTie.out_of rules) with
  | Some c => Err c
  | None => Ok (spec_decision e (map EnforceSrcTie.out_of rules), spec_explain e (map EnforceSrcTie.out_of rules))
  end.
Proof. exact EnforceSrcTie.src_decision_is_spec. Qed.
Print Assumptions C01_source_decision_is_spec.

Theorem C01_source_empty_policy : forall s e, In (s, e) documented -> forall er,
  EnforceSrcTie.src_enforce_ex s true true false [] er =
  Ok (match e with DO => true | _ => EnforceSrcTie.truthy er end, None).
Proof. exact EnforceSrcTie.src_empty_policy. Qed.
Print Assumptions C01_source_empty_policy.

Theorem C01_source_disabled_allows : forall s e, In (s, e) documented -> forall ar he rules er,
  (he = false \/ rules <> []) -> EnforceSrcTie.src_enforce_ex s false ar he rules er = Ok (true, None).
Proof. exact EnforceSrcTie.src_disabled_allows. Qed.
Print Assumptions C01_source_disabled_allows.

Theorem C01_source_arity_raises : forall s e, In (s, e) documented -> forall he rules er,
  (he = false \/ rules <> []) -> EnforceSrcTie.src_enforce_ex s true false he rules er = Err EArity.
Proof. exact EnforceSrcTie.src_arity_raises. Qed.
Print Assumptions C01_source_arity_raises.

Example C01_source_example :
  EnforceSrcTie.src_enforce_ex EffectorsGen.PRIORITY_EFFECT true true false
    [ {| EnfLang.rr_size_ok := true; EnfLang.rr_res := EnfLang.RBool false; EnfLang.rr_eft := Some EAllow |};
      {| EnfLang.rr_size_ok := true; EnfLang.rr_res := EnfLang.RBool true; EnfLang.rr_eft := Some EOther |};
      {| EnfLang.rr_size_ok := true; EnfLang.rr_res := EnfLang.RFloat true; EnfLang.rr_eft := Some EDeny |};
      {| EnfLang.rr_size_ok := true; EnfLang.rr_res := EnfLang.RBool true; EnfLang.rr_eft := Some EAllow |} ]
    (EnfLang.RBool false) = Ok (false, Some 2%nat).
Proof. exact EnforceSrcTie.src_kernel_example. Qed.
