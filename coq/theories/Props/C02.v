(* C02 — A rule matches exactly when the matcher expression is true of request and rule.
   Text level: the repository's own pipeline (escape_assertion, remove_comments, the three rewrites of
   _get_expression (repaired: " and " / " or " / " not "), SimpleEval's strip) maps EVERY admissible
   spacing of a well-formed Casbin token list to the corresponding Python token list.
   Parser level (ParseProofs.v): the Python-side parser of the model reads those tokens back as the
   translated AST of the expression (fuel always sufficient), so every admissible layout of a
   grammatical expression parses to the same AST and evaluates as that AST.
   Only statements here; proofs are `exact <lemma>`. *)
From Coq Require Import List NArith Bool.
From PyCasbin Require Import Base Effect Expr MatcherText MatcherTextProofs ParseProofs.
Import ListNotations.
Local Open Scope N_scope.

(* every well-formed Casbin token list x every admissible layout (blank runs possibly EMPTY, of any
   length; no bound on the number of tokens) *)
Theorem C02_pipeline_tokens : forall rs ps ts ws,
  ts <> [] -> wf_tokens rs ps ts = true -> existsb eval_tok ts = false ->
  admissible ts ws = true ->
  py_tokens (pipeline (render ts ws)) = Some (flat_map tr ts).
Proof. exact pipeline_tokens. Qed.
Print Assumptions C02_pipeline_tokens.

(* an admissible layout reads back, with the Casbin-side reference lexer, as the token list it was
   rendered from (so `admissible` implies DESIGN's hypothesis  cb_lex (render ts ws) = Some ts) *)
Theorem C02_cb_lex_render : forall rs ps ts ws,
  wf_tokens rs ps ts = true -> admissible ts ws = true -> cb_lex (render ts ws) = Some ts.
Proof. exact cb_lex_render. Qed.
Print Assumptions C02_cb_lex_render.

(* the same for the token list of an AST of the expression language *)
Theorem C02_pipeline_tokens_ast : forall rs ps e ws,
  forallb is_digit rs = true -> forallb is_digit ps = true ->
  names_ok rs ps e = true -> has_eval_expr e = false -> admissible (tokens_of e) ws = true ->
  py_tokens (pipeline (render (tokens_of e) ws)) = Some (flat_map tr (tokens_of e)).
Proof. exact pipeline_tokens_ast. Qed.
Print Assumptions C02_pipeline_tokens_ast.

(* a trailing # comment (any text) changes nothing *)
Theorem C02_comment_strip : forall rs ps ts ws c,
  ts <> [] -> wf_tokens rs ps ts = true -> existsb eval_tok ts = false ->
  admissible ts ws = true ->
  py_tokens (pipeline (render ts ws ++ 35 :: c)) = Some (flat_map tr ts).
Proof. exact comment_strip. Qed.
Print Assumptions C02_comment_strip.

(* escape_assertion rewrites r<sfx>.f / p<sfx>.f (and the argument of eval) and nothing else,
   whatever the spacing; tokens containing eval() included *)
Theorem C02_escape_only_rp : forall rs ps ts ws,
  wf_tokens rs ps ts = true -> admissible ts ws = true ->
  escape_assertion (render ts ws) = render (map esc_tok ts) ws.
Proof. exact escape_only_rp. Qed.
Print Assumptions C02_escape_only_rp.

Theorem C02_escape_other_tokens_unchanged : forall t,
  match t with TReq _ _ _ | TPol _ _ | TEval _ _ => False | _ => True end -> esc_tok t = t.
Proof. exact esc_tok_other. Qed.
Print Assumptions C02_escape_other_tokens_unchanged.

(* Config: k backslash-continued lines + a last line = the stripped segments joined by ONE blank.
   Partial: the guard excludes lines that are empty, comment-like or taken for a section header *)
Theorem C02_continuation_join_partial : forall conts st last, c_can st = false ->
  forallb (fun r => plain_line r && last_is 92 (strip r)) conts = true ->
  plain_line last = true -> last_is 92 (strip last) = false ->
  cfg_lines st (conts ++ [last])
  = Ok (with_buf st (c_buf st ++ map seg_cont conts ++ [strip last]) true).
Proof. exact continuation_join_partial. Qed.
Print Assumptions C02_continuation_join_partial.

(* ... and the guard is needed (known finding C02-continuation-bracket-line) *)
Theorem C02_continuation_join_refuted :
  exists conts last,
    forallb (fun r => plain_line r && last_is 92 (strip r)) conts = true
    /\ last_is 92 (strip last) = false /\ plain_line last = false
    /\ cfg_lines {| c_sec := []; c_buf := []; c_can := false; c_data := [] |} (conts ++ [last])
       <> Ok {| c_sec := []; c_buf := map seg_cont conts ++ [strip last]; c_can := true; c_data := [] |}.
Proof. exact continuation_join_refuted. Qed.
Print Assumptions C02_continuation_join_refuted.

(* eval(): the value stored at load time, the rule fields looked up at enforce time, and the text
   handed to the parser after splicing: every eval(p.f) becomes  ( <escaped rule tokens> )  — one
   parenthesised atom — whatever the spacing of the matcher and of the rule texts (pieces = tokens
   with the blanks before / after them; rule texts are themselves admissible well-formed layouts) *)
Theorem C02_eval_splice_tokens : forall rs ps pcs Rs,
  forallb is_digit rs = true -> forallb is_digit ps = true -> pcs <> [] ->
  adm pcs = true -> forallb (wf_tok rs ps) (toks pcs) = true -> forallb casbin_tok (toks pcs) = true ->
  Forall (fun R => adm R = true /\ forallb (wf_tok rs ps) (toks R) = true
                   /\ forallb casbin_tok (toks R) = true /\ existsb eval_tok (toks R) = false) Rs ->
  length Rs = length (filter eval_tok (toks pcs)) ->
  let stored := stored_value (render_pieces pcs) in
  get_eval_value None 0 stored = eval_args (toks pcs)
  /\ exists spliced,
       replace_eval (map (fun R => escape_assertion (render_pieces R)) Rs) None 0 stored = Some spliced
       /\ py_tokens (get_expression spliced)
          = Some (flat_map tr (splice_toks (toks pcs) (map toks Rs))).
Proof. exact eval_splice_pieces. Qed.
Print Assumptions C02_eval_splice_tokens.

(* non-vacuity of the eval theorem:  eval(p.rule)&&r.obj==p.obj  with the rule text  r.sub.Age>18||r.sub.Name=="x" *)
Definition ex_m : list piece :=
  [([], TEval [] [114; 117; 108; 101], []); ([], TAnd, []); ([], TReq [] [111; 98; 106] [], []); ([], TCmp CEq, []); ([], TPol [] [111; 98; 106], [])].
Definition ex_rule : list piece :=
  [([], TReq [] [115; 117; 98] [[65; 103; 101]], []); ([], TCmp CGt, []); ([], TInt [49; 56], []); ([], TOr, []);
   ([], TReq [] [115; 117; 98] [[78; 97; 109; 101]], []); ([], TCmp CEq, []); ([], TStr true [120], [])].
Example C02_example_eval :
  render_pieces ex_m = [101; 118; 97; 108; 40; 112; 46; 114; 117; 108; 101; 41; 38; 38; 114; 46; 111; 98; 106; 61; 61; 112; 46; 111; 98; 106] /\ render_pieces ex_rule = [114; 46; 115; 117; 98; 46; 65; 103; 101; 62; 49; 56; 124; 124; 114; 46; 115; 117; 98; 46; 78; 97; 109; 101; 61; 61; 34; 120; 34]
  /\ adm ex_m = true /\ adm ex_rule = true
  /\ forallb (wf_tok [] []) (toks ex_m ++ toks ex_rule) = true
  /\ option_map (fun s => py_tokens (get_expression s))
       (replace_eval [escape_assertion (render_pieces ex_rule)] None 0 (stored_value (render_pieces ex_m)))
     = Some (Some [TLP; TId [114; 95; 115; 117; 98]; TDot; TId [65; 103; 101]; TCmp CGt; TInt [49; 56]; TKOr; TId [114; 95; 115; 117; 98]; TDot; TId [78; 97; 109; 101];
                   TCmp CEq; TStr true [120]; TRP; TKAnd; TId [114; 95; 111; 98; 106]; TCmp CEq; TId [112; 95; 111; 98; 106]]).
Proof. vm_compute. repeat split; reflexivity. Qed.

(* non-vacuity: r.sub==p.sub&&!(r.obj!=p.obj)||r.act in("read",'w')  with NO optional blank *)
Definition ex_ts : list tok :=
  [TReq [] [115; 117; 98] []; TCmp CEq; TPol [] [115; 117; 98]; TAnd; TNot; TLP; TReq [] [111; 98; 106] []; TCmp CNe; TPol [] [111; 98; 106]; TRP;
   TOr; TReq [] [97; 99; 116] []; TIn; TLP; TStr true [114; 101; 97; 100]; TComma; TStr false [119]; TRP].
Definition ex_ws : layout :=
  [([], []); ([], []); ([], []); ([], []); ([], []); ([], []); ([], []); ([], []); ([], []); ([], []);
   ([], []); ([], [32]); ([], []); ([], []); ([], []); ([], []); ([], []); ([], [])].
Example C02_example_hypotheses :
  wf_tokens [] [] ex_ts = true /\ admissible ex_ts ex_ws = true
  /\ render ex_ts ex_ws = [114; 46; 115; 117; 98; 61; 61; 112; 46; 115; 117; 98; 38; 38; 33; 40; 114; 46; 111; 98; 106; 33; 61; 112; 46; 111; 98; 106; 41; 124; 124; 114; 46; 97; 99; 116; 32; 105; 110; 40; 34; 114; 101; 97; 100; 34; 44; 39; 119; 39; 41].
Proof. vm_compute. repeat split; reflexivity. Qed.
Example C02_example_tokens :
  py_tokens (pipeline (render ex_ts ex_ws))
  = Some [TId [114; 95; 115; 117; 98]; TCmp CEq; TId [112; 95; 115; 117; 98]; TKAnd; TKNot; TLP; TId [114; 95; 111; 98; 106]; TCmp CNe; TId [112; 95; 111; 98; 106]; TRP; TKOr;
          TId [114; 95; 97; 99; 116]; TIn; TLP; TStr true [114; 101; 97; 100]; TComma; TStr false [119]; TRP].
Proof. vm_compute. reflexivity. Qed.

(* ====================================================================== the Python-side parser (ParseProofs.v)
   tr_expr = the AST-level image of tr (r.f.a -> r_f.a, p.f -> p_f, eval(p.f) -> the call eval(p_f));
   rassoc nests || / && chains to the right, as the parser does (Python's BoolOp is flat). *)

(* every grammatical expression, no size bound: parse_tokens never runs out of fuel and returns the
   translated AST of the re-associated expression *)
Theorem C02_parse_roundtrip : forall e, grammatical e = true ->
  parse_tokens (flat_map tr (tokens_of e)) = Ok (tr_expr (rassoc e)).
Proof. exact parse_roundtrip. Qed.
Print Assumptions C02_parse_roundtrip.

(* the fuel 8 * S (length ts) of parse_tokens suffices and all tokens are consumed *)
Theorem C02_parse_fuel_suffices : forall e, grammatical e = true ->
  p_or (8 * S (length (flat_map tr (tokens_of e)))) (flat_map tr (tokens_of e))
  = Ok (tr_expr (rassoc e), []).
Proof. exact parse_fuel_suffices. Qed.
Print Assumptions C02_parse_fuel_suffices.

(* re-association changes neither the tokens nor the value (any environment, any function table) *)
Theorem C02_rassoc_same_tokens : forall e, tokens_of (rassoc e) = tokens_of e.
Proof. exact tokens_rassoc. Qed.
Print Assumptions C02_rassoc_same_tokens.

Theorem C02_rassoc_same_value : forall lreq lpol lname levl fns e,
  eval_expr lreq lpol lname levl fns (tr_expr (rassoc e))
  = eval_expr lreq lpol lname levl fns (tr_expr e).
Proof. exact eval_rassoc. Qed.
Print Assumptions C02_rassoc_same_value.

(* the literal round trip  parse (tr (tokens_of e)) = tr_expr e  holds when no || (&&) node is the
   LEFT operand of a || (&&) node ... *)
Theorem C02_parse_roundtrip_partial : forall e, grammatical e = true -> right_nested e = true ->
  parse_tokens (flat_map tr (tokens_of e)) = Ok (tr_expr e).
Proof. exact parse_roundtrip_partial. Qed.
Print Assumptions C02_parse_roundtrip_partial.

(* ... and not without that guard: (f() || f()) || f() is unparsed without parentheses *)
Theorem C02_parse_roundtrip_refuted : exists e,
  grammatical e = true /\ names_ok [] [] e = true
  /\ parse_tokens (flat_map tr (tokens_of e)) <> Ok (tr_expr e).
Proof. exact parse_roundtrip_refuted. Qed.
Print Assumptions C02_parse_roundtrip_refuted.

(* the parser's own language (list items / call arguments any expression, Python-side names) *)
Theorem C02_parser_language : forall e, ok 0 e = true ->
  parse_tokens (flat_map tr (tokens_of e)) = Ok (tr_expr e).
Proof. exact parse_ok. Qed.
Print Assumptions C02_parser_language.

(* text -> pipeline -> py_lex -> parse_tokens, for every admissible layout *)
Theorem C02_pipeline_parse : forall rs ps e ws,
  forallb is_digit rs = true -> forallb is_digit ps = true ->
  names_ok rs ps e = true -> has_eval_expr e = false -> grammatical e = true ->
  admissible (tokens_of e) ws = true ->
  parse_text (pipeline (render (tokens_of e) ws)) = Ok (tr_expr (rassoc e)).
Proof. exact pipeline_parse. Qed.
Print Assumptions C02_pipeline_parse.

(* two admissible layouts of the same expression parse to the same AST *)
Theorem C02_layout_independent_parse : forall rs ps e ws1 ws2,
  forallb is_digit rs = true -> forallb is_digit ps = true ->
  names_ok rs ps e = true -> has_eval_expr e = false -> grammatical e = true ->
  admissible (tokens_of e) ws1 = true -> admissible (tokens_of e) ws2 = true ->
  parse_text (pipeline (render (tokens_of e) ws1)) = parse_text (pipeline (render (tokens_of e) ws2)).
Proof. exact layout_independent_parse. Qed.
Print Assumptions C02_layout_independent_parse.

(* the model's decision path evaluates every admissible layout exactly as the translated AST *)
Theorem C02_layout_independent_evaluation : forall rs ps e ws fns params,
  forallb is_digit rs = true -> forallb is_digit ps = true ->
  names_ok rs ps e = true -> has_eval_expr e = false -> grammatical e = true ->
  admissible (tokens_of e) ws = true ->
  rbind (parse_text (pipeline (render (tokens_of e) ws))) (eval_py fns params)
  = eval_py fns params (tr_expr e).
Proof. exact layout_independent_evaluation. Qed.
Print Assumptions C02_layout_independent_evaluation.

(* non-vacuity: the AST of  r.sub==p.sub&&!(r.obj!=p.obj)||r.act in("read",'w')  has the tokens ex_ts,
   satisfies every hypothesis, and the text of C02_example_hypotheses parses to its translated AST *)
Definition ex_e : expr :=
  EOr (EAnd (ECmp CEq (EReq [] [115; 117; 98] []) (EPol [] [115; 117; 98]))
            (ENot (EPar (ECmp CNe (EReq [] [111; 98; 106] []) (EPol [] [111; 98; 106])))))
      (EIn (EReq [] [97; 99; 116] []) [EStr true [114; 101; 97; 100]; EStr false [119]] false).
Example C02_example_parse :
  tokens_of ex_e = ex_ts /\ grammatical ex_e = true /\ right_nested ex_e = true
  /\ names_ok [] [] ex_e = true /\ has_eval_expr ex_e = false /\ admissible (tokens_of ex_e) ex_ws = true
  /\ parse_text (pipeline (render ex_ts ex_ws))
     = Ok (EOr (EAnd (ECmp CEq (EVar [114; 95; 115; 117; 98] []) (EVar [112; 95; 115; 117; 98] []))
                     (ENot (EPar (ECmp CNe (EVar [114; 95; 111; 98; 106] []) (EVar [112; 95; 111; 98; 106] [])))))
               (EIn (EVar [114; 95; 97; 99; 116] []) [EStr true [114; 101; 97; 100]; EStr false [119]] false))
  /\ tr_expr ex_e
     = EOr (EAnd (ECmp CEq (EVar [114; 95; 115; 117; 98] []) (EVar [112; 95; 115; 117; 98] []))
                 (ENot (EPar (ECmp CNe (EVar [114; 95; 111; 98; 106] []) (EVar [112; 95; 111; 98; 106] [])))))
           (EIn (EVar [114; 95; 97; 99; 116] []) [EStr true [114; 101; 97; 100]; EStr false [119]] false).
Proof. vm_compute. repeat split; reflexivity. Qed.

(* ---------- util.remove_comments, from the source ----------
   regenerated from casbin/util/util.py on this run (translators/remcomments.py -> coq/gen/CmtGen.v), executed by the interpreter
   of CmtLang.v: it computes MatcherText.remove_comments, the last step of the text every effect / matcher definition is stored
   as (stored_value); escape_assertion, has_eval and the expression rewriting are regex-based and stay hand models tied by the
   differential matcher-text strata. *)
From PyCasbin Require CmtLang CmtTie.
From PyCasbinGen Require CmtGen.

Theorem C02_source_remove_comments : forall s,
  CmtLang.mrun 12 CmtGen.remove_comments_params CmtGen.remove_comments_gen [CmtLang.MVS s] = Ok (CmtLang.MVS (remove_comments s)).
Proof. exact CmtTie.tie_remove_comments. Qed.
Print Assumptions C02_source_remove_comments.

Example C02_source_remove_comments_example :
  (* "m = a  # b" -> "m = a" ; a text without '#' is returned as it is (not stripped) *)
  CmtLang.mrun 12 CmtGen.remove_comments_params CmtGen.remove_comments_gen [CmtLang.MVS [109; 32; 61; 32; 97; 32; 32; 35; 32; 98]]
    = Ok (CmtLang.MVS [109; 32; 61; 32; 97])
  /\ CmtLang.mrun 12 CmtGen.remove_comments_params CmtGen.remove_comments_gen [CmtLang.MVS [32; 97; 32]] = Ok (CmtLang.MVS [32; 97; 32]).
Proof. vm_compute. split; reflexivity. Qed.
