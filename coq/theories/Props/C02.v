(* C02 — placeholder while the proofs are being developed *)
From Coq Require Import List NArith Bool.
From PyCasbin Require Import Base Expr MatcherText.
Import ListNotations.
Example C02_placeholder : py_tokens (pipeline [114; 46; 97; 38; 38; 112; 46; 98]%N)
  = Some [TId [114; 95; 97]%N; TKAnd; TId [112; 95; 98]%N].
Proof. vm_compute. reflexivity. Qed.
