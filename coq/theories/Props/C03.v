(* C03 — Role inheritance is reachability over the current role assignments.
   Only statements here; proofs are `exact <lemma>`.  Models: RoleGraph.v (RoleManager,
   DomainManager), CondRM.v (ConditionalRoleManager, ConditionalDomainManager); no bound on the
   size of the graph or the length of the history anywhere below.

   Reading of "up to the configured maximum depth": the code's own level countdown.
   RoleManager / DomainManager: a role is held iff it is reachable by a path of k < max edges
   (max_hierarchy_level = 10: 9 hops are followed, 10 are not); the conditional managers test
   `level < 0` instead of `level <= 0` and follow k <= max edges.  Both are "never beyond". *)
From Coq Require Import List NArith Bool Arith.
From PyCasbin Require Import Base RoleGraph RoleGraphProofs CondRM CondRMProofs.
Import ListNotations.

(* ---- has_link on ANY state of the plain manager: no hypothesis on the graph (cycles,
        self-assignments, diamonds are all covered; termination is by the level countdown) ---- *)
Theorem C03_has_link_reach : forall s a b,
  rm_has_link s a b = true <-> exists k, k < rm_max s /\ path (rm_edge s) k a b.
Proof. exact has_link_reach. Qed.
Print Assumptions C03_has_link_reach.

Theorem C03_reflexive : forall s a, 1 <= rm_max s -> rm_has_link s a a = true.
Proof. exact has_link_reflexive. Qed.
Print Assumptions C03_reflexive.

(* the graph may be anything — in particular cyclic (infinitely many paths): the countdown still
   stops, and says "no" exactly when no path of fewer than max edges exists.  (Totality of the
   Gallina function IS termination; the level argument is the code's own fuel.) *)
Theorem C03_cycles_terminate : forall s a b,
  rm_has_link s a b = false <-> forall k, k < rm_max s -> ~ path (rm_edge s) k a b.
Proof. exact has_link_false_iff. Qed.
Print Assumptions C03_cycles_terminate.

Theorem C03_monotone_in_bound : forall L L' ls rs us a b, L <= L' ->
  rm_has_link (mkRM L ls rs us) a b = true -> rm_has_link (mkRM L' ls rs us) a b = true.
Proof. exact has_link_mono. Qed.
Print Assumptions C03_monotone_in_bound.

(* the executable spec the correspondence check evaluates on small inputs *)
Theorem C03_spec_function_sound : forall ls k a b,
  reach_le ls k a b = true <-> exists j, j <= k /\ path (link_edge ls) j a b.
Proof. exact reach_le_spec. Qed.
Print Assumptions C03_spec_function_sound.

Theorem C03_never_beyond : forall s a b,
  (forall k, path (rm_edge s) k a b -> rm_max s <= k) -> rm_has_link s a b = false.
Proof. exact has_link_never_beyond. Qed.
Print Assumptions C03_never_beyond.

Theorem C03_followed_within : forall s a b k,
  path (rm_edge s) k a b -> k < rm_max s -> rm_has_link s a b = true.
Proof. exact has_link_within. Qed.
Print Assumptions C03_followed_within.

(* ---- histories: every order of adding / deleting / clearing, no assignment added while in force ---- *)
Theorem C03_edges_are_links : forall L ops, no_double_add ops = true ->
  rm_run (rm_empty L) ops = rm_set L (links_spec ops) /\ NoDup (links_spec ops).
Proof. exact edges_are_links. Qed.
Print Assumptions C03_edges_are_links.

Theorem C03_has_link_is_reachability : forall L ops a b, no_double_add ops = true ->
  (rm_has_link (rm_run (rm_empty L) ops) a b = true
   <-> exists k, k < L /\ path (link_edge (links_spec ops)) k a b).
Proof. exact has_link_history. Qed.
Print Assumptions C03_has_link_is_reachability.

Theorem C03_direct_only : forall L ops u r, no_double_add ops = true ->
  (In r (rm_get_roles (rm_run (rm_empty L) ops) u) <-> In (u, r) (links_spec ops)) /\
  (In u (rm_get_users (rm_run (rm_empty L) ops) r) <-> In (u, r) (links_spec ops)).
Proof. exact direct_only. Qed.
Print Assumptions C03_direct_only.

Theorem C03_no_stale_delete : forall L ops u r, no_double_add ops = true ->
  snd (rm_delete_link_x (rm_run (rm_empty L) ops) u r) = None.
Proof. exact no_stale_delete. Qed.
Print Assumptions C03_no_stale_delete.

(* these two hold after EVERY history, double adds and failed deletes included *)
Theorem C03_roles_users_inverse : forall L ops u r,
  In r (rm_get_roles (rm_run (rm_empty L) ops) u) <-> In u (rm_get_users (rm_run (rm_empty L) ops) r).
Proof. exact roles_users_inverse. Qed.
Print Assumptions C03_roles_users_inverse.

Theorem C03_edges_subset_links : forall L ops l,
  In l (rm_roles (rm_run (rm_empty L) ops)) -> In l (rm_links (rm_run (rm_empty L) ops)).
Proof. exact edges_subset_links. Qed.
Print Assumptions C03_edges_subset_links.

(* the guard is needed: a repeated add_link makes the link list a multiset while the edges stay a
   set — after add, add, delete the link is still listed but no longer followed, a manager rebuilt
   from the list would follow it, and the next delete raises KeyError *)
Theorem C03_double_add_refuted : exists ops,
  no_double_add ops = false /\
  let s := rm_run (rm_empty 10) ops in
  rm_links s = [(1, 2)]%N /\ rm_roles s = [] /\ rm_has_link s 1%N 2%N = false /\
  rm_has_link (rm_of_links 10 (rm_links s)) 1%N 2%N = true /\
  snd (rm_delete_link_x s 1%N 2%N) = Some EKeyError.
Proof. exact double_add_refuted. Qed.
Print Assumptions C03_double_add_refuted.

(* ---- domains ---- *)
Theorem C03_domain_scoped : forall L ops a b d, dm_no_double_add_from (dm_empty L) ops = true ->
  let s := dm_run (dm_empty L) ops in
  dm_links_of s d = links_spec (dm_proj d ops) /\
  (fst (dm_has_link s a b d) = true <-> exists k, k < L /\ path (link_edge (dm_links_of s d)) k a b).
Proof. exact domain_scoped. Qed.
Print Assumptions C03_domain_scoped.

Theorem C03_domain_direct_only : forall L ops u r d, dm_no_double_add_from (dm_empty L) ops = true ->
  let s := dm_run (dm_empty L) ops in
  (In r (fst (dm_get_roles s u d)) <-> In (u, r) (dm_links_of s d)) /\
  (In u (fst (dm_get_users s r d)) <-> In (u, r) (dm_links_of s d)).
Proof. exact domain_direct_only. Qed.
Print Assumptions C03_domain_direct_only.

(* histories interleave adds, deletes, clears AND queries (which create cache entries) *)
Theorem C03_cache_consistent : forall L ops, dm_no_double_add_from (dm_empty L) ops = true ->
  let s := dm_run (dm_empty L) ops in
  forall d rm, alookup d (dm_cache s) = Some rm -> rm = dm_build s d.
Proof. exact cache_consistent. Qed.
Print Assumptions C03_cache_consistent.

Theorem C03_domain_no_stale_delete : forall L ops u r d, dm_no_double_add_from (dm_empty L) ops = true ->
  let s := dm_run (dm_empty L) ops in
  snd (dm_delete_link_x s u r d) = if mem link_eqb (u, r) (dm_links_of s d) then None else Some ELinkMissing.
Proof. exact domain_no_stale_delete. Qed.
Print Assumptions C03_domain_no_stale_delete.

Theorem C03_domain_double_add_refuted :
  (let ops := [DAdd 1 2 7; DQuery 7; DAdd 1 2 7; DDel 1 2 7]%N in
   let s := dm_run (dm_empty 10) ops in
   dm_no_double_add_from (dm_empty 10) ops = false /\
   dm_links_of s 7%N = [(1, 2)]%N /\ links_spec (dm_proj 7%N ops) = [] /\
   fst (dm_has_link s 1 2 7)%N = false /\ rm_has_link (dm_build s 7%N) 1%N 2%N = true) /\
  (let ops := [DAdd 1 2 7; DAdd 1 2 7; DDel 1 2 7]%N in
   let s := dm_run (dm_empty 10) ops in
   dm_no_double_add_from (dm_empty 10) ops = false /\
   links_spec (dm_proj 7%N ops) = [] /\ fst (dm_has_link s 1 2 7)%N = true).
Proof. exact dm_double_add_refuted. Qed.
Print Assumptions C03_domain_double_add_refuted.

(* ---- link conditions: `cond` is ANY boolean function of (function id, stored parameters) ---- *)
Theorem C03_cond_reach : forall (cond : N -> list N -> bool) s a b doms,
  crm_has_link cond s a b doms = true <->
  exists k, k <= rm_max (crm_rm s) /\ path (crm_edge cond s (dom_key doms)) k a b.
Proof. exact cond_reach. Qed.
Print Assumptions C03_cond_reach.

Theorem C03_cond_followed_iff_true : forall (cond : N -> list N -> bool) s a b dk,
  crm_pass cond s a b dk = true <->
  (clookup (a, b, dk) (crm_fn s) = None \/
   exists f, clookup (a, b, dk) (crm_fn s) = Some f /\ cond f (crm_params_of s (a, b, dk)) = true).
Proof. exact crm_pass_spec. Qed.
Print Assumptions C03_cond_followed_iff_true.

Theorem C03_cond_reach_history : forall (cond : N -> list N -> bool) L ops a b doms,
  no_double_add (crm_links_of ops) = true ->
  let s := crm_run (crm_empty L) ops in
  (crm_has_link cond s a b doms = true <->
   exists k, k <= L /\
     path (fun x y => In (x, y) (links_spec (crm_links_of ops))
                      /\ crm_pass cond s x y (dom_key doms) = true) k a b).
Proof. exact cond_reach_history. Qed.
Print Assumptions C03_cond_reach_history.

Theorem C03_cond_domain_scoped : forall (cond : N -> list N -> bool) s a b d,
  cdm_has_link cond s a b d = true <->
  exists k, k <= rm_max (crm_rm (cdm_get s d)) /\ path (crm_edge cond (cdm_get s d) d) k a b.
Proof. exact cdm_domain_scoped. Qed.
Print Assumptions C03_cond_domain_scoped.

(* conditional domain manager over histories (adds, deletes, clears, listings, condition
   registrations in any order): the manager of domain d holds exactly the assignments recorded
   for d, and has_link in d is reachability over those that pass their condition *)
Theorem C03_cond_domain_links_scoped : forall L ops d,
  crm_rm (cdm_get (cdm_run (cdm_empty L) ops) d) = rm_run (rm_empty L) (cdm_proj d ops).
Proof. exact cdm_links_scoped. Qed.
Print Assumptions C03_cond_domain_links_scoped.

Theorem C03_cond_domain_reach_history : forall (cond : N -> list N -> bool) L ops a b d,
  no_double_add (cdm_proj d ops) = true ->
  let m := cdm_get (cdm_run (cdm_empty L) ops) d in
  (cdm_has_link cond (cdm_run (cdm_empty L) ops) a b d = true <->
   exists k, k <= L /\
     path (fun x y => In (x, y) (links_spec (cdm_proj d ops)) /\ crm_pass cond m x y d = true) k a b).
Proof. exact cdm_reach_history. Qed.
Print Assumptions C03_cond_domain_reach_history.

(* ---- non-vacuity: a concrete history with a cycle, a self-assignment, a diamond, a deletion and
        a re-addition; guards hold; answers computed ---- *)
Example C03_example :
  let ops := [OAdd 1 2; OAdd 2 3; OAdd 3 1; OAdd 4 4; OAdd 1 5; OAdd 5 3; OAdd 2 6; ODel 2 6;
              ODel 3 1; OAdd 3 1; OAdd 6 7]%N in
  no_double_add ops = true /\
  links_spec ops = [(1, 2); (2, 3); (4, 4); (1, 5); (5, 3); (3, 1); (6, 7)]%N /\
  rm_has_link (rm_run (rm_empty 10) ops) 3%N 5%N = true /\      (* round the cycle 3 -> 1 -> 5 *)
  rm_has_link (rm_run (rm_empty 10) ops) 1%N 6%N = false /\     (* deleted assignment *)
  rm_has_link (rm_run (rm_empty 2) ops) 1%N 3%N = false /\      (* two hops need max > 2 *)
  rm_has_link (rm_run (rm_empty 3) ops) 1%N 3%N = true.
Proof. vm_compute. repeat split; reflexivity. Qed.

Example C03_example_domain :
  let ops := [DAdd 1 2 7; DQuery 7; DAdd 2 3 7; DAdd 1 3 8; DQuery 8; DDel 1 2 7; DAdd 3 1 8]%N in
  dm_no_double_add_from (dm_empty 10) ops = true /\
  fst (dm_has_link (dm_run (dm_empty 10) ops) 1 3 7)%N = false /\
  fst (dm_has_link (dm_run (dm_empty 10) ops) 2 3 7)%N = true /\
  fst (dm_has_link (dm_run (dm_empty 10) ops) 2 3 8)%N = false /\
  fst (dm_has_link (dm_run (dm_empty 10) ops) 3 3 8)%N = true.
Proof. vm_compute. repeat split; reflexivity. Qed.

Example C03_example_cond :
  let tbl := [(1, [5], true); (1, [6], false)]%N in
  let ops := [CLink (OAdd 1 2); CLink (OAdd 2 3); CFn 2 3 0 1; CParams 2 3 0 [6]]%N in
  crm_has_link (table_cond tbl) (crm_run (crm_empty 10) ops) 1%N 3%N [] = false /\
  crm_has_link (table_cond tbl) (crm_run (crm_empty 10) (ops ++ [CParams 2 3 0 [5]]))%N 1%N 3%N [] = true.
Proof. vm_compute. split; reflexivity. Qed.

Example C03_example_cond_domain : (
  let tbl := [(1, [5], false)] in
  let ops := [KAdd 1 2 3; KAdd 2 3 3; KAdd 1 3 4; KFn 1 2 3 1; KParams 1 2 3 [5]] in
  no_double_add (cdm_proj 3 ops) = true /\
  cdm_has_link (table_cond tbl) (cdm_run (cdm_empty 10) ops) 1 3 3 = false /\   (* condition false *)
  cdm_has_link (table_cond tbl) (cdm_run (cdm_empty 10) ops) 2 3 3 = true /\
  cdm_has_link (table_cond tbl) (cdm_run (cdm_empty 10) ops) 1 3 4 = true /\    (* other domain *)
  cdm_has_link (table_cond tbl) (cdm_run (cdm_empty 10) ops) 1 2 4 = false)%N.
Proof. vm_compute. repeat split; reflexivity. Qed.

(* a quirk outside the property's quantifier, recorded because it fails open: the conditional DOMAIN
   manager pushes a condition only into the per-domain managers that exist at that moment
   (role_manager.py 515-517), so a condition registered before the domain has received its first
   link is silently dropped — unlike in the plain conditional manager (C03_example_cond registers
   before or after alike) *)
Example C03_cond_domain_early_registration_dropped : (
  let tbl := [(1, [], false)] in
  cdm_has_link (table_cond tbl) (cdm_run (cdm_empty 10) [KFn 1 2 3 1; KAdd 1 2 3]) 1 2 3 = true /\
  cdm_has_link (table_cond tbl) (cdm_run (cdm_empty 10) [KAdd 1 2 3; KFn 1 2 3 1]) 1 2 3 = false /\
  crm_has_link (table_cond tbl) (crm_run (crm_empty 10) [CFn 1 2 3 1; CLink (OAdd 1 2)]) 1 2 [3] = false)%N.
Proof. vm_compute. repeat split; reflexivity. Qed.

(* ---------------------------------------------------------------------------------------------------------------
   Of the SOURCE: RoleManager._has_link (the recursive breadth-first search with its level countdown) and
   RoleManager.has_link (casbin/rbac/default_role_manager/role_manager.py) are re-translated on every run into programs
   of the language of RoleLang.v (coq/gen/HasLinkGen.v); RoleTie.v proves that the interpreter run on them computes
   has_link_lvl / rm_has_link - the functions C03_has_link_reach and its corollaries above are about - for EVERY role
   graph (`succ`: the direct roles of each name; cycles, self-loops and diamonds included), every frontier, every level
   and EVERY order in which Python may hand out the elements of a set (`shuffle`: only "same elements" is assumed), with
   a recursion budget above the level (the search never needs more). *)
From Coq Require Import ZArith.
From PyCasbin Require RoleLang RoleTie.
From PyCasbinGen Require HasLinkGen.

Theorem C03_source_has_link_rec : forall succ shuffle, (forall l a, In a (shuffle l) <-> In a l) ->
  forall lvl depth t front, lvl < depth ->
  RoleTie.run_rec succ shuffle depth t front (BinInt.Z.of_nat lvl) = Ok (RoleLang.RB (has_link_lvl succ lvl t front)).
Proof. exact RoleTie.tie_has_link_rec. Qed.
Print Assumptions C03_source_has_link_rec.

Theorem C03_source_has_link : forall shuffle, (forall l a, In a (shuffle l) <-> In a l) -> forall s a b,
  RoleTie.run_has_link (rm_succ s) shuffle (BinInt.Z.of_nat (rm_max s)) (S (rm_max s)) a b
  = Ok (RoleLang.RB (rm_has_link s a b)).
Proof. exact RoleTie.tie_rm_has_link. Qed.
Print Assumptions C03_source_has_link.

(* hence, of the regenerated source: has_link answers True exactly for paths of fewer than max_hierarchy_level edges *)
Theorem C03_source_has_link_reach : forall shuffle, (forall l a, In a (shuffle l) <-> In a l) -> forall s a b,
  RoleTie.run_has_link (rm_succ s) shuffle (BinInt.Z.of_nat (rm_max s)) (S (rm_max s)) a b = Ok (RoleLang.RB true)
  <-> exists k, k < rm_max s /\ path (rm_edge s) k a b.
Proof.
  intros shuffle H s a b. rewrite (RoleTie.tie_rm_has_link shuffle H s a b). rewrite <- has_link_reach.
  split; [intro E; inversion E; reflexivity | intros ->; reflexivity].
Qed.
Print Assumptions C03_source_has_link_reach.

(* the regenerated search on the cycle 1 -> 2 -> 3 -> 1 with the set order reversed: 3 is found from 1 within level 3,
   not within level 2; an unreachable name is not found and the search stops *)
Example C03_source_example :
  let succ := fun n => if N.eqb n 1 then [2%N] else if N.eqb n 2 then [3%N] else if N.eqb n 3 then [1%N] else [] in
  RoleTie.run_has_link succ (@rev name) 3%Z 4 1%N 3%N = Ok (RoleLang.RB true)
  /\ RoleTie.run_has_link succ (@rev name) 2%Z 3 1%N 3%N = Ok (RoleLang.RB false)
  /\ RoleTie.run_has_link succ (@rev name) 10%Z 11 1%N 7%N = Ok (RoleLang.RB false).
Proof. vm_compute. repeat split; reflexivity. Qed.

(* The same for the CONDITIONAL role manager: ConditionalRoleManager._has_link / has_link are re-translated on every run
   (translators/condhaslink.py, CRoleLang.v, coq/gen/CondHasLinkGen.v); CRoleTie.v proves that the regenerated search computes
   has_link_lvl over the CONDITIONED successors (a link is followed iff get_next_roles hands it on) with the conditional
   manager's own countdown (`level < 0`: max + 1 rounds), and on a CondRM state exactly crm_has_link - the function
   C03_cond_reach and its corollaries above are about.  The lookup and call of the condition function (get_next_roles) is a
   parameter of the interpreter, instantiated with crm_pass. *)
From PyCasbin Require CRoleLang CRoleTie.
From PyCasbinGen Require CondHasLinkGen.

Theorem C03_source_cond_has_link_rec : forall succ shuffle, (forall l a, In a (shuffle l) <-> In a l) -> forall nexts,
  forall lvl depth t isset front, S lvl < depth ->
  CRoleTie.run_crec succ shuffle nexts depth t (CRoleTie.front_val isset front) (BinInt.Z.of_nat lvl)
  = Ok (CRoleLang.RB (has_link_lvl (CRoleTie.csucc succ nexts) (S lvl) t front)).
Proof. exact CRoleTie.tie_chas_link_rec. Qed.
Print Assumptions C03_source_cond_has_link_rec.

Theorem C03_source_cond_has_link : forall (cond : N -> list N -> bool) shuffle, (forall l a, In a (shuffle l) <-> In a l) ->
  forall s a b doms,
  CRoleTie.run_chas_link (rm_succ (crm_rm s)) shuffle (CRoleTie.nexts_of cond s (dom_key doms)) (BinInt.Z.of_nat (rm_max (crm_rm s)))
                         (S (S (rm_max (crm_rm s)))) a b
  = Ok (CRoleLang.RB (crm_has_link cond s a b doms)).
Proof. exact CRoleTie.tie_crm_has_link. Qed.
Print Assumptions C03_source_cond_has_link.
