(* C04 — role links always reflect the grouping policy (revocation takes effect). *)
From Coq Require Import List NArith Bool.
From PyCasbin Require Import Base Effect Enforce Policy RoleGraph Mgmt MgmtLinks MgmtProofs.
Import ListNotations.

(* Inv: both role managers are exactly what a build from the current (duplicate-free, well-shaped)
   grouping rules yields — per domain, including every cached per-domain manager. *)

(* a freshly constructed enforcer satisfies it *)
Theorem C04_initial_state : forall k db, Inv k (init k db).
Proof. exact init_inv. Qed.
Print Assumptions C04_initial_state.

(* every management / RBAC-API / query / clear / rebuild call keeps it — single, batch and filtered
   adds and removes, duplicate, rejected and no-op calls, delete_user/delete_role included.
   op_ok = the property's premises: grouping rules of the declared arity, auto-build left on. *)
Theorem C04_step_keeps_links_in_sync : forall k s o,
  Inv k s -> op_ok k o = true -> Inv k (fst (step k s o)).
Proof. exact step_inv. Qed.
Print Assumptions C04_step_keeps_links_in_sync.

Theorem C04_history_keeps_links_in_sync : forall k ops s,
  Inv k s -> forallb (op_ok k) ops = true -> Inv k (fst (run k s ops)).
Proof. exact run_inv. Qed.
Print Assumptions C04_history_keeps_links_in_sync.

(* the headline: after ANY such history every decision and every role query equals that of a
   freshly built enforcer (freshen) holding the current rules *)
Theorem C04_links_reflect_policy : forall k db ops,
  forallb (op_ok k) ops = true ->
  let s := fst (run k (init k db) ops) in
  (forall req, snd (enforce_ex_m k s req) = snd (enforce_ex_m k (freshen k s) req))
  /\ (forall u d, fst (rmk_get_roles (m_rm s) u d) = fst (rmk_get_roles (m_rm (freshen k s)) u d)
               /\ fst (rmk_get_users (m_rm s) u d) = fst (rmk_get_users (m_rm (freshen k s)) u d)).
Proof. exact links_reflect_policy. Qed.
Print Assumptions C04_links_reflect_policy.

(* decisions and role queries are functions of the rules alone *)
Theorem C04_decisions_depend_on_rules_only : forall k s s' req,
  Inv k s -> Inv k s' -> same_rules s s' -> snd (enforce_ex_m k s req) = snd (enforce_ex_m k s' req).
Proof. exact decisions_depend_on_rules_only. Qed.
Print Assumptions C04_decisions_depend_on_rules_only.

(* reloading: a successful load_policy of usable rows leaves rules and links in sync again,
   a failed one restores them (C11) — so histories may be continued across reloads *)
Theorem C04_reload_resyncs : forall k s s',
  Inv k s -> load_policy k s None = (s', ok (VL [])) ->
  exists p g g2, deliver k (m_db s) None [] [] [] = Ok (p, g, g2)
    /\ m_g s' = g /\ m_g2 s' = g2
    /\ (if k_prio k then sort_by_priority 0 p = Ok (m_p s') else m_p s' = p)
    /\ (delivered_ok k g g2 -> Inv k s').
Proof. exact successful_reload. Qed.
Print Assumptions C04_reload_resyncs.

(* non-vacuity and the property's own examples: a rejected batch, a duplicate add, a removal,
   delete_user, clear — bob and alice end up without the role, carol keeps it *)
Definition k_rbac : mkind := mkKind false true false false false AO true 0.
Example C04_example :
  let ops := [OAdd 1 [1003; 1006]%N; OAdd 1 [1003; 1006]%N;                     (* alice->admin twice *)
              OAddMany 1 [[1003; 1006]; [1004; 1006]]%N;                         (* rejected batch *)
              OAdd 1 [1005; 1006]%N;                                             (* carol->admin *)
              ORemove 1 [1003; 1006]%N;                                          (* revoke alice *)
              QEnforce [1003; 1008; 1011]%N; QEnforce [1004; 1008; 1011]%N; QEnforce [1005; 1008; 1011]%N] in
  forallb (op_ok k_rbac) ops = true
  /\ map (fun o => o_val o) (snd (run k_rbac (init k_rbac [(0%N, [1006; 1008; 1011]%N)]) (OLoad :: ops)))
     = [ok (VL []); ok (vbool true); ok (vbool false); ok (vbool false); ok (vbool true); ok (vbool true);
        ok (vbool false); ok (vbool false); ok (vbool true)].
Proof. vm_compute. split; reflexivity. Qed.

(* The guard op_ok (rules of exactly the declared arity) is needed - known finding C04/overlong-rules-share-a-link:
   a grouping rule with an extra field is accepted and linked by its declared-arity prefix, so [alice;admin] and
   [alice;admin;data2] share ONE link; removing the longer rule takes the link away although the shorter rule stays:
   alice is refused, a freshly built enforcer on the same rules allows her.  Replayed on the implementation by the
   check on every run. *)
Theorem C04_overlong_rules_share_a_link_refuted :
  exists k db ops req,
    let s := fst (run k (init k db) ops) in
    forallb (op_ok k) ops = false /\
    snd (enforce_ex_m k s req) <> snd (enforce_ex_m k (freshen k s) req).
Proof.
  exists k_rbac, [(0%N, [1006; 1008; 1011]%N); (1%N, [1003; 1006]%N)],
         [OLoad; OAdd 1 [1003; 1006; 1009]%N; ORemove 1 [1003; 1006; 1009]%N], [1003; 1008; 1011]%N.
  vm_compute. split; [reflexivity|discriminate].
Qed.
Print Assumptions C04_overlong_rules_share_a_link_refuted.

(* Third listed finding C04/repeated-store-line-removal, as theorems of the model: the store holds a grouping line twice (a
   hand-edited CSV); the rule list keeps both copies, the role manager holds ONE uncounted link.
   (a) plain RBAC: remove_grouping_policies([[alice, admin]]) removes one copy and the link - the assignment is still in
       the policy, a freshly built enforcer allows alice, this one refuses her;
   (b) domain model: remove_grouping_policy(alice, admin, d1) twice (the first reports False and drops a copy) empties the
       policy, but the per-domain link list held the link twice: the REVOKED assignment keeps granting access.
   Replayed on the implementation by the check on every run. *)
Definition k_dom3 : mkind := mkKind true true false false false AO true 0.
Theorem C04_repeated_store_line_refuted :
  (let s := fst (run k_rbac (init k_rbac [(0%N, [1006; 1008; 1011]%N); (1%N, [1003; 1006]%N); (1%N, [1003; 1006]%N)])
                     [OLoad; ORemoveMany 1 [[1003; 1006]%N]]) in
   m_g s = [[1003; 1006]%N]
   /\ snd (enforce_ex_m k_rbac s [1003; 1008; 1011]%N) = Ok (false, None)
   /\ snd (enforce_ex_m k_rbac (freshen k_rbac s) [1003; 1008; 1011]%N) = Ok (true, Some 0))
  /\
  (let s := fst (run k_dom3 (init k_dom3 [(0%N, [1006; 1013; 1008; 1011]%N); (1%N, [1003; 1006; 1013]%N); (1%N, [1003; 1006; 1013]%N)])
                     [OLoad; ORemove 1 [1003; 1006; 1013]%N; ORemove 1 [1003; 1006; 1013]%N]) in
   m_g s = []
   /\ snd (enforce_ex_m k_dom3 s [1003; 1013; 1008; 1011]%N) = Ok (true, Some 0)
   /\ snd (enforce_ex_m k_dom3 (freshen k_dom3 s) [1003; 1013; 1008; 1011]%N) = Ok (false, None)).
Proof. vm_compute. repeat split; reflexivity. Qed.
Print Assumptions C04_repeated_store_line_refuted.

(* ---------------------------------------------------------------------------------------------------------------
   Of the SOURCE: Assertion.build_role_links and Assertion.build_incremental_role_links (casbin/model/assertion.py) -
   the two methods through which grouping rules become role links, at a rebuild and after every management call - are
   re-translated on every run into programs of the language of LinkLang.v (coq/gen/RoleLinksGen.v); LinkTie.v proves that
   the interpreter run on them, with the role-manager operations of the model (rm_link_add / rm_link_del), computes
   links_add / links_del - the functions through which build_role_links and every step of `run` above change the role
   managers: the size check, the truncation to the declared arity, one add_link / delete_link per rule in order, stopping
   at the first exception with what was done so far.  For every rule list, manager state and declared arity >= 2. *)
From PyCasbin Require LinkLang LinkTie.
From PyCasbinGen Require RoleLinksGen.

Theorem C04_source_build_role_links : forall cnt pol rm, 2 <= cnt ->
  LinkTie.run_build cnt pol rm = links_add cnt rm pol EGroupArity.
Proof. exact LinkTie.tie_build_role_links. Qed.
Print Assumptions C04_source_build_role_links.

Theorem C04_source_incremental_add : forall cnt rules rm, 2 <= cnt ->
  LinkTie.run_incremental cnt LinkLang.KAdd rules rm = links_add cnt rm rules EGroupArity.
Proof. exact LinkTie.tie_incremental_add. Qed.
Print Assumptions C04_source_incremental_add.

Theorem C04_source_incremental_remove : forall cnt rules rm, 2 <= cnt ->
  LinkTie.run_incremental cnt LinkLang.KRemove rules rm = links_del cnt rm rules.
Proof. exact LinkTie.tie_incremental_remove. Qed.
Print Assumptions C04_source_incremental_remove.

Theorem C04_source_role_definition_too_short : forall cnt pol rm, cnt < 2 ->
  LinkTie.run_build cnt pol rm = (rm, Some ERuntime).
Proof. exact LinkTie.tie_build_count_too_small. Qed.
Print Assumptions C04_source_role_definition_too_short.

(* the regenerated methods on concrete rules: a rebuild links two rules and stops at a short third one with the first two
   linked; an incremental removal of a linked rule takes exactly that link away; removing a rule that was never linked is
   a silent no-op of the plain role manager *)
Example C04_source_example :
  let rm0 := RMPlain (rm_empty 10) in
  snd (LinkTie.run_build 2 [[1;2]; [2;3]; [4]; [5;6]]%N rm0) = Some EGroupArity
  /\ g_link (fst (LinkTie.run_build 2 [[1;2]; [2;3]; [4]; [5;6]]%N rm0)) 1%N 3%N 0%N = true
  /\ g_link (fst (LinkTie.run_build 2 [[1;2]; [2;3]; [4]; [5;6]]%N rm0)) 5%N 6%N 0%N = false
  /\ (let rm1 := fst (LinkTie.run_build 2 [[1;2]; [2;3]]%N rm0) in
      snd (LinkTie.run_incremental 2 LinkLang.KRemove [[1;2]]%N rm1) = None
      /\ g_link (fst (LinkTie.run_incremental 2 LinkLang.KRemove [[1;2]]%N rm1)) 1%N 3%N 0%N = false
      /\ g_link (fst (LinkTie.run_incremental 2 LinkLang.KRemove [[1;2]]%N rm1)) 2%N 3%N 0%N = true
      /\ snd (LinkTie.run_incremental 2 LinkLang.KRemove [[7;8]]%N rm1) = None).
Proof. vm_compute. repeat split; reflexivity. Qed.

(* The full rebuild, of the SOURCE: CoreEnforcer.build_role_links (clear every role manager, then
   self.model.build_role_links(self.rm_map)) is re-translated on every run (translators/loadpolicy.py, LoadLang.v: each statement
   one recognised step; Policy.build_role_links is checked to be the loop over self["g"].items() that hands each role
   definition's rules to Assertion.build_role_links - tied above); LoadTie.v proves that it computes Mgmt.build_role_links, the
   function `freshen` and the OBuildLinks / OLoad steps of `run` are made of. *)
From PyCasbin Require LoadLang LoadTie.
From PyCasbinGen Require LoadPolicyGen.

Theorem C04_source_build_role_links_enforcer : forall k s,
  LoadTie.run_build_role_links k s =
  (fst (build_role_links k s), match snd (build_role_links k s) with None => ok (VL []) | Some c => verr c end).
Proof. exact LoadTie.tie_build_role_links. Qed.
Print Assumptions C04_source_build_role_links_enforcer.

(* The incremental maintenance, of the SOURCE: the five grouping wrappers of casbin/management_enforcer.py (the internal call, the
   test `self.auto_build_role_links and <result>`, self._build_incremental_role_links, the returned value) are re-translated on
   every run (translators/grouping.py, GrpLang.v; the one-list / separate-arguments test of the single-rule wrappers is checked to
   have two identical branches; CoreEnforcer._build_incremental_role_links and Policy.build_incremental_role_links are compared
   with their recognised bodies); GrpTie.v proves that they compute g_add / g_add_many / g_remove / g_remove_many /
   g_remove_filtered - the grouping steps of `run`, through which C04_history_keeps_links_in_sync is proved.  With
   InternalTie (the internal API), PolicyTie (the rule store), LinkTie (Assertion.build_*_role_links) and LoadTie (rebuild and
   reload) every step of `run` that touches grouping rules or role links is now tied to regenerated source. *)
From PyCasbin Require GrpLang GrpTie.
From PyCasbinGen Require GroupingGen.

Theorem C04_source_add_named_grouping_policy : forall k s pt r,
  GrpLang.gwrapper k pt r [] 0 [] GroupingGen.add_named_grouping_policy_gen s = Some (g_add k s pt r).
Proof. exact GrpTie.tie_g_add. Qed.
Print Assumptions C04_source_add_named_grouping_policy.

Theorem C04_source_add_named_grouping_policies : forall k s pt rs,
  GrpLang.gwrapper k pt [] rs 0 [] GroupingGen.add_named_grouping_policies_gen s = Some (g_add_many k s pt rs).
Proof. exact GrpTie.tie_g_add_many. Qed.
Print Assumptions C04_source_add_named_grouping_policies.

Theorem C04_source_remove_named_grouping_policy : forall k s pt r,
  GrpLang.gwrapper k pt r [] 0 [] GroupingGen.remove_named_grouping_policy_gen s = Some (g_remove k s pt r).
Proof. exact GrpTie.tie_g_remove. Qed.
Print Assumptions C04_source_remove_named_grouping_policy.

Theorem C04_source_remove_named_grouping_policies : forall k s pt rs,
  GrpLang.gwrapper k pt [] rs 0 [] GroupingGen.remove_named_grouping_policies_gen s = Some (g_remove_many k s pt rs).
Proof. exact GrpTie.tie_g_remove_many. Qed.
Print Assumptions C04_source_remove_named_grouping_policies.

Theorem C04_source_remove_filtered_named_grouping_policy : forall k s pt i vs,
  GrpLang.gwrapper k pt [] [] i vs GroupingGen.remove_filtered_named_grouping_policy_gen s = Some (g_remove_filtered k s pt i vs).
Proof. exact GrpTie.tie_g_remove_filtered. Qed.
Print Assumptions C04_source_remove_filtered_named_grouping_policy.
