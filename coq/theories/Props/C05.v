(* C05 — domains are isolated tenants. *)
From Coq Require Import List NArith Bool.
From PyCasbin Require Import Base Effect Enforce Policy PolicyProofs RoleGraph Mgmt MgmtLinks MgmtProofs DomainProofs.
Import ListNotations.
Local Open Scope N_scope.

(* two states that agree on what domain D can see (D's permission rules, D's role assignments)
   decide every request of D alike; D <> "" is needed: the empty-policy branch judges the matcher
   against empty rule fields, which only a request of the empty domain can match *)
Theorem C05_decision_depends_on_own_domain_only : forall k, k_dom k = true -> forall s s' D req,
  Inv k s -> Inv k s' -> wf_p k s -> wf_p k s' -> dom_view k D s s' ->
  fld req 1 = D -> D <> 0 ->
  decision_of (snd (enforce_ex_m k s req)) = decision_of (snd (enforce_ex_m k s' req)).
Proof. exact domain_isolation. Qed.
Print Assumptions C05_decision_depends_on_own_domain_only.

(* one call touching only other domains (op_foreign: every rule argument, or the pinned domain
   column of a filter, names another domain) leaves D's view untouched *)
Theorem C05_foreign_call_preserves_view : forall k D s o,
  k_prio k = false -> k_g k = true -> Inv k s -> NoDup (m_p s) -> op_foreign k D o = true ->
  dom_view k D s (fst (step k s o)).
Proof. exact foreign_step_view. Qed.
Print Assumptions C05_foreign_call_preserves_view.

(* the property: after ANY history of such calls (any length; single/batch/filtered/update for p and g,
   role assignment in other domains, queries in any domain that build caches) every request of D is
   decided as before and every role query in D answers as before *)
Theorem C05_foreign_history_preserves_domain : forall k D ops s req,
  k_dom k = true -> k_prio k = false -> k_g k = true ->
  Inv k s -> PInv k s ->
  forallb (fun o => op_ok k o && op_foreign k D o && op_pwf k o) ops = true ->
  fld req 1 = D -> D <> 0 ->
  let s' := fst (run k s ops) in
  decision_of (snd (enforce_ex_m k s req)) = decision_of (snd (enforce_ex_m k s' req))
  /\ forall u, fst (rmk_get_roles (m_rm s) u D) = fst (rmk_get_roles (m_rm s') u D)
            /\ fst (rmk_get_users (m_rm s) u D) = fst (rmk_get_users (m_rm s') u D).
Proof. exact foreign_history_preserves_decisions. Qed.
Print Assumptions C05_foreign_history_preserves_domain.

(* role queries in D follow D's assignments only *)
Theorem C05_role_queries_scoped : forall k, k_dom k = true -> forall s s' D u,
  Inv k s -> Inv k s' -> glinks_dom (m_g s) D = glinks_dom (m_g s') D ->
  fst (rmk_get_roles (m_rm s) u D) = fst (rmk_get_roles (m_rm s') u D)
  /\ fst (rmk_get_users (m_rm s) u D) = fst (rmk_get_users (m_rm s') u D).
Proof. exact domain_role_queries. Qed.
Print Assumptions C05_role_queries_scoped.

(* get_permissions_for_user_in_domain / get_implicit_permissions_for_user(domain) report only rules of that domain *)
Theorem C05_scoped_permissions_in_domain : forall l u d out,
  get_filtered l 0 [u; d] = Ok out -> d <> 0 -> forall r, In r out -> nth_error r 1 = Some d /\ In r l.
Proof. exact scoped_permissions_in_domain. Qed.
Print Assumptions C05_scoped_permissions_in_domain.

(* non-vacuity: a two-domain policy built by management calls; then d2 is changed in five ways
   (with a query in d2 that builds its cache); alice's right in d1 stays *)
Definition k_dom_ex : mkind := mkKind true true false false false AO true 0.
Definition setup_ex : list op :=
  [OAdd 0 [1006; 1013; 1008; 1011]; OAdd 1 [1003; 1006; 1013]; OAdd 1 [1004; 1006; 1014];
   QEnforce [1003; 1013; 1008; 1011]].
Definition foreign_ex : list op :=
  [OAdd 1 [1003; 1007; 1014]; QEnforce [1003; 1014; 1008; 1011]; ORemove 1 [1004; 1006; 1014];
   OAdd 0 [1007; 1014; 1008; 1011]; ORemoveFiltered 0 1 [1014]; OAddRoleForUserInDomain 1004 1006 1014].
Example C05_example :
  let s := fst (run k_dom_ex (init k_dom_ex []) setup_ex) in
  forallb (fun o => op_ok k_dom_ex o && op_foreign k_dom_ex 1013 o && op_pwf k_dom_ex o) foreign_ex = true
  /\ Inv k_dom_ex s /\ PInv k_dom_ex s
  /\ decision_of (snd (enforce_ex_m k_dom_ex s [1003; 1013; 1008; 1011])) = Ok true
  /\ decision_of (snd (enforce_ex_m k_dom_ex (fst (run k_dom_ex s foreign_ex)) [1003; 1013; 1008; 1011])) = Ok true.
Proof.
  cbv zeta. split; [vm_compute; reflexivity|]. split; [apply run_inv; [apply init_inv|vm_compute; reflexivity]|].
  split; [|split; vm_compute; reflexivity].
  unfold PInv, wf_p.
  replace (m_p (fst (run k_dom_ex (init k_dom_ex []) setup_ex))) with [[1006; 1013; 1008; 1011]]
    by (vm_compute; reflexivity).
  split; [constructor; [intros []|constructor]|constructor; [reflexivity|constructor]].
Qed.
