(* C06 — policy management behaves as operations on a duplicate-free ordered rule set. *)
From Coq Require Import List NArith ZArith Bool.
From PyCasbin Require Import Base Policy PolicyProofs.
Import ListNotations.

(* add succeeds exactly when the rule was absent, then it is present once, at the end *)
Theorem C06_add_is_set_add : forall l r,
  add_policy None l r = if has_policy l r then (l, false) else (l ++ [r], true).
Proof. exact add_policy_spec. Qed.
Print Assumptions C06_add_is_set_add.

(* remove succeeds exactly when it was present, then it is absent, the rest keeps its order *)
Theorem C06_remove_is_set_remove : forall l r, NoDup l ->
  remove_policy l r = if has_policy l r then (filter (neqb r) l, true) else (l, false).
Proof. exact remove_policy_spec. Qed.
Print Assumptions C06_remove_is_set_remove.

(* a batch either applies to all of its rules or changes nothing *)
Theorem C06_batch_add_all_or_nothing : forall l rs,
  add_policies None l rs =
  if forallb (fun r => negb (has_policy l r)) rs && nodupb rule_eqb rs then (l ++ rs, true) else (l, false).
Proof. exact add_policies_spec. Qed.
Print Assumptions C06_batch_add_all_or_nothing.

Theorem C06_batch_remove_all_or_nothing : forall l rs, NoDup l ->
  remove_policies l rs =
  if forallb (has_policy l) rs && nodupb rule_eqb rs then (filter (notin rs) l, true) else (l, false).
Proof. exact remove_policies_spec. Qed.
Print Assumptions C06_batch_remove_all_or_nothing.

(* filtered reads select exactly the rules whose fields equal every non-empty filter value, in order *)
Theorem C06_filtered_read_exact : forall l i vs out,
  get_filtered l i vs = Ok out -> forall r, In r out <-> In r l /\ sel i vs r.
Proof. exact get_filtered_exact. Qed.
Print Assumptions C06_filtered_read_exact.

Theorem C06_filtered_read_in_order : forall l i vs out,
  get_filtered l i vs = Ok out -> out = filter (fm_true i vs) l.
Proof. exact get_filtered_is_filter. Qed.
Print Assumptions C06_filtered_read_in_order.

(* filtered removal removes exactly the selected rules and keeps the others in order *)
Theorem C06_filtered_remove_exact : forall l i vs kept gone,
  split_filtered l i vs = Ok (kept, gone) ->
  gone = filter (fm_true i vs) l /\ kept = filter (fun r => negb (fm_true i vs r)) l.
Proof. exact split_filtered_spec. Qed.
Print Assumptions C06_filtered_remove_exact.

(* update of a present rule to an absent one replaces it in place; anything else is refused *)
Theorem C06_update_in_place : forall l old new, NoDup l ->
  update_policy None l old new =
  Ok (if has_policy l old && negb (has_policy l new) then (replace_rule old new l, true) else (l, false)).
Proof. exact update_policy_spec. Qed.
Print Assumptions C06_update_in_place.

Theorem C06_batch_update_all_or_nothing : forall l olds news l',
  update_policies None l olds news = Ok (l', false) -> l' = l.
Proof. exact update_policies_all_or_nothing. Qed.
Print Assumptions C06_batch_update_all_or_nothing.

(* every history of management calls, of any length and with any arguments, keeps the stored rules
   duplicate-free and is step for step the abstract insertion-ordered set *)
Theorem C06_history_refines_ordered_set : forall ops l, NoDup l ->
  fold_left sstep ops l = fold_left sspec ops l /\ NoDup (fold_left sstep ops l).
Proof. exact history_refines. Qed.
Print Assumptions C06_history_refines_ordered_set.

(* has_policy / get_policy read the same list *)
Theorem C06_has_policy_is_membership : forall l r, has_policy l r = true <-> In r l.
Proof. exact has_policy_In. Qed.
Print Assumptions C06_has_policy_is_membership.

Example C06_example :
  fold_left sstep [SAdd [1;2]%N; SAddMany [[3;4]%N; [3;4]%N]; SAddMany [[3;4]%N; [5;6]%N];
                   SUpdate [1;2]%N [3;4]%N; SRemoveMany [[5;6]%N; [7;8]%N]; SRemoveFiltered 0 [0;4]%N] []
  = [[1;2]%N; [5;6]%N].
Proof. vm_compute. reflexivity. Qed.

(* ---------------------------------------------------------------------------------------------------------------
   The same statements about the SOURCE: casbin/model/policy.py is re-translated on every run into the program
   [policy_gen] (coq/gen/PolicyGen.v) of the small imperative language of PolLang.v; [run policy_gen E FUEL m l args]
   is the interpreter's result (value or exception, final rule list) of calling method m on rule list l.  PolicyTie.v
   proves, for every rule list and all arguments, that it computes the functions of Policy.v used above. *)
From PyCasbin Require PolLang PolicyTie.
From PyCasbinGen Require PolicyGen.

Theorem C06_source_has_policy : forall sp pi tk l r,
  PolLang.run PolicyGen.policy_gen (PolicyTie.mkE sp pi tk) PolicyTie.FUEL PolicyGen.m_has_policy l [PolLang.PL r] =
  (Ok (PolLang.PB (has_policy l r)), l).
Proof. exact PolicyTie.src_has_policy. Qed.
Print Assumptions C06_source_has_policy.

Theorem C06_source_add_is_set_add : forall sp pi tk l r, PolicyTie.prio_of sp pi = None ->
  PolLang.run PolicyGen.policy_gen (PolicyTie.mkE sp pi tk) PolicyTie.FUEL PolicyGen.m_add_policy l [PolLang.PL r] =
  if has_policy l r then (Ok (PolLang.PB false), l) else (Ok (PolLang.PB true), l ++ [r]).
Proof. exact PolicyTie.src_add_is_set_add. Qed.
Print Assumptions C06_source_add_is_set_add.

Theorem C06_source_remove_is_set_remove : forall sp pi tk l r, NoDup l ->
  PolLang.run PolicyGen.policy_gen (PolicyTie.mkE sp pi tk) PolicyTie.FUEL PolicyGen.m_remove_policy l [PolLang.PL r] =
  if has_policy l r then (Ok (PolLang.PB true), filter (neqb r) l) else (Ok (PolLang.PB false), l).
Proof. exact PolicyTie.src_remove_is_set_remove. Qed.
Print Assumptions C06_source_remove_is_set_remove.

Theorem C06_source_batch_add_all_or_nothing : forall sp pi tk l rs, PolicyTie.prio_of sp pi = None ->
  PolLang.run PolicyGen.policy_gen (PolicyTie.mkE sp pi tk) PolicyTie.FUEL PolicyGen.m_add_policies l [PolLang.PLL rs] =
  if forallb (fun r => negb (has_policy l r)) rs && nodupb rule_eqb rs
  then (Ok (PolLang.PB true), l ++ rs) else (Ok (PolLang.PB false), l).
Proof. exact PolicyTie.src_batch_add_all_or_nothing. Qed.
Print Assumptions C06_source_batch_add_all_or_nothing.

Theorem C06_source_batch_remove_all_or_nothing : forall sp pi tk l rs, NoDup l ->
  PolLang.run PolicyGen.policy_gen (PolicyTie.mkE sp pi tk) PolicyTie.FUEL PolicyGen.m_remove_policies l [PolLang.PLL rs] =
  if forallb (has_policy l) rs && nodupb rule_eqb rs
  then (Ok (PolLang.PB true), filter (notin rs) l) else (Ok (PolLang.PB false), l).
Proof. exact PolicyTie.src_batch_remove_all_or_nothing. Qed.
Print Assumptions C06_source_batch_remove_all_or_nothing.

Theorem C06_source_update_in_place : forall sp pi l old new, NoDup l ->
  PolLang.run PolicyGen.policy_gen (PolicyTie.mkE sp pi None) PolicyTie.FUEL PolicyGen.m_update_policy l
    [PolLang.PL old; PolLang.PL new] =
  if has_policy l old && negb (has_policy l new)
  then (Ok (PolLang.PB true), replace_rule old new l) else (Ok (PolLang.PB false), l).
Proof. exact PolicyTie.src_update_in_place. Qed.
Print Assumptions C06_source_update_in_place.

Theorem C06_source_filtered_remove_exact : forall sp pi tk l fi vs kept gone,
  split_filtered l fi vs = Ok (kept, gone) ->
  PolLang.run PolicyGen.policy_gen (PolicyTie.mkE sp pi tk) PolicyTie.FUEL PolicyGen.m_remove_filtered_policy l
    [PolLang.PI (Z.of_nat fi); PolLang.PL vs] = (Ok (PolLang.PB (negb (PolicyTie.is_nil gone))), kept) /\
  gone = filter (fm_true fi vs) l /\ kept = filter (fun r => negb (fm_true fi vs r)) l.
Proof. exact PolicyTie.src_filtered_remove_exact. Qed.
Print Assumptions C06_source_filtered_remove_exact.

Theorem C06_source_filtered_remove_error_changes_nothing : forall sp pi tk l fi vs c,
  split_filtered l fi vs = Err c ->
  PolLang.run PolicyGen.policy_gen (PolicyTie.mkE sp pi tk) PolicyTie.FUEL PolicyGen.m_remove_filtered_policy l
    [PolLang.PI (Z.of_nat fi); PolLang.PL vs] = (Err EIndex, l).
Proof. exact PolicyTie.src_filtered_remove_error_changes_nothing. Qed.
Print Assumptions C06_source_filtered_remove_error_changes_nothing.

Example C06_source_example :
  PolLang.run PolicyGen.policy_gen (PolicyTie.mkE true (-1)%Z None) PolicyTie.FUEL PolicyGen.m_add_policies
    [[1000; 1001; 1002]%N] [PolLang.PLL [[1003; 1001; 1002]; [1000; 1004; 1002]]%N] =
    (Ok (PolLang.PB true), [[1000; 1001; 1002]; [1003; 1001; 1002]; [1000; 1004; 1002]]%N) /\
  PolLang.run PolicyGen.policy_gen (PolicyTie.mkE true (-1)%Z None) PolicyTie.FUEL PolicyGen.m_remove_filtered_policy
    [[1000; 1001; 1002]; [1003; 1001; 1002]; [1000; 1004; 1002]]%N [PolLang.PI 1%Z; PolLang.PL [1001]%N] =
    (Ok (PolLang.PB true), [[1000; 1004; 1002]]%N).
Proof. exact PolicyTie.src_example. Qed.

Theorem C06_source_batch_update_all_or_nothing : forall sp pi tk l olds news v l',
  PolLang.run PolicyGen.policy_gen (PolicyTie.mkE sp pi tk) PolicyTie.FUEL PolicyGen.m_update_policies l
    [PolLang.PLL olds; PolLang.PLL news] = (v, l') -> v <> Ok (PolLang.PB true) -> l' = l.
Proof. exact PolicyTie.src_batch_update_all_or_nothing. Qed.
Print Assumptions C06_source_batch_update_all_or_nothing.

Theorem C06_source_filtered_read : forall sp pi tk l fi vs,
  PolLang.run PolicyGen.policy_gen (PolicyTie.mkE sp pi tk) PolicyTie.FUEL PolicyGen.m_get_filtered_policy l
    [PolLang.PI (Z.of_nat fi); PolLang.PL vs] =
  (match get_filtered l fi vs with Ok out => Ok (PolLang.PLL out) | Err c => Err c end, l).
Proof. exact PolicyTie.src_filtered_read. Qed.
Print Assumptions C06_source_filtered_read.
