(* C06 — policy management behaves as operations on a duplicate-free ordered rule set. *)
From Coq Require Import List NArith Bool.
From PyCasbin Require Import Base Policy PolicyProofs.
Import ListNotations.

(* add succeeds exactly when the rule was absent, then it is present once, at the end *)
Theorem C06_add_is_set_add : forall l r,
  add_policy None l r = if has_policy l r then (l, false) else (l ++ [r], true).
Proof. exact add_policy_spec. Qed.
Print Assumptions C06_add_is_set_add.

(* remove succeeds exactly when it was present, then it is absent, the rest keeps its order *)
Theorem C06_remove_is_set_remove : forall l r, NoDup l ->
  remove_policy l r = if has_policy l r then (filter (neqb r) l, true) else (l, false).
Proof. exact remove_policy_spec. Qed.
Print Assumptions C06_remove_is_set_remove.

(* a batch either applies to all of its rules or changes nothing *)
Theorem C06_batch_add_all_or_nothing : forall l rs,
  add_policies None l rs =
  if forallb (fun r => negb (has_policy l r)) rs && nodupb rule_eqb rs then (l ++ rs, true) else (l, false).
Proof. exact add_policies_spec. Qed.
Print Assumptions C06_batch_add_all_or_nothing.

Theorem C06_batch_remove_all_or_nothing : forall l rs, NoDup l ->
  remove_policies l rs =
  if forallb (has_policy l) rs && nodupb rule_eqb rs then (filter (notin rs) l, true) else (l, false).
Proof. exact remove_policies_spec. Qed.
Print Assumptions C06_batch_remove_all_or_nothing.

(* filtered reads select exactly the rules whose fields equal every non-empty filter value, in order *)
Theorem C06_filtered_read_exact : forall l i vs out,
  get_filtered l i vs = Ok out -> forall r, In r out <-> In r l /\ sel i vs r.
Proof. exact get_filtered_exact. Qed.
Print Assumptions C06_filtered_read_exact.

Theorem C06_filtered_read_in_order : forall l i vs out,
  get_filtered l i vs = Ok out -> out = filter (fm_true i vs) l.
Proof. exact get_filtered_is_filter. Qed.
Print Assumptions C06_filtered_read_in_order.

(* filtered removal removes exactly the selected rules and keeps the others in order *)
Theorem C06_filtered_remove_exact : forall l i vs kept gone,
  split_filtered l i vs = Ok (kept, gone) ->
  gone = filter (fm_true i vs) l /\ kept = filter (fun r => negb (fm_true i vs r)) l.
Proof. exact split_filtered_spec. Qed.
Print Assumptions C06_filtered_remove_exact.

(* update of a present rule to an absent one replaces it in place; anything else is refused *)
Theorem C06_update_in_place : forall l old new, NoDup l ->
  update_policy None l old new =
  Ok (if has_policy l old && negb (has_policy l new) then (replace_rule old new l, true) else (l, false)).
Proof. exact update_policy_spec. Qed.
Print Assumptions C06_update_in_place.

Theorem C06_batch_update_all_or_nothing : forall l olds news l',
  update_policies None l olds news = Ok (l', false) -> l' = l.
Proof. exact update_policies_all_or_nothing. Qed.
Print Assumptions C06_batch_update_all_or_nothing.

(* every history of management calls, of any length and with any arguments, keeps the stored rules
   duplicate-free and is step for step the abstract insertion-ordered set *)
Theorem C06_history_refines_ordered_set : forall ops l, NoDup l ->
  fold_left sstep ops l = fold_left sspec ops l /\ NoDup (fold_left sstep ops l).
Proof. exact history_refines. Qed.
Print Assumptions C06_history_refines_ordered_set.

(* has_policy / get_policy read the same list *)
Theorem C06_has_policy_is_membership : forall l r, has_policy l r = true <-> In r l.
Proof. exact has_policy_In. Qed.
Print Assumptions C06_has_policy_is_membership.

Example C06_example :
  fold_left sstep [SAdd [1;2]%N; SAddMany [[3;4]%N; [3;4]%N]; SAddMany [[3;4]%N; [5;6]%N];
                   SUpdate [1;2]%N [3;4]%N; SRemoveMany [[5;6]%N; [7;8]%N]; SRemoveFiltered 0 [0;4]%N] []
  = [[1;2]%N; [5;6]%N].
Proof. vm_compute. reflexivity. Qed.
