(* C04 — placeholder replaced below once MgmtProofs is in place *)
From Coq Require Import List.
From PyCasbin Require Import Base Mgmt.
