(* C07 — priority models keep rules in priority order and the best-priority match decides.
   Explicit priority: Policy.v (add_policy's swap loop, add_policies, update with the same-priority test,
   sort_rules = Python's stable sorted) — proofs in PriorityProofs.v.
   Subject priority: Subject.v (get_subject_hierarchy_map, sort_policies_by_subject_hierarchy) — proofs in
   SubjectProofs.v.  The decision over the stored order is C01's model of the rule loop. *)
From Coq Require Import List NArith ZArith Bool Arith Permutation Sorted.
From PyCasbin Require Import Base Effect Enforce Policy PolicyProofs EnforceProofs PriorityProofs PriorityRefine Subject SubjectProofs.
Import ListNotations.

(* ---------------- explicit priority ---------------- *)

(* after loading: whatever duplicate-free rule sequence the adapter delivers, the stored rules are in ascending
   numeric priority ... *)
Theorem C07_load_establishes_order : forall pi l, NoDup l -> all_keys pi l -> PI pi (sort_rules pi l).
Proof. exact load_establishes_order. Qed.
Print Assumptions C07_load_establishes_order.

(* ... are the same rules, and rules of equal priority are in arrival order *)
Theorem C07_load_is_stable : forall pi l, all_keys pi l ->
  psorted pi (sort_rules pi l) /\ Permutation (sort_rules pi l) l /\ all_keys pi (sort_rules pi l)
  /\ forall k, filter (fun x => N.eqb (key pi x) k) (sort_rules pi l) = filter (fun x => N.eqb (key pi x) k) l.
Proof. exact sort_rules_spec. Qed.
Print Assumptions C07_load_is_stable.

(* after ANY sequence of single or batch adds, removes (single, batch, filtered) and updates (single, batch), of
   any length and with any arguments carrying a priority field: duplicate-free, every rule has a priority,
   ascending numeric priority *)
Theorem C07_history_keeps_order : forall pi ops l,
  PI pi l -> Forall (sop_keys pi) ops -> PI pi (fold_left (pstep pi) ops l).
Proof. exact history_keeps_order. Qed.
Print Assumptions C07_history_keeps_order.

(* an added rule arrives LAST among the rules of its priority and nothing else moves: for every priority k the
   subsequence of priority-k rules is the old one, followed by the new rule iff its priority is k *)
Theorem C07_add_is_stable : forall pi l r k, all_keys pi l -> has_key pi r ->
  filter (fun x => N.eqb (key pi x) k) (insert_by_priority pi l r)
  = filter (fun x => N.eqb (key pi x) k) l ++ (if N.eqb (key pi r) k then [r] else []).
Proof. exact add_is_stable. Qed.
Print Assumptions C07_add_is_stable.

(* where exactly the swap loop of add_policy puts the rule *)
Theorem C07_add_position : forall pi l r, all_keys pi l -> has_key pi r ->
  exists l1 l2, l = l1 ++ l2 /\ insert_by_priority pi l r = l1 ++ [r] ++ l2
    /\ Forall (fun x => (key pi r < key pi x)%N) l2
    /\ (forall x, In x l1 -> psorted pi l -> (key pi x <= key pi r)%N).
Proof. exact insert_decomposes. Qed.
Print Assumptions C07_add_position.

(* removal of any kind is filtering (the order of what stays is untouched); an update keeps the position and
   is refused unless the priority is unchanged *)
Theorem C07_remove_keeps_order : forall pi (f : rule -> bool) l, psorted pi l -> psorted pi (filter f l).
Proof. exact filter_keeps_sorted. Qed.
Print Assumptions C07_remove_keeps_order.

Theorem C07_update_keeps_order : forall pi l o n, key pi n = key pi o -> psorted pi l -> psorted pi (replace_rule o n l).
Proof. exact update_keeps_sorted. Qed.
Print Assumptions C07_update_keeps_order.

(* THE PROPERTY IN ONE LINE, as a refinement: after ANY sequence of single or batch adds, removes (single,
   batch, filtered) and updates (single, batch) on a loaded priority model, the stored rules are exactly the
   STABLE SORT by numeric priority (Python's sorted(), sort_rules) of the rules in ARRIVAL order — i.e. of
   the store that the same history yields when every add simply appends (astep: add_policy / add_policies
   without priority column; removes, filtered removes and in-place updates refusing a priority change as in
   the priority store).  Hence ascending priority AND equal priorities in arrival order, for every history. *)
Theorem C07_store_is_stable_sort_of_arrival : forall pi ops l0,
  NoDup l0 -> all_keys pi l0 -> Forall (sop_keys pi) ops ->
  fold_left (pstep pi) ops (sort_rules pi l0) = sort_rules pi (fold_left (astep pi) ops l0).
Proof. exact priority_store_is_sorted_arrival. Qed.
Print Assumptions C07_store_is_stable_sort_of_arrival.

(* ... at every step of the history, not only at its end *)
Theorem C07_store_is_stable_sort_of_arrival_at_every_step : forall pi ops l0,
  NoDup l0 -> all_keys pi l0 -> Forall (sop_keys pi) ops ->
  forall n, fold_left (pstep pi) (firstn n ops) (sort_rules pi l0)
            = sort_rules pi (fold_left (astep pi) (firstn n ops) l0).
Proof. exact priority_store_is_sorted_arrival_at_every_step. Qed.
Print Assumptions C07_store_is_stable_sort_of_arrival_at_every_step.

(* ... and from an empty model *)
Theorem C07_store_from_empty_is_stable_sort_of_arrival : forall pi ops, Forall (sop_keys pi) ops ->
  fold_left (pstep pi) ops [] = sort_rules pi (fold_left (astep pi) ops []).
Proof. exact priority_store_from_empty. Qed.
Print Assumptions C07_store_from_empty_is_stable_sort_of_arrival.

(* the arrival list stays duplicate-free and every rule in it has a priority field *)
Theorem C07_arrival_list_invariant : forall pi ops l,
  AI pi l -> Forall (sop_keys pi) ops -> AI pi (fold_left (astep pi) ops l).
Proof. exact arrival_history_keeps_AI. Qed.
Print Assumptions C07_arrival_list_invariant.

(* a stable sort is unique: two priority-sorted lists with the same per-priority subsequences are equal *)
Theorem C07_stable_sort_unique : forall pi a b, psorted pi a -> psorted pi b ->
  (forall k, filter (fun x => N.eqb (key pi x) k) a = filter (fun x => N.eqb (key pi x) k) b) -> a = b.
Proof. exact stable_sort_unique. Qed.
Print Assumptions C07_stable_sort_unique.

(* the decision is the effect of the first rule in stored order that matches with a definite effect, else deny
   (priority effector; outcomes without evaluation errors; same theorem as C01's, instantiated) *)
Theorem C07_first_definite_match_decides : forall outs, no_bad outs = true ->
  exists ex, enforce_ex_ref PR on outs false = Ok (first_decisive outs, ex).
Proof. exact (decision_is_spec_total PR). Qed.
Print Assumptions C07_first_definite_match_decides.

(* ---------------- subject priority ---------------- *)

(* the level rounds of get_subject_hierarchy_map always terminate (the model's fuel is never exhausted) *)
Theorem C07_levels_total : forall g, hierarchy_map g <> Err EFuel.
Proof. exact hierarchy_map_fuel_suffices. Qed.
Print Assumptions C07_levels_total.

(* every role assignment goes from a strictly lower level to a strictly higher one, for ANY hierarchy the
   code accepts (forests, DAGs, several domains) ... *)
Theorem C07_inherits_increases_level : forall g es m, edges_of g = Ok es -> hierarchy_map g = Ok m ->
  forall s t, inherits es s t -> level m s < level m t.
Proof. exact inherits_increases_level. Qed.
Print Assumptions C07_inherits_increases_level.

(* ... and a cyclic hierarchy is refused (load raises) rather than sorted arbitrarily *)
Theorem C07_cycle_is_refused : forall g es s, edges_of g = Ok es -> inherits es s s -> exists c, hierarchy_map g = Err c.
Proof. exact cycle_is_refused. Qed.
Print Assumptions C07_cycle_is_refused.

(* after loading, every rule given to a subject stands before every rule given to a role it inherits from *)
Theorem C07_subject_before_inherited : forall di g p l es, edges_of g = Ok es -> sort_by_subject di g p = Ok l ->
  forall r1 r2 s t, In r1 p -> In r2 p -> subject_of di r1 = Ok s -> subject_of di r2 = Ok t -> inherits es s t ->
  consulted_before l r1 r2.
Proof. exact subject_before_inherited. Qed.
Print Assumptions C07_subject_before_inherited.

(* the sort loses and invents nothing, and rules of one level keep their arrival order *)
Theorem C07_subject_sort_permutes : forall di g p l, sort_by_subject di g p = Ok l -> Permutation l p.
Proof. exact subject_sort_permutes. Qed.
Print Assumptions C07_subject_sort_permutes.

Theorem C07_subject_sort_stable : forall di g p l, sort_by_subject di g p = Ok l ->
  exists m, hierarchy_map g = Ok m /\
    forall k, filter (fun r => key_of m di r =? k) l = filter (fun r => key_of m di r =? k) p.
Proof. exact subject_sort_stable. Qed.
Print Assumptions C07_subject_sort_stable.

(* so the more specific subject wins, whatever the matcher: if a rule r1 of subject s matches with a definite
   effect e and every other rule matching with a definite effect belongs to a role s inherits from, the first
   definite match in stored order — which C07_first_definite_match_decides says is the decision — is e *)
Theorem C07_specific_subject_wins : forall di g p l es, edges_of g = Ok es -> sort_by_subject di g p = Ok l ->
  forall (out : rule -> outcome) r1 s e,
  In r1 p -> subject_of di r1 = Ok s -> out r1 = Match e -> e <> EOther ->
  (forall r, In r p -> decisive_out (out r) = true -> r = r1 \/ exists t, subject_of di r = Ok t /\ inherits es s t) ->
  first_decisive (map out l) = match e with EAllow => true | _ => false end.
Proof. exact specific_subject_wins. Qed.
Print Assumptions C07_specific_subject_wins.

(* ---------------- non-vacuity ---------------- *)
(* explicit priority, column 0: load [5;2;2';1], add priority 2, batch-add [1;5], update in place, remove *)
Example C07_example_history :
  let l0 := sort_rules 0 [[5;10]; [2;11]; [2;12]; [1;13]]%N in
  l0 = [[1;13]; [2;11]; [2;12]; [5;10]]%N /\
  fold_left (pstep 0) [SAdd [2;14]%N; SAddMany [[1;15]%N; [5;16]%N]; SUpdate [2;11]%N [2;17]%N; SRemove [1;13]%N] l0
  = [[1;15]; [2;17]; [2;12]; [2;14]; [5;10]; [5;16]]%N.
Proof. vm_compute. split; reflexivity. Qed.

(* the refinement on a history of 10 operations using every constructor (column 0 is the priority): batch
   add, in-place updates, single / batch / filtered removes, a refused priority change ([2;17] -> [3;17]) and a
   re-add of a rule name introduced by a batch update; the arrival list is NOT sorted, the store is its
   stable sort ([1;15] before [1;20], [2;17] before [2;18]) *)
Example C07_example_refinement :
  let l0 := [[5;10]; [2;11]; [2;12]; [1;13]]%N in
  let ops := [SAdd [2;14]%N; SAddMany [[1;15]%N; [5;16]%N]; SUpdate [2;11]%N [2;17]%N; SRemove [1;13]%N;
              SRemoveMany [[5;10]%N]; SRemoveFiltered 1 [12%N];
              SUpdateMany [[2;14]%N; [5;16]%N] [[2;18]%N; [5;19]%N];
              SAdd [1;20]%N; SUpdate [2;17]%N [3;17]%N; SAdd [2;18]%N] in
  NoDup l0 /\ all_keys 0 l0 /\ Forall (sop_keys 0) ops /\
  fold_left (astep 0) ops l0 = [[2;17]; [2;18]; [1;15]; [5;19]; [1;20]]%N /\
  fold_left (pstep 0) ops (sort_rules 0 l0) = [[1;15]; [1;20]; [2;17]; [2;18]; [5;19]]%N /\
  sort_rules 0 (fold_left (astep 0) ops l0) = [[1;15]; [1;20]; [2;17]; [2;18]; [5;19]]%N.
Proof.
  cbv zeta. split; [repeat constructor; cbn; intuition discriminate|].
  split; [repeat constructor|]. split; [repeat constructor|]. vm_compute. repeat split; reflexivity.
Qed.

(* subject priority: alice -> admin -> root, bob -> root in the default domain; rules arrive root, admin, alice,
   bob: after the sort alice and bob (level 0) come first in arrival order, then admin, then root *)
Example C07_example_subject :
  hierarchy_map [[1;2]; [2;3]; [4;3]]%N = Ok [((0,1),0%nat); ((0,4),0%nat); ((0,2),1%nat); ((0,3),2%nat)]%N /\
  sort_by_subject None [[1;2]; [2;3]; [4;3]]%N [[3;9;7]; [2;9;8]; [1;9;7]; [4;9;8]]%N
  = Ok [[1;9;7]; [4;9;8]; [2;9;8]; [3;9;7]]%N /\
  (exists c, hierarchy_map [[1;2]; [2;1]]%N = Err c).
Proof. vm_compute. repeat split; eauto. Qed.

(* ---------------- filtered and incremental filtered loading (core_enforcer.py load_filtered_policy /
   load_increment_filtered_policy, repaired by /repo 8566c11: both run the ordering steps of load_policy) --------- *)
(* the rules a filtered load brings in are stored like a full load's (same theorem, on the kept subset); an
   incremental load appends the new subset to what is stored and orders the whole: *)
Definition load_increment (pi : nat) (stored loaded : store) : store := sort_rules pi (stored ++ loaded).

Theorem C07_incremental_load_keeps_order : forall pi stored loaded,
  NoDup (stored ++ loaded) -> all_keys pi stored -> all_keys pi loaded -> PI pi (load_increment pi stored loaded).
Proof.
  intros pi stored loaded Hnd Hs Hl. apply load_establishes_order; [exact Hnd|].
  unfold all_keys in *. apply Forall_app. split; assumption.
Qed.
Print Assumptions C07_incremental_load_keeps_order.

(* ... and within every priority the rules stored before keep their order and stand before the newly loaded ones *)
Theorem C07_incremental_load_is_stable : forall pi stored loaded k,
  all_keys pi stored -> all_keys pi loaded ->
  filter (fun x => N.eqb (key pi x) k) (load_increment pi stored loaded)
  = filter (fun x => N.eqb (key pi x) k) stored ++ filter (fun x => N.eqb (key pi x) k) loaded.
Proof.
  intros pi stored loaded k Hs Hl. unfold load_increment.
  assert (Hall : all_keys pi (stored ++ loaded)) by (unfold all_keys in *; apply Forall_app; split; assumption).
  destruct (sort_rules_spec pi (stored ++ loaded) Hall) as [_ [_ [_ H]]]. rewrite H. apply filter_app.
Qed.
Print Assumptions C07_incremental_load_is_stable.

Example C07_example_incremental :
  load_increment 0 [[1;13]; [5;10]]%N [[2;11]; [1;14]; [10;15]]%N = [[1;13]; [1;14]; [2;11]; [5;10]; [10;15]]%N.
Proof. vm_compute. reflexivity. Qed.

(* ---------------------------------------------------------------------------------------------------------------
   The single add, stated of the SOURCE: casbin/model/policy.py is re-translated on every run (coq/gen/PolicyGen.v) and
   PolicyTie.v proves by symbolic execution of the swap loop - for every stored list whose rules carry a decimal priority
   in column pi, every new rule whose priority field is decimal (or missing: the rule then stays appended) - that
   add_policy on a model with a priority column leaves exactly insert_by_priority's list, about which C07_add_position /
   C07_add_is_stable above speak. *)
From PyCasbin Require PolLang PolicyTie.
From PyCasbinGen Require PolicyGen.

Theorem C07_source_add_inserts_by_priority : forall tk (pi : nat) l r,
  forallb (PolicyTie.digit_field pi) l = true ->
  match nth_error r pi with Some k => PolLang.digit_atom k = true | None => True end ->
  PolLang.run PolicyGen.policy_gen (PolicyTie.mkE true (Z.of_nat pi) tk) PolicyTie.FUEL PolicyGen.m_add_policy l [PolLang.PL r] =
  if has_policy l r then (Ok (PolLang.PB false), l) else (Ok (PolLang.PB true), insert_by_priority pi l r).
Proof. exact PolicyTie.src_add_inserts_by_priority. Qed.
Print Assumptions C07_source_add_inserts_by_priority.

Example C07_source_add_example :
  PolLang.run PolicyGen.policy_gen (PolicyTie.mkE true 0%Z (Some 0%nat)) PolicyTie.FUEL PolicyGen.m_add_policy
    [[1; 1001; 1002]; [5; 1001; 1002]; [5; 1004; 1005]; [9; 1003; 1002]]%N [PolLang.PL [5; 1007; 1007]%N] =
  (Ok (PolLang.PB true), [[1; 1001; 1002]; [5; 1001; 1002]; [5; 1004; 1005]; [5; 1007; 1007]; [9; 1003; 1002]]%N).
Proof. vm_compute. reflexivity. Qed.
