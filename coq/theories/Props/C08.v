(* C08 — enforce_ex explains a decision with the rule that decided it. *)
From Coq Require Import List NArith Bool.
From PyCasbin Require Import Base Effect Enforce EnforceProofs EnforceInst EnforceTie.
Import ListNotations.

(* the explanation index returned by the code IS spec_explain (first deciding rule) — part of
   C01_decision_is_spec; restated here for the explanation component alone *)
Theorem C08_explain_is_first_deciding : forall s e, In (s, e) documented ->
  forall outs em, outs <> [] -> error_before_decision e outs = None ->
  enforce_ex_str s on outs em = Ok (spec_decision e outs, spec_explain e outs).
Proof.
  intros s e H outs em Hne Herr. rewrite (decision_is_spec s e H outs em Hne), Herr. reflexivity.
Qed.
Print Assumptions C08_explain_is_first_deciding.

(* sound: it is a rule in the policy, it matches with a deciding effect, and it is the earliest *)
Theorem C08_explain_sound : forall e outs i,
  spec_explain e outs = Some i ->
  i < length outs /\ (exists o, nth_error outs i = Some o /\ deciding e o = true)
  /\ forall j o', j < i -> nth_error outs j = Some o' -> deciding e o' = false.
Proof. intros e outs i. exact (first_index_sound (deciding e) outs i). Qed.
Print Assumptions C08_explain_sound.

(* its effect equals the returned decision *)
Theorem C08_explain_effect_is_decision : forall e outs i,
  spec_explain e outs = Some i ->
  exists o, nth_error outs i = Some o /\ deciding e o = true /\ is_allow o = spec_decision e outs.
Proof. exact explain_effect_is_decision. Qed.
Print Assumptions C08_explain_effect_is_decision.

(* allow under allow-override / priority, and deny by an explicit deny rule, carry an explanation *)
Theorem C08_explain_complete : forall e outs,
  ((e = AO \/ e = PR) /\ spec_decision e outs = true)
  \/ ((e = DO \/ e = AD) /\ existsb is_deny outs = true)
  \/ (e = PR /\ existsb decisive_out outs = true) ->
  spec_explain e outs <> None.
Proof. exact explain_complete. Qed.
Print Assumptions C08_explain_complete.

(* a decision reached by default carries an empty explanation, and vice versa *)
Theorem C08_default_iff_empty : forall e outs,
  spec_explain e outs = None <-> existsb (deciding e) outs = false.
Proof. exact explain_none_iff. Qed.
Print Assumptions C08_default_iff_empty.

Theorem C08_default_decision : forall e outs,
  spec_explain e outs = None ->
  spec_decision e outs =
  match e with AO => false | DO => true | AD => existsb is_allow outs | PR => false end.
Proof. exact explain_none_decision. Qed.
Print Assumptions C08_default_decision.

(* enforce is the first component of enforce_ex *)
Theorem C08_ex_equals_enforce : forall im fi tb c outs em,
  enforce im fi tb c outs em
  = match enforce_ex im fi tb c outs em with Ok p => Ok (fst p) | Err c => Err c end.
Proof. exact enforce_is_fst_enforce_ex. Qed.
Print Assumptions C08_ex_equals_enforce.

Example C08_example :
  enforce_ex_str doc_deny_override on [Match EAllow; NoMatch; Match EDeny; Match EDeny] false
  = Ok (false, Some 2).
Proof. vm_compute. reflexivity. Qed.

(* ---------------------------------------------------------------------------------------------------------------
   Of the SOURCE (see Props/C01.v and EnforceSrcTie.v): the explanation the regenerated kernel of enforce_ex returns is
   the model's - the index of the first deciding rule, or none when the decision is reached by default. *)
From PyCasbin Require EnfLang EnforceSrcTie.
From PyCasbinGen Require EnforceGen.

Theorem C08_source_kernel_is_model : forall im fi tb en ar he rules er, (he = false \/ rules <> []) ->
  EnfLang.erun im fi tb (EnforceSrcTie.mkenv en ar he rules er) EnforceSrcTie.EFUEL EnforceGen.enforce_kernel_locals
    EnforceGen.enforce_kernel_gen =
  enforce_ex im fi tb {| enabled := en; arity_ok := ar |} (map EnforceSrcTie.out_of rules) (EnforceSrcTie.truthy er).
Proof. exact EnforceSrcTie.kernel_is_model. Qed.
Print Assumptions C08_source_kernel_is_model.

Theorem C08_source_explain_is_first_deciding : forall s e, In (s, e) documented ->
  forall he rules er, rules <> [] ->
  EnforceSrcTie.src_enforce_ex s true true he rules er =
  match error_before_decision e (map EnforceSrcTie.out_of rules) with
  | Some c => Err c
  | None => Ok (spec_decision e (map EnforceSrcTie.out_of rules), spec_explain e (map EnforceSrcTie.out_of rules))
  end.
Proof. exact EnforceSrcTie.src_decision_is_spec. Qed.
Print Assumptions C08_source_explain_is_first_deciding.
