(* C09 — with auto-save the adapter's store mirrors the in-memory policy. *)
From Coq Require Import List NArith Bool.
From PyCasbin Require Import Base Effect Policy PolicyProofs RoleGraph Mgmt MgmtProofs CallsProofs MirrorProofs.
Import ListNotations.
Local Open Scope N_scope.

(* what the enforcer tells the adapter: exactly one call, the one matching the operation, iff the call
   reports success and auto-save is on with an adapter attached; otherwise nothing *)
Theorem C09_add_forwards_iff_changed : forall k s r,
  let out := snd (step k s (OAdd PT_P r)) in
  let changed := negb (has_policy (m_p s) r) in
  o_val out = ok (vbool changed)
  /\ (o_acalls out, o_wcalls out) = calls_if changed (use_adapter k s) (AAdd PT_P r) (notify k s (WAdd PT_P r) 2).
Proof. exact step_add_p. Qed.
Print Assumptions C09_add_forwards_iff_changed.

Theorem C09_remove_forwards_iff_changed : forall k s r, NoDup (m_p s) ->
  let out := snd (step k s (ORemove PT_P r)) in
  let changed := has_policy (m_p s) r in
  o_val out = ok (vbool changed)
  /\ (o_acalls out, o_wcalls out) = calls_if changed (use_adapter k s) (ARemove PT_P r) (notify k s (WRemove PT_P r) 2).
Proof. exact step_remove_p. Qed.
Print Assumptions C09_remove_forwards_iff_changed.

Theorem C09_batch_add_forwards_iff_changed : forall k s rs,
  let out := snd (step k s (OAddMany PT_P rs)) in
  let changed := batch_addable (m_p s) [] rs in
  o_val out = ok (vbool changed)
  /\ (o_acalls out, o_wcalls out) = calls_if changed (use_adapter k s) (AAddMany PT_P rs) (notify k s (WAddMany PT_P rs) 2).
Proof. exact step_add_many_p. Qed.
Print Assumptions C09_batch_add_forwards_iff_changed.

Theorem C09_batch_remove_forwards_iff_changed : forall k s rs, NoDup (m_p s) ->
  let out := snd (step k s (ORemoveMany PT_P rs)) in
  let changed := forallb (has_policy (m_p s)) rs && nodupb rule_eqb rs in
  o_val out = ok (vbool changed)
  /\ (o_acalls out, o_wcalls out) = calls_if changed (use_adapter k s) (ARemoveMany PT_P rs) (notify k s (WRemoveMany PT_P rs) 2).
Proof. exact step_remove_many_p. Qed.
Print Assumptions C09_batch_remove_forwards_iff_changed.

Theorem C09_update_forwards_iff_changed : forall k s o n, NoDup (m_p s) -> k_prio k = false ->
  let out := snd (step k s (OUpdate o n)) in
  let changed := has_policy (m_p s) o && negb (has_policy (m_p s) n) in
  o_val out = ok (vbool changed)
  /\ (o_acalls out, o_wcalls out) = calls_if changed (use_adapter k s) (AUpdate PT_P o n) (notify k s (WUpdatePolicy o n) 3).
Proof. exact step_update_p. Qed.
Print Assumptions C09_update_forwards_iff_changed.

(* role-assignment calls forward exactly what their permission-rule twins forward (link upkeep adds nothing) *)
Theorem C09_grouping_calls_forward_the_same : forall k s pt r,
  let out := snd (g_add k s pt r) in let x := i_add k s pt r in
  o_acalls out = snd (fst x) /\ o_wcalls out = snd x.
Proof. exact g_add_calls. Qed.
Print Assumptions C09_grouping_calls_forward_the_same.

(* the mirror: over EVERY history of add / batch add / remove / batch remove / filtered remove / update /
   batch update on a policy type, with "adapter told iff the call reports success", the rows a faithful
   adapter holds for that type equal the in-memory rules (same order), the memory stays duplicate-free,
   and rows of other policy types are never touched *)
Theorem C09_mirror : forall pt ops st,
  NoDup (fst st) -> db_rows pt (snd st) = fst st ->
  let st' := fold_left (db_step pt) ops st in
  db_rows pt (snd st') = fst st' /\ NoDup (fst st')
  /\ forall q, (pt =? q) = false -> db_rows q (snd st') = db_rows q (snd st).
Proof. exact mirror_history. Qed.
Print Assumptions C09_mirror.

(* save_policy stores exactly the in-memory policy (one save call: CallsProofs.step_save) *)
Theorem C09_save_stores_memory : forall k s,
  db_rows PT_P (all_rows k s) = m_p s /\ db_rows PT_G (all_rows k s) = m_g s /\ db_rows PT_G2 (all_rows k s) = m_g2 s.
Proof. exact save_stores_memory. Qed.
Print Assumptions C09_save_stores_memory.

(* hence load_policy directly after such a history delivers exactly the rules already in memory *)
Theorem C09_reload_after_mirror_is_identity : forall k s,
  k_prio k = false ->
  db_rows PT_P (m_db s) = m_p s -> db_rows PT_G (m_db s) = m_g s -> db_rows PT_G2 (m_db s) = m_g2 s ->
  (k_g k = false -> m_g s = []) -> (k_g2 k = false -> m_g2 s = []) ->
  exists p g g2, deliver k (m_db s) None [] [] [] = Ok (p, g, g2) /\ p = m_p s /\ g = m_g s /\ g2 = m_g2 s.
Proof. exact reload_of_mirror_is_identity. Qed.
Print Assumptions C09_reload_after_mirror_is_identity.

(* queries, flag changes and clear_policy tell the adapter nothing *)
Theorem C09_other_calls_are_silent : forall k s o,
  match o with
  | QEnforce _ | QEnforceEx _ | QPolicy _ | QFiltered _ _ _ | QHas _ _ | QRoles _ | QUsers _
  | QRolesDom _ _ | QUsersDom _ _ | QAllSubjects | QAllObjects | QAllActions | QAllRoles
  | QPermsForUser _ | QPermsForUserDom _ _ | OAutoSave _ | OAutoBuild _ | OAutoNotify _ | OEnable _ | OClear => True
  | _ => False
  end -> o_acalls (snd (step k s o)) = [] /\ o_wcalls (snd (step k s o)) = [].
Proof. exact silent_calls. Qed.
Print Assumptions C09_other_calls_are_silent.

(* KNOWN FINDING C09/update-filtered-policies: update_filtered_policies is outside the mirror theorem
   (db_step has no such operation) because the statement is FALSE for it — witness: nothing matches the
   filter, the call reports False, yet the adapter has been told and now holds a rule memory lacks *)
Definition k_acl : mkind := mkKind false false false false false AO true 0.
Theorem C09_update_filtered_refuted :
  exists s ns i vs,
    let '(s', out) := step_db k_acl s (OUpdateFiltered ns i vs) in
    o_val out = ok (vbool false) /\ o_acalls out <> [] /\ db_rows PT_P (m_db s') <> m_p s'.
Proof.
  exists (fst (step_db k_acl (init k_acl []) (OAdd PT_P [1003; 1008; 1011]))), [[1004; 1009; 1012]], 0%nat, [1005].
  vm_compute. split; [reflexivity|]. split; discriminate.
Qed.
Print Assumptions C09_update_filtered_refuted.

Example C09_example :
  fold_left (db_step 0) [SAdd [1;2]; SAdd [1;2]; SAddMany [[3;4]; [5;6]]; SUpdate [1;2] [7;8];
                         SRemoveMany [[3;4]; [9;9]]; SRemoveFiltered 0 [5]; SUpdateMany [[7;8]; [3;4]] [[1;1]; [2;2]]]
            ([], [(1, [100; 101])])
  = ([[1;1]; [2;2]], [(1, [100; 101]); (0, [1;1]); (0, [2;2])]).
Proof. vm_compute. reflexivity. Qed.

(* ---------------------------------------------------------------------------------------------------------------
   The internal API, stated of the SOURCE: casbin/internal_enforcer.py is re-translated on every run into the program
   [internal_gen] (coq/gen/InternalGen.v) of the language of IntLang.v; [irun E internal_gen IFUEL m l args] is the
   interpreter's (result or exception, rule list afterwards, adapter calls, notifications) of calling method m.
   InternalTie.v proves, for every configuration, rule list and arguments, that it computes Mgmt.v's i_add / i_add_many /
   i_remove / i_remove_many / i_remove_filtered / i_remove_filtered_eff and the update steps - the functions the mirror
   theorems above are about - including WHICH adapter call is issued and WHEN none is. *)
From PyCasbin Require IntLang InternalTie.
From PyCasbinGen Require InternalGen.

Theorem C09_source_add : forall k s pt r,
  IntLang.irun (InternalTie.env_of k s pt) InternalGen.internal_gen InternalTie.IFUEL InternalGen.im_add_policy
    (get_store s pt) [IntLang.ARule r] =
  let '(s', b, ac, wc) := i_add k s pt r in (Ok (IntLang.IVB b), get_store s' pt, ac, wc).
Proof. exact InternalTie.src_i_add. Qed.
Print Assumptions C09_source_add.

Theorem C09_source_add_many : forall k s pt rs,
  IntLang.irun (InternalTie.env_of k s pt) InternalGen.internal_gen InternalTie.IFUEL InternalGen.im_add_policies
    (get_store s pt) [IntLang.ARules rs] =
  let '(s', b, ac, wc) := i_add_many k s pt rs in (Ok (IntLang.IVB b), get_store s' pt, ac, wc).
Proof. exact InternalTie.src_i_add_many. Qed.
Print Assumptions C09_source_add_many.

Theorem C09_source_remove : forall k s pt r,
  IntLang.irun (InternalTie.env_of k s pt) InternalGen.internal_gen InternalTie.IFUEL InternalGen.im_remove_policy
    (get_store s pt) [IntLang.ARule r] =
  let '(s', b, ac, wc) := i_remove k s pt r in (Ok (IntLang.IVB b), get_store s' pt, ac, wc).
Proof. exact InternalTie.src_i_remove. Qed.
Print Assumptions C09_source_remove.

Theorem C09_source_remove_many : forall k s pt rs,
  IntLang.irun (InternalTie.env_of k s pt) InternalGen.internal_gen InternalTie.IFUEL InternalGen.im_remove_policies
    (get_store s pt) [IntLang.ARules rs] =
  let '(s', b, ac, wc) := i_remove_many k s pt rs in (Ok (IntLang.IVB b), get_store s' pt, ac, wc).
Proof. exact InternalTie.src_i_remove_many. Qed.
Print Assumptions C09_source_remove_many.

Theorem C09_source_remove_filtered : forall k s pt i vs,
  IntLang.irun (InternalTie.env_of k s pt) InternalGen.internal_gen InternalTie.IFUEL InternalGen.im_remove_filtered_policy
    (get_store s pt) [IntLang.ANat i; IntLang.ANames vs] =
  match i_remove_filtered k s pt i vs with
  | Err c => (Err c, get_store s pt, [], [])
  | Ok (s', b, ac, wc) => (Ok (IntLang.IVB b), get_store s' pt, ac, wc)
  end.
Proof. exact InternalTie.src_i_remove_filtered. Qed.
Print Assumptions C09_source_remove_filtered.

Theorem C09_source_update : forall k s o n,
  IntLang.irun (InternalTie.env_of k s PT_P) InternalGen.internal_gen InternalTie.IFUEL InternalGen.im_update_policy
    (m_p s) [IntLang.ARule o; IntLang.ARule n] =
  match update_policy (prio_tok k PT_P) (m_p s) o n with
  | Err c => (Err c, m_p s, [], [])
  | Ok (l', b) =>
      if negb b then (Ok (IntLang.IVB false), l', [], [])
      else if use_adapter k s then (Ok (IntLang.IVB true), l', [AUpdate PT_P o n], notify k s (WUpdatePolicy o n) 3)
      else (Ok (IntLang.IVB true), l', [], [])
  end.
Proof. exact InternalTie.src_update. Qed.
Print Assumptions C09_source_update.

Theorem C09_source_update_many : forall k s os ns,
  IntLang.irun (InternalTie.env_of k s PT_P) InternalGen.internal_gen InternalTie.IFUEL InternalGen.im_update_policies
    (m_p s) [IntLang.ARules os; IntLang.ARules ns] =
  match update_policies (prio_tok k PT_P) (m_p s) os ns with
  | Err c => (Err c, m_p s, [], [])
  | Ok (l', b) =>
      if negb b then (Ok (IntLang.IVB false), l', [], [])
      else if use_adapter k s then (Ok (IntLang.IVB true), l', [AUpdateMany PT_P os ns], notify k s (WUpdatePolicies os ns) 3)
      else (Ok (IntLang.IVB true), l', [], [])
  end.
Proof. exact InternalTie.src_update_many. Qed.
Print Assumptions C09_source_update_many.

Example C09_source_example :
  IntLang.irun {| IntLang.ie_pt := 0; IntLang.ie_prio := None; IntLang.ie_prio_tok := None; IntLang.ie_adapter := true;
                  IntLang.ie_auto_save := true; IntLang.ie_watcher := true; IntLang.ie_auto_notify := true;
                  IntLang.ie_offers_ex := true; IntLang.ie_offers_upd := false |}
       InternalGen.internal_gen InternalTie.IFUEL InternalGen.im_update_policy [[1000; 1001; 1002]]
       [IntLang.ARule [1000; 1001; 1002]; IntLang.ARule [1003; 1001; 1002]] =
  (Ok (IntLang.IVB true), [[1003; 1001; 1002]], [AUpdate 0 [1000; 1001; 1002] [1003; 1001; 1002]], [WUpdate]).
Proof. exact InternalTie.isrc_example. Qed.

(* ---------- the p-rule wrappers of management_enforcer.py, from the source ----------
   add_named_policy, add_named_policies, remove_named_policy, remove_named_policies, remove_filtered_named_policy regenerated
   on this run (coq/gen/PolWrapGen.v; their un-named forms compared with the recognised delegations), executed by
   PolWrapLang's interpreter: each is the corresponding step of Mgmt.step on "p" - state, returned boolean, adapter calls and
   notifications (the internal methods they call are tied by the C09_source_* theorems above). *)
From PyCasbin Require PolWrapLang PolWrapTie.
From PyCasbinGen Require PolWrapGen.

Theorem C09_source_add_named_policy : forall k s r,
  PolWrapLang.pwrapper k PT_P r [] 0 [] PolWrapGen.add_named_policy_gen s = Some (step k s (OAdd PT_P r)).
Proof. exact PolWrapTie.tie_p_add. Qed.
Print Assumptions C09_source_add_named_policy.

Theorem C09_source_add_named_policies : forall k s rs,
  PolWrapLang.pwrapper k PT_P [] rs 0 [] PolWrapGen.add_named_policies_gen s = Some (step k s (OAddMany PT_P rs)).
Proof. exact PolWrapTie.tie_p_add_many. Qed.
Print Assumptions C09_source_add_named_policies.

Theorem C09_source_remove_named_policy : forall k s r,
  PolWrapLang.pwrapper k PT_P r [] 0 [] PolWrapGen.remove_named_policy_gen s = Some (step k s (ORemove PT_P r)).
Proof. exact PolWrapTie.tie_p_remove. Qed.
Print Assumptions C09_source_remove_named_policy.

Theorem C09_source_remove_named_policies : forall k s rs,
  PolWrapLang.pwrapper k PT_P [] rs 0 [] PolWrapGen.remove_named_policies_gen s = Some (step k s (ORemoveMany PT_P rs)).
Proof. exact PolWrapTie.tie_p_remove_many. Qed.
Print Assumptions C09_source_remove_named_policies.

Theorem C09_source_remove_filtered_named_policy : forall k s i vs,
  PolWrapLang.pwrapper k PT_P [] [] i vs PolWrapGen.remove_filtered_named_policy_gen s = Some (step k s (ORemoveFiltered PT_P i vs)).
Proof. exact PolWrapTie.tie_p_remove_filtered. Qed.
Print Assumptions C09_source_remove_filtered_named_policy.
