(* C10 — Saving then loading a policy through the bundled adapters is lossless.
   Only statements here; proofs are `exact <lemma>` (CsvProofs.v).  Strings are lists of Unicode
   code points, there is no bound on any length.  FileAdapter and AsyncFileAdapter share one body
   (load_file / save_file); StringAdapter is load_string / save_string. *)
From Coq Require Import List NArith Bool.
From PyCasbin Require Import Base Csv CsvProofs.
Import ListNotations.
Local Open Scope N_scope.

(* ---- first sentence: save -> load is the identity ---- *)

(* one rule, file adapters (the line is trimmed before it is parsed) *)
Theorem C10_line_roundtrip : forall key fs, wf_key key = true -> fs <> [] ->
  Forall (fun f => wf_field f = true) fs ->
  parse_line (strip (render_line key fs)) = Ok (Some (key, fs)).
Proof. exact line_roundtrip. Qed.
Print Assumptions C10_line_roundtrip.

(* one rule, string adapter (the line is parsed as rendered) *)
Theorem C10_line_roundtrip_string : forall key fs, wf_key key = true -> fs <> [] ->
  Forall (fun f => wf_field f = true) fs ->
  parse_line (render_line key fs) = Ok (Some (key, fs)).
Proof. exact line_roundtrip_raw. Qed.
Print Assumptions C10_line_roundtrip_string.

(* whole policy, any number of policy types in the p and g sections, any number of rules:
   Enforcer.save_policy(); Enforcer.load_policy() through FileAdapter / AsyncFileAdapter gives back
   the same model object content — same rules, same order, every policy type *)
Theorem C10_file_roundtrip : forall m, wf_model m -> roundtrip_file m = Ok m.
Proof. exact file_roundtrip. Qed.
Print Assumptions C10_file_roundtrip.

(* StringAdapter: the same, provided at least one rule exists ... *)
Theorem C10_string_roundtrip_partial : forall m, wf_model m -> save_lines m <> [] ->
  roundtrip_string m = Ok m.
Proof. exact string_roundtrip. Qed.
Print Assumptions C10_string_roundtrip_partial.

(* ... and the guard is needed: an empty policy is saved as "" which load_policy refuses
   (known finding C10/string_adapter_empty_policy) *)
Theorem C10_string_roundtrip_refuted : exists m, wf_model m /\ roundtrip_string m = Err ERuntime.
Proof. exact string_roundtrip_refuted. Qed.
Print Assumptions C10_string_roundtrip_refuted.

Theorem C10_string_roundtrip_empty_raises : forall m, save_lines m = [] ->
  roundtrip_string m = Err ERuntime.
Proof. exact string_roundtrip_empty. Qed.
Print Assumptions C10_string_roundtrip_empty_raises.

(* ---- second sentence: what loading a text yields ---- *)

(* complete description of load_policy_line's parsing of ANY line, errors and the
   leading-comma quirk (impl_tokens) included *)
Theorem C10_parse_line_spec : forall l, parse_line l = spec_parse l.
Proof. exact parse_line_spec. Qed.
Print Assumptions C10_parse_line_spec.

(* on the line grammar: empty and comment lines are skipped, any other line is split at its
   top-level commas, trimmed, and attached by its first field *)
Theorem C10_load_is_line_grammar : forall ls m, NoDup (map ast_id m) ->
  forallb line_ok ls = true -> load_lines ls m = Ok (spec_load ls m).
Proof. exact load_lines_grammar. Qed.
Print Assumptions C10_load_is_line_grammar.

Theorem C10_load_is_line_grammar_file : forall text m, NoDup (map ast_id m) ->
  forallb line_ok (file_lines text) = true ->
  load_file text m = Ok (spec_load (file_lines text) m).
Proof. exact load_file_grammar. Qed.
Print Assumptions C10_load_is_line_grammar_file.

Theorem C10_load_is_line_grammar_string : forall text m, NoDup (map ast_id m) -> text <> [] ->
  forallb line_ok (string_lines text) = true ->
  load_string text m = Ok (spec_load (string_lines text) m).
Proof. exact load_string_grammar. Qed.
Print Assumptions C10_load_is_line_grammar_string.

(* the declarative reading of "split at commas that are outside brackets": pieces with nested
   brackets and no top-level comma, joined by commas, come back as exactly those pieces, trimmed *)
Theorem C10_joined_fields_split_back : forall t ts, Forall (fun f => bal f 0 = true) (t :: ts) ->
  is_blank t = false ->
  match t with c :: _ => (c =? c_hash) = false /\ is_open c = false | [] => False end ->
  parse_line (join comma (t :: ts)) = Ok (Some (strip t, map strip ts)).
Proof. exact parse_joined. Qed.
Print Assumptions C10_joined_fields_split_back.

(* the file adapters' trimming of the line is invisible to the loader unless the line starts with a blank *)
Theorem C10_trailing_blanks_irrelevant : forall l bl, l <> [] -> is_blank bl = true ->
  parse_line (l ++ bl) = parse_line l.
Proof. exact parse_line_trailing_blanks. Qed.
Print Assumptions C10_trailing_blanks_irrelevant.

(* ---- errors: exactly which lines make the loader raise (always IndexError) ---- *)
Theorem C10_line_raises_iff : forall l, (exists e, parse_line l = Err e) <-> line_raises l = true.
Proof. exact parse_line_raises_iff. Qed.
Print Assumptions C10_line_raises_iff.

Theorem C10_error_is_IndexError : forall l e, parse_line l = Err e -> e = EIndex.
Proof. exact parse_err_is_index. Qed.
Print Assumptions C10_error_is_IndexError.

Theorem C10_load_file_raises : forall text m l, In l (file_lines text) -> line_raises l = true ->
  load_file text m = Err EIndex.
Proof. exact load_file_raises. Qed.
Print Assumptions C10_load_file_raises.

Theorem C10_load_string_raises : forall text m l, In l (string_lines text) -> line_raises l = true ->
  load_string text m = Err EIndex.
Proof. exact load_string_raises. Qed.
Print Assumptions C10_load_string_raises.

Theorem C10_wf_modelb_sound : forall m, wf_modelb m = true -> wf_model m.
Proof. exact wf_modelb_sound. Qed.
Print Assumptions C10_wf_modelb_sound.

(* ---- examples: the hypotheses are satisfiable by non-trivial inputs ---- *)
(* "f(a, [b,c])" : commas only inside brackets *)
Example C10_wf_field_brackets :
  wf_field [102; 40; 97; 44; 32; 91; 98; 44; 99; 93; 41] = true.
Proof. vm_compute. reflexivity. Qed.
(* "a b#é漢" : inner blank, '#', non-ASCII ; "" : the empty field *)
Example C10_wf_field_inner_blank : wf_field [97; 32; 98; 35; 233; 28450] = true /\ wf_field [] = true.
Proof. vm_compute. split; reflexivity. Qed.
(* " a", "a\t", "a,b", "a)", "(a", "a\nb" are all rejected *)
Example C10_wf_field_rejects :
  map wf_field [[32; 97]; [97; 9]; [97; 44; 98]; [97; 41]; [40; 97]; [97; 10; 98]]
  = [false; false; false; false; false; false].
Proof. vm_compute. reflexivity. Qed.

(* a policy with four policy types (p, p2, g, g2), bracketed commas, empty and non-ASCII fields,
   plus the untouched request section *)
Definition C10_example_model : model :=
  [ {| a_sec := 114; a_key := [114]; a_pol := [] |};
    {| a_sec := c_p; a_key := [c_p];
       a_pol := [ [[97; 32; 98]; [102; 40; 97; 44; 32; 98; 41]; []];
                  [[233; 28450]; [35]; [34; 120; 34]] ] |};
    {| a_sec := c_p; a_key := [c_p; 50]; a_pol := [ [[]; []] ; [[91; 44; 93]; [97]] ] |};
    {| a_sec := c_g; a_key := [c_g]; a_pol := [ [[97]; [98]]; [[97]; [98]] ] |};
    {| a_sec := c_g; a_key := [c_g; 50]; a_pol := [ [[120]; [121]; [122]] ] |} ].

Example C10_example_wf : wf_modelb C10_example_model = true.
Proof. vm_compute. reflexivity. Qed.
Example C10_example_file : roundtrip_file C10_example_model = Ok C10_example_model.
Proof. vm_compute. reflexivity. Qed.
Example C10_example_string : roundtrip_string C10_example_model = Ok C10_example_model.
Proof. vm_compute. reflexivity. Qed.
(* a text in the grammar with a comment, a blank line, an unknown type and a bracketed comma:
   "p, a, f(x,y)\n# c\n\nq, z\ng , a,b " *)
Example C10_example_text :
  let text := [112;44;32;97;44;32;102;40;120;44;121;41;10;35;32;99;10;10;113;44;32;122;10;103;32;44;32;97;44;98;32] in
  forallb line_ok (file_lines text) = true
  /\ load_file text (clear_policy C10_example_model)
     = Ok (spec_load (file_lines text) (clear_policy C10_example_model))
  /\ map a_pol (spec_load (file_lines text) (clear_policy C10_example_model))
     = [ []; [[[97]; [102;40;120;44;121;41]]]; []; [[[97]; [98]]]; [] ].
Proof. vm_compute. repeat split; reflexivity. Qed.

(* ---------------------------------------------------------------------------------------------------------------
   Of the SOURCE: load_policy_line (casbin/persist/adapter.py - the one function through which the file adapter, the
   async file adapter, the filtered file adapter and the string adapter turn a text line into a rule) is re-translated
   on every run into a program of the language of LineLang.v (coq/gen/LoadLineGen.v); LineTie.v proves, for EVERY line
   (any characters, any length, balanced or not) and every model, that the interpreter run on it computes
   Csv.load_policy_line - the function the theorems above are about: skipped lines, the bracket-aware split at commas,
   trimming, the IndexError cases, the section / key lookup and the append. *)
From PyCasbin Require LineLang LineTie.
From PyCasbinGen Require LoadLineGen.

Theorem C10_source_load_policy_line : forall line m,
  LineLang.lrun LineTie.LFUEL LoadLineGen.lv_line LoadLineGen.load_line_locals LoadLineGen.load_line_gen line m =
  Csv.load_policy_line line m.
Proof. exact LineTie.tie_load_policy_line. Qed.
Print Assumptions C10_source_load_policy_line.

Example C10_source_example :
  LineLang.lrun LineTie.LFUEL LoadLineGen.lv_line LoadLineGen.load_line_locals LoadLineGen.load_line_gen
    [112; 44; 32; 97; 44; 32; 102; 40; 98; 44; 99; 41; 44; 32; 100]
    [ {| a_sec := 112; a_key := [112]; a_pol := [] |} ] =
  Ok [ {| a_sec := 112; a_key := [112]; a_pol := [[[97]; [102; 40; 98; 44; 99; 41]; [100]]] |} ].
Proof. vm_compute. reflexivity. Qed.

(* ---------------------------------------------------------------------------------------------------------------
   Of the SOURCE, the adapters themselves: the bodies of FileAdapter._load_policy_file / _save_policy_file
   (casbin/persist/adapters/file_adapter.py; AsyncFileAdapter's two methods are checked to be the same syntax trees) and
   of StringAdapter.load_policy / save_policy (string_adapter.py) are re-translated on every run into programs of the
   language of AdLang.v (coq/gen/AdaptersGen.v); AdapterTie.v proves that the interpreter run on them computes load_file /
   save_file / load_string / save_string - the functions every theorem above is about: the readline loop with decode
   and strip, the two section loops with their `in model.keys()` guards, key + ", " + ", ".join(rule), the enumerate loop
   that appends "\n" to every line but the last, writelines; the empty-string refusal, split("\n"), the skipped empty
   pieces; the "\n"-terminated pieces joined and rstrip("\n")-ed.  For every file text and every model. *)
From PyCasbin Require AdLang AdapterTie.
From PyCasbinGen Require AdaptersGen.

Theorem C10_source_file_load : forall text m, AdapterTie.run_file_load text m = load_file text m.
Proof. exact AdapterTie.tie_file_load. Qed.
Print Assumptions C10_source_file_load.

Theorem C10_source_file_save : forall m, AdapterTie.run_file_save m = Ok (save_file m).
Proof. exact AdapterTie.tie_file_save. Qed.
Print Assumptions C10_source_file_save.

Theorem C10_source_string_load : forall line m, AdapterTie.run_string_load line m = load_string line m.
Proof. exact AdapterTie.tie_string_load. Qed.
Print Assumptions C10_source_string_load.

Theorem C10_source_string_save : forall m line0, AdapterTie.run_string_save m line0 = Ok (save_string m).
Proof. exact AdapterTie.tie_string_save. Qed.
Print Assumptions C10_source_string_save.

(* hence the round trip, stated of the regenerated source: what the regenerated save writes, the regenerated load reads
   back into the cleared model as the same policy *)
Theorem C10_source_file_roundtrip : forall m, wf_model m ->
  exists text, AdapterTie.run_file_save m = Ok text /\ AdapterTie.run_file_load text (clear_policy m) = Ok m.
Proof.
  intros m H. exists (save_file m). split; [apply AdapterTie.tie_file_save|].
  rewrite AdapterTie.tie_file_load. exact (file_roundtrip m H).
Qed.
Print Assumptions C10_source_file_roundtrip.

Theorem C10_source_string_roundtrip_partial : forall m line0, wf_model m -> save_lines m <> [] ->
  exists text, AdapterTie.run_string_save m line0 = Ok text /\ AdapterTie.run_string_load text (clear_policy m) = Ok m.
Proof.
  intros m line0 H Hne. exists (save_string m). split; [apply AdapterTie.tie_string_save|].
  rewrite AdapterTie.tie_string_load. exact (string_roundtrip m H Hne).
Qed.
Print Assumptions C10_source_string_roundtrip_partial.

Example C10_source_adapters_example :
  let m := [ {| a_sec := 112; a_key := [112]; a_pol := [[[97]; [98]]; [[99]; [102;40;120;44;121;41]]] |};
             {| a_sec := 103; a_key := [103]; a_pol := [[[97]; [103;49]]] |};
             {| a_sec := 109; a_key := [109]; a_pol := [] |} ] in
  AdapterTie.run_file_save m = Ok [112;44;32;97;44;32;98;10; 112;44;32;99;44;32;102;40;120;44;121;41;10; 103;44;32;97;44;32;103;49]
  /\ AdapterTie.run_string_save m [120] = Ok [112;44;32;97;44;32;98;10; 112;44;32;99;44;32;102;40;120;44;121;41;10; 103;44;32;97;44;32;103;49]
  /\ AdapterTie.run_file_load [112;44;32;97;44;32;98;10; 10; 35;120;10; 103;44;32;97;44;32;103;49;32;10] (clear_policy m)
     = Ok [ {| a_sec := 112; a_key := [112]; a_pol := [[[97]; [98]]] |}; {| a_sec := 103; a_key := [103]; a_pol := [[[97]; [103;49]]] |};
            {| a_sec := 109; a_key := [109]; a_pol := [] |} ]
  /\ AdapterTie.run_string_load [] m = Err ERuntime.
Proof. vm_compute. repeat split; reflexivity. Qed.
