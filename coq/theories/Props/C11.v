(* C11 — a failed policy reload leaves the enforcer exactly as it was. *)
From Coq Require Import List NArith Bool.
From PyCasbin Require Import Base Effect Enforce Policy RoleGraph Mgmt MgmtLinks MgmtProofs.
Import ListNotations.

(* the adapter failing after delivering ANY prefix of its rows (k = 0..n and beyond) makes load_policy raise *)
Theorem C11_adapter_failure_raises : forall k s n, exists c, snd (load_policy k s (Some n)) = verr c.
Proof. exact adapter_failure_raises. Qed.
Print Assumptions C11_adapter_failure_raises.

(* whenever load_policy raises — adapter failure at any point, a row unusable for ordering (sort), a
   grouping row unusable for link building — the rules are untouched and the role managers are in sync
   with them again (Inv = C04's invariant, which is what the rollback needs and restores) *)
Theorem C11_failed_reload_restores_state : forall k s fa s' v,
  Inv k s -> load_policy k s fa = (s', v) -> is_err v = true -> Inv k s' /\ same_rules s s'.
Proof. exact failed_reload. Qed.
Print Assumptions C11_failed_reload_restores_state.

(* ... therefore every decision, every role query and every stored rule is as before the call *)
Theorem C11_failed_reload_is_invisible : forall k s fa s' v,
  Inv k s -> load_policy k s fa = (s', v) -> is_err v = true ->
  (forall req, snd (enforce_ex_m k s req) = snd (enforce_ex_m k s' req))
  /\ (forall u d, fst (rmk_get_roles (m_rm s) u d) = fst (rmk_get_roles (m_rm s') u d)
               /\ fst (rmk_get_users (m_rm s) u d) = fst (rmk_get_users (m_rm s') u d))
  /\ m_p s' = m_p s /\ m_g s' = m_g s /\ m_g2 s' = m_g2 s.
Proof. exact failed_reload_observations. Qed.
Print Assumptions C11_failed_reload_is_invisible.

(* ... and arbitrary further use keeps rules and links in sync, exactly as if the call had not happened *)
Theorem C11_then_anything : forall k s fa s' v ops,
  Inv k s -> load_policy k s fa = (s', v) -> is_err v = true -> forallb (op_ok k) ops = true ->
  Inv k (fst (run k s' ops)).
Proof.
  intros k s fa s' v ops HI H He Hok. apply run_inv; [|exact Hok].
  exact (proj1 (failed_reload k s fa s' v HI H He)).
Qed.
Print Assumptions C11_then_anything.

(* a successful reload replaces policy and role links together *)
Theorem C11_successful_reload_replaces_both : forall k s s',
  Inv k s -> load_policy k s None = (s', ok (VL [])) ->
  exists p g g2, deliver k (m_db s) None [] [] [] = Ok (p, g, g2)
    /\ m_g s' = g /\ m_g2 s' = g2
    /\ (if k_prio k then sort_by_priority 0 p = Ok (m_p s') else m_p s' = p)
    /\ (delivered_ok k g g2 -> Inv k s').
Proof. exact successful_reload. Qed.
Print Assumptions C11_successful_reload_replaces_both.

(* non-vacuity: a 3-row store, adapter failing after 2 rows, and a short grouping row *)
Definition k_rbac : mkind := mkKind false true false false false AO true 0.
Example C11_example :
  let db := [(0%N, [1006; 1008; 1011]%N); (1%N, [1003; 1006]%N); (1%N, [1004]%N)] in
  let s0 := fst (step_db k_rbac (init k_rbac [(0%N, [1006; 1008; 1011]%N); (1%N, [1003; 1006]%N)]) OLoad) in
  let s1 := set_db s0 db in
  is_err (snd (load_policy k_rbac s1 (Some 2%nat))) = true
  /\ is_err (snd (load_policy k_rbac s1 None)) = true
  /\ snd (enforce_ex_m k_rbac (fst (load_policy k_rbac s1 None)) [1003; 1008; 1011]%N) = Ok (true, Some 0%nat).
Proof. vm_compute. repeat split; reflexivity. Qed.

(* ---------------------------------------------------------------------------------------------------------------
   Of the SOURCE: the control skeleton of CoreEnforcer.load_policy (casbin/core_enforcer.py) - the candidate model, the try
   block, the order load / sort / clear / link, the single commit `self.model = new_model`, the rollback condition
   `auto_build_role_links and need_to_rebuild`, the re-raise - is re-translated on every run into a program of the language
   of LoadLang.v (coq/gen/LoadPolicyGen.v; every statement must be one of the recognised steps); LoadTie.v proves that the
   interpreter run on it computes Mgmt.load_policy - the function every theorem above is about - for every kind of model,
   every adapter content and every adapter fault, on every enforcer state whose current policy re-links without error
   (which the invariant `Inv` of the theorems above implies). *)
From PyCasbin Require LoadLang LoadTie.
From PyCasbinGen Require LoadPolicyGen.

Theorem C11_source_load_policy : forall k s fa, snd (build_role_links k s) = None ->
  LoadTie.run_load_policy k s fa = load_policy k s fa.
Proof. exact LoadTie.tie_load_policy. Qed.
Print Assumptions C11_source_load_policy.

Theorem C11_source_load_policy_inv : forall k s fa, Inv k s ->
  LoadTie.run_load_policy k s fa = load_policy k s fa.
Proof.
  intros k s fa HI. apply LoadTie.tie_load_policy.
  destruct (Inv_shape k s HI) as [Hsh Hsh2].
  destruct HI as [[Hg [Hag _]] [[Hg2 [Hag2 _]] Hab]].
  exact (proj2 (build_role_links_inv k s Hg Hag Hg2 Hag2 Hsh Hsh2 Hab)).
Qed.
Print Assumptions C11_source_load_policy_inv.

(* hence, of the regenerated source: a reload that raises leaves rules and role links as they were *)
Theorem C11_source_failed_reload_restores_state : forall k s fa s' v,
  Inv k s -> LoadTie.run_load_policy k s fa = (s', v) -> is_err v = true -> Inv k s' /\ same_rules s s'.
Proof.
  intros k s fa s' v HI H He. rewrite (C11_source_load_policy_inv k s fa HI) in H.
  exact (failed_reload k s fa s' v HI H He).
Qed.
Print Assumptions C11_source_failed_reload_restores_state.
