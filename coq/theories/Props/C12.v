(* C12 — Filtered loading loads exactly the filtered subset, never overwrites the store.
   Only statements here; proofs are `exact <lemma>` (FilteredProofs.v).  Files are strings of code
   points of any length, filters are any two lists of strings, traces are any lists of operations. *)
From Coq Require Import List NArith Bool Arith.
From PyCasbin Require Import Base Csv CsvProofs Filtered FilteredProofs.
Import ListNotations.
Local Open Scope N_scope.

(* ---- which lines are kept ---- *)

(* exact characterisation of the lines load_filtered_policy keeps, with
   parts = line.split(","), key = parts[0].strip(), fields = parts[1:].  The length clause
   (a filter with more positions than the line has fields drops the line, even if the extra
   positions are blank) is the code's and is part of the statement. *)
Theorem C12_kept_iff : forall l P G,
  let parts := split_on c_comma l in
  let key := strip (hd [] parts) in
  let fields := tl parts in
  filter_line l P G = false <->
    (key = s_g /\ (forallb is_blank G = true \/ ((length G <= length fields)%nat /\ matches G fields)))
    \/ (key = s_p /\ (length P <= length fields)%nat /\ matches P fields)
    \/ (key <> s_g /\ key <> s_p).
Proof. exact kept_iff. Qed.
Print Assumptions C12_kept_iff.

(* on a bracket-free line the filter decides by the very rule the loader produces *)
Theorem C12_filter_decides_by_rule : forall l P G key fs, no_brackets l = true ->
  spec_fields l = key :: fs -> filter_line l P G = negb (rule_kept P G key fs).
Proof. exact filter_line_rule. Qed.
Print Assumptions C12_filter_decides_by_rule.

Theorem C12_empty_filter_is_all_blank : forall P G,
  is_empty_filter P G = forallb is_blank P && forallb is_blank G.
Proof. exact is_empty_filter_spec. Qed.
Print Assumptions C12_empty_filter_is_all_blank.

(* ---- exactly the subset ---- *)

(* the store: what a full load brings into every policy type *)
Theorem C12_full_load_is_store : forall text m, plain_text text = true -> NoDup (map ast_id m) ->
  load_file text m = Ok (with_rules (stored_rules text) m).
Proof. exact full_load_is_store. Qed.
Print Assumptions C12_full_load_is_store.

(* FilteredFileAdapter.load_filtered_policy with a non-empty filter: every policy type receives,
   after what it already holds, exactly its stored rules that the filter keeps (p and g filtered,
   every other type complete), in store order; the adapter is then flagged as filtered *)
Theorem C12_filtered_load_is_subset_exactly_partial : forall text flag P G m,
  plain_text text = true -> NoDup (map ast_id m) -> is_empty_filter P G = false ->
  adapter_load_filtered text flag P G m = (true, with_rules (subset_rules text P G) m, None).
Proof. exact filtered_load_is_subset_exactly. Qed.
Print Assumptions C12_filtered_load_is_subset_exactly_partial.

(* the guard plain_text is needed (known finding C12/filter_splits_at_bracketed_commas): the file
   "p, f(a,b), c" is in the line grammar and stores the rule [f(a,b); c]; the filter P = ["", "c"]
   keeps it by the property's words, but filter_line splits at the comma inside the brackets,
   compares "c" with "b)" and drops it *)
Theorem C12_filtered_load_is_subset_exactly_refuted :
  exists text P G m,
    NoDup (map ast_id m) /\ is_empty_filter P G = false
    /\ forallb line_ok (file_lines text) = true
    /\ map a_pol (with_rules (subset_rules text P G) m) = [[[[102;40;97;44;98;41]; [99]]]; []]
    /\ map a_pol (snd (fst (adapter_load_filtered text true P G m))) = [[]; []].
Proof. exact subset_exactly_refuted. Qed.
Print Assumptions C12_filtered_load_is_subset_exactly_refuted.

Theorem C12_empty_filter_load_is_full : forall text flag P G m,
  plain_text text = true -> NoDup (map ast_id m) -> is_empty_filter P G = true ->
  adapter_load_filtered text flag P G m = (false, with_rules (stored_rules text) m, None).
Proof. exact empty_filter_load_is_full. Qed.
Print Assumptions C12_empty_filter_load_is_full.

(* Enforcer.load_filtered_policy: the memory becomes the cleared model plus exactly that subset *)
Theorem C12_load_filtered_policy_subset_partial : forall counts st P G,
  plain_text (s_file st) = true -> NoDup (map ast_id (s_mdl st)) -> is_empty_filter P G = false ->
  let st' := fst (e_load_filtered counts st P G) in
  s_mdl st' = with_rules (subset_rules (s_file st) P G) (clear_policy (s_mdl st))
  /\ s_flag st' = true /\ s_file st' = s_file st.
Proof. exact e_filtered_subset. Qed.
Print Assumptions C12_load_filtered_policy_subset_partial.

(* Enforcer.load_increment_filtered_policy appends the further subset to what is loaded *)
Theorem C12_incremental_keeps_loaded_partial : forall counts st P G,
  plain_text (s_file st) = true -> NoDup (map ast_id (s_mdl st)) -> is_empty_filter P G = false ->
  let st' := fst (e_load_incr counts st P G) in
  s_mdl st' = with_rules (subset_rules (s_file st) P G) (s_mdl st)
  /\ s_flag st' = true /\ s_file st' = s_file st.
Proof. exact incremental_keeps_loaded. Qed.
Print Assumptions C12_incremental_keeps_loaded_partial.

(* ... and, with no hypothesis at all (any file, any filter, even when a line raises), it never
   drops or reorders a loaded rule *)
Theorem C12_incremental_never_drops : forall counts st P G,
  grows (s_mdl st) (s_mdl (fst (e_load_incr counts st P G))).
Proof. exact incremental_never_drops. Qed.
Print Assumptions C12_incremental_never_drops.

(* ---- role links ---- *)
Theorem C12_links_from_subset : forall counts st o st', is_load o = true ->
  step counts st o = (st', Ok tt) -> s_links st' = links_spec counts (s_mdl st').
Proof. exact links_from_subset. Qed.
Print Assumptions C12_links_from_subset.

(* ---- never overwrites ---- *)
Theorem C12_save_refused_while_filtered : forall counts st, s_flag st = true ->
  step counts st OSave = (st, Err EFilteredSave).
Proof. exact save_refused_while_filtered. Qed.
Print Assumptions C12_save_refused_while_filtered.

Theorem C12_only_unfiltered_save_writes : forall counts st o st' r, step counts st o = (st', r) ->
  s_file st' <> s_file st -> o = OSave /\ s_flag st = false /\ r = Ok tt.
Proof. exact only_unfiltered_save_writes. Qed.
Print Assumptions C12_only_unfiltered_save_writes.

(* every trace of filtered / incremental / full loads and save attempts, from any state *)
Theorem C12_never_overwrites : forall counts ops st, Forall step_safe (run counts st ops).
Proof. exact never_overwrites. Qed.
Print Assumptions C12_never_overwrites.

(* ---- what ends / starts the filtered state ---- *)
Theorem C12_full_load_clears_flag : forall counts st, s_flag (fst (e_load_policy counts st)) = false.
Proof. exact full_load_clears_flag. Qed.
Print Assumptions C12_full_load_clears_flag.

Theorem C12_empty_filter_clears_flag : forall counts st P G, is_empty_filter P G = true ->
  s_flag (fst (e_load_filtered counts st P G)) = false
  /\ s_flag (fst (e_load_incr counts st P G)) = false.
Proof. exact empty_filter_clears_flag. Qed.
Print Assumptions C12_empty_filter_clears_flag.

Theorem C12_filtered_load_sets_flag : forall counts st P G st', is_empty_filter P G = false ->
  (e_load_filtered counts st P G = (st', Ok tt) \/ e_load_incr counts st P G = (st', Ok tt)) ->
  s_flag st' = true.
Proof. exact filtered_load_sets_flag. Qed.
Print Assumptions C12_filtered_load_sets_flag.

(* ---- "while the loaded policy is a filtered subset save_policy refuses", with the view's
   partiality as a history variable (ghost_next): holds along every trace none of whose loads
   raised ... *)
Theorem C12_partial_view_guarded_partial : forall counts ops st partial,
  (partial = true -> s_flag st = true) -> loads_ok (run counts st ops) ->
  Forall guarded (combine (run counts st ops) (ghosts partial (run counts st ops))).
Proof. exact partial_view_guarded. Qed.
Print Assumptions C12_partial_view_guarded_partial.

(* ... and the guard is needed (known finding C12/failed_load_unguards_save): after a filtered
   load, a full reload that raises leaves the partial view in memory but has already cleared the
   flag, so the third step — save_policy — succeeds and shrinks the file *)
Theorem C12_partial_view_guarded_refuted :
  exists counts file m ops,
    let tr := run counts (init_state file m) ops in
    exists s o s' r, nth_error tr 2 = Some (s, o, s', r)
      /\ nth_error (ghosts true tr) 2 = Some true
      /\ o = OSave /\ r = Ok tt /\ s_flag s = false
      /\ s_file s' <> s_file s /\ (length (s_file s') < length (s_file s))%nat.
Proof. exact partial_view_guard_refuted. Qed.
Print Assumptions C12_partial_view_guarded_refuted.

(* ---- examples ---- *)
(* file: "p, alice, data1, read\np, bob, data2, write\ng, alice, admin\ng2, data1, grp\n" *)
Definition C12_file : str :=
  [112;44;32;97;108;105;99;101;44;32;100;97;116;97;49;44;32;114;101;97;100;10;
   112;44;32;98;111;98;44;32;100;97;116;97;50;44;32;119;114;105;116;101;10;
   103;44;32;97;108;105;99;101;44;32;97;100;109;105;110;10;
   103;50;44;32;100;97;116;97;49;44;32;103;114;112;10].
Definition C12_model : model :=
  [ {| a_sec := c_p; a_key := s_p; a_pol := [] |};
    {| a_sec := c_g; a_key := s_g; a_pol := [] |};
    {| a_sec := c_g; a_key := [c_g; 50]; a_pol := [] |} ].
Definition C12_bob : str := [98;111;98].
Definition C12_write : str := [119;114;105;116;101].

(* the hypotheses of the subset theorems hold for it, and the filter P = ["", "", "write"],
   G = ["bob"] keeps one p rule, no g rule and the (unfiltered) g2 rule *)
Example C12_example_subset :
  plain_text C12_file = true
  /\ is_empty_filter [[]; []; C12_write] [C12_bob] = false
  /\ map a_pol (with_rules (subset_rules C12_file [[]; []; C12_write] [C12_bob]) C12_model)
     = [ [[C12_bob; [100;97;116;97;50]; C12_write]]; []; [[[100;97;116;97;49]; [103;114;112]]] ].
Proof. vm_compute. repeat split; reflexivity. Qed.

(* a trace: filtered load, refused save, incremental load, full load, accepted save *)
Example C12_example_trace :
  map (fun x => let '(_, _, s', r) := x in (r, s_flag s', map (fun a => length (a_pol a)) (s_mdl s')))
      (run [] (init_state C12_file C12_model)
           [OFiltered [C12_bob] []; OSave; OIncr [] [[97;108;105;99;101]]; OLoad; OSave])
  = [ (Ok tt, true, [1; 1; 1]%nat); (Err EFilteredSave, true, [1; 1; 1]%nat);
      (Ok tt, true, [3; 2; 2]%nat); (Ok tt, false, [2; 1; 1]%nat); (Ok tt, false, [2; 1; 1]%nat) ].
Proof. vm_compute. reflexivity. Qed.

(* ---------------------------------------------------------------------------------------------------------------
   Of the SOURCE: filter_line, filter_words and the `is_empty_filter` expression of
   FilteredFileAdapter.load_filtered_policy (casbin/persist/adapters/filtered_file_adapter.py) are re-translated on every
   run into programs of the language of FiltLang.v (coq/gen/FilterGen.v); FilterTie.v proves, for EVERY line and every
   filter (any two lists of strings of any length), that the interpreter run on them computes Filtered.filter_words /
   filter_line / is_empty_filter - the functions the theorems above are about: the naive split, the key test, the
   blank-G shortcut, the length clause, the position-by-position comparison with its break, and the "nothing but blanks"
   test that turns a filtered load into a full one.  load_policy_line, which loads each kept line, is tied the same way
   (LineTie.v, Props/C10.v). *)
From PyCasbin Require FiltLang FilterTie LineLang LineTie.
From PyCasbinGen Require FilterGen LoadLineGen.

Theorem C12_source_filter_words : forall line flt,
  FilterTie.run_words line flt = Ok (FiltLang.FB (filter_words line flt)).
Proof. exact FilterTie.tie_filter_words. Qed.
Print Assumptions C12_source_filter_words.

Theorem C12_source_filter_line : forall line P G,
  FilterTie.run_line line P G = Ok (FiltLang.FB (filter_line line P G)).
Proof. exact FilterTie.tie_filter_line. Qed.
Print Assumptions C12_source_filter_line.

Theorem C12_source_is_empty_filter : forall P G,
  FilterTie.run_is_empty P G = Ok (FiltLang.FB (is_empty_filter P G)).
Proof. exact FilterTie.tie_is_empty_filter. Qed.
Print Assumptions C12_source_is_empty_filter.

Theorem C12_source_load_policy_line : forall line m,
  LineLang.lrun LineTie.LFUEL LoadLineGen.lv_line LoadLineGen.load_line_locals LoadLineGen.load_line_gen line m =
  Csv.load_policy_line line m.
Proof. exact LineTie.tie_load_policy_line. Qed.
Print Assumptions C12_source_load_policy_line.

(* the regenerated filter on a concrete line: "p, alice, data1, read" is skipped by P = ["", "data2"] (position 2
   differs), kept by P = ["", " data1 "], skipped by P of five positions (length clause); "g, a, b" is kept by G = [" "] *)
Example C12_source_example :
  FilterTie.run_line [112;44;32;97;108;105;99;101;44;32;100;97;116;97;49;44;32;114;101;97;100] [[]; [100;97;116;97;50]] [] = Ok (FiltLang.FB true)
  /\ FilterTie.run_line [112;44;32;97;108;105;99;101;44;32;100;97;116;97;49;44;32;114;101;97;100] [[]; [32;100;97;116;97;49;32]] [] = Ok (FiltLang.FB false)
  /\ FilterTie.run_line [112;44;32;97;108;105;99;101;44;32;100;97;116;97;49;44;32;114;101;97;100] [[];[];[];[];[]] [] = Ok (FiltLang.FB true)
  /\ FilterTie.run_line [103;44;32;97;44;32;98] [[120]] [[32]] = Ok (FiltLang.FB false)
  /\ FilterTie.run_is_empty [[32]; []] [] = Ok (FiltLang.FB true)
  /\ FilterTie.run_is_empty [[32]; [120]] [] = Ok (FiltLang.FB false).
Proof. vm_compute. repeat split; reflexivity. Qed.

(* The control skeletons, of the SOURCE: FilteredFileAdapter.load_policy / load_filtered_policy / save_policy (the flag
   machine) and CoreEnforcer.load_filtered_policy / load_increment_filtered_policy / save_policy are re-translated on every run
   (translators/filtered.py, FlagLang.v: every statement one recognised step; load_filtered_policy_file and the two
   is_filtered methods are checked to be the recognised bodies); FlagTie.v proves that they compute adapter_load_filtered and
   the steps e_load_filtered / e_load_incr / e_save of which every trace theorem above is made. *)
From PyCasbin Require FlagLang FlagTie.
From PyCasbinGen Require FilteredGen.

Theorem C12_source_adapter_load_filtered : forall counts P G file flag m links,
  FlagTie.run_g counts P G FilteredGen.ad_load_filtered_policy_gen {| s_file := file; s_flag := flag; s_mdl := m; s_links := links |} =
  let '(flag', m', err) := adapter_load_filtered file flag P G m in
  ({| s_file := file; s_flag := flag'; s_mdl := m'; s_links := links |}, match err with None => Ok tt | Some e => Err e end).
Proof. exact FlagTie.tie_adapter_load_filtered. Qed.
Print Assumptions C12_source_adapter_load_filtered.

Theorem C12_source_load_filtered_policy : forall counts P G st,
  FlagTie.run_g counts P G FilteredGen.en_load_filtered_policy_gen st = e_load_filtered counts st P G.
Proof. exact FlagTie.tie_e_load_filtered. Qed.
Print Assumptions C12_source_load_filtered_policy.

Theorem C12_source_load_increment_filtered_policy : forall counts P G st,
  FlagTie.run_g counts P G FilteredGen.en_load_increment_filtered_policy_gen st = e_load_incr counts st P G.
Proof. exact FlagTie.tie_e_load_incr. Qed.
Print Assumptions C12_source_load_increment_filtered_policy.

Theorem C12_source_save_policy : forall counts P G st,
  FlagTie.run_g counts P G FilteredGen.en_save_policy_gen st = e_save st.
Proof. exact FlagTie.tie_e_save. Qed.
Print Assumptions C12_source_save_policy.

(* hence, of the regenerated source: while the adapter is flagged as filtered, save_policy raises and changes nothing *)
Theorem C12_source_filtered_save_refused : forall counts P G st, s_flag st = true ->
  FlagTie.run_g counts P G FilteredGen.en_save_policy_gen st = (st, Err EFilteredSave).
Proof.
  intros counts P G st H. rewrite FlagTie.tie_e_save. unfold e_save. rewrite H. reflexivity.
Qed.
Print Assumptions C12_source_filtered_save_refused.
