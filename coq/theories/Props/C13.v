(* C13 — Built-in matching functions implement their documented pattern languages.
   Only statements here; proofs are `exact <lemma>`.  Models: KeyMatch.v Glob.v IpMatch.v
   (glob_match is the function WITH fixes/C13-glob-star.diff applied); specs: km_lang, seg_lang
   over Lit | Seg | Rest items, bindd/inst (KeyBind.v), glob_lang, block arithmetic (both address families).
   Documented form = the boolean predicates doc2 doc3 doc5 (strings), wf2 wf4 star_last (tokens),
   citem_ok (classes), ip_doc; keys without newline (key_ok). *)
From Coq Require Import List NArith Bool.
From PyCasbin Require Import Base PatBase KeyMatch KeyBind Glob IpMatch
  KeyMatchProofs KeyMatchRegexProofs KeyBindProofs GlobProofs IpMatchProofs.
Import ListNotations.
Local Open Scope N_scope.

(* ---------------------------------------------------------------- keyMatch / keyGet : every key, every pattern *)
Theorem C13_key_match_iff : forall k p, key_match k p = true <-> km_lang p k.
Proof. exact key_match_iff. Qed.
Print Assumptions C13_key_match_iff.

Theorem C13_key_get_is_remainder : forall k pre suf, ~ In cSTAR pre ->
  key_match k (pre ++ cSTAR :: suf) = true ->
  k = pre ++ key_get k (pre ++ cSTAR :: suf).
Proof. exact key_get_is_remainder. Qed.
Print Assumptions C13_key_get_is_remainder.

Theorem C13_key_get_no_match : forall k p, key_match k p = false -> key_get k p = [].
Proof. exact key_get_no_match. Qed.
Print Assumptions C13_key_get_no_match.

(* ---------------------------------------------------------------- keyMatch2/3/5 : every documented-form pattern, every key
   (the modelled pipeline replace -> re.sub -> regex parse -> backtracking match is the segment language) *)
Theorem C13_seg_match_iff : forall its s, seg_match its s = true <-> seg_lang its s.
Proof. exact seg_match_iff. Qed.
Print Assumptions C13_seg_match_iff.

Theorem C13_km2_iff : forall p k, doc2 p = true -> key_ok k = true ->
  key_match2 k p = Ok (seg_match (parse2 p) k).
Proof. exact km2_iff. Qed.
Print Assumptions C13_km2_iff.

Theorem C13_km2_star : forall k, key_ok k = true -> key_match2 k [cSTAR] = Ok true.
Proof. exact km2_star. Qed.
Print Assumptions C13_km2_star.

Theorem C13_km3_iff : forall p k, doc3 p = true -> key_ok k = true ->
  key_match3 k p = Ok (seg_match (parse3 p) k).
Proof. exact km3_iff. Qed.
Print Assumptions C13_km3_iff.

(* keyMatch5 ignores the query string *)
Theorem C13_km5_iff : forall p k, doc5 p = true -> key_ok k = true ->
  key_match5 k p = Ok (seg_match (parse5 p) (before_qm k)).
Proof. exact km5_iff. Qed.
Print Assumptions C13_km5_iff.

(* the same three on token lists: the documented form is the image of render on well-formed tokens *)
Theorem C13_km2_tokens : forall t k, wf2 t = true -> no_nl k ->
  key_match2 k (render false t) = Ok (seg_match (items_of t) k).
Proof. exact km2_tokens. Qed.
Print Assumptions C13_km2_tokens.

Theorem C13_km3_tokens : forall t k, wf3 t = true -> no_nl k ->
  key_match3 k (render true t) = Ok (seg_match (items_of t) k).
Proof. exact km3_tokens. Qed.
Print Assumptions C13_km3_tokens.

Theorem C13_km5_tokens : forall t k, wf5 t = true -> no_nl k ->
  key_match5 k (render true t) = Ok (seg_match (items_of t) (before_qm k)).
Proof. exact km5_tokens. Qed.
Print Assumptions C13_km5_tokens.

(* ---------------------------------------------------------------- keyGet2 / keyMatch4 : '/'-delimited variables, final '/*'
   (the decomposition of the key is then unique: bindd) *)
Theorem C13_key_get2_binds_partial : forall t k v, get2_doc t = true -> no_nl k ->
  key_get2 k (render false t) v = Ok (get2_spec t k v).
Proof. exact key_get2_tokens. Qed.
Print Assumptions C13_key_get2_binds_partial.

Theorem C13_km4_iff_partial : forall t k, wf4 t = true -> star_last t = true -> no_nl k ->
  key_match4 k (render true t) = Ok (km4_bind_spec t k).
Proof. exact key_match4_tokens. Qed.
Print Assumptions C13_km4_iff_partial.

(* the same two on strings *)
Theorem C13_key_get2_iff_partial : forall p k v, get2_docs p = true -> key_ok k = true ->
  key_get2 k p v = Ok (get2_spec (tokens2 p) k v).
Proof. exact key_get2_iff. Qed.
Print Assumptions C13_key_get2_iff_partial.

Theorem C13_km4_string_iff_partial : forall p k, doc4s p = true -> key_ok k = true ->
  key_match4 k p = Ok (km4_bind_spec (tokens5 p) k).
Proof. exact km4_iff. Qed.
Print Assumptions C13_km4_string_iff_partial.

(* key_match4's dict loop = repeated names bound to equal texts *)
Theorem C13_km4_consistent : forall names vals, km4_check names vals [] = consistent names vals.
Proof. exact km4_consistent. Qed.
Print Assumptions C13_km4_consistent.

(* bindd t k = Some vs exactly when k is the pattern with the segment texts vs written for its variables *)
Theorem C13_bindd_complete : forall t vs tail, wf2 t = true -> star_last t = true ->
  length vs = length (var_names t) -> Forall is_seg vs ->
  bindd t (inst t vs tail) = Some vs.
Proof. exact bindd_complete. Qed.
Print Assumptions C13_bindd_complete.

Theorem C13_bindd_sound : forall t k vs, star_last t = true -> bindd t k = Some vs ->
  exists tail, k = inst t vs tail /\ Forall is_seg vs.
Proof. exact bindd_sound. Qed.
Print Assumptions C13_bindd_sound.

(* ---------------------------------------------------------------- globMatch (repaired): every string, every pattern *)
Theorem C13_glob_total : forall s p, exists b, glob_match s p = Ok b.
Proof. exact glob_total. Qed.
Print Assumptions C13_glob_total.

Theorem C13_glob_iff : forall s p, glob_match s p = Ok true <-> glob_lang p s.
Proof. exact glob_iff. Qed.
Print Assumptions C13_glob_iff.

Theorem C13_glob_is_spec : forall s p, glob_match s p = Ok (gspec p s).
Proof. exact glob_match_is_gspec. Qed.
Print Assumptions C13_glob_is_spec.

Theorem C13_glob_class_doc : forall neg items rest t, forallb citem_ok items = true ->
  range_match (class_text neg items ++ rest) t
  = Ok (if xorb (existsb (citem_has t) items) neg then Some rest else None).
Proof. exact class_doc. Qed.
Print Assumptions C13_glob_class_doc.

(* the function as it stands in the unrepaired tree accepts strings outside the language and
   rejects strings inside it (finding C13/glob-star) *)
Theorem C13_glob_unrepaired_refuted :
  (exists s p, glob_match_unrepaired s p = Ok true /\ ~ glob_lang p s) /\
  (exists s p, glob_match_unrepaired s p = Ok false /\ glob_lang p s).
Proof. exact glob_unrepaired_refuted. Qed.
Print Assumptions C13_glob_unrepaired_refuted.

(* ---------------------------------------------------------------- ipMatch: address in address / CIDR block, IPv4 and IPv6
   parse_addr = ipaddress.ip_address, parse_network = ipaddress.ip_network(strict=False) (family, integer,
   prefix length); W = 32 for IPv4, 128 for IPv6 *)

(* whatever parses: same family and equal top n bits, as arithmetic on the parsed integers; false across families *)
Theorem C13_ip_match_is_block_membership : forall a b f x g net n,
  parse_addr a = Some (f, x) -> parse_network b = Some (g, net, n) ->
  ip_match a b = Ok (fam_eqb f g && (x / 2 ^ (width g - n) =? net / 2 ^ (width g - n))).
Proof. exact ip_iff_w. Qed.
Print Assumptions C13_ip_match_is_block_membership.

Theorem C13_ip_cross_family : forall a b f x g net n,
  parse_addr a = Some (f, x) -> parse_network b = Some (g, net, n) -> f <> g -> ip_match a b = Ok false.
Proof. exact ip_cross_family. Qed.
Print Assumptions C13_ip_cross_family.

(* the IPv4 statement of round 1 (its "no ':'" hypotheses are no longer needed) *)
Theorem C13_ip_iff : forall a b x net n,
  parse_ip4 a = Some x -> parse_net b = NetOk net n ->
  ip_match a b = Ok (x / 2 ^ (32 - n) =? net / 2 ^ (32 - n)).
Proof. exact ip_iff. Qed.
Print Assumptions C13_ip_iff.

Theorem C13_ip_doc_spec : forall a b, ip_doc a b = true -> ip_match a b = Ok (ip_spec a b).
Proof. exact ip_doc_spec. Qed.
Print Assumptions C13_ip_doc_spec.

Theorem C13_ip_bad_network : forall a b x,
  parse_ip4 a = Some x -> parse_net b = NetBad -> ip_match a b = Ok false.
Proof. exact ip_bad_network. Qed.
Print Assumptions C13_ip_bad_network.

Theorem C13_ip_not_network : forall a b f x,
  parse_addr a = Some (f, x) -> parse_network b = None -> ip_match a b = Ok false.
Proof. exact ip_not_network. Qed.
Print Assumptions C13_ip_not_network.

Theorem C13_ip_bad_address : forall a b, parse_addr a = None -> ip_match a b = Err EValue.
Proof. exact ip_bad_address. Qed.
Print Assumptions C13_ip_bad_address.

(* parsed values are in range: an address of family f is below 2^W, a prefix length is at most W *)
Theorem C13_ip_parse_ranges : forall s f x net n,
  (parse_addr s = Some (f, x) -> x < 2 ^ width f) /\
  (parse_network s = Some (f, net, n) -> n <= width f /\ net < 2 ^ width f).
Proof. intros s f x net n. split; [apply parse_addr_bound|apply parse_network_ok]. Qed.
Print Assumptions C13_ip_parse_ranges.

(* IPv4 network written address/netmask or address/hostmask: the mask 2^32 - 2^(32-n) and, for 0 < n < 32,
   the mask 2^(32-n) - 1 denote /n (so 0.0.0.0 is /0 and 255.255.255.255 is /32) *)
Theorem C13_ip4_netmask_hostmask : forall a nt mt x net m n,
  parse_ip4 a = Some x -> parse_ip4 nt = Some net -> parse_ip4 mt = Some m ->
  (n <= 32 /\ m = 2 ^ 32 - 2 ^ (32 - n)) \/ (0 < n < 32 /\ m = 2 ^ (32 - n) - 1) ->
  ip_match a (nt ++ cSLASH :: mt) = Ok (x / 2 ^ (32 - n) =? net / 2 ^ (32 - n)).
Proof. exact ip4_mask_iff. Qed.
Print Assumptions C13_ip4_netmask_hostmask.

(* a dotted quad that is neither a netmask nor a hostmask (ones and zeroes intermingled) is no mask *)
Theorem C13_ip4_mask_rejected : forall a nt mt x m,
  parse_ip4 a = Some x -> parse_ip4 mt = Some m ->
  (forall n, n <= 32 -> m <> 2 ^ 32 - 2 ^ (32 - n) /\ m <> 2 ^ (32 - n) - 1) ->
  ip_match a (nt ++ cSLASH :: mt) = Ok false.
Proof. exact ip4_mask_rejected. Qed.
Print Assumptions C13_ip4_mask_rejected.

Theorem C13_ip4_mask_denotes : forall m p, m < 2 ^ 32 -> prefix_from_mask_int m = Some p ->
  p <= 32 /\ (m = 2 ^ 32 - 2 ^ (32 - p) \/ m = 2 ^ (32 - p) - 1).
Proof. exact mask_int_sound. Qed.
Print Assumptions C13_ip4_mask_denotes.

(* IPv6 text is insensitive to spelling.  Group texts pre, then '::', then group texts post, optionally
   ending in a dotted quad: whatever the case of the hex digits, however many leading zeros (a group text
   is any t with parse_hextet t = Some v), wherever the '::' stands and however many (>= 1) zero groups it
   stands for, the text denotes the integer of the groups  pre, zeros, post, quad. *)
Theorem C13_ip6_text_insensitive : forall pre post tl vpre vpost vtl,
  Forall2 (fun t v => parse_hextet t = Some v) pre vpre ->
  Forall2 (fun t v => parse_hextet t = Some v) post vpost -> tail_text tl vtl ->
  (length pre + length post + length vtl < 8)%nat ->
  let x := compose 0 (vpre ++ repeat 0 (8 - (length pre + length post + length vtl)) ++ vpost ++ vtl) in
  parse_ip6 (text6_dc pre (post ++ tl)) = Some x /\
  parse_addr (text6_dc pre (post ++ tl)) = Some (V6, x) /\
  parse_network (text6_dc pre (post ++ tl)) = Some (V6, x, 128).
Proof.
  intros pre post tl vpre vpost vtl H1 H2 H3 H4 x.
  split; [exact (ip6_text_dc _ _ _ _ _ _ H1 H2 H3 H4)|exact (addr6_text_dc _ _ _ _ _ _ H1 H2 H3 H4)].
Qed.
Print Assumptions C13_ip6_text_insensitive.

(* ... and without '::' : eight groups, the last two possibly as a dotted quad *)
Theorem C13_ip6_text_insensitive_plain : forall gs tl vgs vtl,
  Forall2 (fun t v => parse_hextet t = Some v) gs vgs -> tail_text tl vtl -> (length gs + length vtl = 8)%nat ->
  parse_ip6 (join cCOLON (gs ++ tl)) = Some (compose 0 (vgs ++ vtl)) /\
  parse_addr (join cCOLON (gs ++ tl)) = Some (V6, compose 0 (vgs ++ vtl)) /\
  parse_network (join cCOLON (gs ++ tl)) = Some (V6, compose 0 (vgs ++ vtl), 128).
Proof.
  intros gs tl vgs vtl H1 H2 H3.
  split; [exact (ip6_text_plain _ _ _ _ H1 H2 H3)|exact (addr6_text_plain _ _ _ _ H1 H2 H3)].
Qed.
Print Assumptions C13_ip6_text_insensitive_plain.

(* group texts: case does not matter, leading zeros do not matter, '%x' renderings read back *)
Theorem C13_ip6_hextet_case : forall t, parse_hextet (map swapcase t) = parse_hextet t.
Proof. exact hextet_case. Qed.
Print Assumptions C13_ip6_hextet_case.

Theorem C13_ip6_hextet_leading_zero : forall t v, parse_hextet t = Some v -> (length t < 4)%nat ->
  parse_hextet (48 :: t) = Some v.
Proof. exact hextet_leading_zero. Qed.
Print Assumptions C13_ip6_hextet_leading_zero.

Theorem C13_ip6_hextet_render : forall v, v < 65536 ->
  parse_hextet (hex4 v) = Some v /\ parse_hextet (hex_of v) = Some v.
Proof. intros v H. split; [apply hex4_text|apply hex_of_text]; exact H. Qed.
Print Assumptions C13_ip6_hextet_render.

(* every 128-bit integer, written in full (8 x 4 hex digits) or in the RFC 5952 canonical form
   (= str(IPv6Address(n)): longest run of >= 2 zero groups compressed, leftmost among equals), reads back as itself *)
Theorem C13_ip6_render_roundtrip : forall n, n < 2 ^ 128 ->
  parse_ip6 (render6_full n) = Some n /\ parse_ip6 (render6_compressed n) = Some n.
Proof. intros n H. split; [apply ip6_render_full|apply ip6_render_compressed]; exact H. Qed.
Print Assumptions C13_ip6_render_roundtrip.

Theorem C13_ip6_render_match : forall x net, x < 2 ^ 128 -> net < 2 ^ 128 ->
  ip_match (render6_compressed x) (render6_full net) = Ok (x =? net) /\
  ip_match (render6_full x) (render6_compressed net) = Ok (x =? net).
Proof. exact ip6_render_match. Qed.
Print Assumptions C13_ip6_render_match.

(* the answer depends on the two texts only through what they denote *)
Theorem C13_ip_match_ext : forall a a' b b',
  parse_addr a = parse_addr a' -> parse_network b = parse_network b' -> ip_match a b = ip_match a' b'.
Proof. exact ip_match_ext. Qed.
Print Assumptions C13_ip_match_ext.

(* ---------------------------------------------------------------- non-vacuity *)
(* "/foo/bar" against "/foo/*" : key_match true, key_get "bar" *)
Example C13_example_key_get :
  key_match [47;102;111;111;47;98;97;114] [47;102;111;111;47;42] = true /\
  key_get [47;102;111;111;47;98;97;114] [47;102;111;111;47;42] = [98;97;114].
Proof. vm_compute. split; reflexivity. Qed.

(* "/p/:id/*" is documented for keyMatch2, "/p/{id}/*" for keyMatch3/5; "/p/7/x/y" matches, "/p/7" does not;
   key_get2 binds id to "7" *)
Example C13_example_km :
  doc2 [47;112;47;58;105;100;47;42] = true /\ doc3 [47;112;47;123;105;100;125;47;42] = true /\
  doc5 [47;112;47;123;105;100;125;47;42] = true /\
  key_match2 [47;112;47;55;47;120;47;121] [47;112;47;58;105;100;47;42] = Ok true /\
  key_match2 [47;112;47;55] [47;112;47;58;105;100;47;42] = Ok false /\
  key_match3 [47;112;47;55;47;120;47;121] [47;112;47;123;105;100;125;47;42] = Ok true /\
  key_match5 [47;112;47;55;47;120;63;113;61;47] [47;112;47;123;105;100;125;47;42] = Ok true /\
  get2_doc (tokens2 [47;112;47;58;105;100;47;42]) = true /\
  key_get2 [47;112;47;55;47;120;47;121] [47;112;47;58;105;100;47;42] [105;100] = Ok [55].
Proof. vm_compute. repeat split; reflexivity. Qed.

(* "/a/{x}/b/{x}" : "/a/1/b/1" matches, "/a/1/b/2" does not *)
Example C13_example_km4 :
  wf4 (tokens5 [47;97;47;123;120;125;47;98;47;123;120;125]) = true /\
  star_last (tokens5 [47;97;47;123;120;125;47;98;47;123;120;125]) = true /\
  key_match4 [47;97;47;49;47;98;47;49] [47;97;47;123;120;125;47;98;47;123;120;125] = Ok true /\
  key_match4 [47;97;47;49;47;98;47;50] [47;97;47;123;120;125;47;98;47;123;120;125] = Ok false.
Proof. vm_compute. repeat split; reflexivity. Qed.

(* glob: "/foobar" ~ "/foo[!x-z]*r", "a/b" !~ "a*b", "aXc" !~ "a*b" *)
Example C13_example_glob :
  glob_match [47;102;111;111;98;97;114] [47;102;111;111;91;33;120;45;122;93;42;114] = Ok true /\
  glob_match [97;47;98] [97;42;98] = Ok false /\
  glob_match [97;88;99] [97;42;98] = Ok false.
Proof. vm_compute. repeat split; reflexivity. Qed.

(* 192.168.2.123 in 192.168.2.0/24, not in 192.168.3.0/24 *)
Example C13_example_ip :
  ip_doc [49;57;50;46;49;54;56;46;50;46;49;50;51] [49;57;50;46;49;54;56;46;50;46;48;47;50;52] = true /\
  ip_match [49;57;50;46;49;54;56;46;50;46;49;50;51] [49;57;50;46;49;54;56;46;50;46;48;47;50;52] = Ok true /\
  ip_match [49;57;50;46;49;54;56;46;50;46;49;50;51] [49;57;50;46;49;54;56;46;51;46;48;47;50;52] = Ok false.
Proof. vm_compute. repeat split; reflexivity. Qed.

(* "2001:db8::1" in "2001:DB8::/32", "2001:db9::1" not; "2001:DB8::1" = "2001:0db8:0:0:0:0:0:1" = "2001:db8::0.0.0.1"
   = 42540766411282592856903984951653826561, whose canonical form is "2001:db8::1";
   "1.2.3.4" is not in "::ffff:1.2.3.4/96" and "::ffff:1.2.3.4" is not in "1.2.3.4/0" (families differ) *)
Example C13_example_ip6 :
  ip_doc [50;48;48;49;58;100;98;56;58;58;49] [50;48;48;49;58;68;66;56;58;58;47;51;50] = true /\
  ip_match [50;48;48;49;58;100;98;56;58;58;49] [50;48;48;49;58;68;66;56;58;58;47;51;50] = Ok true /\
  ip_match [50;48;48;49;58;100;98;57;58;58;49] [50;48;48;49;58;68;66;56;58;58;47;51;50] = Ok false /\
  parse_ip6 [50;48;48;49;58;68;66;56;58;58;49] = Some 42540766411282592856903984951653826561 /\
  parse_ip6 [50;48;48;49;58;48;100;98;56;58;48;58;48;58;48;58;48;58;48;58;49] = Some 42540766411282592856903984951653826561 /\
  parse_ip6 [50;48;48;49;58;100;98;56;58;58;48;46;48;46;48;46;49] = Some 42540766411282592856903984951653826561 /\
  render6_compressed 42540766411282592856903984951653826561 = [50;48;48;49;58;100;98;56;58;58;49] /\
  ip_match [50;48;48;49;58;48;68;66;56;58;48;58;48;58;48;58;48;58;48;58;49] [50;48;48;49;58;100;98;56;58;58;48;46;48;46;48;46;49] = Ok true /\
  ip_doc [49;46;50;46;51;46;52] [58;58;102;102;102;102;58;49;46;50;46;51;46;52;47;57;54] = true /\
  ip_match [49;46;50;46;51;46;52] [58;58;102;102;102;102;58;49;46;50;46;51;46;52;47;57;54] = Ok false /\
  ip_match [58;58;102;102;102;102;58;49;46;50;46;51;46;52] [49;46;50;46;51;46;52;47;48] = Ok false /\
  ip_match [58;58;102;102;102;102;58;49;46;50;46;51;46;52] [58;58;102;102;102;102;58;49;48;50;58;51;48;52] = Ok true.
Proof. vm_compute. repeat split; reflexivity. Qed.

(* the hypotheses of C13_ip6_text_insensitive are satisfiable: pre = ["2001";"DB8"], post = ["00a"], tail "1.2.3.4"
   is the text "2001:DB8::00a:1.2.3.4" *)
Example C13_example_ip6_text :
  Forall2 (fun t v => parse_hextet t = Some v) [[50;48;48;49]; [68;66;56]] [8193; 3512] /\
  Forall2 (fun t v => parse_hextet t = Some v) [[48;48;97]] [10] /\
  tail_text [[49;46;50;46;51;46;52]] [16909060 / 65536; 16909060 mod 65536] /\
  text6_dc [[50;48;48;49]; [68;66;56]] ([[48;48;97]] ++ [[49;46;50;46;51;46;52]]) = [50;48;48;49;58;68;66;56;58;58;48;48;97;58;49;46;50;46;51;46;52].
Proof.
  split; [repeat constructor|]. split; [repeat constructor|]. split; [apply TT_quad; vm_compute; reflexivity|].
  vm_compute. reflexivity.
Qed.

(* netmask, hostmask, the ambiguous masks, a non-contiguous mask *)
Example C13_example_ip4_masks :
  ip_match [49;48;46;49;46;50;46;51] [49;48;46;48;46;48;46;48;47;50;53;53;46;48;46;48;46;48] = Ok true /\
  ip_match [49;49;46;49;46;50;46;51] [49;48;46;48;46;48;46;48;47;50;53;53;46;48;46;48;46;48] = Ok false /\
  ip_match [49;48;46;49;46;50;46;51] [49;48;46;48;46;48;46;48;47;48;46;50;53;53;46;50;53;53;46;50;53;53] = Ok true /\
  ip_match [49;49;46;49;46;50;46;51] [49;48;46;48;46;48;46;48;47;48;46;50;53;53;46;50;53;53;46;50;53;53] = Ok false /\
  ip_match [49;49;46;49;46;50;46;51] [49;48;46;48;46;48;46;48;47;48;46;48;46;48;46;48] = Ok true /\
  ip_match [49;48;46;48;46;48;46;49] [49;48;46;48;46;48;46;48;47;50;53;53;46;50;53;53;46;50;53;53;46;50;53;53] = Ok false /\
  ip_match [49;48;46;49;46;50;46;51] [49;48;46;49;46;50;46;51;47;50;53;53;46;48;46;50;53;53;46;48] = Ok false /\
  ip_doc [49;48;46;49;46;50;46;51] [49;48;46;48;46;48;46;48;47;48;46;50;53;53;46;50;53;53;46;50;53;53] = true /\
  ip_doc [49;48;46;49;46;50;46;51] [49;48;46;49;46;50;46;51;47;50;53;53;46;48;46;50;53;53;46;48] = false.
Proof. vm_compute. repeat split; reflexivity. Qed.

(* ---------------------------------------------------------------------------------------------------------------
   Of the SOURCE: key_match and key_get (casbin/util/builtin_operators.py) - the two built-in functions that are plain
   string code - are re-translated on every run into programs of the language of StrLang.v (coq/gen/KeyMatchGen.v);
   StrTie.v proves that the interpreter run on them computes KeyMatch.key_match / key_get, the functions
   C13_key_match_iff and the key_get theorems above are about, for every key and every pattern.  (The other built-ins go
   through `re` / `ipaddress`; for them the tie is the differential correspondence of the check.) *)
From PyCasbin Require StrLang StrTie.
From PyCasbinGen Require KeyMatchGen.

Theorem C13_source_key_match : forall k p, StrTie.run_key_match k p = Ok (StrLang.SVB (key_match k p)).
Proof. exact StrTie.tie_key_match. Qed.
Print Assumptions C13_source_key_match.

Theorem C13_source_key_get : forall k p, StrTie.run_key_get k p = Ok (StrLang.SVS (key_get k p)).
Proof. exact StrTie.tie_key_get. Qed.
Print Assumptions C13_source_key_get.

(* hence, of the regenerated source: keyMatch answers True exactly for the documented language *)
Theorem C13_source_key_match_iff : forall k p, StrTie.run_key_match k p = Ok (StrLang.SVB true) <-> km_lang p k.
Proof.
  intros k p. rewrite StrTie.tie_key_match, <- key_match_iff.
  split; [intro H; inversion H; reflexivity | intros ->; reflexivity].
Qed.
Print Assumptions C13_source_key_match_iff.

(* range_match (the bracket classes of glob_match), regenerated from the source on this run and executed by the interpreter of
   IdxLang.v: called on a pattern at the position just after a '[' (whatever precedes it), the source function returns -1
   exactly when the model's range_match says "no match" and otherwise the index at which the model's remaining suffix
   starts.  The first tie through a `while True:` loop with break; the fuel 38 + |p| always suffices. *)
From Coq Require Import ZArith Arith.
From PyCasbin Require IdxLang IdxTie.
From PyCasbinGen Require RangeMatchGen.

Theorem C13_source_range_match : forall pre p t,
  IdxLang.xrun (38 + length p) RangeMatchGen.range_match_params RangeMatchGen.range_match_locals RangeMatchGen.range_match_gen
       [IdxLang.XS (pre ++ p); IdxLang.XZ (Z.of_nat (length pre)); IdxLang.XS [t]] =
  IdxTie.range_match_result (length (pre ++ p)) (range_match p t).
Proof. exact IdxTie.tie_range_match. Qed.
Print Assumptions C13_source_range_match.

(* ... and on a class in its documented form the regenerated function returns the index just after the closing bracket
   exactly when the character belongs to the class (xor negation), -1 otherwise *)
Theorem C13_source_range_match_class_doc : forall pre neg items rest t, forallb citem_ok items = true ->
  IdxLang.xrun (38 + length (class_text neg items ++ rest)) RangeMatchGen.range_match_params RangeMatchGen.range_match_locals
       RangeMatchGen.range_match_gen
       [IdxLang.XS (pre ++ class_text neg items ++ rest); IdxLang.XZ (Z.of_nat (length pre)); IdxLang.XS [t]] =
  Ok (IdxLang.XZ (if xorb (existsb (citem_has t) items) neg then Z.of_nat (length (pre ++ class_text neg items)) else (-1)%Z)).
Proof. exact IdxTie.tie_range_match_doc. Qed.
Print Assumptions C13_source_range_match_class_doc.

Example C13_source_range_example :
  (* "[a-c]x" at index 1 on 'b' -> 5 ; on 'd' -> -1 ; "[!a]" at 1 on 'b' -> 4 *)
  IdxLang.xrun 60 RangeMatchGen.range_match_params RangeMatchGen.range_match_locals RangeMatchGen.range_match_gen
       [IdxLang.XS [91;97;45;99;93;120]; IdxLang.XZ 1; IdxLang.XS [98]] = Ok (IdxLang.XZ 5)
  /\ IdxLang.xrun 60 RangeMatchGen.range_match_params RangeMatchGen.range_match_locals RangeMatchGen.range_match_gen
       [IdxLang.XS [91;97;45;99;93;120]; IdxLang.XZ 1; IdxLang.XS [100]] = Ok (IdxLang.XZ (-1))
  /\ IdxLang.xrun 60 RangeMatchGen.range_match_params RangeMatchGen.range_match_locals RangeMatchGen.range_match_gen
       [IdxLang.XS [91;33;97;93]; IdxLang.XZ 1; IdxLang.XS [98]] = Ok (IdxLang.XZ 4).
Proof. vm_compute. repeat split; reflexivity. Qed.

(* glob_match itself, regenerated from the source on this run and executed by the interpreter of GlobLang.v (its calls to
   range_match executed by IdxLang's interpreter on the regenerated range_match, its recursive calls by the same interpreter
   with one unit less fuel): for every string and pattern, from some fuel on the run returns exactly the model's boolean -
   hence True exactly on the denotational glob language. *)
From PyCasbin Require GlobLang GlobTie.
From PyCasbinGen Require GlobMatchGen.

Theorem C13_source_glob_match : forall s p,
  exists b, glob_match s p = Ok b /\
  exists N, forall n, (N <= n)%nat -> GlobLang.grun GlobTie.D n [IdxLang.XS s; IdxLang.XS p] = Ok (IdxLang.XB b).
Proof. exact GlobTie.tie_glob_match. Qed.
Print Assumptions C13_source_glob_match.

Theorem C13_source_glob_match_iff : forall s p,
  (exists N, forall n, (N <= n)%nat -> GlobLang.grun GlobTie.D n [IdxLang.XS s; IdxLang.XS p] = Ok (IdxLang.XB true)) <-> glob_lang p s.
Proof.
  intros s p. destruct (GlobTie.tie_glob_match s p) as (b & Hb & N & HN). rewrite <- glob_iff. split.
  - intros (N' & HN'). specialize (HN (max N N') (Nat.le_max_l _ _)). specialize (HN' (max N N') (Nat.le_max_r _ _)).
    rewrite HN in HN'. inversion HN'; subst b. exact Hb.
  - intro H. rewrite H in Hb. inversion Hb; subst b. exists N. exact HN.
Qed.
Print Assumptions C13_source_glob_match_iff.

Example C13_source_glob_example :
  (* "/a/*/[b-d]?" on "/a/xyz/cq" ; "*" never crosses "/" *)
  GlobLang.grun GlobTie.D 400 [IdxLang.XS [47;97;47;120;121;122;47;99;113]; IdxLang.XS [47;97;47;42;47;91;98;45;100;93;63]] = Ok (IdxLang.XB true)
  /\ GlobLang.grun GlobTie.D 400 [IdxLang.XS [47;97;47;120;47;121]; IdxLang.XS [47;97;47;42]] = Ok (IdxLang.XB false).
Proof. vm_compute. split; reflexivity. Qed.

Example C13_source_example :
  StrTie.run_key_match [47;102;111;111;47;98;97;114] [47;102;111;111;47;42] = Ok (StrLang.SVB true)
  /\ StrTie.run_key_match [47;102;111] [47;102;111;111;47;42] = Ok (StrLang.SVB false)
  /\ StrTie.run_key_get [47;102;111;111;47;98;97;114] [47;102;111;111;47;42] = Ok (StrLang.SVS [98;97;114]).
Proof. vm_compute. repeat split; reflexivity. Qed.
