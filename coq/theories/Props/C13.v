(* C13 — Built-in matching functions implement their documented pattern languages.
   Only statements here; proofs are `exact <lemma>`.  Models: KeyMatch.v Glob.v IpMatch.v
   (glob_match is the function WITH fixes/C13-glob-star.diff applied). *)
From Coq Require Import List NArith Bool.
From PyCasbin Require Import Base PatBase KeyMatch Glob IpMatch
  KeyMatchProofs GlobProofs IpMatchProofs.
Import ListNotations.
Local Open Scope N_scope.

(* ---------------------------------------------------------------- keyMatch / keyGet : every key, every pattern *)
Theorem C13_key_match_iff : forall k p, key_match k p = true <-> km_lang p k.
Proof. exact key_match_iff. Qed.
Print Assumptions C13_key_match_iff.

Theorem C13_key_get_is_remainder : forall k pre suf, ~ In cSTAR pre ->
  key_match k (pre ++ cSTAR :: suf) = true ->
  k = pre ++ key_get k (pre ++ cSTAR :: suf).
Proof. exact key_get_is_remainder. Qed.
Print Assumptions C13_key_get_is_remainder.

Theorem C13_key_get_no_match : forall k p, key_match k p = false -> key_get k p = [].
Proof. exact key_get_no_match. Qed.
Print Assumptions C13_key_get_no_match.

(* ---------------------------------------------------------------- globMatch (repaired): every string, every pattern *)
Theorem C13_glob_total : forall s p, exists b, glob_match s p = Ok b.
Proof. exact glob_total. Qed.
Print Assumptions C13_glob_total.

Theorem C13_glob_iff : forall s p, glob_match s p = Ok true <-> glob_lang p s.
Proof. exact glob_iff. Qed.
Print Assumptions C13_glob_iff.

Theorem C13_glob_is_spec : forall s p, glob_match s p = Ok (gspec p s).
Proof. exact glob_match_is_gspec. Qed.
Print Assumptions C13_glob_is_spec.

Theorem C13_glob_class_doc : forall neg items rest t, forallb citem_ok items = true ->
  range_match (class_text neg items ++ rest) t
  = Ok (if xorb (existsb (citem_has t) items) neg then Some rest else None).
Proof. exact class_doc. Qed.
Print Assumptions C13_glob_class_doc.

(* the function as it stands in the unrepaired tree accepts strings outside the language and
   rejects strings inside it (finding F13) *)
Theorem C13_glob_unrepaired_refuted :
  (exists s p, glob_match_unrepaired s p = Ok true /\ ~ glob_lang p s) /\
  (exists s p, glob_match_unrepaired s p = Ok false /\ glob_lang p s).
Proof. exact glob_unrepaired_refuted. Qed.
Print Assumptions C13_glob_unrepaired_refuted.

(* ---------------------------------------------------------------- ipMatch: IPv4 address in address / CIDR block *)
Theorem C13_ip_iff : forall a b x net n,
  has_colon a = false -> has_colon b = false ->
  parse_ip4 a = Some x -> parse_net b = NetOk net n ->
  ip_match a b = Ok (x / 2 ^ (32 - n) =? net / 2 ^ (32 - n)).
Proof. exact ip_iff. Qed.
Print Assumptions C13_ip_iff.

Theorem C13_ip_doc_spec : forall a b, ip_doc a b = true -> ip_match a b = Ok (ip_spec a b).
Proof. exact ip_doc_spec. Qed.
Print Assumptions C13_ip_doc_spec.

Theorem C13_ip_bad_network : forall a b x,
  has_colon a = false -> has_colon b = false -> parse_ip4 a = Some x -> parse_net b = NetBad ->
  ip_match a b = Ok false.
Proof. exact ip_bad_network. Qed.
Print Assumptions C13_ip_bad_network.

(* ---------------------------------------------------------------- non-vacuity *)
(* "/foo/bar" against "/foo/*" : key_match true, key_get "bar" *)
Example C13_example_key_get :
  key_match [47;102;111;111;47;98;97;114] [47;102;111;111;47;42] = true /\
  key_get [47;102;111;111;47;98;97;114] [47;102;111;111;47;42] = [98;97;114].
Proof. vm_compute. split; reflexivity. Qed.

(* glob: "/foobar" ~ "/foo[!x-z]*r", "a/b" !~ "a*b", "aXc" !~ "a*b" *)
Example C13_example_glob :
  glob_match [47;102;111;111;98;97;114] [47;102;111;111;91;33;120;45;122;93;42;114] = Ok true /\
  glob_match [97;47;98] [97;42;98] = Ok false /\
  glob_match [97;88;99] [97;42;98] = Ok false.
Proof. vm_compute. repeat split; reflexivity. Qed.

(* 192.168.2.123 in 192.168.2.0/24, not in 192.168.3.0/24 *)
Example C13_example_ip :
  ip_doc [49;57;50;46;49;54;56;46;50;46;49;50;51] [49;57;50;46;49;54;56;46;50;46;48;47;50;52] = true /\
  ip_match [49;57;50;46;49;54;56;46;50;46;49;50;51] [49;57;50;46;49;54;56;46;50;46;48;47;50;52] = Ok true /\
  ip_match [49;57;50;46;49;54;56;46;50;46;49;50;51] [49;57;50;46;49;54;56;46;51;46;48;47;50;52] = Ok false.
Proof. vm_compute. repeat split; reflexivity. Qed.
