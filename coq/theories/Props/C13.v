(* C13 — Built-in matching functions implement their documented pattern languages.
   Only statements here; proofs are `exact <lemma>`.  Models: KeyMatch.v Glob.v IpMatch.v
   (glob_match is the function WITH fixes/C13-glob-star.diff applied); specs: km_lang, seg_lang
   over Lit | Seg | Rest items, bindd/inst (KeyBind.v), glob_lang, block arithmetic.
   Documented form = the boolean predicates doc2 doc3 doc5 (strings), wf2 wf4 star_last (tokens),
   citem_ok (classes), ip_doc; keys without newline (key_ok). *)
From Coq Require Import List NArith Bool.
From PyCasbin Require Import Base PatBase KeyMatch KeyBind Glob IpMatch
  KeyMatchProofs KeyMatchRegexProofs KeyBindProofs GlobProofs IpMatchProofs.
Import ListNotations.
Local Open Scope N_scope.

(* ---------------------------------------------------------------- keyMatch / keyGet : every key, every pattern *)
Theorem C13_key_match_iff : forall k p, key_match k p = true <-> km_lang p k.
Proof. exact key_match_iff. Qed.
Print Assumptions C13_key_match_iff.

Theorem C13_key_get_is_remainder : forall k pre suf, ~ In cSTAR pre ->
  key_match k (pre ++ cSTAR :: suf) = true ->
  k = pre ++ key_get k (pre ++ cSTAR :: suf).
Proof. exact key_get_is_remainder. Qed.
Print Assumptions C13_key_get_is_remainder.

Theorem C13_key_get_no_match : forall k p, key_match k p = false -> key_get k p = [].
Proof. exact key_get_no_match. Qed.
Print Assumptions C13_key_get_no_match.

(* ---------------------------------------------------------------- keyMatch2/3/5 : every documented-form pattern, every key
   (the modelled pipeline replace -> re.sub -> regex parse -> backtracking match is the segment language) *)
Theorem C13_seg_match_iff : forall its s, seg_match its s = true <-> seg_lang its s.
Proof. exact seg_match_iff. Qed.
Print Assumptions C13_seg_match_iff.

Theorem C13_km2_iff : forall p k, doc2 p = true -> key_ok k = true ->
  key_match2 k p = Ok (seg_match (parse2 p) k).
Proof. exact km2_iff. Qed.
Print Assumptions C13_km2_iff.

Theorem C13_km2_star : forall k, key_ok k = true -> key_match2 k [cSTAR] = Ok true.
Proof. exact km2_star. Qed.
Print Assumptions C13_km2_star.

Theorem C13_km3_iff : forall p k, doc3 p = true -> key_ok k = true ->
  key_match3 k p = Ok (seg_match (parse3 p) k).
Proof. exact km3_iff. Qed.
Print Assumptions C13_km3_iff.

(* keyMatch5 ignores the query string *)
Theorem C13_km5_iff : forall p k, doc5 p = true -> key_ok k = true ->
  key_match5 k p = Ok (seg_match (parse5 p) (before_qm k)).
Proof. exact km5_iff. Qed.
Print Assumptions C13_km5_iff.

(* the same three on token lists: the documented form is the image of render on well-formed tokens *)
Theorem C13_km2_tokens : forall t k, wf2 t = true -> no_nl k ->
  key_match2 k (render false t) = Ok (seg_match (items_of t) k).
Proof. exact km2_tokens. Qed.
Print Assumptions C13_km2_tokens.

Theorem C13_km3_tokens : forall t k, wf3 t = true -> no_nl k ->
  key_match3 k (render true t) = Ok (seg_match (items_of t) k).
Proof. exact km3_tokens. Qed.
Print Assumptions C13_km3_tokens.

Theorem C13_km5_tokens : forall t k, wf5 t = true -> no_nl k ->
  key_match5 k (render true t) = Ok (seg_match (items_of t) (before_qm k)).
Proof. exact km5_tokens. Qed.
Print Assumptions C13_km5_tokens.

(* ---------------------------------------------------------------- keyGet2 / keyMatch4 : '/'-delimited variables, final '/*'
   (the decomposition of the key is then unique: bindd) *)
Theorem C13_key_get2_binds_partial : forall t k v, get2_doc t = true -> no_nl k ->
  key_get2 k (render false t) v = Ok (get2_spec t k v).
Proof. exact key_get2_tokens. Qed.
Print Assumptions C13_key_get2_binds_partial.

Theorem C13_km4_iff_partial : forall t k, wf4 t = true -> star_last t = true -> no_nl k ->
  key_match4 k (render true t) = Ok (km4_bind_spec t k).
Proof. exact key_match4_tokens. Qed.
Print Assumptions C13_km4_iff_partial.

(* the same two on strings *)
Theorem C13_key_get2_iff_partial : forall p k v, get2_docs p = true -> key_ok k = true ->
  key_get2 k p v = Ok (get2_spec (tokens2 p) k v).
Proof. exact key_get2_iff. Qed.
Print Assumptions C13_key_get2_iff_partial.

Theorem C13_km4_string_iff_partial : forall p k, doc4s p = true -> key_ok k = true ->
  key_match4 k p = Ok (km4_bind_spec (tokens5 p) k).
Proof. exact km4_iff. Qed.
Print Assumptions C13_km4_string_iff_partial.

(* key_match4's dict loop = repeated names bound to equal texts *)
Theorem C13_km4_consistent : forall names vals, km4_check names vals [] = consistent names vals.
Proof. exact km4_consistent. Qed.
Print Assumptions C13_km4_consistent.

(* bindd t k = Some vs exactly when k is the pattern with the segment texts vs written for its variables *)
Theorem C13_bindd_complete : forall t vs tail, wf2 t = true -> star_last t = true ->
  length vs = length (var_names t) -> Forall is_seg vs ->
  bindd t (inst t vs tail) = Some vs.
Proof. exact bindd_complete. Qed.
Print Assumptions C13_bindd_complete.

Theorem C13_bindd_sound : forall t k vs, star_last t = true -> bindd t k = Some vs ->
  exists tail, k = inst t vs tail /\ Forall is_seg vs.
Proof. exact bindd_sound. Qed.
Print Assumptions C13_bindd_sound.

(* ---------------------------------------------------------------- globMatch (repaired): every string, every pattern *)
Theorem C13_glob_total : forall s p, exists b, glob_match s p = Ok b.
Proof. exact glob_total. Qed.
Print Assumptions C13_glob_total.

Theorem C13_glob_iff : forall s p, glob_match s p = Ok true <-> glob_lang p s.
Proof. exact glob_iff. Qed.
Print Assumptions C13_glob_iff.

Theorem C13_glob_is_spec : forall s p, glob_match s p = Ok (gspec p s).
Proof. exact glob_match_is_gspec. Qed.
Print Assumptions C13_glob_is_spec.

Theorem C13_glob_class_doc : forall neg items rest t, forallb citem_ok items = true ->
  range_match (class_text neg items ++ rest) t
  = Ok (if xorb (existsb (citem_has t) items) neg then Some rest else None).
Proof. exact class_doc. Qed.
Print Assumptions C13_glob_class_doc.

(* the function as it stands in the unrepaired tree accepts strings outside the language and
   rejects strings inside it (finding C13/glob-star) *)
Theorem C13_glob_unrepaired_refuted :
  (exists s p, glob_match_unrepaired s p = Ok true /\ ~ glob_lang p s) /\
  (exists s p, glob_match_unrepaired s p = Ok false /\ glob_lang p s).
Proof. exact glob_unrepaired_refuted. Qed.
Print Assumptions C13_glob_unrepaired_refuted.

(* ---------------------------------------------------------------- ipMatch: IPv4 address in address / CIDR block *)
Theorem C13_ip_iff : forall a b x net n,
  has_colon a = false -> has_colon b = false ->
  parse_ip4 a = Some x -> parse_net b = NetOk net n ->
  ip_match a b = Ok (x / 2 ^ (32 - n) =? net / 2 ^ (32 - n)).
Proof. exact ip_iff. Qed.
Print Assumptions C13_ip_iff.

Theorem C13_ip_doc_spec : forall a b, ip_doc a b = true -> ip_match a b = Ok (ip_spec a b).
Proof. exact ip_doc_spec. Qed.
Print Assumptions C13_ip_doc_spec.

Theorem C13_ip_bad_network : forall a b x,
  has_colon a = false -> has_colon b = false -> parse_ip4 a = Some x -> parse_net b = NetBad ->
  ip_match a b = Ok false.
Proof. exact ip_bad_network. Qed.
Print Assumptions C13_ip_bad_network.

(* ---------------------------------------------------------------- non-vacuity *)
(* "/foo/bar" against "/foo/*" : key_match true, key_get "bar" *)
Example C13_example_key_get :
  key_match [47;102;111;111;47;98;97;114] [47;102;111;111;47;42] = true /\
  key_get [47;102;111;111;47;98;97;114] [47;102;111;111;47;42] = [98;97;114].
Proof. vm_compute. split; reflexivity. Qed.

(* "/p/:id/*" is documented for keyMatch2, "/p/{id}/*" for keyMatch3/5; "/p/7/x/y" matches, "/p/7" does not;
   key_get2 binds id to "7" *)
Example C13_example_km :
  doc2 [47;112;47;58;105;100;47;42] = true /\ doc3 [47;112;47;123;105;100;125;47;42] = true /\
  doc5 [47;112;47;123;105;100;125;47;42] = true /\
  key_match2 [47;112;47;55;47;120;47;121] [47;112;47;58;105;100;47;42] = Ok true /\
  key_match2 [47;112;47;55] [47;112;47;58;105;100;47;42] = Ok false /\
  key_match3 [47;112;47;55;47;120;47;121] [47;112;47;123;105;100;125;47;42] = Ok true /\
  key_match5 [47;112;47;55;47;120;63;113;61;47] [47;112;47;123;105;100;125;47;42] = Ok true /\
  get2_doc (tokens2 [47;112;47;58;105;100;47;42]) = true /\
  key_get2 [47;112;47;55;47;120;47;121] [47;112;47;58;105;100;47;42] [105;100] = Ok [55].
Proof. vm_compute. repeat split; reflexivity. Qed.

(* "/a/{x}/b/{x}" : "/a/1/b/1" matches, "/a/1/b/2" does not *)
Example C13_example_km4 :
  wf4 (tokens5 [47;97;47;123;120;125;47;98;47;123;120;125]) = true /\
  star_last (tokens5 [47;97;47;123;120;125;47;98;47;123;120;125]) = true /\
  key_match4 [47;97;47;49;47;98;47;49] [47;97;47;123;120;125;47;98;47;123;120;125] = Ok true /\
  key_match4 [47;97;47;49;47;98;47;50] [47;97;47;123;120;125;47;98;47;123;120;125] = Ok false.
Proof. vm_compute. repeat split; reflexivity. Qed.

(* glob: "/foobar" ~ "/foo[!x-z]*r", "a/b" !~ "a*b", "aXc" !~ "a*b" *)
Example C13_example_glob :
  glob_match [47;102;111;111;98;97;114] [47;102;111;111;91;33;120;45;122;93;42;114] = Ok true /\
  glob_match [97;47;98] [97;42;98] = Ok false /\
  glob_match [97;88;99] [97;42;98] = Ok false.
Proof. vm_compute. repeat split; reflexivity. Qed.

(* 192.168.2.123 in 192.168.2.0/24, not in 192.168.3.0/24 *)
Example C13_example_ip :
  ip_doc [49;57;50;46;49;54;56;46;50;46;49;50;51] [49;57;50;46;49;54;56;46;50;46;48;47;50;52] = true /\
  ip_match [49;57;50;46;49;54;56;46;50;46;49;50;51] [49;57;50;46;49;54;56;46;50;46;48;47;50;52] = Ok true /\
  ip_match [49;57;50;46;49;54;56;46;50;46;49;50;51] [49;57;50;46;49;54;56;46;51;46;48;47;50;52] = Ok false.
Proof. vm_compute. repeat split; reflexivity. Qed.
