(* C14 — Pattern role assignments grant their roles to exactly the names that match.
   Only statements here; proofs are `exact <lemma>`.  Model: PatternRM.v (RoleManager with a
   matching function, DomainManager with a domain matching function); the matching functions are
   arbitrary boolean functions [mf], [dmf] (what a concrete matcher answers is C13).

   Scope, as explicit booleans over the names and assignments of a history ([in_scope]):
     roles_plain — patterns occur in the FIRST position of assignments only: a name that matches
                   the role side of an assignment is that role (second-position patterns are
                   mirrored by the model, without theorem);
     mf_trans    — matching is transitive towards assignment users (x ~ p, p ~ u => x ~ u); needed,
                   see C14_transitivity_needed.
   Histories have any length; queries (which create Role objects and copy grants) may be
   interleaved anywhere.  "Within the depth bound" = paths of k < max_hierarchy_level grants. *)
From Coq Require Import List NArith Bool Arith.
From PyCasbin Require Import Base RoleGraph RoleGraphProofs PatternRM PatternRMProofs.
Import ListNotations.

Theorem C14_has_link_iff_grants : forall mf m h a b,
  no_deletes h = true -> in_scope mf (h ++ [PHas a b]) = true ->
  (fst (pm_has_link mf (pm_run mf (pm_empty m) h) a b) = true
   <-> exists k, k < m /\ path (grant mf (hist_adds h)) k a b).
Proof. exact has_link_iff_grants. Qed.
Print Assumptions C14_has_link_iff_grants.

(* whatever the order in which assignments were added and names were first queried *)
Theorem C14_order_independent : forall mf m h h' a b,
  no_deletes h = true -> no_deletes h' = true ->
  in_scope mf (h ++ [PHas a b]) = true -> in_scope mf (h' ++ [PHas a b]) = true ->
  (forall l, In l (hist_adds h) <-> In l (hist_adds h')) ->
  fst (pm_has_link mf (pm_run mf (pm_empty m) h) a b) = fst (pm_has_link mf (pm_run mf (pm_empty m) h') a b).
Proof. exact order_independent. Qed.
Print Assumptions C14_order_independent.

Theorem C14_matching_names_hold_the_role : forall mf m h a p r,
  no_deletes h = true -> in_scope mf (h ++ [PHas a r]) = true -> 2 <= m ->
  In (p, r) (hist_adds h) -> (a = p \/ mf a p = true) ->
  fst (pm_has_link mf (pm_run mf (pm_empty m) h) a r) = true.
Proof. exact matching_holds. Qed.
Print Assumptions C14_matching_names_hold_the_role.

Theorem C14_nonmatching_gain_nothing : forall mf m h a b,
  no_deletes h = true -> in_scope mf (h ++ [PHas a b]) = true ->
  (forall l, In l (hist_adds h) -> a <> fst l /\ mf a (fst l) = false) ->
  fst (pm_has_link mf (pm_run mf (pm_empty m) h) a b) = true -> a = b.
Proof. exact nonmatching_gain_nothing. Qed.
Print Assumptions C14_nonmatching_gain_nothing.

Theorem C14_spec_function_sound : forall mf L k a b,
  greach mf L k a b = true <-> exists j, j <= k /\ path (grant mf L) j a b.
Proof. exact greach_spec. Qed.
Print Assumptions C14_spec_function_sound.

(* "Removing a pattern assignment removes exactly the grants it gave" is FALSE of the current code
   when two assignments in force grant the same (name, role) pair to a name that is already known:
   deleting one removes the other's grant too, and deleting the other then raises KeyError
   (names 1, 2: patterns; 3: a name matching both; 4: a role) *)
Theorem C14_delete_exact_refuted :
  (let h := [PAdd 1 4; PAdd 2 4; PHas 3 4; PDel 2 4]%N in
   in_scope w_mf (h ++ [PHas 3 4; PDel 1 4])%N = true /\
   hist_links h = [(1, 4)]%N /\ greach w_mf (hist_links h) 1 3%N 4%N = true /\
   fst (pm_has_link w_mf (pm_run w_mf (pm_empty 10) h) 3 4)%N = false /\
   snd (pm_delete_link_x w_mf (pm_run w_mf (pm_empty 10) h) 1 4)%N = Some EKeyError) /\
  (let h := [PAdd 1 4; PAdd 3 4; PDel 1 4]%N in
   in_scope w_mf (h ++ [PHas 3 4])%N = true /\
   hist_links h = [(3, 4)]%N /\
   fst (pm_has_link w_mf (pm_run w_mf (pm_empty 10) h) 3 4)%N = false /\
   snd (pm_delete_link_x w_mf (pm_run w_mf (pm_empty 10) h) 3 4)%N = Some EKeyError) /\
  (let h := [PAdd 1 4; PAdd 3 4; PDel 3 4]%N in
   hist_links h = [(1, 4)]%N /\ greach w_mf (hist_links h) 1 3%N 4%N = true /\
   fst (pm_has_link w_mf (pm_run w_mf (pm_empty 10) h) 3 4)%N = false).
Proof. exact delete_exact_refuted. Qed.
Print Assumptions C14_delete_exact_refuted.

(* ... and TRUE for every history of adds, deletes and queries (any length, any order) in which, at
   each delete, no known name is granted the deleted assignment's role by it and by another
   assignment in force, and no assignment is added twice ([dels_guarded], a boolean evaluated along
   the history): no delete raises, and has_link is exactly the grants of the assignments in force *)
Theorem C14_delete_exact_partial : forall mf m h a b,
  in_scope mf (h ++ [PHas a b]) = true -> dels_guarded mf (pm_empty m) h = true ->
  pm_errs mf (pm_empty m) h = [] /\
  (fst (pm_has_link mf (pm_run mf (pm_empty m) h) a b) = true
   <-> exists k, k < m /\ path (grant mf (hist_links h)) k a b).
Proof. exact delete_exact_partial. Qed.
Print Assumptions C14_delete_exact_partial.

(* the guard separates the two: same operations, the query before or after the delete *)
Example C14_delete_guard_fails :
  dels_guarded w_mf (pm_empty 10) [PAdd 1 4; PAdd 2 4; PHas 3 4; PDel 2 4]%N = false /\
  dels_guarded w_mf (pm_empty 10) [PAdd 1 4; PAdd 2 4; PDel 2 4; PHas 3 4]%N = true.
Proof. exact delete_guard_fails. Qed.

(* mf_trans is needed: 3 ~ 2 ~ 1 but not 3 ~ 1; whether 3 holds role 4 depends on whether 2 was
   seen before 3 *)
Example C14_transitivity_needed :
  let h1 := [PAdd 1 4; PHas 2 4; PHas 3 4]%N in
  let h2 := [PAdd 1 4; PHas 3 4; PHas 2 4]%N in
  hist_adds h1 = hist_adds h2 /\
  roles_plain nt_mf (hist_names h1) (hist_adds h1) = true /\
  mf_trans nt_mf (hist_names h1) (hist_adds h1) = false /\
  fst (pm_has_link nt_mf (pm_run nt_mf (pm_empty 10) h1) 3 4)%N = true /\
  fst (pm_has_link nt_mf (pm_run nt_mf (pm_empty 10) h2) 3 4)%N = false.
Proof. exact transitivity_needed. Qed.

(* ---- domains: an assignment recorded for a domain pattern applies in exactly the domains that
        match it (and one recorded for a plain domain in exactly that domain) ---- *)
Theorem C14_domain_pattern_applies_exactly : forall mf dmf m h a b d,
  pdm_no_deletes h = true -> pdm_in_scope mf dmf (h ++ [QHas a b d]) = true ->
  (fst (pdm_has_link mf dmf (pdm_run mf dmf (pdm_empty m) h) a b d) = true
   <-> exists k, k < m /\ path (grant mf (pdm_adds_in dmf d h)) k a b).
Proof. exact domain_pattern_applies_exactly. Qed.
Print Assumptions C14_domain_pattern_applies_exactly.

(* deletion with domain patterns: the same defect (names 1 -> 2; domain 5 = d1, 6 = the pattern * ) *)
Theorem C14_domain_delete_refuted :
  let h := [QAdd 1 2 5; QHas 1 2 5; QAdd 1 2 6; QDel 1 2 6]%N in
  let s := pdm_run wd_mf wd_dmf (pdm_empty 10) h in
  pdm_in_scope wd_mf wd_dmf (h ++ [QHas 1 2 5])%N = true /\
  fst (pdm_has_link wd_mf wd_dmf (pdm_run wd_mf wd_dmf (pdm_empty 10) [QAdd 1 2 5; QHas 1 2 5; QAdd 1 2 6]%N) 1 2 5)%N = true /\
  pdm_own s 5%N = [(1, 2)]%N /\
  fst (pdm_has_link wd_mf wd_dmf s 1 2 5)%N = false /\
  snd (pdm_delete_link_x wd_mf wd_dmf s 1 2 5)%N = Some EKeyError.
Proof. exact domain_delete_refuted. Qed.
Print Assumptions C14_domain_delete_refuted.

Example C14_example_domain :
  let mf := table_mf [(1, 1); (2, 2); (3, 3)]%N in
  let dmf := table_mf [(5, 5); (6, 6); (7, 7); (8, 8); (5, 6); (7, 6); (8, 6); (5, 8)]%N in   (* 6 = *, 8 = d* *)
  let h := [QAdd 1 2 6; QHas 1 2 5; QAdd 2 3 8; QHas 1 3 7; QAdd 1 3 7]%N in
  pdm_no_deletes h = true /\ pdm_in_scope mf dmf (h ++ [QHas 1 3 5])%N = true /\
  fst (pdm_has_link mf dmf (pdm_run mf dmf (pdm_empty 10) h) 1 3 5)%N = true /\    (* d1 matches * and d* *)
  fst (pdm_has_link mf dmf (pdm_run mf dmf (pdm_empty 10) h) 2 3 7)%N = false /\   (* d2 does not match d* *)
  fst (pdm_has_link mf dmf (pdm_run mf dmf (pdm_empty 10) h) 1 3 7)%N = true /\    (* recorded for d2 itself *)
  fst (pdm_has_link mf dmf (pdm_run mf dmf (pdm_empty 10) h) 1 2 6)%N = true.      (* the pattern's own domain *)
Proof. vm_compute. repeat split; reflexivity. Qed.

(* non-vacuity: two patterns (one matching the other), three names, a role chain, queries
   interleaved; all hypotheses hold; answers computed *)
Example C14_example :
  let mf := table_mf [(5, 1); (6, 1); (5, 2); (6, 2); (7, 2); (1, 2)]%N in
  let h := [PHas 5 3; PAdd 1 3; PHas 6 3; PAdd 3 4; PAdd 2 8; PHas 7 8; PRoles 5]%N in
  no_deletes h = true /\ in_scope mf (h ++ [PHas 5 4])%N = true /\
  fst (pm_has_link mf (pm_run mf (pm_empty 10) h) 5 4)%N = true /\     (* 5 ~ 1 -> 3 -> 4 *)
  fst (pm_has_link mf (pm_run mf (pm_empty 10) h) 6 8)%N = true /\     (* 6 ~ 2 -> 8 *)
  fst (pm_has_link mf (pm_run mf (pm_empty 10) h) 1 8)%N = true /\     (* the pattern 1 matches pattern 2 *)
  fst (pm_has_link mf (pm_run mf (pm_empty 10) h) 7 3)%N = false /\    (* 7 matches 2 only *)
  fst (pm_has_link mf (pm_run mf (pm_empty 10) h) 9 3)%N = false.      (* 9 matches nothing *)
Proof. vm_compute. repeat split; reflexivity. Qed.
