(* C15 — the RBAC query API agrees with enforcement.
   All statements are about the model functions of Mgmt.v that the correspondence check runs against the
   real Enforcer: get_implicit_roles / get_implicit_permissions / get_implicit_users_for_permission /
   rmk_get_roles / rmk_get_users / enforce_ex_m.  No bound on the number of names, rules or assignments,
   nor on the shape of the role graph.

   Premises (each is explicit, each is shown satisfiable and — where it is not the property's own
   premise — necessary):
     Inv k s          the role managers reflect the grouping rules: holds after EVERY admissible management
                      history (C04_history_keeps_links_in_sync), per-domain caches included;
     rbac_kind k      matcher g(r.sub,p.sub[,r.dom]) && [r.dom==p.dom &&] r.obj==p.obj && r.act==p.act,
                      no effect column, no priority, effect some(where (p.eft == allow));
     wf_p k s         every permission rule has the declared number of fields;
     m_enabled s      enforcement is switched on;
     shallow ls u     "within the hierarchy depth bound": whatever is reachable from u is reachable in
                      fewer than max_hierarchy_level (10) assignments;
     u <> "", d <> "", no assignment names "" as a role, the permission names something:
                      "" is get_filtered_policy's wildcard and the value of every field of the fictitious
                      rule the empty-policy branch of enforce matches against. *)
From Coq Require Import List NArith Bool.
From PyCasbin Require Import Base Effect Enforce Policy PolicyProofs RoleGraph Mgmt MgmtLinks MgmtProofs
  DomainProofs RbacProofs.
Import ListNotations.
Local Open Scope N_scope.

(* ---------- get_implicit_roles_for_user ---------- *)

(* the call never fails (the fuel of the model's loop suffices), reports every role once, and reports
   exactly the names reachable from the user by at least one assignment; with domains: assignments of
   the queried domain only (links_at k s d) *)
Theorem C15_implicit_roles_is_reach : forall k s u d, k_g k = true -> k_g2 k = false -> Inv k s ->
  exists roles s', get_implicit_roles k s u d = Ok (roles, s')
    /\ NoDup roles
    /\ (forall r, In r roles <-> exists n, path (link_edge (links_at k s d)) (S n) u r)
    /\ Inv k s' /\ same_stores s s'.
Proof. exact implicit_roles_reach. Qed.
Print Assumptions C15_implicit_roles_is_reach.

(* the edges of that statement are exactly the grouping rules: [a; b] in g, resp. [a; b; d] in g *)
Theorem C15_assignments_are_grouping_rules : forall k s a b d, Inv k s ->
  link_edge (links_at k s d) a b <-> In (if k_dom k then [a; b; d] else [a; b]) (m_g s).
Proof. exact assignments_are_grouping_rules. Qed.
Print Assumptions C15_assignments_are_grouping_rules.

(* ---------- get_implicit_permissions_for_user ---------- *)

(* exactly the rules (of the domain) whose subject is the user or reachable from the user *)
Theorem C15_implicit_permissions_exact : forall k s u d,
  rbac_kind k -> Inv k s -> wf_p k s -> dom_ok k d -> u <> 0 -> no_empty_role (links_at k s d) ->
  exists perms s', get_implicit_permissions k s u d = Ok (perms, s')
    /\ Inv k s' /\ same_stores s s'
    /\ forall r, In r perms <->
         In r (m_p s) /\ (exists n, path (link_edge (links_at k s d)) n u (fld r 0))
         /\ (k_dom k = true -> fld r 1 = d).
Proof. exact implicit_permissions_scoped. Qed.
Print Assumptions C15_implicit_permissions_exact.

(* ---------- enforce <-> implicit permissions ---------- *)

(* generic form (mk_req builds [u; o; a] or [u; d; o; a]) *)
Theorem C15_enforce_iff_implicit_permission : forall k s u d o a,
  rbac_kind k -> Inv k s -> wf_p k s -> m_enabled s = true -> dom_ok k d ->
  u <> 0 -> no_empty_role (links_at k s d) -> shallow (links_at k s d) u ->
  exists perms s' b,
    get_implicit_permissions k s u d = Ok (perms, s')
    /\ decision_of (snd (enforce_ex_m k s (mk_req k u d o a))) = Ok b
    /\ (b = true <-> exists r, In r perms /\ fld r (i_obj k) = o /\ fld r (i_act k) = a).
Proof. exact enforce_iff_implicit_permission. Qed.
Print Assumptions C15_enforce_iff_implicit_permission.

(* RBAC: enforce(u, o, a) is allowed exactly when some rule of get_implicit_permissions_for_user(u)
   has object o and action a; neither call raises *)
Theorem C15_enforce_iff_implicit_permission_rbac : forall k s u o a,
  rbac_kind k -> k_dom k = false -> Inv k s -> wf_p k s -> m_enabled s = true ->
  u <> 0 -> no_empty_role (glinks (m_g s)) -> shallow (glinks (m_g s)) u ->
  exists perms s' b,
    get_implicit_permissions k s u 0 = Ok (perms, s')
    /\ decision_of (snd (enforce_ex_m k s [u; o; a])) = Ok b
    /\ (b = true <-> exists r, In r perms /\ fld r 1 = o /\ fld r 2 = a).
Proof. exact enforce_iff_implicit_permission_plain. Qed.
Print Assumptions C15_enforce_iff_implicit_permission_rbac.

(* RBAC with domains: the same per domain — only the assignments and rules of domain d count *)
Theorem C15_enforce_iff_implicit_permission_domain : forall k s u d o a,
  rbac_kind k -> k_dom k = true -> Inv k s -> wf_p k s -> m_enabled s = true ->
  d <> 0 -> u <> 0 -> no_empty_role (glinks_dom (m_g s) d) -> shallow (glinks_dom (m_g s) d) u ->
  exists perms s' b,
    get_implicit_permissions k s u d = Ok (perms, s')
    /\ decision_of (snd (enforce_ex_m k s [u; d; o; a])) = Ok b
    /\ (b = true <-> exists r, In r perms /\ fld r 2 = o /\ fld r 3 = a).
Proof. exact enforce_iff_implicit_permission_domain. Qed.
Print Assumptions C15_enforce_iff_implicit_permission_domain.

(* the depth premise is decidable on the running enforcer (every implicit role is recognised by g) ... *)
Theorem C15_depth_premise_decidable : forall k s u d, k_g k = true -> k_g2 k = false -> Inv k s ->
  depth_okb k s u d = true <-> shallow (links_at k s d) u.
Proof. exact depth_okb_shallow. Qed.
Print Assumptions C15_depth_premise_decidable.

(* ... holds of EVERY role graph with fewer than max_hierarchy_level assignments, cycles included ... *)
Theorem C15_small_graph_within_depth_bound : forall ls u, (length ls < MAXLVL)%nat -> shallow ls u.
Proof. exact small_graph_shallow. Qed.
Print Assumptions C15_small_graph_within_depth_bound.

(* ... and cannot be dropped: with a chain of ten assignments all other premises hold, the permission of
   the tenth role is listed for alice, enforce refuses it (and grants the ninth role's) *)
Theorem C15_enforce_iff_implicit_permission_refuted_beyond_depth_bound :
  rbac_kind k_rbac15 /\ Inv k_rbac15 deep_state /\ wf_p k_rbac15 deep_state /\ m_enabled deep_state = true
  /\ dom_ok k_rbac15 0 /\ 1003 <> 0 /\ no_empty_role (links_at k_rbac15 deep_state 0)
  /\ (exists perms s', get_implicit_permissions k_rbac15 deep_state 1003 0 = Ok (perms, s')
        /\ In [2010; 1008; 1011] perms)
  /\ decision_of (snd (enforce_ex_m k_rbac15 deep_state (mk_req k_rbac15 1003 0 1008 1011))) = Ok false
  /\ decision_of (snd (enforce_ex_m k_rbac15 deep_state (mk_req k_rbac15 1003 0 1009 1011))) = Ok true
  /\ ~ shallow (links_at k_rbac15 deep_state 0) 1003.
Proof. exact depth_premise_needed. Qed.
Print Assumptions C15_enforce_iff_implicit_permission_refuted_beyond_depth_bound.

(* names must be non-empty: for the user "" every rule is reported, none is granted *)
Theorem C15_enforce_iff_implicit_permission_refuted_for_empty_name :
  Inv k_rbac15 empty_name_state /\ wf_p k_rbac15 empty_name_state
  /\ match get_implicit_permissions k_rbac15 empty_name_state 0 0 with
     | Ok (perms, _) => perms = [[1003; 1008; 1011]] | Err _ => False end
  /\ decision_of (snd (enforce_ex_m k_rbac15 empty_name_state (mk_req k_rbac15 0 0 1008 1011))) = Ok false.
Proof. exact empty_user_name_refuted. Qed.
Print Assumptions C15_enforce_iff_implicit_permission_refuted_for_empty_name.

(* ---------- get_implicit_users_for_permission ---------- *)

(* returns, once each, exactly the names that are not the role of any assignment and for which enforce
   allows the permission (such a name is necessarily the subject of a rule or of an assignment);
   perm = [o; a] resp. [d; o; a] *)
Theorem C15_users_for_permission_exact : forall k s perm,
  rbac_kind k -> Inv k s -> wf_p k s -> m_enabled s = true ->
  length perm = pred (r_arity k) -> perm_named perm ->
  exists users s', get_implicit_users_for_permission k s perm = (s', Ok users)
    /\ NoDup users
    /\ forall u, In u users <->
         (~ exists r, In r (m_g s) /\ fld r 1 = u)
         /\ decision_of (snd (enforce_ex_m k s (u :: perm))) = Ok true.
Proof. exact users_for_permission_exact. Qed.
Print Assumptions C15_users_for_permission_exact.

(* the permission must name something: on the empty policy enforce grants ("", "", "") to "" *)
Theorem C15_users_for_permission_refuted_for_unnamed_permission :
  let s := init k_rbac15 [] in
  Inv k_rbac15 s /\ wf_p k_rbac15 s
  /\ decision_of (snd (enforce_ex_m k_rbac15 s [0; 0; 0])) = Ok true
  /\ snd (get_implicit_users_for_permission k_rbac15 s [0; 0]) = Ok [].
Proof. exact unnamed_permission_refuted. Qed.
Print Assumptions C15_users_for_permission_refuted_for_unnamed_permission.

(* ---------- get_roles_for_user / get_users_for_role (and _in_domain) ---------- *)

(* inverse views of the same assignments = the grouping rules (of the domain); each name once *)
Theorem C15_roles_users_inverse : forall k s u r d, Inv k s ->
  (In r (fst (rmk_get_roles (m_rm s) u d)) <-> In u (fst (rmk_get_users (m_rm s) r d)))
  /\ (In r (fst (rmk_get_roles (m_rm s) u d)) <-> In (if k_dom k then [u; r; d] else [u; r]) (m_g s))
  /\ NoDup (fst (rmk_get_roles (m_rm s) u d)) /\ NoDup (fst (rmk_get_users (m_rm s) r d)).
Proof. exact roles_users_inverse_views. Qed.
Print Assumptions C15_roles_users_inverse.

(* ---------- the resource-centred views ---------- *)

(* get_implicit_users_for_resource(res)            = users_for_resource ... roles=get_all_roles()          None,
   get_implicit_users_for_resource_by_domain(res,d) = users_for_resource ... roles=get_all_roles_by_domain(d) (Some d)
   (Mgmt.step QUsersForResource / QUsersForResourceDom).  Whatever `roles` is: the view never raises, lists
   nothing twice, is exactly the rules on the resource (of the domain) with a subject in `roles` replaced by each of
   its DIRECT users (res_contrib), and every permission it reports is one that enforce grants. *)
Theorem C15_resource_view_exact_and_sound : forall k s roles res dom,
  rbac_kind k -> Inv k s -> wf_p k s -> m_enabled s = true -> res <> 0 -> view_ok k dom ->
  exists out rm', users_for_resource k (m_rm s) roles res dom (m_p s) [] = Ok (out, rm')
    /\ NoDup out
    /\ (forall x, In x out <-> exists r, In r (m_p s) /\ res_contrib k s roles res dom r x)
    /\ (forall x, In x out -> decision_of (snd (enforce_ex_m k s x)) = Ok true).
Proof. exact resource_view_exact_and_sound. Qed.
Print Assumptions C15_resource_view_exact_and_sound.

(* ---------- over histories ---------- *)

(* after ANY admissible management history from a fresh enforcer the role queries are exact *)
Theorem C15_role_queries_after_any_history : forall k db ops u d,
  k_g k = true -> k_g2 k = false -> forallb (op_ok k) ops = true ->
  let s := fst (run k (init k db) ops) in
  (exists roles s', get_implicit_roles k s u d = Ok (roles, s')
     /\ NoDup roles
     /\ forall r, In r roles <-> exists n, path (link_edge (links_at k s d)) (S n) u r)
  /\ (forall r, In r (fst (rmk_get_roles (m_rm s) u d)) <-> In u (fst (rmk_get_users (m_rm s) r d))).
Proof. exact role_queries_after_any_history. Qed.
Print Assumptions C15_role_queries_after_any_history.

(* ---------- non-vacuity ---------- *)

(* RBAC, built by management calls: alice -> admin -> editor -> alice (a cycle), bob -> editor;
   editor may read data1, bob may write data2.  All premises hold for alice; she may read data1 and
   that is among her implicit permissions; she may not write data2 and that is not. *)
Definition ex_ops : list op :=
  [OAdd 1 [1003; 1006]; OAdd 1 [1006; 1007]; OAdd 1 [1007; 1003]; OAdd 1 [1004; 1007];
   OAdd 0 [1007; 1008; 1011]; OAdd 0 [1004; 1009; 1012]; ORemove 1 [1004; 1007]; OAddRoleForUser 1004 1007].
Definition ex_state : mstate := fst (run k_rbac15 (init k_rbac15 []) ex_ops).

Example C15_example_rbac :
  rbac_kind k_rbac15 /\ Inv k_rbac15 ex_state /\ wf_p k_rbac15 ex_state /\ m_enabled ex_state = true
  /\ no_empty_role (glinks (m_g ex_state)) /\ shallow (glinks (m_g ex_state)) 1003
  /\ (forall roles s', get_implicit_roles k_rbac15 ex_state 1003 0 = Ok (roles, s') -> roles = [1006; 1007; 1003])
  /\ (forall perms s', get_implicit_permissions k_rbac15 ex_state 1003 0 = Ok (perms, s') -> perms = [[1007; 1008; 1011]])
  /\ decision_of (snd (enforce_ex_m k_rbac15 ex_state [1003; 1008; 1011])) = Ok true
  /\ decision_of (snd (enforce_ex_m k_rbac15 ex_state [1003; 1009; 1012])) = Ok false
  /\ snd (get_implicit_users_for_permission k_rbac15 ex_state [1008; 1011]) = Ok [1004]
  /\ perm_named [1008; 1011].
Proof.
  split; [apply rbac_kind_rbac15|].
  split; [apply run_inv; [apply init_inv|vm_compute; reflexivity]|].
  split; [apply wf_pb_ok; vm_compute; reflexivity|]. split; [vm_compute; reflexivity|].
  split; [apply no_empty_roleb_ok; vm_compute; reflexivity|].
  split; [apply small_graph_shallow; vm_compute; repeat constructor|].
  split; [intros roles s' H;
          assert (E : match get_implicit_roles k_rbac15 ex_state 1003 0 with Ok (r, _) => r | Err _ => [] end = [1006; 1007; 1003])
            by (vm_compute; reflexivity); rewrite H in E; exact E|].
  split; [intros perms s' H;
          assert (E : match get_implicit_permissions k_rbac15 ex_state 1003 0 with Ok (r, _) => r | Err _ => [] end = [[1007; 1008; 1011]])
            by (vm_compute; reflexivity); rewrite H in E; exact E|].
  split; [vm_compute; reflexivity|]. split; [vm_compute; reflexivity|]. split; [vm_compute; reflexivity|].
  exists 1008. split; [left; reflexivity|discriminate].
Qed.

(* RBAC with domains: alice is admin in d1 only; admin may read data1 in d1 and in d2.  Queries in d2
   have built d2's cache before the d1 assignment is added. *)
Definition ex_dom_ops : list op :=
  [OAdd 0 [1006; 1013; 1008; 1011]; OAdd 0 [1006; 1014; 1008; 1011]; QEnforce [1003; 1014; 1008; 1011];
   OAddRoleForUserInDomain 1003 1006 1013; OAddRoleForUserInDomain 1004 1006 1014; QRolesDom 1003 1013].
Definition ex_dom_state : mstate := fst (run k_dom15 (init k_dom15 []) ex_dom_ops).

Example C15_example_domain :
  rbac_kind k_dom15 /\ Inv k_dom15 ex_dom_state /\ wf_p k_dom15 ex_dom_state /\ m_enabled ex_dom_state = true
  /\ no_empty_role (glinks_dom (m_g ex_dom_state) 1013) /\ shallow (glinks_dom (m_g ex_dom_state) 1013) 1003
  /\ no_empty_role (glinks_dom (m_g ex_dom_state) 1014) /\ shallow (glinks_dom (m_g ex_dom_state) 1014) 1003
  /\ decision_of (snd (enforce_ex_m k_dom15 ex_dom_state [1003; 1013; 1008; 1011])) = Ok true
  /\ decision_of (snd (enforce_ex_m k_dom15 ex_dom_state [1003; 1014; 1008; 1011])) = Ok false
  /\ (forall perms s', get_implicit_permissions k_dom15 ex_dom_state 1003 1013 = Ok (perms, s') -> perms = [[1006; 1013; 1008; 1011]])
  /\ (forall perms s', get_implicit_permissions k_dom15 ex_dom_state 1003 1014 = Ok (perms, s') -> perms = [])
  /\ fst (rmk_get_users (m_rm ex_dom_state) 1006 1013) = [1003]
  /\ fst (rmk_get_users (m_rm ex_dom_state) 1006 1014) = [1004].
Proof.
  split; [apply rbac_kind_dom15|].
  split; [apply run_inv; [apply init_inv|vm_compute; reflexivity]|].
  split; [apply wf_pb_ok; vm_compute; reflexivity|]. split; [vm_compute; reflexivity|].
  split; [apply no_empty_roleb_ok; vm_compute; reflexivity|].
  split; [apply small_graph_shallow; vm_compute; repeat constructor|].
  split; [apply no_empty_roleb_ok; vm_compute; reflexivity|].
  split; [apply small_graph_shallow; vm_compute; repeat constructor|].
  split; [vm_compute; reflexivity|]. split; [vm_compute; reflexivity|].
  split; [intros perms s' H;
          assert (E : match get_implicit_permissions k_dom15 ex_dom_state 1003 1013 with Ok (r, _) => r | Err _ => [] end = [[1006; 1013; 1008; 1011]])
            by (vm_compute; reflexivity); rewrite H in E; exact E|].
  split; [intros perms s' H;
          assert (E : match get_implicit_permissions k_dom15 ex_dom_state 1003 1014 with Ok (r, _) => r | Err _ => [] end = [])
            by (vm_compute; reflexivity); rewrite H in E; exact E|].
  split; vm_compute; reflexivity.
Qed.

(* the resource view on the first example: editor's permission on data1 is reported for editor's direct
   users admin and bob (not for alice, who holds it through admin), and enforce grants both *)
Example C15_example_resource_view :
  view_ok k_rbac15 None
  /\ o_val (snd (step k_rbac15 ex_state (QUsersForResource 1008))) = ok (vrules [[1006; 1008; 1011]; [1004; 1008; 1011]])
  /\ decision_of (snd (enforce_ex_m k_rbac15 ex_state [1006; 1008; 1011])) = Ok true
  /\ decision_of (snd (enforce_ex_m k_rbac15 ex_state [1004; 1008; 1011])) = Ok true.
Proof. split; [reflexivity|]. split; [vm_compute; reflexivity|]. split; vm_compute; reflexivity. Qed.

(* ---------------------------------------------------------------------------------------------------------------
   Of the SOURCE: the RBAC API wrappers of casbin/enforcer.py that CHANGE the policy (add_role_for_user, delete_role_for_user,
   delete_roles_for_user, delete_user, delete_role, delete_permission, add_permission_for_user, delete_permission_for_user,
   delete_permissions_for_user, add_role_for_user_in_domain, delete_roles_for_user_in_domain) are re-translated on every run
   into programs of the language of WrapLang.v (coq/gen/RbacApiGen.v: sequences of management calls with flattened
   arguments, `res1 or res2`); WrapTie.v proves that each computes the corresponding step of Mgmt.step - the steps of which
   the histories behind `Inv` (C04), the rule-set theorems (C06), the mirror theorems (C09) and the notification theorems (C20)
   are made.  For every kind of model, enforcer state and argument. *)
From PyCasbin Require WrapLang WrapTie.
From PyCasbinGen Require RbacApiGen.

Theorem C15_source_delete_user : forall k s u,
  WrapLang.wrapper k RbacApiGen.delete_user_gen s [(RbacApiGen.w3_user, WrapLang.WVN u)] = Some (step k s (ODeleteUser u)).
Proof. exact WrapTie.tie_delete_user. Qed.
Print Assumptions C15_source_delete_user.

Theorem C15_source_delete_role : forall k s r,
  WrapLang.wrapper k RbacApiGen.delete_role_gen s [(RbacApiGen.w4_role, WrapLang.WVN r)] = Some (step k s (ODeleteRole r)).
Proof. exact WrapTie.tie_delete_role. Qed.
Print Assumptions C15_source_delete_role.

Theorem C15_source_add_role_for_user : forall k s u r,
  WrapLang.wrapper k RbacApiGen.add_role_for_user_gen s [(RbacApiGen.w0_user, WrapLang.WVN u); (RbacApiGen.w0_role, WrapLang.WVN r)]
  = Some (step k s (OAddRoleForUser u r)).
Proof. exact WrapTie.tie_add_role_for_user. Qed.
Print Assumptions C15_source_add_role_for_user.

Theorem C15_source_delete_role_for_user : forall k s u r,
  WrapLang.wrapper k RbacApiGen.delete_role_for_user_gen s [(RbacApiGen.w1_user, WrapLang.WVN u); (RbacApiGen.w1_role, WrapLang.WVN r)]
  = Some (step k s (ODeleteRoleForUser u r)).
Proof. exact WrapTie.tie_delete_role_for_user. Qed.
Print Assumptions C15_source_delete_role_for_user.

Theorem C15_source_delete_roles_for_user : forall k s u,
  WrapLang.wrapper k RbacApiGen.delete_roles_for_user_gen s [(RbacApiGen.w2_user, WrapLang.WVN u)] = Some (step k s (ODeleteRolesForUser u)).
Proof. exact WrapTie.tie_delete_roles_for_user. Qed.
Print Assumptions C15_source_delete_roles_for_user.

Theorem C15_source_delete_permission : forall k s vs,
  WrapLang.wrapper k RbacApiGen.delete_permission_gen s [(RbacApiGen.w5_permission, WrapLang.WVL vs)] = Some (step k s (ODeletePermission vs)).
Proof. exact WrapTie.tie_delete_permission. Qed.
Print Assumptions C15_source_delete_permission.

Theorem C15_source_add_permission_for_user : forall k s u vs,
  WrapLang.wrapper k RbacApiGen.add_permission_for_user_gen s [(RbacApiGen.w6_user, WrapLang.WVN u); (RbacApiGen.w6_permission, WrapLang.WVL vs)]
  = Some (step k s (OAddPermissionForUser u vs)).
Proof. exact WrapTie.tie_add_permission_for_user. Qed.
Print Assumptions C15_source_add_permission_for_user.

Theorem C15_source_delete_permission_for_user : forall k s u vs,
  WrapLang.wrapper k RbacApiGen.delete_permission_for_user_gen s [(RbacApiGen.w7_user, WrapLang.WVN u); (RbacApiGen.w7_permission, WrapLang.WVL vs)]
  = Some (step k s (ODeletePermissionForUser u vs)).
Proof. exact WrapTie.tie_delete_permission_for_user. Qed.
Print Assumptions C15_source_delete_permission_for_user.

Theorem C15_source_delete_permissions_for_user : forall k s u,
  WrapLang.wrapper k RbacApiGen.delete_permissions_for_user_gen s [(RbacApiGen.w8_user, WrapLang.WVN u)]
  = Some (step k s (ODeletePermissionsForUser u)).
Proof. exact WrapTie.tie_delete_permissions_for_user. Qed.
Print Assumptions C15_source_delete_permissions_for_user.

Theorem C15_source_add_role_for_user_in_domain : forall k s u r d,
  WrapLang.wrapper k RbacApiGen.add_role_for_user_in_domain_gen s
    [(RbacApiGen.w9_user, WrapLang.WVN u); (RbacApiGen.w9_role, WrapLang.WVN r); (RbacApiGen.w9_domain, WrapLang.WVN d)]
  = Some (step k s (OAddRoleForUserInDomain u r d)).
Proof. exact WrapTie.tie_add_role_for_user_in_domain. Qed.
Print Assumptions C15_source_add_role_for_user_in_domain.

Theorem C15_source_delete_roles_for_user_in_domain : forall k s u r d,
  WrapLang.wrapper k RbacApiGen.delete_roles_for_user_in_domain_gen s
    [(RbacApiGen.w10_user, WrapLang.WVN u); (RbacApiGen.w10_role, WrapLang.WVN r); (RbacApiGen.w10_domain, WrapLang.WVN d)]
  = Some (step k s (ODeleteRolesForUserInDomain u r d)).
Proof. exact WrapTie.tie_delete_roles_for_user_in_domain. Qed.
Print Assumptions C15_source_delete_roles_for_user_in_domain.

(* ---------- get_implicit_roles_for_user, from the source ----------
   Enforcer.get_implicit_roles_for_user regenerated from casbin/enforcer.py on this run (coq/gen/ImplRolesGen.v; every
   statement one of the recognised steps of ImplLang.v), executed by ImplLang's interpreter with the model's bound on the
   walk as the loop's fuel, is Mgmt.get_implicit_roles - the function of C15_implicit_roles_is_reach above. *)
From PyCasbin Require ImplLang ImplTie.
From PyCasbinGen Require ImplRolesGen.

Theorem C15_source_get_implicit_roles_for_user : forall k s u d,
  ImplLang.qrun k u d (names_bound s) 30 ImplRolesGen.implicit_roles_gen s = get_implicit_roles k s u d.
Proof. exact ImplTie.tie_get_implicit_roles. Qed.
Print Assumptions C15_source_get_implicit_roles_for_user.

(* hence, of the regenerated source: on an RBAC model in a state satisfying the invariant the walk terminates within the
   bound, lists every role once, and lists exactly the names reachable from the user by at least one assignment *)
Theorem C15_source_implicit_roles_is_reach : forall k s u d, k_g k = true -> k_g2 k = false -> Inv k s ->
  exists roles s', ImplLang.qrun k u d (names_bound s) 30 ImplRolesGen.implicit_roles_gen s = Ok (roles, s')
    /\ NoDup roles
    /\ (forall r, In r roles <-> exists n, path (link_edge (links_at k s d)) (S n) u r).
Proof.
  intros k s u d Hg Hg2 HI. destruct (implicit_roles_reach k s u d Hg Hg2 HI) as (roles & s' & E & ND & R & _).
  exists roles, s'. rewrite ImplTie.tie_get_implicit_roles. repeat split; try assumption; apply R.
Qed.
Print Assumptions C15_source_implicit_roles_is_reach.

Example C15_source_implicit_roles_example :
  ImplLang.qrun k_rbac15 1003 0 (names_bound ex_state) 30 ImplRolesGen.implicit_roles_gen ex_state = Ok ([1006; 1007; 1003], ex_state).
Proof. vm_compute. reflexivity. Qed.

(* ---------- get_implicit_users_for_permission, from the source ----------
   regenerated from casbin/enforcer.py on this run (coq/gen/ImplUsersGen.v; recognised steps, the util helpers compared with
   their recognised bodies), executed by ImplUsersLang's interpreter: result, threaded state and errors are those of
   Mgmt.get_implicit_users_for_permission - the function of the users-for-permission theorems above. *)
From PyCasbin Require ImplUsersLang ImplUsersTie.
From PyCasbinGen Require ImplUsersGen.

Theorem C15_source_get_implicit_users_for_permission : forall k s perm,
  ImplUsersLang.urun k perm 30 ImplUsersGen.implicit_users_gen s = get_implicit_users_for_permission k s perm.
Proof. exact ImplUsersTie.tie_get_implicit_users_for_permission. Qed.
Print Assumptions C15_source_get_implicit_users_for_permission.

Example C15_source_implicit_users_example :
  snd (ImplUsersLang.urun k_rbac15 [1008; 1011] 30 ImplUsersGen.implicit_users_gen ex_state) = Ok [1004].
Proof. vm_compute. reflexivity. Qed.

(* ---------- get_implicit_users_for_resource / _by_domain, from the source ----------
   regenerated from casbin/enforcer.py on this run (coq/gen/ImplResourceGen.v; recognised steps, the methods they call compared
   with their recognised bodies), executed by RsrcLang's interpreter: result, threaded role manager and errors are those of
   Mgmt.users_for_resource on the roles list each method starts from (by domain: on a kind with a domain column). *)
From PyCasbin Require RsrcLang RsrcTie.
From PyCasbinGen Require ImplResourceGen.

Theorem C15_source_get_implicit_users_for_resource : forall k s res,
  RsrcLang.rrun k s res None 40 ImplResourceGen.users_for_resource_gen =
  match values_for_field (m_g s) 1 [] with
  | Err c => Err c
  | Ok roles => users_for_resource k (m_rm s) roles res None (m_p s) []
  end.
Proof. exact RsrcTie.tie_users_for_resource. Qed.
Print Assumptions C15_source_get_implicit_users_for_resource.

Theorem C15_source_get_implicit_users_for_resource_by_domain : forall k s res d, k_dom k = true ->
  RsrcLang.rrun k s res (Some d) 40 ImplResourceGen.users_for_resource_by_domain_gen =
  users_for_resource k (m_rm s) (roles_by_domain (m_g s) d) res (Some d) (m_p s) [].
Proof. exact RsrcTie.tie_users_for_resource_by_domain. Qed.
Print Assumptions C15_source_get_implicit_users_for_resource_by_domain.

Example C15_source_users_for_resource_example :
  match RsrcLang.rrun k_rbac15 ex_state 1008 None 40 ImplResourceGen.users_for_resource_gen with
  | Ok (l, _) => l = [[1006; 1008; 1011]; [1004; 1008; 1011]] | Err _ => False end.
Proof. vm_compute. reflexivity. Qed.

(* ---------- get_implicit_permissions_for_user, from the source ----------
   get_named_implicit_permissions_for_user (to which get_implicit_permissions_for_user delegates with "p") regenerated from
   casbin/enforcer.py on this run (coq/gen/ImplPermsGen.v; recognised steps), executed by PermLang's interpreter: result, the
   state left by the role walk and errors are those of Mgmt.get_implicit_permissions - the function of the
   enforce <-> implicit-permission theorems above. *)
From PyCasbin Require PermLang PermTie.
From PyCasbinGen Require ImplPermsGen.

Theorem C15_source_get_implicit_permissions_for_user : forall k s u d,
  PermLang.prun k u d 30 ImplPermsGen.implicit_permissions_gen s = get_implicit_permissions k s u d.
Proof. exact PermTie.tie_get_implicit_permissions. Qed.
Print Assumptions C15_source_get_implicit_permissions_for_user.

Example C15_source_implicit_permissions_example :
  match PermLang.prun k_rbac15 1003 0 30 ImplPermsGen.implicit_permissions_gen ex_state with
  | Ok (l, _) => l = [[1007; 1008; 1011]] | Err _ => False end.
Proof. vm_compute. reflexivity. Qed.
