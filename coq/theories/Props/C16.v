(* C16 — The readers-writer lock is writer-exclusive, deadlock-free, writer-preferring.
   Only statements here; proofs are `exact <lemma>`.  Everything is stated about
   [mon_step rwlock_gen]: the Mesa-monitor interpreter (RWLock.v, assumptions M1-M5) running the
   program regenerated from casbin/util/rwlock.py on this run — for ANY number of threads, each
   doing ANY finite list of read/write rounds (the property only asks for four threads x two rounds). *)
From Coq Require Import List ZArith Bool.
From PyCasbin Require Import Base RWLockLang RWLock RWLockProofs RWLockTrace RWLockTie.
From PyCasbinGen Require Import RWLockGen.
Import ListNotations.

(* the regenerated program, run by the interpreter, steps exactly like the hand-written abstract
   system on every configuration that satisfies the invariant [Inv] (six counting clauses,
   RWLockProofs.v) — in particular on every reachable configuration *)
Theorem C16_tie : forall c i, Inv c -> mon_step rwlock_gen c i = rw_step c i.
Proof. exact tie_inv. Qed.
Print Assumptions C16_tie.

Theorem C16_tie_reachable : forall progs c, reachable (mon_step rwlock_gen) progs c ->
  forall i, mon_step rwlock_gen c i = rw_step c i.
Proof. exact g_tie. Qed.
Print Assumptions C16_tie_reachable.

(* writer-exclusive: a thread inside a write section is alone *)
Theorem C16_exclusion : forall progs c, reachable (mon_step rwlock_gen) progs c ->
  forall t, inside c t Wr -> forall t', t' <> t -> outside c t'.
Proof. exact g_exclusion. Qed.
Print Assumptions C16_exclusion.

(* the lock's own flags tell the truth in every reachable configuration *)
Theorem C16_flags_truthful : forall progs c, reachable (mon_step rwlock_gen) progs c ->
  (wa c = true <-> exists t, inside c t Wr) /\
  ar c = Z.of_nat (length (filter (fun t => phase_eqb (ph t) (Inside Rd)) (ths c))).
Proof. exact g_flags_truthful. Qed.
Print Assumptions C16_flags_truthful.

(* ... while any number of readers may be inside together *)
Theorem C16_readers_share : forall n,
  exists c, reachable (mon_step rwlock_gen) (repeat [Rd] n) c /\ forall i, (i < n)%nat -> inside c i Rd.
Proof. exact g_readers_share. Qed.
Print Assumptions C16_readers_share.

(* a reader is admitted whenever no writer is active or registered, however many readers are inside *)
Theorem C16_reader_admitted : forall progs c i td, reachable (mon_step rwlock_gen) progs c ->
  nth_error (ths c) i = Some {| ph := Idle; todo := Rd :: td |} ->
  wa c = false -> (ww c <= 0)%Z ->
  exists c', mon_step rwlock_gen c i = Some c' /\ inside c' i Rd /\ ar c' = (ar c + 1)%Z /\
             (forall j k, j <> i -> inside c j k -> inside c' j k).
Proof. exact g_reader_admitted. Qed.
Print Assumptions C16_reader_admitted.

(* no lost wake-up: whoever sleeps in cond.wait() still has its wait condition true
   (so the thread that will make it false is yet to run its release, which notifies) *)
Theorem C16_no_lost_wakeup : forall progs c, reachable (mon_step rwlock_gen) progs c ->
  forall i k, sleeping c i k -> wait_cond k c = true.
Proof. exact g_no_lost_wakeup. Qed.
Print Assumptions C16_no_lost_wakeup.

(* no deadlock: while some thread is unfinished, some thread can take a step *)
Theorem C16_deadlock_free : forall progs c, reachable (mon_step rwlock_gen) progs c ->
  (exists i t, nth_error (ths c) i = Some t /\ ~ finished t) ->
  exists i, enabled (mon_step rwlock_gen) c i.
Proof. exact g_deadlock_free. Qed.
Print Assumptions C16_deadlock_free.

(* every acquire eventually returns: (a) every schedule is finite (bounded by [measure]) ... *)
Theorem C16_every_schedule_finite : forall progs c s c', reachable (mon_step rwlock_gen) progs c ->
  steps (mon_step rwlock_gen) c s c' -> (length s <= measure c)%nat.
Proof. exact g_schedules_finite. Qed.
Print Assumptions C16_every_schedule_finite.

(* ... (b) a run that cannot be extended has returned from every acquire and finished every thread:
   whatever the scheduler does, nobody is left blocked.  "Provided holders release" is M5: the
   release step of a thread inside is always enabled, and by (a) it is eventually the only choice. *)
Theorem C16_maximal_runs_complete : forall progs c, reachable (mon_step rwlock_gen) progs c ->
  (forall i, ~ enabled (mon_step rwlock_gen) c i) ->
  forall i t, nth_error (ths c) i = Some t -> finished t.
Proof. exact g_stuck_means_finished. Qed.
Print Assumptions C16_maximal_runs_complete.

Theorem C16_can_complete : forall progs c, reachable (mon_step rwlock_gen) progs c ->
  exists s c', steps (mon_step rwlock_gen) c s c' /\ forallb is_finished (ths c') = true.
Proof. exact g_can_complete. Qed.
Print Assumptions C16_can_complete.

(* writer-preferring, invariant form: while ANY writer is registered as waiting, no step makes a
   reader enter (r inside after the step only if it was inside before) *)
Theorem C16_writer_preference : forall progs c, reachable (mon_step rwlock_gen) progs c ->
  forall w, waiting_writer c w ->
  forall i c' r, mon_step rwlock_gen c i = Some c' -> inside c' r Rd -> inside c r Rd.
Proof. exact g_writer_preference. Qed.
Print Assumptions C16_writer_preference.

(* writer-preferring, run form: w is registered in c1; if after a further schedule s2 some step lets
   a reader r enter, then w itself entered its write section at some point of s2 — so a reader that
   arrives after w registered (indeed ANY reader not yet inside) enters only after w has entered *)
Theorem C16_writer_preference_run : forall progs c1 w,
  reachable (mon_step rwlock_gen) progs c1 -> waiting_writer c1 w ->
  forall s2 c2 i c3 r, steps (mon_step rwlock_gen) c1 s2 c2 -> mon_step rwlock_gen c2 i = Some c3 ->
  ~ inside c2 r Rd -> inside c3 r Rd ->
  exists sa ca cb sb, s2 = sa ++ w :: sb /\ steps (mon_step rwlock_gen) c1 sa ca /\
                      mon_step rwlock_gen ca w = Some cb /\ inside cb w Wr /\
                      steps (mon_step rwlock_gen) cb sb c2.
Proof. exact g_writer_preference_run. Qed.
Print Assumptions C16_writer_preference_run.

(* robustness: exclusion would survive a spurious wake-up (not part of the model, M3) *)
Theorem C16_exclusion_survives_spurious_wakeup : forall progs c i c',
  reachable (mon_step rwlock_gen) progs c -> rw_spurious c i = Some c' ->
  forall t, inside c' t Wr -> forall t', t' <> t -> outside c' t'.
Proof. exact g_inv_spurious. Qed.
Print Assumptions C16_exclusion_survives_spurious_wakeup.

(* the specification that the harness evaluates on the event traces of the REAL lock (spec_trace:
   exclusion / no reader enters while a writer is registered / no reader that arrived after a waiting
   writer enters before it) accepts every trace of the regenerated program: no verdict ever fails *)
Theorem C16_trace_spec : forall progs s,
  spec_trace (events (mon_step rwlock_gen) (init progs) s) = (None, None, None).
Proof. exact g_trace_spec. Qed.
Print Assumptions C16_trace_spec.

(* readers share, on traces: in no trace does a reader's acquire block unless a writer is inside or
   registered at that moment *)
Theorem C16_trace_readers_share : forall progs s,
  spec_share (events (mon_step rwlock_gen) (init progs) s) = None.
Proof. exact g_trace_share. Qed.
Print Assumptions C16_trace_readers_share.

(* non-vacuity.  reader 0 enters, writer 1 registers and sleeps, reader 2 arrives later and sleeps
   (hypotheses of C16_writer_preference hold with w = 1), reader 0 leaves and wakes both, reader 2
   runs first and must sleep again, writer 1 enters: a writer inside with a reader blocked
   (hypotheses of C16_exclusion and C16_no_lost_wakeup hold). *)
Example C16_example_waiting :
  option_map (fun c => (ar c, ww c, wa c, map ph (ths c)))
             (exec (mon_step rwlock_gen) (init [[Rd]; [Wr]; [Rd]]) [0; 1; 2]%nat)
  = Some (1%Z, 1%Z, false, [Inside Rd; Sleep Wr; Sleep Rd]).
Proof. vm_compute. reflexivity. Qed.

Example C16_example_writer_inside :
  option_map (fun c => (ar c, ww c, wa c, map ph (ths c)))
             (exec (mon_step rwlock_gen) (init [[Rd]; [Wr]; [Rd]]) [0; 1; 2; 0; 2; 1]%nat)
  = Some (0%Z, 0%Z, true, [Idle; Inside Wr; Sleep Rd]).
Proof. vm_compute. reflexivity. Qed.

Example C16_example_completes :
  option_map (fun c => forallb is_finished (ths c))
             (exec (mon_step rwlock_gen) (init [[Rd; Wr]; [Wr]; [Rd]; [Wr; Rd]])
                   [0; 1; 3; 2; 0; 1; 2; 1; 3; 0; 2; 3; 0; 2; 0; 3; 2; 3; 2]%nat)
  = Some true.
Proof. vm_compute. reflexivity. Qed.

(* the trace specification is not vacuous: it rejects a reader entering past a registered writer,
   two writers inside, and a late reader overtaking *)
Example C16_example_spec_rejects :
  spec_trace [ {| e_tid := 0; e_kind := Rd; e_what := Entered |};
               {| e_tid := 1; e_kind := Wr; e_what := Blocked |};
               {| e_tid := 2; e_kind := Rd; e_what := Entered |};
               {| e_tid := 3; e_kind := Wr; e_what := Entered |} ]%nat
  = (Some 3, Some 2, Some 2)%nat.
Proof. vm_compute. reflexivity. Qed.

Example C16_example_share_rejects :
  spec_share [ {| e_tid := 0; e_kind := Rd; e_what := Entered |};
               {| e_tid := 1; e_kind := Rd; e_what := Blocked |} ]%nat = Some 1%nat.
Proof. vm_compute. reflexivity. Qed.
