(* C17 — SyncedEnforcer calls are atomic and equivalent to the plain enforcer.
   Only statements here; proofs are `exact <lemma>`.
   Part A: theorems about the abstract concurrent machine of Synced.v (threads with call lists; events
           Invoke / Enter — guarded by the readers-writer specification that C16 proves of rwlock.py — / Micro /
           Exit), for ANY number of threads, ANY call lists, ANY state type and ANY micro-step semantics of the
           calls.  The only hypothesis is [disciplined] for the calls that occur: a call holds the write lock, or
           holds the read lock and its steps do not change the state, or holds no lock and its steps neither
           change nor read the state.
   Part B: kernel-checked facts about the wrapper table regenerated from casbin/synced_enforcer.py and the API
           regenerated from the plain enforcer classes on THIS run, and the instance of Part A for that table.
   PARTIAL (named in meta/C17.json): threading.RLock/Condition are modelled as a Mesa monitor (C16); the calls
   are atomic-section abstractions whose classification (mutating / reading / stateless) is validated
   dynamically, and memoising reads inside read sections (RoleManager._get_role entries, DomainManager.rm_map,
   the `g` closures stored by enforce) are ASSUMED to commute — the check's one-preemption stratum shows that they do
   not always (known finding C17/readers-race-on-memoising-caches; model-level shape: C17_unguarded_refuted). *)
From Coq Require Import List Bool NArith.
From PyCasbin Require Import Base SyncedBase Synced SyncedProofs SyncedTie.
From PyCasbin Require PatternRM SyncedReads.
From PyCasbinGen Require Import SyncedGen.
Import ListNotations.

(* ------------------------------------------------------------------ Part A: the machine *)

(* "every call that changes policy, role links, model or configuration runs alone": while a call holding the
   write lock is inside, no other lock-holding call is inside *)
Theorem C17_writer_runs_alone :
  forall (state call local ret : Type) (mode : call -> lockmode) (start : call -> local)
         (mstep : call -> local -> state -> local * state) (len : call -> nat) (result : call -> local -> ret)
         (s0 : state) (progs : list (list call)) tr C,
    exec mode start mstep len result (init s0 progs) tr = Some C ->
    forall t th, nth_error (ths C) t = Some th -> in_mode mode LW th = true ->
    forall t' th', t' <> t -> nth_error (ths C) t' = Some th' ->
      in_mode mode LW th' = false /\ in_mode mode LR th' = false.
Proof. exact exclusion_gen. Qed.
Print Assumptions C17_writer_runs_alone.

(* "every reading call runs with no writer active": while a read-locked call is inside no writer is, the live
   state it reads is the final state of the one-at-a-time run of the calls linearised so far (never a dirty
   intermediate state), and its own steps leave that state unchanged *)
Theorem C17_no_dirty_read :
  forall (state call local ret : Type) (mode : call -> lockmode) (start : call -> local)
         (mstep : call -> local -> state -> local * state) (len : call -> nat) (result : call -> local -> ret)
         (s0 : state) (progs : list (list call)),
    (forall c, In c (concat progs) -> disciplined mode mstep c) ->
    forall tr C, exec mode start mstep len result (init s0 progs) tr = Some C ->
    forall t th c l r, nth_error (ths C) t = Some th -> ph th = Run c l r -> mode c = LR ->
      writer_inside mode (ths C) = false
      /\ (exists ord, linearization mode start mstep len result s0 progs tr C ord
                      /\ cur C = fst (seq_run start mstep len result s0 (map snd ord)))
      /\ (forall l', snd (mstep c l' (cur C)) = cur C).
Proof. exact no_dirty_read_gen. Qed.
Print Assumptions C17_no_dirty_read.

(* the first sentence of the property: every trace of the machine has a linearisation (Synced.linearization,
   unfolded here): a duplicate-free order of exactly the calls that returned or are inside, made of the calls
   the threads' programs name, extending real-time precedence and program order, such that the ONE-AT-A-TIME run
   of the calls in that order from the same initial state returns, for every completed call, the value logged in
   the concurrent run, and — whenever no writer is in the middle of its call — ends in the live state *)
Theorem C17_linearizable :
  forall (state call local ret : Type) (mode : call -> lockmode) (start : call -> local)
         (mstep : call -> local -> state -> local * state) (len : call -> nat) (result : call -> local -> ret)
         (s0 : state) (progs : list (list call)),
    (forall c, In c (concat progs) -> disciplined mode mstep c) ->
    forall tr C, exec mode start mstep len result (init s0 progs) tr = Some C ->
    exists ord : list (callid * call),
      NoDup (map fst ord)
      /\ (forall id, In id (map fst ord) <-> In id (completed tr) \/ inside C id)
      /\ (forall id c, In (id, c) ord -> call_of progs id = Some c)
      /\ (forall a b, In a (map fst ord) -> In b (map fst ord) -> precedes tr a b -> before (map fst ord) a b)
      /\ (forall t i j, i < j -> In (t, j) (map fst ord) -> before (map fst ord) (t, i) (t, j))
      /\ map e_id (log C) = completed tr
      /\ (forall e, In e (log C) ->
            In (e_id e, e_ret e) (combine (map fst ord) (snd (seq_run start mstep len result s0 (map snd ord)))))
      /\ (writer_inside mode (ths C) = false -> cur C = fst (seq_run start mstep len result s0 (map snd ord))).
Proof. exact linearizable_gen. Qed.
Print Assumptions C17_linearizable.

(* the monitor that the check runs on observed executions of the real SyncedEnforcer (oracle tag 3: the free
   instance with the lock modes REQUIRED by the hand classification) accepts only linearizable executions *)
Theorem C17_monitor_sound : forall names tr C, fexec (finit (fprogs names)) tr = Some C ->
  exists ord, linearization fc_mode fstart fmstep flen fresult [] (fprogs names) tr C ord.
Proof. exact monitor_linearizable. Qed.
Print Assumptions C17_monitor_sound.

(* ------------------------------------------------------------------ Part B: today's table *)

(* every wrapper delegates to the same-named, classified plain method, under the write lock if it mutates, under
   the read or write lock if it reads, forwards every parameter exactly once and in order, returns the delegated
   value whenever the plain method returns one, and accepts the same calls as the plain method *)
Theorem C17_discipline : forall w t, In w synced_table -> w_target w = Some t ->
  known t = true /\ w_name w = t /\ lock_ok (w_mode w) t = true /\ forwards_all w = true
  /\ (returns_value t = true -> w_returns w = true)
  /\ (forall a, find_api enforcer_api t = Some a -> sig_ok (w_params w) (a_params a) = true).
Proof. exact every_wrapper_facts. Qed.
Print Assumptions C17_discipline.

Theorem C17_discipline_worded : forall w, In w synced_table -> worded_ok w.
Proof. exact every_wrapper_worded. Qed.
Print Assumptions C17_discipline_worded.

(* the non-delegating methods touch the wrapped enforcer only under the write lock (or only its logger), never
   call another wrapper while holding the non re-entrant lock, and let no internal state escape the lock *)
Theorem C17_table_ok : forallb (wrapper_ok enforcer_api) synced_table = true.
Proof. exact discipline. Qed.
Print Assumptions C17_table_ok.

(* the hand classification covers exactly the public API regenerated from the plain enforcer classes and agrees
   with it on which methods return a value; every public method is wrapped or listed as deliberately unwrapped *)
Theorem C17_api_covered :
  api_classified enforcer_api = true /\ table_exact enforcer_api = true /\ returns_agree enforcer_api = true
  /\ unwrapped_listed enforcer_api synced_table = true.
Proof. exact (conj api_is_classified (conj table_is_exact (conj returns_do_agree unwrapped_are_listed))). Qed.
Print Assumptions C17_api_covered.

(* the instance: with the lock modes of today's table, for ANY semantics of the Enforcer methods that respects
   the hand classification, every execution of callable wrappers is linearizable *)
Theorem C17_synced_linearizable :
  forall (state local ret : Type) (start : text -> local) (mstep : text -> local -> state -> local * state)
         (len : text -> nat) (result : text -> local -> ret),
    respects_classes state local mstep ->
    forall (s0 : state) (progs : list (list text)),
      (forall m, In m (concat progs) -> callable synced_table m = true) ->
      forall tr C, exec (table_mode synced_table) start mstep len result (init s0 progs) tr = Some C ->
        exists ord, linearization (table_mode synced_table) start mstep len result s0 progs tr C ord.
Proof. exact synced_linearizable. Qed.
Print Assumptions C17_synced_linearizable.

(* ------------------------------------------------------------------ non-vacuity *)
Local Open Scope N_scope.
Definition ex_w : fcall := {| fc_tag := 7; fc_mode := LW; fc_mut := true |}.
Definition ex_r : fcall := {| fc_tag := 8; fc_mode := LR; fc_mut := false |}.
Definition ex_trace : list event :=
  [EInvoke 0 0; EInvoke 1 0; EEnter 0; EMicro 0; EMicro 0; EExit 0 0; EEnter 1; EMicro 1; EExit 1 0].

(* a writer and a reader: the machine runs the trace, the reader returns the state the writer produced *)
Example C17_example_run :
  option_map (fun C => (cur C, map (fun e => (e_id e, e_ret e)) (log C))) (fexec (finit [[ex_w]; [ex_r]]) ex_trace)
  = Some ([7], [((0, 0)%nat, []); ((1, 0)%nat, [7])]).
Proof. vm_compute. reflexivity. Qed.

(* the reader may not enter while the writer is inside (the guard C16 proves of the lock) *)
Example C17_example_refused :
  fexec (finit [[ex_w]; [ex_r]]) [EInvoke 0 0; EInvoke 1 0; EEnter 0; EMicro 0; EEnter 1] = None.
Proof. vm_compute. reflexivity. Qed.

(* the hypothesis matters: a MUTATING call under the READ lock (build_role_links before the repair) lets a reader
   return the dirty marker 0 — a value no one-at-a-time order produces *)
Definition ex_bad : fcall := {| fc_tag := 7; fc_mode := LR; fc_mut := true |}.
Example C17_undisciplined_dirty_read :
  option_map (fun C => map (fun e => e_ret e) (log C))
    (fexec (finit [[ex_bad]; [ex_r]]) [EInvoke 0 0; EInvoke 1 0; EEnter 0; EMicro 0; EEnter 1; EMicro 1; EExit 1 0])
  = Some [[0]].
Proof. vm_compute. reflexivity. Qed.

(* ... stated as a refutation of the UNGUARDED statement (this is the model-level shape of the listed finding
   C17/readers-race-on-memoising-caches: a "reading" call that in fact writes a cache inside a read section) *)
Theorem C17_unguarded_refuted :
  exists tr C, fexec (finit [[ex_bad]; [ex_r]]) tr = Some C
    /\ In [0] (map (fun e => e_ret e) (log C))
    /\ (forall cs, In cs [[ex_bad; ex_r]; [ex_r; ex_bad]; [ex_r]; [ex_bad]; []] -> ~ In [0] (snd (fseq_run [] cs))).
Proof. exact unguarded_refuted. Qed.
Print Assumptions C17_unguarded_refuted.

(* the table is not empty and the discipline is not vacuous: add_policy is a delegating wrapper under the write
   lock, enforce one under the read lock *)
Example C17_example_table :
  map (fun m => option_map (fun w => (w_target w, w_mode w, w_returns w)) (find_wrapper synced_table m))
      ["add_policy"%text; "enforce"%text]
  = [Some (Some "add_policy"%text, LW, true); Some (Some "enforce"%text, LR, true)]
  /\ 100 <= N.of_nat (List.length synced_table) /\ callable synced_table "add_policy" = true.
Proof. vm_compute. repeat split; intro; discriminate. Qed.

(* ---------------- the commuting of memoising reads, for the pattern role manager ----------------
   C17_linearizable needs `disciplined`: a read-locked call does not change the state.  RoleManager's queries DO write -
   they memoise never-seen names (_get_role) - so the property holds only if those writes are invisible.  For the
   model of the pattern role manager (PatternRM.v, C14) they are: queries issued in between, by this reader or any other
   reader of the same read section, change no later answer, and two batches of queries may run in either order.
   (The remaining trust: this is about call SEQUENCES; interleavings inside one query are explored by the one-preemption
   strata of the C14 and C17 checks, which found and led to the repair of /repo 70fa92b.) *)
Theorem C17_memoising_reads_invisible : forall mf m h qs a b,
  PatternRM.no_deletes h = true -> forallb SyncedReads.is_query qs = true ->
  PatternRM.in_scope mf (h ++ [PatternRM.PHas a b]) = true -> PatternRM.in_scope mf ((h ++ qs) ++ [PatternRM.PHas a b]) = true ->
  fst (PatternRM.pm_has_link mf (PatternRM.pm_run mf (PatternRM.pm_empty m) (h ++ qs)) a b)
  = fst (PatternRM.pm_has_link mf (PatternRM.pm_run mf (PatternRM.pm_empty m) h) a b).
Proof. exact SyncedReads.memoising_reads_invisible. Qed.
Print Assumptions C17_memoising_reads_invisible.

Theorem C17_memoising_reads_commute : forall mf m h q1 q2 a b,
  PatternRM.no_deletes h = true -> forallb SyncedReads.is_query q1 = true -> forallb SyncedReads.is_query q2 = true ->
  PatternRM.in_scope mf ((h ++ q1 ++ q2) ++ [PatternRM.PHas a b]) = true ->
  PatternRM.in_scope mf ((h ++ q2 ++ q1) ++ [PatternRM.PHas a b]) = true ->
  fst (PatternRM.pm_has_link mf (PatternRM.pm_run mf (PatternRM.pm_empty m) (h ++ q1 ++ q2)) a b)
  = fst (PatternRM.pm_has_link mf (PatternRM.pm_run mf (PatternRM.pm_empty m) (h ++ q2 ++ q1)) a b).
Proof. exact SyncedReads.memoising_reads_commute. Qed.
Print Assumptions C17_memoising_reads_commute.

Example C17_example_memoising_reads :
  let mf := PatternRM.table_mf [(5, 1); (6, 1); (5, 2); (6, 2); (7, 2); (1, 2)]%N in
  let h := [PatternRM.PAdd 1 3; PatternRM.PAdd 3 4; PatternRM.PAdd 2 8]%N in
  let q1 := [PatternRM.PHas 5 3; PatternRM.PRoles 6]%N in
  let q2 := [PatternRM.PHas 7 8; PatternRM.PUsers 3]%N in
  PatternRM.no_deletes h = true /\ forallb SyncedReads.is_query q1 = true /\ forallb SyncedReads.is_query q2 = true /\
  PatternRM.in_scope mf ((h ++ q1 ++ q2) ++ [PatternRM.PHas 5 4])%N = true /\
  PatternRM.in_scope mf ((h ++ q2 ++ q1) ++ [PatternRM.PHas 5 4])%N = true /\
  fst (PatternRM.pm_has_link mf (PatternRM.pm_run mf (PatternRM.pm_empty 10) (h ++ q1 ++ q2)) 5 4)%N = true.
Proof. vm_compute. repeat split; reflexivity. Qed.

(* ------------------------------------------------------------------ Part C: the lock the wrappers take
   The Enter events of Part A are guarded by the readers-writer specification; these are the statements that make
   that guard true of casbin/util/rwlock.py AS IT IS ON THIS RUN (program regenerated by translators/rwlock.py, tie
   and invariants proved in RWLockTie.v / RWLockProofs.v; C16 states the full set): a writer inside is alone, a
   sleeping thread's wait condition is true (no lost wake-up), and while some thread has not finished some thread
   can step (no deadlock) - for every number of threads and every schedule. *)
From PyCasbin Require RWLockLang RWLock RWLockProofs RWLockTie.
From PyCasbinGen Require RWLockGen.

Module LockPart.
Import RWLockLang RWLock RWLockProofs RWLockTie RWLockGen.

Theorem C17_lock_writer_is_alone : forall progs c,
  reachable (mon_step rwlock_gen) progs c ->
  forall t, inside c t Wr -> forall t', t' <> t -> outside c t'.
Proof. exact g_exclusion. Qed.
Print Assumptions C17_lock_writer_is_alone.

Theorem C17_lock_no_lost_wakeup : forall progs c,
  reachable (mon_step rwlock_gen) progs c ->
  forall i k, sleeping c i k -> wait_cond k c = true.
Proof. exact g_no_lost_wakeup. Qed.
Print Assumptions C17_lock_no_lost_wakeup.

Theorem C17_lock_deadlock_free : forall progs c,
  reachable (mon_step rwlock_gen) progs c ->
  (exists i t, nth_error (ths c) i = Some t /\ ~ finished t) ->
  exists i, enabled (mon_step rwlock_gen) c i.
Proof. exact g_deadlock_free. Qed.
Print Assumptions C17_lock_deadlock_free.
End LockPart.
