(* C18 — AsyncEnforcer behaves exactly like Enforcer (translation validation).
   Only statements here; proofs are `exact <lemma>`.
   Generic part: semantics-parametric erasure / normalisation theorems over ALL trees.
   Table part: facts decided by the kernel on the ASTs regenerated from today's source
   (coq/gen/AsyncGen.v).  The differential histories of harness/props/c18.py tie the hypothesis
   "awaiting a coroutine that is run to completion is the identity" to the running code. *)
From Coq Require Import List NArith Bool String.
From PyCasbin Require Import Base AsyncEq AsyncEqProofs AsyncTie.
From PyCasbinGen Require Import AsyncGen.
Import ListNotations.
Local Open Scope string_scope.

(* (a) for ANY compositional semantics in which Await is the identity and async def/for/with mean
   what def/for/with mean, a tree and its erasure have the same meaning — for ALL trees *)
Theorem C18_erase_preserves :
  forall (A : Type) (s : tree -> A) (alg : N -> list A -> A),
    compositional s alg -> await_transparent alg ->
    forall t, s (erase t) = s t.
Proof. exact erase_preserves. Qed.
Print Assumptions C18_erase_preserves.

(* refinement: on trees where every Await is applied to an operand satisfying P, Await only has to
   be transparent on such operands *)
Theorem C18_erase_preserves_on :
  forall (A : Type) (s : tree -> A) (alg : N -> list A -> A) (P : tree -> bool),
    compositional s alg -> await_transparent_on P s alg ->
    forall t, awaited_all P t = true -> s (erase t) = s t.
Proof. exact erase_preserves_on. Qed.
Print Assumptions C18_erase_preserves_on.

(* the canonical form used for the comparison (erasure + rewrites R1-R3) preserves meaning in any
   such semantics that also validates the three statement-list rewrites *)
Theorem C18_canon_preserves :
  forall (A : Type) (s : tree -> A) (alg : N -> list A -> A),
    compositional s alg -> await_transparent alg -> seq_rewrites_sound s alg ->
    forall t, s (canon t) = s t.
Proof. exact canon_preserves. Qed.
Print Assumptions C18_canon_preserves.

(* (b) today's source: among ALL methods that the sync and the async class chain resolve to
   different definitions, the canonical trees differ for EXACTLY the two constructor helpers *)
Theorem C18_twins_equal :
  differing shared = ["init_with_file"; "init_with_model_and_adapter"].
Proof. exact twins_equal. Qed.
Print Assumptions C18_twins_equal.

Theorem C18_twins_equal_forallb :
  forallb (fun m => existsb (String.eqb (m_name m)) ["init_with_file"; "init_with_model_and_adapter"]
                    || tree_eqb (canon (m_async m)) (canon (m_sync m))) shared = true.
Proof. exact twins_equal_forallb. Qed.
Print Assumptions C18_twins_equal_forallb.

(* the two exceptions are construction, not part of a call history; exact relation: equal up to the
   adapter class names, and the async one lacks exactly the trailing auto-load statement *)
Theorem C18_constructor_variants : constructor_variants_ok shared = true.
Proof. exact constructor_variants. Qed.
Print Assumptions C18_constructor_variants.

(* methods present on one side only (not part of the SHARED public API); exact lists *)
Theorem C18_one_sided :
  map fst sync_only = ["get_allowed_object_conditions"] /\ map fst async_only = [].
Proof. exact one_sided. Qed.
Print Assumptions C18_one_sided.

(* erasure makes a missing `await` invisible, so: in everything the async chain executes, a call of
   an `async def` callee (self.m, self.adapter.m, a callback tested with iscoroutinefunction) is
   always the operand of an Await, and nothing else is awaited *)
Theorem C18_await_discipline :
  discipline_failures shared async_only core_inherited adapter_iface = [].
Proof. exact await_discipline. Qed.
Print Assumptions C18_await_discipline.

Theorem C18_imports_agree :
  imports_consistent imports = true /\ imports_uncovered imports shared = [].
Proof. exact imports_agree. Qed.
Print Assumptions C18_imports_agree.

(* R1/R2 delete the binding of a temporary; in every twin, each temporary so eliminated occurs nowhere
   else in the method (a later use would observe the difference; a local rewrite cannot see it) *)
Theorem C18_temps_scoped : unscoped_temps shared = [].
Proof. exact temps_scoped_today. Qed.
Print Assumptions C18_temps_scoped.

(* together: in ANY compositional semantics where await is the identity and normalisation preserves
   the meaning of methods whose eliminated temporaries occur nowhere else, every shared method other
   than the two constructor helpers means the same in both classes *)
Theorem C18_twins_denote_equal :
  forall (A : Type) (s : tree -> A) (alg : N -> list A -> A),
    compositional s alg -> await_transparent alg -> norm_sound_on_scoped s ->
    forall m, In m shared -> ~ In (m_name m) ["init_with_file"; "init_with_model_and_adapter"] ->
    s (m_async m) = s (m_sync m).
Proof. exact twins_denote_equal_scoped_today. Qed.
Print Assumptions C18_twins_denote_equal.

(* the method-level hypothesis follows from validity of R1-R3 on every statement list *)
Theorem C18_local_rules_suffice :
  forall (A : Type) (s : tree -> A) (alg : N -> list A -> A),
    compositional s alg -> seq_rewrites_sound s alg -> norm_sound_on_scoped s.
Proof. exact norm_sound_from_local. Qed.
Print Assumptions C18_local_rules_suffice.

Theorem C18_erase_preserves_today :
  forall (A : Type) (s : tree -> A) (alg : N -> list A -> A),
    compositional s alg -> await_transparent_on is_call s alg ->
    forall m, In m shared -> s (erase (m_async m)) = s (m_async m).
Proof. exact erase_preserves_today. Qed.
Print Assumptions C18_erase_preserves_today.

(* non-vacuity *)
Theorem C18_table_nontrivial :
  existsb (fun m => is_async_def (m_async m)) shared = true
  /\ forallb (fun m => tree_eqb (m_async m) (m_sync m)) shared = false
  /\ existsb (fun m => negb (tree_eqb (erase (m_async m)) (erase (m_sync m))) && twin_eqb m) shared = true.
Proof. exact table_nontrivial. Qed.
Print Assumptions C18_table_nontrivial.

Theorem C18_temps_nontrivial :
  existsb (fun m => negb (match norm_vars (erase (m_async m)) with [] => true | _ => false end)) shared = true.
Proof. exact temps_nontrivial. Qed.

(* the hypotheses of (a) are satisfiable by a non-trivial semantics: erase itself *)
Example C18_hypotheses_satisfiable : compositional erase erase_alg /\ await_transparent erase_alg.
Proof. exact (conj erase_compositional erase_alg_transparent). Qed.

(* all hypotheses of C18_canon_preserves / C18_twins_denote_equal are jointly satisfiable by a
   non-constant semantics: "does literal k occur in the tree" *)
Example C18_all_hypotheses_satisfiable : forall k,
  compositional (has_lit k) has_lit_alg /\ await_transparent has_lit_alg /\ seq_rewrites_sound (has_lit k) has_lit_alg.
Proof. exact has_lit_instance. Qed.

(* `async def f(self): return await self.g()`  erases to  `def f(self): return self.g()`;
   the comparison sees a changed index:  x[0] vs x[1] *)
Example C18_example :
  let self_g := Node T_Call [Node T_Attribute [name_load K_self; Ident 100; ctx_load]; seq []; seq []] in
  erase (Node T_AsyncFunctionDef [Ident 101; seq [Node T_Return [Node T_Await [self_g]]]])
  = Node T_FunctionDef [Ident 101; seq [Node T_Return [self_g]]]
  /\ tree_eqb (canon (Node T_Subscript [name_load 102; Node T_Constant [Lit 103]; ctx_load]))
              (canon (Node T_Subscript [name_load 102; Node T_Constant [Lit 104]; ctx_load])) = false.
Proof. vm_compute. split; reflexivity. Qed.
