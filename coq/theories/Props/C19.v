(* C19 — FastEnforcer decides exactly like Enforcer.
   Model: Fast.v (casbin/model/policy_fast.py, model_fast.py, fast_enforcer.py and policy.py running on
   the indexed container).  [k0 k1] is the cache-key order; [Inv] the representation invariant of the
   two-level index; [R k0 k1 p l]: the index p (no filter pending) and the plain rule list l hold the
   same duplicate-free set of rules. *)
From Coq Require Import List NArith Bool Permutation.
From PyCasbin Require Import Base Effect Enforce Policy PolicyProofs RoleGraph Mgmt Fast FastProofs.
Import ListNotations.
Local Open Scope N_scope.

(* ---------- the index ---------- *)
(* a bucket holds exactly the stored rules whose key fields are the bucket's keys *)
Theorem C19_bucket_exact : forall k0 k1 c a b r,
  Inv k0 k1 c -> (In r (bk c a b) <-> In r (all_rules c) /\ keys_of k0 k1 r = Some (a, b)).
Proof. exact bucket_exact. Qed.
Print Assumptions C19_bucket_exact.

(* the iteration yields every stored rule once *)
Theorem C19_index_duplicate_free : forall k0 k1 c, Inv k0 k1 c -> NoDup (all_rules c).
Proof. exact NoDup_all_rules. Qed.
Print Assumptions C19_index_duplicate_free.

(* `rule in policy` is membership in the stored set, whatever filter is pending *)
Theorem C19_contains_is_membership : forall k0 k1 p r,
  Inv k0 k1 (fp_cache p) -> (fp_contains k0 k1 p r = true <-> In r (all_rules (fp_cache p))).
Proof. exact contains_spec. Qed.
Print Assumptions C19_contains_is_membership.

(* append = set insertion (nothing else changes, the invariant and the pending filter are kept) *)
Theorem C19_append_refines_set_add : forall k0 k1 p item a b,
  Inv k0 k1 (fp_cache p) -> keys_of k0 k1 item = Some (a, b) ->
  exists p', fp_append k0 k1 p item = (p', Ok tt)
    /\ Inv k0 k1 (fp_cache p') /\ fp_filter p' = fp_filter p
    /\ forall r, In r (all_rules (fp_cache p')) <-> r = item \/ In r (all_rules (fp_cache p)).
Proof. exact append_spec. Qed.
Print Assumptions C19_append_refines_set_add.

(* a rule too short for a key position cannot be stored: IndexError, nothing changes *)
Theorem C19_append_short_rule_raises : forall k0 k1 p item,
  keys_of k0 k1 item = None -> fp_append k0 k1 p item = (p, Err EIndex).
Proof. exact append_short. Qed.
Print Assumptions C19_append_short_rule_raises.

(* remove of a stored rule = set deletion of exactly that rule *)
Theorem C19_remove_refines_set_remove : forall k0 k1 p item,
  Inv k0 k1 (fp_cache p) -> In item (all_rules (fp_cache p)) ->
  exists p', fp_remove k0 k1 p item = (p', Ok true)
    /\ Inv k0 k1 (fp_cache p') /\ fp_filter p' = fp_filter p
    /\ forall r, In r (all_rules (fp_cache p')) <-> In r (all_rules (fp_cache p)) /\ r <> item.
Proof. exact remove_spec. Qed.
Print Assumptions C19_remove_refines_set_remove.

(* remove of an absent rule never changes the index *)
Theorem C19_remove_absent_changes_nothing : forall k0 k1 p item,
  Inv k0 k1 (fp_cache p) -> ~ In item (all_rules (fp_cache p)) ->
  exists res, fp_remove k0 k1 p item = (p, res).
Proof. exact remove_absent. Qed.
Print Assumptions C19_remove_absent_changes_nothing.

(* item assignment through index = delete the old rule, insert the new one *)
Theorem C19_setitem_refines_replace : forall k0 k1 p old new i a b,
  Inv k0 k1 (fp_cache p) -> fp_getitem p i = Ok old -> In old (all_rules (fp_cache p)) ->
  keys_of k0 k1 new = Some (a, b) ->
  exists p', fp_setitem k0 k1 p i new = (p', Ok tt)
    /\ Inv k0 k1 (fp_cache p') /\ fp_filter p' = fp_filter p
    /\ forall r, In r (all_rules (fp_cache p')) <-> r = new \/ (In r (all_rules (fp_cache p)) /\ r <> old).
Proof. exact setitem_spec. Qed.
Print Assumptions C19_setitem_refines_replace.

(* under the filter chosen by apply_filter the iteration is exactly the stored rules with those key fields *)
Theorem C19_filtered_view_exact : forall k0 k1 p a b r,
  Inv k0 k1 (fp_cache p) ->
  (In r (fp_iter (fp_apply_filter p a b)) <-> In r (all_rules (fp_cache p)) /\ keys_of k0 k1 r = Some (a, b)).
Proof. exact filtered_view_exact. Qed.
Print Assumptions C19_filtered_view_exact.

(* fast_policy_filter leaves the filter cleared, also when its body raises *)
Theorem C19_with_filter_clears : forall (A : Type) p a b (body : fpol -> fpol * result A),
  fp_filter (fst (fp_with_filter p a b body)) = FNone.
Proof. exact @with_filter_clears. Qed.
Print Assumptions C19_with_filter_clears.

(* ---------- management calls: same results, same set of rules ---------- *)
Theorem C19_management_step_simulates : forall k0 k1 p l o,
  R k0 k1 p l -> wf_op k0 k1 o ->
  exists p', fstep k0 k1 p o = (p', snd (pstep l o)) /\ R k0 k1 p' (fst (pstep l o)).
Proof. exact sim_step. Qed.
Print Assumptions C19_management_step_simulates.

(* every history of add / batch add / remove / batch remove / filtered remove / update / batch update calls,
   of any length and with any arguments that reach the key positions: the same answers call by call and
   the same set of rules at the end *)
Theorem C19_history_simulation : forall k0 k1 ops p l,
  R k0 k1 p l -> Forall (wf_op k0 k1) ops ->
  snd (frun k0 k1 p ops) = snd (prun l ops) /\ R k0 k1 (fst (frun k0 k1 p ops)) (fst (prun l ops)).
Proof. exact history_simulation. Qed.
Print Assumptions C19_history_simulation.

(* the plain side of that simulation is the rule store of C06 *)
Theorem C19_plain_side_is_policy_store : forall l o, fst (pstep l o) = sstep l o.
Proof. exact pstep_store. Qed.
Print Assumptions C19_plain_side_is_policy_store.

Theorem C19_index_is_permutation_of_plain : forall k0 k1 p l, R k0 k1 p l -> Permutation (fp_iter p) l.
Proof. exact R_permutation. Qed.
Print Assumptions C19_index_is_permutation_of_plain.

(* the index never hides a rule: every rule of the plain policy is in the whole iteration AND in the
   filtered view selected by its own key fields *)
Theorem C19_never_hides : forall k0 k1 p l r,
  R k0 k1 p l -> In r l ->
  exists a b, keys_of k0 k1 r = Some (a, b) /\ In r (fp_iter (fp_apply_filter p a b)) /\ In r (fp_iter p).
Proof. exact never_hides. Qed.
Print Assumptions C19_never_hides.

(* ... and never resurrects one: a rule that is not in the plain policy is in no view of the index *)
Theorem C19_never_resurrects : forall k0 k1 p l r,
  R k0 k1 p l -> ~ In r l ->
  ~ In r (fp_iter p) /\ (forall a b, ~ In r (fp_iter (fp_apply_filter p a b))) /\ fp_contains k0 k1 p r = false.
Proof. exact never_resurrects. Qed.
Print Assumptions C19_never_resurrects.

(* after ANY management history from the empty policy, the view FastEnforcer selects for keys (a, b) is
   exactly the plain policy's rules with those key fields *)
Theorem C19_history_view_exact : forall k0 k1 ops, Forall (wf_op k0 k1) ops ->
  forall r a b, In r (fp_iter (fp_apply_filter (fst (frun k0 k1 fp_new ops)) a b))
                <-> In r (fst (prun [] ops)) /\ keys_of k0 k1 r = Some (a, b).
Proof. exact history_view_exact. Qed.
Print Assumptions C19_history_view_exact.

(* ---------- decisions ---------- *)
(* keys compared by equality: a rule whose key fields differ from the request's cannot match *)
Theorem C19_outside_bucket_is_nomatch : forall k0 k1 k s req r a b a' b',
  admissible k k0 = true -> admissible k k1 = true ->
  nth_error req k0 = Some a -> nth_error req k1 = Some b ->
  keys_of k0 k1 r = Some (a', b') -> (a', b') <> (a, b) -> length r = p_arity k ->
  rule_outcome k s req r = NoMatch.
Proof. exact outside_nomatch. Qed.
Print Assumptions C19_outside_bucket_is_nomatch.

(* FastEnforcer.enforce = Enforcer.enforce (result AND the index is handed back unchanged, filter cleared),
   for EVERY request (whatever its length), the order-insensitive effectors, cache keys on fields the matcher
   compares by equality and rules of the declared length — EXCEPT under empty_rule_quirk (known finding
   C19/empty-key-request) *)
Theorem C19_decide_equal_partial : forall k0 k1 k s p l req,
  R k0 k1 p l ->
  admissible k k0 = true -> admissible k k1 = true -> k_eff k <> PR ->
  (forall r, In r l -> length r = p_arity k) ->
  empty_rule_quirk k0 k1 k s p req = false ->
  fe_enforce k0 k1 k s p req = (p, plain_enforce k s l req).
Proof. exact decide_equal. Qed.
Print Assumptions C19_decide_equal_partial.

Theorem C19_decide_equal_after_any_history_partial : forall k0 k1 k s ops req,
  Forall (wf_op k0 k1) ops ->
  admissible k k0 = true -> admissible k k1 = true -> k_eff k <> PR ->
  (forall r, In r (fst (prun [] ops)) -> length r = p_arity k) ->
  empty_rule_quirk k0 k1 k s (fst (frun k0 k1 fp_new ops)) req = false ->
  snd (fe_enforce k0 k1 k s (fst (frun k0 k1 fp_new ops)) req) = plain_enforce k s (fst (prun [] ops)) req.
Proof. exact decide_equal_after_history. Qed.
Print Assumptions C19_decide_equal_after_any_history_partial.

(* the plain side is the decision of the Mgmt model's Enforcer (C01/C04...) *)
Theorem C19_plain_is_mgmt_enforcer : forall k s req,
  plain_enforce k s (m_p s) req = rbind (snd (enforce_ex_m k s req)) (fun p => Ok (fst p)).
Proof. exact plain_is_mgmt. Qed.
Print Assumptions C19_plain_is_mgmt_enforcer.

(* a request that does not reach a cache-key position takes the ordinary path: exactly the plain enforcer's
   answer (True when enforcement is disabled, "invalid request size" otherwise), whatever rules are stored, any
   effector, and the index is untouched *)
Theorem C19_short_request_like_plain : forall k0 k1 k s p l req,
  admissible k k0 = true -> admissible k k1 = true ->
  nth_error req k0 = None \/ nth_error req k1 = None ->
  fe_enforce k0 k1 k s p req = (p, plain_enforce k s l req).
Proof. exact short_request_like_plain. Qed.
Print Assumptions C19_short_request_like_plain.

(* ---------- refuted parts (each witness replayed on the implementation is a listed finding) ---------- *)
(* known finding C19/empty-key-request: every hypothesis of C19_decide_equal_partial but the guard *)
Theorem C19_empty_key_request_refuted :
  exists k s p l req a b,
    R 2 1 p l /\ admissible k 2 = true /\ admissible k 1 = true /\ k_eff k <> PR
    /\ (forall r, In r l -> length r = p_arity k)
    /\ nth_error req 2 = Some a /\ nth_error req 1 = Some b
    /\ empty_rule_quirk 2 1 k s p req = true
    /\ snd (fe_enforce 2 1 k s p req) = Ok true /\ plain_enforce k s l req = Ok false.
Proof. exact empty_key_request_refuted. Qed.
Print Assumptions C19_empty_key_request_refuted.

(* the priority effector: same answers and same set, but update moves a rule to the end of its bucket while
   the list rewrites in place; the first deciding rule differs and so does the decision *)
Theorem C19_priority_order_refuted :
  Forall (wf_op 2 1) pr_ops /\ admissible K_EFT_PR 2 = true /\ admissible K_EFT_PR 1 = true
  /\ snd (frun 2 1 fp_new pr_ops) = snd (prun [] pr_ops)
  /\ fst (prun [] pr_ops) = [pr_A; pr_D]
  /\ fp_iter (fp_apply_filter (fst (frun 2 1 fp_new pr_ops)) 1009 1008) = [pr_D; pr_A]
  /\ plain_enforce K_EFT_PR (s_on K_EFT_PR) (fst (prun [] pr_ops)) [1003; 1008; 1009] = Ok true
  /\ snd (fe_enforce 2 1 K_EFT_PR (s_on K_EFT_PR) (fst (frun 2 1 fp_new pr_ops)) [1003; 1008; 1009]) = Ok false.
Proof. exact priority_order_refuted. Qed.
Print Assumptions C19_priority_order_refuted.

(* ---------- non-vacuity ---------- *)
(* a 7-call history on the index with key order [2; 1]: answers and final views *)
Example C19_example_history :
  snd (frun 2 1 fp_new ex_ops) = [Ok true; Ok true; Ok false; Ok true; Ok true; Ok true; Ok true]
  /\ snd (prun [] ex_ops) = snd (frun 2 1 fp_new ex_ops)
  /\ fst (prun [] ex_ops) = [[1006; 1008; 1009]]
  /\ fp_iter (fst (frun 2 1 fp_new ex_ops)) = [[1006; 1008; 1009]]
  /\ fp_iter (fp_apply_filter (fst (frun 2 1 fp_new ex_ops)) 1009 1008) = [[1006; 1008; 1009]]
  /\ fp_iter (fp_apply_filter (fst (frun 2 1 fp_new ex_ops)) 1009 1011) = [].
Proof. vm_compute. repeat split; reflexivity. Qed.

(* the hypotheses of C19_decide_equal_after_any_history_partial hold of that history with the ACL matcher and a
   request that selects a non-empty bucket, one that selects an empty bucket with non-empty key fields, and a
   request that does not reach the key positions *)
Example C19_example_decide_hypotheses :
  Forall (wf_op 2 1) ex_ops /\ admissible K_ACL 2 = true /\ admissible K_ACL 1 = true /\ k_eff K_ACL <> PR
  /\ (forall r, In r (fst (prun [] ex_ops)) -> length r = p_arity K_ACL)
  /\ empty_rule_quirk 2 1 K_ACL (s_on K_ACL) (fst (frun 2 1 fp_new ex_ops)) [1006; 1008; 1009] = false
  /\ snd (fe_enforce 2 1 K_ACL (s_on K_ACL) (fst (frun 2 1 fp_new ex_ops)) [1006; 1008; 1009]) = Ok true
  /\ empty_rule_quirk 2 1 K_ACL (s_on K_ACL) (fst (frun 2 1 fp_new ex_ops)) [1006; 1011; 1009] = false
  /\ snd (fe_enforce 2 1 K_ACL (s_on K_ACL) (fst (frun 2 1 fp_new ex_ops)) [1006; 1011; 1009]) = Ok false
  (* a request shorter than a key position: disabled -> True, enabled -> invalid request size *)
  /\ snd (fe_enforce 2 1 K_ACL (s_off K_ACL) (fst (frun 2 1 fp_new ex_ops)) [1006]) = Ok true
  /\ snd (fe_enforce 2 1 K_ACL (s_on K_ACL) (fst (frun 2 1 fp_new ex_ops)) [1006]) = Err EArity.
Proof.
  split; [repeat constructor; unfold wf; vm_compute; discriminate|].
  repeat split; try (vm_compute; reflexivity); try discriminate.
  vm_compute. intros r [H|[]]. subst. reflexivity.
Qed.

(* ---------------------------------------------------------------------------------------------------------------
   Of the SOURCE: FastEnforcer.enforce (casbin/fast_enforcer.py) and the filter it puts around the ordinary decision procedure
   (casbin/model/policy_fast.py: fast_policy_filter, FastPolicy.apply_filter, clear_filter; in_cache compared with its recognised
   body) are re-translated on every run (translators/fastenforce.py, FastLang.v: every statement one recognised step);
   FastTie.v proves that the regenerated skeleton computes fe_enforce - the function the theorems above compare with the plain
   enforcer - for every key order, kind, state, container and request: which requests take the unfiltered path, that the
   filter is applied before and cleared after the decision, and that the decision procedure inside is the ordinary one over
   what the container's iteration hands out. *)
From PyCasbin Require FastLang FastTie.
From PyCasbinGen Require FastGen.

Theorem C19_source_fast_enforce : forall k0 k1 k s p req,
  FastTie.run_fast_enforce k0 k1 k s p req = Some (fe_enforce k0 k1 k s p req).
Proof. exact FastTie.tie_fe_enforce. Qed.
Print Assumptions C19_source_fast_enforce.

(* ---------- the container itself, from the source ----------
   FastPolicy.__contains__, append, remove and __get_policy (behind __iter__ / __len__) regenerated from
   casbin/model/policy_fast.py on this run (coq/gen/FastContGen.v; every statement one recognised step of FContLang.v;
   __init__, __iter__, __len__ and in_cache compared with their recognised bodies), executed by FContLang's interpreter:
   the container afterwards, the returned value and the errors are those of fp_contains / fp_append / fp_remove / fp_iter -
   the container the theorems above are about. *)
From PyCasbin Require FContLang FContTie.
From PyCasbinGen Require FastContGen.

Theorem C19_source_contains : forall k0 k1 p item,
  FContLang.crun k0 k1 item 20 FastContGen.fp_contains_gen p = (p, Ok (FContLang.CVB (fp_contains k0 k1 p item))).
Proof. exact FContTie.tie_fp_contains. Qed.
Print Assumptions C19_source_contains.

Theorem C19_source_append : forall k0 k1 p item,
  FContLang.crun k0 k1 item 20 FastContGen.fp_append_gen p = FContTie.cres_unit (fp_append k0 k1 p item).
Proof. exact FContTie.tie_fp_append. Qed.
Print Assumptions C19_source_append.

Theorem C19_source_remove : forall k0 k1 p item,
  FContLang.crun k0 k1 item 20 FastContGen.fp_remove_gen p = FContTie.cres_bool (fp_remove k0 k1 p item).
Proof. exact FContTie.tie_fp_remove. Qed.
Print Assumptions C19_source_remove.

Theorem C19_source_get_policy : forall k0 k1 p item,
  FContLang.crun k0 k1 item 20 FastContGen.fp_get_policy_gen p = (p, Ok (FContLang.CVL (fp_iter p))).
Proof. exact FContTie.tie_fp_get_policy. Qed.
Print Assumptions C19_source_get_policy.

Example C19_source_container_example :
  let p1 := fst (FContLang.crun 1 2 [1003; 1008; 1011] 20 FastContGen.fp_append_gen fp_new) in
  let p2 := fst (FContLang.crun 1 2 [1004; 1008; 1011] 20 FastContGen.fp_append_gen p1) in
  snd (FContLang.crun 1 2 [1004; 1008; 1011] 20 FastContGen.fp_contains_gen p2) = Ok (FContLang.CVB true)
  /\ snd (FContLang.crun 1 2 [1004; 1008; 1012] 20 FastContGen.fp_contains_gen p2) = Ok (FContLang.CVB false)
  /\ snd (FContLang.crun 1 2 [] 20 FastContGen.fp_get_policy_gen p2) = Ok (FContLang.CVL [[1003; 1008; 1011]; [1004; 1008; 1011]])
  /\ snd (FContLang.crun 1 2 [1003; 1008] 20 FastContGen.fp_append_gen p2) = Err EIndex.
Proof. vm_compute. repeat split; reflexivity. Qed.
