(* C20 — every successful policy change notifies the watcher exactly once. *)
From Coq Require Import List NArith Bool.
From PyCasbin Require Import Base Effect Policy PolicyProofs RoleGraph Mgmt MgmtProofs CallsProofs.
Import ListNotations.
Local Open Scope N_scope.

(* a notification is exactly one call: the operation's own callback with the operation's own arguments
   if the watcher offers it (watcher kind >= the kind that introduces the callback), else update();
   none at all without a watcher or with auto-notify off *)
Theorem C20_notification_shape : forall k s c from,
  notify k s c from = if notifying k s then [if from <=? k_watcher k then c else WUpdate] else [].
Proof. exact notify_spec. Qed.
Print Assumptions C20_notification_shape.

Theorem C20_at_most_one : forall k s c from, length (notify k s c from) = if notifying k s then 1%nat else 0%nat.
Proof. exact notify_length. Qed.
Print Assumptions C20_at_most_one.

(* per operation: notified iff the call reports success (and an adapter is attached with auto-save on),
   together with — i.e. after — the adapter call; a failed / no-op call notifies nobody *)
Theorem C20_add : forall k s r,
  let out := snd (step k s (OAdd PT_P r)) in
  let changed := negb (has_policy (m_p s) r) in
  o_val out = ok (vbool changed)
  /\ (o_acalls out, o_wcalls out) = calls_if changed (use_adapter k s) (AAdd PT_P r) (notify k s (WAdd PT_P r) 2).
Proof. exact step_add_p. Qed.
Print Assumptions C20_add.

Theorem C20_remove : forall k s r, NoDup (m_p s) ->
  let out := snd (step k s (ORemove PT_P r)) in
  let changed := has_policy (m_p s) r in
  o_val out = ok (vbool changed)
  /\ (o_acalls out, o_wcalls out) = calls_if changed (use_adapter k s) (ARemove PT_P r) (notify k s (WRemove PT_P r) 2).
Proof. exact step_remove_p. Qed.
Print Assumptions C20_remove.

Theorem C20_add_many : forall k s rs,
  let out := snd (step k s (OAddMany PT_P rs)) in
  let changed := batch_addable (m_p s) [] rs in
  o_val out = ok (vbool changed)
  /\ (o_acalls out, o_wcalls out) = calls_if changed (use_adapter k s) (AAddMany PT_P rs) (notify k s (WAddMany PT_P rs) 2).
Proof. exact step_add_many_p. Qed.
Print Assumptions C20_add_many.

Theorem C20_remove_many : forall k s rs, NoDup (m_p s) ->
  let out := snd (step k s (ORemoveMany PT_P rs)) in
  let changed := forallb (has_policy (m_p s)) rs && nodupb rule_eqb rs in
  o_val out = ok (vbool changed)
  /\ (o_acalls out, o_wcalls out) = calls_if changed (use_adapter k s) (ARemoveMany PT_P rs) (notify k s (WRemoveMany PT_P rs) 2).
Proof. exact step_remove_many_p. Qed.
Print Assumptions C20_remove_many.

Theorem C20_update : forall k s o n, NoDup (m_p s) -> k_prio k = false ->
  let out := snd (step k s (OUpdate o n)) in
  let changed := has_policy (m_p s) o && negb (has_policy (m_p s) n) in
  o_val out = ok (vbool changed)
  /\ (o_acalls out, o_wcalls out) = calls_if changed (use_adapter k s) (AUpdate PT_P o n) (notify k s (WUpdatePolicy o n) 3).
Proof. exact step_update_p. Qed.
Print Assumptions C20_update.

(* internal layer, any policy type (role assignments included) *)
Theorem C20_internal_add : forall k s pt r,
  let x := i_add k s pt r in let changed := snd (fst (fst x)) in
  (snd (fst x), snd x) = calls_if changed (use_adapter k s) (AAdd pt r) (notify k s (WAdd pt r) 2).
Proof. exact i_add_calls. Qed.
Print Assumptions C20_internal_add.

Theorem C20_internal_remove_filtered : forall k s pt i vs x,
  i_remove_filtered k s pt i vs = Ok x ->
  let changed := snd (fst (fst x)) in
  (snd (fst x), snd x) = calls_if changed (use_adapter k s) (ARemoveFiltered pt i vs)
                                  (notify k s (WRemoveFiltered pt i vs) 2).
Proof. exact i_remove_filtered_calls. Qed.
Print Assumptions C20_internal_remove_filtered.

Theorem C20_internal_remove_filtered_grouping : forall k s pt i vs x,
  i_remove_filtered_eff k s pt i vs = Ok x ->
  let gone := snd (fst (fst x)) in
  (snd (fst x), snd x) = calls_if (negb (match gone with [] => true | _ => false end)) (use_adapter k s)
                                  (ARemoveFiltered pt i vs) (notify k s (WRemoveFiltered pt i vs) 2).
Proof. exact i_remove_filtered_eff_calls. Qed.
Print Assumptions C20_internal_remove_filtered_grouping.

Theorem C20_grouping_calls_notify_the_same : forall k s pt r,
  let out := snd (g_add k s pt r) in let x := i_add k s pt r in
  o_acalls out = snd (fst x) /\ o_wcalls out = snd x.
Proof. exact g_add_calls. Qed.
Print Assumptions C20_grouping_calls_notify_the_same.

(* save_policy notifies exactly once whenever a watcher is set *)
Theorem C20_save_notifies_once : forall k s, k_adapter k = true ->
  let out := snd (step k s OSave) in
  o_acalls out = [ASave (all_rows k s)]
  /\ o_wcalls out = if 0 <? k_watcher k then [if 2 <=? k_watcher k then WSave else WUpdate] else [].
Proof. exact step_save. Qed.
Print Assumptions C20_save_notifies_once.

(* calls that change no policy notify nobody *)
Theorem C20_other_calls_are_silent : forall k s o,
  match o with
  | QEnforce _ | QEnforceEx _ | QPolicy _ | QFiltered _ _ _ | QHas _ _ | QRoles _ | QUsers _
  | QRolesDom _ _ | QUsersDom _ _ | QAllSubjects | QAllObjects | QAllActions | QAllRoles
  | QPermsForUser _ | QPermsForUserDom _ _ | OAutoSave _ | OAutoBuild _ | OAutoNotify _ | OEnable _ | OClear => True
  | _ => False
  end -> o_acalls (snd (step k s o)) = [] /\ o_wcalls (snd (step k s o)) = [].
Proof. exact silent_calls. Qed.
Print Assumptions C20_other_calls_are_silent.

(* non-vacuity: an updatable extended watcher; add (specific), duplicate add (none), update (specific),
   auto-notify off + remove (none), save (once) *)
Definition k_w3 : mkind := mkKind false false false false false AO true 3.
Example C20_example :
  map (fun o => o_wcalls o)
      (snd (run k_w3 (init k_w3 []) [OAdd 0 [1;2;3]; OAdd 0 [1;2;3]; OUpdate [1;2;3] [4;5;6];
                                     OAutoNotify false; ORemove 0 [4;5;6]; OSave]))
  = [[WAdd 0 [1;2;3]]; []; [WUpdatePolicy [1;2;3] [4;5;6]]; []; []; [WSave]].
Proof. vm_compute. reflexivity. Qed.

(* ---------------------------------------------------------------------------------------------------------------
   Read off the SOURCE (casbin/internal_enforcer.py re-translated on every run, see Props/C09.v and InternalTie.v):
   the regenerated _add_policy sends nothing when it reports failure, and exactly one notification - the operation's own
   callback iff the watcher offers it, else update() - when it reports success with adapter, auto-save, watcher and
   auto-notify on; the regenerated update / filtered-removal methods are Mgmt.v's steps, whose notifications the theorems
   above characterise. *)
From PyCasbin Require IntLang InternalTie.
From PyCasbinGen Require InternalGen.

Theorem C20_source_add_notifies_once : forall E l r,
  let '(v, _, ac, wc) := IntLang.irun E InternalGen.internal_gen InternalTie.IFUEL InternalGen.im_add_policy l [IntLang.ARule r] in
  (v = Ok (IntLang.IVB false) -> ac = [] /\ wc = []) /\
  (v = Ok (IntLang.IVB true) -> IntLang.ie_adapter E && IntLang.ie_auto_save E = true ->
   IntLang.ie_watcher E && IntLang.ie_auto_notify E = true ->
   ac = [AAdd (IntLang.ie_pt E) r] /\ wc = [if IntLang.ie_offers_ex E then WAdd (IntLang.ie_pt E) r else WUpdate]).
Proof. exact InternalTie.src_add_notifies_once. Qed.
Print Assumptions C20_source_add_notifies_once.

Theorem C20_source_update : forall k s o n,
  IntLang.irun (InternalTie.env_of k s PT_P) InternalGen.internal_gen InternalTie.IFUEL InternalGen.im_update_policy
    (m_p s) [IntLang.ARule o; IntLang.ARule n] =
  match update_policy (prio_tok k PT_P) (m_p s) o n with
  | Err c => (Err c, m_p s, [], [])
  | Ok (l', b) =>
      if negb b then (Ok (IntLang.IVB false), l', [], [])
      else if use_adapter k s then (Ok (IntLang.IVB true), l', [AUpdate PT_P o n], notify k s (WUpdatePolicy o n) 3)
      else (Ok (IntLang.IVB true), l', [], [])
  end.
Proof. exact InternalTie.src_update. Qed.
Print Assumptions C20_source_update.

Theorem C20_source_remove_filtered : forall k s pt i vs,
  IntLang.irun (InternalTie.env_of k s pt) InternalGen.internal_gen InternalTie.IFUEL InternalGen.im_remove_filtered_policy
    (get_store s pt) [IntLang.ANat i; IntLang.ANames vs] =
  match i_remove_filtered k s pt i vs with
  | Err c => (Err c, get_store s pt, [], [])
  | Ok (s', b, ac, wc) => (Ok (IntLang.IVB b), get_store s' pt, ac, wc)
  end.
Proof. exact InternalTie.src_i_remove_filtered. Qed.
Print Assumptions C20_source_remove_filtered.

Theorem C20_source_add_many : forall k s pt rs,
  IntLang.irun (InternalTie.env_of k s pt) InternalGen.internal_gen InternalTie.IFUEL InternalGen.im_add_policies
    (get_store s pt) [IntLang.ARules rs] =
  let '(s', b, ac, wc) := i_add_many k s pt rs in (Ok (IntLang.IVB b), get_store s' pt, ac, wc).
Proof. exact InternalTie.src_i_add_many. Qed.
Print Assumptions C20_source_add_many.
