(* RWLock.v — C16: semantics of the monitor language (Mesa monitor), the interpreter [mon_step]
   that runs the program regenerated from casbin/util/rwlock.py, the hand-written abstract
   transition system [rw_step], the specification predicates, and the oracle.  No proofs here.

   MODELLING ASSUMPTIONS (threading.RLock / threading.Condition are modelled, not verified):
   M1  One step = one *monitor segment* of one thread: from the moment it obtains the mutex
       (`with self._lock` / re-acquisition after `wait`) to the moment it gives it up (end of the
       with-block, or `wait`).  Sound because the translator checks that every access to the three
       fields is inside `with self._lock`, so segments of different threads cannot overlap; the
       scheduler's choice "who gets the mutex next" is exactly the choice of the next step.
   M2  `Condition.wait()` releases the mutex and enqueues the caller atomically (no notification
       can be lost between the two), and returns only after a notification chose the caller AND the
       caller re-acquired the mutex: a notified thread ([Woken]) *contends* for the mutex with
       everybody else (Mesa semantics: the condition may be false again when it finally runs).
   M3  `notify_all()` moves every sleeper to [Woken]; `notify()` moves the sleeper that has waited
       longest (CPython keeps the waiters in a FIFO deque).  No spurious wake-ups (CPython's
       Condition has none) — and [rw_spurious] below shows safety would survive them.
   M4  The RLock is used non-reentrantly (the translator rejects nested `with`), so it is a mutex.
   M5  A thread is a finite list of rounds; a round is acquire(k) ; <section> ; release(k), the
       section being invisible to the lock ("holders release": a thread inside is always enabled).
   Python integers are unbounded: the counters are [Z] (a buggy edit may drive them negative). *)
From Coq Require Import List ZArith Bool NArith.
From PyCasbin Require Import Base RWLockLang.
From PyCasbinGen Require Import RWLockGen.
Import ListNotations.
Local Open Scope Z_scope.

(* ------------------------------------------------------------------ configurations *)
Inductive kind := Rd | Wr.

Inductive phase :=
| Idle                 (* outside the lock (before an acquire / after a release / finished)      *)
| Sleep (k : kind)     (* inside cond.wait() of acquire k, not notified                          *)
| Woken (k : kind)     (* notified, contending for the mutex to resume acquire k                 *)
| Inside (k : kind).   (* acquire k returned, release k not yet started: in the read/write section *)

Record thread := { ph : phase; todo : list kind (* rounds still to start *) }.

Record conf := {
  ar : Z;              (* _active_readers  *)
  ww : Z;              (* _waiting_writers *)
  wa : bool;           (* _writer_active   *)
  wq : list nat;       (* the condition's wait queue: indices of the sleepers, oldest first *)
  ths : list thread    (* any number of threads *)
}.

Definition kind_eqb (a b : kind) : bool :=
  match a, b with Rd, Rd | Wr, Wr => true | _, _ => false end.

Definition phase_eqb (a b : phase) : bool :=
  match a, b with
  | Idle, Idle => true
  | Sleep x, Sleep y | Woken x, Woken y | Inside x, Inside y => kind_eqb x y
  | _, _ => false
  end.

Definition init (progs : list (list kind)) : conf :=
  {| ar := 0; ww := 0; wa := false; wq := [];
     ths := map (fun p => {| ph := Idle; todo := p |}) progs |}.

Fixpoint upd {A} (i : nat) (x : A) (l : list A) : list A :=
  match l, i with
  | [], _ => []
  | _ :: r, O => x :: r
  | y :: r, S j => y :: upd j x r
  end.

Definition wake (t : thread) : thread :=
  match ph t with
  | Sleep k => {| ph := Woken k; todo := todo t |}
  | _ => t
  end.

Definition wake_at (j : nat) (l : list thread) : list thread :=
  match nth_error l j with Some t => upd j (wake t) l | None => l end.

Definition set_ths (c : conf) (l : list thread) : conf :=
  {| ar := ar c; ww := ww c; wa := wa c; wq := wq c; ths := l |}.

(* ------------------------------------------------------------------ semantics of the language *)
Definition getv (v : ivar) (c : conf) : Z := match v with VAr => ar c | VWw => ww c end.
Definition setv (v : ivar) (x : Z) (c : conf) : conf :=
  match v with
  | VAr => {| ar := x; ww := ww c; wa := wa c; wq := wq c; ths := ths c |}
  | VWw => {| ar := ar c; ww := x; wa := wa c; wq := wq c; ths := ths c |}
  end.
Definition setb (v : bvar) (b : bool) (c : conf) : conf :=
  match v with BWa => {| ar := ar c; ww := ww c; wa := b; wq := wq c; ths := ths c |} end.

Definition cmp_eval (o : cmp) (x n : Z) : bool :=
  match o with
  | CEq => x =? n | CNe => negb (x =? n)
  | CLt => x <? n | CLe => x <=? n
  | CGt => n <? x | CGe => n <=? x
  end.

Fixpoint eval (b : cond) (c : conf) : bool :=
  match b with
  | CCmp v o n => cmp_eval o (getv v c) n
  | CB BWa => wa c
  | CNot a => negb (eval a c)
  | COr a a' => eval a c || eval a' c
  | CAnd a a' => eval a c && eval a' c
  end.

(* M3 *)
Definition notify_all (c : conf) : conf :=
  {| ar := ar c; ww := ww c; wa := wa c; wq := []; ths := map wake (ths c) |}.
Definition notify_one (c : conf) : conf :=
  match wq c with
  | [] => c
  | j :: q => {| ar := ar c; ww := ww c; wa := wa c; wq := q; ths := wake_at j (ths c) |}
  end.

(* non-blocking instructions; None = not a non-blocking instruction (malformed program) *)
Fixpoint simple (i : instr) (c : conf) : option conf :=
  match i with
  | Incr v => Some (setv v (getv v c + 1) c)
  | Decr v => Some (setv v (getv v c - 1) c)
  | SetB v b => Some (setb v b c)
  | NotifyAll => Some (notify_all c)
  | Notify => Some (notify_one c)
  | IfThen b j => if eval b c then simple j c else Some c
  | Lock | Unlock | WaitWhile _ | WaitIf _ => None
  end.

Inductive outcome :=
| ODone (c : conf)        (* reached Unlock *)
| OBlocked (c : conf)     (* reached a wait whose condition holds: mutex released, caller sleeps *)
| OBad.                   (* malformed program *)

(* run the instructions of one segment, the caller holding the mutex (M1) *)
Fixpoint run (l : list instr) (c : conf) : outcome :=
  match l with
  | [] => OBad
  | Unlock :: _ => ODone c
  | WaitWhile b :: r => if eval b c then OBlocked c else run r c
  | WaitIf b :: r => if eval b c then OBlocked c else run r c
  | Lock :: _ => OBad
  | i :: r => match simple i c with Some c' => run r c' | None => OBad end
  end.

(* where a thread continues when `wait` returns: a `while` re-tests, an `if` does not *)
Fixpoint resume (l : list instr) : list instr :=
  match l with
  | [] => []
  | WaitWhile b :: r => WaitWhile b :: r
  | WaitIf _ :: r => r
  | _ :: r => resume r
  end.

Definition acq (p : prog) (k : kind) := match k with Rd => acq_read p | Wr => acq_write p end.
Definition rel (p : prog) (k : kind) := match k with Rd => rel_read p | Wr => rel_write p end.

Definition finish_acq (o : outcome) (i : nat) (k : kind) (td : list kind) : option conf :=
  match o with
  | ODone c => Some (set_ths c (upd i {| ph := Inside k; todo := td |} (ths c)))
  | OBlocked c =>
      Some {| ar := ar c; ww := ww c; wa := wa c; wq := wq c ++ [i];
              ths := upd i {| ph := Sleep k; todo := td |} (ths c) |}
  | OBad => None
  end.

(* one step of thread i under program p; None = thread i is not enabled *)
Definition mon_step (p : prog) (c : conf) (i : nat) : option conf :=
  match nth_error (ths c) i with
  | None => None
  | Some t =>
      match ph t with
      | Idle =>
          match todo t with
          | [] => None                                        (* finished *)
          | k :: td =>
              match acq p k with
              | Lock :: body => finish_acq (run body c) i k td
              | _ => None
              end
          end
      | Sleep _ => None                                       (* M2: only a notification helps *)
      | Woken k => finish_acq (run (resume (acq p k)) c) i k (todo t)
      | Inside k =>
          match rel p k with
          | Lock :: body =>
              match run body c with
              | ODone c' => Some (set_ths c' (upd i {| ph := Idle; todo := todo t |} (ths c')))
              | _ => None
              end
          | _ => None
          end
      end
  end.

(* ------------------------------------------------------------------ the abstract system
   hand-written from a reading of rwlock.py:30-53; the theorems are about this system, and
   RWLockTie.v proves  mon_step rwlock_gen = rw_step. *)
Definition sleep_on (c : conf) (i : nat) (k : kind) (td : list kind) (ww' : Z) : conf :=
  {| ar := ar c; ww := ww'; wa := wa c; wq := wq c ++ [i];
     ths := upd i {| ph := Sleep k; todo := td |} (ths c) |}.

(* lines 32-34: the reader's entry test *)
Definition try_read (c : conf) (i : nat) (td : list kind) : conf :=
  if (0 <? ww c) || wa c then sleep_on c i Rd td (ww c)
  else {| ar := ar c + 1; ww := ww c; wa := wa c; wq := wq c;
          ths := upd i {| ph := Inside Rd; todo := td |} (ths c) |}.

(* lines 45-48: the writer's entry test; w = number of registered writers including this one *)
Definition try_write (c : conf) (i : nat) (td : list kind) (w : Z) : conf :=
  if (0 <? ar c) || wa c then sleep_on c i Wr td w
  else {| ar := ar c; ww := w - 1; wa := true; wq := wq c;
          ths := upd i {| ph := Inside Wr; todo := td |} (ths c) |}.

Definition rw_step (c : conf) (i : nat) : option conf :=
  match nth_error (ths c) i with
  | None => None
  | Some t =>
      match ph t, todo t with
      | Idle, [] => None
      | Idle, Rd :: td => Some (try_read c i td)
      | Idle, Wr :: td => Some (try_write c i td (ww c + 1))        (* line 44 registers first *)
      | Sleep _, _ => None
      | Woken Rd, td => Some (try_read c i td)
      | Woken Wr, td => Some (try_write c i td (ww c))              (* already registered *)
      | Inside Rd, td =>                                            (* lines 38-40 *)
          Some (if ar c - 1 =? 0
                then {| ar := ar c - 1; ww := ww c; wa := wa c; wq := [];
                        ths := upd i {| ph := Idle; todo := td |} (map wake (ths c)) |}
                else {| ar := ar c - 1; ww := ww c; wa := wa c; wq := wq c;
                        ths := upd i {| ph := Idle; todo := td |} (ths c) |})
      | Inside Wr, td =>                                            (* lines 52-53 *)
          Some {| ar := ar c; ww := ww c; wa := false; wq := [];
                  ths := upd i {| ph := Idle; todo := td |} (map wake (ths c)) |}
      end
  end.

(* a spurious wake-up of sleeper i (NOT part of the model, M3; used only to show robustness) *)
Definition rw_spurious (c : conf) (i : nat) : option conf :=
  match nth_error (ths c) i with
  | Some t => match ph t with
              | Sleep k => Some (set_ths c (upd i {| ph := Woken k; todo := todo t |} (ths c)))
              | _ => None
              end
  | None => None
  end.

(* ------------------------------------------------------------------ runs *)
Section Runs.
  Variable step : conf -> nat -> option conf.

  (* [steps c sched c']: executing the schedule (thread indices, in order) leads from c to c' *)
  Inductive steps : conf -> list nat -> conf -> Prop :=
  | steps_nil : forall c, steps c [] c
  | steps_cons : forall c i c1 s c2, step c i = Some c1 -> steps c1 s c2 -> steps c (i :: s) c2.

  Definition reachable (progs : list (list kind)) (c : conf) : Prop :=
    exists s, steps (init progs) s c.

  Fixpoint exec (c : conf) (s : list nat) : option conf :=
    match s with
    | [] => Some c
    | i :: r => match step c i with Some c1 => exec c1 r | None => None end
    end.

  (* all configurations along a schedule, stopping at the first disabled choice *)
  Fixpoint exec_trace (c : conf) (s : list nat) : list conf :=
    match s with
    | [] => []
    | i :: r => match step c i with Some c1 => c1 :: exec_trace c1 r | None => [] end
    end.
End Runs.

(* ------------------------------------------------------------------ specification vocabulary *)
Definition phase_of (c : conf) (i : nat) : option phase :=
  match nth_error (ths c) i with Some t => Some (ph t) | None => None end.

Definition inside (c : conf) (i : nat) (k : kind) : Prop := phase_of c i = Some (Inside k).
Definition outside (c : conf) (i : nat) : Prop :=
  forall k, phase_of c i <> Some (Inside k).
(* writer w has registered (line 44 executed) and has not yet entered *)
Definition waiting_writer (c : conf) (w : nat) : Prop :=
  phase_of c w = Some (Sleep Wr) \/ phase_of c w = Some (Woken Wr).
Definition sleeping (c : conf) (i : nat) (k : kind) : Prop := phase_of c i = Some (Sleep k).
Definition finished (t : thread) : Prop := ph t = Idle /\ todo t = [].
Definition enabled (step : conf -> nat -> option conf) (c : conf) (i : nat) : Prop :=
  exists c', step c i = Some c'.
(* the condition a sleeper of kind k is waiting to become false (lines 32 and 45) *)
Definition wait_cond (k : kind) (c : conf) : bool :=
  match k with Rd => (0 <? ww c) || wa c | Wr => (0 <? ar c) || wa c end.

(* executable versions, for the oracle and the search *)
Definition is_inside (t : thread) : bool :=
  match ph t with Inside _ => true | _ => false end.
Definition is_inside_w (t : thread) : bool :=
  match ph t with Inside Wr => true | _ => false end.
Definition is_waiting_w (t : thread) : bool :=
  match ph t with Sleep Wr | Woken Wr => true | _ => false end.
Definition is_finished (t : thread) : bool :=
  match ph t, todo t with Idle, [] => true | _, _ => false end.
Definition count {A} (f : A -> bool) (l : list A) : nat := length (filter f l).

(* exclusion as a state predicate: a writer inside is the only thread inside *)
Definition excl_ok (c : conf) : bool :=
  match count is_inside_w (ths c) with
  | O => true
  | _ => Nat.eqb (count is_inside (ths c)) 1
  end.

Definition enabled_list (step : conf -> nat -> option conf) (c : conf) : list nat :=
  filter (fun i => match step c i with Some _ => true | None => false end) (seq 0 (length (ths c))).

(* deadlock: somebody is unfinished and nobody can move *)
Definition deadlocked (step : conf -> nat -> option conf) (c : conf) : bool :=
  negb (forallb is_finished (ths c)) && match enabled_list step c with [] => true | _ => false end.

(* a sleeper whose wait condition is false and who has not been notified: a lost wake-up *)
Definition lost_wakeup (c : conf) : bool :=
  existsb (fun t => match ph t with Sleep k => negb (wait_cond k c) | _ => false end) (ths c).

(* writer preference on one transition: thread i, a reader, went inside although a writer was
   registered as waiting in the source configuration *)
Definition pref_violation (c : conf) (i : nat) (c' : conf) : bool :=
  match phase_of c i, phase_of c' i with
  | Some p, Some (Inside Rd) =>
      negb (phase_eqb p (Inside Rd)) && existsb is_waiting_w (ths c)
  | _, _ => false
  end.

(* ---------- specification on observed EVENT TRACES (what the harness evaluates on the real lock)
   one event per scheduler step: thread, kind of the round, what the segment ended in *)
Inductive what := Blocked | Entered | Exited.
Record event := { e_tid : nat; e_kind : kind; e_what : what }.

(* event of the transition c --i--> c' *)
Definition event_of (c : conf) (i : nat) (c' : conf) : option event :=
  match phase_of c' i, phase_of c i with
  | Some (Sleep k), _ => Some {| e_tid := i; e_kind := k; e_what := Blocked |}
  | Some (Inside k), _ => Some {| e_tid := i; e_kind := k; e_what := Entered |}
  | Some Idle, Some (Inside k) => Some {| e_tid := i; e_kind := k; e_what := Exited |}
  | _, _ => None
  end.

Definition remove_nat (x : nat) (l : list nat) : list nat := filter (fun y => negb (Nat.eqb x y)) l.
Definition mem_nat (x : nat) (l : list nat) : bool := existsb (Nat.eqb x) l.

(* monitor automaton over events: who is inside, which writers wait (in order of registration),
   which readers arrived (first Blocked of the round) AFTER at least one currently waiting writer *)
Record mstate := {
  in_r : list nat;          (* readers inside *)
  in_w : list nat;          (* writers inside *)
  wait_w : list nat;        (* writers registered and not yet inside *)
  wait_r : list (nat * list nat)   (* blocked readers, each with the writers that registered before it
                                      arrived and have not entered since *)
}.
Definition m0 : mstate := {| in_r := []; in_w := []; wait_w := []; wait_r := [] |}.

Fixpoint assoc_nat (x : nat) (l : list (nat * list nat)) : option (list nat) :=
  match l with [] => None | (y, v) :: r => if Nat.eqb x y then Some v else assoc_nat x r end.
Definition remove_assoc (x : nat) (l : list (nat * list nat)) : list (nat * list nat) :=
  filter (fun yv => negb (Nat.eqb x (fst yv))) l.

(* result of feeding one event: new state + verdicts (exclusion ok, strong preference ok,
   preference-as-worded ok) *)
Definition mon_event (m : mstate) (e : event) : mstate * (bool * bool * bool) :=
  let t := e_tid e in
  match e_kind e, e_what e with
  | Rd, Blocked =>
      ({| in_r := in_r m; in_w := in_w m; wait_w := wait_w m;
          wait_r := match assoc_nat t (wait_r m) with
                    | Some _ => wait_r m                       (* re-blocked: arrival stays *)
                    | None => (t, wait_w m) :: wait_r m end |}, (true, true, true))
  | Wr, Blocked =>
      ({| in_r := in_r m; in_w := in_w m;
          wait_w := if mem_nat t (wait_w m) then wait_w m else wait_w m ++ [t];
          wait_r := wait_r m |}, (true, true, true))
  | Rd, Entered =>
      (* writers that were already waiting when this reader arrived and are still waiting *)
      let earlier := match assoc_nat t (wait_r m) with
                     | Some ws => ws
                     | None => wait_w m end in  (* arrives now: every waiting writer was earlier *)
      ({| in_r := t :: in_r m; in_w := in_w m; wait_w := wait_w m; wait_r := remove_assoc t (wait_r m) |},
       (match in_w m with [] => true | _ => false end,
        match wait_w m with [] => true | _ => false end,
        match earlier with [] => true | _ => false end))
  | Wr, Entered =>
      ({| in_r := in_r m; in_w := t :: in_w m; wait_w := remove_nat t (wait_w m);
          wait_r := map (fun rw => (fst rw, remove_nat t (snd rw))) (wait_r m) |},
       (match in_w m, in_r m with [], [] => true | _, _ => false end, true, true))
  | Rd, Exited =>
      ({| in_r := remove_nat t (in_r m); in_w := in_w m; wait_w := wait_w m; wait_r := wait_r m |},
       (true, true, true))
  | Wr, Exited =>
      ({| in_r := in_r m; in_w := remove_nat t (in_w m); wait_w := wait_w m; wait_r := wait_r m |},
       (true, true, true))
  end.

(* index of the first event at which each verdict fails (None = never) *)
Fixpoint mon_trace (m : mstate) (n : nat) (l : list event)
  (acc : option nat * option nat * option nat) : option nat * option nat * option nat :=
  match l with
  | [] => acc
  | e :: r =>
      let '(m', (x, s, w)) := mon_event m e in
      let '(ax, as_, aw) := acc in
      let f (a : option nat) (ok : bool) := match a with Some _ => a | None => if ok then None else Some n end in
      mon_trace m' (S n) r (f ax x, f as_ s, f aw w)
  end.
Definition spec_trace (l : list event) := mon_trace m0 O l (None, None, None).

(* readers share: a reader's acquire blocks only while a writer is inside or registered
   (so any number of readers may be inside together) *)
Definition share_ok (m : mstate) (e : event) : bool :=
  match e_kind e, e_what e with
  | Rd, Blocked => negb (match in_w m, wait_w m with [], [] => true | _, _ => false end)
  | _, _ => true
  end.
Fixpoint share_trace (m : mstate) (n : nat) (l : list event) : option nat :=
  match l with
  | [] => None
  | e :: r => if share_ok m e then share_trace (fst (mon_event m e)) (S n) r else Some n
  end.
Definition spec_share (l : list event) : option nat := share_trace m0 O l.

(* events of a schedule *)
Section TraceEvents.
  Variable step : conf -> nat -> option conf.
  Fixpoint events (c : conf) (s : list nat) : list event :=
    match s with
    | [] => []
    | i :: r => match step c i with
                | Some c1 => match event_of c i c1 with
                             | Some e => e :: events c1 r
                             | None => events c1 r
                             end
                | None => []
                end
    end.
End TraceEvents.

(* ------------------------------------------------------------------ oracle *)
Local Open Scope N_scope.

Definition vz (z : Z) : val :=
  match z with
  | Z0 => VL [VN 0; VN 0]
  | Zpos p => VL [VN 0; VN (Npos p)]
  | Zneg p => VL [VN 1; VN (Npos p)]
  end.
Definition as_z (v : val) : option Z :=
  match v with
  | VL [VN 0; VN n] => Some (Z.of_N n)
  | VL [VN 1; VN n] => Some (- Z.of_N n)%Z
  | _ => None
  end.
Definition vkind (k : kind) : val := VN (match k with Rd => 0 | Wr => 1 end).
Definition as_kind (v : val) : option kind :=
  match v with VN 0 => Some Rd | VN 1 => Some Wr | _ => None end.
Definition vphase (p : phase) : val :=
  match p with
  | Idle => VL [VN 0; VN 0]
  | Sleep k => VL [VN 1; vkind k]
  | Woken k => VL [VN 2; vkind k]
  | Inside k => VL [VN 3; vkind k]
  end.
Definition as_phase (v : val) : option phase :=
  match v with
  | VL [VN 0; _] => Some Idle
  | VL [VN 1; k] => option_map Sleep (as_kind k)
  | VL [VN 2; k] => option_map Woken (as_kind k)
  | VL [VN 3; k] => option_map Inside (as_kind k)
  | _ => None
  end.
Definition vthread (t : thread) : val := VL [vphase (ph t); vlist vkind (todo t)].
Definition as_thread (v : val) : option thread :=
  match v with
  | VL [p; td] =>
      match as_phase p, as_listof as_kind td with
      | Some p', Some td' => Some {| ph := p'; todo := td' |}
      | _, _ => None
      end
  | _ => None
  end.
Definition vconf (c : conf) : val :=
  VL [vz (ar c); vz (ww c); vbool (wa c); vlist vnat (wq c); vlist vthread (ths c)].
Definition as_conf (v : val) : option conf :=
  match v with
  | VL [a; w; b; q; l] =>
      match as_z a, as_z w, as_bool b, as_listof as_nat q, as_listof as_thread l with
      | Some a', Some w', Some b', Some q', Some l' =>
          Some {| ar := a'; ww := w'; wa := b'; wq := q'; ths := l' |}
      | _, _, _, _, _ => None
      end
  | _ => None
  end.
Definition vwhat (w : what) : val := VN (match w with Blocked => 0 | Entered => 1 | Exited => 2 end).
Definition as_what (v : val) : option what :=
  match v with VN 0 => Some Blocked | VN 1 => Some Entered | VN 2 => Some Exited | _ => None end.
Definition vevent (e : event) : val := VL [vnat (e_tid e); vkind (e_kind e); vwhat (e_what e)].
Definition as_event (v : val) : option event :=
  match v with
  | VL [t; k; w] =>
      match as_nat t, as_kind k, as_what w with
      | Some t', Some k', Some w' => Some {| e_tid := t'; e_kind := k'; e_what := w' |}
      | _, _, _ => None
      end
  | _ => None
  end.

(* which step function: 0 = interpreter on the regenerated program, 1 = abstract system *)
Definition pick_step (w : N) : conf -> nat -> option conf :=
  match w with 0 => mon_step rwlock_gen | _ => rw_step end.

(* what the harness compares after every step: configuration + set of enabled threads *)
Definition vobs (step : conf -> nat -> option conf) (c : conf) : val :=
  VL [vconf c; vlist vnat (enabled_list step c)].

Definition vfirst (o : option nat) : val := vopt vnat o.

(* successors of a configuration, with the per-transition verdicts, for the search *)
Definition vsucc (step : conf -> nat -> option conf) (c : conf) : val :=
  VL (flat_map (fun i => match step c i with
                         | Some c' => [VL [vnat i; vconf c'; vbool (pref_violation c i c');
                                           vbool (excl_ok c'); vbool (deadlocked step c');
                                           vbool (lost_wakeup c')]]
                         | None => []
                         end) (seq 0 (length (ths c)))).

Definition oracle_C16 (tag : N) (v : val) : val :=
  match tag, v with
  (* 1: [which; progs; schedule; skip] -> observation of the initial configuration and of the
        configuration after every step (stops at the first choice that is not enabled), without the
        first [skip] ones *)
  | 1, VL [VN w; ps; s; VN k] =>
      match as_listof (as_listof as_kind) ps, as_listof as_nat s with
      | Some progs, Some sched =>
          let st := pick_step w in
          VL (skipn (N.to_nat k) (map (vobs st) (init progs :: exec_trace st (init progs) sched)))
      | _, _ => vbad
      end
  (* 2: [which; conf] -> successors with verdicts *)
  | 2, VL [VN w; c] =>
      match as_conf c with Some c' => vsucc (pick_step w) c' | None => vbad end
  (* 3: [events] -> first index at which (exclusion, strong preference, preference as worded,
        readers share) fail *)
  | 3, VL [es] =>
      match as_listof as_event es with
      | Some l => let '(x, s, w) := spec_trace l in VL [vfirst x; vfirst s; vfirst w; vfirst (spec_share l)]
      | None => vbad
      end
  (* 4: [which; progs; schedule] -> the model's event trace of that schedule *)
  | 4, VL [VN w; ps; s] =>
      match as_listof (as_listof as_kind) ps, as_listof as_nat s with
      | Some progs, Some sched => vlist vevent (events (pick_step w) (init progs) sched)
      | _, _ => vbad
      end
  (* 5: [progs] -> initial configuration *)
  | 5, VL [ps] =>
      match as_listof (as_listof as_kind) ps with
      | Some progs => vconf (init progs)
      | None => vbad
      end
  | _, _ => vbad
  end.
