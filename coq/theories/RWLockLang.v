(* RWLockLang.v — syntax of the tiny deep-embedded monitor language into which
   translators/rwlock.py renders casbin/util/rwlock.py (C16).  Syntax only: the
   generated file coq/gen/RWLockGen.v imports this, RWLock.v gives the semantics.

   The instruction set is deliberately a little larger than what today's file uses
   ([WaitIf], single [Notify], all six comparisons) so that plausible edits
   (`while`->`if`, `notify_all`->`notify`, `== 0`->`<= 1`) stay translatable and
   therefore searchable instead of ending as a translator rejection. *)
From Coq Require Import List ZArith Bool.
Import ListNotations.

(* the two integer fields and the boolean field of RWLockWrite (rwlock.py:26-28) *)
Inductive ivar := VAr (* _active_readers *) | VWw (* _waiting_writers *).
Inductive bvar := BWa (* _writer_active *).

Inductive cmp := CEq | CNe | CLt | CLe | CGt | CGe.

Inductive cond :=
| CCmp (v : ivar) (o : cmp) (n : Z)      (* self._v <o> n *)
| CB (v : bvar)                          (* self._writer_active *)
| CNot (c : cond)
| COr (a b : cond)
| CAnd (a b : cond).

Inductive instr :=
| Lock                                   (* `with self._lock:`  (mutex acquisition)            *)
| Unlock                                 (* end of the with-block (mutex release)              *)
| WaitWhile (c : cond)                   (* while c: self._cond.wait()                         *)
| WaitIf (c : cond)                      (* if c: self._cond.wait()      (not used today)      *)
| Incr (v : ivar)                        (* self._v += 1                                       *)
| Decr (v : ivar)                        (* self._v -= 1                                       *)
| SetB (v : bvar) (b : bool)             (* self._writer_active = True/False                   *)
| IfThen (c : cond) (i : instr)          (* if c: <one non-blocking instruction>               *)
| NotifyAll                              (* self._cond.notify_all()                            *)
| Notify.                                (* self._cond.notify()          (not used today)      *)

(* the four methods (the repository spells them "aquire") *)
Record prog := {
  acq_read : list instr;      (* RWLockWrite.aquire_read   *)
  rel_read : list instr;      (* RWLockWrite.release_read  *)
  acq_write : list instr;     (* RWLockWrite.aquire_write  *)
  rel_write : list instr      (* RWLockWrite.release_write *)
}.
